import Pose.Model.Lie
/-!
# Model of the hand-written autograd `Function`s of `pypose/lietensor/operation.py`  (property C04)

Every `torch.autograd.Function` of `operation.py` is a pair `(forward, backward)`; the forward passes are the
shared definitions of `Lie.lean`, the backward passes are modelled here *as written*: the same saved tensors
(`input` for `*_Exp`, `output` for `*_Log`/`*_Inv`, `(X, out)` for `*_Act`, `(out, adj_matrix)` for `*_AdjXa`,
`X` for `*_Mul`, `(X, a)` for `*_AdjTXa`), the same helper matrices, the same row-vector products, the same
zero padding of the last storage slot of every group gradient, `grad_output[..., :-1]` wherever the code
drops the last slot of an incoming group cotangent.

Values travel as `DVec α` in PyPose storage order.  A differentiable program is a deep-embedded expression
tree `Prog` over the public LieTensor operators with (possibly shared) leaves; `eval` is the forward pass,
`backprop` is what the tape does: it walks the tree from the root, hands every `Function` its incoming
cotangent and emits one contribution per visit of a leaf; contributions of a shared leaf are summed (`grad`).

`Jinvp` is not a `Function` in the code: it is `*_Jl_inv(*_Log.apply(X)) @ p`, so its backward is PyTorch's own
autograd of the built-in ops inside `*_Jl_inv` followed by `*_Log.backward`.  PyTorch's autograd of built-in
ops is an external kernel: the derivative `D = ∂(JlInv(φ)·p)/∂φ` is the contract parameter `dJ` of `backprop`.
-/
namespace PP.AD
open PP

variable {α : Type} [Scalar α]

inductive Grp | SO3 | SE3 | RxSO3 | Sim3
deriving DecidableEq, Repr, Inhabited

/-- storage dimension of the group element -/
def Grp.gdim : Grp → Nat | .SO3 => 4 | .SE3 => 7 | .RxSO3 => 5 | .Sim3 => 8
/-- manifold dimension = storage dimension of the algebra element -/
def Grp.adim : Grp → Nat | .SO3 => 3 | .SE3 => 6 | .RxSO3 => 4 | .Sim3 => 7

/-! ## storage-order accessors -/
def nth (l : DVec α) (i : Nat) : α := l.getD i (k 0)
def v3 (l : DVec α) (o : Nat := 0) : Vec3 α := ⟨nth l o, nth l (o+1), nth l (o+2)⟩
def qt (l : DVec α) (o : Nat := 0) : Quat α := ⟨nth l o, nth l (o+1), nth l (o+2), nth l (o+3)⟩
def toSE3 (l : DVec α) : SE3 α := ⟨v3 l 0, qt l 3⟩
def toRx (l : DVec α) : RxSO3 α := ⟨qt l 0, nth l 4⟩
def toSim (l : DVec α) : Sim3 α := ⟨v3 l 0, qt l 3, nth l 7⟩
def tose3 (l : DVec α) : se3 α := ⟨v3 l 0, v3 l 3⟩
def torx (l : DVec α) : rxso3 α := ⟨v3 l 0, nth l 3⟩
def tosim (l : DVec α) : sim3 α := ⟨v3 l 0, v3 l 3, nth l 6⟩

/-- `g[..., :-1]` restricted to the manifold slots -/
def headN (n : Nat) (l : DVec α) : DVec α := (List.range n).map (nth l)
/-- `torch.cat((g, zero), -1)` -/
def pad0 (l : DVec α) : DVec α := l ++ [k 0]

/-! ## helper matrices of `operation.py` as dense matrices -/

/-- `*_Adj(X)` -/
def AdjMat (g : Grp) (X : DVec α) : DMat α :=
  match g with
  | .SO3 => (SO3Mat (qt X)).toRows
  | .SE3 => SE3Adj (toSE3 X)
  | .RxSO3 => RxSO3Adj (toRx X)
  | .Sim3 => Sim3Adj (toSim X)

/-- `*_adj(x)` (`so3_adj = vec2skew`) -/
def adMat (g : Grp) (x : DVec α) : DMat α :=
  match g with
  | .SO3 => (Mat3.hat (v3 x)).toRows
  | .SE3 => se3ad (tose3 x)
  | .RxSO3 => rxso3ad (torx x)
  | .Sim3 => sim3ad (tosim x)

/-- `*_Jl(x)` -/
def JlMat (g : Grp) (eps : α) (x : DVec α) : DMat α :=
  match g with
  | .SO3 => (so3Jl eps (v3 x)).toRows
  | .SE3 => se3Jl eps (tose3 x)
  | .RxSO3 => rxso3Jl eps (torx x)
  | .Sim3 => sim3Jl (tosim x)

/-- `*_Jl_inv(x)` -/
def JlInvMat (g : Grp) (eps : α) (x : DVec α) : DMat α :=
  match g with
  | .SO3 => (so3JlInv eps (v3 x)).toRows
  | .SE3 => se3JlInv eps (tose3 x)
  | .RxSO3 => rxso3JlInv eps (torx x)
  | .Sim3 => sim3JlInv (tosim x)

/-- `vec2skew(-p)` -/
def hatNeg (p : Vec3 α) : Mat3 α := Mat3.hat p.neg

/-- `*_Act_Jacobian(out)` : 3 × adim -/
def ActJac (g : Grp) (o : Vec3 α) : DMat α :=
  let H := hatNeg o
  match g with
  | .SO3 => H.toRows
  | .SE3 => DMat.hcat (DMat.one 3) H.toRows
  | .RxSO3 => DMat.hcat H.toRows (DMat.colVec o.toList)
  | .Sim3 => DMat.hcat (DMat.hcat (DMat.one 3) H.toRows) (DMat.colVec o.toList)

/-- `*_Act4_Jacobian(out)` : 4 × adim (`o` = first three slots of `out`, `w` = fourth) -/
def Act4Jac (g : Grp) (o : Vec3 α) (w : α) : DMat α :=
  let H := hatNeg o
  let Iw := (Mat3.smul w Mat3.one).toRows
  match g with
  | .SO3 => DMat.vcat H.toRows (DMat.zero 1 3)
  | .SE3 => DMat.vcat (DMat.hcat Iw H.toRows) (DMat.zero 1 6)
  | .RxSO3 => DMat.vcat (DMat.hcat H.toRows (DMat.colVec o.toList)) (DMat.zero 1 4)
  | .Sim3 => DMat.vcat (DMat.hcat (DMat.hcat Iw H.toRows) (DMat.colVec o.toList)) (DMat.zero 1 7)

/-- `m[..., :3, :3]` of `*_Matrix(X)` : `R` or `s·R` -/
def Mat33 (g : Grp) (X : DVec α) : Mat3 α :=
  match g with
  | .SO3 => SO3Mat (qt X)
  | .SE3 => SO3Mat (qt X 3)
  | .RxSO3 => Mat3.smul (nth X 4) (SO3Mat (qt X))
  | .Sim3 => Mat3.smul (nth X 7) (SO3Mat (qt X 3))

/-- translation column of `*_Matrix4x4(X)` -/
def transOf (g : Grp) (X : DVec α) : Vec3 α :=
  match g with
  | .SO3 => Vec3.zero | .RxSO3 => Vec3.zero
  | .SE3 => v3 X 0 | .Sim3 => v3 X 0

/-- `*_Matrix4x4(X)` -/
def Mat44 (g : Grp) (X : DVec α) : DMat α :=
  DMat.block (Mat33 g X).toRows (DMat.colVec (transOf g X).toList) (DMat.zero 1 3) [[k 1]]

/-! ## forward passes (storage order in, storage order out) -/

def expF (g : Grp) (eps : α) (x : DVec α) : DVec α :=
  match g with
  | .SO3 => (so3Exp eps (v3 x)).toList
  | .SE3 => (se3Exp eps (tose3 x)).toList
  | .RxSO3 => (rxso3Exp eps (torx x)).toList
  | .Sim3 => (sim3Exp eps (tosim x)).toList

def logF (g : Grp) (eps : α) (X : DVec α) : DVec α :=
  match g with
  | .SO3 => (SO3Log eps (qt X)).toList
  | .SE3 => (SE3Log eps (toSE3 X)).toList
  | .RxSO3 => (RxSO3Log eps (toRx X)).toList
  | .Sim3 => (Sim3Log eps (toSim X)).toList

def invF (g : Grp) (X : DVec α) : DVec α :=
  match g with
  | .SO3 => (qt X).conj.toList
  | .SE3 => (SE3Inv (toSE3 X)).toList
  | .RxSO3 => (RxSO3Inv (toRx X)).toList
  | .Sim3 => (Sim3Inv (toSim X)).toList

def mulF (g : Grp) (X Y : DVec α) : DVec α :=
  match g with
  | .SO3 => ((qt X).mul (qt Y)).toList
  | .SE3 => (SE3Mul (toSE3 X) (toSE3 Y)).toList
  | .RxSO3 => (RxSO3Mul (toRx X) (toRx Y)).toList
  | .Sim3 => (Sim3Mul (toSim X) (toSim Y)).toList

def actF (g : Grp) (X p : DVec α) : DVec α :=
  match g with
  | .SO3 => ((qt X).act (v3 p)).toList
  | .SE3 => (SE3Act (toSE3 X) (v3 p)).toList
  | .RxSO3 => (RxSO3Act (toRx X) (v3 p)).toList
  | .Sim3 => (Sim3Act (toSim X) (v3 p)).toList

def pairL (r : Vec3 α × α) : DVec α := r.1.toList ++ [r.2]

def act4F (g : Grp) (X p : DVec α) : DVec α :=
  match g with
  | .SO3 => pairL (SO3Act4 (qt X) (v3 p) (nth p 3))
  | .SE3 => pairL (SE3Act4 (toSE3 X) (v3 p) (nth p 3))
  | .RxSO3 => pairL (RxSO3Act4 (toRx X) (v3 p) (nth p 3))
  | .Sim3 => pairL (Sim3Act4 (toSim X) (v3 p) (nth p 3))

/-- `*_AdjXa.forward` : `Adj(X) @ a` -/
def adjF (g : Grp) (X a : DVec α) : DVec α := (AdjMat g X).mulVec a
/-- `*_AdjTXa.forward` : `AdjXa(Inv(X), a)` -/
def adjTF (g : Grp) (X a : DVec α) : DVec α := adjF g (invF g X) a

/-- `LieType.matrix` on a group element: columns are `Act`/`Act4` of the basis vectors (row-major flat) -/
def matrixF (g : Grp) (X : DVec α) : DVec α :=
  match g with
  | .SO3 => (SO3matrix (qt X)).toList
  | .SE3 => (SE3matrix (toSE3 X)).flat
  | .RxSO3 => (RxSO3matrix (toRx X)).flat
  | .Sim3 => (Sim3matrix (toSim X)).flat

/-- `*_Jl_inv(phi) @ p` -/
def jlInvP (g : Grp) (eps : α) (phi p : DVec α) : DVec α := (JlInvMat g eps phi).mulVec p
/-- `Jinvp` forward -/
def jinvpF (g : Grp) (eps : α) (X p : DVec α) : DVec α := jlInvP g eps (logF g eps X) p

/-! ## backward passes, as written -/

/-- `*_Exp.backward` (saved: `input`) : `grad_output[..., :-1] @ Jl(input)` -/
def expB (g : Grp) (eps : α) (input go : DVec α) : DVec α :=
  DMat.vecMul (headN g.adim go) (JlMat g eps input)

/-- `*_Log.backward` (saved: `output`) : `cat(grad_output @ Jl_inv(output), 0)` -/
def logB (g : Grp) (eps : α) (output go : DVec α) : DVec α :=
  pad0 (DMat.vecMul go (JlInvMat g eps output))

/-- `*_Inv.backward` (saved: `Y = output`) : `cat(-(grad_output[..., :-1] @ Adj(Y)), 0)` -/
def invB (g : Grp) (Y go : DVec α) : DVec α :=
  pad0 (DVec.neg (DMat.vecMul (headN g.adim go) (AdjMat g Y)))

/-- `*_Mul.backward` (saved: `X`) -/
def mulB (g : Grp) (X go : DVec α) : DVec α × DVec α :=
  let h := headN g.adim go
  (pad0 h, pad0 (DMat.vecMul h (AdjMat g X)))

/-- `*_Act.backward` (saved: `X, out`) -/
def actB (g : Grp) (X out go : DVec α) : DVec α × DVec α :=
  (pad0 (DMat.vecMul go (ActJac g (v3 out))), DMat.vecMul go (Mat33 g X).toRows)

/-- `*_Act4.backward` (saved: `X, out`) -/
def act4B (g : Grp) (X out go : DVec α) : DVec α × DVec α :=
  (pad0 (DMat.vecMul go (Act4Jac g (v3 out) (nth out 3))), DMat.vecMul go (Mat44 g X))

/-- `*_AdjXa.backward` (saved: `out, adj_matrix`) -/
def adjB (g : Grp) (X out go : DVec α) : DVec α × DVec α :=
  (pad0 (DMat.vecMul (DVec.neg go) (adMat g out)), DMat.vecMul go (AdjMat g X))

/-- `*_AdjTXa.backward` (saved: `X, a`).  Two different code shapes:
`SO3`               : `a_grad = AdjXa(X, grad_output)`, `X_grad = -a @ adj(a_grad)`;
`SE3`/`RxSO3`/`Sim3`: `a_grad = grad_output @ Adj(Inv(X))`, `X_grad = a_grad @ adj(a)`. -/
def adjTB (g : Grp) (X a go : DVec α) : DVec α × DVec α :=
  match g with
  | .SO3 =>
    let ag := adjF g X go
    (pad0 (DMat.vecMul (DVec.neg a) (adMat g ag)), ag)
  | .SE3 | .RxSO3 | .Sim3 =>
    let ag := DMat.vecMul go (AdjMat g (invF g X))
    (pad0 (DMat.vecMul ag (adMat g a)), ag)

/-- column `j` (0-based) of a row-major flat `n×n` cotangent -/
def colOf (n j : Nat) (go : DVec α) : DVec α := (List.range n).map (fun i => nth go (i * n + j))

/-- backward of `matrix()` = `X.unsqueeze(-2).Act(I).transpose(-1,-2)`: the `j`-th column of the cotangent is
the cotangent of `Act(X, e_j)`; the broadcast of `X` over the columns sums their `X`-gradients. -/
def matrixB (g : Grp) (X go : DVec α) : DVec α :=
  match g with
  | .SO3 =>
    let col := fun (j : Nat) =>
      let e : DVec α := DVec.basis 3 j
      (actB g X (actF g X e) (colOf 3 j go)).1
    DVec.add (DVec.add (col 0) (col 1)) (col 2)
  | _ =>
    let col := fun (j : Nat) =>
      let e : DVec α := DVec.basis 4 j
      (act4B g X (act4F g X e) (colOf 4 j go)).1
    DVec.add (DVec.add (DVec.add (col 0) (col 1)) (col 2)) (col 3)

/-- backward of `Jinvp` = autograd of `Jl_inv(φ) @ p` (built-in ops; derivative with respect to `φ` supplied by the
contract parameter `D : adim × adim`) followed by `*_Log.backward` (saved: `φ`). -/
def jinvpB (g : Grp) (eps : α) (D : DMat α) (phi go : DVec α) : DVec α × DVec α :=
  (logB g eps phi (DMat.vecMul go D), DMat.vecMul go (JlInvMat g eps phi))

/-! ## programs -/

inductive Op1 | Exp | Log | Inv | Matrix
deriving DecidableEq, Repr, Inhabited
inductive Op2 | Mul | Act | Act4 | Adj | AdjT | Jinvp
deriving DecidableEq, Repr, Inhabited

/-- expression trees; `Retr X a` is the code's `a.Exp() * X`, i.e. `bin Mul g (un Exp g a) X`;
`matrix()` of an algebra element is `un Matrix g (un Exp g x)`. -/
inductive Prog
  | leaf (i : Nat)
  | un (o : Op1) (g : Grp) (p : Prog)
  | bin (o : Op2) (g : Grp) (p q : Prog)
deriving Repr, Inhabited

def Prog.retr (g : Grp) (X a : Prog) : Prog := .bin .Mul g (.un .Exp g a) X

def fwd1 (o : Op1) (g : Grp) (eps : α) (x : DVec α) : DVec α :=
  match o with
  | .Exp => expF g eps x | .Log => logF g eps x | .Inv => invF g x | .Matrix => matrixF g x

def fwd2 (o : Op2) (g : Grp) (eps : α) (x y : DVec α) : DVec α :=
  match o with
  | .Mul => mulF g x y | .Act => actF g x y | .Act4 => act4F g x y
  | .Adj => adjF g x y | .AdjT => adjTF g x y | .Jinvp => jinvpF g eps x y

/-- backward of a unary node given its input, its output and the incoming cotangent -/
def bwd1 (o : Op1) (g : Grp) (eps : α) (x out go : DVec α) : DVec α :=
  match o with
  | .Exp => expB g eps x go | .Log => logB g eps out go | .Inv => invB g out go | .Matrix => matrixB g x go

/-- contract parameter: Jacobian of `φ ↦ Jl_inv(φ)·p` as computed by PyTorch's autograd of built-in ops -/
abbrev DJ (α : Type) := Grp → α → DVec α → DVec α → DMat α

def bwd2 (dJ : DJ α) (o : Op2) (g : Grp) (eps : α) (x y out go : DVec α) : DVec α × DVec α :=
  match o with
  | .Mul => mulB g x go | .Act => actB g x out go | .Act4 => act4B g x out go
  | .Adj => adjB g x out go | .AdjT => adjTB g x y go
  | .Jinvp => let phi := logF g eps x; jinvpB g eps (dJ g eps phi y) phi go

def eval (eps : α) (env : List (DVec α)) : Prog → DVec α
  | .leaf i => env.getD i []
  | .un o g p => fwd1 o g eps (eval eps env p)
  | .bin o g p q => fwd2 o g eps (eval eps env p) (eval eps env q)

/-- reverse sweep: list of `(leaf index, cotangent contribution)` in visiting order -/
def backprop (dJ : DJ α) (eps : α) (env : List (DVec α)) : Prog → DVec α → List (Nat × DVec α)
  | .leaf i, go => [(i, go)]
  | .un o g p, go =>
    let x := eval eps env p
    backprop dJ eps env p (bwd1 o g eps x (fwd1 o g eps x) go)
  | .bin o g p q, go =>
    let x := eval eps env p
    let y := eval eps env q
    let r := bwd2 dJ o g eps x y (fwd2 o g eps x y) go
    backprop dJ eps env p r.1 ++ backprop dJ eps env q r.2

/-- what ends up in `.grad` of leaf `i`: the sum of its contributions (zero vector of length `n` if none) -/
def grad (n i : Nat) (cs : List (Nat × DVec α)) : DVec α :=
  cs.foldl (fun acc c => if c.1 == i then DVec.add acc c.2 else acc) (DVec.zero n)

/-! ## left perturbation (used by the executable finite-difference oracle and by the theorems) -/

/-- `Exp(τ) @ X` -/
def retrF (g : Grp) (eps : α) (X tau : DVec α) : DVec α := mulF g (expF g eps tau) X

/-- chart of a group-valued output around `Y0`: `Log(Y · Y0⁻¹)` -/
def chartF (g : Grp) (eps : α) (Y0 Y : DVec α) : DVec α := logF g eps (mulF g Y (invF g Y0))

end PP.AD
