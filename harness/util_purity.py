"""C06 non-mutation clause: synthesised arguments for the public, non-underscore API of pypose.

`registry()` -> {name: builder}, builder(g, variant) -> (callable, args, kwargs) with every tensor derived from the
torch.Generator `g` (seeded from the case), so a finding replays exactly.  `sweep_names()` lists what is covered;
`uncovered()` lists public callables that have no builder (reported in the evidence, never silently dropped).
"""
from __future__ import annotations

import inspect
import types

import torch

from .util_batch import ALGEBRA, DIM, GROUPS, LTYPES, ltype_of, pp


def _rn(g, *shape, dtype=torch.float64, scale=1.0):
    return torch.randn(*shape, generator=g, dtype=dtype) * scale


def _lie(g, name, *lshape, dtype=torch.float64):
    P = pp()
    alg = ALGEBRA.get(name, name)
    a = _rn(g, *lshape, DIM[alg], dtype=torch.float64, scale=0.5)
    if alg in ("rxso3", "sim3"):
        a[..., -1] *= 0.2
    x = getattr(P, alg)(a)
    out = x.Exp() if name in GROUPS else x
    return P.LieTensor(out.tensor().to(dtype).clone(), ltype=ltype_of(name))


def _meth(name):
    """unbound form of a LieTensor method, so that `self` is a monitored argument"""
    def call(X, *a, **k):
        return getattr(X, name)(*a, **k)
    return call


def _spd(g, n):
    a = _rn(g, n, n)
    return a @ a.T + n * torch.eye(n, dtype=torch.float64)


def registry():
    P = pp()
    R = {}

    def reg(name):
        def deco(f):
            R[name] = f
            return f
        return deco

    # ---- lietensor: unary functions on every ltype (variant selects the ltype / batch shape)
    shapes = [(), (1,), (3,), (2, 2), (0,), (2, 1, 3)]
    for fn in ["Exp", "Log", "Inv", "Jr", "matrix", "rotation", "translation", "scale", "euler", "tensor", "quat2unit",
               "identity_like", "randn_like"]:
        def mk(fn=fn):
            def b(g, v):
                lt = LTYPES[v % 8]
                if fn == "Exp" and lt in GROUPS:
                    lt = ALGEBRA[lt]
                if fn == "Log" and lt not in GROUPS:
                    lt = [k for k, a in ALGEBRA.items() if a == lt][0]
                if fn == "Jr":
                    lt = ["SO3", "so3"][v % 2]
                return getattr(P, fn), (_lie(g, lt, *shapes[(v // 8) % len(shapes)]),), {}
            return b
        R["pp." + fn] = mk()
    for fn in ["Exp", "Log", "Inv", "Jr", "tensor", "matrix", "translation", "rotation", "scale", "euler", "lview"]:
        def mk(fn=fn):
            def b(g, v):
                lt = LTYPES[v % 8]
                if fn == "Exp" and lt in GROUPS:
                    lt = ALGEBRA[lt]
                if fn == "Log" and lt not in GROUPS:
                    lt = [k for k, a in ALGEBRA.items() if a == lt][0]
                if fn == "Jr":
                    lt = ["SO3", "so3"][v % 2]
                X = _lie(g, lt, *shapes[(v // 8) % len(shapes)])
                return _meth(fn), (X,) + ((-1,) if fn == "lview" else ()), {}
            return b
        R["LieTensor." + fn] = mk()

    # ---- binary functions / methods
    def second(g, grp, op, shape, v):
        if op in ("Mul", "mul"):
            c = v % 3
            if c == 0:
                return _lie(g, grp, *shape)
            return _rn(g, *shape, 3 if c == 1 else 4)
        if op == "Act":
            return _rn(g, *shape, 3 if v % 2 else 4)
        a = _lie(g, ALGEBRA[grp], *shape)
        if op != "Retr" and (op in ("add", "add_") or v % 2):
            return a.tensor().clone()
        return a
    bshapes = [((), ()), ((3,), (3,)), ((2, 1), (1, 3)), ((1,), (4,)), ((0,), (1,)), ((2, 3), ())]
    for op in ["Mul", "Retr", "Act", "Adj", "AdjT", "Jinvp", "add", "mul"]:
        def mk(op=op):
            def b(g, v):
                grp = GROUPS[v % 4]
                sa, sb = bshapes[(v // 4) % len(bshapes)]
                return getattr(P, op), (_lie(g, grp, *sa), second(g, grp, op, sb, v // 24)), {}
            return b
        R["pp." + op] = mk()
    for op in ["Act", "add", "mul", "Retr", "Adj", "AdjT", "Jinvp", "__matmul__", "__mul__", "__add__"]:
        def mk(op=op):
            def b(g, v):
                grp = GROUPS[v % 4]
                sa, sb = bshapes[(v // 4) % len(bshapes)]
                X = _lie(g, grp, *sa)
                kind = {"__matmul__": "Mul", "__mul__": "Mul", "__add__": "add"}.get(op, op)
                return _meth(op), (X, second(g, grp, kind, sb, v // 24)), {}
            return b
        R["LieTensor." + op] = mk()
    for op in ["cumops", "cummul", "cumprod"]:
        def mk(op=op):
            def b(g, v):
                X = _lie(g, GROUPS[v % 4], *[(5,), (2, 3), (1,), (4, 2)][(v // 4) % 4])
                if op == "cumops":
                    return getattr(P, op), (X, 0, lambda a, b_: a @ b_), {}
                return getattr(P, op), (X, 0), {"left": bool(v % 2)}
            return b
        R["pp." + op] = mk()
        R["LieTensor." + op] = (lambda op=op: lambda g, v: (
            _meth(op), (_lie(g, GROUPS[v % 4], 5),) + ((0, (lambda a, b_: a @ b_)) if op == "cumops" else (0,)), {}))()

    # ---- conversions
    @reg("pp.mat2SO3")
    def _(g, v):
        return P.mat2SO3, (_lie(g, "SO3", *shapes[v % len(shapes)]).matrix().clone(),), {"check": bool(v % 2)}

    @reg("pp.mat2SE3")
    def _(g, v):
        return P.mat2SE3, (_lie(g, "SE3", *shapes[v % len(shapes)]).matrix().clone(),), {"check": bool(v % 2)}

    @reg("pp.mat2Sim3")
    def _(g, v):
        return P.mat2Sim3, (_lie(g, "Sim3", *shapes[v % len(shapes)]).matrix().clone(),), {"check": bool(v % 2)}

    @reg("pp.mat2RxSO3")
    def _(g, v):
        return P.mat2RxSO3, (_lie(g, "RxSO3", *shapes[v % len(shapes)]).matrix().clone(),), {"check": bool(v % 2)}

    @reg("pp.from_matrix")
    def _(g, v):
        grp = GROUPS[v % 4]
        return P.from_matrix, (_lie(g, grp, 3).matrix().clone(), ltype_of(grp)), {}

    @reg("pp.euler2SO3")
    def _(g, v):
        return P.euler2SO3, (_rn(g, *shapes[v % len(shapes)], 3),), {}

    @reg("pp.vec2skew")
    def _(g, v):
        return P.vec2skew, (_rn(g, *shapes[v % len(shapes)], 3),), {}

    @reg("pp.pm")
    def _(g, v):
        return P.pm, (_rn(g, 4, 3),), {}

    @reg("pp.geodesic_loss")
    def _(g, v):
        return P.geodesic_loss, (_lie(g, "SO3", 4), _lie(g, "SO3", 4)), {}

    @reg("pp.module.GeodesicLoss")
    def _(g, v):
        return P.module.GeodesicLoss(), (_lie(g, "SO3", 4), _lie(g, "SO3", 4)), {}

    # ---- function/*
    @reg("pp.bvv")
    def _(g, v):
        return P.bvv, (_rn(g, 2, 3), _rn(g, 2, 3)), {}

    @reg("pp.bmv")
    def _(g, v):
        return P.bmv, (_rn(g, 2, 3, 4), _rn(g, 2, 4)), {}

    @reg("pp.bvmv")
    def _(g, v):
        return P.bvmv, (_rn(g, 2, 3), _rn(g, 2, 3, 4), _rn(g, 2, 4)), {}

    @reg("pp.cart2homo")
    def _(g, v):
        return P.cart2homo, (_rn(g, 5, 3),), {}

    @reg("pp.homo2cart")
    def _(g, v):
        return P.homo2cart, (_rn(g, 5, 4),), {}

    def _K(g):
        return torch.tensor([[500., 0, 320], [0, 500, 240], [0, 0, 1]], dtype=torch.float64)

    @reg("pp.point2pixel")
    def _(g, v):
        pts = _rn(g, 6, 3) + torch.tensor([0., 0, 5], dtype=torch.float64)
        return P.point2pixel, (pts, _K(g)) + ((_lie(g, "SE3"),) if v % 2 else ()), {}

    @reg("pp.pixel2point")
    def _(g, v):
        return P.pixel2point, (_rn(g, 6, 2, scale=100), _rn(g, 6).abs() + 1, _K(g)), {}

    @reg("pp.reprojerr")
    def _(g, v):
        pts = _rn(g, 6, 3) + torch.tensor([0., 0, 5], dtype=torch.float64)
        return P.reprojerr, (pts, _rn(g, 6, 2, scale=100), _K(g)) + ((_lie(g, "SE3"),) if v % 2 else ()), \
            {"reduction": ["none", "sum", "norm"][v % 3]}

    @reg("pp.knn")
    def _(g, v):
        return P.knn, (_rn(g, 5, 3), _rn(g, 7, 3)), {"k": 2}

    @reg("pp.svdtf")
    def _(g, v):
        return P.svdtf, (_rn(g, 6, 3), _rn(g, 6, 3)), {}

    @reg("pp.svdstf")
    def _(g, v):
        return P.svdstf, (_rn(g, 6, 3), _rn(g, 6, 3)), {"with_scale": bool(v % 2)}

    @reg("pp.nbr_filter")
    def _(g, v):
        return P.nbr_filter, (_rn(g, 12, 3), 2, 1.5), {"return_mask": bool(v % 2)}

    @reg("pp.random_filter")
    def _(g, v):
        return P.random_filter, (_rn(g, 12, 3), 5), {}

    @reg("pp.voxel_filter")
    def _(g, v):
        return P.voxel_filter, (_rn(g, 12, 3), [0.5, 0.5, 0.5]), {"random": bool(v % 2)}

    @reg("pp.knn_filter")
    def _(g, v):
        return P.knn_filter, (_rn(g, 12, 3), 2), ({"radius": 2.0} if v % 2 else {})

    @reg("pp.chspline")
    def _(g, v):
        return P.chspline, (_rn(g, 5, 3),), {"interval": 0.25}

    @reg("pp.bspline")
    def _(g, v):
        return P.bspline, (_lie(g, "SE3", 1, 6),), {"interval": 0.25, "extrapolate": bool(v % 2)}

    @reg("pp.hasnan")
    def _(g, v):
        return P.hasnan, ([_rn(g, 3), [_rn(g, 2)]],), {}

    @reg("pp.is_lietensor")
    def _(g, v):
        return P.is_lietensor, (_lie(g, "SE3", 2),), {}

    @reg("pp.is_SE3")
    def _(g, v):
        return P.is_SE3, (_lie(g, "SE3", 2),), {}

    # ---- metric (D4 lived here)
    def traj(g, n):
        t = torch.cumsum(_rn(g, n).abs() * 0.05 + 0.05, 0)
        return t, _lie(g, "SE3", n)

    for fn in ["ape", "rpe"]:
        def mk(fn=fn):
            def b(g, v):
                n = 8
                rs, rp = traj(g, n)
                es = rs + _rn(g, n, scale=1e-4)
                ep = _lie(g, "SE3", n)
                off = [0.0, 0.003, -0.002, 0.5][v % 4]
                kw = {"offset": off, "diff": 0.02 if off != 0.5 else 1.0, "etype": ["translation", "rotation", "pose", "radian", "degree"][v % 5],
                      "align": bool((v // 4) % 2), "scale": bool((v // 8) % 2), "origin": bool((v // 16) % 2), "thresh": 0.0}
                if fn == "rpe":
                    kw.update({"delta": 1.0, "rpair": bool((v // 32) % 2), "rtol": 0.1})
                return getattr(P.metric, fn), (rs, rp, es, ep), kw
            return b
        R["pp.metric." + fn] = mk()

    # ---- the trajectory holder used by ape / rpe (not underscore-private): its methods get the caller's tensors
    def stamped(g, n=6):
        from pypose.metric.ape_rpe import StampedSE3
        t, p = traj(g, n)
        return StampedSE3, t, p
    for meth in ["__init__", "align", "align_sim3", "reduce_to_ids", "translation", "rotation", "getitem", "accumulated_distances", "first_pose"]:
        def mk(meth=meth):
            def b(g, v):
                S, t, p = stamped(g)

                def call(t_, p_, tr):
                    obj = S(t_, p_)
                    if meth == "align":
                        return obj.align(tr)
                    if meth == "align_sim3":
                        return obj.align(_lie(g, "Sim3"))
                    if meth == "reduce_to_ids":
                        return obj.reduce_to_ids(torch.tensor([0, 2, 3]))
                    if meth == "getitem":
                        return obj[[0, 1, 4]]
                    if meth == "accumulated_distances":
                        return obj.accumulated_distances
                    if meth == "first_pose":
                        return obj.first_pose
                    if meth == "__init__":
                        return obj
                    return getattr(obj, meth)()
                return call, (t, p, _lie(g, "SE3")), {}
            return b
        R["StampedSE3." + meth] = mk()

    # ---- optim pieces (forward calls)
    for kn in ["Huber", "PseudoHuber", "Cauchy", "SoftLOne", "Arctan", "Tolerant", "Scale"]:
        R["pp.optim.kernel." + kn] = (lambda kn=kn: lambda g, v: (getattr(P.optim.kernel, kn)(), (_rn(g, 5).abs(),), {}))()
    for cn in ["FastTriggs", "Triggs"]:
        R["pp.optim.corrector." + cn] = (lambda cn=cn: lambda g, v: (
            getattr(P.optim.corrector, cn)(P.optim.kernel.Huber()), (_rn(g, 4, 2), _rn(g, 8, 3)), {}))()
    for sn in ["PINV", "LSTSQ", "Cholesky", "CG"]:
        R["pp.optim.solver." + sn] = (lambda sn=sn: lambda g, v: (
            getattr(P.optim.solver, sn)(), (_spd(g, 4)[None], _rn(g, 1, 4, 1)), {}))()

    @reg("pp.module.LTI")
    def _(g, v):
        sys_ = P.module.LTI(_rn(g, 3, 3), _rn(g, 3, 2), _rn(g, 2, 3), _rn(g, 2, 2))
        return sys_, (_rn(g, 3), _rn(g, 2)), {}

    @reg("pp.module.IMUPreintegrator")
    def _(g, v):
        m = P.module.IMUPreintegrator(prop_cov=bool(v % 2), reset=True).double()
        return m, (), {"dt": torch.full((1, 4, 1), 0.01, dtype=torch.float64), "gyro": _rn(g, 1, 4, 3), "acc": _rn(g, 1, 4, 3),
                       "rot": _lie(g, "SO3", 1, 4)}

    @reg("pp.module.ICP")
    def _(g, v):
        src = _rn(g, 1, 12, 3)
        return P.module.ICP(), (src, src + 0.01), {}

    @reg("pp.module.EPnP")
    def _(g, v):
        pts = _rn(g, 1, 8, 3) + torch.tensor([0., 0, 6], dtype=torch.float64)
        pix = P.point2pixel(pts, _K(g))
        return P.module.EPnP(), (pts, pix, _K(g)), {}

    @reg("pp.func.jacrev")
    def _(g, v):
        return P.func.jacrev(lambda pose, pts: pose @ pts), (_lie(g, "SE3", 1), _rn(g, 1, 3)), {}

    @reg("pp.Parameter")
    def _(g, v):
        return P.Parameter, (_lie(g, LTYPES[v % 8], 3),), {}

    @reg("LieTensor.new_empty")
    def _(g, v):
        lt = LTYPES[v % 8]
        return _meth("new_empty"), (_lie(g, lt, 2), (3, DIM[lt])), {}

    @reg("pp.LieTensor")
    def _(g, v):
        lt = LTYPES[v % 8]
        return P.LieTensor, (_rn(g, 2, DIM[lt]),), {"ltype": ltype_of(lt)}

    for lt in LTYPES:
        R["pp." + lt] = (lambda lt=lt: lambda g, v: (getattr(P, lt), (_rn(g, 2, DIM[lt]),), {}))()
    return R


def public_names():
    """public non-underscore callables of the pypose namespaces the property talks about"""
    P = pp()
    out = []
    spaces = [("pp.", P), ("pp.func.", P.func), ("pp.metric.", P.metric), ("pp.module.", P.module),
              ("pp.optim.kernel.", P.optim.kernel), ("pp.optim.corrector.", P.optim.corrector),
              ("pp.optim.solver.", P.optim.solver), ("pp.optim.", P.optim)]
    import functools
    for pre, mod in spaces:
        for n in sorted(dir(mod)):
            if n.startswith("_") or n.endswith("_"):
                continue
            o = getattr(mod, n)
            if isinstance(o, types.ModuleType) or not callable(o):
                continue
            m = getattr(o, "__module__", "") or ""
            if m.startswith("pypose") or isinstance(o, functools.partial):
                out.append(pre + n)
    for n, o in vars(P.LieTensor).items():
        if not n.startswith("_") and not n.endswith("_") and callable(o):
            out.append("LieTensor." + n)
    return sorted(set(out))
