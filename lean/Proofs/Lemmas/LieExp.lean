import Proofs.Lemmas.MatExp
import Mathlib.Analysis.SpecialFunctions.Exponential
import Mathlib.LinearAlgebra.Matrix.NonsingularInverse
import Mathlib.LinearAlgebra.Matrix.Determinant.Basic
/-!
# The Lie model's matrices as Mathlib matrices, and their exponentials (C01)

* `Mat3.toMatrix`, `DMat.toMatrix4` convert the model's `Mat3 ℝ` / 4×4 `DMat ℝ` to `Matrix (Fin n) (Fin n) ℝ`;
* `hatM`, `se3Gen`, `rxso3Gen`, `sim3Gen` are the generator matrices;
* `blk4 M v d = [[M, v],[0, d]]` with its algebra;
* exponentials of the block generators (`exp_blk4_hat`, `exp_blk4_scal_hat`, `exp_blk4_of_solve`);
* the closed-form coefficients of `rxso3_Ws` in regime 4 and `W·(σ1+K) = exp(σ1+K) − 1`.
-/
open Matrix NormedSpace
namespace PP
open Vec3 Quat Mat3
noncomputable section

def Mat3.toMatrix (m : Mat3 ℝ) : Matrix (Fin 3) (Fin 3) ℝ :=
  !![m.r0.x, m.r0.y, m.r0.z; m.r1.x, m.r1.y, m.r1.z; m.r2.x, m.r2.y, m.r2.z]

/-- the generator matrix `x^` of `x ∈ so3` -/
def hatM (x : Vec3 ℝ) : Matrix (Fin 3) (Fin 3) ℝ := !![0, -x.z, x.y; x.z, 0, -x.x; -x.y, x.x, 0]

theorem hat_toMatrix (x : Vec3 ℝ) : (Mat3.hat x).toMatrix = hatM x := by
  ext i j; fin_cases i <;> fin_cases j <;> simp [Mat3.toMatrix, Mat3.hat, hatM]

theorem hatM_cube (x : Vec3 ℝ) : hatM x ^ 3 = (-(x.norm * x.norm)) • hatM x := by
  rw [Vec3.norm_sq]
  ext i j
  fin_cases i <;> fin_cases j <;>
    simp [hatM, pow_succ, Matrix.mul_apply, Fin.sum_univ_three, Vec3.normSq] <;> ring

theorem polyK_toMatrix (a b c : ℝ) (x : Vec3 ℝ) :
    (polyK a b c x).toMatrix = a • (1 : Matrix (Fin 3) (Fin 3) ℝ) + b • hatM x + c • (hatM x ^ 2) := by
  ext i j
  fin_cases i <;> fin_cases j <;>
    simp [polyK, Mat3.toMatrix, hatM, pow_succ, Matrix.mul_apply, Fin.sum_univ_three, Matrix.one_apply] <;>
    lie_unfold <;> ring

/-- the matrix built from `Act` on the basis vectors, for a quaternion `(a·x, w)` — any `a`, `w` -/
theorem SO3matrix_mk_smul (x : Vec3 ℝ) (a w : ℝ) :
    SO3matrix (Quat.mk' (x.smul a) w) = polyK 1 (2 * w * a) (2 * a * a) x := by
  unfold SO3matrix polyK
  ext <;> lie_unfold <;> ring
theorem half_angle_sin (t : ℝ) : Real.sin t = 2 * Real.sin (1/2*t) * Real.cos (1/2*t) := by
  have := Real.sin_two_mul (1/2*t)
  rw [show 2 * (1/2*t) = t by ring] at this; exact this
theorem half_angle_cos (t : ℝ) : Real.cos t = 1 - 2 * Real.sin (1/2*t) ^ 2 := by
  have := Real.cos_two_mul (1/2*t)
  rw [show 2 * (1/2*t) = t by ring, Real.cos_sq'] at this; rw [this]; ring

theorem so3Exp_matrix_closed (eps : ℝ) (x : Vec3 ℝ) (h0 : 0 ≤ eps) (h : eps < x.norm) :
    (SO3matrix (so3Exp eps x)).toMatrix = NormedSpace.exp (hatM x) := by
  have hpos : 0 < x.norm := lt_of_le_of_lt h0 h
  have hne : x.norm ≠ 0 := ne_of_gt hpos
  rw [MatExp.exp_eq_rod (hatM x) x.norm hne (hatM_cube x)]
  unfold so3Exp
  simp only [lt_real, h, decide_true, if_true, sin_real, cos_real, q_real, Nat.cast_one, Nat.cast_ofNat]
  rw [SO3matrix_mk_smul, polyK_toMatrix]
  have hs : 2 * Real.cos (1/2 * x.norm) * (Real.sin (1/2 * x.norm) / x.norm) = Real.sin x.norm / x.norm := by
    rw [half_angle_sin x.norm]; field_simp
  have hc : 2 * (Real.sin (1/2 * x.norm) / x.norm) * (Real.sin (1/2 * x.norm) / x.norm)
      = (1 - Real.cos x.norm) / (x.norm * x.norm) := by
    rw [half_angle_cos x.norm]; field_simp; ring
  rw [hs, hc, one_smul]
/-- 4×4 block matrix `[[M, v],[0, d]]` -/
def blk4 (M : Matrix (Fin 3) (Fin 3) ℝ) (v : Fin 3 → ℝ) (d : ℝ) : Matrix (Fin 4) (Fin 4) ℝ :=
  !![M 0 0, M 0 1, M 0 2, v 0; M 1 0, M 1 1, M 1 2, v 1; M 2 0, M 2 1, M 2 2, v 2; 0, 0, 0, d]

theorem blk4_mul (M M' : Matrix (Fin 3) (Fin 3) ℝ) (v v' : Fin 3 → ℝ) (d d' : ℝ) :
    blk4 M v d * blk4 M' v' d' = blk4 (M * M') (M.mulVec v' + d' • v) (d * d') := by
  ext i j
  fin_cases i <;> fin_cases j <;>
    simp [blk4, Matrix.mul_apply, Fin.sum_univ_four, Fin.sum_univ_three, Matrix.mulVec, dotProduct] <;> ring

theorem blk4_add (M M' : Matrix (Fin 3) (Fin 3) ℝ) (v v' : Fin 3 → ℝ) (d d' : ℝ) :
    blk4 M v d + blk4 M' v' d' = blk4 (M + M') (v + v') (d + d') := by
  ext i j
  fin_cases i <;> fin_cases j <;> simp [blk4]

theorem blk4_smul (c : ℝ) (M : Matrix (Fin 3) (Fin 3) ℝ) (v : Fin 3 → ℝ) (d : ℝ) :
    c • blk4 M v d = blk4 (c • M) (c • v) (c * d) := by
  ext i j
  fin_cases i <;> fin_cases j <;> simp [blk4]

theorem blk4_one : (1 : Matrix (Fin 4) (Fin 4) ℝ) = blk4 1 0 1 := by
  ext i j
  fin_cases i <;> fin_cases j <;> simp [blk4]

theorem blk4_zero : (0 : Matrix (Fin 4) (Fin 4) ℝ) = blk4 0 0 0 := by
  ext i j
  fin_cases i <;> fin_cases j <;> simp [blk4]

theorem blk4_congr {M M' : Matrix (Fin 3) (Fin 3) ℝ} {v v' : Fin 3 → ℝ} {d d' : ℝ}
    (hM : M = M') (hv : v = v') (hd : d = d') : blk4 M v d = blk4 M' v' d' := by subst hM hv hd; rfl

def DMat.toMatrix4 (m : DMat ℝ) : Matrix (Fin 4) (Fin 4) ℝ :=
  Matrix.of fun i j => (m.getD i.val []).getD j.val 0

def Vec3.toFun (v : Vec3 ℝ) : Fin 3 → ℝ := ![v.x, v.y, v.z]

theorem SE3matrix_blk (X : SE3 ℝ) :
    (SE3matrix X).toMatrix4 = blk4 (SO3matrix X.q).toMatrix X.t.toFun 1 := by
  ext i j
  fin_cases i <;> fin_cases j <;>
    simp [DMat.toMatrix4, SE3matrix, matrix4, SE3Act4, blk4, SO3matrix, Mat3.toMatrix, Vec3.toFun] <;>
    lie_unfold <;> ring

theorem Sim3matrix_blk (X : Sim3 ℝ) :
    (Sim3matrix X).toMatrix4 = blk4 (X.s • (SO3matrix X.q).toMatrix) X.t.toFun 1 := by
  ext i j
  fin_cases i <;> fin_cases j <;>
    simp [DMat.toMatrix4, Sim3matrix, matrix4, Sim3Act4, blk4, SO3matrix, Mat3.toMatrix, Vec3.toFun] <;>
    lie_unfold <;> ring

theorem RxSO3matrix_blk (X : RxSO3 ℝ) :
    (RxSO3matrix X).toMatrix4 = blk4 (X.s • (SO3matrix X.q).toMatrix) 0 1 := by
  ext i j
  fin_cases i <;> fin_cases j <;>
    simp [DMat.toMatrix4, RxSO3matrix, matrix4, RxSO3Act4, blk4, SO3matrix, Mat3.toMatrix] <;>
    lie_unfold <;> ring
/-- generator matrix of `ξ = (τ, φ) ∈ se3` : `[[φ^, τ],[0, 0]]` -/
def se3Gen (x : se3 ℝ) : Matrix (Fin 4) (Fin 4) ℝ :=
  !![0, -x.phi.z, x.phi.y, x.tau.x;
     x.phi.z, 0, -x.phi.x, x.tau.y;
     -x.phi.y, x.phi.x, 0, x.tau.z;
     0, 0, 0, 0]

theorem se3Gen_blk (x : se3 ℝ) : se3Gen x = blk4 (hatM x.phi) x.tau.toFun 0 := by
  ext i j
  fin_cases i <;> fin_cases j <;> simp [se3Gen, blk4, hatM, Vec3.toFun]

theorem mulVec_toFun (M : Mat3 ℝ) (v : Vec3 ℝ) : M.toMatrix.mulVec v.toFun = (M.mulVec v).toFun := by
  ext i
  fin_cases i <;>
    simp [Mat3.toMatrix, Vec3.toFun, Matrix.mulVec, dotProduct, Fin.sum_univ_three, Mat3.mulVec, Vec3.dot]

/-- `exp [[K, τ],[0,0]] = [[exp K, V τ],[0,1]]` with `V = 1 + c₁ K + c₂ K²` -/
theorem exp_blk4_hat (x : Vec3 ℝ) (tau : Fin 3 → ℝ) (hne : x.norm ≠ 0) :
    NormedSpace.exp (blk4 (hatM x) tau 0) =
      blk4 (NormedSpace.exp (hatM x))
        (((1 : Matrix (Fin 3) (Fin 3) ℝ) + ((1 - Real.cos x.norm) / (x.norm * x.norm)) • hatM x
          + ((x.norm - Real.sin x.norm) / (x.norm * x.norm * x.norm)) • (hatM x ^ 2)).mulVec tau) 1 := by
  set K := hatM x with hK
  set th := x.norm with hth
  have h3 : K ^ 3 = (-(th*th)) • K := hatM_cube x
  set A := blk4 K tau 0 with hA
  have hA2 : A ^ 2 = blk4 (K ^ 2) (K.mulVec tau) 0 := by
    rw [pow_two, hA, blk4_mul]; exact blk4_congr (pow_two K).symm (by simp) (by simp)
  have hA3 : A ^ 3 = blk4 (K ^ 3) ((K ^ 2).mulVec tau) 0 := by
    rw [pow_succ, hA2, hA, blk4_mul]; exact blk4_congr (pow_succ K 2).symm (by simp) (by simp)
  have hA4 : A ^ 4 = blk4 (K ^ 4) ((K ^ 3).mulVec tau) 0 := by
    rw [pow_succ, hA3, hA, blk4_mul]; exact blk4_congr (pow_succ K 3).symm (by simp) (by simp)
  have hK4 : K ^ 4 = (-(th*th)) • K ^ 2 := by
    rw [pow_succ, h3, smul_mul_assoc, pow_two]
  have h4 : A ^ 4 = (-(th*th)) • A ^ 2 := by
    rw [hA4, hA2, blk4_smul, hK4, h3]
    exact blk4_congr rfl (by rw [Matrix.smul_mulVec]) (by simp)
  rw [MatExp.exp_eq_rod2 A th hne h4, MatExp.exp_eq_rod K th hne h3, hA2, hA3, hA, blk4_one, blk4_smul, blk4_smul,
    blk4_add, blk4_add, blk4_add]
  refine blk4_congr ?_ ?_ (by simp)
  · rw [h3, smul_smul]
    have e : (th - Real.sin th) / (th * th * th) * -(th * th) = Real.sin th / th - 1 := by field_simp; ring
    rw [e, sub_smul, one_smul]; abel
  · simp only [Matrix.add_mulVec, Matrix.smul_mulVec, Matrix.one_mulVec, zero_add]

theorem so3Jl_toMatrix_closed (eps : ℝ) (x : Vec3 ℝ) (h : eps < x.norm) :
    (so3Jl eps x).toMatrix = (1 : Matrix (Fin 3) (Fin 3) ℝ) + ((1 - Real.cos x.norm) / (x.norm * x.norm)) • hatM x
          + ((x.norm - Real.sin x.norm) / (x.norm * x.norm * x.norm)) • (hatM x ^ 2) := by
  unfold so3Jl so3JlCoef
  simp only [lt_real, h, decide_true, if_true, sin_real, cos_real, k_real, Nat.cast_one]
  rw [polyK_toMatrix, one_smul]
  congr 3; ring

theorem se3Exp_matrix_closed (eps : ℝ) (x : se3 ℝ) (h0 : 0 ≤ eps) (h : eps < x.phi.norm) :
    (SE3matrix (se3Exp eps x)).toMatrix4 = NormedSpace.exp (se3Gen x) := by
  have hne : x.phi.norm ≠ 0 := ne_of_gt (lt_of_le_of_lt h0 h)
  rw [se3Gen_blk, exp_blk4_hat x.phi _ hne, SE3matrix_blk]
  refine blk4_congr ?_ ?_ rfl
  · exact so3Exp_matrix_closed eps x.phi h0 h
  · show ((so3Jl eps x.phi).mulVec x.tau).toFun = _
    rw [← mulVec_toFun, so3Jl_toMatrix_closed eps x.phi h]
theorem norm_zero_imp (x : Vec3 ℝ) (h : x.norm = 0) : x = ⟨0, 0, 0⟩ := by
  have h2 : x.normSq = 0 := by rw [← Vec3.norm_sq, h]; ring
  unfold Vec3.normSq at h2
  have hx : x.x = 0 := by nlinarith [mul_self_nonneg x.x, mul_self_nonneg x.y, mul_self_nonneg x.z]
  have hy : x.y = 0 := by nlinarith [mul_self_nonneg x.x, mul_self_nonneg x.y, mul_self_nonneg x.z]
  have hz : x.z = 0 := by nlinarith [mul_self_nonneg x.x, mul_self_nonneg x.y, mul_self_nonneg x.z]
  ext <;> simp [hx, hy, hz]

theorem hatM_zero : hatM ⟨0, 0, 0⟩ = 0 := by
  ext i j; fin_cases i <;> fin_cases j <;> simp [hatM]

/-- `exp [[K,0],[0,0]] = [[exp K,0],[0,1]]` for every `x` (including `x = 0`) -/
theorem exp_blk4_hat0 (x : Vec3 ℝ) :
    NormedSpace.exp (blk4 (hatM x) 0 0) = blk4 (NormedSpace.exp (hatM x)) 0 1 := by
  by_cases hne : x.norm = 0
  · rw [norm_zero_imp x hne, hatM_zero, ← blk4_zero, NormedSpace.exp_zero, NormedSpace.exp_zero, blk4_one]
  · rw [exp_blk4_hat x 0 hne]
    exact blk4_congr rfl (by simp) rfl

theorem exp_smul_one3 (s : ℝ) :
    NormedSpace.exp (s • (1 : Matrix (Fin 3) (Fin 3) ℝ)) = Real.exp s • (1 : Matrix (Fin 3) (Fin 3) ℝ) := by
  have e : s • (1 : Matrix (Fin 3) (Fin 3) ℝ) = Matrix.diagonal (fun _ => s) := by
    ext i j; fin_cases i <;> fin_cases j <;> simp
  rw [e, Matrix.exp_diagonal, Pi.exp_def, ← Real.exp_eq_exp_ℝ]
  ext i j; fin_cases i <;> fin_cases j <;> simp

theorem exp_blk4_scal (s : ℝ) :
    NormedSpace.exp (blk4 (s • (1 : Matrix (Fin 3) (Fin 3) ℝ)) 0 0) = blk4 (Real.exp s • 1) 0 1 := by
  have e : blk4 (s • (1 : Matrix (Fin 3) (Fin 3) ℝ)) 0 0 = Matrix.diagonal ![s, s, s, 0] := by
    ext i j; fin_cases i <;> fin_cases j <;> simp [blk4]
  rw [e, Matrix.exp_diagonal, Pi.exp_def, ← Real.exp_eq_exp_ℝ]
  ext i j; fin_cases i <;> fin_cases j <;> simp [blk4]

/-- `exp (σ·1 + K) = e^σ · exp K` (3×3) -/
theorem exp_scal_add_hat (s : ℝ) (x : Vec3 ℝ) :
    NormedSpace.exp (s • (1 : Matrix (Fin 3) (Fin 3) ℝ) + hatM x) = Real.exp s • NormedSpace.exp (hatM x) := by
  rw [Matrix.exp_add_of_commute _ _ ((Commute.one_left (hatM x)).smul_left s), exp_smul_one3, smul_mul_assoc,
    one_mul]

/-- `exp [[σ·1 + K, 0],[0,0]] = [[e^σ exp K, 0],[0,1]]` -/
theorem exp_blk4_scal_hat (s : ℝ) (x : Vec3 ℝ) :
    NormedSpace.exp (blk4 (s • (1 : Matrix (Fin 3) (Fin 3) ℝ) + hatM x) 0 0)
      = blk4 (NormedSpace.exp (s • (1 : Matrix (Fin 3) (Fin 3) ℝ) + hatM x)) 0 1 := by
  have e : blk4 (s • (1 : Matrix (Fin 3) (Fin 3) ℝ) + hatM x) 0 0
      = blk4 (s • (1 : Matrix (Fin 3) (Fin 3) ℝ)) 0 0 + blk4 (hatM x) 0 0 := by
    rw [blk4_add]; exact blk4_congr rfl (by simp) (by simp)
  have hc : Commute (blk4 (s • (1 : Matrix (Fin 3) (Fin 3) ℝ)) 0 0) (blk4 (hatM x) 0 0) := by
    show _ * _ = _ * _
    rw [blk4_mul, blk4_mul]
    exact blk4_congr (by simp) (by simp) rfl
  rw [e, Matrix.exp_add_of_commute _ _ hc, exp_blk4_scal, exp_blk4_hat0, blk4_mul, exp_scal_add_hat]
  exact blk4_congr (by simp) (by simp) (by simp)
/-- conjugation trick: if `M u = τ` then `[[M,τ],[0,0]] = P [[M,0],[0,0]] P⁻¹` with `P = [[1,-u],[0,1]]` -/
theorem exp_blk4_of_solve (M : Matrix (Fin 3) (Fin 3) ℝ) (tau u : Fin 3 → ℝ) (hu : M.mulVec u = tau)
    (hD : NormedSpace.exp (blk4 M 0 0) = blk4 (NormedSpace.exp M) 0 1) :
    NormedSpace.exp (blk4 M tau 0) = blk4 (NormedSpace.exp M) ((NormedSpace.exp M - 1).mulVec u) 1 := by
  have h1 : blk4 1 (-u) 1 * blk4 1 u 1 = 1 := by
    rw [blk4_mul, blk4_one]; exact blk4_congr (by simp) (by simp) (by simp)
  have h2 : blk4 1 u 1 * blk4 1 (-u) 1 = 1 := by
    rw [blk4_mul, blk4_one]; exact blk4_congr (by simp) (by simp) (by simp)
  let U : (Matrix (Fin 4) (Fin 4) ℝ)ˣ := ⟨blk4 1 (-u) 1, blk4 1 u 1, h1, h2⟩
  have hconj : blk4 M tau 0 = (U : Matrix (Fin 4) (Fin 4) ℝ) * blk4 M 0 0 * ((U⁻¹ : (Matrix (Fin 4) (Fin 4) ℝ)ˣ) : Matrix (Fin 4) (Fin 4) ℝ) := by
    show blk4 M tau 0 = blk4 1 (-u) 1 * blk4 M 0 0 * blk4 1 u 1
    rw [blk4_mul, blk4_mul]
    exact blk4_congr (by simp) (by simp [hu]) (by simp)
  rw [hconj, Matrix.exp_units_conj, hD]
  show blk4 1 (-u) 1 * blk4 (NormedSpace.exp M) 0 1 * blk4 1 u 1 = _
  rw [blk4_mul, blk4_mul]
  refine blk4_congr (by simp) ?_ (by simp)
  simp [Matrix.sub_mulVec]
  abel
theorem det_scal_add_hat (s : ℝ) (x : Vec3 ℝ) :
    (s • (1 : Matrix (Fin 3) (Fin 3) ℝ) + hatM x).det = s * (s * s + x.normSq) := by
  rw [Matrix.det_fin_three]
  simp [hatM, Vec3.normSq]
  ring

theorem exists_solve (s : ℝ) (x : Vec3 ℝ) (hs : s ≠ 0) (tau : Fin 3 → ℝ) :
    ∃ u : Fin 3 → ℝ, (s • (1 : Matrix (Fin 3) (Fin 3) ℝ) + hatM x).mulVec u = tau := by
  have hpos : 0 < s * s + x.normSq := by
    have := Vec3.normSq_nonneg x
    have : 0 < s * s := mul_self_pos.mpr hs
    linarith
  have hdet : IsUnit (s • (1 : Matrix (Fin 3) (Fin 3) ℝ) + hatM x).det := by
    rw [det_scal_add_hat, isUnit_iff_ne_zero]
    exact mul_ne_zero hs (ne_of_gt hpos)
  refine ⟨(s • (1 : Matrix (Fin 3) (Fin 3) ℝ) + hatM x)⁻¹.mulVec tau, ?_⟩
  rw [Matrix.mulVec_mulVec, Matrix.mul_nonsing_inv _ hdet, Matrix.one_mulVec]

/-- `(a + bK + cK²)(s + K) = as + (a + bs − cθ²)K + (b + cs)K²` -/
theorem poly_mul_gen (a b c s : ℝ) (x : Vec3 ℝ) :
    (a • (1 : Matrix (Fin 3) (Fin 3) ℝ) + b • hatM x + c • (hatM x ^ 2)) * (s • (1 : Matrix (Fin 3) (Fin 3) ℝ) + hatM x)
      = (a * s) • (1 : Matrix (Fin 3) (Fin 3) ℝ) + (a + b * s - c * x.normSq) • hatM x + (b + c * s) • (hatM x ^ 2) := by
  ext i j
  fin_cases i <;> fin_cases j <;>
    simp [hatM, pow_succ, Matrix.mul_apply, Fin.sum_univ_three, Vec3.normSq, Matrix.one_apply] <;> ring
/-- closed-form coefficients of the coupling matrix `W(θ,σ) = A K + B K² + C` (regime 4 of `rxso3_Ws`) -/
def WsA4 (th s : ℝ) : ℝ := (Real.exp s * Real.sin th * s - (Real.exp s * Real.cos th - 1) * th) / (th * (th * th + s * s))
def WsB4 (th s : ℝ) : ℝ :=
  ((Real.exp s - 1) / s - ((Real.exp s * Real.cos th - 1) * s + Real.exp s * Real.sin th * th) / (th * th + s * s))
    * (1 / (th * th))
def WsC (s : ℝ) : ℝ := (Real.exp s - 1) / s

theorem WsCoef_regime4 (eps th s : ℝ) (ht : eps < th) (hs : eps < |s|) :
    rxso3WsCoef eps th s = (WsA4 th s, WsB4 th s, WsC s) := by
  unfold rxso3WsCoef WsA4 WsB4 WsC
  simp only [sabs_real, lt_real, ht, hs, decide_true, Bool.not_true, Bool.false_and, Bool.and_self, Bool.and_false,
    Bool.false_eq_true, if_false, if_true, exp_real, sin_real, cos_real, k_real, q_real, Nat.cast_one, Nat.cast_ofNat]
  have hb : (Real.exp s - 1) * Real.cos th - 2 * (Real.sin (1 / 2 * th) * Real.sin (1 / 2 * th))
      = Real.exp s * Real.cos th - 1 := by
    have := half_angle_cos th
    linear_combination (-1 : ℝ) * this
  rw [hb]

theorem WsC_mul (s : ℝ) (hs : s ≠ 0) : WsC s * s = Real.exp s - 1 := by unfold WsC; field_simp

theorem Ws4_K (th s : ℝ) (ht : th ≠ 0) (hs : s ≠ 0) :
    WsC s + WsA4 th s * s - WsB4 th s * (th * th) = Real.exp s * (Real.sin th / th) := by
  have hc : th * th + s * s ≠ 0 := by
    have : 0 < th * th := mul_self_pos.mpr ht
    have : 0 ≤ s * s := mul_self_nonneg s
    exact ne_of_gt (by linarith)
  unfold WsC WsA4 WsB4; field_simp; ring

theorem Ws4_K2 (th s : ℝ) (ht : th ≠ 0) (hs : s ≠ 0) :
    WsA4 th s + WsB4 th s * s = Real.exp s * ((1 - Real.cos th) / (th * th)) := by
  have hc : th * th + s * s ≠ 0 := by
    have : 0 < th * th := mul_self_pos.mpr ht
    have : 0 ≤ s * s := mul_self_nonneg s
    exact ne_of_gt (by linarith)
  unfold WsA4 WsB4; field_simp; ring

theorem rxso3Ws_toMatrix (eps : ℝ) (x : rxso3 ℝ) :
    (rxso3Ws eps x).toMatrix =
      (rxso3WsCoef eps x.phi.norm x.sigma).2.2 • (1 : Matrix (Fin 3) (Fin 3) ℝ)
        + (rxso3WsCoef eps x.phi.norm x.sigma).1 • hatM x.phi
        + (rxso3WsCoef eps x.phi.norm x.sigma).2.1 • (hatM x.phi ^ 2) := by
  unfold rxso3Ws; rw [polyK_toMatrix]

/-- `Ws_mul_generator`, regime 4: `W (σ·1 + K) = exp (σ·1 + K) − 1` -/
theorem Ws_mul_gen_regime4 (eps : ℝ) (x : rxso3 ℝ) (h0 : 0 ≤ eps) (ht : eps < x.phi.norm) (hs : eps < |x.sigma|) :
    (rxso3Ws eps x).toMatrix * (x.sigma • (1 : Matrix (Fin 3) (Fin 3) ℝ) + hatM x.phi)
      = NormedSpace.exp (x.sigma • (1 : Matrix (Fin 3) (Fin 3) ℝ) + hatM x.phi) - 1 := by
  have htne : x.phi.norm ≠ 0 := ne_of_gt (lt_of_le_of_lt h0 ht)
  have hsne : x.sigma ≠ 0 := by
    intro h; rw [h, abs_zero] at hs; linarith
  rw [rxso3Ws_toMatrix, WsCoef_regime4 eps _ _ ht hs, poly_mul_gen, exp_scal_add_hat,
    MatExp.exp_eq_rod (hatM x.phi) x.phi.norm htne (hatM_cube x.phi), ← Vec3.norm_sq]
  simp only []
  rw [WsC_mul _ hsne, Ws4_K _ _ htne hsne, Ws4_K2 _ _ htne hsne]
  simp only [smul_add, smul_smul, sub_smul, one_smul]
  abel
theorem norm_zero_vec : (⟨0, 0, 0⟩ : Vec3 ℝ).norm = 0 := by
  unfold Vec3.norm Vec3.normSq; simp

theorem so3Exp_zero (eps : ℝ) (h0 : 0 ≤ eps) : so3Exp eps ⟨0, 0, 0⟩ = Quat.one := by
  have h : ¬ eps < (⟨0, 0, 0⟩ : Vec3 ℝ).norm := by rw [norm_zero_vec]; exact not_lt.mpr h0
  unfold so3Exp
  simp only [lt_real, h, decide_false, Bool.false_eq_true, if_false, norm_zero_vec]
  ext <;> lie_unfold <;> norm_num

theorem SO3matrix_one_toMatrix : (SO3matrix (Quat.one : Quat ℝ)).toMatrix = 1 := by
  ext i j
  fin_cases i <;> fin_cases j <;> simp [SO3matrix, Mat3.toMatrix] <;> lie_unfold <;> norm_num

/-- exact regimes of `so3Exp`: closed-form branch, or the zero vector -/
theorem so3Exp_matrix' (eps : ℝ) (x : Vec3 ℝ) (h0 : 0 ≤ eps) (h : eps < x.norm ∨ x.norm = 0) :
    (SO3matrix (so3Exp eps x)).toMatrix = NormedSpace.exp (hatM x) := by
  rcases h with h | h
  · exact so3Exp_matrix_closed eps x h0 h
  · rw [norm_zero_imp x h, so3Exp_zero eps h0, hatM_zero, NormedSpace.exp_zero, SO3matrix_one_toMatrix]

theorem so3Jl_zero (eps : ℝ) (h0 : 0 ≤ eps) : (so3Jl eps ⟨0, 0, 0⟩).toMatrix = 1 := by
  unfold so3Jl
  rw [polyK_toMatrix, hatM_zero]
  simp

theorem rxso3Ws_zero_phi (eps s : ℝ) :
    (rxso3Ws eps ⟨⟨0, 0, 0⟩, s⟩).toMatrix = (rxso3WsCoef eps 0 s).2.2 • (1 : Matrix (Fin 3) (Fin 3) ℝ) := by
  rw [rxso3Ws_toMatrix]
  simp only [hatM_zero, norm_zero_vec]
  simp

theorem WsCoef_C_small (eps th s : ℝ) (hs : ¬ eps < |s|) : (rxso3WsCoef eps th s).2.2 = 1 := by
  unfold rxso3WsCoef
  simp only [sabs_real, lt_real, hs, decide_false, Bool.false_eq_true, if_false, k_real, Nat.cast_one]
  split_ifs <;> rfl

theorem WsCoef_C_large (eps th s : ℝ) (hs : eps < |s|) : (rxso3WsCoef eps th s).2.2 = WsC s := by
  unfold rxso3WsCoef WsC
  simp only [sabs_real, lt_real, hs, decide_true, if_true, k_real, Nat.cast_one, exp_real]
  split_ifs <;> rfl
/-! ### generator matrices of rxso3 and sim3 -/

/-- generator matrix of `(φ, σ) ∈ rxso3` (4×4, as returned by `matrix()`): `[[σ·1 + φ^, 0],[0, 0]]` -/
def rxso3Gen (x : rxso3 ℝ) : Matrix (Fin 4) (Fin 4) ℝ :=
  !![x.sigma, -x.phi.z, x.phi.y, 0;
     x.phi.z, x.sigma, -x.phi.x, 0;
     -x.phi.y, x.phi.x, x.sigma, 0;
     0, 0, 0, 0]

/-- generator matrix of `(τ, φ, σ) ∈ sim3` : `[[σ·1 + φ^, τ],[0, 0]]` -/
def sim3Gen (x : sim3 ℝ) : Matrix (Fin 4) (Fin 4) ℝ :=
  !![x.sigma, -x.phi.z, x.phi.y, x.tau.x;
     x.phi.z, x.sigma, -x.phi.x, x.tau.y;
     -x.phi.y, x.phi.x, x.sigma, x.tau.z;
     0, 0, 0, 0]

theorem rxso3Gen_blk (x : rxso3 ℝ) :
    rxso3Gen x = blk4 (x.sigma • (1 : Matrix (Fin 3) (Fin 3) ℝ) + hatM x.phi) 0 0 := by
  ext i j
  fin_cases i <;> fin_cases j <;> simp [rxso3Gen, blk4, hatM]

theorem sim3Gen_blk (x : sim3 ℝ) :
    sim3Gen x = blk4 (x.sigma • (1 : Matrix (Fin 3) (Fin 3) ℝ) + hatM x.phi) x.tau.toFun 0 := by
  ext i j
  fin_cases i <;> fin_cases j <;> simp [sim3Gen, blk4, hatM, Vec3.toFun]

theorem sim3Exp_matrix_of_solve (eps : ℝ) (x : sim3 ℝ) (hs : x.sigma ≠ 0)
    (hR : (SO3matrix (so3Exp eps x.phi)).toMatrix = NormedSpace.exp (hatM x.phi))
    (hW : (rxso3Ws eps ⟨x.phi, x.sigma⟩).toMatrix * (x.sigma • (1 : Matrix (Fin 3) (Fin 3) ℝ) + hatM x.phi)
      = NormedSpace.exp (x.sigma • (1 : Matrix (Fin 3) (Fin 3) ℝ) + hatM x.phi) - 1) :
    (Sim3matrix (sim3Exp eps x)).toMatrix4 = NormedSpace.exp (sim3Gen x) := by
  obtain ⟨u, hu⟩ := exists_solve x.sigma x.phi hs x.tau.toFun
  rw [sim3Gen_blk, exp_blk4_of_solve _ _ u hu (exp_blk4_scal_hat _ _), Sim3matrix_blk]
  refine blk4_congr ?_ ?_ rfl
  · show Real.exp x.sigma • (SO3matrix (so3Exp eps x.phi)).toMatrix = _
    rw [hR, exp_scal_add_hat]
  · show ((rxso3Ws eps ⟨x.phi, x.sigma⟩).mulVec x.tau).toFun = _
    rw [← mulVec_toFun, ← hW, ← hu, Matrix.mulVec_mulVec]

theorem Ws_mul_gen_zero_phi (eps s : ℝ) (hs : eps < |s|) (hs0 : s ≠ 0) :
    (rxso3Ws eps ⟨⟨0, 0, 0⟩, s⟩).toMatrix * (s • (1 : Matrix (Fin 3) (Fin 3) ℝ) + hatM ⟨0, 0, 0⟩)
      = NormedSpace.exp (s • (1 : Matrix (Fin 3) (Fin 3) ℝ) + hatM ⟨0, 0, 0⟩) - 1 := by
  rw [rxso3Ws_zero_phi, WsCoef_C_large _ _ _ hs, exp_scal_add_hat, hatM_zero, NormedSpace.exp_zero, add_zero,
    smul_mul_smul_comm, WsC_mul s hs0, one_mul, sub_smul, one_smul]
/-! ### the remaining exact regimes -/

theorem exp_blk4_zero_tau (tau : Fin 3 → ℝ) :
    NormedSpace.exp (blk4 0 tau 0) = blk4 1 tau 1 := by
  have h2 : (blk4 0 tau 0) ^ 2 = 0 := by
    rw [pow_two, blk4_mul, blk4_zero]; exact blk4_congr (by simp) (by simp) (by simp)
  rw [MatExp.exp_of_sq_zero _ h2, blk4_one, blk4_add]
  exact blk4_congr (by simp) (by simp) (by simp)

/-- se3: closed-form branch or `φ = 0` -/
theorem se3Exp_matrix' (eps : ℝ) (x : se3 ℝ) (h0 : 0 ≤ eps) (h : eps < x.phi.norm ∨ x.phi.norm = 0) :
    (SE3matrix (se3Exp eps x)).toMatrix4 = NormedSpace.exp (se3Gen x) := by
  rcases h with h | h
  · exact se3Exp_matrix_closed eps x h0 h
  · have hphi := norm_zero_imp x.phi h
    rw [se3Gen_blk, SE3matrix_blk, hphi, hatM_zero, exp_blk4_zero_tau]
    refine blk4_congr ?_ ?_ rfl
    · show (SO3matrix (so3Exp eps x.phi)).toMatrix = 1
      rw [hphi, so3Exp_zero eps h0, SO3matrix_one_toMatrix]
    · show ((so3Jl eps x.phi).mulVec x.tau).toFun = _
      rw [← mulVec_toFun, hphi, so3Jl_zero eps h0, Matrix.one_mulVec]

theorem WsCoef_regime2 (eps th s : ℝ) (ht : eps < th) (hs : ¬ eps < |s|) :
    rxso3WsCoef eps th s = ((1 - Real.cos th) / (th * th), (th - Real.sin th) / (th * th * th), 1) := by
  unfold rxso3WsCoef
  simp only [sabs_real, lt_real, ht, hs, decide_true, decide_false, Bool.not_true, Bool.not_false, Bool.false_and,
    Bool.and_self, Bool.and_false, Bool.and_true, Bool.true_and, Bool.false_eq_true, if_false, if_true, sin_real,
    cos_real, k_real, q_real, Nat.cast_one, Nat.cast_ofNat, mul_one_div]

theorem WsCoef_regime1 (eps th s : ℝ) (ht : ¬ eps < th) (hs : ¬ eps < |s|) :
    rxso3WsCoef eps th s = (1 / 2, 1 / 6, 1) := by
  unfold rxso3WsCoef
  simp only [sabs_real, lt_real, ht, hs, decide_false, Bool.not_false, Bool.and_self, if_true, k_real, q_real,
    Nat.cast_one, Nat.cast_ofNat, Bool.false_eq_true, if_false]

/-- closed-form coefficients of regime 3 (`θ ≤ eps < |σ|`): the `θ → 0` limits of `WsA4`, `WsB4` -/
def WsA3 (s : ℝ) : ℝ := (s * Real.exp s - (Real.exp s - 1)) / (s * s)
def WsB3 (s : ℝ) : ℝ := (1 / 2 * (s * s) * Real.exp s + (Real.exp s - 1) - s * Real.exp s) / (s * s * s)

theorem WsCoef_regime3 (eps th s : ℝ) (ht : ¬ eps < th) (hs : eps < |s|) :
    rxso3WsCoef eps th s = (WsA3 s, WsB3 s, WsC s) := by
  unfold rxso3WsCoef WsA3 WsB3 WsC
  simp only [sabs_real, lt_real, ht, hs, decide_true, decide_false, Bool.not_true, Bool.not_false, Bool.false_and,
    Bool.and_self, Bool.and_false, Bool.and_true, Bool.true_and, Bool.false_eq_true, if_false, if_true, exp_real,
    k_real, q_real, Nat.cast_one, Nat.cast_ofNat]

/-- with `σ = 0` and `eps < θ`, or `θ = 0`, `rxso3_Ws` is `so3_Jl` -/
theorem rxso3Ws_sigma_zero (eps : ℝ) (phi : Vec3 ℝ) (h0 : 0 ≤ eps) (h : eps < phi.norm ∨ phi.norm = 0) :
    (rxso3Ws eps ⟨phi, 0⟩).toMatrix = (so3Jl eps phi).toMatrix := by
  have hs : ¬ eps < |(0 : ℝ)| := by rw [abs_zero]; exact not_lt.mpr h0
  rcases h with h | h
  · rw [rxso3Ws_toMatrix, so3Jl_toMatrix_closed eps phi h]
    simp only [WsCoef_regime2 eps _ _ h hs, one_smul]
  · have hphi := norm_zero_imp phi h
    rw [hphi, so3Jl_zero eps h0, rxso3Ws_zero_phi, WsCoef_C_small _ _ _ hs, one_smul]

theorem sim3Gen_sigma_zero (x : sim3 ℝ) (hs : x.sigma = 0) : sim3Gen x = se3Gen ⟨x.tau, x.phi⟩ := by
  ext i j
  fin_cases i <;> fin_cases j <;> simp [sim3Gen, se3Gen, hs]

/-- sim3: all four exact regime combinations -/
theorem sim3Exp_matrix' (eps : ℝ) (x : sim3 ℝ) (h0 : 0 ≤ eps)
    (ht : eps < x.phi.norm ∨ x.phi.norm = 0) (hs : eps < |x.sigma| ∨ x.sigma = 0) :
    (Sim3matrix (sim3Exp eps x)).toMatrix4 = NormedSpace.exp (sim3Gen x) := by
  rcases hs with hs | hs
  · have hsne : x.sigma ≠ 0 := by intro h; rw [h, abs_zero] at hs; linarith
    refine sim3Exp_matrix_of_solve eps x hsne (so3Exp_matrix' eps x.phi h0 ht) ?_
    rcases ht with ht | ht
    · exact Ws_mul_gen_regime4 eps ⟨x.phi, x.sigma⟩ h0 ht hs
    · rw [norm_zero_imp x.phi ht]
      exact Ws_mul_gen_zero_phi eps x.sigma hs hsne
  · rw [sim3Gen_sigma_zero x hs, ← se3Exp_matrix' eps ⟨x.tau, x.phi⟩ h0 ht, Sim3matrix_blk, SE3matrix_blk]
    refine blk4_congr ?_ ?_ rfl
    · show Real.exp x.sigma • (SO3matrix (so3Exp eps x.phi)).toMatrix = (SO3matrix (so3Exp eps x.phi)).toMatrix
      rw [hs, Real.exp_zero, one_smul]
    · show ((rxso3Ws eps ⟨x.phi, x.sigma⟩).mulVec x.tau).toFun = ((so3Jl eps x.phi).mulVec x.tau).toFun
      rw [← mulVec_toFun, ← mulVec_toFun, hs, rxso3Ws_sigma_zero eps x.phi h0 ht]
end
end PP
