import Pose.Model.Convert
/-!
# Model of `pypose/function/geometry.py: svdtf, svdstf` and `pypose/module/icp.py: ICP.forward`

Item-level (one pair of clouds, no batch axis).  A pair of corresponding clouds is a list of pairs
`(source_i, target_i)` (the code asserts equal point counts).

External kernels are **parameters with contracts** (never re-implemented as truth):

* `svd : Mat3 α → SVD3 α`   — `torch.linalg.svd` (contract: `M = U·diag(S)·Vh`, `UᵀU = 1`, `VhᵀVh = 1`,
  `S.x ≥ S.y ≥ S.z ≥ 0`);
* `detK : Mat3 α → α`        — `torch.det` (contract: it is the determinant);
* `nn : List (Vec3 α) → Vec3 α → Nat` — `knn(…, k=1)` = `topk(k=1, largest=False)` over the Euclidean distances
  (contract: the returned index is in range and attains the minimum distance).

Same order of operations as the code:

`svdtf`  : centroids → centred clouds → `M = Σ targetᵢ sourceᵢᵀ` → `U,S,Vh = svd M` →
           `d = (1, 1, -1 if det(U Vh) < 0 else 1)` → `R = (U * d) @ Vh`, i.e. the last **column** of `U` negated for a
           reflection (since fix D42 out of place, so that backward works; same values) →
           `t = c_target − R c_source` → `mat2SE3([R|t], check=False)` (quaternion by `mat2SO3Raw`).
`svdstf` : `H = M / N`, `Mm = diag(1,1,sign det(U V))`, `scale = (diag(Mm)·D) / var_source` (or 1),
           `R = U Mm V`, `t = c_target − scale·R c_source`, `mat2Sim3([scale·R | t], check=True)`.
`ICP`    : `temporal = init·source`; while the stepper continues: nearest target of every temporal point,
           `error = mean distance`, `T = svdtf(temporal, matched)`, `temporal = T·temporal`, `stepper.step(error)`;
           result `svdtf(source, temporal)`.
-/

namespace PP.Align

variable {α : Type} [Scalar α]

abbrev Cloud (α : Type) := List (Vec3 α)
/-- corresponding points `(source_i, target_i)` -/
abbrev Pairs (α : Type) := List (Vec3 α × Vec3 α)

/-- `Σ p` -/
def vsum : Cloud α → Vec3 α
  | [] => Vec3.zero
  | p :: ps => p.add (vsum ps)

/-- `Σ x` -/
def ssum : List α → α
  | [] => k 0
  | x :: xs => x + ssum xs

/-- `Σ M` -/
def msum : List (Mat3 α) → Mat3 α
  | [] => Mat3.zero
  | m :: ms => m.add (msum ms)

/-- `cloud.mean(dim=-2)` -/
def mean (ps : Cloud α) : Vec3 α := (vsum ps).smul (k 1 / k ps.length)

def srcs (ps : Pairs α) : Cloud α := ps.map Prod.fst
def tgts (ps : Pairs α) : Cloud α := ps.map Prod.snd

/-- `source - ctnsource`, `target - ctntarget` -/
def centered (ps : Pairs α) : Pairs α :=
  let cs := mean (srcs ps)
  let ct := mean (tgts ps)
  ps.map fun p => (p.1.sub cs, p.2.sub ct)

/-- `einsum('...Na, ...Nb -> ...ab', target, source)` = `Σ targetᵢ sourceᵢᵀ` -/
def crossCov (ps : Pairs α) : Mat3 α := msum (ps.map fun p => Mat3.outer p.2 p.1)

/-- result of the SVD kernel (`Vh` is what `torch.linalg.svd` returns third: `M = U diag(S) Vh`) -/
structure SVD3 (α : Type) where
  U : Mat3 α
  S : Vec3 α
  Vh : Mat3 α
deriving Inhabited

def diag3 (s : Vec3 α) : Mat3 α := ⟨⟨s.x, k 0, k 0⟩, ⟨k 0, s.y, k 0⟩, ⟨k 0, k 0, s.z⟩⟩

/-- `U[:, -1] = -U[:, -1]` -/
def flipLastCol (U : Mat3 α) : Mat3 α :=
  ⟨⟨U.r0.x, U.r0.y, -U.r0.z⟩, ⟨U.r1.x, U.r1.y, -U.r1.z⟩, ⟨U.r2.x, U.r2.y, -U.r2.z⟩⟩

/-- the rotation of `svdtf`: `mask = det(U Vh) < 0; U[mask,:,-1] *= -1; R = U Vh` -/
def svdtfRot (svd : Mat3 α → SVD3 α) (detK : Mat3 α → α) (M : Mat3 α) : Mat3 α :=
  let d := svd M
  let U' := if Scalar.lt (detK (d.U.mul d.Vh)) (k 0) then flipLastCol d.U else d.U
  U'.mul d.Vh

/-- `(R, t)` of `svdtf` before the conversion to a quaternion -/
def svdtfMat (svd : Mat3 α → SVD3 α) (detK : Mat3 α → α) (ps : Pairs α) : Mat3 α × Vec3 α :=
  let cs := mean (srcs ps)
  let ct := mean (tgts ps)
  let R := svdtfRot svd detK (crossCov (centered ps))
  (R, ct.sub (R.mulVec cs))

/-- `pp.svdtf(source, target)`; `atol` is the default `atol=1e-5` of `mat2SE3`, which only selects the
branch of the matrix→quaternion conversion (`check=False`: nothing is tested) -/
def svdtf (svd : Mat3 α → SVD3 α) (detK : Mat3 α → α) (atol : α) (ps : Pairs α) : SE3 α :=
  let Rt := svdtfMat svd detK ps
  ⟨Rt.2, mat2SO3Raw atol Rt.1⟩

/-- sum of squared residuals of a map on corresponding points -/
def cost (T : Vec3 α → Vec3 α) (ps : Pairs α) : α :=
  ssum (ps.map fun p => ((T p.1).sub p.2).normSq)

/-- the affine map `p ↦ R p + t` -/
def affine (R : Mat3 α) (t : Vec3 α) (p : Vec3 α) : Vec3 α := (R.mulVec p).add t

/-! ## `svdstf` (Umeyama) -/

/-- `(source_.norm(dim=-1)**2).mean(dim=-1)` on the centred sources -/
def varSource (ps : Pairs α) : α :=
  ssum ((centered ps).map fun p => p.1.normSq) * (k 1 / k ps.length)

/-- `(scale, R, t)` of `svdstf` before the conversion; `M[...,-1,-1] = sign(det(U V))` (torch.sign: 0 at 0) -/
def svdstfMat (svd : Mat3 α → SVD3 α) (detK : Mat3 α → α) (withScale : Bool) (ps : Pairs α) :
    α × Mat3 α × Vec3 α :=
  let cs := mean (srcs ps)
  let ct := mean (tgts ps)
  let H := Mat3.smul (k 1 / k ps.length) (crossCov (centered ps))
  let d := svd H
  let sg := ssign (detK (d.U.mul d.Vh))
  let Mm : Mat3 α := diag3 ⟨k 1, k 1, sg⟩
  let scale := if withScale then (k 1 * d.S.x + k 1 * d.S.y + sg * d.S.z) / varSource ps else k 1
  let R := (d.U.mul Mm).mul d.Vh
  (scale, R, ct.sub ((Mat3.smul scale R).mulVec cs))

/-- `pp.svdstf(source, target, with_scale)`: ends in `mat2Sim3(T, check=True)` with the default tolerances
(`rtol`, `atol` parameters = `1e-5`), which may raise (`Except`). -/
def svdstf (svd : Mat3 α → SVD3 α) (detK : Mat3 α → α) (rtol atol : α) (withScale : Bool) (ps : Pairs α) :
    Except ConvErr (Sim3 α) :=
  let r := svdstfMat svd detK withScale ps
  mat2Sim3 detK true rtol atol ⟨.m34, Mat3.smul r.1 r.2.1, r.2.2, Vec3.zero, k 0⟩

/-! ## ICP -/

/-- Euclidean distance (`torch.linalg.norm(diff, ord=2)`) -/
def dist (a b : Vec3 α) : α := (a.sub b).norm

/-- first index attaining the minimal squared distance — an executable instance of the `knn`/`topk` contract -/
def nnFirst : Cloud α → Vec3 α → Nat
  | [], _ => 0
  | [_], _ => 0
  | q :: q' :: qs, p =>
    let j := nnFirst (q' :: qs) p
    if Scalar.lt (((q' :: qs).getD j Vec3.zero).sub p).normSq ((q.sub p).normSq) then j + 1 else 0

/-- matched pairs `(temporalᵢ, target[nn(temporalᵢ)])` (`torch.gather(target, -2, knnidx)`) -/
def matchNN (nn : Cloud α → Vec3 α → Nat) (tgt : Cloud α) (cur : Cloud α) : Pairs α :=
  cur.map fun p => (p, tgt.getD (nn tgt p) Vec3.zero)

/-- `knndist.squeeze(-1).mean(dim=-1)`: mean distance to the nearest target (what the stepper is given) -/
def icpError (nn : Cloud α → Vec3 α → Nat) (tgt : Cloud α) (cur : Cloud α) : α :=
  ssum ((matchNN nn tgt cur).map fun p => dist p.1 p.2) * (k 1 / k cur.length)

/-- one pass of the loop body: `T = svdtf(temporal, knntarget); temporal = T @ temporal` -/
def icpStep (align : Pairs α → SE3 α) (nn : Cloud α → Vec3 α → Nat) (tgt : Cloud α) (cur : Cloud α) : Cloud α :=
  let T := align (matchNN nn tgt cur)
  cur.map (SE3Act T)

/-- `n` passes -/
def icpIter (align : Pairs α → SE3 α) (nn : Cloud α → Vec3 α → Nat) (tgt : Cloud α) : Nat → Cloud α → Cloud α
  | 0, cur => cur
  | n + 1, cur => icpIter align nn tgt n (icpStep align nn tgt cur)

/-- the loop with a stepper: `cont errs` is `stepper.continual()` after the errors `errs` (most recent first)
have been passed to `stepper.step`; `fuel` bounds the number of passes (the real steppers have `max_steps`).
Returns the final `temporal` and the errors seen (most recent first). -/
def icpLoop (align : Pairs α → SE3 α) (nn : Cloud α → Vec3 α → Nat) (cont : List α → Bool) (tgt : Cloud α) :
    Nat → Cloud α → List α → Cloud α × List α
  | 0, cur, errs => (cur, errs)
  | fuel + 1, cur, errs =>
    if cont errs then
      icpLoop align nn cont tgt fuel (icpStep align nn tgt cur) (icpError nn tgt cur :: errs)
    else (cur, errs)

/-- `temporal` before the loop: `init.unsqueeze(-2) @ source` if an initial transform is given -/
def icpStart (init : Option (SE3 α)) (src : Cloud α) : Cloud α :=
  match init with
  | none => src
  | some T => src.map (SE3Act T)

/-- `ICP.forward` with exactly `n` passes of the loop: `svdtf(source, temporal)` -/
def icp (align : Pairs α → SE3 α) (nn : Cloud α → Vec3 α → Nat) (init : Option (SE3 α)) (n : Nat)
    (src tgt : Cloud α) : SE3 α :=
  align (src.zip (icpIter align nn tgt n (icpStart init src)))

/-- `ICP.forward` with a stepper -/
def icpWith (align : Pairs α → SE3 α) (nn : Cloud α → Vec3 α → Nat) (cont : List α → Bool) (fuel : Nat)
    (init : Option (SE3 α)) (src tgt : Cloud α) : SE3 α :=
  align (src.zip (icpLoop align nn cont tgt fuel (icpStart init src) []).1)

/-- sum of squared closest-point distances of a cloud to the target; `nn` supplies the closest point -/
def sscd (nn : Cloud α → Vec3 α → Nat) (tgt : Cloud α) (cur : Cloud α) : α :=
  ssum ((matchNN nn tgt cur).map fun p => (p.1.sub p.2).normSq)

/-- mean squared closest-point distance (the property's ICP objective) -/
def mscd (nn : Cloud α → Vec3 α → Nat) (tgt : Cloud α) (cur : Cloud α) : α :=
  sscd nn tgt cur * (k 1 / k cur.length)

/-! ## batches and call histories

`svdtf` / `svdstf` treat the leading batch axes item by item: `mask`, the column flip, `R`, `t` and the conversion are
all per-item tensor operations (the only batch-level decision on the path is `mat2Sim3`'s rank test, modelled in
`Convert.lean`).  An `ICP` module reads exactly one piece of its own state in `forward`: the constructor's `init`
(overridden by a per-call `init`); the stepper is `reset()` at the start of every call. -/

/-- a batched `svdtf` call -/
def svdtfBatch (svd : Mat3 α → SVD3 α) (detK : Mat3 α → α) (atol : α) (items : List (Pairs α)) : List (SE3 α) :=
  items.map (svdtf svd detK atol)

/-- the state of an `ICP` module object that `forward` reads -/
structure IcpMod (α : Type) where
  init : Option (SE3 α)

/-- the per-call arguments: `init=` of `forward`, the number of passes the (reset) stepper allows, the two clouds -/
structure IcpCall (α : Type) where
  fwdInit : Option (SE3 α)
  passes : Nat
  src : Cloud α
  tgt : Cloud α

/-- `init = init if init is not None else self.init` -/
def IcpMod.effInit (m : IcpMod α) (c : IcpCall α) : Option (SE3 α) :=
  match c.fwdInit with
  | some T => some T
  | none => m.init

/-- one call: the module is left as it was, the result is `icp` with the effective initial transform -/
def IcpMod.forward (align : Pairs α → SE3 α) (nn : Cloud α → Vec3 α → Nat) (m : IcpMod α) (c : IcpCall α) :
    IcpMod α × SE3 α :=
  (m, icp align nn (m.effInit c) c.passes c.src c.tgt)

/-- a history of calls on one module object: the final module and the list of results -/
def IcpMod.run (align : Pairs α → SE3 α) (nn : Cloud α → Vec3 α → Nat) : IcpMod α → List (IcpCall α) → IcpMod α × List (SE3 α)
  | m, [] => (m, [])
  | m, c :: cs =>
    let r := m.forward align nn c
    let rest := IcpMod.run align nn r.1 cs
    (rest.1, r.2 :: rest.2)

/-- a history in which some calls raise before producing a result (`none`: an argument check of `forward` fires, or
the user's stepper raises): a raising call returns nothing and — `forward` assigns no attribute — leaves the module as it was -/
def IcpMod.runE (align : Pairs α → SE3 α) (nn : Cloud α → Vec3 α → Nat) : IcpMod α → List (Option (IcpCall α)) → IcpMod α × List (SE3 α)
  | m, [] => (m, [])
  | m, none :: cs => IcpMod.runE align nn m cs
  | m, some c :: cs =>
    let r := m.forward align nn c
    let rest := IcpMod.runE align nn r.1 cs
    (rest.1, r.2 :: rest.2)

/-- two module objects (an original and a copy, or two unrelated modules) used interleaved: each call names the object
it is made on (`false`: the first, `true`: the second); the state of both objects and the results in call order -/
def IcpMod.run2 (align : Pairs α → SE3 α) (nn : Cloud α → Vec3 α → Nat) :
    IcpMod α → IcpMod α → List (Bool × IcpCall α) → (IcpMod α × IcpMod α) × List (SE3 α)
  | a, b, [] => ((a, b), [])
  | a, b, (false, c) :: cs =>
    let r := a.forward align nn c
    let rest := IcpMod.run2 align nn r.1 b cs
    (rest.1, r.2 :: rest.2)
  | a, b, (true, c) :: cs =>
    let r := b.forward align nn c
    let rest := IcpMod.run2 align nn a r.1 cs
    (rest.1, r.2 :: rest.2)

/-! ## batched calls: what is decided per batch rather than per item

* `ICP.forward` on a batch: every pass acts on every item, but `stepper.step(error)` is given the *vector* of the items'
  errors and a shipped stepper decides with `torch.all` over it — one common number of passes for the whole batch.
* `svdstf` on a batch: everything is per item except `mat2Sim3`'s rank test, `allclose(s, 0)` over the whole batch. -/

/-- the batched loop: `cont` sees the history of error *vectors* (one entry per item, most recent first) -/
def icpLoopB (align : Pairs α → SE3 α) (nn : Cloud α → Vec3 α → Nat) (cont : List (List α) → Bool) :
    Nat → List (Cloud α × Cloud α) → List (List α) → List (Cloud α × Cloud α) × List (List α)
  | 0, items, errs => (items, errs)
  | fuel + 1, items, errs =>
    if cont errs then
      icpLoopB align nn cont fuel (items.map fun it => (icpStep align nn it.2 it.1, it.2))
        ((items.map fun it => icpError nn it.2 it.1) :: errs)
    else (items, errs)

/-- `ICP.forward` on a batch of (source, target) items with a common optional `init` per item -/
def icpWithB (align : Pairs α → SE3 α) (nn : Cloud α → Vec3 α → Nat) (cont : List (List α) → Bool) (fuel : Nat)
    (items : List (Option (SE3 α) × Cloud α × Cloud α)) : List (SE3 α) :=
  let start := items.map fun it => (icpStart it.1 it.2.1, it.2.2)
  let fin := (icpLoopB align nn cont fuel start []).1
  List.zipWith (fun it f => align (it.2.1.zip f.1)) items fin

/-- what `svdstf` hands to `mat2Sim3` for one item -/
def svdstfIn (svd : Mat3 α → SVD3 α) (detK : Mat3 α → α) (withScale : Bool) (ps : Pairs α) : MatIn α :=
  let r := svdstfMat svd detK withScale ps
  ⟨.m34, Mat3.smul r.1 r.2.1, r.2.2, Vec3.zero, k 0⟩

/-- `pp.svdstf` on a batch: per-item `svdstfMat`, then the *batch-level* conversion `mat2Sim3Batch` -/
def svdstfBatch (svd : Mat3 α → SVD3 α) (detK : Mat3 α → α) (rtol atol : α) (withScale : Bool) (items : List (Pairs α)) :
    Except ConvErr (List (Sim3 α)) :=
  mat2Sim3Batch detK true rtol atol (items.map (svdstfIn svd detK withScale))

end PP.Align
