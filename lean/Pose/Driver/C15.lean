import Pose.Wire
import Pose.Model.Dynamics
/-!
Driver ops for C15 (dynamics: clock, LTI/LTV, NLS linearisation, bmv/bvv/bvmv).

Token grammar (everything is space separated; numbers are exact `m:e` tokens):

* `c15.clock <lti|ltv|nls> <c0> ev…`            ev ∈ `call raise fwd reset=<num> assign=<num> ref=<num|none>`
  → the clock after every event
* `c15.mclock n kind*n ev…`   tagged events `i:<clock event>`, `i:afrom=j`, `i:rfrom=j`, `i:reffrom=j`
  → the n clocks after every event
* `c15.lin <lti|ltv> <periodic 0/1> T n m p hasc1 hasc2 c0 <stacked A B C D [c1] [c2]> ev…`
  ev ∈ `call <len> x… <len> u…`, `fwd <len> x… <len> u…`, `reset=…`, `assign=…`, `ref=…`
  → per event: clock, then `-` | `R` (raised) | `O x'… y…`
* `c15.nls <aliasT 0/1> <aliasX 0/1> <partialF 0/1> c0 nf ng <nf+ng trees, prefix> ev…`  (+ ev `poke <lastX|lastU|refX|refU> <len> v…`:
  the caller overwrites that tensor in place)
  ev ∈ `call <len> x… <len> u…`, `ref <- | len x…> <- | len u…> <- | L | num>`, `reset=…`, `assign=…`, `read`
  → per event: clock, then `O f… g…` | `D` | `R` | `E` (read before any reference point) |
    `L nx nu A… B… C… D… c1… c2…`
* `c15.bmv r c M… v…`, `c15.bvv nl nr l… r…`, `c15.bvmv nl nr l… M… r…`
-/
namespace PP.Driver
open PP Wire Dyn

abbrev P := Except String

def takeN (n : Nat) (ts : List String) : P (List String × List String) :=
  if ts.length < n then .error "arity" else .ok (ts.take n, ts.drop n)

def takeNums (n : Nat) (ts : List String) : P (List BigF × List String) := do
  let (a, rest) ← takeN n ts
  return (← nums a, rest)

def chunks (n : Nat) : Nat → List β → List (List β)
  | 0, _ => []
  | c + 1, xs => xs.take n :: chunks n c (xs.drop n)

/-- `rows × cols` numbers → matrix -/
def takeMat (r c : Nat) (ts : List String) : P (DMat BigF × List String) := do
  let (xs, rest) ← takeNums (r * c) ts
  return (chunks c r xs, rest)

/-- `T` stacked `r × c` matrices -/
def takeStack (T r c : Nat) : List String → P (List (DMat BigF) × List String) := fun ts =>
  match T with
  | 0 => .ok ([], ts)
  | T + 1 => do
    let (m, rest) ← takeMat r c ts
    let (ms, rest) ← takeStack T r c rest
    return (m :: ms, rest)

def takeVecs (T n : Nat) : List String → P (List (DVec BigF) × List String) := fun ts =>
  match T with
  | 0 => .ok ([], ts)
  | T + 1 => do
    let (v, rest) ← takeNums n ts
    let (vs, rest) ← takeVecs T n rest
    return (v :: vs, rest)

/-- `<len> x…` -/
def takeLenVec (ts : List String) : P (DVec BigF × List String) :=
  match ts with
  | l :: rest => do let n ← nat l; takeNums n rest
  | [] => .error "arity"

/-- exact rational of an `m:e` token -/
def targ (s : String) : P TArg :=
  match s.splitOn ":" with
  | [ms, es] =>
    match ms.toInt?, es.toInt? with
    | some m, some e =>
      if e ≥ 0 then .ok ⟨m * (2 ^ e.toNat : Int), 1⟩ else .ok ⟨m, 2 ^ (-e).toNat⟩
    | _, _ => .error s!"bad-time:{s}"
  | _ => .error s!"bad-time:{s}"

def kindOf (s : String) : P Kind :=
  match s with
  | "lti" => .ok .lti | "ltv" => .ok .ltv | "nls" => .ok .nls
  | _ => .error s!"bad-kind:{s}"

/-- `reset=…`, `assign=…`, `ref=…` -/
def timeEv (tok : String) : Option (P Ev) :=
  match tok.splitOn "=" with
  | ["reset", v] => some (do return .reset (← targ v))
  | ["assign", v] => some (do return .assign (← targ v))
  | ["ref", "none"] => some (.ok (.refpoint none))
  | ["ref", v] => some (do return .refpoint (some (← targ v)))
  | _ => none

def clockEv (tok : String) : P Ev :=
  match tok with
  | "call" => .ok .call
  | "raise" => .ok .callRaise
  | "fwd" => .ok .fwdDirect
  | _ => match timeEv tok with
    | some r => r
    | none => .error s!"bad-event:{tok}"

/-- tagged event `i:<ev>`; `<ev>` is a clock event or `afrom=j`, `rfrom=j`, `reffrom=j` -/
def multiEv (tok : String) : P (Nat × MEv) :=
  match tok.splitOn ":" with
  | i :: rest => do
    let i ← nat i
    let body := ":".intercalate rest
    match body.splitOn "=" with
    | ["afrom", j] => return (i, .assignFrom (← nat j))
    | ["rfrom", j] => return (i, .resetFrom (← nat j))
    | ["reffrom", j] => return (i, .refFrom (← nat j))
    | ["copy", j] => return (i, .copyOf (← nat j))
    | _ => return (i, .own (← clockEv body))
  | _ => .error s!"bad-event:{tok}"

/-! ### linear systems -/

partial def parseLEvs (ts : List String) (acc : Array (LEv BigF)) : P (Array (LEv BigF)) :=
  match ts with
  | [] => .ok acc
  | "call" :: rest => do
    let (x, rest) ← takeLenVec rest
    let (u, rest) ← takeLenVec rest
    parseLEvs rest (acc.push (.call x u))
  | "fwd" :: rest => do
    let (x, rest) ← takeLenVec rest
    let (u, rest) ← takeLenVec rest
    parseLEvs rest (acc.push (.fwd x u))
  | tok :: rest =>
    match timeEv tok with
    | some r => do
      match ← r with
      | .reset t => parseLEvs rest (acc.push (.reset t))
      | .assign t => parseLEvs rest (acc.push (.assign t))
      | .refpoint t => parseLEvs rest (acc.push (.refpoint t))
      | _ => .error "bad-event"
    | none => .error s!"bad-event:{tok}"

def fmtLin (evs : List (LEv BigF)) (res : List (Int × Option (DVec BigF × DVec BigF))) : String :=
  let items := (evs.zip res).map fun (e, (c, o)) =>
    let tail := match e, o with
      | .call _ _, some (x, y) => "O " ++ fmt (x ++ y)
      | .fwd _ _, some (x, y) => "O " ++ fmt (x ++ y)
      | .call _ _, none => "R"
      | .fwd _ _, none => "R"
      | _, _ => "-"
    toString c ++ " " ++ tail
  " ".intercalate items

/-! ### expression trees -/

partial def parseFn (ts : List String) : P (Fn × List String) :=
  match ts with
  | "C0" :: a :: b :: rest => do
    let b ← nat b
    if b == 0 then throw "const-denominator-0"
    return (.const false (← nat a) b, rest)
  | "C1" :: a :: b :: rest => do
    let b ← nat b
    if b == 0 then throw "const-denominator-0"
    return (.const true (← nat a) b, rest)
  | "V" :: i :: rest => do return (.var (← nat i), rest)
  | "+" :: rest => do let (a, r) ← parseFn rest; let (b, r) ← parseFn r; return (.add a b, r)
  | "-" :: rest => do let (a, r) ← parseFn rest; let (b, r) ← parseFn r; return (.sub a b, r)
  | "*" :: rest => do let (a, r) ← parseFn rest; let (b, r) ← parseFn r; return (.mul a b, r)
  | "~" :: rest => do let (a, r) ← parseFn rest; return (.neg a, r)
  | "S" :: rest => do let (a, r) ← parseFn rest; return (.sin a, r)
  | "K" :: rest => do let (a, r) ← parseFn rest; return (.cos a, r)
  | "P" :: n :: rest => do let (a, r) ← parseFn rest; return (.pow a (← nat n), r)
  | _ => .error "bad-tree"

def parseFns : Nat → List String → P (List Fn × List String)
  | 0, ts => .ok ([], ts)
  | n + 1, ts => do
    let (f, r) ← parseFn ts
    let (fs, r) ← parseFns n r
    return (f :: fs, r)

/-- `-` or `<len> x…` -/
def takeOptVec (ts : List String) : P (Option (DVec BigF) × List String) :=
  match ts with
  | "-" :: rest => .ok (none, rest)
  | _ => do let (v, rest) ← takeLenVec ts; return (some v, rest)

inductive NCmd
  | ev (e : NEv BigF)
  | read

partial def parseNCmds (ts : List String) (acc : Array NCmd) : P (Array NCmd) :=
  match ts with
  | [] => .ok acc
  | "call" :: rest => do
    let (x, rest) ← takeLenVec rest
    let (u, rest) ← takeLenVec rest
    parseNCmds rest (acc.push (.ev (.call x u)))
  | "ref" :: rest => do
    let (x, rest) ← takeOptVec rest
    let (u, rest) ← takeOptVec rest
    match rest with
    | "-" :: rest => parseNCmds rest (acc.push (.ev (.refpoint x u .default)))
    | "L" :: rest => parseNCmds rest (acc.push (.ev (.refpoint x u .live)))
    | t :: rest => do let t ← num t; parseNCmds rest (acc.push (.ev (.refpoint x u (.val t))))
    | [] => .error "arity"
  | "read" :: rest => parseNCmds rest (acc.push .read)
  | "xraise" :: rest => do
    let (x, rest) ← takeLenVec rest
    let (u, rest) ← takeLenVec rest
    parseNCmds rest (acc.push (.ev (.callRaise x u)))
  | "refraise" :: rest => do
    let (x, rest) ← takeOptVec rest
    let (u, rest) ← takeOptVec rest
    match rest with
    | "-" :: rest => parseNCmds rest (acc.push (.ev (.refRaise x u .default)))
    | "L" :: rest => parseNCmds rest (acc.push (.ev (.refRaise x u .live)))
    | t :: rest => do let t ← num t; parseNCmds rest (acc.push (.ev (.refRaise x u (.val t))))
    | [] => .error "arity"
  | "poke" :: tgt :: rest => do
    let tgt ← match tgt with
      | "lastX" => pure PokeTgt.lastX | "lastU" => pure PokeTgt.lastU
      | "refX" => pure PokeTgt.refX | "refU" => pure PokeTgt.refU
      | _ => throw s!"bad-poke:{tgt}"
    let (v, rest) ← takeLenVec rest
    parseNCmds rest (acc.push (.ev (.poke tgt v)))
  | tok :: rest =>
    match timeEv tok with
    | some r => do
      match ← r with
      | .reset t => parseNCmds rest (acc.push (.ev (.reset t)))
      | .assign t => parseNCmds rest (acc.push (.ev (.assign t)))
      | _ => .error "bad-event"
    | none => .error s!"bad-event:{tok}"

def fmtLinear (x u : DVec BigF) (L : Lin BigF) : String :=
  s!"L {x.length} {u.length} " ++
    fmt (L.A.flatten ++ L.B.flatten ++ L.C.flatten ++ L.D.flatten ++ L.c1 ++ L.c2)

def runNCmds (aliasT aliasX partialF : Bool) (fs gs : List Fn) (S0 : NState BigF) (cmds : List NCmd) : List String :=
  (cmds.foldl (fun (acc : NState BigF × List String) c =>
    let (S, out) := acc
    match c with
    | .ev e =>
      let (S', o) := stepN aliasT aliasX partialF fs gs S e
      let tail := match o with
        | .outputs f g => "O " ++ fmt (f ++ g)
        | .done => "D"
        | .raised => "R"
      (S', (toString S'.clock ++ " " ++ tail) :: out)
    | .read =>
      let tail := match readLin fs gs S, S.refx, S.refu with
        | some L, some x, some u => fmtLinear x u L
        | _, _, _ => "E"
      (S, (toString S.clock ++ " " ++ tail) :: out)) (S0, [])).2.reverse

def opsC15 : List (String × Handler) := [
  ("c15.clock", fun ts => do
      match ts with
      | kd :: c0 :: evs =>
        let kd ← kindOf kd
        let c0 ← int c0
        let evs ← evs.mapM clockEv
        return fmtInts (traceClock kd c0 evs)
      | _ => throw "arity"),
  -- c15.mclock n kind*n ev…   → n clocks after every event
  ("c15.mclock", fun ts => do
      match ts with
      | n :: rest =>
        let n ← nat n
        let (kds, evs) ← takeN n rest
        let kds ← kds.mapM kindOf
        let evs ← evs.mapM multiEv
        return fmtInts (traceMulti kds (List.replicate n 0) evs).flatten
      | _ => throw "arity"),
  ("c15.lin", fun ts => do
      match ts with
      | kd :: per :: T :: n :: m :: p :: h1 :: h2 :: c0 :: rest =>
        let kd ← kindOf kd
        let per ← nat per; let T ← nat T; let n ← nat n; let m ← nat m; let p ← nat p
        let h1 ← nat h1; let h2 ← nat h2; let c0 ← int c0
        let (A, rest) ← takeStack T n n rest
        let (B, rest) ← takeStack T n m rest
        let (C, rest) ← takeStack T p n rest
        let (D, rest) ← takeStack T p m rest
        let (c1, rest) ← if h1 == 1 then (do let (v, r) ← takeVecs T n rest; pure (some v, r)) else pure (none, rest)
        let (c2, rest) ← if h2 == 1 then (do let (v, r) ← takeVecs T p rest; pure (some v, r)) else pure (none, rest)
        let S : LinSys BigF := ⟨kd, per == 1, A, B, C, D, c1, c2⟩
        let evs := (← parseLEvs rest #[]).toList
        return fmtLin evs (runLin S c0 evs)
      | _ => throw "arity"),
  -- c15.obj <lti|ltv> <periodic> T n m p t  <buffers: A B C D (T slices each) hb1 [c1] hb2 [c2]>
  --         <overrides: fA [A] fB [B] fC [C] fD [D] f1 [c1] f2 [c2]>  x… u…
  --   fX ∈ 0 (not overridden) | 1 (overridden with the following stack);  f1, f2 ∈ 0 | 1 (overridden, returns None) | 2 (stack)
  --   one forward of the object at clock t through `objForward` (properties = override, else buffer) → `O x'… y…` | `R`
  ("c15.obj", fun ts => do
      match ts with
      | kd :: per :: T :: n :: m :: p :: t :: rest =>
        let kd ← kindOf kd
        let per ← nat per; let T ← nat T; let n ← nat n; let m ← nat m; let p ← nat p; let t ← int t
        let (bA, rest) ← takeStack T n n rest
        let (bB, rest) ← takeStack T n m rest
        let (bC, rest) ← takeStack T p n rest
        let (bD, rest) ← takeStack T p m rest
        let optVecs : Nat → List String → P (Option (List (DVec BigF)) × List String) := fun len ts =>
          match ts with
          | "1" :: rest => do let (v, r) ← takeVecs T len rest; pure (some v, r)
          | "0" :: rest => pure (none, rest)
          | _ => .error "arity"
        let (bc1, rest) ← optVecs n rest
        let (bc2, rest) ← optVecs p rest
        let optStack : Nat → Nat → List String → P (Option (List (DMat BigF)) × List String) := fun r c ts =>
          match ts with
          | "1" :: rest => do let (v, r') ← takeStack T r c rest; pure (some v, r')
          | "0" :: rest => pure (none, rest)
          | _ => .error "arity"
        let (oA, rest) ← optStack n n rest
        let (oB, rest) ← optStack n m rest
        let (oC, rest) ← optStack p n rest
        let (oD, rest) ← optStack p m rest
        let ovVecs : Nat → List String → P (Option (Option (List (DVec BigF))) × List String) := fun len ts =>
          match ts with
          | "0" :: rest => pure (none, rest)
          | "1" :: rest => pure (some none, rest)
          | "2" :: rest => do let (v, r) ← takeVecs T len rest; pure (some (some v), r)
          | _ => .error "arity"
        let (o1, rest) ← ovVecs n rest
        let (o2, rest) ← ovVecs p rest
        let (x, rest) ← takeNums n rest
        let (u, _) ← takeNums m rest
        let o : LinObj BigF := { kind := kd, periodic := per == 1, bufA := bA, bufB := bB, bufC := bC, bufD := bD,
                                 bufc1 := bc1, bufc2 := bc2, ovA := oA, ovB := oB, ovC := oC, ovD := oD, ovc1 := o1, ovc2 := o2 }
        match objForward o t x u with
        | some (xn, y) => return "O " ++ fmt (xn ++ y)
        | none => return "R"
      | _ => throw "arity"),
  ("c15.nls", fun ts => do
      match ts with
      | al :: ax :: pf :: c0 :: nf :: ng :: rest =>
        let al ← nat al; let ax ← nat ax; let pf ← nat pf; let c0 ← int c0; let nf ← nat nf; let ng ← nat ng
        let (fs, rest) ← parseFns nf rest
        let (gs, rest) ← parseFns ng rest
        let cmds := (← parseNCmds rest #[]).toList
        return " ".intercalate (runNCmds (al == 1) (ax == 1) (pf == 1) fs gs (NState.init c0) cmds)
      | _ => throw "arity"),
  -- c15.bnd <tree> nv ea… da…   → m0 l r  (explicit bounds of value, first-order part, second-order remainder)
  ("c15.bnd", fun ts => do
      let (f, rest) ← parseFn ts
      match rest with
      | nv :: rest =>
        let nv ← nat nv
        let (ea, rest) ← takeNums nv rest
        let (da, _) ← takeNums nv rest
        let b := f.bnd (fun i => ea.getD i (k 0)) (fun i => da.getD i (k 0))
        return fmt [b.m0, b.l, b.r]
      | _ => throw "arity"),
  -- c15.affrow nx nu na nb <a trees> <b trees> <c tree> x… u… t   → A-row (nx) B-row (nu) c1 f(x,u,t)
  --   one row `Fn.affRow nx a b c` of an LTV system written as an NLS, linearised at (x, u, t) (theorems nls_ltv_*)
  ("c15.affrow", fun ts => do
      match ts with
      | nx :: nu :: na :: nb :: rest =>
        let nx ← nat nx; let nu ← nat nu; let na ← nat na; let nb ← nat nb
        let (a, rest) ← parseFns na rest
        let (b, rest) ← parseFns nb rest
        let (c, rest) ← parseFn rest
        let (x, rest) ← takeNums nx rest
        let (u, rest) ← takeNums nu rest
        let (t, _) ← takeNums 1 rest
        let t := t.getD 0 (k 0)
        let row := Fn.affRow nx a b c
        let L := linearize [row] [] x u t
        return fmt (L.A.getD 0 [] ++ L.B.getD 0 [] ++ [L.c1.getD 0 (k 0), row.eval (mkEnv x u t)])
      | _ => throw "arity"),
  -- c15.bb <fn> <declared core dims> <rank dims…>* data…   batched helpers with the code's shape assertions
  --   bmv rows cols lv  shapeM shapeV  M-items v-items          (raises when cols ≠ lv or the batch shapes do not broadcast)
  --   bvv ll lr  shapeL shapeR  l-items r-items
  --   bvmv ll rows cols lr  shapeL shapeM shapeR  l M r         (atleast_1d: an unbatched call has shape (1,))
  --   lti hasc ra ca lx rb cb lu [lc]  shapeA shapeX shapeB shapeU [shapeC]  A x B u [c]
  --   → `S rank dims… V values…` (batch shape of the result) or `R` (the code raises)
  ("c15.bb", fun ts => do
      let takeShape : List String → P (List Nat × List String) := fun ts =>
        match ts with
        | r :: rest => do let r ← nat r; let (d, rest) ← takeN r rest; return (← nats d, rest)
        | [] => .error "arity"
      let takeNats : Nat → List String → P (List Nat × List String) := fun n ts => do
        let (a, rest) ← takeN n ts
        return (← nats a, rest)
      let takeVecT : List Nat → Nat → List String → P (VT BigF × List String) := fun sh len ts => do
        let (xs, rest) ← takeNums (Batch.numel sh * len) ts
        let items := (chunks len (Batch.numel sh) xs).toArray
        return (⟨sh, len, fun k => items.getD k []⟩, rest)
      let takeMatT : List Nat → Nat → Nat → List String → P (MT BigF × List String) := fun sh r c ts => do
        let (xs, rest) ← takeNums (Batch.numel sh * r * c) ts
        let items := ((chunks (r * c) (Batch.numel sh) xs).map (chunks c r)).toArray
        return (⟨sh, r, c, fun k => items.getD k []⟩, rest)
      let out : Option (Batch.Shape × (Nat → List BigF)) → String := fun o => match o with
        | none => "R"
        | some (sh, dat) => s!"S {sh.length} " ++ fmtNats sh ++ " V " ++ fmt ((List.range (Batch.numel sh)).flatMap dat)
      match ts with
      | "bmv" :: rest =>
        let (d, rest) ← takeNats 3 rest
        let (s1, rest) ← takeShape rest; let (s2, rest) ← takeShape rest
        let (M, rest) ← takeMatT s1 (d.getD 0 0) (d.getD 1 0) rest; let (v, _) ← takeVecT s2 (d.getD 2 0) rest
        return out ((bmvG M v).map fun z => (z.shape, z.data))
      | "bvv" :: rest =>
        let (d, rest) ← takeNats 2 rest
        let (s1, rest) ← takeShape rest; let (s2, rest) ← takeShape rest
        let (l, rest) ← takeVecT s1 (d.getD 0 0) rest; let (r, _) ← takeVecT s2 (d.getD 1 0) rest
        return out ((bvvG l r).map fun z => (z.shape, fun k => (z.data k).flatten))
      | "bvmv" :: rest =>
        let (d, rest) ← takeNats 4 rest
        let (s1, rest) ← takeShape rest; let (s2, rest) ← takeShape rest; let (s3, rest) ← takeShape rest
        let (l, rest) ← takeVecT s1 (d.getD 0 0) rest; let (M, rest) ← takeMatT s2 (d.getD 1 0) (d.getD 2 0) rest
        let (r, _) ← takeVecT s3 (d.getD 3 0) rest
        return out ((bvmvG l M r).map fun z => (z.shape, fun k => [z.data k]))
      | "lti" :: hc :: rest =>
        let hc ← nat hc
        let (d, rest) ← takeNats (if hc == 1 then 7 else 6) rest
        let (sA, rest) ← takeShape rest; let (sX, rest) ← takeShape rest
        let (sB, rest) ← takeShape rest; let (sU, rest) ← takeShape rest
        let (sC, rest) ← if hc == 1 then takeShape rest else pure ([], rest)
        let (A, rest) ← takeMatT sA (d.getD 0 0) (d.getD 1 0) rest; let (x, rest) ← takeVecT sX (d.getD 2 0) rest
        let (B, rest) ← takeMatT sB (d.getD 3 0) (d.getD 4 0) rest; let (u, rest) ← takeVecT sU (d.getD 5 0) rest
        let c ← if hc == 1 then (do let (c, _) ← takeVecT sC (d.getD 6 0) rest; pure (some c)) else pure none
        return out ((affineG A B c x u).map fun z => (z.shape, z.data))
      | _ => throw "bad-fn"),
  ("c15.bmv", fun ts => do
      match ts with
      | r :: c :: rest =>
        let r ← nat r; let c ← nat c
        let (M, rest) ← takeMat r c rest
        let v ← nums rest
        if !(bmvOK M v) then throw "shape"
        return fmt (bmv M v)
      | _ => throw "arity"),
  ("c15.bvv", fun ts => do
      match ts with
      | nl :: nr :: rest =>
        let nl ← nat nl; let nr ← nat nr
        let (l, rest) ← takeNums nl rest
        let (r, _) ← takeNums nr rest
        return fmt (bvv l r).flatten
      | _ => throw "arity"),
  ("c15.bvmv", fun ts => do
      match ts with
      | nl :: nr :: rest =>
        let nl ← nat nl; let nr ← nat nr
        let (l, rest) ← takeNums nl rest
        let (M, rest) ← takeMat nl nr rest
        let (r, _) ← takeNums nr rest
        return fmt [bvmv l M r]
      | _ => throw "arity")
]

end PP.Driver
