import Proofs.Lemmas.Quat
import Proofs.Lemmas.So3Exp
import Pose.Model.Convert
import Mathlib.Tactic.Positivity
import Mathlib.Tactic.NormNum
import Mathlib.Tactic.Linarith
import Mathlib.Analysis.SpecialFunctions.Pow.Real
import Mathlib.Analysis.SpecialFunctions.Complex.Arg
import Mathlib.Analysis.SpecialFunctions.Trigonometric.Inverse
namespace PP
open Vec3 Quat Mat3

@[ext] theorem Cand.ext' {a b : Cand ℝ} (ht : a.t = b.t) (hw : a.w = b.w) (hx : a.x = b.x) (hy : a.y = b.y)
    (hz : a.z = b.z) : a = b := by cases a; cases b; simp_all

/-- the candidate built from `4c·(w,x,y,z)` with `t = 4c²` is `±p` -/
theorem toQuat_scaled (p : Quat ℝ) (c : ℝ) (hc : c ≠ 0) :
    (Cand.toQuat ⟨4 * (c * c), 4 * c * p.w, 4 * c * p.x, 4 * c * p.y, 4 * c * p.z⟩ : Quat ℝ)
      = if 0 < c then p else p.neg := by
  have hs : Real.sqrt (4 * (c * c)) = 2 * |c| := by
    rw [show (4:ℝ) * (c * c) = (2 * |c|) ^ 2 by rw [mul_pow, sq_abs]; ring]
    exact Real.sqrt_sq (by positivity)
  unfold Cand.toQuat
  simp only [sqrt_real, k_real, hs, Nat.cast_ofNat]
  split_ifs with hpos
  · rw [abs_of_pos hpos]; ext <;> simp only [] <;> field_simp <;> ring
  · have hneg : c < 0 := lt_of_le_of_ne (not_lt.mp hpos) hc
    rw [abs_of_neg hneg]; ext <;> simp only [Quat.neg] <;> field_simp <;> ring

theorem cand0_rot (p : Quat ℝ) :
    cand0 (SO3matrix p).transpose = ⟨4 * (p.x * p.x), 4 * p.x * p.w, 4 * p.x * p.x, 4 * p.x * p.y, 4 * p.x * p.z⟩ := by
  unfold cand0 SO3matrix; ext <;> lie_unfold <;> ring
theorem cand1_rot (p : Quat ℝ) :
    cand1 (SO3matrix p).transpose = ⟨4 * (p.y * p.y), 4 * p.y * p.w, 4 * p.y * p.x, 4 * p.y * p.y, 4 * p.y * p.z⟩ := by
  unfold cand1 SO3matrix; ext <;> lie_unfold <;> ring
theorem cand2_rot (p : Quat ℝ) :
    cand2 (SO3matrix p).transpose = ⟨4 * (p.z * p.z), 4 * p.z * p.w, 4 * p.z * p.x, 4 * p.z * p.y, 4 * p.z * p.z⟩ := by
  unfold cand2 SO3matrix; ext <;> lie_unfold <;> ring
theorem cand3_rot (p : Quat ℝ) (h : p.normSq = 1) :
    cand3 (SO3matrix p).transpose = ⟨4 * (p.w * p.w), 4 * p.w * p.w, 4 * p.w * p.x, 4 * p.w * p.y, 4 * p.w * p.z⟩ := by
  have h' : p.x * p.x + p.y * p.y + p.z * p.z + p.w * p.w = 1 := h
  unfold cand3 SO3matrix; ext <;> lie_unfold <;> first | ring1 | linear_combination (-4:ℝ) * h'

/-- diagonal of the rotation matrix of `p` (any norm) -/
theorem rot_diag (p : Quat ℝ) :
    (SO3matrix p).transpose.r0.x = 1 - 2 * (p.y * p.y + p.z * p.z) ∧
    (SO3matrix p).transpose.r1.y = 1 - 2 * (p.x * p.x + p.z * p.z) ∧
    (SO3matrix p).transpose.r2.z = 1 - 2 * (p.x * p.x + p.y * p.y) := by
  unfold SO3matrix; refine ⟨?_, ?_, ?_⟩ <;> lie_unfold <;> ring

/-- the component of `p` that the selected candidate divides by -/
def domComp (r : Nat) (p : Quat ℝ) : ℝ :=
  match r with
  | 0 => p.x
  | 1 => p.y
  | 2 => p.z
  | _ => p.w

theorem region_dom (p : Quat ℝ) (h : p.normSq = 1) (atol : ℝ) :
    (mat2SO3Region atol (SO3matrix p).transpose ≤ 1 →
      (1 - atol) / 4 ≤ (domComp (mat2SO3Region atol (SO3matrix p).transpose) p) ^ 2) ∧
    (2 ≤ mat2SO3Region atol (SO3matrix p).transpose →
      (1 + atol) / 4 ≤ (domComp (mat2SO3Region atol (SO3matrix p).transpose) p) ^ 2) ∧
    mat2SO3Region atol (SO3matrix p).transpose ≤ 3 := by
  have h' : p.x * p.x + p.y * p.y + p.z * p.z + p.w * p.w = 1 := h
  obtain ⟨e0, e1, e2⟩ := rot_diag p
  simp only [mat2SO3Region, lt_real, e0, e1, e2]
  by_cases c2 : 1 - 2 * (p.x * p.x + p.y * p.y) < atol
  · by_cases c01 : 1 - 2 * (p.x * p.x + p.z * p.z) < 1 - 2 * (p.y * p.y + p.z * p.z)
    · simp only [c2, c01, decide_true, ↓reduceIte, domComp]
      refine ⟨fun _ => by nlinarith, fun hh => absurd hh (by norm_num), by norm_num⟩
    · simp only [c2, c01, decide_true, decide_false, ↓reduceIte, Bool.false_eq_true, domComp]
      refine ⟨fun _ => by nlinarith, fun hh => absurd hh (by norm_num), by norm_num⟩
  · by_cases c0n1 : 1 - 2 * (p.y * p.y + p.z * p.z) < -(1 - 2 * (p.x * p.x + p.z * p.z))
    · simp only [c2, c0n1, decide_true, decide_false, ↓reduceIte, Bool.false_eq_true, domComp]
      refine ⟨fun hh => absurd hh (by norm_num), fun _ => by nlinarith, by norm_num⟩
    · simp only [c2, c0n1, decide_false, ↓reduceIte, Bool.false_eq_true, domComp]
      refine ⟨fun hh => absurd hh (by norm_num), fun _ => by nlinarith, by norm_num⟩

/-- every candidate evaluated on a rotation matrix is `4c·(t-slot: c, w, x, y, z)` for its own component `c` -/
theorem candOf_rot (p : Quat ℝ) (h : p.normSq = 1) (r : Nat) :
    candOf (SO3matrix p).transpose r =
      ⟨4 * (domComp r p * domComp r p), 4 * domComp r p * p.w, 4 * domComp r p * p.x, 4 * domComp r p * p.y,
        4 * domComp r p * p.z⟩ := by
  match r with
  | 0 => simp only [candOf, domComp, cand0_rot]
  | 1 => simp only [candOf, domComp, cand1_rot]
  | 2 => simp only [candOf, domComp, cand2_rot]
  | (n+3) => simp only [candOf, domComp, cand3_rot p h]

/-- **any** candidate whose own component is non-zero recovers `±p` (branch agreement) -/
theorem cand_any_branch (p : Quat ℝ) (h : p.normSq = 1) (r : Nat) (hr : domComp r p ≠ 0) :
    (candOf (SO3matrix p).transpose r).toQuat = if 0 < domComp r p then p else p.neg := by
  rw [candOf_rot p h r]; exact toQuat_scaled p _ hr

/-! ## the exact output of the conversion on a rotation matrix -/

/-- `p` or `−p`, whichever makes the component the selected candidate divides by positive -/
noncomputable def canonQ (atol : ℝ) (p : Quat ℝ) : Quat ℝ :=
  if 0 < domComp (mat2SO3Region atol (SO3matrix p).transpose) p then p else p.neg

theorem canonQ_cases (atol : ℝ) (p : Quat ℝ) : canonQ atol p = p ∨ canonQ atol p = p.neg := by
  unfold canonQ; split_ifs <;> simp
theorem Quat.normSq_neg (p : Quat ℝ) : p.neg.normSq = p.normSq := by lie_unfold; ring
theorem SO3matrix_neg (p : Quat ℝ) : SO3matrix p.neg = SO3matrix p := by
  unfold SO3matrix; rw [Quat.neg_act, Quat.neg_act, Quat.neg_act]
theorem canonQ_normSq (atol : ℝ) (p : Quat ℝ) : (canonQ atol p).normSq = p.normSq := by
  rcases canonQ_cases atol p with h | h <;> rw [h]; exact Quat.normSq_neg p
theorem SO3matrix_canonQ (atol : ℝ) (p : Quat ℝ) : SO3matrix (canonQ atol p) = SO3matrix p := by
  rcases canonQ_cases atol p with h | h <;> rw [h]; exact SO3matrix_neg p
theorem canonQ_act (atol : ℝ) (p : Quat ℝ) (v : Vec3 ℝ) : (canonQ atol p).act v = p.act v := by
  rcases canonQ_cases atol p with h | h <;> rw [h]; exact Quat.neg_act p v

/-- the selected `t_i` on a rotation matrix is at least `1 − |atol|` : the square root and the division are safe -/
theorem selected_t_ge (p : Quat ℝ) (h : p.normSq = 1) (atol : ℝ) :
    1 - |atol| ≤ (candOf (SO3matrix p).transpose (mat2SO3Region atol (SO3matrix p).transpose)).t := by
  obtain ⟨h01, h23, _⟩ := region_dom p h atol
  rw [candOf_rot p h]
  simp only []
  have ha := neg_abs_le atol
  have hb := le_abs_self atol
  by_cases hr : mat2SO3Region atol (SO3matrix p).transpose ≤ 1
  · have := h01 hr; nlinarith
  · have := h23 (by omega); nlinarith

/-- **the conversion inverts `matrix()`**: on the matrix of a unit quaternion the branch-selected formula
returns exactly `p` or `−p` (sign: the dominant component made positive) — for every rotation, incl. angle π
and coordinate axes, for any mask threshold `|atol| < 1`. -/
theorem mat2SO3Raw_rot (p : Quat ℝ) (h : p.normSq = 1) (atol : ℝ) (ha : |atol| < 1) :
    mat2SO3Raw atol (SO3matrix p) = canonQ atol p := by
  obtain ⟨h01, h23, _⟩ := region_dom p h atol
  have ha1 := neg_abs_le atol
  have ha2 := le_abs_self atol
  have hne : domComp (mat2SO3Region atol (SO3matrix p).transpose) p ≠ 0 := by
    intro h0
    by_cases hr : mat2SO3Region atol (SO3matrix p).transpose ≤ 1
    · have := h01 hr; rw [h0] at this; nlinarith
    · have := h23 (by omega); rw [h0] at this; nlinarith
  unfold mat2SO3Raw canonQ
  exact cand_any_branch p h _ hne

/-! ## the `check=True` tests on exact (scaled) rotations -/

theorem closeTo_self (rtol atol a : ℝ) (hr : 0 ≤ rtol) (ha : 0 ≤ atol) : closeTo rtol atol a a = true := by
  unfold closeTo; simp only [le_real, sub_self, sabs_real, abs_zero, decide_eq_true_eq]
  have := abs_nonneg a; positivity

theorem closeTo_iff (rtol atol a b : ℝ) : closeTo rtol atol a b = true ↔ |a - b| ≤ atol + rtol * |b| := by
  unfold closeTo; simp only [le_real, sabs_real, decide_eq_true_eq]

theorem Mat3.allclose_self (rtol atol : ℝ) (A : Mat3 ℝ) (hr : 0 ≤ rtol) (ha : 0 ≤ atol) :
    Mat3.allclose rtol atol A A = true := by
  simp only [Mat3.allclose, Vec3.allclose, closeTo_self _ _ _ hr ha, Bool.and_self]

theorem rot_orthogonal (p : Quat ℝ) (h : p.normSq = 1) : (SO3matrix p).mul (SO3matrix p).transpose = Mat3.one := by
  have h' : p.x * p.x + p.y * p.y + p.z * p.z + p.w * p.w = 1 := h
  unfold SO3matrix
  ext <;> lie_unfold
  · linear_combination (4 * (p.y * p.y + p.z * p.z)) * h'
  · linear_combination (-4 * p.x * p.y) * h'
  · linear_combination (-4 * p.x * p.z) * h'
  · linear_combination (-4 * p.x * p.y) * h'
  · linear_combination (4 * (p.x * p.x + p.z * p.z)) * h'
  · linear_combination (-4 * p.y * p.z) * h'
  · linear_combination (-4 * p.x * p.z) * h'
  · linear_combination (-4 * p.y * p.z) * h'
  · linear_combination (4 * (p.x * p.x + p.y * p.y)) * h'

theorem rot_det (p : Quat ℝ) (h : p.normSq = 1) : (SO3matrix p).det = 1 := by
  have h' : p.x * p.x + p.y * p.y + p.z * p.z + p.w * p.w = 1 := h
  unfold SO3matrix; lie_unfold
  linear_combination (4 * (p.x * p.x + p.y * p.y + p.z * p.z)) * h'

theorem orthOk_rot (p : Quat ℝ) (h : p.normSq = 1) (rtol atol : ℝ) (hr : 0 ≤ rtol) (ha : 0 ≤ atol) :
    orthOk rtol atol (SO3matrix p) = true := by
  unfold orthOk; rw [rot_orthogonal p h]; exact Mat3.allclose_self _ _ _ hr ha

theorem detOk_rot (p : Quat ℝ) (h : p.normSq = 1) (rtol atol : ℝ) (hr : 0 ≤ rtol) (ha : 0 ≤ atol) :
    detOk rtol atol (SO3matrix p).det = true := by
  unfold detOk; rw [rot_det p h]; simpa using closeTo_self rtol atol 1 hr ha


/-! ## batch-level `check` = item-wise -/

theorem mat2SO3Batch_nocheck (detK : Mat3 ℝ → ℝ) (rtol atol : ℝ) (Rs : List (Mat3 ℝ)) :
    mat2SO3Batch detK false rtol atol Rs = .ok (Rs.map (mat2SO3Raw atol)) := by
  simp [mat2SO3Batch]

theorem mat2SO3Batch_ok_of_all (detK : Mat3 ℝ → ℝ) (check : Bool) (rtol atol : ℝ) (Rs : List (Mat3 ℝ))
    (h : ∀ R ∈ Rs, orthOk rtol atol R = true ∧ detOk rtol atol (detK R) = true) :
    mat2SO3Batch detK check rtol atol Rs = .ok (Rs.map (mat2SO3Raw atol)) := by
  have h1 : Rs.all (orthOk rtol atol) = true := List.all_eq_true.mpr fun R hR => (h R hR).1
  have h2 : (Rs.all fun R => detOk rtol atol (detK R)) = true := List.all_eq_true.mpr fun R hR => (h R hR).2
  simp [mat2SO3Batch, h1, h2]

theorem mat2SO3Batch_error_of_bad (detK : Mat3 ℝ → ℝ) (rtol atol : ℝ) (Rs : List (Mat3 ℝ))
    (h : ∃ R ∈ Rs, orthOk rtol atol R = false ∨ detOk rtol atol (detK R) = false) :
    ∃ e, mat2SO3Batch detK true rtol atol Rs = .error e := by
  obtain ⟨R, hR, hbad⟩ := h
  unfold mat2SO3Batch
  by_cases h1 : Rs.all (orthOk rtol atol) = true
  · have h2 : (Rs.all fun R => detOk rtol atol (detK R)) = false := by
      rcases hbad with hb | hb
      · have := List.all_eq_true.mp h1 R hR; rw [hb] at this; exact absurd this (by simp)
      · apply Bool.eq_false_iff.mpr; intro hall
        have := List.all_eq_true.mp hall R hR; rw [hb] at this; exact absurd this (by simp)
    exact ⟨.detNotOne, by simp [h1, h2]⟩
  · exact ⟨.notOrthogonal, by simp [h1]⟩


theorem powThird_cube (s : ℝ) (hs : 0 < s) : powThird (s * s * s) = some s := by
  have h3 : 0 < s * s * s := by positivity
  unfold powThird
  simp only [lt_real, k_real, Nat.cast_zero, h3, decide_true, if_true, exp_real, log_real, Nat.cast_ofNat]
  congr 1
  rw [show s * s * s = s ^ 3 by ring, Real.log_pow]
  rw [show ((3:ℕ):ℝ) * Real.log s / 3 = Real.log s by push_cast; ring]
  exact Real.exp_log hs

theorem Mat3.det_smul (s : ℝ) (R : Mat3 ℝ) : (Mat3.smul s R).det = s * s * s * R.det := by
  lie_unfold; ring

theorem Mat3.divS_smul (s : ℝ) (hs : s ≠ 0) (R : Mat3 ℝ) : Mat3.divS (Mat3.smul s R) s = R := by
  unfold Mat3.divS; ext <;> lie_unfold <;> field_simp

/-! ## blocks of the matrices produced by `matrix()` -/

theorem MatIn.ofDMat_SO3 (lay : Layout) (p : Quat ℝ) :
    (MatIn.ofDMat lay (SO3matrix p).toRows).R = SO3matrix p := by
  simp [MatIn.ofDMat, Mat3.toRows, Vec3.toList]

theorem MatIn.ofDMat_SE3 (lay : Layout) (X : SE3 ℝ) :
    MatIn.ofDMat lay (SE3matrix X) = ⟨lay, SO3matrix X.q, X.t, ⟨0, 0, 0⟩, 1⟩ := by
  simp only [MatIn.ofDMat, SE3matrix, matrix4, SE3Act4, SO3matrix, List.getD_cons_zero, List.getD_cons_succ, MatIn.mk.injEq, true_and]
  refine ⟨?_, ?_, ?_, ?_⟩ <;> first | (ext <;> lie_unfold <;> ring) | lie_unfold

theorem MatIn.ofDMat_Sim3 (lay : Layout) (X : Sim3 ℝ) :
    MatIn.ofDMat lay (Sim3matrix X) = ⟨lay, Mat3.smul X.s (SO3matrix X.q), X.t, ⟨0, 0, 0⟩, 1⟩ := by
  simp only [MatIn.ofDMat, Sim3matrix, matrix4, Sim3Act4, SO3matrix, List.getD_cons_zero, List.getD_cons_succ, MatIn.mk.injEq, true_and]
  refine ⟨?_, ?_, ?_, ?_⟩ <;> first | (ext <;> lie_unfold <;> ring) | lie_unfold

theorem MatIn.ofDMat_RxSO3 (lay : Layout) (X : RxSO3 ℝ) :
    MatIn.ofDMat lay (RxSO3matrix X) = ⟨lay, Mat3.smul X.s (SO3matrix X.q), ⟨0, 0, 0⟩, ⟨0, 0, 0⟩, 1⟩ := by
  simp only [MatIn.ofDMat, RxSO3matrix, matrix4, RxSO3Act4, SO3matrix, List.getD_cons_zero, List.getD_cons_succ, MatIn.mk.injEq, true_and]
  refine ⟨?_, ?_, ?_, ?_⟩ <;> first | (ext <;> lie_unfold <;> ring) | lie_unfold
theorem scaleTiny_some (rtol atol s : ℝ) (hs : 0 < s) : scaleTiny rtol atol (some s) = decide (s ≤ atol) := by
  simp only [scaleTiny, closeTo, le_real, sabs_real, k_real, Nat.cast_zero, sub_zero, abs_zero, mul_zero, add_zero,
    abs_of_pos hs]

/-- what the scaled conversions compute on the `s·R(q)` blocks of valid elements, for a batch of any length -/
theorem scaledRotBatch_valid (detK : Mat3 ℝ → ℝ) (hdet : ∀ M, detK M = M.det) (check : Bool) (rtol atol : ℝ)
    (hr : 0 ≤ rtol) (ha0 : 0 ≤ atol) (ha1 : atol < 1) (ps : List (Quat ℝ × ℝ))
    (hv : ∀ p ∈ ps, p.1.normSq = 1 ∧ 0 < p.2) (hbig : ps ≠ [] → ∃ p ∈ ps, atol < p.2) :
    scaledRotBatch detK check rtol atol (ps.map fun p => Mat3.smul p.2 (SO3matrix p.1))
      = .ok (ps.map fun p => (canonQ atol p.1, p.2)) := by
  have hss : (ps.map fun p => Mat3.smul p.2 (SO3matrix p.1)).map (fun R => powThird (detK R))
      = ps.map (fun p => some p.2) := by
    rw [List.map_map]; apply List.map_congr_left; intro p hp
    obtain ⟨h1, h2⟩ := hv p hp
    simp only [Function.comp, hdet, Mat3.det_smul, rot_det p.1 h1, mul_one, powThird_cube p.2 h2]
  have hrank : rankTestFails rtol atol (ps.map (fun p => some p.2)) = false := by
    apply Bool.eq_false_iff.mpr; intro hall
    unfold rankTestFails at hall
    rw [Bool.and_eq_true] at hall
    obtain ⟨hne, hall⟩ := hall
    have hps : ps ≠ [] := by intro h0; rw [h0] at hne; simp at hne
    obtain ⟨p, hp, hpb⟩ := hbig hps
    have := List.all_eq_true.mp hall (some p.2) (List.mem_map.mpr ⟨p, hp, rfl⟩)
    rw [scaleTiny_some _ _ _ (hv p hp).2] at this
    simp only [decide_eq_true_eq] at this; linarith
  have huse : (ps.map (fun p => some p.2)).all (fun s => (scaleUsable s).isSome) = true := by
    apply List.all_eq_true.mpr; intro s hs
    obtain ⟨p, hp, rfl⟩ := List.mem_map.mp hs
    simp [scaleUsable, (hv p hp).2]
  have hvs : (ps.map (fun p => some p.2)).map (fun s => (scaleUsable s).getD (k 1)) = ps.map (·.2) := by
    rw [List.map_map]; apply List.map_congr_left; intro p hp
    simp [scaleUsable, (hv p hp).2]
  have hQs : List.zipWith (fun R v => Mat3.divS R v) (ps.map fun p => Mat3.smul p.2 (SO3matrix p.1)) (ps.map (·.2))
      = ps.map (fun p => SO3matrix p.1) := by
    rw [List.zipWith_map, List.zipWith_self]; apply List.map_congr_left; intro p hp
    exact Mat3.divS_smul p.2 (ne_of_gt (hv p hp).2) _
  have hbatch : mat2SO3Batch detK check rtol atol (ps.map (fun p => SO3matrix p.1))
      = .ok (ps.map (fun p => canonQ atol p.1)) := by
    rw [mat2SO3Batch_ok_of_all, List.map_map]
    · congr 1; apply List.map_congr_left; intro p hp
      exact mat2SO3Raw_rot p.1 (hv p hp).1 atol (by rw [abs_of_nonneg ha0]; exact ha1)
    · intro R hR
      obtain ⟨p, hp, rfl⟩ := List.mem_map.mp hR
      exact ⟨orthOk_rot p.1 (hv p hp).1 _ _ hr ha0, by rw [hdet]; exact detOk_rot p.1 (hv p hp).1 _ _ hr ha0⟩
  unfold scaledRotBatch
  simp only [hss, hrank, huse, hvs, hQs, hbatch, Bool.false_eq_true, if_false, if_true]
  rw [List.zip_eq_zipWith, List.zipWith_map, List.zipWith_self]


/-- algebraic core of `euler2SO3 = Rz·Ry·Rx` in half-angle sines/cosines -/
theorem euler_core (sr cr sp cp sy cy : ℝ) (hr : sr ^ 2 + cr ^ 2 = 1) (hp : sp ^ 2 + cp ^ 2 = 1)
    (hy : sy ^ 2 + cy ^ 2 = 1) :
    SO3matrix ⟨sr * cp * cy - cr * sp * sy, cr * sp * cy + sr * cp * sy, cr * cp * sy - sr * sp * cy,
        cr * cp * cy + sr * sp * sy⟩
      = (Mat3.mul (Mat3.mul
          (⟨⟨2 * cy * cy - 1, -(2 * sy * cy), 0⟩, ⟨2 * sy * cy, 2 * cy * cy - 1, 0⟩, ⟨0, 0, 1⟩⟩ : Mat3 ℝ)
          ⟨⟨2 * cp * cp - 1, 0, 2 * sp * cp⟩, ⟨0, 1, 0⟩, ⟨-(2 * sp * cp), 0, 2 * cp * cp - 1⟩⟩)
          ⟨⟨1, 0, 0⟩, ⟨0, 2 * cr * cr - 1, -(2 * sr * cr)⟩, ⟨0, 2 * sr * cr, 2 * cr * cr - 1⟩⟩) := by
  unfold SO3matrix
  ext <;> lie_unfold
  · linear_combination (-2*cp^2*sy^2 - 2*cy^2*sp^2) * hr + (-2*cy^2) * hp + (-2*cp^2) * hy
  · linear_combination (2*cp^2*cy*sy + 2*cy*sp^2*sy) * hr + (-4*cr^2*cy*sy + 2*cy*sy) * hp + (-4*cp*cr*sp*sr) * hy
  · linear_combination (-2*cp*cy^2*sp + 2*cp*sp*sy^2) * hr + (4*cr*cy*sr*sy) * hp + (-4*cp*cr^2*sp + 2*cp*sp) * hy
  · linear_combination (2*cp^2*cy*sy - 2*cy*sp^2*sy) * hr + (-2*cy*sy) * hp + (0) * hy
  · linear_combination (-2*cp^2*cy^2 - 2*cy^2*sp^2) * hr + (2*cr^2*cy^2 - 2*cr^2*sy^2 - 2*cy^2) * hp + (-2*cr^2) * hy
  · linear_combination (-4*cp*cy*sp*sy) * hr + (-2*cr*cy^2*sr + 2*cr*sr*sy^2) * hp + (2*cr*sr) * hy
  · linear_combination (-2*cp*cy^2*sp - 2*cp*sp*sy^2) * hr + (0) * hp + (-2*cp*sp) * hy
  · linear_combination (0) * hr + (-2*cr*cy^2*sr - 2*cr*sr*sy^2) * hp + (4*cp^2*cr*sr - 2*cr*sr) * hy
  · linear_combination (-2*cp^2*cy^2 - 2*cp^2*sy^2) * hr + (-2*cr^2*cy^2 - 2*cr^2*sy^2) * hp + (4*cp^2*cr^2 - 2*cp^2 - 2*cr^2) * hy

theorem euler_core_norm (sr cr sp cp sy cy : ℝ) (hr : sr ^ 2 + cr ^ 2 = 1) (hp : sp ^ 2 + cp ^ 2 = 1)
    (hy : sy ^ 2 + cy ^ 2 = 1) :
    (⟨sr * cp * cy - cr * sp * sy, cr * sp * cy + sr * cp * sy, cr * cp * sy - sr * sp * cy,
        cr * cp * cy + sr * sp * sy⟩ : Quat ℝ).normSq = 1 := by
  lie_unfold
  linear_combination ((cp ^ 2 + sp ^ 2) * (cy ^ 2 + sy ^ 2)) * hr + (cy ^ 2 + sy ^ 2) * hp + hy

theorem cos_half (a : ℝ) : Real.cos a = 2 * Real.cos (a * (1 / 2)) * Real.cos (a * (1 / 2)) - 1 := by
  have := Real.cos_two_mul (a * (1 / 2)); rw [show 2 * (a * (1 / 2)) = a by ring] at this; rw [this]; ring
theorem sin_half (a : ℝ) : Real.sin a = 2 * Real.sin (a * (1 / 2)) * Real.cos (a * (1 / 2)) := by
  have := Real.sin_two_mul (a * (1 / 2)); rw [show 2 * (a * (1 / 2)) = a by ring] at this; rw [this]

/-- `euler2SO3 (roll, pitch, yaw)` has the matrix `Rz(yaw)·Ry(pitch)·Rx(roll)` -/
theorem euler2SO3_matrix' (e : Vec3 ℝ) : SO3matrix (euler2SO3 e) = eulerMat e := by
  unfold euler2SO3 eulerMat rotX rotY rotZ
  simp only [sin_real, cos_real, q_real, k_real, Nat.cast_one, Nat.cast_ofNat, Nat.cast_zero]
  rw [cos_half e.x, cos_half e.y, cos_half e.z, sin_half e.x, sin_half e.y, sin_half e.z]
  exact euler_core _ _ _ _ _ _ (Real.sin_sq_add_cos_sq _) (Real.sin_sq_add_cos_sq _) (Real.sin_sq_add_cos_sq _)

theorem euler2SO3_normSq' (e : Vec3 ℝ) : (euler2SO3 e).normSq = 1 := by
  unfold euler2SO3
  simp only [sin_real, cos_real, q_real, Nat.cast_one, Nat.cast_ofNat]
  exact euler_core_norm _ _ _ _ _ _ (Real.sin_sq_add_cos_sq _) (Real.sin_sq_add_cos_sq _) (Real.sin_sq_add_cos_sq _)

@[ext] theorem EulerT.ext' {a b : EulerT ℝ} (h0 : a.t0 = b.t0) (h1 : a.t1 = b.t1) (h2 : a.t2 = b.t2)
    (h3 : a.t3 = b.t3) (h4 : a.t4 = b.t4) : a = b := by cases a; cases b; simp_all

theorem eulerT_core (sr cr sp cp sy cy : ℝ) (hr : sr ^ 2 + cr ^ 2 = 1) (hp : sp ^ 2 + cp ^ 2 = 1)
    (hy : sy ^ 2 + cy ^ 2 = 1) :
    eulerT (⟨sr * cp * cy - cr * sp * sy, cr * sp * cy + sr * cp * sy, cr * cp * sy - sr * sp * cy,
        cr * cp * cy + sr * sp * sy⟩ : Quat ℝ)
      = ⟨(2 * sr * cr) * (2 * cp * cp - 1), (2 * cr * cr - 1) * (2 * cp * cp - 1), 2 * sp * cp,
          (2 * sy * cy) * (2 * cp * cp - 1), (2 * cy * cy - 1) * (2 * cp * cp - 1)⟩ := by
  have hn := euler_core_norm sr cr sp cp sy cy hr hp hy
  simp only [Quat.normSq] at hn
  unfold eulerT
  simp only [hn, k_real, Nat.cast_ofNat, div_one]
  ext <;> simp only []
  · linear_combination (0) * hr + (-2*cr*cy^2*sr - 2*cr*sr*sy^2) * hp + (4*cp^2*cr*sr - 2*cr*sr) * hy
  · linear_combination (-cp^2*cy^2 - cp^2*sy^2 + cy^2*sp^2 + sp^2*sy^2) * hr + (-2*cr^2*cy^2 - 2*cr^2*sy^2 + cy^2 + sy^2) * hp + (4*cp^2*cr^2 - 2*cp^2 - 2*cr^2 + 1) * hy
  · linear_combination (2*cp*cy^2*sp + 2*cp*sp*sy^2) * hr + (0) * hp + (2*cp*sp) * hy
  · linear_combination (2*cp^2*cy*sy - 2*cy*sp^2*sy) * hr + (-2*cy*sy) * hp + (0) * hy
  · linear_combination (cp^2*cy^2 - cp^2*sy^2 - cy^2*sp^2 + sp^2*sy^2) * hr + (-cy^2 + sy^2) * hp + (1 - 2*cp^2) * hy

/-- the five intermediates of `euler()` on `euler2SO3 (r, p, y)` -/
theorem eulerT_euler2SO3 (e : Vec3 ℝ) :
    eulerT (euler2SO3 e) = ⟨Real.sin e.x * Real.cos e.y, Real.cos e.x * Real.cos e.y, Real.sin e.y,
      Real.sin e.z * Real.cos e.y, Real.cos e.z * Real.cos e.y⟩ := by
  unfold euler2SO3
  simp only [sin_real, cos_real, q_real, Nat.cast_one, Nat.cast_ofNat]
  rw [eulerT_core _ _ _ _ _ _ (Real.sin_sq_add_cos_sq _) (Real.sin_sq_add_cos_sq _) (Real.sin_sq_add_cos_sq _)]
  rw [cos_half e.x, cos_half e.y, cos_half e.z, sin_half e.x, sin_half e.y, sin_half e.z]

@[simp] theorem atan2_real (y x : ℝ) : (Scalar.atan2 y x : ℝ) = Complex.arg ⟨x, y⟩ := rfl

/-- `atan2 (ρ sin θ) (ρ cos θ) = θ` for `ρ > 0`, `θ ∈ (-π, π]` -/
theorem atan2_polar (ρ θ : ℝ) (hρ : 0 < ρ) (hθ : θ ∈ Set.Ioc (-Real.pi) Real.pi) :
    (Scalar.atan2 (ρ * Real.sin θ) (ρ * Real.cos θ) : ℝ) = θ := by
  rw [atan2_real]
  have : (⟨ρ * Real.cos θ, ρ * Real.sin θ⟩ : ℂ) = (ρ : ℂ) * (Complex.cos θ + Complex.sin θ * Complex.I) := by
    apply Complex.ext <;> simp [← Complex.ofReal_cos, ← Complex.ofReal_sin]
  rw [this]; exact Complex.arg_mul_cos_add_sin_mul_I hρ hθ

/-- the class's `asin` (through `atan2`) is `Real.arcsin` on `[-1, 1]` -/
theorem sasin_real (x : ℝ) (h : |x| ≤ 1) : (sasin x : ℝ) = Real.arcsin x := by
  have h1 : 0 ≤ 1 - x * x := by have := abs_le.mp h; nlinarith
  unfold sasin
  rw [atan2_real]
  simp only [sqrt_real, k_real, Nat.cast_one]
  have hn : ‖(⟨Real.sqrt (1 - x * x), x⟩ : ℂ)‖ = 1 := by
    rw [Complex.norm_def, Complex.normSq_mk, Real.mul_self_sqrt h1]; simp
  rw [Complex.arg, if_pos (by simp [Real.sqrt_nonneg]), hn]; simp



theorem euler_converse_core (p : Quat ℝ) (h : p.normSq = 1) (ρ : ℝ) (hρ0 : 0 < ρ)
    (hρ : ρ ^ 2 = 1 - (2 * (p.w * p.y - p.z * p.x)) ^ 2) :
    Mat3.mul (Mat3.mul
      (⟨⟨((p.w * p.w + p.x * p.x) - (p.y * p.y + p.z * p.z)) / ρ, -(2 * (p.w * p.z + p.x * p.y) / ρ), 0⟩,
        ⟨2 * (p.w * p.z + p.x * p.y) / ρ, ((p.w * p.w + p.x * p.x) - (p.y * p.y + p.z * p.z)) / ρ, 0⟩, ⟨0, 0, 1⟩⟩ : Mat3 ℝ)
      ⟨⟨ρ, 0, 2 * (p.w * p.y - p.z * p.x)⟩, ⟨0, 1, 0⟩, ⟨-(2 * (p.w * p.y - p.z * p.x)), 0, ρ⟩⟩)
      ⟨⟨1, 0, 0⟩, ⟨0, ((p.w * p.w + p.z * p.z) - (p.x * p.x + p.y * p.y)) / ρ, -(2 * (p.w * p.x + p.y * p.z) / ρ)⟩,
        ⟨0, 2 * (p.w * p.x + p.y * p.z) / ρ, ((p.w * p.w + p.z * p.z) - (p.x * p.x + p.y * p.y)) / ρ⟩⟩
      = SO3matrix p := by
  have h' : p.x * p.x + p.y * p.y + p.z * p.z + p.w * p.w = 1 := h
  have hne : ρ ≠ 0 := ne_of_gt hρ0
  unfold SO3matrix
  ext <;> lie_unfold <;> simp only [mul_zero, zero_mul, add_zero, zero_add, mul_one, one_mul, sub_zero] <;> field_simp
  · linear_combination h'
  · linear_combination (4*p.w^2*p.x*p.y - 4*p.w*p.x^2*p.z - 4*p.w*p.y^2*p.z - 2*p.w*p.z + 4*p.x*p.y*p.z^2 + 2*p.x*p.y) * h' - (2 * (p.x * p.y - p.w * p.z)) * hρ
  · linear_combination (2*p.w^3*p.y - 2*p.w^2*p.x*p.z - 2*p.w*p.x^2*p.y + 2*p.w*p.y^3 - 2*p.w*p.y*p.z^2 + 2*p.w*p.y + 2*p.x^3*p.z - 2*p.x*p.y^2*p.z + 2*p.x*p.z^3 + 2*p.x*p.z) * h' - (2 * (p.x * p.z + p.w * p.y)) * hρ
  · ring
  · linear_combination (p.w^2 + 8*p.w*p.x*p.y*p.z - 8*p.x^2*p.z^2 - p.x^2 + p.y^2 - p.z^2 + 1) * h' - (1 - 2 * (p.x * p.x + p.z * p.z)) * hρ
  · linear_combination (4*p.w^2*p.y*p.z - 4*p.w*p.x*p.y^2 - 4*p.w*p.x*p.z^2 - 2*p.w*p.x + 4*p.x^2*p.y*p.z + 2*p.y*p.z) * h' - (2 * (p.y * p.z - p.w * p.x)) * hρ
  · ring
  · ring
  · linear_combination h'
theorem sclamp_of_mem (x : ℝ) (h1 : -1 ≤ x) (h2 : x ≤ 1) : sclamp (-(1 : ℝ)) 1 x = x := by
  unfold sclamp smin smax
  simp only [lt_real, decide_eq_true_eq]
  split_ifs <;> linarith

theorem eulerT_unit (p : Quat ℝ) (h : p.normSq = 1) :
    eulerT p = ⟨2 * (p.w * p.x + p.y * p.z), (p.w * p.w + p.z * p.z) - (p.x * p.x + p.y * p.y),
      2 * (p.w * p.y - p.z * p.x), 2 * (p.w * p.z + p.x * p.y), (p.w * p.w + p.x * p.x) - (p.y * p.y + p.z * p.z)⟩ := by
  have h' : p.x * p.x + p.y * p.y + p.z * p.z + p.w * p.w = 1 := h
  unfold eulerT; simp only [h', k_real, Nat.cast_ofNat, div_one]

/-- **Euler converse, matrix form**: away from gimbal lock the angles returned by `euler()` rebuild the
rotation of `p`: `Rz(yaw)·Ry(pitch)·Rx(roll) = R(p)`. -/
theorem eulerMat_SO3euler (eps : ℝ) (heps : 0 ≤ eps) (p : Quat ℝ) (h : p.normSq = 1)
    (hreg : eulerRegular eps p = true) : eulerMat (SO3euler eps p) = SO3matrix p := by
  have h' : p.x * p.x + p.y * p.y + p.z * p.z + p.w * p.w = 1 := h
  have hT := eulerT_unit p h
  have hlt : |2 * (p.w * p.y - p.z * p.x)| < 1 - eps := by
    simpa [eulerRegular, hT, sabs_real] using hreg
  have habs : |2 * (p.w * p.y - p.z * p.x)| < 1 := by linarith
  obtain ⟨hlo, hhi⟩ := abs_lt.mp habs
  set t2 := 2 * (p.w * p.y - p.z * p.x) with ht2
  have hpos : 0 < 1 - t2 ^ 2 := by nlinarith
  set ρ := Real.sqrt (1 - t2 ^ 2) with hρdef
  have hρ0 : 0 < ρ := Real.sqrt_pos.mpr hpos
  have hρ : ρ ^ 2 = 1 - t2 ^ 2 := Real.sq_sqrt (le_of_lt hpos)
  -- moduli of the two complex numbers whose arguments are roll and yaw
  have n1 : ‖(⟨(p.w * p.w + p.z * p.z) - (p.x * p.x + p.y * p.y), 2 * (p.w * p.x + p.y * p.z)⟩ : ℂ)‖ = ρ := by
    rw [Complex.norm_def, Complex.normSq_mk, hρdef]; congr 1
    rw [ht2]; linear_combination (p.w ^ 2 + p.x ^ 2 + p.y ^ 2 + p.z ^ 2 + 1) * h'
  have n2 : ‖(⟨(p.w * p.w + p.x * p.x) - (p.y * p.y + p.z * p.z), 2 * (p.w * p.z + p.x * p.y)⟩ : ℂ)‖ = ρ := by
    rw [Complex.norm_def, Complex.normSq_mk, hρdef]; congr 1
    rw [ht2]; linear_combination (p.w ^ 2 + p.x ^ 2 + p.y ^ 2 + p.z ^ 2 + 1) * h'
  have z1 : (⟨(p.w * p.w + p.z * p.z) - (p.x * p.x + p.y * p.y), 2 * (p.w * p.x + p.y * p.z)⟩ : ℂ) ≠ 0 := by
    intro h0; rw [h0, norm_zero] at n1; linarith
  have z2 : (⟨(p.w * p.w + p.x * p.x) - (p.y * p.y + p.z * p.z), 2 * (p.w * p.z + p.x * p.y)⟩ : ℂ) ≠ 0 := by
    intro h0; rw [h0, norm_zero] at n2; linarith
  have hclamp : sclamp (-(1 : ℝ)) 1 t2 = t2 := sclamp_of_mem t2 (le_of_lt hlo) (le_of_lt hhi)
  have hasin : (sasin t2 : ℝ) = Real.arcsin t2 := sasin_real t2 (le_of_lt habs)
  unfold eulerMat SO3euler rotX rotY rotZ
  simp only [hreg, if_true, hT, k_real, Nat.cast_one, hclamp, hasin, atan2_real, sin_real, cos_real, k_real, Nat.cast_one, Nat.cast_zero,
    Complex.cos_arg z1, Complex.sin_arg, Complex.cos_arg z2, n1, n2, Real.cos_arcsin, Real.sin_arcsin (le_of_lt hlo) (le_of_lt hhi)]
  try rw [← hρdef]
  exact euler_converse_core p h ρ hρ0 (by rw [hρ])



theorem Quat.neg_neg' (p : Quat ℝ) : p.neg.neg = p := by ext <;> simp [Quat.neg]

/-- the double cover is exactly two-to-one on unit quaternions: equal matrices ⇒ equal up to sign -/
theorem SO3matrix_inj (p r : Quat ℝ) (hp : p.normSq = 1) (hr : r.normSq = 1)
    (h : SO3matrix p = SO3matrix r) : p = r ∨ p = r.neg := by
  have e1 := mat2SO3Raw_rot p hp 0 (by simp)
  have e2 := mat2SO3Raw_rot r hr 0 (by simp)
  rw [h, e2] at e1
  rcases canonQ_cases 0 p with a | a <;> rcases canonQ_cases 0 r with b | b <;> rw [a, b] at e1
  · exact Or.inl e1.symm
  · exact Or.inr e1.symm
  · right; rw [← Quat.neg_neg' p, ← e1]
  · left; rw [← Quat.neg_neg' p, ← e1, Quat.neg_neg']

/-- `euler()` inverts `euler2SO3` on the principal ranges away from gimbal lock -/
theorem SO3euler_euler2SO3 (eps : ℝ) (e : Vec3 ℝ)
    (hr : e.x ∈ Set.Ioc (-Real.pi) Real.pi) (hp : e.y ∈ Set.Icc (-(Real.pi / 2)) (Real.pi / 2))
    (hy : e.z ∈ Set.Ioc (-Real.pi) Real.pi) (hreg : |Real.sin e.y| < 1 - eps) (heps : 0 ≤ eps) :
    SO3euler eps (euler2SO3 e) = e := by
  have hc0 : 0 ≤ Real.cos e.y := Real.cos_nonneg_of_neg_pi_div_two_le_of_le hp.1 hp.2
  have hs1 : |Real.sin e.y| < 1 := by linarith
  have hcpos : 0 < Real.cos e.y := by
    rcases eq_or_lt_of_le hc0 with h0 | h0
    · exfalso
      have := Real.sin_sq_add_cos_sq e.y
      rw [← h0] at this
      have : Real.sin e.y ^ 2 = 1 := by linarith
      have h2 : |Real.sin e.y| ^ 2 = 1 := by rw [sq_abs]; exact this
      nlinarith [abs_nonneg (Real.sin e.y)]
    · exact h0
  have hT := eulerT_euler2SO3 e
  have hregb : eulerRegular eps (euler2SO3 e) = true := by
    simp only [eulerRegular, hT, sabs_real, lt_real, k_real, Nat.cast_one, decide_eq_true_eq]; exact hreg
  obtain ⟨hlo, hhi⟩ := abs_lt.mp hs1
  unfold SO3euler
  simp only [hregb, if_true, hT, k_real, Nat.cast_one, sclamp_of_mem _ (le_of_lt hlo) (le_of_lt hhi),
    sasin_real _ (le_of_lt hs1), Real.arcsin_sin hp.1 hp.2]
  rw [mul_comm (Real.sin e.x), mul_comm (Real.cos e.x), mul_comm (Real.sin e.z), mul_comm (Real.cos e.z),
    atan2_polar _ _ hcpos hr, atan2_polar _ _ hcpos hy]

/-- principal ranges of the returned angles (regular branch) -/
theorem SO3euler_ranges (eps : ℝ) (p : Quat ℝ) (hreg : eulerRegular eps p = true) :
    (SO3euler eps p).x ∈ Set.Ioc (-Real.pi) Real.pi ∧ (SO3euler eps p).z ∈ Set.Ioc (-Real.pi) Real.pi := by
  unfold SO3euler
  simp only [hreg, if_true, atan2_real]
  exact ⟨Complex.arg_mem_Ioc _, Complex.arg_mem_Ioc _⟩

/-- pitch is always in `[-π/2, π/2]` (both branches; `atan2 · (√·)` has a non-negative second argument) -/
theorem SO3euler_pitch_range (eps : ℝ) (p : Quat ℝ) :
    (SO3euler eps p).y ∈ Set.Icc (-(Real.pi / 2)) (Real.pi / 2) := by
  unfold SO3euler sasin
  simp only [atan2_real, sqrt_real]
  rw [Set.mem_Icc, ← abs_le]
  exact Complex.abs_arg_le_pi_div_two_iff.mpr (by simp [Real.sqrt_nonneg])


/-! ## the `check=True` tests spelled out -/

theorem Vec3.allclose_iff (rtol atol : ℝ) (a b : Vec3 ℝ) : Vec3.allclose rtol atol a b = true ↔
    |a.x - b.x| ≤ atol + rtol * |b.x| ∧ |a.y - b.y| ≤ atol + rtol * |b.y| ∧ |a.z - b.z| ≤ atol + rtol * |b.z| := by
  simp only [Vec3.allclose, Bool.and_eq_true, closeTo_iff, and_assoc]

/-- `orthOk` is exactly: every entry of `R Rᵀ − 1` is within `atol` (+ `rtol` on the diagonal) -/
theorem orthOk_iff (rtol atol : ℝ) (R : Mat3 ℝ) : orthOk rtol atol R = true ↔
    (|(R.mul R.transpose).r0.x - 1| ≤ atol + rtol ∧ |(R.mul R.transpose).r1.y - 1| ≤ atol + rtol ∧
      |(R.mul R.transpose).r2.z - 1| ≤ atol + rtol) ∧
    (|(R.mul R.transpose).r0.y| ≤ atol ∧ |(R.mul R.transpose).r0.z| ≤ atol ∧ |(R.mul R.transpose).r1.x| ≤ atol ∧
      |(R.mul R.transpose).r1.z| ≤ atol ∧ |(R.mul R.transpose).r2.x| ≤ atol ∧ |(R.mul R.transpose).r2.y| ≤ atol) := by
  unfold orthOk Mat3.allclose
  simp only [Bool.and_eq_true, Vec3.allclose_iff]
  simp only [Mat3.one, Vec3.e0, Vec3.e1, Vec3.e2, k_real, Nat.cast_one, Nat.cast_zero, abs_one, abs_zero, mul_one,
    mul_zero, add_zero, sub_zero]
  tauto

theorem detOk_iff (rtol atol d : ℝ) : detOk rtol atol d = true ↔ |d - 1| ≤ atol + rtol := by
  unfold detOk; rw [closeTo_iff]; simp

theorem mat2SO3_ok_iff (detK : Mat3 ℝ → ℝ) (rtol atol : ℝ) (R : Mat3 ℝ) (q : Quat ℝ) :
    mat2SO3 detK true rtol atol R = .ok q ↔
      orthOk rtol atol R = true ∧ detOk rtol atol (detK R) = true ∧ q = mat2SO3Raw atol R := by
  unfold mat2SO3
  by_cases h1 : orthOk rtol atol R = true
  · by_cases h2 : detOk rtol atol (detK R) = true
    · simp [h1, h2, eq_comm]
    · simp [h1, h2]
  · simp [h1]


/-! ## scaled conversions on arbitrary blocks with positive determinant -/

/-- the scale the code extracts from a block with positive determinant -/
noncomputable def cbrtOf (d : ℝ) : ℝ := Real.exp (Real.log d / 3)

theorem powThird_pos (d : ℝ) (hd : 0 < d) : powThird d = some (cbrtOf d) := by
  simp [powThird, hd, cbrtOf]

theorem cbrtOf_pos (d : ℝ) : 0 < cbrtOf d := Real.exp_pos _

/-- normalised blocks the scaled conversions hand to `mat2SO3` when every determinant is positive -/
theorem scaledRotBatch_pos (detK : Mat3 ℝ → ℝ) (check : Bool) (rtol atol : ℝ) (Rs : List (Mat3 ℝ))
    (hpos : ∀ R ∈ Rs, 0 < detK R)
    (hrank : rankTestFails rtol atol (Rs.map fun R => powThird (detK R)) = false) :
    scaledRotBatch detK check rtol atol Rs =
      match mat2SO3Batch detK check rtol atol (Rs.map fun R => Mat3.divS R (cbrtOf (detK R))) with
      | .error e => .error e
      | .ok qs => .ok (List.zip qs (Rs.map fun R => cbrtOf (detK R))) := by
  have hss : (Rs.map fun R => powThird (detK R)) = Rs.map (fun R => some (cbrtOf (detK R))) := by
    apply List.map_congr_left; intro R hR; exact powThird_pos _ (hpos R hR)
  have huse : (Rs.map (fun R => some (cbrtOf (detK R)))).all (fun s => (scaleUsable s).isSome) = true := by
    apply List.all_eq_true.mpr; intro s hs
    obtain ⟨R, hR, rfl⟩ := List.mem_map.mp hs
    simp [scaleUsable, cbrtOf_pos]
  have hvs : (Rs.map (fun R => some (cbrtOf (detK R)))).map (fun s => (scaleUsable s).getD (k 1))
      = Rs.map (fun R => cbrtOf (detK R)) := by
    rw [List.map_map]; apply List.map_congr_left; intro R hR
    simp [scaleUsable, cbrtOf_pos]
  have hQs : List.zipWith (fun R v => Mat3.divS R v) Rs (Rs.map (fun R => cbrtOf (detK R)))
      = Rs.map (fun R => Mat3.divS R (cbrtOf (detK R))) := by
    rw [List.zipWith_map_right, List.zipWith_self]
  unfold scaledRotBatch
  rw [hss] at hrank
  simp only [hss, hrank, huse, hvs, hQs, Bool.false_eq_true, if_false, if_true]
  generalize mat2SO3Batch detK check rtol atol _ = res
  cases res <;> rfl



/-! ## exactly at gimbal lock -/

set_option linter.unusedTactic false in
set_option linter.unreachableTactic false in
/-- exactly at gimbal lock (`sin pitch = t2 = ±1`) the singular-branch formulas (`roll = 0`, `pitch = ±π/2`,
`yaw = −2·pm(t2)·atan2(x, w)`) reproduce the rotation exactly: `Rz(yaw)·Ry(pitch)·Rx(0) = R(p)` -/
theorem eulerMat_SO3euler_gimbal (eps : ℝ) (heps : 0 ≤ eps) (p : Quat ℝ) (h : p.normSq = 1)
    (hlock : 2 * (p.w * p.y - p.z * p.x) = 1 ∨ 2 * (p.w * p.y - p.z * p.x) = -1) :
    eulerMat (SO3euler eps p) = SO3matrix p := by
  have h' : p.x * p.x + p.y * p.y + p.z * p.z + p.w * p.w = 1 := h
  have hT := eulerT_unit p h
  -- modulus of w + i x
  have hn : ‖(⟨p.w, p.x⟩ : ℂ)‖ = Real.sqrt (p.w * p.w + p.x * p.x) := by
    rw [Complex.norm_def, Complex.normSq_mk]
  rcases hlock with h1 | h1
  · -- t2 = 1 : y = w, z = −x
    have hyw : p.y = p.w := by nlinarith [sq_nonneg (p.w - p.y), sq_nonneg (p.x + p.z)]
    have hzx : p.z = -p.x := by nlinarith [sq_nonneg (p.w - p.y), sq_nonneg (p.x + p.z)]
    have hρ2 : p.w * p.w + p.x * p.x = 1 / 2 := by rw [hyw, hzx] at h'; linarith
    have hρpos : 0 < Real.sqrt (p.w * p.w + p.x * p.x) := Real.sqrt_pos.mpr (by rw [hρ2]; norm_num)
    have hz : (⟨p.w, p.x⟩ : ℂ) ≠ 0 := by
      intro h0; rw [h0, norm_zero] at hn; linarith
    have hreg : eulerRegular eps p = false := by
      simp only [eulerRegular, hT, sabs_real, lt_real, k_real, Nat.cast_one, h1, abs_one, decide_eq_false_iff_not]
      linarith
    set ρ := Real.sqrt (p.w * p.w + p.x * p.x) with hρ
    have hρρ : ρ * ρ = 1 / 2 := by rw [hρ, Real.mul_self_sqrt (by rw [hρ2]; norm_num), hρ2]
    have hc : Real.cos (Complex.arg ⟨p.w, p.x⟩) = p.w / ρ := by rw [Complex.cos_arg hz, hn]
    have hs : Real.sin (Complex.arg ⟨p.w, p.x⟩) = p.x / ρ := by rw [Complex.sin_arg, hn]
    unfold eulerMat SO3euler rotX rotY rotZ
    simp only [hreg, Bool.false_eq_true, if_false, hT, h1, k_real, Nat.cast_one, Nat.cast_zero, Nat.cast_ofNat,
      sclamp_of_mem 1 (by norm_num) (le_refl _), sasin_real 1 (by simp), Real.arcsin_one, Real.cos_pi_div_two,
      Real.sin_pi_div_two, Real.cos_zero, Real.sin_zero, sin_real, cos_real, atan2_real]
    have hspm : spm (1 : ℝ) = 1 := by simp [spm]
    rw [hspm]
    have e2 : -(2 : ℝ) * 1 * Complex.arg ⟨p.w, p.x⟩ = -(2 * Complex.arg ⟨p.w, p.x⟩) := by ring
    rw [e2, Real.cos_neg, Real.sin_neg, Real.cos_two_mul, Real.sin_two_mul, hc, hs]
    have hne : ρ ≠ 0 := ne_of_gt hρpos
    unfold SO3matrix
    have hρsq : ρ ^ 2 = 1 / 2 := by rw [pow_two]; exact hρρ
    ext <;> lie_unfold <;> simp only [hyw, hzx] <;> field_simp <;> (try simp only [hρsq]) <;>
      first
        | linear_combination (0 : ℝ) * hρ2
        | linear_combination (1 : ℝ) * hρ2
        | linear_combination (-1 : ℝ) * hρ2
        | linear_combination (2 : ℝ) * hρ2
        | linear_combination (-2 : ℝ) * hρ2
  · -- t2 = −1 : y = −w, z = x
    have hyw : p.y = -p.w := by nlinarith [sq_nonneg (p.w + p.y), sq_nonneg (p.x - p.z)]
    have hzx : p.z = p.x := by nlinarith [sq_nonneg (p.w + p.y), sq_nonneg (p.x - p.z)]
    have hρ2 : p.w * p.w + p.x * p.x = 1 / 2 := by rw [hyw, hzx] at h'; linarith
    have hρpos : 0 < Real.sqrt (p.w * p.w + p.x * p.x) := Real.sqrt_pos.mpr (by rw [hρ2]; norm_num)
    have hz : (⟨p.w, p.x⟩ : ℂ) ≠ 0 := by
      intro h0; rw [h0, norm_zero] at hn; linarith
    have hreg : eulerRegular eps p = false := by
      simp only [eulerRegular, hT, sabs_real, lt_real, k_real, Nat.cast_one, h1, abs_neg, abs_one, decide_eq_false_iff_not]
      linarith
    set ρ := Real.sqrt (p.w * p.w + p.x * p.x) with hρ
    have hρρ : ρ * ρ = 1 / 2 := by rw [hρ, Real.mul_self_sqrt (by rw [hρ2]; norm_num), hρ2]
    have hc : Real.cos (Complex.arg ⟨p.w, p.x⟩) = p.w / ρ := by rw [Complex.cos_arg hz, hn]
    have hs : Real.sin (Complex.arg ⟨p.w, p.x⟩) = p.x / ρ := by rw [Complex.sin_arg, hn]
    unfold eulerMat SO3euler rotX rotY rotZ
    simp only [hreg, Bool.false_eq_true, if_false, hT, h1, k_real, Nat.cast_one, Nat.cast_zero, Nat.cast_ofNat,
      sclamp_of_mem (-1) (le_refl _) (by norm_num), sasin_real (-1) (by simp), Real.arcsin_neg_one, Real.cos_neg, Real.sin_neg,
      Real.cos_pi_div_two, Real.sin_pi_div_two, Real.cos_zero, Real.sin_zero, sin_real, cos_real, atan2_real]
    have hspm : spm (-1 : ℝ) = -1 := by simp [spm]
    rw [hspm]
    have e2 : -(2 : ℝ) * -1 * Complex.arg ⟨p.w, p.x⟩ = 2 * Complex.arg ⟨p.w, p.x⟩ := by ring
    rw [e2, Real.cos_two_mul, Real.sin_two_mul, hc, hs]
    have hne : ρ ≠ 0 := ne_of_gt hρpos
    unfold SO3matrix
    have hρsq : ρ ^ 2 = 1 / 2 := by rw [pow_two]; exact hρρ
    ext <;> lie_unfold <;> simp only [hyw, hzx] <;> field_simp <;> (try simp only [hρsq]) <;>
      first
        | linear_combination (0 : ℝ) * hρ2
        | linear_combination (1 : ℝ) * hρ2
        | linear_combination (-1 : ℝ) * hρ2
        | linear_combination (2 : ℝ) * hρ2
        | linear_combination (-2 : ℝ) * hρ2

end PP
