"""C14 — LQR returns the feasible global minimiser of the LQ problem; MPC agrees with it.

Model: lean/Pose/Model/Lqr.lean; theorems: lean/Proofs/Props/C14.lean.

Correspondence streams (implementation vs the Lean model run in 192-bit arithmetic)
  lqr      : (x, u, cost) of `LQR.__call__` on LTI / LTV systems, per batch item
  gains    : (K, k) of `LQR.lqr_backward` for the same nominal trajectory
  nls      : one LQR solve on the time-dependent nonlinear `SinSys` (linearisation by torch autograd)
  mpc      : `MPC.__call__` on linear and nonlinear systems: iteration count, stepper patience, (x, u, cost)
  stepper  : `ReduceToBason` continual flags for engineered loss sequences
Oracles on the real code (independent of the model)
  start    : x[0] == x_init (bitwise)
  dynamics : x[t+1] = A_t x[t] + B_t u[t] + c1 (resp. f(x,u,t)) to 32 eps of the summed magnitudes
  cost     : reported cost = sum of 1/2 tau'Q tau + p'tau along the returned trajectory
  optimal  : zero gradient w.r.t. every input through the exact linear roll-out, distance to the dense
             reference optimum (componentwise forward-error bound |H^-1| |terms|), cost not above the optimum,
             no random perturbation lowers the cost
  nominal  : result independent of u_traj (None, zeros, random at several scales, previous solution)
  history  : result independent of earlier solves / clock writes / forward calls on the same system object
  purity   : x_init, u_traj, Q, p and the system matrices are not modified
  mpc-loop : the first inner solve starts from THIS call's u_init, every later one from the previous inputs, the final
             solve from the best-cost inputs; number of iterations = the documented stepper rules replayed on the costs
  stepper  : ReduceToBason flags vs the documented rules (python replay) on engineered loss sequences
  batch    : mixed-regime batches (zero / large ill-conditioned / ordinary item): every item vs the same problem alone
  attributes / aliasing / dtype : public attributes of LQR, MPC, stepper unchanged by a call; tensors returned by earlier
             calls not modified by later ones; outputs in the dtype of the inputs
Pass 2 (notes/C14.md): call / constructor spellings and defaults, failing calls (solver, user system, documented asserts)
followed by more solves on the same objects, grad modes, deep / shallow / pickle / state_dict copies used interleaved,
memory ownership of results, all extents in {1,2,3}^4, objects of different kinds interleaved, stepper spacing regimes.
Hardening classes (notes/C14.md): deterministic corpus first (`corpus`, `mpc_corpus`), magnitudes to 1e6..1e8, object
re-use with every per-call argument varied (x_init, u_traj/u_init value+presence+layout, dt, problem, batch size),
in-place updates of caller-held tensors (system matrices, x_init, clock tensor), views (non-contiguous, slices of larger
buffers, transposed storage, expanded Q/p) with the buffers behind them checked bit-for-bit.
"""
from __future__ import annotations

import contextlib
import copy
import io
import math
import os
import pickle
import threading
import warnings

# small dense problems: one BLAS thread is fastest and does not fight with the other jobs on the box
os.environ.setdefault("OPENBLAS_NUM_THREADS", "1")
os.environ.setdefault("MKL_NUM_THREADS", "1")

import numpy as np
import torch

from . import common
from . import util_lqr as U
from .common import Ctx

META = {
    "rule": "deterministic corner corpus first (47 fixed cases: every system kind x shape corner with an 18-step history "
            "containing every kind of operation, extreme magnitudes one block at a time, float32, per-call dt, MPC with 3 "
            "calls / shared steppers / degenerate budgets); then seeded cases. lqr: structured LQ problems — batch 1..3, horizon 1..20, state/input dims 1..6 (all small shapes "
            "exhaustively + random), LTI (batched / shared matrices), LTV with clock-indexed A_t,B_t (and c1_t), "
            "spectral radius of A from {0,.3,.9,1,1.05,1.3,2,3} capped by rho^T<=1e4, A styles rand/diag/rot/jordan/zero, "
            "B full/zero column/zero at odd times/rank one, cond(Q) in {1,10,1e3,1e6} (log-spaced or clustered "
            "spectrum), magnitude ladders for Q, B, c1, p, x_init; Q,p given per step or tiled; every case is a "
            "HISTORY on one system object: solves with different nominal trajectories interleaved with clock writes, "
            "forward calls, other problems on the same system, new LQR objects. mpc: linear (as above, batch 1) and the "
            "nonlinear time-dependent SinSys, stepper steps 1..12, patience 1..5, repeated calls on one MPC object. "
            "A case is non-trivial when T>=2 or some block non-zero; distinct by (kind, B, T, ns, nc, sys, condQ, rho, "
            "astyle, bstyle, qshape, #solves).",
    "trusted": ["torch.linalg.cholesky / cholesky_solve (external kernel, contract: Quu·X = Y for PD Quu; the driver's "
                "stand-in is re-checked on every stage)",
                "torch.autograd.functional.jacobian of the user system (NLS linearisation)",
                "numpy dense reference (condensed QP) used for the optimality oracle and the error scales"],
    "assumptions": ["SCOPE (hlin): the optimality / nominal-independence / MPC=LQR theorems assume A(s*dt) = A(s), B(s*dt) = B(s) for the steps the "
                    "backward pass reads (s+1 < T): LTI with any dt, LTV with dt = 1 (theorems hlin_lti, hlin_dt_one, lqr_optimal_ltv, "
                    "mpc_linear_eq_lqr_ltv need no such hypothesis). On an indexed LTV with dt != 1 the real code linearises at t*dt but rolls "
                    "out with clock +1 per step and is NOT optimal (T=4, dt=2: gradient 53, cost 45.4 vs 3.7); the property text does not "
                    "mention dt — observation, the generators use dt = 1 for LTV. The model has dt : Nat.",
                    "Q_t symmetric; the theorems need only Q_t PSD with PD input block (CostOK). For a NON-symmetric Q with positive quadratic "
                    "form the code is not optimal (it uses Q tau as the gradient): read 'positive definite' as symmetric PD.",
                    "batch sizes 1..3 (and the large batches of pass 4): the model is one batch item; batched = item-wise is decided by the "
                    "harness only (every item vs reference, items vs the same item alone), there is no theorem about batching.",
                    "independence of earlier calls: the model's only inter-call state is the clock, so history_independent & co. (Lemmas, Part 9) "
                    "are true by construction; LQR.x_traj/u_traj, System.state/input, NLS._ref_* are covered by the history stream only.",
                    "Q_t symmetric positive definite (hypothesis of the property's own optimality theorems)",
                    "LTV systems are solved with dt = 1 (set_refpoint(t*dt) indexes A_t; other dt make backward and "
                    "forward pass read different matrices: hypothesis `hlin` of the theorems)",
                    "MPC: single batch item (the code compares `cost < best` as a scalar)"],
    "partial": ["proved in pass 10 (no longer correspondence-only): K_t, Quu_t, Qux_t are independent of nominal and start "
                "(gains_independent_of_nominal_and_start, mpc_linear_gains) and so is the feedback policy u_t = K_t x_t + kappa_t "
                "(feedback_law_nominal_independent)",
                "rounding: the theorems are over the reals; float accuracy is measured against the exact model with "
                "the componentwise forward-error bound 1e3*eps*|H^-1||terms|",
                "MPC on nonlinear systems: proved = feasibility w.r.t. the nonlinear transition, cost consistency, "
                "final solve linearised around the best inputs; convergence of iLQR is not claimed by the property"],
}

C_TOL = 1.0e3      # forward-error constant (measured ratios on the clean tree stay below ~15)
C_GAIN = 1.0e5     # same for the gains stream (its sensitivity is only SAMPLED along four random data perturbations,
                   # not worst-case; largest ratio seen on the clean tree with 1e4: 1.3)
NEARSYM: list = []   # (u ratio, x ratio, relative difference) implementation vs model on nearly symmetric Q (informational)
STAT: dict = {}    # largest observed error / allowed-error ratio per check (goes into the evidence notes)


def stat(name, val):
    v = float(val)
    if v != v:
        v = float("inf")          # a NaN ratio is the worst ratio
    if v > STAT.get(name, 0.0):
        STAT[name] = v


def over(err, tol):
    """NaN-safe tolerance test: True when some entry of `err` is NOT within `tol` (a NaN error is a violation: `err > tol` would be
    False for NaN and let it pass)"""
    return not bool(np.all(np.asarray(err) <= np.asarray(tol)))


def eps_of(case):
    return common.EPS[case["dtype"]]


# ----------------------------------------------------------------------------- driver fan-out

def run_lines(ctx: Ctx, lines):
    """the model lines of a stream, over up to 8 driver processes (order kept)"""
    if len(lines) < 8:
        return ctx.driver.run(lines)
    n = min(8, len(lines))
    chunks = [lines[i::n] for i in range(n)]
    outs = [None] * n
    errs = []

    def work(i):
        try:
            outs[i] = ctx.driver._run1(chunks[i], 3000)
        except Exception as e:  # noqa
            errs.append(e)
    ths = [threading.Thread(target=work, args=(i,)) for i in range(n)]
    [t.start() for t in ths]
    [t.join() for t in ths]
    if errs:
        raise errs[0] if isinstance(errs[0], common.InfraError) else common.InfraError(repr(errs[0]))
    ctx.driver.calls += 1
    ctx.driver.lines += len(lines)
    res = [None] * len(lines)
    for i in range(n):
        res[i::n] = outs[i]
    return res


# ----------------------------------------------------------------------------- case generation

HORIZONS = [1, 2, 3, 4, 5, 6, 8, 10, 13, 17, 20]


NOMS = ["none", "zeros", ["rand", 1e-3, 0], ["rand", 1.0, 1], ["rand", 1.0, 2], ["rand", 30.0, 3], ["rand", 1e4, 4], "prev"]
XVIEWS = ["contig", "contig", "noncontig", "slice"]
UVIEWS = ["contig", "contig", "noncontig", "slice", "transposed"]
FAILS = ["nonpd", "nonpd", "sys_raise", "sys_inject", "sys_inject", "x0_1d", "x0_dtype"]   # solver raising, user system raising, documented asserts
COPIES = ["deepcopy", "copy", "pickle", "state_dict"]


def gen_history(rng, case, nsolve=None):
    """a history on one system object: solves with EVERY per-call argument varied (x_init, u_traj, dt, memory layout of
    the arguments) interleaved with clock writes, forward calls, in-place updates of tensors the caller holds
    (system matrices, x_init), other problems / batch sizes / LQR objects on the same system"""
    T = case["T"]
    lti = case["sys"] in ("lti", "lti_shared")
    ops = []
    nsolve = rng.choice([1, 2, 2, 3, 3, 4]) if nsolve is None else nsolve
    for i in range(nsolve):
        if i > 0 or rng.random() < 0.5:
            r = rng.random()
            if r < 0.25:
                ops.append(["clock", rng.choice([1, 2, T - 1, T, T + 1, T + case["extra"], 2 * T + 7, 1000, -1, -T - 2, 2 ** 24 + 1, 2 ** 24 + 3,
                                                 1700000000, 2 ** 53 + 1]), rng.choice(["set", "reset", "tensor"])])
            elif r < 0.4:
                ops.append(["fwd", rng.randint(1, 3)])
            elif r < 0.55:
                ops.append(["other", rng.randint(1, T), rng.randrange(1 << 20), rng.choice([1, 2, 3])])
            elif r < 0.63:
                ops.append(["newlqr"])
            elif r < 0.73:
                ops.append(["otherx0", rng.randrange(1 << 20), rng.choice([1.0, 1.0, 1e3])])
            elif r < 0.83 and i > 0:
                ops.append(["mutate", rng.choice([0.5, -1.0, 1.25]), rng.choice([2.0, -0.5, 1.0]), rng.choice([0.0, 0.75])])
            elif r < 0.9 and i > 0:
                ops.append(["mutx0", rng.choice([-1.0, 0.5, 2.0]), rng.choice([0.0, 0.25])])
        r = rng.random()
        if r < 0.22:
            ops.append(["fail", rng.choice(FAILS), rng.randrange(1000)])
        elif r < 0.34:
            ops.append(["copy", rng.choice(COPIES)])
        elif r < 0.42 and i > 0:
            ops.append(["scribble"])
        opts = {"xview": rng.choice(XVIEWS), "uview": rng.choice(UVIEWS), "prev_obj": rng.random() < 0.5,
                "style": rng.choice(STYLES), "grad": rng.choice(GRADS)}
        if lti and rng.random() < 0.4:
            opts["dt"] = rng.choice([1, 2, 0.5, 0.01, "tensor:2.0", -1, 0, -0.5])
        ops.append(["solve", rng.choice(NOMS) if i > 0 else rng.choice(NOMS[:-1]), opts])
    return ops


def gen_lqr_case(rng, big=True, small=None, mpc=False):
    if small is not None:
        Bn, T, ns, nc = small
    else:
        T = rng.choice(HORIZONS if big else HORIZONS[:7])
        ns, nc = rng.randint(1, 6), rng.randint(1, 6)
        Bn = rng.randint(1, 3)
    if mpc:
        Bn = 1
    rhos = [r for r in U.RHOS if max(r, 1.0) ** T <= 1e4]
    dtype = "float64" if rng.random() < 0.9 else "float32"
    # magnitude ladders go well beyond "ordinary" sizes: the property says any p, c1, x_init, u_traj
    case = dict(kind="lqr", B=Bn, T=T, ns=ns, nc=nc, sys=rng.choice(["lti", "lti", "lti_shared", "ltv", "ltv", "ltvc", "ltvp"]),
                dtype=dtype, condQ=rng.choice([1, 10, 1e3, 1e6]), qscale=rng.choice([1e-4, 1e-2, 1, 1, 1e2, 1e4]), rho=rng.choice(rhos),
                astyle=rng.choice(["rand", "rand", "diag", "rot", "jordan", "zero"]), bscale=rng.choice([1e-2, 1, 1, 10]),
                bstyle=rng.choice(["full", "full", "zerocol", "zero", "rank1"]), c1=rng.choice(["none", "rand", "rand"]),
                cscale=rng.choice([1e-3, 1, 10, 1e3]), pscale=rng.choice([0, 1e-3, 1, 1, 100, 1e5]),
                x0scale=rng.choice([0, 1e-3, 1, 1, 10, 1e4]), qshape=rng.choice(["full", "full", "q3", "p2", "q3p2"]),
                qexpand=rng.random() < 0.5, mixed=(Bn > 1 and rng.random() < 0.35),
                extra=rng.randint(0, 4), c2=rng.random() < 0.3, dt=1, data_seed=rng.randrange(1 << 30))
    r = rng.random()
    if r < 0.08 and dtype == "float64":
        case["qstyle"] = "psd"
    elif r < 0.13:
        case["qstyle"] = "eye"                    # exact ties: equal eigenvalues
    elif r < 0.18 and dtype == "float64":
        case["qstyle"] = "psd0"                   # exact ties: state block exactly zero
    elif r < 0.23 and dtype == "float64":
        case["qstyle"] = "nearsym"                # 1e-6 relative asymmetry: what the code does = what the model does
    if rng.random() < 0.25:
        case["signpat"] = rng.choice(["nonneg", "nonpos", "nonpos0"])
    case["dup"] = Bn > 1 and rng.random() < 0.12
    if case["dup"]:
        case["mixed"] = False
    if case["sys"] == "lti" and rng.random() < 0.3:
        case["subclass"] = rng.choice(["MyLTI", "ShiftLTI"])       # user classes derived from the shipped ones
    if dtype == "float32" and rng.random() < 0.5:
        case["defdt"] = "float64"                 # process-wide default dtype differs from the operands'
    case["tail"] = rng.random() < 0.3
    case["errs"] = rng.random() < 0.25
    if case["sys"] in ("ltvc", "ltvp"):
        case["c1"] = "rand"
    if case["sys"] in ("lti", "lti_shared") and rng.random() < 0.4:
        case["dt"] = rng.choice([2, 0.1, 0.01, 3])
    if dtype == "float32":          # keep single precision inside the regime where Cholesky of Quu is safe
        case["condQ"] = min(case["condQ"], 10)
        case["rho"] = min(case["rho"], 1.05)
        case["qscale"], case["bscale"] = 1, min(case["bscale"], 1)
        case["pscale"], case["x0scale"], case["cscale"] = min(case["pscale"], 100), min(case["x0scale"], 10), min(case["cscale"], 10)
    case["ops"] = gen_history(rng, case)
    return case


T_CLK = 7


def neutral(c):
    """switch off the randomly drawn extras so that a corpus case varies exactly what it says it varies"""
    c.update(qstyle=None, signpat=None, dup=False, subclass=None, defdt=None, tail=True, errs=True)
    return c


def corpus():
    """deterministic corner corpus (independent of VERIF_SEED), run before the seeded cases: every system kind with a
    history that contains every kind of operation, the shape corners, mixed-regime batches, extreme magnitudes"""
    import random
    rng = random.Random(20260925)
    out = []
    full_ops = lambda c: (
        [["solve", "none", {"xview": "slice", "uview": "contig"}],
         ["clock", 1000, "set"], ["solve", ["rand", 30.0, 3], {"xview": "noncontig", "uview": "transposed"}],
         ["fwd", 2], ["solve", "prev", {"prev_obj": True}],
         ["other", max(1, c["T"] - 1), 4242, 3], ["solve", ["rand", 1e4, 4], {"uview": "slice"}],
         ["otherx0", 77, 1e3], ["solve", "zeros", {"uview": "noncontig"}],
         ["clock", c["T"] + 1, "tensor"], ["newlqr"], ["solve", ["rand", 1.0, 1], {}],
         ["mutate", -1.0, 2.0, 0.75], ["solve", "none", {}], ["solve", "prev", {"prev_obj": True, "xview": "slice"}],
         ["mutx0", -1.0, 0.25], ["solve", ["rand", 1.0, 2], {"style": "kw", "grad": "no_grad"}], ["solve", "none", {"style": "bounds"}],
         ["fail", "nonpd", 0], ["fail", "sys_raise", 0], ["fail", "sys_inject", 1], ["solve", "none", {}], ["fail", "sys_inject", c["T"]],
         ["solve", ["rand", 1.0, 2], {}], ["fail", "sys_inject", 2 * c["T"] + 1], ["solve", ["rand", 30.0, 3], {"style": "mixed", "grad": "inference"}],
         ["copy", "deepcopy"], ["fail", "x0_dtype"], ["solve", "zeros", {"style": "default_dt"}],
         ["copy", "pickle"], ["scribble"], ["solve", ["rand", 1.0, 1], {"grad": "requires_grad"}], ["scribble"],
         ["copy", "state_dict"], ["fail", "x0_1d"], ["copy", "copy"],
         ["solve", "none", {"style": "kw"}]])
    for sysk in ("lti", "lti_shared", "ltv", "ltvc"):
        for (Bn, T, ns, nc) in ((3, 1, 1, 1), (2, 3, 1, 2), (1, 5, 3, 2), (2, 20, 6, 6)):
            c = neutral(gen_lqr_case(rng, small=(Bn, T, ns, nc)))
            c.update(sys=sysk, dtype="float64", c1="rand", extra=0 if T % 2 else 2, dt=1, mixed=Bn > 1, qexpand=True,
                     rho=min(c["rho"], 1.05) if T > 8 else c["rho"])
            c["ops"] = full_ops(c)
            out.append(c)
    # extreme-but-valid magnitudes and conditioning, one block at a time
    for k, v in (("qscale", 1e-6), ("qscale", 1e6), ("pscale", 1e8), ("x0scale", 1e6), ("cscale", 1e5), ("bscale", 1e-4),
                 ("bscale", 1e3), ("condQ", 1e6), ("rho", 3.0), ("rho", 0.0)):
        c = neutral(gen_lqr_case(rng, small=(2, 4, 3, 2)))
        c.update(sys="ltv", dtype="float64", c1="rand", mixed=False, condQ=10, qscale=1, pscale=1, x0scale=1, cscale=1, bscale=1,
                 rho=0.9, astyle="rand", bstyle="full", dt=1)
        c[k] = v
        c["ops"] = [["solve", "none", {}], ["clock", 9, "reset"], ["solve", ["rand", 1e4, 4], {"uview": "transposed"}],
                    ["solve", "prev", {"prev_obj": True}]]
        out.append(c)
    # the exact guard of the code: Q_t singular (PSD) with PD input block, cross terms, every system kind
    for sysk, sh in (("lti", (2, 6, 3, 2)), ("ltv", (3, 4, 2, 1)), ("ltvc", (1, 10, 4, 3)), ("lti_shared", (2, 3, 1, 2))):
        c = neutral(gen_lqr_case(rng, small=sh))
        c.update(sys=sysk, dtype="float64", c1="rand", mixed=False, condQ=10, qscale=1, pscale=1, x0scale=1, cscale=1, bscale=1, rho=0.9,
                 astyle="rand", bstyle="full", dt=1, qstyle="psd")
        c["ops"] = [["solve", "none", {}], ["clock", 5, "set"], ["solve", ["rand", 30.0, 3], {"style": "kw"}], ["solve", "prev", {"prev_obj": True}]]
        out.append(c)
    # float32 with views and a mixed batch
    c = neutral(gen_lqr_case(rng, small=(3, 6, 2, 2)))
    c.update(sys="lti", dtype="float32", condQ=10, qscale=1, bscale=1, rho=0.9, pscale=1, x0scale=1, cscale=1, mixed=True, dt=1)
    c["ops"] = full_ops(c)
    out.append(c)
    # SPECIFIC SIZES: every combination of batch, horizon, n_state, n_ctrl in {1,2,3} (coinciding extents hide or expose
    # axis mix-ups), with a short history that re-uses the objects
    k = 0
    for Bn in (1, 2, 3):
        for T in (1, 2, 3):
            for ns in (1, 2, 3):
                for nc in (1, 2, 3):
                    c = neutral(gen_lqr_case(rng, small=(Bn, T, ns, nc)))
                    c.update(sys=("lti", "ltv", "lti_shared", "ltvc")[k % 4], dtype="float64", c1="rand", mixed=Bn > 1 and k % 2 == 0, dt=1,
                             condQ=10, qscale=1, rho=0.9)
                    c["ops"] = [["solve", ["rand", 1.0, 1], {"style": STYLES[k % len(STYLES)], "xview": XVIEWS[k % 4], "uview": UVIEWS[k % 5]}],
                                ["clock", T + 2, "set"], ["solve", "none", {"grad": GRADS[k % len(GRADS)]}]]
                    c["light"] = True
                    out.append(c)
                    k += 1
    # LARGE sizes around 2^k (batch and horizon), split-consistency: item vs batch (first / middle / LAST), tail vs full
    for sh, sysk in (((17, 3, 2, 1), "lti"), ((33, 2, 1, 2), "ltv"), ((65, 2, 2, 2), "lti_shared"), ((64, 1, 3, 1), "ltvc"),
                     ((2, 31, 2, 1), "lti"), ((1, 33, 2, 2), "ltv"), ((2, 64, 1, 1), "ltvc"), ((1, 65, 2, 1), "lti")):
        c = neutral(gen_lqr_case(rng, small=sh))
        c.update(sys=sysk, dtype="float64", c1="rand", mixed=False, dup=False, condQ=10, qscale=1, pscale=1, x0scale=1, cscale=1, bscale=1,
                 rho=0.9 if sh[1] > 8 else 1.05, astyle="rand", bstyle="full", dt=1, tail=True, extra=1, qstyle=None, signpat=None,
                 subclass=None, defdt=None)
        c["ops"] = [["solve", "none", {}], ["clock", 2 ** 24 + 1, "set"], ["solve", ["rand", 1.0, 1], {"style": "kw"}]]
        out.append(c)
    # EXACT TIES: equal eigenvalues, exactly singular state block, x_init = p = 0 exactly, identical batch items, n_state = n_ctrl
    for k2, (qs, x0s, ps, dup) in enumerate((("eye", 1, 1, False), ("psd0", 1, 1, False), ("eye", 0, 0, True), (None, 0, 1, True),
                                             ("psd0", 0, 0, False), (None, 1, 0, True))):
        c = neutral(gen_lqr_case(rng, small=(3, 4, 2, 2)))
        c.update(sys=("lti", "ltv", "ltvc")[k2 % 3], dtype="float64", c1="rand" if k2 % 2 else "none", mixed=False, dup=dup, condQ=10, qscale=1,
                 pscale=ps, x0scale=x0s, cscale=1, bscale=1, rho=0.9, astyle="rand", bstyle="full", dt=1, tail=True, qstyle=qs, signpat=None,
                 subclass=None, defdt=None)
        if c["sys"] == "ltvc":
            c["c1"] = "rand"
        c["ops"] = [["solve", "zeros", {}], ["solve", ["rand", 1.0, 1], {"grad": "requires_grad"}], ["solve", "prev", {"prev_obj": True}]]
        out.append(c)
    # SIGN patterns of p, x_init, c1, u_traj (non-negative / non-positive / non-positive with exact zeros), sign of dt and of the clock
    for k2, sp in enumerate(("nonneg", "nonpos", "nonpos0")):
        c = neutral(gen_lqr_case(rng, small=(2, 5, 3, 2)))
        c.update(sys=("lti", "ltv", "lti_shared")[k2], dtype="float64", c1="rand", mixed=False, dup=False, condQ=10, qscale=1, pscale=1, x0scale=1,
                 cscale=1, bscale=1, rho=0.9, astyle="rand", bstyle="full", dt=1, tail=False, qstyle=None, signpat=sp, subclass=None, defdt=None)
        c["ops"] = [["clock", -3, "set"], ["solve", "none", {"dt": -1 if k2 != 1 else None}], ["clock", -T_CLK, "reset"],
                    ["solve", ["rand", 1.0, 1], {"dt": 0 if k2 != 1 else None}], ["solve", "zeros", {}]]
        out.append(c)
    # USER SUBCLASSES of LTI / LQR (own state_transition, own c1) and default dtype x operand dtype
    for k2, (sub, dty, dd) in enumerate((("MyLTI", "float64", None), ("ShiftLTI", "float64", None), ("ShiftLTI", "float32", "float64"),
                                         (None, "float32", "float64"), ("MyLTI", "float32", "float64"))):
        c = neutral(gen_lqr_case(rng, small=(2, 4, 2, 2)))
        c.update(sys="lti", dtype=dty, c1="rand", mixed=False, dup=False, condQ=10, qscale=1, pscale=1, x0scale=1, cscale=1, bscale=1, rho=0.9,
                 astyle="rand", bstyle="full", dt=1, tail=True, qstyle=None, signpat=None, subclass=sub, defdt=dd)
        c["ops"] = [["solve", "none", {}], ["mutate", -1.0, 2.0, 0.75], ["solve", ["rand", 1.0, 1], {"style": "kw"}], ["copy", "deepcopy"],
                    ["solve", "zeros", {"grad": "no_grad"}]]
        out.append(c)
    # USER SUBCLASS OVERRIDING PROPERTIES: A, B, c1 computed from the clock, constructor arguments None
    for sh in ((2, 4, 2, 2), (3, 6, 3, 1)):
        c = neutral(gen_lqr_case(rng, small=sh))
        c.update(sys="ltvp", dtype="float64", c1="rand", extra=2, dt=1, mixed=sh[0] > 2, qexpand=True, cscale=1)
        c["ops"] = full_ops(c)
        out.append(c)
    # CALLBACKS THAT RETURN THEIR ARGUMENT / A VIEW OF IT (NLS, single batch): x+ = x and x+ = u[:ns]
    for sysk, sh in (("echo", (1, 4, 2, 1)), ("echo", (1, 3, 1, 2)), ("view", (1, 4, 2, 3)), ("view", (1, 5, 1, 1))):
        c = neutral(gen_lqr_case(rng, small=sh))
        c.update(sys=sysk, dtype="float64", c1="none", mixed=False, dt=1, condQ=10, qscale=1, pscale=1, x0scale=1, c2=False, errs=False)
        c["ops"] = [["solve", "none", {"xview": "slice"}], ["solve", ["rand", 1.0, 1], {"xview": "noncontig", "uview": "transposed", "grad": "requires_grad"}],
                    ["scribble"], ["clock", 9, "set"], ["solve", "prev", {"style": "kw"}], ["otherx0", 5, 1.0], ["solve", "zeros", {"grad": "no_grad"}],
                    ["newlqr"], ["solve", ["rand", 30.0, 3], {}]]
        out.append(c)
    # NEARLY SYMMETRIC Q (1e-6 relative asymmetry): implementation vs model, no optimality claim
    for sysk, sh in (("lti", (2, 5, 2, 2)), ("ltv", (1, 4, 3, 1)), ("ltvp", (3, 3, 1, 2))):
        c = neutral(gen_lqr_case(rng, small=sh))
        c.update(sys=sysk, dtype="float64", c1="rand", mixed=False, dt=1, condQ=10, qscale=1, pscale=1, x0scale=1, cscale=1, bscale=1, rho=0.9,
                 qstyle="nearsym", tail=False, errs=False, qshape="full")
        c["ops"] = [["solve", "none", {}], ["solve", ["rand", 1.0, 1], {}], ["solve", "zeros", {"style": "kw"}]]
        out.append(c)
    # per-call dt on LTI systems
    c = neutral(gen_lqr_case(rng, small=(2, 5, 2, 2)))
    c.update(sys="lti", dtype="float64", dt=1, mixed=False)
    c["ops"] = [["solve", "none", {"dt": 2}], ["solve", ["rand", 1.0, 1], {"dt": 0.01}], ["solve", "prev", {"dt": 1, "prev_obj": True}],
                ["solve", "zeros", {"dt": "tensor:2.0", "style": "kw"}]]
    out.append(c)
    return out


def gen_big_case(rng):
    """LARGE batch / horizon around 2^k (within the time budget), small dimensions, with the split oracles"""
    if rng.random() < 0.5:
        sh = (rng.choice([15, 16, 17, 31, 32, 33, 63, 64, 65, 127, 128, 129]), rng.randint(1, 3), rng.randint(1, 2), rng.randint(1, 2))
    else:
        sh = (rng.randint(1, 2), rng.choice([31, 32, 33, 47, 63, 64, 65]), rng.randint(1, 2), rng.randint(1, 2))
    c = gen_lqr_case(rng, small=sh)
    c.update(dtype="float64", mixed=False, dup=False, condQ=rng.choice([1, 10, 1e3]), qscale=1, rho=rng.choice([0.3, 0.9, 1.0]) if sh[1] > 8 else c["rho"],
             tail=True, defdt=None, extra=rng.randint(0, 2))
    c["ops"] = [["solve", rng.choice(NOMS[:-1]), {}], ["clock", rng.choice([3, 2 ** 24 + 1, -2]), "set"], ["solve", "prev", {"prev_obj": True}]]
    return c


def gen_mpc_linear_case(rng, big=True):
    case = gen_lqr_case(rng, big=big, mpc=True)
    case["kind"] = "mpc_lin"
    case["dtype"] = "float64"
    case["dt"] = 1
    case["steps"] = rng.choice([1, 2, 3, 5, 10, 12])
    case["patience"] = rng.choice([1, 2, 3, 5])
    case["decreasing"] = rng.choice([1e-3, 1e-3, 0.5, 1e-6])
    case["tol"] = rng.choice([1e-5, 1e-5, 1e3, -1e9])
    case["uinit"] = rng.choice(["none", ["rand", 1.0, 0], ["rand", 20.0, 1]])
    case["calls"] = rng.choice([1, 2, 3])
    case["shared_stepper"] = rng.random() < 0.25 and case["steps"] >= 2
    mpc_variants(rng, case)
    case["mixed"] = False
    case["ops"] = []
    return case


def gen_mpc_nls_case(rng, big=True):
    T = rng.choice([1, 2, 3, 4, 5, 6, 8] if big else [1, 2, 3, 4, 5])
    ns, nc = rng.randint(1, 5), rng.randint(1, 4)
    strong = rng.random() < 0.4
    case = dict(kind="mpc_nls", B=1, T=T, ns=ns, nc=nc, dtype="float64", rho=rng.choice([0.0, 0.5, 0.9, 1.0, 1.2]),
                astyle=rng.choice(["rand", "diag", "rot"]), bscale=rng.choice([0.3, 1, 1]), cscale=rng.choice([0, 0.1, 1]),
                amp=rng.choice([0.6, 1.0, 1.5]) if strong else rng.choice([0.0, 0.05, 0.2, 0.3]),
                phi=rng.choice([0.0, 0.5, 1.0, 2.0]), condQ=rng.choice([1, 10, 100]), qscale=1.0, pscale=rng.choice([0, 1, 1, 5]),
                x0scale=rng.choice([0, 0.3, 1, 2]),
                steps=rng.choice([1, 2, 3, 4]) if strong else rng.choice([1, 2, 3, 5, 8, 12]),
                patience=rng.choice([1, 2, 3, 5, 5]), decreasing=rng.choice([1e-3, 1e-3, 0.3]), tol=rng.choice([1e-5, -1e9, -1e9, -1e9]),
                uinit=rng.choice(["none", ["rand", 0.3, 0], ["rand", 1.0, 1]]), calls=rng.choice([1, 1, 2, 3]),
                data_seed=rng.randrange(1 << 30))
    case["shared_stepper"] = rng.random() < 0.25 and case["steps"] >= 2
    mpc_variants(rng, case)
    return case


def mpc_variants(rng, case):
    """constructor spellings (default stepper, verbose) and per-call events (failing call, deep copy)"""
    if rng.random() < 0.15:
        case.update(default_stepper=True, steps=10, patience=5, decreasing=1e-3, tol=1e-5, shared_stepper=False)
    case["verbose"] = rng.random() < 0.25
    if rng.random() < 0.2:
        case.update(user_stepper=rng.choice(["FixedSteps", "DuckStepper"]), user_k=rng.choice([1, 2, 3, 5]), default_stepper=False, shared_stepper=False)
    case["subclass_mpc"] = rng.random() < 0.3
    case["events"] = [rng.choice([[], [], ["fail"], ["deepcopy"], ["fail", "deepcopy"]]) for _ in range(3)]


def mpc_corpus():
    """deterministic MPC cases: three calls on one object (x_init, u_init and its layout changing every call), shared
    stepper objects, degenerate budgets, the time-dependent nonlinear system with T >= 2"""
    import random
    rng = random.Random(20260926)
    out = []
    for steps, pat, shared, sysk in ((1, 1, False, "lti"), (2, 2, True, "ltv"), (5, 1, False, "ltvc"), (10, 5, True, "lti_shared"), (12, 3, False, "ltv")):
        c = gen_mpc_linear_case(rng)
        c.update(sys=sysk, steps=steps, patience=pat, shared_stepper=shared, calls=3, tol=-1e9, decreasing=1e-3, uinit=["rand", 20.0, 1],
                 c1="rand", default_stepper=False, verbose=steps == 5, events=[["deepcopy"], ["fail"], ["fail", "deepcopy"]])
        out.append(c)
    c = gen_mpc_linear_case(rng)
    c.update(sys="lti", default_stepper=True, steps=10, patience=5, decreasing=1e-3, tol=1e-5, shared_stepper=False, calls=2, verbose=False,
             events=[[], ["deepcopy"], []], uinit="none")
    out.append(c)
    # USER steppers (derived from ReduceToBason / duck-typed), MPC subclass, system subclass
    for k2, (us, kk, sub) in enumerate((("FixedSteps", 1, None), ("FixedSteps", 4, "ShiftLTI"), ("DuckStepper", 3, "MyLTI"), ("DuckStepper", 1, None))):
        c = gen_mpc_linear_case(rng)
        c.update(sys="lti", user_stepper=us, user_k=kk, subclass_mpc=True, subclass=sub, default_stepper=False, shared_stepper=False, calls=2, verbose=False,
                 events=[[], ["deepcopy"], []], uinit=["rand", 5.0, 1], c1="rand", signpat=None, qstyle=None, dup=False, defdt=None)
        out.append(c)
    # EXACT TIES: the all-zero problem (every iteration has cost exactly 0: `cost < best` never true, `loss < tol` only by the sign of tol)
    for tol in (1e-5, -1e9, 0.0):
        c = gen_mpc_linear_case(rng)
        c.update(sys="lti", x0scale=0, pscale=0, c1="none", uinit="none", steps=4, patience=2, decreasing=1e-3, tol=tol, default_stepper=False,
                 shared_stepper=False, calls=2, verbose=False, events=[[], [], []], user_stepper=None, subclass_mpc=False, signpat=None, qstyle="eye",
                 subclass=None, dup=False, defdt=None)
        out.append(c)
    # SPECIFIC SIZES for MPC (single batch): horizon, n_state, n_ctrl in {1,2,3}
    k = 0
    for T in (1, 2, 3):
        for ns in (1, 2, 3):
            for nc in (1, 2, 3):
                c = gen_mpc_linear_case(rng)
                c.update(T=T, ns=ns, nc=nc, sys=("lti", "ltv", "ltvc")[k % 3], c1="rand", rho=0.9, condQ=10, qscale=1, steps=3, patience=5, tol=-1e9,
                         decreasing=1e-3, shared_stepper=False, default_stepper=False, verbose=False, calls=2, events=[[], [], []], extra=1,
                         user_stepper=None, subclass_mpc=k % 2 == 0)
                out.append(c)
                k += 1
    for steps, pat, shared, amp, phi, T in ((1, 1, False, 0.3, 1.0, 3), (3, 2, True, 1.0, 2.0, 4), (8, 5, False, 0.2, 0.5, 5), (12, 3, True, 0.05, 1.0, 2),
                                            (4, 5, False, 1.5, 1.0, 6), (6, 2, False, 0.3, 2.0, 1)):
        c = gen_mpc_nls_case(rng)
        c.update(steps=steps, patience=pat, shared_stepper=shared, amp=amp, phi=phi, T=T, calls=3, tol=-1e9, decreasing=1e-3,
                 uinit=["rand", 1.0, 1], x0scale=1, pscale=1, default_stepper=False, verbose=steps == 8,
                 events=[["fail"], ["deepcopy"], ["fail", "deepcopy"]])
        out.append(c)
    c = gen_mpc_nls_case(rng)
    c.update(default_stepper=True, steps=10, patience=5, decreasing=1e-3, tol=1e-5, shared_stepper=False, calls=2, verbose=False,
             events=[[], ["fail"], []], T=3, amp=0.3, phi=1.0)
    out.append(c)
    return out


def sig_of(case):
    return (case["kind"], case["B"], case["T"], case["ns"], case["nc"], case.get("sys"), case.get("condQ"), case.get("rho"),
            case.get("astyle"), case.get("bstyle"), case.get("qshape"), len(case.get("ops", [])), case.get("steps"))


def nontrivial(case):
    return case["T"] >= 2 or case.get("pscale", 1) != 0 or case.get("x0scale", 1) != 0


# ----------------------------------------------------------------------------- oracles on one returned trajectory

def check_solution(ctx: Ctx, case, prob, refs, x, u, cost, tag, ubar=None, T=None, Bn=None):
    """the property's own clauses for one returned (x, u, cost); refs[b] is the dense reference of item b.
    Returns True when every clause holds."""
    eps = eps_of(case)
    Bn, T, ns, nc = (case["B"] if Bn is None else Bn), (case["T"] if T is None else T), case["ns"], case["nc"]
    ok = True
    if not all(isinstance(t, torch.Tensor) for t in (x, u, cost)):
        ctx.fail(case, f"shape: {tag}: returned {type(x).__name__}, {type(u).__name__}, {type(cost).__name__} instead of three tensors")
        return False
    want_dt = getattr(torch, case["dtype"])
    if x.dtype != want_dt or u.dtype != want_dt or cost.dtype != want_dt:
        ctx.fail(case, f"dtype: {tag}: returned dtypes {x.dtype}, {u.dtype}, {cost.dtype} for {want_dt} inputs "
                       f"(default dtype {torch.get_default_dtype()})")
        return False
    if any(t.device.type != "cpu" or type(t) is not torch.Tensor for t in (x, u, cost)):
        ctx.fail(case, f"metadata: {tag}: returned {[(type(t).__name__, str(t.device)) for t in (x, u, cost)]} for plain cpu tensors")
        return False
    if tuple(x.shape) != (Bn, T + 1, ns) or tuple(u.shape) != (Bn, T, nc) or tuple(cost.shape) != (Bn,):
        ctx.fail(case, f"shape: {tag}: returned shapes x{tuple(x.shape)} u{tuple(u.shape)} cost{tuple(cost.shape)}")
        return False
    xn, un, cn = x.detach().double().numpy(), u.detach().double().numpy(), cost.detach().double().numpy()
    if not (np.isfinite(xn).all() and np.isfinite(un).all() and np.isfinite(cn).all()):
        ctx.fail(case, f"finite: {tag}: non-finite values returned")
        return False
    for b in range(Bn):
        r = refs[b]
        x0 = r.x0
        tol_u, tol_x, _ = r.tols(None if ubar is None else ubar[b], eps)
        fl_v, fl_c = r.floor(None if ubar is None else ubar[b], eps)
        if not np.array_equal(xn[b, 0], x0):
            ctx.fail(case, f"start: {tag}: x[0] != x_init (item {b}: {xn[b, 0].tolist()} vs {x0.tolist()})")
            ok = False
        # transition at every step
        for t in range(T):
            res = xn[b, t + 1] - (r.A[t] @ xn[b, t] + r.B[t] @ un[b, t] + r.c[t])
            sc = np.abs(r.A[t]) @ np.abs(xn[b, t]) + np.abs(r.B[t]) @ np.abs(un[b, t]) + np.abs(r.c[t])
            bad = ~(np.abs(res) <= 32 * eps * sc + C_TOL * fl_v + 1e-300)
            stat("dynamics", (np.abs(res) / (32 * eps * sc + C_TOL * fl_v + 1e-300)).max())
            if bad.any():
                ctx.fail(case, f"dynamics: {tag}: x[{t + 1}] != A x[{t}] + B u[{t}] + c1 (item {b}, residual "
                               f"{np.abs(res).max():.3e}, allowed {float((32 * eps * sc).max()):.3e})")
                ok = False
                break
        # reported cost
        J, Ja = r.cost(xn[b], un[b])
        stat("cost", abs(J - cn[b]) / (16 * (T + ns + nc) * eps * Ja + C_TOL * fl_c + 1e-300))
        if over(abs(J - cn[b]), 16 * (T + ns + nc) * eps * Ja + C_TOL * fl_c + 1e-300):
            ctx.fail(case, f"cost: {tag}: reported cost {cn[b]!r} != sum of stage costs {J!r} (item {b})")
            ok = False
        if case.get("qstyle") == "nearsym":
            continue            # not symmetric PD: no optimality claim; what the code does is compared with the model
        # optimality: stationarity + distance to the reference optimum + cost not above it
        g = r.grad(un[b])
        sg, _ = r.grad_scale(un[b])
        tol_g = C_TOL * eps * (np.abs(r.H) @ tol_u.reshape(-1)).reshape(T, nc) + C_TOL * eps * sg
        stat("gradient", (np.abs(g) / (tol_g + 1e-300)).max())
        stat("u-vs-optimum", (np.abs(un[b] - r.u) / (C_TOL * eps * tol_u + 1e-300)).max())
        stat("x-vs-optimum", (np.abs(xn[b] - r.x) / (C_TOL * eps * tol_x + 1e-300)).max())
        if over(np.abs(g), tol_g + 1e-300):
            j = np.unravel_index(np.argmax(np.abs(g) / (tol_g + 1e-300)), g.shape)
            ctx.fail(case, f"optimal: {tag}: gradient of the total cost w.r.t. u[{j[0]}][{j[1]}] is {g[j]:.3e} "
                           f"(allowed {tol_g[j]:.3e}); cost {J!r} vs optimum {r.J!r} (item {b})")
            ok = False
        elif over(np.abs(un[b] - r.u), C_TOL * eps * tol_u + 1e-300) or over(np.abs(xn[b] - r.x), C_TOL * eps * tol_x + 1e-300):
            du = float(np.abs(un[b] - r.u).max())
            ctx.fail(case, f"optimal: {tag}: returned inputs differ from the minimiser by {du:.3e} (item {b}); "
                           f"cost {J!r} vs optimum {r.J!r}")
            ok = False
        elif over(J - r.J, C_TOL * eps * Ja + C_TOL * fl_c + (C_TOL * eps) ** 2 * float(tol_u.reshape(-1) @ np.abs(r.H) @ tol_u.reshape(-1)) + 1e-300):
            ctx.fail(case, f"optimal: {tag}: cost {J!r} above the optimum {r.J!r} (item {b})")
            ok = False
    return ok


def perturb_test(ctx: Ctx, case, refs, u, tag, ubar=None):
    """no perturbation of the inputs lowers the cost (evaluated through the exact roll-out)"""
    eps = eps_of(case)
    rs = np.random.RandomState((case["data_seed"] + 99) % (2 ** 32))
    un = u.detach().double().numpy()
    for b in range(case["B"]):
        r = refs[b]
        tol_u, _, _ = r.tols(None if ubar is None else ubar[b], eps)
        slack = (C_TOL * eps) ** 2 * float(tol_u.reshape(-1) @ np.abs(r.H) @ tol_u.reshape(-1)) + C_TOL * r.floor(None if ubar is None else ubar[b], eps)[1]
        J0, Ja = r.cost(r.rollout(un[b]), un[b])
        for scale in (1e-3, 1.0):
            d = rs.standard_normal(un[b].shape) * scale * (1 + np.abs(un[b]).max())
            J1, Ja1 = r.cost(r.rollout(un[b] + d), un[b] + d)
            if not (J1 >= J0 - C_TOL * eps * max(Ja, Ja1) - slack):
                ctx.fail(case, f"optimal: {tag}: a perturbation of size {scale} lowers the cost from {J0!r} to {J1!r} (item {b})")
                return False
    return True


class Snap:
    """bitwise snapshot of tensors that a solve must not modify"""

    def __init__(self, named):
        self.named = [(n, t, t.detach().clone()) for n, t in named if isinstance(t, torch.Tensor)]

    def changed(self):
        return [n for n, t, c in self.named if t.shape != c.shape or not torch.equal(t.detach(), c)]


def sys_bufnames(case):
    return ("vfh14_tabA", "vfh14_tabB", "vfh14_tabc") if case.get("sys") == "ltvp" else ("_A", "_B", "_c1")


def sys_tensors(system):
    return [(n, b) for n, b in system.named_buffers() if n != "_t"]


def try_deepcopy(obj, ctx=None):
    """copy.deepcopy, or None when torch refuses because the object still holds tensors of an autograd graph (after a
    solve with requires_grad operands the modules keep their last state / trajectories; clean-tree behaviour, notes)"""
    try:
        return copy.deepcopy(obj)
    except RuntimeError as e:
        if "deepcopy protocol" in str(e):
            if ctx is not None:
                ctx.count("copy.deepcopy.unsupported-after-grad-solve")
            return None
        raise


def safe_clock(system):
    try:
        return int(system.systime)
    except Exception:
        return "?"


def lqr_attrs(lq):
    """public attributes of the LQR object that a call must not change"""
    return (lq.T, tuple(lq.n_batch), tuple(lq.Q.shape), tuple(lq.p.shape), lq.Q.dtype, type(lq.system).__name__)


class Kept:
    """tensors returned by earlier calls: a later call must not modify them (results aliasing internal buffers)"""

    def __init__(self):
        self.items = []

    def add(self, label, *tensors):
        self.items.append((label, [(t, t.detach().clone()) for t in tensors if isinstance(t, torch.Tensor)]))

    def modified(self):
        return [lab for lab, ts in self.items if any(t.shape != c.shape or not torch.equal(t.detach(), c) for t, c in ts)]


STYLES = ["pos", "pos", "kw", "mixed", "bounds", "default_dt"]
GRADS = ["plain", "plain", "plain", "requires_grad", "no_grad", "inference"]


def grad_ctx(mode):
    if mode == "no_grad":
        return torch.no_grad()
    if mode == "inference":
        return torch.inference_mode()
    return contextlib.nullcontext()


def call_lqr(lq, xv, dt_call, ut, style, Bn, T, nc):
    """the same solve through different spellings of the call (positional / keyword / mixed / defaults / bounds so wide
    that any reading of u_lower, u_upper, du leaves the unconstrained optimum)"""
    if style == "kw":
        return lq(x_init=xv, dt=dt_call, u_traj=ut, u_lower=None, u_upper=None, du=None)
    if style == "mixed":
        return lq(xv, u_traj=ut, dt=dt_call)
    if style == "bounds":
        big = 1e30
        lo = torch.full((Bn, T, nc), -big, dtype=xv.dtype)
        return lq(xv, dt_call, ut, lo, -lo, big)
    if style == "default_dt" and isinstance(dt_call, int) and dt_call == 1:
        return lq(xv) if ut is None else lq(xv, u_traj=ut)
    return lq(xv, dt_call) if ut is None else lq(xv, dt_call, ut)


def solve_opts(op):
    o = {"dt": None, "xview": "contig", "uview": "contig", "prev_obj": False, "style": "pos", "grad": "plain"}
    if len(op) > 2 and isinstance(op[2], dict):
        o.update(op[2])
    return o


def tail_check(ctx: Ctx, case, prob, refs, first, tl, dt_call, tag):
    """solve the tail problem (steps t … T-1, time-shifted system tables, costs Q[t:], p[t:]) from the RETURNED state x_t with
    fresh objects: it must be optimal for the tail problem and reproduce the returned inputs u[t:]"""
    Bn, T = case["B"], case["T"]
    dt_t = getattr(torch, case["dtype"])
    eps = eps_of(case)
    ok = True
    cuts = sorted({1, T // 2, T - 1} | ({32} if T > 33 else set()))
    for tc in [t for t in cuts if 1 <= t < T]:
        ct = dict(case, T=T - tc, qshape="full", mixed=False, qexpand=False)
        pt = dict(prob)
        if prob["tv"]:
            for key in ("A", "B", "c"):
                pt[key] = prob[key][:, tc:].copy()
            pt["L"] = prob["L"] - tc
        pt["Q"], pt["p"] = prob["Q"][:, tc:].copy(), prob["p"][:, tc:].copy()
        pt["x0"] = first[0][:, tc].copy()
        st = U.make_system(ct, pt)
        xt_, ut_, ct_ = U.make_lqr(ct, pt, st)(torch.tensor(pt["x0"], dtype=dt_t), dt_call)
        rt = [U.make_ref(pt, b, T - tc) for b in range(Bn)]
        ok &= check_solution(ctx, dict(case, focus=["tail", tc]), pt, rt, xt_, ut_, ct_, f"{tag}: tail problem from the returned x[{tc}]", T=T - tc)
        for b in sample_items(Bn):
            shift = np.abs(rt[b].u - refs[b].u[tc:])          # exact effect of x_t deviating from the exact optimum's x_t
            allowed = C_TOL * eps * (rt[b].tols(None, eps)[0] + tl[b][0][tc:]) + shift
            du = np.abs(ut_[b].detach().double().numpy() - first[1][b][tc:])
            if over(du, allowed + 1e-300):
                ctx.fail(dict(case, focus=["tail", tc]), f"split: {tag}: the inputs u[{tc}:] differ from a fresh solve of the tail problem from the "
                                                         f"returned x[{tc}] by {du.max():.3e} (item {b})")
                ok = False
        ctx.count("lqr.tail-split")
    return ok


def run_lqr_case(ctx: Ctx, case, lines, metas):
    """`_run_lqr_case` under the process-wide default dtype the case asks for (PROCESS-WIDE SETTINGS: constants created
    without dtype= promote silently; values AND metadata of the results must not depend on the default)"""
    dd = case.get("defdt")
    if not dd:
        return _run_lqr_case(ctx, case, lines, metas)
    old = torch.get_default_dtype()
    torch.set_default_dtype(getattr(torch, dd))
    ctx.count(f"lqr.default-dtype.{dd}")
    try:
        return _run_lqr_case(ctx, case, lines, metas)
    finally:
        torch.set_default_dtype(old)


def sample_items(Bn):
    """all items of a small batch; first, middle, LAST of a large one"""
    return list(range(Bn)) if Bn <= 3 else sorted({0, Bn // 2, Bn - 1})


def _run_lqr_case(ctx: Ctx, case, lines, metas):
    """runs the whole history of `case` on the real code, applies the oracles, queues model lines"""
    prob = U.build_problem(case)
    Bn, T, ns, nc = case["B"], case["T"], case["ns"], case["nc"]
    dt_t = getattr(torch, case["dtype"])
    eps = eps_of(case)
    refs = [U.make_ref(prob, b, T) for b in range(Bn)]
    try:
        system = U.make_system(case, prob)
        lq = U.make_lqr(case, prob, system)
        if (lq.T, tuple(lq.n_batch), tuple(lq.Q.shape), tuple(lq.p.shape)) != (T, (Bn,), (Bn, T, ns + nc, ns + nc), (Bn, T, ns + nc)):
            ctx.fail(case, f"constructor: LQR(Q {case['qshape']}) has T={lq.T}, n_batch={tuple(lq.n_batch)}, Q{tuple(lq.Q.shape)}, p{tuple(lq.p.shape)}")
            return False
    except common.InfraError:
        raise
    except Exception as e:
        ctx.fail(case, f"raises: constructing the system / LQR(Q {case['qshape']}, expanded={bool(case.get('qexpand'))}) raised {type(e).__name__}: {str(e)[:160]}")
        return False
    x0 = torch.tensor(prob["x0"], dtype=dt_t)
    prev_u, prev_obj, first, nsolve, modelled, last_out = None, None, None, 0, False, None
    kept = Kept()
    ok = True
    L = prob["L"]
    for op in case["ops"]:
        kind = op[0]
        try:
            if kind == "clock":
                if op[2] == "set":
                    system.systime = op[1]
                elif op[2] == "tensor":      # the caller keeps the int64 tensor it assigned and changes it afterwards
                    held = torch.tensor(op[1], dtype=torch.int64)
                    system.systime = held
                    held.add_(3)
                else:
                    system.reset(op[1])
                ctx.count("lqr.op.clock")
            elif kind == "fwd":
                # forward calls at a clock where the LTV tables are defined
                if prob["tv"]:
                    system.reset(0)
                for _ in range(min(op[1], L if prob["tv"] else op[1])):
                    system(x0.clone(), torch.zeros(Bn, nc, dtype=dt_t))
                ctx.count("lqr.op.fwd")
            elif kind == "newlqr":
                lq = U.make_lqr(case, prob, system)
                ctx.count("lqr.op.newlqr")
            elif kind == "mutate":
                # STALE READS: the tensors the caller built the system from are updated in place; later solves must
                # describe the current system
                bufs = dict(system.named_buffers())
                nA, nB, nc1 = sys_bufnames(case)
                bufs[nA].mul_(op[1])
                bufs[nB].mul_(op[2])
                if bufs.get(nc1) is not None:
                    bufs[nc1].add_(op[3])
                prob = U.refresh_from_system(case, prob, system)
                refs = [U.make_ref(prob, b, T) for b in range(Bn)]
                first = None
                ctx.count("lqr.op.mutate-system")
            elif kind == "mutx0":
                # the caller's x_init tensor is updated in place and passed again
                x0.mul_(op[1]).add_(op[2])
                prob = dict(prob, x0=x0.detach().double().numpy().copy())
                refs = [U.make_ref(prob, b, T) for b in range(Bn)]
                first = None
                ctx.count("lqr.op.mutate-x0")
            elif kind == "fail":
                # ERROR PATHS ARE ATOMIC: a call that raises (detected early or late) must leave the system, the LQR object
                # and the caller's tensors as they were; the history simply continues afterwards
                why = op[1]
                snap = Snap([("x_init", x0), ("Q", lq.Q), ("p", lq.p)] + sys_tensors(system))
                att = lqr_attrs(lq)
                raised = None
                try:
                    with warnings.catch_warnings():
                        warnings.simplefilter("ignore")
                        if why == "x0_1d":
                            lq(x0[0], case["dt"])
                        elif why == "x0_dtype":
                            lq(x0.to(torch.float32 if dt_t == torch.float64 else torch.float64), case["dt"])
                        elif why == "nonpd":
                            Qb = torch.tensor(prob["Q"], dtype=dt_t)
                            Qb[:, 0] = -Qb[:, 0]             # indefinite at t = 0: Cholesky fails in the LAST backward iteration
                            U.pp().module.LQR(system, Qb, torch.tensor(prob["p"], dtype=dt_t), T)(x0, case["dt"])
                        elif why == "sys_inject" and prob["tv"]:
                            # the user's A_t raises in the middle of a solve on THIS LQR object (roll-out, backward or forward pass)
                            system.vfh14_fail_at = op[2] % (3 * T)
                            try:
                                lq(x0, case["dt"])
                            finally:
                                system.vfh14_fail_at = -1
                        elif why == "sys_raise" and prob["tv"]:
                            T2 = L + 1                      # the clock-indexed tables end before the horizon: IndexError mid roll-out
                            c2 = dict(case, T=T2, qshape="full", mixed=False)
                            p2 = U.build_problem(c2)
                            U.make_lqr(c2, p2, system)(x0, case["dt"])
                except Exception as e:      # the failing call is EXPECTED to raise
                    raised = type(e).__name__
                ctx.count(f"lqr.op.fail.{why}.{'raised' if raised else 'accepted'}")
                if snap.changed() or lqr_attrs(lq) != att:
                    ctx.fail(dict(case, focus=op), f"atomicity: a failing call ({why}: {raised}) changed {snap.changed() or 'the LQR attributes'}")
                    ok = False
            elif kind == "copy":
                # COPIES OF OBJECTS follow their own law: solve on the copy, disturb the copy, the original is unaffected
                mode = op[1]
                xs_, us_, cs_ = lq(x0, case["dt"])          # plain solve first: the objects hold no autograd graph
                ok &= check_solution(ctx, dict(case, focus=op), prob, refs, xs_, us_, cs_, f"solve before {mode}")
                if mode == "deepcopy":
                    lq2 = copy.deepcopy(lq)
                elif mode == "copy":
                    lq2 = copy.copy(lq)
                elif mode == "pickle":
                    lq2 = pickle.loads(pickle.dumps(lq))
                else:                                       # state_dict of the system loaded into another system object
                    sys2 = U.make_system(case, U.build_problem(dict(case, data_seed=case["data_seed"] + 17)))
                    sys2.load_state_dict(system.state_dict())
                    lq2 = U.make_lqr(case, prob, sys2)
                x2, u2, c2_ = lq2(x0, case["dt"])
                ok &= check_solution(ctx, dict(case, focus=op), prob, refs, x2, u2, c2_, f"solve on the {mode} copy")
                if mode != "copy":                          # independent objects: disturb the copy's system
                    b2 = dict(lq2.system.named_buffers())
                    b2[sys_bufnames(case)[0]].mul_(-1.5)
                    b2[sys_bufnames(case)[1]].mul_(0.5)
                    lq2.system.systime = 1 if not prob["tv"] else min(1, L - 1)
                    lq2.system(x0.clone(), torch.zeros(Bn, nc, dtype=dt_t))
                    xo_, uo_, co_ = lq(x0, case["dt"])
                    ok &= check_solution(ctx, dict(case, focus=op), prob, refs, xo_, uo_, co_, f"solve on the original after its {mode} copy was changed")
                    pm = U.refresh_from_system(case, prob, lq2.system)
                    rm = [U.make_ref(pm, b, T) for b in range(Bn)]
                    xm_, um_, cm_ = lq2(x0, case["dt"])
                    ok &= check_solution(ctx, dict(case, focus=op), pm, rm, xm_, um_, cm_, f"solve on the changed {mode} copy")
                    if safe_clock(system) != T:
                        ctx.fail(dict(case, focus=op), f"copies: the original system's clock is {safe_clock(system)} after its own solve (expected {T}); "
                                                       f"the {mode} copy was used in between")
                        ok = False
                else:
                    xo_, uo_, co_ = lq(x0, case["dt"])
                    ok &= check_solution(ctx, dict(case, focus=op), prob, refs, xo_, uo_, co_, "solve on the original after its shallow copy solved")
                ctx.count(f"lqr.op.copy.{mode}")
            elif kind == "scribble":
                # the caller overwrites the tensors a solve returned: nothing else may change
                if last_out is not None and all(isinstance(t, torch.Tensor) and not t.is_inference() for t in last_out):
                    snap = Snap([("x_init", x0), ("Q", lq.Q), ("p", lq.p)] + sys_tensors(system))
                    att = lqr_attrs(lq)
                    with torch.no_grad():
                        last_out[0].mul_(0).add_(12345.0)
                        last_out[1].fill_(-7.0)
                        last_out[2].zero_()
                    if snap.changed() or lqr_attrs(lq) != att:
                        ctx.fail(dict(case, focus=op), f"ownership: overwriting the tensors returned by the last solve changed {snap.changed() or 'the LQR attributes'}")
                        ok = False
                    kept, prev_obj = Kept(), None
                    ctx.count("lqr.op.scribble")
            elif kind == "other":
                # another problem (other horizon, costs, start, for shared matrices also another batch size) solved on
                # the same system object
                B2 = op[3] if (len(op) > 3 and case["sys"] == "lti_shared") else Bn
                c2 = dict(case, T=op[1], data_seed=op[2], qshape="full", B=B2, mixed=False)
                p2 = U.build_problem(c2)
                if B2 == Bn:
                    p2["A"], p2["B"], p2["c"], p2["L"] = prob["A"], prob["B"], prob["c"], prob["L"]
                else:
                    for key in ("A", "B", "c"):
                        p2[key] = np.repeat(prob[key][:1], B2, axis=0)
                    p2["L"] = prob["L"]
                lq2 = U.make_lqr(c2, p2, system)
                xo, uo, co = lq2(torch.tensor(p2["x0"], dtype=dt_t), case["dt"])
                refs2 = [U.make_ref(p2, b, op[1]) for b in range(B2)]
                ok &= check_solution(ctx, dict(case, focus=op), p2, refs2, xo, uo, co,
                                     f"other problem (T={op[1]}, batch {B2}) on the same system", T=op[1], Bn=B2)
                ctx.count("lqr.op.other")
            elif kind == "otherx0":
                rs = np.random.RandomState(op[1])
                xalt = torch.tensor(rs.standard_normal((Bn, ns)) * (op[2] if len(op) > 2 else 1.0), dtype=dt_t)
                p3 = dict(prob, x0=xalt.double().numpy())
                att = lqr_attrs(lq)
                xo, uo, co = lq(xalt, case["dt"])
                refs3 = [U.make_ref(p3, b, T) for b in range(Bn)]
                ok &= check_solution(ctx, dict(case, focus=op), p3, refs3, xo, uo, co, "same LQR object, other x_init")
                if lqr_attrs(lq) != att:
                    ctx.fail(dict(case, focus=op), f"attributes: a call changed the LQR object's public attributes {att} -> {lqr_attrs(lq)}")
                    ok = False
                kept.add("other x_init", xo, uo, co)
                ctx.count("lqr.op.otherx0")
            elif kind == "solve":
                nsolve += 1
                o = solve_opts(op)
                dt_call = case["dt"] if o["dt"] is None else o["dt"]
                if isinstance(dt_call, str):                 # "tensor:2.0": dt given as a 0-dim tensor
                    dt_call = torch.tensor(float(dt_call.split(":")[1]))
                un = U.nominal(case, prob, op[1], prev_u)
                if un is None:
                    ut, ubase = None, None
                elif op[1] == "prev" and o["prev_obj"] and prev_obj is not None and not prev_obj.requires_grad \
                        and not prev_obj.is_inference():
                    ut, ubase = prev_obj, prev_obj           # the tensor returned by the previous call itself
                else:
                    ut, ubase = U.as_view(torch.tensor(un, dtype=dt_t), o["uview"])
                xv, xbase = U.as_view(x0, o["xview"])
                if o["grad"] == "requires_grad":             # same values, operands that carry an autograd graph
                    xv = xv.detach().clone().requires_grad_(True)
                    xbase = xv
                    if ut is not None:
                        ut = ut.detach().clone().requires_grad_(True)
                        ubase = ut
                snap = Snap([("x_init", xv), ("x_init buffer", xbase), ("u_traj", ut), ("u_traj buffer", ubase), ("Q", lq.Q), ("p", lq.p)]
                            + sys_tensors(system))
                att = lqr_attrs(lq)
                tag = (f"solve #{nsolve} (u_traj={op[1] if isinstance(op[1], str) else 'rand*%g' % op[1][1]}, clock at entry "
                       f"{safe_clock(system)}, dt={o['dt'] if o['dt'] is not None else case['dt']}, x_init {o['xview']}, u_traj {o['uview']}, "
                       f"call style {o['style']}, grad mode {o['grad']})")
                with warnings.catch_warnings(), grad_ctx(o["grad"]):
                    warnings.simplefilter("ignore")
                    x, u, cost = call_lqr(lq, xv, dt_call, ut, o["style"], Bn, T, nc)
                ch = snap.changed()
                if ch:
                    ctx.fail(case, f"purity: {tag}: LQR modified {ch}")
                    ok = False
                if lqr_attrs(lq) != att:
                    ctx.fail(case, f"attributes: {tag}: the call changed the LQR object's public attributes {att} -> {lqr_attrs(lq)}")
                    ok = False
                good = check_solution(ctx, case, prob, refs, x, u, cost, tag, ubar=un)
                ok &= good
                if good:
                    # OUTPUTS OWN THEIR MEMORY: no internal overlap, no storage shared with arguments or object state
                    others = [("x_init", xv), ("x_init buffer", xbase), ("u_traj", ut), ("u_traj buffer", ubase), ("LQR.Q", lq.Q), ("LQR.p", lq.p),
                              ("LQR.x_traj", getattr(lq, "x_traj", None)), ("LQR.u_traj", getattr(lq, "u_traj", None))] + sys_tensors(system)
                    for nm, out in (("x", x), ("u", u), ("cost", cost)):
                        why = U.owns_memory(out, others + [(n2, o2) for n2, o2 in (("x", x), ("u", u), ("cost", cost)) if n2 != nm])
                        if why:
                            ctx.fail(case, f"ownership: {tag}: returned {nm} {why}")
                            ok = False
                if good and o["grad"] == "requires_grad" and case.get("qstyle") != "nearsym":
                    # the returned cost carries a usable autograd graph: backward runs, d cost / d x_init is the costate λ_0
                    # (envelope theorem at the optimum)
                    try:
                        if not (cost.requires_grad and u.requires_grad):
                            raise RuntimeError("outputs do not require grad although x_init does")
                        cost.sum().backward()
                        gx = xv.grad.detach().double().numpy()
                        for b in range(Bn):
                            refs[b].grad(refs[b].u)
                            refs[b].grad_scale(refs[b].u)
                            lam0 = refs[b].lam0
                            Sd = max(float(np.abs(refs[b].x).max()), float(np.abs(refs[b].u).max()), float(np.abs(refs[b].c).max()),
                                     0.0 if un is None else float(np.abs(un[b]).max()))
                            scale = (float(refs[b].lam0_abs.max()) + float(np.abs(refs[b].Q).max()) * Sd + float(np.abs(refs[b].p).max())) \
                                * max(1.0, min(refs[b].condH, 1e6) ** 0.5)
                            rtol = 1e-7 if case["dtype"] == "float64" else 1e-2
                            if not np.isfinite(gx[b]).all() or over(np.abs(gx[b] - lam0), rtol * scale + 1e-300):
                                ctx.fail(case, f"autograd: {tag}: d(cost)/d(x_init) through the returned graph is {gx[b].tolist()}, "
                                               f"the costate of the optimum is {lam0.tolist()} (item {b})")
                                ok = False
                                break
                    except Exception as e:
                        ctx.fail(case, f"autograd: {tag}: backward through the returned cost raised {type(e).__name__}: {str(e)[:140]}")
                        ok = False
                    ctx.count("lqr.solve.backward")
                if good and nsolve == 1 and case.get("qstyle") != "nearsym":
                    ok &= perturb_test(ctx, case, refs, u, tag, ubar=un)
                tl = [refs[b].tols(None if un is None else un[b], eps) for b in range(Bn)]
                if first is None:
                    first = (x.detach().double().numpy().copy(), u.detach().double().numpy().copy(), cost.detach().double().numpy().copy(), tl)
                    if not modelled:
                        modelled = True
                        # gains of the same nominal for the model comparison (fresh LQR object: no effect on the history)
                        lqg = U.make_lqr(case, prob, system)
                        clk = safe_clock(system)
                        K, k = lqg.lqr_backward(x0, case["dt"], None if un is None else torch.tensor(un, dtype=dt_t))
                        if isinstance(clk, int):
                            system.reset(clk)
                        if tuple(K.shape) != (Bn, T, nc, ns) or tuple(k.shape) != (Bn, T, nc) or not (
                                bool(torch.isfinite(K).all()) and bool(torch.isfinite(k).all())):
                            ctx.fail(case, f"shape: lqr_backward returned K{tuple(K.shape)} k{tuple(k.shape)} (or non-finite gains)")
                            ok = False
                        else:
                            for b in sample_items(Bn):
                                lines.append(U.lqr_line(case, prob, b, un, dt=1 if not isinstance(case["dt"], int) else case["dt"]))
                                metas.append((case, b, first[0][b], first[1][b], float(first[2][b]), K[b].detach().double().numpy().copy(),
                                              k[b].detach().double().numpy().copy(), refs[b], tl[b],
                                              None if un is None else un[b]))
                        # ERROR BRANCHES (model: `lqrChecked`): a nominal with T±1 steps, a Q that is indefinite at t = 0 — does the
                        # implementation raise exactly where the model says it does?
                        if case.get("errs") and good and Bn <= 3:
                            for kind_e in ("len+1", "len-1", "nonpd"):
                                if kind_e == "len-1" and T < 2:
                                    continue
                                pe, ue = prob, None
                                if kind_e == "nonpd":
                                    pe = dict(prob, Q=prob["Q"].copy())
                                    pe["Q"][:, 0] = -pe["Q"][:, 0]
                                else:
                                    m = T + 1 if kind_e == "len+1" else T - 1
                                    ue = np.zeros((Bn, m, nc))
                                raised = None
                                try:
                                    lqe = U.make_lqr(dict(case, qshape="full", qexpand=False), pe, system) if kind_e == "nonpd" else lq
                                    lqe(x0, case["dt"], None if ue is None else torch.tensor(ue, dtype=dt_t))
                                except Exception as e:
                                    raised = type(e).__name__
                                for b in range(Bn):     # the batched call raises iff some item's solve raises
                                    lines.append(U.lqr_line(dict(case, qshape="full") if kind_e == "nonpd" else case, pe, b, ue,
                                                            dt=1 if not isinstance(case["dt"], int) else case["dt"]))
                                    metas.append(("err", case, kind_e, raised, b, Bn))
                                ctx.count(f"lqr.errors.{kind_e}.{'raised' if raised else 'returned'}")
                        # MIXED-REGIME BATCH: every item against the same problem solved alone
                        if (case.get("mixed") or Bn > 3) and Bn > 1 and good:
                            for b in sample_items(Bn):
                                cb, pb = U.item_problem(case, prob, b)
                                sb = U.make_system(cb, pb)
                                xb_, ub_, cb_ = U.make_lqr(cb, pb, sb)(x0[b:b + 1].clone(), dt_call, None if un is None else torch.tensor(un[b:b + 1], dtype=dt_t))
                                du = np.abs(ub_[0].detach().double().numpy() - first[1][b])
                                dx = np.abs(xb_[0].detach().double().numpy() - first[0][b])
                                if over(du, 2 * C_TOL * eps * tl[b][0] + 1e-300) or over(dx, 2 * C_TOL * eps * tl[b][1] + 1e-300):
                                    ctx.fail(case, f"batch: {tag}: item {b} of the batch differs from the same problem solved alone "
                                                   f"by {du.max():.3e} in u, {dx.max():.3e} in x")
                                    ok = False
                            ctx.count("lqr.mixed-batch")
                        # HORIZON SPLIT (principle of optimality, theorem `lqr_tail_optimal`): the tail of the returned
                        # trajectory is what a fresh solve of the tail problem from the returned x_t gives
                        if case.get("tail") and T >= 2 and good and case.get("qstyle") != "nearsym":
                            ok &= tail_check(ctx, case, prob, refs, first, tl, dt_call, tag)
                        # EXACT TIE: identical batch items get identical results
                        if case.get("dup") and Bn > 1 and good:
                            for b in range(1, Bn):
                                if not (torch.equal(u[b].detach(), u[0].detach()) and torch.equal(x[b].detach(), x[0].detach())
                                        and torch.equal(cost[b].detach(), cost[0].detach())):
                                    ctx.fail(case, f"batch: {tag}: item {b} is a bitwise copy of item 0 but its result differs "
                                                   f"(u by {float((u[b] - u[0]).detach().abs().max()):.3e})")
                                    ok = False
                                    break
                else:
                    # nominal / history independence, stated directly between two solves (not for a nearly symmetric Q: there the
                    # code's result moves with the nominal at the size of the asymmetry — observation in the notes)
                    for b in (range(Bn) if case.get("qstyle") != "nearsym" else ()):
                        du = np.abs(u[b].detach().double().numpy() - first[1][b])
                        if over(du, C_TOL * eps * (tl[b][0] + first[3][b][0]) + 1e-300):
                            ctx.fail(case, f"history: {tag} differs from the first solve on the same system by {du.max():.3e} in u (item {b})")
                            ok = False
                prev_u = u.detach().double().numpy().copy()
                prev_obj = u
                last_out = (x, u, cost)
                kept.add(f"solve #{nsolve}", x, u, cost)
                ctx.count(f"lqr.solve.style.{o['style']}")
                ctx.count(f"lqr.solve.grad.{o['grad']}")
                ctx.count(f"lqr.solve.nominal.{op[1] if isinstance(op[1], str) else 'rand'}")
                ctx.count(f"lqr.solve.xview.{o['xview']}")
                ctx.count(f"lqr.solve.uview.{o['uview']}")
            mod = kept.modified()
            if mod:
                ctx.fail(dict(case, focus=op), f"aliasing: tensors returned by {mod} were modified by a later operation ({kind})")
                ok = False
                kept = Kept()
        except common.InfraError:
            raise
        except Exception as e:
            ctx.fail(dict(case, focus=op), f"raises: {kind} raised {type(e).__name__}: {str(e)[:160]}")
            return False
    return ok


def compare_lqr_model(ctx: Ctx, reps, metas):
    err_acc = False
    for rep, meta in zip(reps, metas):
        if meta[0] == "err":
            _, case, kind_e, raised, b, Bn_ = meta
            st_, toks_ = common.parse_reply(rep)
            model_raises = st_ == "err" and str(toks_).startswith("raises:")
            if st_ == "err" and not model_raises:
                raise common.InfraError(f"model error reply: {rep[:200]}")
            err_acc = model_raises if b == 0 else (err_acc or model_raises)
            if b == Bn_ - 1 and err_acc != (raised is not None):
                ctx.disagree("errors", dict(case, focus=["error-branch", kind_e]),
                             f"error branch {kind_e}: implementation {'raised ' + raised if raised else 'returned'}, model "
                             f"{'raises for some batch item' if err_acc else 'returns for every batch item'}")
            continue
        (case, b, xi, ui, ci, Ki, ki, r, (tol_u, tol_x, _sg), ub) = meta
        ns, nc, T = case["ns"], case["nc"], case["T"]
        eps = eps_of(case)
        xm, um, cm, Km, km = U.parse_lqr_reply(rep, ns, nc, T)
        # model vs dense reference: a mismatch here is an infrastructure problem (both are mine), not a verdict
        if case.get("qstyle") != "nearsym" and over(np.abs(um - r.u), C_TOL * eps * tol_u + 1e-30):
            # the float64 condensed reference is itself inexact on the most ill-conditioned problems (cond(H) ~ 1e13+); the
            # 192-bit model is the exact value: keep comparing the implementation with the MODEL (the error scales below are
            # still the right magnitudes), only note that the numpy reference was off here
            ctx.count("lqr.reference-less-accurate-than-tolerance")
            if r.condH < 1e10:
                raise common.InfraError(f"Lean model and dense reference disagree on a well-conditioned case {sig_of(case)} item {b}: "
                                        f"{np.abs(um - r.u).max():.3e} (cond H = {r.condH:.2e})")
        _, Ja = r.cost(xm, um)
        eu = np.abs(ui - um) / (C_TOL * eps * tol_u + 1e-300)
        ex = np.abs(xi - xm) / (C_TOL * eps * tol_x + 1e-300)
        ec = abs(ci - cm) / (C_TOL * eps * (Ja + float((_sg * tol_u).sum())) + C_TOL * r.floor(None, eps)[1] + 1e-300)
        if case.get("qstyle") == "nearsym":
            # outside "symmetric PD": INFORMATIONAL. The implementation here = the model (Q used as given, Cholesky reading the lower
            # triangle of Quu); anything that treats the asymmetric part differently (LU instead of Cholesky, a hidden
            # `if allclose(Q, Q.mT): symmetrise`) moves the result by ~1e-6 relative — recorded in the evidence notes, not a verdict,
            # because on the property's domain (exactly symmetric Q) all of these coincide
            NEARSYM.append((float(eu.max()), float(ex.max()), float(np.abs(ui - um).max() / (np.abs(um).max() + 1e-300))))
            ctx.count("lqr.nearsym.agrees-with-model" if (eu.max() <= 1 and ex.max() <= 1) else "lqr.nearsym.DIFFERS-from-model")
            continue
        stat("model.u", eu.max()); stat("model.x", ex.max()); stat("model.cost", ec)
        if over(eu, 1) or over(ex, 1) or over(ec, 1):
            ctx.disagree("lqr", case, f"item {b}: implementation vs model: u {np.abs(ui - um).max():.3e} (ratio {eu.max():.2f}), "
                                      f"x {np.abs(xi - xm).max():.3e} (ratio {ex.max():.2f}), cost {abs(ci - cm):.3e} (ratio {ec:.2f})")
        # gains, per time step: allowed = C*eps*(sensitivity of (K_t,k_t) to relative data perturbations + their size)
        sK, sk = U.gains_tolerance(r, ub, case["data_seed"] + b)
        eK = np.abs(Ki - Km).reshape(T, -1).max(axis=1) / (C_GAIN * eps * sK + 1e-300)
        ek = np.abs(ki - km).reshape(T, -1).max(axis=1) / (C_GAIN * eps * sk + C_GAIN * eps * eps * (np.abs(um).max() + np.abs(r.x).max()) + 1e-300)
        stat("model.K", eK.max()); stat("model.k", ek.max())
        if over(eK, 1) or over(ek, 1):
            t = int(np.argmax(np.maximum(eK, ek)))
            ctx.disagree("gains", case, f"item {b}: K[{t}] differs by {np.abs(Ki[t] - Km[t]).max():.3e} (ratio {eK[t]:.2f}), "
                                        f"k[{t}] by {np.abs(ki[t] - km[t]).max():.3e} (ratio {ek[t]:.2f})")


# ----------------------------------------------------------------------------- MPC streams

class Recorder:
    """forward hook on mpc.lqr: every inner solve (u_traj given, outputs)"""

    def __init__(self, lqr_module):
        self.calls = []
        self.h = lqr_module.register_forward_hook(self.hook, with_kwargs=True)

    def hook(self, module, args, kwargs, out):
        u_in = kwargs.get("u_traj", args[2] if len(args) > 2 else None)
        self.calls.append((None if u_in is None else u_in.detach().clone(), out[1].detach().clone(), out[2].detach().clone(),
                           u_in, out[1]))

    def close(self):
        self.h.remove()


def check_mpc_loop(ctx: Ctx, case, rec: Recorder, tag, u_given=False, u_init=None):
    """structure of the iterative loop, read off the recorded inner solves (real code only)"""
    calls = rec.calls
    if len(calls) < 2:
        ctx.fail(case, f"mpc-loop: {tag}: {len(calls)} inner solves (expected at least one iteration and the final solve)")
        return False
    it = calls[:-1]
    ok = True
    if u_given:
        f0 = it[0][0]
        if (u_init is None) != (f0 is None) or (f0 is not None and not torch.equal(f0, u_init)):
            ctx.fail(case, f"mpc-loop: {tag}: the first inner solve does not start from the u_init given to THIS call")
            ok = False
    for i in range(1, len(it)):
        if it[i][0] is None or not torch.equal(it[i][0], it[i - 1][1]):
            ctx.fail(case, f"mpc-loop: {tag}: iteration {i} does not start from the inputs of iteration {i - 1}")
            ok = False
    costs = [float(c[2].reshape(-1)[0]) for c in it]
    # TIES AT THE SELECTION BOUNDARY: "best so far" is any iteration attaining the minimal cost (every tie-break is admissible)
    admissible = [i for i, c in enumerate(costs) if c == min(costs)]
    fin = calls[-1][0]
    if fin is None or not any(torch.equal(fin, it[i][1]) for i in admissible):
        ctx.fail(case, f"mpc-loop: {tag}: the final solve does not start from the inputs of an iteration of minimal cost "
                       f"(minimal at {admissible} of {len(it)}, costs {costs})")
        ok = False
    return ok


def mpc_attrs(mpc):
    st = mpc.stepper
    return (st.max_steps, getattr(st, "patience", None), getattr(st, "decreasing", None), getattr(st, "tol", None), getattr(st, "vfh14_k", getattr(st, "k", None)),
            type(st).__name__, lqr_attrs(mpc.lqr))


def build_mpc(case, system, Q, p, T):
    """MPC construction through every spelling: explicit stepper (positional / keyword, verbose or not), default stepper
    (`stepper=None` -> ReduceToBason(steps=10)), a second MPC object around the same stepper object"""
    P = U.pp()
    MPC = U.user_classes()["MyMPC"] if case.get("subclass_mpc") else P.module.MPC
    if case.get("user_stepper"):
        # USER SUBCLASS / duck-typed stepper: the loop must follow ITS decisions (exactly k iterations)
        stepper = U.user_classes()[case["user_stepper"]](case["user_k"])
        return MPC(system, Q, p, T, stepper=stepper), stepper, None
    if case.get("default_stepper"):
        mpc = MPC(system, Q, p, T) if case["data_seed"] % 2 else MPC(system, Q, p, T, stepper=None)
        return mpc, mpc.stepper, case["steps"]
    stepper = P.utils.ReduceToBason(case["steps"], case["patience"], case["decreasing"], case["tol"], bool(case.get("verbose"))) \
        if case["data_seed"] % 3 == 0 else \
        P.utils.ReduceToBason(steps=case["steps"], patience=case["patience"], decreasing=case["decreasing"], tol=case["tol"],
                              verbose=bool(case.get("verbose")))
    mpc = MPC(system, Q, p, T, stepper) if case["data_seed"] % 2 else MPC(system=system, Q=Q, p=p, T=T, stepper=stepper)
    steps_eff = case["steps"]
    if case.get("shared_stepper"):             # a second MPC object built around the same stepper object
        mpc = MPC(system, Q, p, T, stepper=stepper)
        steps_eff -= 1
    return mpc, stepper, steps_eff


def check_mpc_constructor(ctx: Ctx, case, mpc, stepper, steps_eff):
    """what the constructor documents: the stepper given (or ReduceToBason with 10 steps, patience 5, decreasing 1e-3,
    tol 1e-5 when none is given), one step of its budget reserved for the final solve"""
    if case.get("user_stepper"):
        if mpc.stepper is not stepper or mpc.stepper.max_steps != 10 ** 6 - 1:
            ctx.fail(case, f"constructor: MPC(user stepper {case['user_stepper']}) does not hold the user's stepper with one step taken off its budget")
            return False
        return True
    want = (steps_eff - 1, case["patience"], case["decreasing"], case["tol"])
    got = (mpc.stepper.max_steps, mpc.stepper.patience, mpc.stepper.decreasing, mpc.stepper.tol)
    if mpc.stepper is not stepper or got != want:
        ctx.fail(case, f"constructor: MPC({'default stepper' if case.get('default_stepper') else 'explicit stepper'}) holds a stepper with "
                       f"(max_steps, patience, decreasing, tol) = {got}, documented {want}")
        return False
    return True


def call_mpc(mpc, xv, ut, style):
    if style == "kw":
        return mpc(dt=1, x_init=xv, u_init=ut, u_lower=None, u_upper=None, du=None)
    if style == "mixed":
        return mpc(1, xv, u_init=ut)
    if style == "bounds":
        lo = torch.full(tuple(xv.shape[:-1]) + (mpc.lqr.T, mpc.lqr.p.size(-1) - xv.size(-1)), -1e30, dtype=xv.dtype)
        return mpc(1, xv, ut, lo, -lo, 1e30)
    return mpc(1, xv, ut) if ut is not None else mpc(1, xv)


def mpc_call(ctx: Ctx, case, mpc, system, x0t, uin, uview, tag, steps_eff, kept: Kept, style="pos", grad="plain"):
    """one `MPC.__call__` on the real code with the call-level oracles (purity incl. the buffers behind views, public
    attributes, loop structure, number of iterations against the documented stepper rules, earlier results intact)"""
    ut, ubase = (None, None) if uin is None else U.as_view(torch.tensor(uin), uview)
    xv, xbase = U.as_view(x0t, "slice" if uview == "noncontig" else "contig")
    rec = Recorder(mpc.lqr)
    snap = Snap([("x_init", xv), ("x_init buffer", xbase), ("u_init", ut), ("u_init buffer", ubase), ("Q", mpc.lqr.Q), ("p", mpc.lqr.p)]
                + sys_tensors(system))
    att = mpc_attrs(mpc)
    if grad == "requires_grad":
        xv = xv.detach().clone().requires_grad_(True)
        xbase = xv
    try:
        with contextlib.redirect_stdout(io.StringIO()), warnings.catch_warnings(), grad_ctx(grad):
            warnings.simplefilter("ignore")
            x, u, cost = call_mpc(mpc, xv, ut, style)
    finally:
        rec.close()
    ok = True
    if all(isinstance(t, torch.Tensor) for t in (x, u, cost)):
        others = [("x_init", xv), ("x_init buffer", xbase), ("u_init", ut), ("u_init buffer", ubase), ("LQR.Q", mpc.lqr.Q), ("LQR.p", mpc.lqr.p),
                  ("LQR.x_traj", getattr(mpc.lqr, "x_traj", None)), ("LQR.u_traj", getattr(mpc.lqr, "u_traj", None))] + sys_tensors(system)
        for nm, out in (("x", x), ("u", u), ("cost", cost)):
            why = U.owns_memory(out, others + [(n2, o2) for n2, o2 in (("x", x), ("u", u), ("cost", cost)) if n2 != nm])
            if why:
                ctx.fail(case, f"ownership: {tag}: returned {nm} {why}")
                ok = False
    if snap.changed():
        ctx.fail(case, f"purity: {tag}: MPC modified {snap.changed()}")
        ok = False
    if mpc_attrs(mpc) != att:
        ctx.fail(case, f"attributes: {tag}: the call changed public attributes of the MPC object {att} -> {mpc_attrs(mpc)}")
        ok = False
    ok &= check_mpc_loop(ctx, case, rec, tag, u_given=True, u_init=None if ut is None else ut.detach().clone())
    costs = [float(c[2].reshape(-1)[0]) for c in rec.calls[:-1]]
    if costs and case.get("user_stepper"):
        if len(costs) != case["user_k"]:
            ctx.fail(case, f"mpc-loop: {tag}: the loop ran {len(costs)} iterations, the user's stepper ({case['user_stepper']}) stops after exactly {case['user_k']}")
            ok = False
    elif costs:
        stop_at, pc_exp, frag = U.expected_iterations(costs, steps_eff, case["patience"], case["decreasing"], case["tol"])
        if not frag and stop_at != len(costs) - 1:
            ctx.fail(case, f"mpc-loop: {tag}: the loop ran {len(costs)} iterations; by the stepper's documented rules (budget {steps_eff} - 1, "
                           f"patience {case['patience']}, decreasing {case['decreasing']}, tol {case['tol']}) it has to stop after "
                           f"{'more than that' if stop_at is None else stop_at + 1}; costs {costs}")
            ok = False
    mod = kept.modified()
    if mod:
        ctx.fail(case, f"aliasing: {tag}: tensors returned by {mod} were modified by this call")
        ok = False
    if all(isinstance(t, torch.Tensor) for t in (x, u, cost)):
        kept.add(tag, x, u, cost)
    return ok, x, u, cost, rec, costs


def run_mpc_linear(ctx: Ctx, case, lines, metas):
    P = U.pp()
    prob = U.build_problem(case)
    T, ns, nc = case["T"], case["ns"], case["nc"]
    system = U.make_system(case, prob)
    lqr_side = U.make_lqr(case, prob, system)      # an LQR object sharing the system with the MPC object
    Q, p = torch.tensor(prob["Q"]), torch.tensor(prob["p"])
    if case["qshape"] in ("q3", "q3p2"):
        Q = Q[:, 0]
    if case["qshape"] in ("p2", "q3p2"):
        p = p[:, 0]
    ok = True
    kept = Kept()
    try:
        mpc, stepper, steps_eff = build_mpc(case, system, Q, p, T)
        ok &= check_mpc_constructor(ctx, case, mpc, stepper, steps_eff)
        twin = None
        for call in range(case["calls"]):
            ev = (case.get("events") or [[]] * 3)[call % 3]
            if "fail" in ev:
                # a solver that raises inside an MPC on the same system (indefinite Q at t = 0), caught by the caller
                att = mpc_attrs(mpc)
                snapf = Snap(sys_tensors(system))
                Qb = torch.tensor(prob["Q"]).clone()
                Qb[:, 0] = -Qb[:, 0]
                try:
                    P.module.MPC(system, Qb, torch.tensor(prob["p"]), T)(1, torch.tensor(prob["x0"]))
                except Exception:
                    pass
                if snapf.changed() or mpc_attrs(mpc) != att:
                    ctx.fail(case, f"atomicity: a failing MPC solve on the same system changed {snapf.changed() or 'the other MPC object'}")
                    ok = False
                ctx.count("mpc.event.fail")
            if "deepcopy" in ev:
                twin = try_deepcopy(mpc, ctx)
                ctx.count("mpc.event.deepcopy")
            # every per-call argument changes between calls: x_init, u_init (value, presence, memory layout)
            f = [1.0, -0.5, 3.0][call % 3]
            pcall = dict(prob, x0=prob["x0"] * f + (0.0 if call == 0 else 0.125))
            refs = [U.make_ref(pcall, 0, T)]
            x0t = torch.tensor(pcall["x0"])
            uin = U.nominal(case, prob, case["uinit"] if call == 0 else [None, ["rand", 1.0, 10 + call], ["rand", 50.0, 20 + call]][call % 3])
            pc0 = int(getattr(stepper, "patience_count", 0))
            tag = f"MPC call #{call + 1} on a linear system"
            style, grad = STYLES[(case["data_seed"] + call) % len(STYLES)], ["plain", "requires_grad", "no_grad"][(case["data_seed"] // 7 + call) % 3]
            if twin is not None:
                # the copy solves first, is then disturbed; the original must be unaffected (own stepper, own system, own clock)
                g2, x2, u2, c2_, _, _ = mpc_call(ctx, case, twin, twin.lqr.system, x0t, uin, "contig", tag + " (deep copy)", steps_eff, Kept())
                ok &= g2 and check_solution(ctx, case, pcall, refs, x2, u2, c2_, tag + " (deep copy)", ubar=uin)
                if hasattr(twin.stepper, "patience_count"):
                    twin.stepper.patience_count = 99
                twin.lqr.system.systime = 4 if not prob["tv"] else 0
                dict(twin.lqr.system.named_buffers())[sys_bufnames(case)[1]].mul_(3.0)
                twin = None
            good, x, u, cost, rec, costs = mpc_call(ctx, case, mpc, system, x0t, uin, ["contig", "noncontig", "transposed"][call % 3],
                                                    tag, steps_eff, kept, style=style if style != "default_dt" else "pos", grad=grad)
            ok &= good
            ok &= check_solution(ctx, case, pcall, refs, x, u, cost, tag, ubar=uin)
            nums, L = U.linear_nums(case, pcall, 0, uin)
            meta = (case, call, len(rec.calls) - 1, int(getattr(stepper, "patience_count", 0)), x[0].detach().double().numpy(), u[0].detach().double().numpy(),
                    float(cost[0].detach()), (refs[0], refs[0].tols(None if uin is None else uin[0])), None, int(mpc.stepper.max_steps))
            line = U.mpc_line(case, nums, L, uin is not None, steps_eff, case["patience"], pc0, case["decreasing"], case["tol"])
            if not case.get("user_stepper"):        # (a user's stepper has no model; the oracles above decide)
                lines.append(line)
                metas.append(meta)
            ctx.count("mpc.linear.call")
            if call + 1 < case["calls"]:
                # an LQR solve on the same system object between two MPC calls, clock left dirty
                xs, us, cs = lqr_side(x0t, 1)
                ok &= check_solution(ctx, case, pcall, refs, xs, us, cs, f"LQR solve between MPC calls #{call + 1} and #{call + 2}")
                system.systime = 2 * T + 3
    except common.InfraError:
        raise
    except Exception as e:
        ctx.fail(case, f"raises: MPC on a linear system raised {type(e).__name__}: {str(e)[:160]}")
        return False
    return ok


def nls_feasible(ctx: Ctx, case, sp, x, u, cost, tag):
    """nonlinear clause: trajectory satisfies x[t+1] = f(x[t], u[t], t), starts at x_init, cost consistent"""
    eps = common.EPS["float64"]
    T, ns, nc = case["T"], case["ns"], case["nc"]
    if tuple(x.shape) != (1, T + 1, ns) or tuple(u.shape) != (1, T, nc) or tuple(cost.shape) != (1,):
        ctx.fail(case, f"shape: {tag}: returned shapes x{tuple(x.shape)} u{tuple(u.shape)} cost{tuple(cost.shape)}")
        return False
    xn, un, cn = x[0].detach().double().numpy(), u[0].detach().double().numpy(), float(cost[0].detach())
    if not (np.isfinite(xn).all() and np.isfinite(un).all() and math.isfinite(cn)):
        ctx.fail(case, f"finite: {tag}: non-finite values returned")
        return False
    ok = True
    if not np.array_equal(xn[0], sp["x0"]):
        ctx.fail(case, f"start: {tag}: x[0] != x_init")
        ok = False
    for t in range(T):
        res = xn[t + 1] - U.sin_f(sp, xn[t], un[t], t)
        sc = U.sin_f_scale(sp, xn[t], un[t])
        if over(np.abs(res), 64 * eps * sc):
            ctx.fail(case, f"dynamics: {tag}: x[{t + 1}] != f(x[{t}], u[{t}], t={t}) (residual {np.abs(res).max():.3e}, allowed {float((64 * eps * sc).max()):.3e})")
            ok = False
            break
    J = Ja = 0.0
    for t in range(T):
        tau = np.concatenate([xn[t], un[t]])
        J += 0.5 * tau @ sp["Q"][t] @ tau + sp["p"][t] @ tau
        Ja += 0.5 * np.abs(tau) @ np.abs(sp["Q"][t]) @ np.abs(tau) + np.abs(sp["p"][t]) @ np.abs(tau)
    if over(abs(J - cn), 16 * (T + ns + nc) * eps * Ja + 1e-300):
        ctx.fail(case, f"cost: {tag}: reported cost {cn!r} != sum of stage costs {J!r}")
        ok = False
    return ok


def nls_sensitivity(case, sp, fn):
    """how much the implementation's own result moves under 1e-9 relative changes of the data (x_init; p) — per time
    step (max over the components of the step), no global factor. Sets the tolerance of the nonlinear streams: an
    iterated nonlinear map amplifies rounding by its own conditioning."""
    d = 1e-9
    try:
        xa, ua = fn(sp)
        su, sx = np.zeros(ua.shape[0]), np.zeros(xa.shape[0])
        for sp2 in (dict(sp, x0=sp["x0"] * (1 + d) + d * 1e-3), dict(sp, p=sp["p"] * (1 + d) + d * 1e-3),
                    dict(sp, c=sp["c"] * (1 - d) + d * 1e-3)):
            xb, ub = fn(sp2)
            su = np.maximum(su, np.abs(ua - ub).max(axis=1) / d)
            sx = np.maximum(sx, np.abs(xa - xb).max(axis=1) / d)
    except Exception:
        return None
    return su, sx


def nls_tol(sens, um, xm, eps, sp=None, unom=None):
    """allowed deviation between implementation and model on the nonlinear streams: measured sensitivity of the
    implementation's own result (per time step) plus, when the nominal of the last solve is known, the error scales of
    the linear-quadratic solve of the problem linearised there (componentwise, as for linear systems)"""
    su, sx = sens
    tu = 1e4 * eps * (su + np.abs(um).max(axis=1)) + 1e4 * eps * eps * (np.abs(um).max() + np.abs(xm).max())
    tx = 1e4 * eps * (sx + np.abs(xm).max(axis=1)) + 1e4 * eps * eps * (np.abs(um).max() + np.abs(xm).max())
    tu, tx = np.repeat(tu[:, None], um.shape[1], axis=1), np.repeat(tx[:, None], xm.shape[1], axis=1)
    if sp is not None and unom is not None:
        try:
            ru, rx = LinView(sp, unom).ref_tols(unom, eps)
            tu, tx = tu + C_TOL * eps * ru, tx + C_TOL * eps * rx
        except Exception:
            pass
    return tu, tx


def run_mpc_nls(ctx: Ctx, case, lines, metas):
    P = U.pp()
    sp = U.build_sin_problem(case)
    T, ns, nc = case["T"], case["ns"], case["nc"]
    ok = True
    kept = Kept()
    try:
        system = U.make_sin_system(sp)
        mk = lambda a: torch.tensor(a).unsqueeze(0)
        Q, p = mk(sp["Q"]), mk(sp["p"])
        x0 = mk(sp["x0"])
        fake = dict(case, B=1)
        # (a) one LQR solve around a nominal trajectory (clock dirty at entry)
        rs = np.random.RandomState((case["data_seed"] + 5) % (2 ** 32))
        ub = rs.standard_normal((1, T, nc)) * 0.5
        lq = P.module.LQR(system, Q, p, T)
        system.reset(3)
        x, u, cost = lq(x0, 1, torch.tensor(ub))
        ok &= nls_feasible(ctx, case, sp, x, u, cost, "LQR solve on the nonlinear system")
        kept.add("LQR solve on the nonlinear system", x, u, cost)
        lqg = P.module.LQR(system, Q, p, T)
        K, k = lqg.lqr_backward(x0, 1, torch.tensor(ub))

        def one(spx):
            s2 = U.make_sin_system(spx)
            xx, uu, _ = P.module.LQR(s2, mk(spx["Q"]), mk(spx["p"]), T)(mk(spx["x0"]), 1, torch.tensor(ub))
            return xx[0].double().numpy(), uu[0].double().numpy()
        sens = nls_sensitivity(case, sp, one)
        if tuple(K.shape) != (1, T, nc, ns) or tuple(k.shape) != (1, T, nc):
            ctx.fail(case, f"shape: lqr_backward on the nonlinear system returned K{tuple(K.shape)} k{tuple(k.shape)}")
            ok = False
        else:
            meta = (case, "nls", None, None, x[0].detach().double().numpy(), u[0].detach().double().numpy(), float(cost[0].detach()), sens,
                    (K[0].detach().double().numpy(), k[0].detach().double().numpy()))
            lines.append(U.nls_line(case, sp, ub[0]))
            metas.append(meta)
        ctx.count("nls.solve")
        # (b) MPC, several calls on one object, every per-call argument varied (x_init, u_init, its layout), an LQR solve
        # on the same system in between
        mpc, stepper, steps_eff = build_mpc(case, system, Q, p, T)
        ok &= check_mpc_constructor(ctx, case, mpc, stepper, steps_eff)
        for call in range(case["calls"]):
            spc = dict(sp, x0=sp["x0"] * [1.0, -0.5, 1.5][call % 3] + (0.0 if call == 0 else 0.125))
            spec = case["uinit"] if call == 0 else [None, ["rand", 0.5, 10 + call], ["rand", 1.0, 20 + call]][call % 3]
            uin = U.nominal(fake, None, spec)
            ev = (case.get("events") or [[]] * 3)[call % 3]
            tag = f"MPC call #{call + 1} on the nonlinear system"
            if "fail" in ev:
                # ATOMICITY: the user's state_transition raises in the middle of this very call; the caller catches it and
                # calls again — the retry must be what the call would have been (model line below, oracles)
                att = mpc_attrs(mpc)
                snapf = Snap(sys_tensors(system) + [("Q", mpc.lqr.Q), ("p", mpc.lqr.p)])
                system.vfh14_fail_at = case["data_seed"] % (3 * T + 2)
                try:
                    with contextlib.redirect_stdout(io.StringIO()):
                        mpc(1, mk(spc["x0"])) if uin is None else mpc(1, mk(spc["x0"]), torch.tensor(uin))
                    raised = False
                except ArithmeticError:
                    raised = True
                system.vfh14_fail_at = -1
                if snapf.changed() or mpc_attrs(mpc) != att:
                    ctx.fail(case, f"atomicity: {tag}: a call in which the user's system raised changed {snapf.changed() or 'public attributes of the MPC object'}")
                    ok = False
                ctx.count(f"mpc.event.fail.{'raised' if raised else 'completed'}")
            twin = try_deepcopy(mpc, ctx) if "deepcopy" in ev else None
            pc0 = int(getattr(stepper, "patience_count", 0))
            system.reset(call * 5)
            style, grad = STYLES[(case["data_seed"] + call) % len(STYLES)], ["plain", "requires_grad", "no_grad"][(case["data_seed"] // 7 + call) % 3]
            good, x, u, cost, rec, costs = mpc_call(ctx, case, mpc, system, mk(spc["x0"]), uin, ["contig", "noncontig", "transposed"][call % 3],
                                                    tag, steps_eff, kept, style=style if style != "default_dt" else "pos", grad=grad)
            ok &= good
            if twin is not None and good:
                # COPIES: the deep copy (own system, own stepper, own clock) makes the same call after the original did and
                # after the original's system was disturbed: same result
                system.systime = 3
                g2, x2, u2, c2_, _, _ = mpc_call(ctx, case, twin, twin.lqr.system, mk(spc["x0"]), uin, "contig", tag + " (deep copy)", steps_eff, Kept())
                ok &= g2
                if g2 and not (torch.allclose(x2.detach(), x.detach(), rtol=1e-9, atol=1e-12) and torch.allclose(u2.detach(), u.detach(), rtol=1e-9, atol=1e-12)):
                    ctx.fail(case, f"copies: {tag}: a deep copy of the MPC object made before the call returns a different result for the same call "
                                   f"(u differs by {float((u2.detach() - u.detach()).abs().max()):.3e})")
                    ok = False
                ctx.count("mpc.event.deepcopy")
            ok &= nls_feasible(ctx, case, spc, x, u, cost, tag)

            def one_mpc(spx, uin=uin):
                s2 = U.make_sin_system(spx)
                st2 = P.utils.ReduceToBason(steps=steps_eff, patience=case["patience"], decreasing=case["decreasing"], tol=case["tol"])
                m2 = P.module.MPC(s2, mk(spx["Q"]), mk(spx["p"]), T, stepper=st2)
                a = (1, mk(spx["x0"])) if uin is None else (1, mk(spx["x0"]), torch.tensor(uin))
                xx, uu, _ = m2(*a)
                return xx[0].double().numpy(), uu[0].double().numpy()
            sens = nls_sensitivity(case, spc, one_mpc)
            fin = rec.calls[-1][0] if rec.calls else None
            meta = (case, call, len(rec.calls) - 1, int(getattr(stepper, "patience_count", 0)), x[0].detach().double().numpy(), u[0].detach().double().numpy(),
                    float(cost[0].detach()), sens, (costs, spc, None if fin is None else fin[0].detach().double().numpy()), int(mpc.stepper.max_steps))
            line = U.mpc_line(case, U.sin_nums(case, spc, None if uin is None else uin[0]), 0, uin is not None,
                              steps_eff, case["patience"], pc0, case["decreasing"], case["tol"])
            if not case.get("user_stepper"):
                lines.append(line)
                metas.append(meta)
            ctx.count("mpc.nls.call")
            ctx.count(f"mpc.nls.iterations.{len(rec.calls) - 1}")
            if call + 1 < case["calls"]:
                xs, us, cs = lq(mk(spc["x0"]), 1, torch.tensor(ub))
                ok &= nls_feasible(ctx, case, spc, xs, us, cs, f"LQR solve between MPC calls #{call + 1} and #{call + 2}")
    except common.InfraError:
        raise
    except Exception as e:
        ctx.fail(case, f"raises: LQR/MPC on the nonlinear system raised {type(e).__name__}: {str(e)[:160]}")
        return False
    return ok


class LinView:
    """the linearisation of a SinSys problem around the rolled-out nominal, in the shape `gains_tolerance` expects"""

    def __init__(self, sp, ub):
        T = sp["Q"].shape[0]
        xb = [sp["x0"]]
        for t in range(T - 1):
            xb.append(U.sin_f(sp, xb[t], ub[t], t))
        AB = [U.sin_lin(sp, xb[t], ub[t], t) for t in range(T)]
        self.A = np.stack([a for a, _ in AB])
        self.B = np.stack([b for _, b in AB])
        self.c = np.stack([U.sin_f(sp, xb[t], ub[t], t) - self.A[t] @ xb[t] - self.B[t] @ ub[t] for t in range(T)])
        self.Q, self.p, self.x0, self.T = sp["Q"], sp["p"], sp["x0"], T

    def ref_tols(self, ub, eps):
        """error scales of the linear-quadratic solve of the linearised problem (same model as for linear systems)"""
        r = U.Ref(self.A, self.B, self.c, self.Q, self.p, self.x0)
        tol_u, tol_x, _ = r.tols(ub, eps)
        return tol_u, tol_x


def compare_mpc_model(ctx: Ctx, reps, metas):
    eps = common.EPS["float64"]
    for rep, (case, call, niter, pc, xi, ui, ci, extra, aux, *more) in zip(reps, metas):
        meta_ms = more[0] if more else None
        ns, nc, T = case["ns"], case["nc"], case["T"]
        if call == "nls":
            xm, um, cm, Km, km = U.parse_lqr_reply(rep, ns, nc, T)
            sens = extra
            if sens is None:
                continue
            sp = U.build_sin_problem(case)
            rs0 = np.random.RandomState((case["data_seed"] + 5) % (2 ** 32))
            ub0 = rs0.standard_normal((1, T, nc))[0] * 0.5
            tu, tx = nls_tol(sens, um, xm, eps, sp, ub0)
            _, Ja = 0.0, sum(0.5 * np.abs(np.concatenate([xm[t], um[t]])) @ np.abs(sp["Q"][t]) @ np.abs(np.concatenate([xm[t], um[t]]))
                             + np.abs(sp["p"][t]) @ np.abs(np.concatenate([xm[t], um[t]])) for t in range(T))
            # cost: first-order propagation of the allowed (x,u) deviations through the stage-cost gradient
            dts = [np.concatenate([tx[t], tu[t]]) for t in range(T)]
            gsum = sum(float(np.abs(sp["Q"][t] @ np.concatenate([xm[t], um[t]]) + sp["p"][t]) @ dts[t] + 0.5 * dts[t] @ np.abs(sp["Q"][t]) @ dts[t])
                       for t in range(T))
            tc = 1e4 * eps * Ja + gsum
            eu, ex = (np.abs(ui - um) / (tu + 1e-300)).max(), (np.abs(xi - xm) / (tx + 1e-300)).max()
            stat("nls.u", eu); stat("nls.x", ex); stat("nls.cost", abs(ci - cm) / (tc + 1e-300))
            if over(eu, 1) or over(ex, 1) or over(abs(ci - cm), tc + 1e-300):
                ctx.disagree("nls", case, f"LQR on the nonlinear system: u differs by {np.abs(ui - um).max():.3e} (ratio {eu:.2f}), "
                                          f"x by {np.abs(xi - xm).max():.3e} (ratio {ex:.2f}), cost {ci!r} vs {cm!r} (allowed {tc:.3e})")
            Ki, ki = aux
            rs = np.random.RandomState((case["data_seed"] + 5) % (2 ** 32))
            ub = rs.standard_normal((1, T, nc))[0] * 0.5
            sK, sk = U.gains_tolerance(LinView(sp, ub), ub, case["data_seed"])
            eK = (np.abs(Ki - Km).reshape(T, -1).max(axis=1) / (1e4 * eps * sK + 1e-300)).max()
            ek = (np.abs(ki - km).reshape(T, -1).max(axis=1) / (1e4 * eps * sk + 1e4 * eps * eps * (np.abs(um).max() + np.abs(xm).max()) + 1e-300)).max()
            stat("nls.K", eK); stat("nls.k", ek)
            if over(eK, 1) or over(ek, 1):
                ctx.disagree("gains", case, f"nonlinear system: K differs by {np.abs(Ki - Km).max():.3e} (ratio {eK:.2f}), k by {np.abs(ki - km).max():.3e} (ratio {ek:.2f})")
            continue
        nm, pcm, xm, um, cm, msm = U.parse_mpc_reply(rep, ns, nc, T)
        if msm != meta_ms:
            ctx.disagree("mpc", case, f"call {call + 1}: MPC.__init__ left max_steps = {meta_ms} on the stepper, model (mpcInit) {msm}")
        if case["kind"] == "mpc_lin":
            r, (tol_u, tol_x, _sg) = extra
            if nm != niter or pcm != pc:
                ctx.disagree("mpc", case, f"call {call + 1}: implementation ran {niter} iterations (patience_count {pc}), model {nm} ({pcm})")
            _, Ja = r.cost(xm, um)
            eu = np.abs(ui - um) / (C_TOL * eps * tol_u + 1e-300)
            ex = np.abs(xi - xm) / (C_TOL * eps * tol_x + 1e-300)
            if case.get("qstyle") == "nearsym":     # informational, see compare_lqr_model
                NEARSYM.append((float(eu.max()), float(ex.max()), float(np.abs(ui - um).max() / (np.abs(um).max() + 1e-300))))
                continue
            if over(eu, 1) or over(ex, 1) or over(abs(ci - cm), C_TOL * eps * (Ja + float((_sg * tol_u).sum())) + C_TOL * r.floor(None, eps)[1] + 1e-300):
                ctx.disagree("mpc", case, f"call {call + 1}: MPC on a linear system vs model: u {np.abs(ui - um).max():.3e} "
                                          f"(ratio {eu.max():.2f}), x ratio {ex.max():.2f}, cost {ci!r} vs {cm!r}")
            continue
        sens = extra
        if sens is None:
            continue
        # discrete outputs: only decisive when the recorded costs are not within rounding of a threshold
        costs, spc_, unom_ = aux
        amp = 1 + float(sens[0].max()) + float(sens[1].max())
        fragile = any(abs(costs[i] - costs[j]) <= 1e-9 * amp * (abs(costs[i]) + 1) for i in range(len(costs)) for j in range(i))
        fragile |= any(abs(c - case["tol"]) <= 1e-9 * (1 + abs(c)) for c in costs)
        for i in range(1, len(costs)):
            if costs[i] != 0:
                fragile |= abs((costs[i - 1] - costs[i]) / costs[i] - case["decreasing"]) <= 1e-7 * amp
        if (nm != niter or pcm != pc):
            if fragile:
                ctx.count("mpc.nls.fragile-decision")
                continue
            ctx.disagree("mpc", case, f"call {call + 1}: implementation ran {niter} iterations (patience_count {pc}), model {nm} ({pcm}); costs {costs}")
            continue
        tu, tx = nls_tol(sens, um, xm, eps, spc_, unom_)
        eu, ex = (np.abs(ui - um) / (tu + 1e-300)).max(), (np.abs(xi - xm) / (tx + 1e-300)).max()
        stat("mpc.nls.u", eu); stat("mpc.nls.x", ex)
        if over(eu, 1) or over(ex, 1):
            if fragile:
                ctx.count("mpc.nls.fragile-decision")
                continue
            ctx.disagree("mpc", case, f"call {call + 1}: MPC on the nonlinear system vs model: u differs by {np.abs(ui - um).max():.3e} "
                                      f"(ratio {eu:.2f}), x by {np.abs(xi - xm).max():.3e} (ratio {ex:.2f}); {niter} iterations")


# ----------------------------------------------------------------------------- stepper stream

def stepper_corpus():
    """SPACING REGIMES: loss sequences whose relative decrease sits below / just below / just above / above the
    `decreasing` threshold, losses just below / above `tol`, either sign of the loss, budgets around the length"""
    out = []
    for dec in (1e-3, 0.5):
        for delta in (-0.5, -1e-3, -1e-6, 1e-6, 1e-3, 0.5):
            for base in (2.0, -3.0):
                for pat in (1, 3):
                    r = dec * (1 + delta)
                    losses = [base]
                    for _ in range(pat + 1):
                        losses.append(losses[-1] / (1 + r))      # (last - loss)/loss == r
                    for steps in (len(losses) - 1, len(losses) + 5):
                        out.append((steps, pat, 0, dec, -1e9, losses))
    # EXACT TIES: loss == last (ratio exactly 0 against decreasing 0 / >0 / <0), loss == tol exactly, ratio == decreasing exactly
    # (0.5: last = 1.5 loss), patience reached exactly at the budget, patience 0
    for dec in (0.0, 1e-3, -1e-3, 0.5):
        for base in (2.0, -3.0, 0.0):
            out.append((9, 2, 0, dec, -1e9, [base, base, base, base]))
    for base in (2.0, -4.0):
        out.append((9, 2, 0, 0.5, -1e9, [1.5 * 1.5 * base, 1.5 * base, base]))
    for tol in (1e-5, 1.0, -5.0, 0.0):
        out.append((9, 5, 0, 1e-3, tol, [tol, tol + 1.0]))
    for pat in (0, 1, 3):
        out.append((3, pat, 0, 1e-3, -1e9, [5.0, 5.0, 5.0, 5.0]))
    for tol in (1e-5, 1.0, -5.0):
        for delta in (-1e-3, 1e-3):
            for steps in (1, 9):
                out.append((steps, 5, 0, 1e-3, tol, [tol * (1 + delta) + (delta * 1e-3 if tol == 0 else 0.0), 3.0 * abs(tol) + 1.0]))
    return out


def run_stepper(ctx: Ctx, n):
    P = U.pp()
    rng = ctx.rng
    lines, metas = [], []
    fixed = stepper_corpus()
    for i in range(len(fixed) + n):
        if i < len(fixed):
            steps, pat, pc0, dec, tol, losses = fixed[i]
            m = len(losses)
        else:
            steps, pat, pc0 = rng.choice([0, 1, 2, 3, 5, 9]), rng.choice([1, 2, 3, 5]), rng.choice([0, 0, 1, 4, 7])
            dec, tol = rng.choice([1e-3, 0.5, 1e-9, -1e-3, 0.0]), rng.choice([1e-5, 1.0, -5.0, 0.0])
            m = rng.randint(1, 10)
            base = rng.choice([-3.0, 0.5, 2.0, 100.0])
            losses = []
            for j in range(m):
                r = rng.random()
                if r < 0.3 and losses:
                    losses.append(losses[-1])
                elif r < 0.5 and losses:
                    losses.append(losses[-1] * (1 - rng.choice([1e-6, 1e-2, 0.3])))
                elif r < 0.6:
                    losses.append(0.0)
                else:
                    losses.append(base * rng.uniform(0.2, 2.0) * rng.choice([1, 1, -1]))
        st = P.utils.ReduceToBason(steps=steps, patience=pat, decreasing=dec, tol=tol)
        st.reset()
        st.patience_count = pc0
        flags = []
        import warnings
        with warnings.catch_warnings():
            warnings.simplefilter("ignore")
            for l in losses:
                st.step(torch.tensor([l], dtype=torch.float64))
                flags.append(1 if st.continual() else 0)
        wflags, wpc, frag = U.stepper_flags(losses, steps, pat, dec, tol, pc0)
        if not frag and (flags != wflags or int(st.patience_count) != wpc):
            ctx.fail({"kind": "stepper", "steps": steps, "patience": pat, "pc0": pc0, "decreasing": dec, "tol": tol, "losses": losses},
                     f"stepper: ReduceToBason(steps={steps}, patience={pat}, decreasing={dec}, tol={tol}) on losses {losses}: continual() "
                     f"after each step {flags} (patience_count {int(st.patience_count)}), documented rules give {wflags} ({wpc})")
        lines.append(f"c14.stepper {steps} {pat} {pc0} " + common.wire_list([dec, tol] + losses))
        metas.append(({"kind": "stepper", "steps": steps, "patience": pat, "pc0": pc0, "decreasing": dec, "tol": tol, "losses": losses},
                      flags + [int(st.patience_count)]))
        ctx.note_case(("stepper", steps, pat, pc0, dec, tol, m), True)
        ctx.count("stepper.sequence")
    reps = ctx.driver.run(lines)
    for rep, (case, got) in zip(reps, metas):
        st, toks = common.parse_reply(rep)
        want = [int(t) for t in toks] if st == "ok" else None
        if want != got:
            ctx.disagree("stepper", case, f"ReduceToBason flags/patience {got} vs model {want}")


# ----------------------------------------------------------------------------- run / search / replay

def run_default_objects(ctx: Ctx):
    """STATE SHARED THROUGH DEFAULTS: several MPC objects (and steppers) built with the optional arguments OMITTED, used
    interleaved; each must behave as the DOCUMENTED default says (stepper: 10 steps of which MPC reserves one, patience 5,
    decreasing 1e-3, tol 1e-5; its own stepper object), whatever was built or run before"""
    import random
    P = U.pp()
    objs = []
    for k2, kind in enumerate(("lin", "nls", "lin")):
        if kind == "lin":
            c = gen_mpc_linear_case(random.Random(7100 + k2))
            c.update(sys="lti", default_stepper=True, steps=10, patience=5, decreasing=1e-3, tol=1e-5, shared_stepper=False, user_stepper=None,
                     subclass_mpc=False, subclass=None, signpat=None, qstyle=None, dup=False, defdt=None, verbose=False, c1="rand", qshape="full")
            prob = U.build_problem(c)
            system = U.make_system(c, prob)
            mpc = P.module.MPC(system, torch.tensor(prob["Q"]), torch.tensor(prob["p"]), c["T"])        # stepper OMITTED
            objs.append((c, prob, system, mpc))
        else:
            c = gen_mpc_nls_case(random.Random(7100 + k2))
            c.update(default_stepper=True, steps=10, patience=5, decreasing=1e-3, tol=1e-5, shared_stepper=False, user_stepper=None,
                     subclass_mpc=False, verbose=False, T=4, amp=1.0, phi=1.0)
            sp = U.build_sin_problem(c)
            system = U.make_sin_system(sp)
            mpc = P.module.MPC(system, torch.tensor(sp["Q"]).unsqueeze(0), torch.tensor(sp["p"]).unsqueeze(0), c["T"])
            objs.append((c, sp, system, mpc))
    st_default = P.utils.ReduceToBason(10)          # patience, decreasing, tol OMITTED
    if (st_default.max_steps, st_default.patience, st_default.decreasing, st_default.tol) != (10, 5, 1e-3, 1e-5):
        ctx.fail({"kind": "defaults"}, f"constructor: ReduceToBason(10) has (max_steps, patience, decreasing, tol) = "
                                       f"{(st_default.max_steps, st_default.patience, st_default.decreasing, st_default.tol)}, documented (10, 5, 1e-3, 1e-5)")
    if len({id(o[3].stepper) for o in objs}) != len(objs):
        ctx.fail(objs[0][0], "constructor: MPC objects built without a stepper share ONE stepper object")
    for rnd in range(2):
        for i, (c, data, system, mpc) in enumerate(objs):
            tag = f"default-constructed MPC object #{i + 1} of {len(objs)} (round {rnd + 1})"
            try:
                check_mpc_constructor(ctx, c, mpc, mpc.stepper, 10)
                kept = Kept()
                if c["kind"] == "mpc_lin":
                    x0t = torch.tensor(data["x0"])
                    good, x, u, cost, rec, costs = mpc_call(ctx, c, mpc, system, x0t, None, "contig", tag, 10, kept)
                    check_solution(ctx, c, data, [U.make_ref(data, 0, c["T"])], x, u, cost, tag)
                else:
                    good, x, u, cost, rec, costs = mpc_call(ctx, c, mpc, system, torch.tensor(data["x0"]).unsqueeze(0), None, "contig", tag, 10, kept)
                    nls_feasible(ctx, c, data, x, u, cost, tag)
            except Exception as e:
                ctx.fail(c, f"raises: {tag} raised {type(e).__name__}: {str(e)[:160]}")
            ctx.count("defaults.mpc-call")
    ctx.note_case(("defaults",), True)


def run_bitwise_repeat(ctx: Ctx):
    """MODULE-LEVEL CONSTANTS WRITTEN BY ANOTHER OPERATION: two identical calls with every other public operation of the
    modules in between (single-item all-ones shapes and batched, both dtypes, forward and backward, MPC, system forward,
    set_refpoint, stepper) must agree BIT FOR BIT"""
    import random
    P = U.pp()
    probes = []
    for k2, (sh, dty) in enumerate((((1, 1, 1, 1), "float64"), ((1, 1, 1, 1), "float32"), ((2, 3, 2, 1), "float64"), ((1, 2, 1, 2), "float32"))):
        c = neutral(gen_lqr_case(random.Random(7300 + k2), small=sh))
        c.update(sys="lti", dtype=dty, c1="rand", mixed=False, dt=1, condQ=10, qscale=1, pscale=1, x0scale=1, cscale=1, bscale=1, rho=0.9, tail=False, errs=False)
        prob = U.build_problem(c)
        system = U.make_system(c, prob)
        lq = U.make_lqr(c, prob, system)
        x0 = torch.tensor(prob["x0"], dtype=getattr(torch, dty))
        probes.append((c, prob, system, lq, x0, [t.detach().clone() for t in lq(x0, 1)]))
    # everything else in between
    others = [neutral(gen_lqr_case(random.Random(7400 + i), small=sh)) for i, sh in enumerate(((1, 1, 1, 1), (3, 2, 1, 1), (1, 3, 2, 2), (2, 1, 1, 3)))]
    for i, c in enumerate(others):
        c.update(sys=("lti", "ltv", "ltvp", "lti_shared")[i], dtype=("float64", "float32")[i % 2], c1="rand", mixed=False, dt=1, condQ=10, qscale=1, rho=0.9,
                 tail=False, errs=False)
        c["ops"] = [["solve", "none", {"grad": "inference"}], ["solve", ["rand", 1.0, 1], {"grad": "requires_grad"}], ["fwd", 2], ["solve", "zeros", {"style": "kw"}]]
        run_lqr_case(ctx, c, [], [])
    for c in mpc_corpus()[:2] + mpc_corpus()[-2:]:
        (run_mpc_linear if c["kind"] == "mpc_lin" else run_mpc_nls)(ctx, c, [], [])
    for (c, prob, system, lq, x0, before) in probes:
        try:
            after = lq(x0, 1)
            same = all(torch.equal(a.detach(), b) for a, b in zip(after, before))
        except Exception as e:
            ctx.fail(c, f"raises: repeating an identical solve after other operations raised {type(e).__name__}: {str(e)[:140]}")
            continue
        if not same:
            d = max(float((a.detach().double() - b.double()).abs().max()) for a, b in zip(after, before))
            ctx.fail(c, f"repeat: an identical solve (batch {c['B']}, T {c['T']}, dims {c['ns']}x{c['nc']}, {c['dtype']}) repeated after other LQR / MPC / "
                        f"system operations in the same process differs bit for bit from its first result (max difference {d:.3e})")
        ctx.count("repeat.probe")
    ctx.note_case(("bitwise-repeat",), True)


def run_huge_batch(ctx: Ctx):
    """SIZES BEYOND EVERY INTERNAL BLOCK: one-step problems (closed form u = -Quu^-1 (Qux x0 + pu)) with batches of
    2^17+37 (quick) and 2^18+1, 2^20+1 (thorough) items; every item checked, the last n % 2^k items in particular"""
    P = U.pp()
    sizes = [2 ** 17 + 37] if ctx.quick else [2 ** 17 + 37, 2 ** 18 + 1, 2 ** 20 + 1]
    for N in sizes:
        ns, nc, n = 2, 1, 3
        g = torch.Generator().manual_seed(N)
        M = torch.randn(N, n, n, generator=g, dtype=torch.float64)
        Q = M @ M.mT + 0.5 * torch.eye(n, dtype=torch.float64)
        p = torch.randn(N, n, generator=g, dtype=torch.float64)
        x0 = torch.randn(N, ns, generator=g, dtype=torch.float64)
        A = torch.randn(ns, ns, generator=g, dtype=torch.float64)
        Bm = torch.randn(ns, nc, generator=g, dtype=torch.float64)
        c1 = torch.randn(ns, generator=g, dtype=torch.float64)
        case = {"kind": "huge", "N": N}
        try:
            lti = P.module.LTI(A, Bm, torch.eye(ns, dtype=torch.float64), torch.zeros(ns, nc, dtype=torch.float64), c1, None)
            x, u, cost = P.module.LQR(lti, Q, p, 1)(x0)
            uw = -torch.linalg.solve(Q[:, ns:, ns:], (Q[:, ns:, :ns] @ x0.unsqueeze(-1)).squeeze(-1) + p[:, ns:])
            tau = torch.cat((x0, uw), -1)
            cw = 0.5 * (tau.unsqueeze(-2) @ Q @ tau.unsqueeze(-1)).reshape(N) + (tau * p).sum(-1)
            xw = x0 @ A.mT + uw @ Bm.mT + c1
            scale = 1 + tau.abs().amax(-1)
            eu = ((u[:, 0] - uw).abs().amax(-1) / scale)
            ex = ((x[:, 1] - xw).abs().amax(-1) / (1 + xw.abs().amax(-1)))
            ec = (cost - cw).abs() / (1 + cw.abs())
            bad = (~(eu <= 1e-9) | ~(ex <= 1e-9) | ~(ec <= 1e-9) | (x[:, 0] != x0).any(-1)).nonzero().flatten()
            if tuple(u.shape) != (N, 1, nc) or tuple(x.shape) != (N, 2, ns) or tuple(cost.shape) != (N,):
                ctx.fail(case, f"shape: batch of {N} one-step problems: returned x{tuple(x.shape)} u{tuple(u.shape)} cost{tuple(cost.shape)}")
            elif len(bad):
                i = int(bad[-1])
                ctx.fail(case, f"huge-batch: batch of {N} one-step problems: {len(bad)} items are not the closed-form optimum, e.g. item {i} "
                               f"(= N - {N - i}): u {u[i, 0].tolist()} vs {uw[i].tolist()}, cost {float(cost[i])!r} vs {float(cw[i])!r}")
        except Exception as e:
            ctx.fail(case, f"raises: batch of {N} one-step problems raised {type(e).__name__}: {str(e)[:140]}")
        ctx.count(f"huge.batch.{N}")
        ctx.note_case(("huge", N), True)


def run_mode_order(ctx: Ctx):
    """MODE-POISONED CACHES: for keys (sizes, dtype) that nothing in this process has used yet, the FIRST solve runs under
    inference_mode (resp. no_grad), the next one with operands that require grad (with backward), then a plain one"""
    import random
    combos = [(2, 3, n, n, "float64") for n in (1, 2, 3, 4, 5, 6)] + [(1, 4, 2, 3, "float32"), (3, 2, 3, 1, "float32"), (1, 7, 1, 2, "float64"),
                                                                     (2, 5, 4, 2, "float64"), (3, 1, 2, 2, "float32"), (1, 9, 3, 3, "float32")]
    for k2, (Bn, T, ns, nc, dty) in enumerate(combos):
        c = gen_lqr_case(random.Random(4000 + k2), small=(Bn, T, ns, nc))
        c.update(sys=("lti", "ltv", "lti_shared", "ltvc")[k2 % 4], dtype=dty, c1="rand", mixed=False, dup=False, condQ=10, qscale=1, pscale=1, x0scale=1,
                 cscale=1, bscale=1, rho=0.9, astyle="rand", bstyle="full", dt=1, tail=False, qstyle=None, signpat=None, subclass=None, defdt=None)
        first_mode = "inference" if k2 % 2 == 0 else "no_grad"
        c["ops"] = [["solve", "none", {"grad": first_mode}], ["solve", ["rand", 1.0, 1], {"grad": "requires_grad"}], ["solve", "zeros", {}],
                    ["solve", "prev", {"grad": "requires_grad"}]]
        c["modeorder"] = True
        ctx.note_case(sig_of(c) + ("modeorder",), True)
        run_lqr_case(ctx, c, [], [])
        ctx.count("modeorder.case")


def run_interleaved(ctx: Ctx, order_seed: int):
    """MODULE-LEVEL STATE: objects of different dtype / system kind / size used alternately in one process, in several
    orders; every solve against its own reference"""
    import random
    rng = random.Random(order_seed)
    specs = [dict(small=(2, 3, 2, 1), sys="lti", dtype="float32"), dict(small=(3, 4, 3, 2), sys="ltv", dtype="float64"),
             dict(small=(1, 2, 1, 3), sys="lti_shared", dtype="float64"), dict(small=(2, 3, 2, 1), sys="ltvc", dtype="float64")]
    objs = []
    for i, sp in enumerate(specs):
        c = gen_lqr_case(random.Random(900 + i), small=sp["small"])
        c.update(sys=sp["sys"], dtype=sp["dtype"], c1="rand", mixed=False, dt=1, condQ=10, qscale=1, bscale=1, rho=0.9, pscale=1, x0scale=1, cscale=1,
                 ops=[["interleaved", order_seed]])
        prob = U.build_problem(c)
        system = U.make_system(c, prob)
        objs.append((c, prob, system, U.make_lqr(c, prob, system), [U.make_ref(prob, b, c["T"]) for b in range(c["B"])]))
    order = [0, 1, 0, 2, 1, 3, 0, 3, 2, 1] if order_seed == 0 else [rng.randrange(len(objs)) for _ in range(10)]
    for n_, i in enumerate(order):
        c, prob, system, lq, refs = objs[i]
        try:
            x, u, cost = lq(torch.tensor(prob["x0"], dtype=getattr(torch, c["dtype"])), 1)
            check_solution(ctx, c, prob, refs, x, u, cost, f"interleaved use #{n_ + 1} (object {i}: {c['sys']}, {c['dtype']}; order {order})")
        except Exception as e:
            ctx.fail(c, f"raises: interleaved use #{n_ + 1} (object {i}; order {order}) raised {type(e).__name__}: {str(e)[:160]}")
        ctx.count("interleaved.solve")
    ctx.note_case(("interleaved", order_seed), True)


def small_shapes():
    return [(Bn, T, ns, nc) for Bn in (1, 2, 3) for T in (1, 2, 3) for ns in (1, 2) for nc in (1, 2)]


def run_cases(ctx: Ctx, cases):
    lq_lines, lq_metas, mp_lines, mp_metas = [], [], [], []
    for case in cases:
        ctx.note_case(sig_of(case), nontrivial(case))
        ctx.count(f"case.{case['kind']}")
        if case["kind"] == "lqr":
            ctx.count(f"lqr.sys.{case['sys']}")
            ctx.count(f"lqr.T.{case['T']}")
            ctx.count(f"lqr.condQ.{case['condQ']:g}")
            ctx.count(f"lqr.rho.{case['rho']:g}")
            ctx.count(f"lqr.dims.{case['ns']}x{case['nc']}")
            ctx.count(f"lqr.batch.{case['B']}")
            run_lqr_case(ctx, case, lq_lines, lq_metas)
            ctx.sample({k: v for k, v in case.items()}, cap=4)
        elif case["kind"] == "mpc_lin":
            run_mpc_linear(ctx, case, mp_lines, mp_metas)
        elif case["kind"] == "mpc_nls":
            run_mpc_nls(ctx, case, mp_lines, mp_metas)
            ctx.sample({k: v for k, v in case.items()}, cap=6)
    reps = run_lines(ctx, lq_lines + mp_lines)
    compare_lqr_model(ctx, reps[:len(lq_lines)], lq_metas)
    compare_mpc_model(ctx, reps[len(lq_lines):], mp_metas)


def run(ctx: Ctx):
    torch.set_num_threads(1)
    rng = ctx.rng
    # deterministic corner corpus first: detection of the classes it covers does not depend on the seed
    cases = corpus() + mpc_corpus()
    for c in cases:
        c["corpus"] = True
    ctx.count("corpus.cases", len(cases))
    run_mode_order(ctx)          # must come first: its shape / dtype keys have to be fresh in the process
    run_default_objects(ctx)
    run_bitwise_repeat(ctx)
    run_huge_batch(ctx)
    run_interleaved(ctx, 0)
    run_interleaved(ctx, 1 + ctx.seed)
    if os.environ.get("C14_ONLY_CORPUS"):      # rehearsal aid: what does the seed-independent part catch on its own?
        run_cases(ctx, cases)
        return
    # every small shape (batch 1..3 x T 1..3 x ns,nc 1..2): the D18 region and its neighbours
    for sh in small_shapes():
        if ctx.quick and rng.random() < 0.75:       # (the corpus already sweeps all 81 extents in {1,2,3}^4)
            continue
        cases.append(gen_lqr_case(rng, small=sh))
    for _ in range(ctx.pick(35, 2000)):
        cases.append(gen_lqr_case(rng, big=True))
    for _ in range(ctx.pick(4, 150)):
        cases.append(gen_big_case(rng))
    for _ in range(ctx.pick(12, 300)):
        cases.append(gen_mpc_linear_case(rng, big=not ctx.quick))
    for _ in range(ctx.pick(8, 400)):
        cases.append(gen_mpc_nls_case(rng, big=not ctx.quick))
    run_cases(ctx, cases)
    run_stepper(ctx, ctx.pick(40, 1000))
    if NEARSYM:
        ctx.notes.append(f"nearly symmetric Q (1e-6 entrywise asymmetry, {len(NEARSYM)} items, informational): implementation vs model largest "
                         f"u ratio {max(a for a, _, _ in NEARSYM):.3g}, largest relative difference {max(c for _, _, c in NEARSYM):.3g}")
    ctx.notes.append("largest observed/allowed ratios: " + ", ".join(f"{k}={v:.3g}" for k, v in sorted(STAT.items())))


def search(ctx: Ctx):
    """failing-input search on the real code after a broken proof / correspondence: the oracles alone
    (no model), over all small shapes with long histories, then larger random problems."""
    rng = ctx.rng
    for rnd in range(3):
        for sh in small_shapes():
            case = gen_lqr_case(rng, small=sh)
            run_lqr_case(ctx, case, [], [])
            if ctx.failures:
                return
    for _ in range(150):
        case = gen_lqr_case(rng, big=True)
        run_lqr_case(ctx, case, [], [])
        if ctx.failures:
            return
    for _ in range(30):
        run_mpc_linear(ctx, gen_mpc_linear_case(rng), [], [])
        run_mpc_nls(ctx, gen_mpc_nls_case(rng), [], [])
        if ctx.failures:
            return


def replay(ctx: Ctx, case) -> bool:
    torch.set_num_threads(1)
    c = dict(case["case"])
    c.pop("focus", None)
    n0 = len(ctx.failures)
    if c.get("kind") in ("huge", "defaults"):
        n0 = len(ctx.failures)
        (run_huge_batch if c["kind"] == "huge" else run_default_objects)(ctx)
        for f in ctx.failures[n0:]:
            print("  fails:", f["what"])
        return len(ctx.failures) == n0
    if c.get("ops") and c["ops"][0][0] == "interleaved":
        n0 = len(ctx.failures)
        run_interleaved(ctx, c["ops"][0][1])
        for f in ctx.failures[n0:]:
            print("  fails:", f["what"])
        return len(ctx.failures) == n0
    if c.get("kind") == "stepper":
        P = U.pp()
        st = P.utils.ReduceToBason(steps=c["steps"], patience=c["patience"], decreasing=c["decreasing"], tol=c["tol"])
        st.reset()
        st.patience_count = c["pc0"]
        flags = []
        for l in c["losses"]:
            st.step(torch.tensor([l], dtype=torch.float64))
            flags.append(1 if st.continual() else 0)
        w = U.stepper_flags(c["losses"], c["steps"], c["patience"], c["decreasing"], c["tol"], c["pc0"])
        print("  implementation:", flags, int(st.patience_count), " documented rules:", w[0], w[1])
        return flags == w[0] and int(st.patience_count) == w[1]
    run_cases(ctx, [c])
    for f in ctx.failures[n0:]:
        print("  fails:", f["what"])
    for d in ctx.disagreements:
        print("  model/implementation disagreement:", d["stream"], d["detail"])
    return len(ctx.failures) == n0 and not ctx.disagreements
