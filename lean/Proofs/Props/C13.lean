import Proofs.Lemmas.Filter
/-!
# C13 — EKF / UKF equal the Kalman filter on linear-Gaussian systems; covariances valid; PF skeleton

Property theorems only (definitions of the specification `kfStep`, `kalman` and helpers are in
`Proofs/Lemmas/Filter.lean`; the model is `Pose/Model/Filter.lean`).

Contracts of external kernels appear as hypotheses:
`hpinv : ∀ S, IsUnit S.det → pinv S = S⁻¹`  (`torch.linalg.pinv` of an invertible matrix is its inverse),
`hsqrt : ∀ M, M.PosSemidef → msqrt M * (msqrt M)ᵀ = M`  (`UKF.msqrt`, default Cholesky).
-/
open Matrix
namespace PP.Filter

variable {n m p : Nat}

/-- **EKF on any system = the documented recursion**: Kalman recursion applied to the linearisation
`A = ∂f/∂x`, `C = ∂g/∂x` at the *prior* mean, with the innovation taken at the *predicted* state
`g(f(x,u),u)`. No assumption on `f`, `g`. -/
theorem ekf_eq_linearised (pinv : Mat ℝ p p → Mat ℝ p p)
    (hpinv : ∀ S : Matrix (Fin p) (Fin p) ℝ, IsUnit S.det → pinv S = S⁻¹)
    (f : (Fin n → ℝ) → (Fin m → ℝ) → Fin n → ℝ) (g : (Fin n → ℝ) → (Fin m → ℝ) → Fin p → ℝ)
    (jf : (Fin n → ℝ) → (Fin m → ℝ) → Matrix (Fin n) (Fin n) ℝ)
    (jg : (Fin n → ℝ) → (Fin m → ℝ) → Matrix (Fin p) (Fin n) ℝ)
    (u : Fin m → ℝ) (y : Fin p → ℝ) (Q : Matrix (Fin n) (Fin n) ℝ) (R : Matrix (Fin p) (Fin p) ℝ)
    (x : Fin n → ℝ) (P : Matrix (Fin n) (Fin n) ℝ)
    (hP : P.PosSemidef) (hQ : Q.PosSemidef) (hR : R.PosDef) :
    let po := ekf pinv ⟨⟨f, g, jf, jg⟩, u, y, Q, R⟩ ⟨x, P⟩
    let b := kfStep (jf x u) (jg x u) (f x u) (g (f x u) u) Q R P y
    po.x = b.mean ∧ po.P = b.cov := by
  intro po b
  have hS := PosDef.isUnit_det' (innovCov_pd (C := jg x u) (predCov_psd (A := jf x u) hP hQ) hR)
  constructor
  · simp only [po, ekf, MemoV.fn_of, MemoM.mfn_of, MemoM.mfn_of', b, kfStep]
    simp only [mmul_eq', transpose_eq', madd_eq', mulVec_eq', vadd_eq, vsub_eq, hpinv _ hS]
  · simp only [po, ekf, MemoV.fn_of, MemoM.mfn_of, MemoM.mfn_of', b, kfStep]
    simp only [mmul_eq', transpose_eq', madd_eq', msub_eq', eye_eq', hpinv _ hS]
    rw [Matrix.sub_mul, Matrix.one_mul]

/-- **EKF = KF on linear-Gaussian systems.** For every affine system, every prior `(x, P)` with `P ⪰ 0`,
every `Q ⪰ 0`, `R ≻ 0`, all dimensions and all inputs / measurements, one EKF step returns exactly the mean
and covariance of the Kalman predict-then-update posterior. -/
theorem ekf_linear_eq_kf (pinv : Mat ℝ p p → Mat ℝ p p)
    (hpinv : ∀ S : Matrix (Fin p) (Fin p) ℝ, IsUnit S.det → pinv S = S⁻¹)
    (l : LinStep n m p) (hl : l.ok) (b : Belief n) (hb : b.cov.PosSemidef) :
    (ekf pinv l.toStep ⟨b.mean, b.cov⟩).x = (l.kalman b).mean ∧
    (ekf pinv l.toStep ⟨b.mean, b.cov⟩).P = (l.kalman b).cov := by
  have h := ekf_eq_linearised pinv hpinv (affSys l.A l.B l.C l.D l.c1 l.c2).f (affSys l.A l.B l.C l.D l.c1 l.c2).g
    (fun _ _ => l.A) (fun _ _ => l.C) l.u l.y l.Q l.R b.mean b.cov hb hl.1 hl.2
  simp only [LinStep.kalman, kalman, LinStep.toStep, affSys, mulVec_eq', vadd_eq] at h ⊢
  exact h

/-- **EKF covariance is valid, always**: for an arbitrary (non-linear) system and arbitrary Jacobians the
returned covariance is symmetric and positive semidefinite. -/
theorem ekf_cov_psd (pinv : Mat ℝ p p → Mat ℝ p p)
    (hpinv : ∀ S : Matrix (Fin p) (Fin p) ℝ, IsUnit S.det → pinv S = S⁻¹)
    (f : (Fin n → ℝ) → (Fin m → ℝ) → Fin n → ℝ) (g : (Fin n → ℝ) → (Fin m → ℝ) → Fin p → ℝ)
    (jf : (Fin n → ℝ) → (Fin m → ℝ) → Matrix (Fin n) (Fin n) ℝ)
    (jg : (Fin n → ℝ) → (Fin m → ℝ) → Matrix (Fin p) (Fin n) ℝ)
    (u : Fin m → ℝ) (y : Fin p → ℝ) (Q : Matrix (Fin n) (Fin n) ℝ) (R : Matrix (Fin p) (Fin p) ℝ)
    (x : Fin n → ℝ) (P : Matrix (Fin n) (Fin n) ℝ)
    (hP : P.PosSemidef) (hQ : Q.PosSemidef) (hR : R.PosDef) :
    Matrix.PosSemidef (ekf pinv ⟨⟨f, g, jf, jg⟩, u, y, Q, R⟩ ⟨x, P⟩).P := by
  rw [(ekf_eq_linearised pinv hpinv f g jf jg u y Q R x P hP hQ hR).2]
  exact kfStep_cov_psd _ _ _ _ _ hP hQ hR

/-- **Histories.** A run of any length of EKF calls on a (possibly time-varying) linear-Gaussian system,
each call receiving the previous posterior, equals the Kalman filter run; and the covariance stays
symmetric positive semidefinite along the whole run (so every call's hypotheses hold). -/
theorem ekf_run_eq_kf_run (pinv : Mat ℝ p p → Mat ℝ p p)
    (hpinv : ∀ S : Matrix (Fin p) (Fin p) ℝ, IsUnit S.det → pinv S = S⁻¹)
    (steps : List (LinStep n m p)) (hs : ∀ l ∈ steps, l.ok) (b : Belief n) (hb : b.cov.PosSemidef) :
    (runEKF pinv (steps.map LinStep.toStep) ⟨b.mean, b.cov⟩).x = (kalmanRun steps b).mean ∧
    (runEKF pinv (steps.map LinStep.toStep) ⟨b.mean, b.cov⟩).P = (kalmanRun steps b).cov ∧
    (kalmanRun steps b).cov.PosSemidef := by
  induction steps generalizing b with
  | nil => exact ⟨rfl, rfl, hb⟩
  | cons l rest ih =>
    have hl : l.ok := hs l (by simp)
    have h1 := ekf_linear_eq_kf pinv hpinv l hl b hb
    have hpost : ekf pinv l.toStep ⟨b.mean, b.cov⟩ = ⟨(l.kalman b).mean, (l.kalman b).cov⟩ := by
      rcases h : ekf pinv l.toStep ⟨b.mean, b.cov⟩ with ⟨x', P'⟩
      rw [h] at h1
      simp only at h1
      rw [h1.1, h1.2]
    have := ih (fun l' hl' => hs l' (by simp [hl'])) (l.kalman b) (l.kalman_cov_psd hl hb)
    simpa only [runEKF, kalmanRun, List.map_cons, List.foldl_cons, hpost] using this

/-- **UKF = KF on linear-Gaussian systems**, for every sigma-point parameter `k > -n` and every matrix
square root satisfying `L Lᵀ = M`. -/
theorem ukf_linear_eq_kf (pinv : Mat ℝ p p → Mat ℝ p p)
    (hpinv : ∀ S : Matrix (Fin p) (Fin p) ℝ, IsUnit S.det → pinv S = S⁻¹)
    (msqrt : Matrix (Fin n) (Fin n) ℝ → Matrix (Fin n) (Fin n) ℝ)
    (hsqrt : ∀ M : Matrix (Fin n) (Fin n) ℝ, M.PosSemidef → msqrt M * (msqrt M)ᵀ = M)
    (kk : ℝ) (hk : -(n : ℝ) < kk)
    (l : LinStep n m p) (hl : l.ok) (b : Belief n) (hb : b.cov.PosSemidef) :
    (ukf pinv msqrt kk l.toStep ⟨b.mean, b.cov⟩).x = (l.kalman b).mean ∧
    (ukf pinv msqrt kk l.toStep ⟨b.mean, b.cov⟩).P = (l.kalman b).cov := by
  have hN : 0 < (n : ℝ) + kk := by linarith
  have hab : w0 n kk + 2 * n * wr n kk = 1 := by
    simp only [w0, wr, k_real]; field_simp; push_cast; ring
  have h2b : 2 * wr n kk * ((n : ℝ) + kk) = 1 := by
    simp only [wr, k_real]; field_simp; push_cast; ring
  obtain ⟨hQ, hR⟩ := hl
  set N : ℝ := (n : ℝ) + kk with hNdef
  set L1 := msqrt (N • b.cov) with hL1def
  have hL1 : L1 * L1ᵀ = N • b.cov := hsqrt _ (hb.smul hN.le)
  have hPmpsd : (l.A * b.cov * l.Aᵀ + l.Q).PosSemidef := predCov_psd hb hQ
  set Pm := l.A * b.cov * l.Aᵀ + l.Q with hPmdef
  set L2 := msqrt (N • Pm) with hL2def
  have hL2 : L2 * L2ᵀ = N • Pm := hsqrt _ (hPmpsd.smul hN.le)
  have e1 : (2 * wr n kk) • (l.A * L1 * (l.A * L1)ᵀ) = l.A * b.cov * l.Aᵀ := by
    rw [Matrix.transpose_mul, Matrix.mul_assoc l.A L1, ← Matrix.mul_assoc L1, hL1, Matrix.smul_mul, Matrix.mul_smul,
      smul_smul, h2b, one_smul, Matrix.mul_assoc]
  have e2 : l.Q + l.A * b.cov * l.Aᵀ = Pm := add_comm _ _
  have e3 : (2 * wr n kk) • (l.C * L2 * (l.C * L2)ᵀ) = l.C * Pm * l.Cᵀ := by
    rw [Matrix.transpose_mul, Matrix.mul_assoc l.C L2, ← Matrix.mul_assoc L2, hL2, Matrix.smul_mul, Matrix.mul_smul,
      smul_smul, h2b, one_smul, Matrix.mul_assoc]
  have e4 : (2 * wr n kk) • (L2 * (l.C * L2)ᵀ) = Pm * l.Cᵀ := by
    rw [Matrix.transpose_mul, ← Matrix.mul_assoc L2, hL2, Matrix.smul_mul, smul_smul, h2b, one_smul]
  have e5 : l.R + l.C * Pm * l.Cᵀ = l.C * Pm * l.Cᵀ + l.R := add_comm _ _
  have hS := PosDef.isUnit_det' (innovCov_pd (C := l.C) hPmpsd hR)
  simp only [ukf, LinStep.toStep, affSys, MemoV.fn_of, MemoM.mfn_of', sigmaPoints_eq, mulVec_eq', vadd_eq,
    vsub_eq, wsum_affine _ _ hab, dev_map_affine, dev_sig, cov_devSig, madd_eq', ← hNdef, ← hL1def, e1, e2, ← hL2def,
    e3, e4, e5, hpinv _ hS, mmul_eq', msub_eq', transpose_eq', LinStep.kalman, kalman, kfStep]
  rw [← hPmdef]
  refine ⟨rfl, ?_⟩
  have hSsym : (l.C * Pm * l.Cᵀ + l.R)ᵀ = l.C * Pm * l.Cᵀ + l.R := (innovCov_pd (C := l.C) hPmpsd hR).isHermitian
  have hPsym : Pmᵀ = Pm := hPmpsd.isHermitian
  rw [Matrix.nonsing_inv_mul_cancel_right _ _ hS, Matrix.transpose_mul, Matrix.transpose_mul, Matrix.transpose_transpose,
    Matrix.transpose_nonsing_inv, hSsym, hPsym]
  simp only [Matrix.mul_assoc]
  rfl

/-- **Histories, UKF.** A run of any length of UKF calls on a (possibly time-varying) linear-Gaussian
system equals the Kalman filter run, for every `k > -n`; the covariance stays positive semidefinite, so
the square-root contract is applicable at every call. -/
theorem ukf_run_eq_kf_run (pinv : Mat ℝ p p → Mat ℝ p p)
    (hpinv : ∀ S : Matrix (Fin p) (Fin p) ℝ, IsUnit S.det → pinv S = S⁻¹)
    (msqrt : Matrix (Fin n) (Fin n) ℝ → Matrix (Fin n) (Fin n) ℝ)
    (hsqrt : ∀ M : Matrix (Fin n) (Fin n) ℝ, M.PosSemidef → msqrt M * (msqrt M)ᵀ = M)
    (kk : ℝ) (hk : -(n : ℝ) < kk)
    (steps : List (LinStep n m p)) (hs : ∀ l ∈ steps, l.ok) (b : Belief n) (hb : b.cov.PosSemidef) :
    (runUKF pinv msqrt kk (steps.map LinStep.toStep) ⟨b.mean, b.cov⟩).x = (kalmanRun steps b).mean ∧
    (runUKF pinv msqrt kk (steps.map LinStep.toStep) ⟨b.mean, b.cov⟩).P = (kalmanRun steps b).cov ∧
    (kalmanRun steps b).cov.PosSemidef := by
  induction steps generalizing b with
  | nil => exact ⟨rfl, rfl, hb⟩
  | cons l rest ih =>
    have hl : l.ok := hs l (by simp)
    have h1 := ukf_linear_eq_kf pinv hpinv msqrt hsqrt kk hk l hl b hb
    have hpost : ukf pinv msqrt kk l.toStep ⟨b.mean, b.cov⟩ = ⟨(l.kalman b).mean, (l.kalman b).cov⟩ := by
      rcases h : ukf pinv msqrt kk l.toStep ⟨b.mean, b.cov⟩ with ⟨x', P'⟩
      rw [h] at h1
      simp only at h1
      rw [h1.1, h1.2]
    have := ih (fun l' hl' => hs l' (by simp [hl'])) (l.kalman b) (l.kalman_cov_psd hl hb)
    simpa only [runUKF, kalmanRun, List.map_cons, List.foldl_cons, hpost] using this

end PP.Filter
