"""C09 — kernels match closed forms; correctors preserve the robust gradient and Hessian.

Model: lean/Pose/Model/Kernel.lean, lean/Pose/Model/Corrector.lean; theorems: lean/Proofs/Props/C09.lean.

Correspondence streams (implementation in /repo vs the Lean model run in 192-bit arithmetic)
  kernel    kernel(x) on tensors of every rank 0..3, both dtypes, x on per-kernel ladders (0, tiny, around the
            kernel's own scale, exactly delta^2 for Huber, huge) -> element-wise value, tolerance 64*eps*scale
  negative  tensors with one negative element somewhere (and -0.0 tensors, which are legal): raise vs `none`
  fast      FastTriggs(kernel)(R, J)  -> (R', J') element-wise
  triggs    Triggs(kernel)(R, J)      -> (R', J') element-wise, built-in kernels and user kernels with
            rho'' > 0, = 0, < 0 and mixed sign; zero rows, rows exactly at the Huber threshold
  select    GN / LM constructed with every form of kernel= / corrector= (None, module, list, tuple, None
            entries): loss value and the corrected system handed to the solver vs the model's selection
Oracles on the real code (the property's own statement, independent of the Lean model)
  closed form in mpmath (50 digits), rho(0)=0, finiteness, monotonicity, Huber value+slope continuity,
  negative input rejected, J'^T R' = sum rho' J^T R, J'^T J' = sum rho' J^T J + 2 rho'' J^T R R^T J on the mask,
  Triggs == FastTriggs elsewhere, 2 * (solver rhs) = autograd gradient of the loss the optimiser reports,
  inputs not mutated, shapes / dtypes preserved, same object called repeatedly (stale state).
"""
from __future__ import annotations

import math
import random

import mpmath as mp
import numpy as np
import torch
from torch import nn

from . import common
from .common import Ctx

mp.mp.dps = 50

META = {
    "rule": "kernel/negative: (7 kernels x parameter ladder x dtype x tensor rank 0..3), inputs from a per-kernel ladder "
            "(0, 1e-30.., multiples 0.9/0.99/0.999/1-2^-20/1-2^-50/1/1+2^-50/../1.1 of the kernel's own scale delta^2, "
            "1/delta^2, a, +-4 ulp of it, up to 1e12 x scale, plus delta*m for Huber), negative stream: one negative element "
            "(-5e-324 .. -1e6) at a random position, -0.0 tensors, clean tensors; fast/triggs: N = prod(batch shape 0..2 dims) "
            "items, d in 1..6, p in 1..4, item norms from a ladder 0..1e4 x kernel scale with zero rows and rows exactly at / "
            "one ulp around the Huber threshold, kernels = 7 built-ins (+ the float32 band a/|b| in 44..50 of Tolerant) + user "
            "polynomial kernels with rho''>0 / =0 (graph-dependent and graph-constant) / <0 / sign change inside the batch "
            "with 2x rho''/rho' from 1e-14 to 4, every corrector/kernel object is called repeatedly, half of the calls under "
            "no_grad; select: all forms of kernel=/corrector= (None, module, list, tuple, None entries, wrong lengths) for 1..3 "
            "residual tensors on GN and LM, two steps per optimiser. A case is non-trivial when it has a non-zero input; "
            "distinct by (stream, kernel, dtype, rank/shape, d, p, regime, number of masked items, quantised parameter). "
            "HARDENING: a deterministic, seed-independent corner corpus runs first (threshold / even / log-uniform sweeps over the "
            "whole overflow-free range x in [16*min_normal*max(1,delta^2), max/16*min(1,delta^2)], every negative value at every position "
            "class, one mixed-regime batch (zero/tiny/threshold+-8ulp/ordinary/large/maximal) per corrector x kernel x dtype x "
            "d in {1,3,6}, the full memory-layout x batch-rank x d matrix on one object, every syntactic form of kernel=/corrector=); "
            "history stream: one kernel/corrector object through 4-9 calls with dtype, batch rank/extents (incl. 0), d, p, grad mode "
            "and memory layout (contiguous, transposed, strided, slice of a buffer, expanded, R-is-J alias, in-place update of the "
            "tensors of the previous call) all varying; select: 3 steps per optimiser with targets, parameters and model constants "
            "updated in place between steps. PASS 3: ctor stream (every kernel x parameters on both sides of each documented constructor "
            "bound x dtype -> Spec.ctorOk / Spec.construct); Tolerant with a/|b| in {50(1+2^-40), 51, 64, 200, 700} and u on both sides of "
            "softplus' threshold 50 against the code-level model tolerantC; every optimiser step additionally against c09.step = the model's "
            "own lossTotal / stepJtR (selection glue, all residual tensors, flat layout inside the model). PASS 10: every GN step additionally "
            "against the model's stepJtJ (stacked J'^T J' vs the normal matrix A^T A of the system handed to the solver).",
    "trusted": ["torch autograd of the kernel's forward (rho', rho'') is an external contract: the model uses closed forms of "
                "rho', rho'' that are *proved* (HasDerivAt) to be the derivatives of the modelled forward; the fast/triggs "
                "streams compare the real autograd-based outputs against them on every run",
                "mpmath 50-digit closed forms (oracle side only; its derivative formulas are self-tested by numerical "
                "differentiation at start-up)",
                "the linear test model of the select stream (Jacobian known exactly) and a recording solver",
                "history / select-history oracles compare with a FRESH object on contiguous copies (16 eps) and with the call on one item alone"],
    "assumptions": ["kernel parameters satisfy the constructors' asserts (delta > 0, a > 0, b < 0) and a/|b| <= 50; Arctan: delta != 0",
                    "corrector theorems: rho' >= 0 (FastTriggs) resp. rho' > 0 (Triggs) on [0, inf); rho'' arbitrary",
                    "user kernels act element-wise (the model's rho is a function of one item's squared norm)",
                    "input domain = every intermediate of the documented formula (x/delta^2, (x/delta^2)^2 for Arctan, 1/delta^2 + x, "
                    "|R_i|^2) is finite and normal in the dtype; beyond it the float code overflows / goes subnormal (e.g. "
                    "PseudoHuber(1e-6)(1e37) = inf in float32) — representability, like rounding, is not modelled; rho' below the "
                    "subnormal spacing / delta^2 is compared with that absolute floor"],
    "partial": ["IEEE rounding is not modelled: the theorems are over the reals; the float clauses (closed form, rho(0)=0, "
                "monotone, finite, both corrector identities) are *measured* on the generated inputs at 64*eps*scale, scale = "
                "largest intermediate magnitude of the documented formula (x (|u|+1) for Tolerant's exp, x4 for the user "
                "polynomials, plus the absolute error eps(1+|alpha|) of alpha = 1 - sqrt(1+t))",
                "the kernel/corrector plumbing of GN/LM (__init__, RobustModel.loss, corrector index in step) is modelled and "
                "proved consistent, but tied to optimizer.py by sampling only (select stream)",
                "'finite' is decided on floats by the harness (kernel-finite / corrector-finite oracles on the overflow-free input domain); "
                "over the reals the model can only state that a value is returned (kernels_return_value)",
                "step_direction_is_total_loss_gradient covers the DENSE, UNWEIGHTED path with kernel= given and corrector=None only. "
                "Outside C09's quantifier and not covered: weight= (RobustModel.loss ignores the weight, so the direction J'^T W R' is the "
                "gradient of the reported loss only for W = I; modelled as JtWR with fastTriggs_weighted_grad / scalar_weight_direction; the "
                "harness exercises scalar weights w*I, divides them out of the GN system and skips the descent-direction oracle when w != 1), "
                "LM's sparse=True branch (correctors never applied; needs the optional bae backend, not exercised), user-supplied correctors "
                "(item-level theorems + select-index oracle)",
                "Arctan has no constructor check: delta = 0 is accepted by the code and yields NaN at x = 0; the documented formula divides "
                "by delta^2, so delta = 0 is outside the documented domain (theorems carry delta != 0; not exercised)"],
}

BUILTIN = ["huber", "pseudohuber", "cauchy", "softlone", "arctan", "tolerant", "scale"]
CLS = {"huber": "Huber", "pseudohuber": "PseudoHuber", "cauchy": "Cauchy", "softlone": "SoftLOne",
       "arctan": "Arctan", "tolerant": "Tolerant", "scale": "Scale"}
DT = {"float64": torch.float64, "float32": torch.float32, "float16": torch.float16, "bfloat16": torch.bfloat16}
TINY = {"float64": 2.0 ** -1020, "float32": 2.0 ** -124, "float16": 2.0 ** -22, "bfloat16": 2.0 ** -124}
# machine epsilons; for the two 16-bit formats a quarter of it, so that the framework's 64*eps is 16 ulp there (DESIGN: never
# tighter than 16 ulp — 64 ulp of bfloat16 would be 50 %)
EPSD = {"float64": 2.0 ** -52, "float32": 2.0 ** -23, "float16": 2.0 ** -12, "bfloat16": 2.0 ** -9}
HALVES = ("float16", "bfloat16")
TOLK = 64.0


def wf(tok: str) -> float:
    """`m:e` token -> nearest double (model values are only needed to ~1e-16 relative; exponents of the
    192-bit results can be astronomically negative, e.g. exp(-1e9), so no exact Fractions here)"""
    m, e = tok.split(":")
    m, e = int(m), int(e)
    if m == 0:
        return 0.0
    sh = m.bit_length() - 64
    if sh > 0:
        m >>= sh
        e += sh
    if e > 2000:
        return math.copysign(math.inf, m)
    if e < -2300:
        return math.copysign(0.0, m)
    try:
        return math.ldexp(float(m), e)
    except OverflowError:
        return math.copysign(math.inf, m)


def reply_floats(rep: str):
    st, toks = common.parse_reply(rep)
    if st != "ok":
        raise common.InfraError(f"model error reply: {rep[:200]}")
    return [wf(t) for t in toks]


def within(a, b, tol) -> bool:
    """|a - b| <= tol with the right NaN polarity (lesson 38): a NaN on either side is NOT within tolerance; equal infinities are"""
    if a == b:
        return True
    return bool(abs(a - b) <= tol)


def all_within(diff, tol) -> bool:
    """array version: every |diff| <= tol; NaN anywhere (in diff or tol) gives False"""
    return bool((diff <= tol).all())


def ppk():
    import pypose.optim.kernel as K
    return K


def ppc():
    import pypose.optim.corrector as C
    return C


class PolyKernel(nn.Module):
    """user-defined kernel rho(x) = c1 x + c2 x^2 + c3 x^3 (no assertion)"""

    def __init__(self, c1, c2, c3):
        super().__init__()
        self.vfh09_c = (c1, c2, c3)
        self.vfh09_armed = False

    def forward(self, input):
        if getattr(self, "vfh09_armed", False):
            raise RuntimeError("user kernel callback raises (armed by the harness)")
        x = input
        c1, c2, c3 = self.vfh09_c
        return c1 * x + c2 * (x * x) + c3 * (x * x * x)


class LinKernel(nn.Module):
    """user-defined kernel rho(x) = c x whose rho' does not depend on x in the autograd graph (like Scale, Trivial)"""

    def __init__(self, c):
        super().__init__()
        self.vfh09_c = c
        self.vfh09_armed = False

    def forward(self, input):
        if getattr(self, "vfh09_armed", False):
            raise RuntimeError("user kernel callback raises (armed by the harness)")
        return self.vfh09_c * input


USER_FORMS = ["module", "sub:Scale", "sub:Huber", "sub:Cauchy", "sub:Tolerant", "sub:PseudoHuber", "sub:SoftLOne", "sub:Arctan",
              "sub:PolyKernel", "lambda", "callable"]


def user_kernel(form, c):
    """the SAME user function rho(x) = c1 x + c2 x^2 + c3 x^3 in every shape a user may give it (lesson 21): a plain
    nn.Module, a class DERIVED from a shipped kernel (constructed with valid base parameters) that overrides forward, a
    subclass of a user class, a lambda, a callable object — dispatch by isinstance / class identity must not matter"""
    c1, c2, c3 = c

    def rho(x):
        return c1 * x + c2 * (x * x) + c3 * (x * x * x)

    if form in (None, "module"):
        return PolyKernel(*c)
    if form == "lambda":
        return lambda x: c1 * x + c2 * (x * x) + c3 * (x * x * x)
    if form == "callable":
        class Callable:
            def __call__(self, input):
                return rho(input)
        return Callable()
    base = form.split(":", 1)[1]
    Base = PolyKernel if base == "PolyKernel" else getattr(ppk(), base)

    class UserKernel(Base):
        def __init__(self):
            if base == "PolyKernel":
                Base.__init__(self, 9.0, 9.0, 9.0)
            elif base == "Tolerant":
                Base.__init__(self, 1.0, -1.0)
            else:
                Base.__init__(self, 1.0)
            self.vfh09_armed = False

        def forward(self, input):
            if getattr(self, "vfh09_armed", False):
                raise RuntimeError("user kernel callback raises (armed by the harness)")
            return rho(input)

    UserKernel.__name__ = f"User{base}"
    return UserKernel()


class RetKernel(nn.Module):
    """user kernel rho(x) = x that RETURNS ITS ARGUMENT (or a view of it) — lesson 31: nobody may write into what it returned"""

    def __init__(self, how):
        super().__init__()
        self.vfh09_how = how
        self.vfh09_armed = False

    def forward(self, input):
        if self.vfh09_armed:
            raise RuntimeError("user kernel callback raises (armed by the harness)")
        return input if self.vfh09_how == "ret-input" else input[...]


PROP_ATTRS = {"huber": ("delta", "delta2"), "pseudohuber": ("delta2",), "cauchy": ("delta2",), "softlone": ("delta1", "delta2"),
              "arctan": ("delta2",), "tolerant": ("a", "b"), "scale": ("delta",)}


def prop_kernel(kind, p):
    """lesson 33: a user subclass of a shipped kernel whose PARAMETERS are properties computed from private state (`_p`, which the
    caller may change between calls); the inherited forward must read them through the public names every time"""
    Base = getattr(ppk(), CLS[kind])

    def getter(name):
        if name in ("delta", "delta1", "a"):
            return lambda self: self.vfh09_p[0]
        if name == "delta2":
            return lambda self: self.vfh09_p[0] ** 2
        return lambda self: self.vfh09_p[1]           # b

    body = {name: property(getter(name)) for name in PROP_ATTRS[kind]}

    def __init__(self, *params):
        nn.Module.__init__(self)
        self.vfh09_p = list(params)
    body["__init__"] = __init__
    Cls_ = type(f"Prop{CLS[kind]}", (Base,), body)
    return Cls_(*(p[:2] if kind == "tolerant" else p[:1]))


def build_kernel(spec):
    k, p = spec["kind"], spec["p"]
    if k == "poly" and spec.get("form") in ("ret-input", "ret-view"):
        return RetKernel(spec["form"])
    if k == "poly":
        return LinKernel(p[0]) if spec.get("affine") else user_kernel(spec.get("form"), p)
    if spec.get("default"):          # every optional argument OMITTED (lesson 29): documented defaults delta = 1, a = 1, b = -1
        return getattr(ppk(), CLS[k])()
    if spec.get("prop"):
        return prop_kernel(k, p)
    K = ppk()
    if k == "tolerant":
        return K.Tolerant(a=p[0], b=p[1]) if spec.get("kwargs") else K.Tolerant(p[0], p[1])
    d = int(p[0]) if spec.get("int") and float(p[0]).is_integer() else p[0]          # python int where a float is usual
    return getattr(K, CLS[k])(delta=d) if spec.get("kwargs") else getattr(K, CLS[k])(d)


def spec_wire(spec):
    return f"{spec['kind']} " + common.wire_list(spec["p"])


# ----------------------------------------------------------------------------- mpmath closed forms (oracle)

def mp_val(spec, x):
    k = spec["kind"]
    p = [mp.mpf(v) for v in spec["p"]]
    x = mp.mpf(x)
    d = p[0]
    if k == "huber":
        return x if mp.sqrt(x) < d else 2 * d * mp.sqrt(x) - d * d
    if k == "pseudohuber":
        return 2 * d * d * (mp.sqrt(1 + x / (d * d)) - 1)
    if k == "cauchy":
        return d * d * mp.log(1 + x / (d * d))
    if k == "softlone":
        return 2 * (d * mp.sqrt(1 / (d * d) + x) - 1)
    if k == "arctan":
        return d * d * mp.atan(x / (d * d))
    if k == "tolerant":
        a, b = p[0], p[1]
        return b * mp.log(1 + mp.exp((x - a) / b)) - b * mp.log(1 + mp.exp(-a / b))
    if k == "scale":
        return d * x
    if k == "poly":
        return p[0] * x + p[1] * x * x + p[2] * x * x * x
    raise ValueError(k)


def mp_d1(spec, x):
    k = spec["kind"]
    p = [mp.mpf(v) for v in spec["p"]]
    x = mp.mpf(x)
    d = p[0]
    if k == "huber":
        return mp.mpf(1) if mp.sqrt(x) < d else d / mp.sqrt(x)
    if k == "pseudohuber":
        return 1 / mp.sqrt(1 + x / (d * d))
    if k == "cauchy":
        return 1 / (1 + x / (d * d))
    if k == "softlone":
        return d / mp.sqrt(1 / (d * d) + x)
    if k == "arctan":
        return 1 / (1 + (x / (d * d)) ** 2)
    if k == "tolerant":
        a, b = p[0], p[1]
        e = mp.exp((x - a) / b)
        return e / (1 + e)
    if k == "scale":
        return d
    if k == "poly":
        return p[0] + 2 * p[1] * x + 3 * p[2] * x * x
    raise ValueError(k)


def mp_d2(spec, x):
    k = spec["kind"]
    p = [mp.mpf(v) for v in spec["p"]]
    x = mp.mpf(x)
    d = p[0]
    if k == "huber":
        return mp.mpf(0) if mp.sqrt(x) < d else -d / (2 * x * mp.sqrt(x))
    if k == "pseudohuber":
        u = 1 + x / (d * d)
        return -1 / (2 * d * d * u * mp.sqrt(u))
    if k == "cauchy":
        u = 1 + x / (d * d)
        return -1 / (d * d * u * u)
    if k == "softlone":
        u = 1 / (d * d) + x
        return -d / (2 * u * mp.sqrt(u))
    if k == "arctan":
        w = x / (d * d)
        return -2 * w / (d * d * (1 + w * w) ** 2)
    if k == "tolerant":
        a, b = p[0], p[1]
        e = mp.exp((x - a) / b)
        return e / (b * (1 + e) ** 2)
    if k == "scale":
        return mp.mpf(0)
    if k == "poly":
        return 2 * p[1] + 6 * p[2] * x
    raise ValueError(k)


_selfchecked = False


def oracle_selftest():
    """the hand-written derivative formulas of the oracle agree with numerical differentiation of the
    documented closed form (generic points, away from Huber's kink) — tool problem otherwise"""
    global _selfchecked
    if _selfchecked:
        return
    for spec in [{"kind": "huber", "p": [0.7, 0, 0]}, {"kind": "pseudohuber", "p": [0.7, 0, 0]},
                 {"kind": "cauchy", "p": [1.3, 0, 0]}, {"kind": "softlone", "p": [0.6, 0, 0]},
                 {"kind": "arctan", "p": [1.1, 0, 0]}, {"kind": "tolerant", "p": [1.5, -0.4, 0]},
                 {"kind": "scale", "p": [0.3, 0, 0]}, {"kind": "poly", "p": [1.0, -0.2, 0.05]}]:
        for x in (0.11, 0.9, 3.7):
            n1 = mp.diff(lambda t: mp_val(spec, t), x)
            n2 = mp.diff(lambda t: mp_d1(spec, t), x)
            if abs(n1 - mp_d1(spec, x)) > mp.mpf(10) ** -25 or abs(n2 - mp_d2(spec, x)) > mp.mpf(10) ** -25:
                raise common.InfraError(f"oracle self-test failed for {spec} at {x}")
    _selfchecked = True


def val_scale(spec, x: float) -> float:
    """largest intermediate magnitude of the documented formula at x (for the 64*eps*scale tolerance)"""
    k, p = spec["kind"], spec["p"]
    d = p[0]
    if k == "huber":
        up = 2 * d * math.sqrt(x) + d * d
        s = math.sqrt(x)
        if s < d * (1 - 1e-6):
            return x
        if s > d * (1 + 1e-6):
            return up
        return max(x, up)
    if k == "pseudohuber":
        return 2 * d * d * (math.sqrt(1 + x / (d * d)) + 1)
    if k == "cauchy":
        return d * d * (1 + math.log1p(x / (d * d)))
    if k == "softlone":
        return 2 * (d * math.sqrt(1 / (d * d) + x) + 1)
    if k == "arctan":
        return d * d * math.atan(x / (d * d))
    if k == "tolerant":
        a, b = p[0], p[1]
        u = (x - a) / b
        lt = u + math.log1p(math.exp(-u)) if u > 0 else math.log1p(math.exp(u))
        off = abs(b) * (a / abs(b) + math.log1p(math.exp(-a / abs(b))))
        sig = 1.0 / (1.0 + math.exp(-u)) if u > -700 else 0.0
        # rounding of (x - a) moves the result by sigma(u) * eps * max(x, a) only (sigma -> 0 far out)
        return sig * max(x, a) + abs(b) * (1 + lt) + off
    if k == "scale":
        return d * x
    if k == "poly":
        return abs(p[0] * x) + abs(p[1] * x * x) + abs(p[2] * x ** 3)
    raise ValueError(k)


# ----------------------------------------------------------------------------- parameter / input generation

def gen_spec(rng: random.Random, kind: str):
    if kind == "tolerant":
        a = rng.choice([1.0, 0.5, 5.0, 50.0, 0.02, math.exp(rng.uniform(-3, 3))])
        ratio = rng.choice([0.01, 0.5, 1.0, 5.0, 20.0, 50.0, rng.uniform(0.1, 50.0)])
        return {"kind": kind, "p": [a, -a / ratio, 0.0]}
    if kind == "scale":
        return {"kind": kind, "p": [rng.choice([1.0, 0.5, 0.1, 1e-3, rng.uniform(0.01, 1.0)]), 0.0, 0.0]}
    if kind == "poly":
        return {"kind": kind, "p": [1.0, 0.0, 0.0]}
    d = rng.choice([1.0, 0.5, 2.0, 0.1, 3.7, 1e-3, 30.0, 1e-6, 1e6, math.exp(rng.uniform(-4, 4))])
    return {"kind": kind, "p": [d, 0.0, 0.0]}


def own_scale(spec) -> float:
    k, p = spec["kind"], spec["p"]
    if k in ("huber", "pseudohuber", "cauchy", "arctan"):
        return p[0] * p[0]
    if k == "softlone":
        return 1.0 / (p[0] * p[0])
    if k == "tolerant":
        return p[0]
    return 1.0


MULT = [0.0, 1e-30, 1e-12, 1e-6, 1e-3, 0.1, 0.25, 0.5, 0.9, 0.99, 0.999, 1 - 2.0 ** -20, 1 - 2.0 ** -50, 1.0, 1 + 2.0 ** -50,
        1 + 2.0 ** -20, 1.001, 1.01, 1.1, 2.0, 4.0, 10.0, 1e3, 1e6, 1e12, 1e20]
XMAX = {"float64": 1e300, "float32": 1e37, "float16": 6e4, "bfloat16": 1e37}        # "all non-negative input": up to just below overflow


def x_cap(spec, dtn) -> float:
    """largest input for which every intermediate of the documented formula and of its first derivative is finite in
    the dtype (x/delta^2, (x/delta^2)^2 for Arctan, 1/delta^2 + x): the domain of "all non-negative input" here;
    beyond it the float code overflows (not modelled, like rounding)"""
    big = XMAX[dtn] / 16
    k, p = spec["kind"], spec["p"]
    if k in ("pseudohuber", "cauchy"):
        return min(big, big * p[0] * p[0])
    if k == "arctan":
        return min(big, math.sqrt(big) * p[0] * p[0])
    if k == "huber":
        return min(big, big ** (2.0 / 3.0))
    if k == "poly":
        return big ** 0.3           # x^3 of the user polynomial stays finite
    return big


MINNORMAL = {"float64": 2.0 ** -1022, "float32": 2.0 ** -126, "float16": 2.0 ** -14, "bfloat16": 2.0 ** -126}


def x_floor(spec, dtn) -> float:
    """smallest positive input whose quotient x / delta^2 is still a normal number of the dtype (below, the quotient is
    subnormal and loses relative precision before any formula is applied — representability, not modelled)"""
    k, p = spec["kind"], spec["p"]
    c = p[0] * p[0] if k in ("pseudohuber", "cauchy", "arctan") else 1.0
    return 16 * MINNORMAL[dtn] * max(1.0, c)


def sweep_mults(dtn, s0):
    """s0 * (1 +- 2^-k), k = 1 .. mantissa bits, plus s0 itself"""
    bits = 23 if dtn == "float32" else 52
    out = [s0]
    for k in range(1, bits + 1):
        out += [s0 * (1 + 2.0 ** -k), s0 * (1 - 2.0 ** -k)]
    return out


def lin_sweep(spec):
    """evenly spaced inputs across the kernel's whole working range: x = s0 * j/8, j = 0..80; Tolerant (a/|b| = 50
    in these cases): u = (x-a)/b from 50 down to -60 in steps of 1/2"""
    if spec["kind"] == "tolerant":
        a, b = spec["p"][0], spec["p"][1]
        return [max(0.0, a + abs(b) * (t / 2.0)) for t in range(-100, 121)]
    s0 = own_scale(spec)
    return [s0 * j / 8.0 for j in range(0, 81)]


def log_sweep(spec, dtn):
    """log-uniform sweep over the whole dynamic range: s0 * 10^(k/2), k = -40..40 (capped at the overflow-free maximum)"""
    s0, cap = own_scale(spec), x_cap(spec, dtn)
    lo = 1e-30 if dtn == "float32" else 1e-280
    return [min(max(s0 * 10.0 ** (k / 2.0), lo), cap) for k in range(-40, 41)]


def kernel_inputs(case):
    """deterministic tensor of non-negative inputs for a kernel case"""
    rng = random.Random(case["data_seed"])
    spec, dtn = case["spec"], case["dtype"]
    n = int(math.prod(case["shape"]))
    s0 = own_scale(spec)
    eps = EPSD[dtn]
    if case.get("vals") is not None:
        return torch.tensor(case["vals"]).to(DT[dtn]) if dtn in DT else torch.tensor(case["vals"], dtype=getattr(torch, dtn))
    if case.get("usweep"):
        # Tolerant: u = (x - a)/b on both sides of softplus' threshold 50, geometrically, up to u(0) = a/|b|
        a_, b_ = spec["p"][0], spec["p"][1]
        us = [a_ / abs(b_), 0.0, 25.0, 49.0, 50.0, 51.0, 60.0, 100.0, 300.0] + [50.0 * (1 + sg * 2.0 ** -k) for k in range(1, 40) for sg in (1, -1)]
        return torch.tensor([max(0.0, a_ - abs(b_) * u) for u in us if u <= a_ / abs(b_)], dtype=DT[dtn])
    if case.get("linsweep"):
        return torch.tensor(lin_sweep(spec), dtype=DT[dtn])
    if case.get("logsweep"):
        return torch.tensor(log_sweep(spec, dtn), dtype=DT[dtn])
    if case.get("sweep"):
        # geometric sweep of the distance to the kernel's own scale (Huber: its branch point), both sides
        return torch.tensor(sweep_mults(dtn, s0), dtype=DT[dtn])
    vals = []
    for _ in range(n):
        c = rng.random()
        if c < 0.5:
            vals.append(s0 * rng.choice(MULT))
        elif c < 0.6:
            vals.append(spec["p"][0] * rng.choice(MULT) if spec["kind"] != "tolerant" else abs(spec["p"][1]) * rng.choice(MULT))
        elif c < 0.7:
            vals.append(s0 * (1 + rng.choice([-4, -2, -1, 1, 2, 4]) * eps))
        elif c < 0.85:
            vals.append(rng.choice(common.ladder(eps)))
        elif c < 0.97:
            vals.append(math.exp(rng.uniform(-12, 12)))
        else:
            vals.append(XMAX[dtn] * rng.choice([1.0, 1e-3, 1e-10]))
    vals = [min(v, x_cap(spec, dtn)) for v in vals]
    vals = [v if (v == 0.0 or v >= x_floor(spec, dtn)) else x_floor(spec, dtn) for v in vals]
    if n and case.get("with_zero", True):
        vals[rng.randrange(n)] = 0.0
    if n > 1 and spec["kind"] == "huber":
        vals[rng.randrange(n)] = s0          # exactly delta^2 (as computed by delta**2)
    return torch.tensor(vals, dtype=DT[dtn]).reshape(case["shape"])


def small_shape(rng, maxrank=3, ext=(1, 2, 3, 4)):
    return [rng.choice(ext) for _ in range(rng.randint(0, maxrank))]


# ----------------------------------------------------------------------------- kernel stream

def check_kernel(ctx: Ctx, case, kobj=None):
    """runs the real kernel on the case, applies the oracles; returns (x, y) or None if it raised"""
    spec, dtn = case["spec"], case["dtype"]
    eps = EPSD[dtn]
    x = kernel_inputs(case)
    kobj = kobj if kobj is not None else build_kernel(spec)
    mon = common.PurityMonitor()
    try:
        y = mon.call("kernel", kobj, x)
    except Exception as e:
        ctx.fail(case, f"kernel-raises: {spec['kind']} raises on non-negative input: {type(e).__name__}: {str(e)[:100]}")
        return None
    if mon.mutations:
        ctx.fail(case, f"kernel-mutates: {spec['kind']} changed its input tensor")
    if tuple(y.shape) != tuple(x.shape) or y.dtype != x.dtype:
        ctx.fail(case, f"kernel-shape: {spec['kind']} returned shape {tuple(y.shape)} dtype {y.dtype} for input {tuple(x.shape)} {x.dtype}")
        return None
    if case.get("outside_domain"):
        return x, y          # a/|b| > 50: outside the property's quantifier — only model (= code, softplus branch) vs implementation
    if not kernel_value_oracle(ctx, case, spec, dtn, x, y):
        return None
    return x, y


def kernel_value_oracle(ctx, case, spec, dtn, x, y):
    """documented closed form (mpmath), rho(0) = 0, finite, non-decreasing — on the real output y = kernel(x)"""
    eps = EPSD[dtn]
    xs = x.detach().flatten().double().tolist()
    ys = y.detach().flatten().double().tolist()
    bad = None
    for j, (xv, yv) in enumerate(zip(xs, ys)):
        if not math.isfinite(yv):
            ctx.fail(case, f"kernel-finite: {spec['kind']}{spec['p']} ({dtn}) gives {yv} at x={xv!r}")
            return False
        want = mp_val(spec, xv)
        tol = TOLK * eps * val_scale(spec, xv) + 4 * TINY[dtn]
        if not (abs(mp.mpf(yv) - want) <= tol) and bad is None:
            bad = (j, xv, yv, float(want), tol)
    if bad:
        j, xv, yv, w, tol = bad
        what = "kernel-zero" if xv == 0.0 else "kernel-closed-form"
        ctx.fail(case, f"{what}: {spec['kind']}{spec['p']} ({dtn}) at x={xv!r}: got {yv!r}, closed form {w!r}, |diff|={abs(yv - w):.3e} > {tol:.3e}")
    # non-decreasing (up to the tolerance of the larger argument)
    order = sorted(range(len(xs)), key=lambda j: xs[j])
    for a, b in zip(order, order[1:]):
        tol = TOLK * eps * max(val_scale(spec, xs[a]), val_scale(spec, xs[b])) + 4 * TINY[dtn]
        if not (ys[b] >= ys[a] - tol):
            ctx.fail(case, f"kernel-monotone: {spec['kind']}{spec['p']} ({dtn}): rho({xs[a]!r})={ys[a]!r} > rho({xs[b]!r})={ys[b]!r}")
            break
    return True


def compare_kernel(ctx, case, x, y, rep):
    spec, dtn = case["spec"], case["dtype"]
    eps = EPSD[dtn]
    st, toks = common.parse_reply(rep)
    if st != "ok":
        ctx.disagree("kernel", case, f"model rejects ({toks}) a non-negative input the implementation accepts")
        return
    want = [wf(t) for t in toks]
    xs = x.flatten().double().tolist()
    ys = y.detach().flatten().double().tolist()
    if len(want) != len(ys):
        raise common.InfraError("kernel reply length")
    for xv, yv, w in zip(xs, ys, want):
        tol = TOLK * eps * val_scale(spec, xv) + 4 * TINY[dtn]
        if not math.isfinite(yv) and math.isfinite(w):
            # finiteness BEFORE any tolerance comparison (lesson 38): the model's value is finite, so NaN / inf is not the specified result
            ctx.fail(case, f"non-finite result: {spec['kind']}{spec['p']} ({dtn}) returns {yv} at the finite valid input x={xv!r} (model {float(w)!r})")
            return
        if not within(yv, float(w), tol):
            ctx.disagree("kernel", case, f"{spec['kind']}{spec['p']} ({dtn}) x={xv!r}: implementation {yv!r} model {float(w)!r} tol {tol:.3e}")
            return


def kernel_line(case, x):
    return "c09.kernel " + spec_wire(case["spec"]) + " " + common.wire_list(x.flatten().double().tolist())


def huber_threshold_oracle(ctx, case):
    """value and slope of the real Huber on both sides of and exactly at delta^2 (autograd slope)"""
    d, dtn = case["spec"]["p"][0], case["dtype"]
    eps = EPSD[dtn]
    kobj = build_kernel(case["spec"])
    t = torch.tensor(d * d, dtype=DT[dtn])
    pts = [t]
    lo, hi = t, t
    for _ in range(3):
        lo = torch.nextafter(lo, torch.zeros_like(lo))
        hi = torch.nextafter(hi, hi * 2)
        pts += [lo, hi]
    x = torch.stack(pts).requires_grad_(True)
    y = kobj(x)
    g, = torch.autograd.grad(y.sum(), x)
    d2 = d * d
    for xv, yv, gv in zip(x.detach().double().tolist(), y.detach().double().tolist(), g.double().tolist()):
        if not (abs(yv - d2) <= TOLK * eps * 3 * d2):          # (NaN must fail: `not <=`)
            ctx.fail(case, f"huber-continuity: value jumps at the threshold: delta={d!r} ({dtn}) x={xv!r} rho={yv!r} delta^2={d2!r}")
            return
        if not (abs(gv - 1.0) <= TOLK * eps):
            ctx.fail(case, f"huber-slope: slope jumps at the threshold: delta={d!r} ({dtn}) x={xv!r} rho'={gv!r}")
            return


def run_kernel(ctx: Ctx, cases):
    lines, metas = [], []
    pool = {}
    for case in cases:
        key = (case["spec"]["kind"], tuple(case["spec"]["p"]))
        kobj = pool.setdefault(key, build_kernel(case["spec"]))   # the same object serves many calls
        res = guard(ctx, case, lambda: check_kernel(ctx, case, kobj))
        spec = case["spec"]
        ctx.note_case(("kernel", spec["kind"], common.sig_mag(own_scale(spec)), case["dtype"], len(case["shape"]),
                       case["data_seed"] % 7), True)
        ctx.count(f"kernel.{spec['kind']}.{case['dtype']}")
        ctx.count(f"kernel.rank{len(case['shape'])}")
        if spec["kind"] == "huber" and case["dtype"] not in HALVES:
            guard(ctx, case, lambda: huber_threshold_oracle(ctx, case))
        if res is None:
            continue
        x, y = res
        if x.numel() == 0:
            continue
        lines.append(kernel_line(case, x))
        metas.append((case, x, y))
        ctx.sample({"stream": "kernel", **case, "x": x.flatten().tolist()[:6], "y": y.flatten().tolist()[:6]}, cap=4)
    reps = ctx.driver.run(lines)
    for rep, (case, x, y) in zip(reps, metas):
        compare_kernel(ctx, case, x, y, rep)


# ----------------------------------------------------------------------------- negative stream

NEG = [-1.0, -1e-300, -5e-324, -1e-30, -0.5, -1e6, -2.0 ** -60]


def negative_inputs(case):
    rng = random.Random(case["data_seed"])
    dtn = case["dtype"]
    n = max(1, int(math.prod(case["shape"])))
    s0 = own_scale(case["spec"])
    vals = [s0 * rng.choice(MULT[:22]) for _ in range(n)]
    mode = case["mode"]
    if mode == "neg":
        v = rng.choice(NEG) if rng.random() < 0.7 else -s0 * rng.choice(MULT[1:20])
        t = torch.tensor([v], dtype=DT[dtn])
        if float(t[0]) == 0.0:          # underflow to -0.0 in float32: not a negative number
            v = -1e-30
        vals[rng.randrange(n)] = v
    elif mode == "negzero":
        vals[rng.randrange(n)] = -0.0
    return torch.tensor(vals, dtype=DT[dtn]).reshape(case["shape"] if case["shape"] else [])


def check_negative(ctx: Ctx, case, kobj=None):
    spec = case["spec"]
    x = negative_inputs(case)
    kobj = kobj if kobj is not None else build_kernel(spec)
    has_neg = bool((x < 0).any())
    try:
        y = kobj(x)
        raised = None
    except Exception as e:
        raised = type(e).__name__
        y = None
    if has_neg and raised is None:
        ctx.fail(case, f"negative-accepted: {spec['kind']}{spec['p']} accepts input with min {float(x.min())!r} (returns {y.flatten().tolist()[:4]})")
    if not has_neg and raised is not None:
        ctx.fail(case, f"nonnegative-rejected: {spec['kind']}{spec['p']} raises {raised} on input without negative element (min {float(x.min())!r})")
    return x, raised


def run_negative(ctx: Ctx, cases):
    lines, metas = [], []
    for case in cases:
        x, raised = check_negative(ctx, case)
        ctx.note_case(("negative", case["spec"]["kind"], case["mode"], case["dtype"], len(case["shape"]),
                       case["data_seed"] % 5), True)
        ctx.count(f"negative.{case['mode']}.{raised or 'accepted'}")
        lines.append(kernel_line(case, x))
        metas.append((case, raised))
    reps = ctx.driver.run(lines)
    for rep, (case, raised) in zip(reps, metas):
        st, toks = common.parse_reply(rep)
        if st == "err" and toks != "negative":
            raise common.InfraError(f"driver: {rep}")
        if (st == "err") != (raised is not None):
            ctx.disagree("negative", case, f"{case['spec']['kind']}: implementation {'raises ' + raised if raised else 'accepts'}, model {'rejects' if st == 'err' else 'accepts'}")


# ----------------------------------------------------------------------------- corrector streams

NORMS = [0.0, 0.0, 1e-160, 1e-30, 1e-8, 1e-3, 0.03, 0.3, 0.7, 1.0, 1.0, 1.5, 3.0, 10.0, 100.0, 1e4, 1e9, 1e60]


REGIMES = ["zero", "tiny", "below", "threshold", "above", "ordinary", "large", "huge"]


def regime_batch(case):
    """one batch with one item of every regime of the kernel (zero / tiny / just below, exactly at, just above the
    kernel's own scale / ordinary / large / largest overflow-free), in an order fixed by the data seed"""
    rng = random.Random(case["data_seed"])
    dtn, d, p, spec = case["dtype"], case["d"], case["p"], case["spec"]
    s0 = math.sqrt(own_scale(spec)) if spec["kind"] != "poly" else 1.0
    cap = 0.5 * math.sqrt(x_cap(spec, dtn) / d) if spec["kind"] != "poly" else 30.0
    if dtn == "float32":
        cap = min(cap, 1e17)
    else:
        cap = min(cap, 1e140)
    eps = EPSD[dtn]
    norm = {"zero": 0.0, "tiny": 1e-15 if dtn == "float32" else 1e-150, "below": s0 * (1 - 8 * eps), "threshold": s0, "above": s0 * (1 + 8 * eps),
            "ordinary": s0 * 0.37, "large": min(s0 * 1e3, cap), "huge": cap}
    if spec["kind"] == "poly":
        norm.update({"tiny": 1e-6, "large": 10.0, "huge": 30.0})
    order = REGIMES[:]
    rng.shuffle(order)
    order = (order * ((case["nitems"] + 7) // 8))[:case["nitems"]]
    rows = []
    for rg in order:
        if rg in ("below", "threshold", "above"):
            row = [0.0] * d
            row[rng.randrange(d)] = norm[rg] * rng.choice([1.0, -1.0])
        else:
            row = [norm[rg] * v for v in common.rand_dir(rng, d)]
        rows.append(row)
    R = torch.tensor(rows, dtype=DT[dtn]).reshape(list(case["batch"]) + [d])
    J = torch.tensor([[rng.gauss(0, 1) * rng.choice([1.0, 1.0, 0.0, 1e-4, 50.0]) for _ in range(p)] for _ in range(len(rows) * d)],
                     dtype=DT[dtn]).reshape(len(rows) * d, p)
    return R, J


def corrector_data(case):
    """deterministic (R, J) for a corrector case: R shape batch+(d,), J shape (N*d, p)"""
    rng = random.Random(case["data_seed"])
    dtn, d, p = case["dtype"], case["d"], case["p"]
    N = int(math.prod(case["batch"]))
    spec = case["spec"]
    s0 = math.sqrt(own_scale(spec)) if spec["kind"] != "poly" else case.get("xref", 1.0) ** 0.5
    rows = []
    if case.get("rows"):
        rows_ = case["rows"]
        R_ = torch.tensor(rows_, dtype=DT[dtn]).reshape(list(case["batch"]) + [d])
        J_ = torch.tensor([[rng.gauss(0, 1) for _ in range(p)] for _ in range(len(rows_) * d)], dtype=DT[dtn]).reshape(len(rows_) * d, p)
        return R_, J_
    if case.get("regimes"):
        return regime_batch(case)
    sw = sweep_mults(dtn, 1.0) if case.get("sweep") else None
    if case.get("linsweep"):
        sw = [v / own_scale(spec) for v in lin_sweep(spec)]
    if case.get("logsweep"):
        capn = (0.5 * math.sqrt(x_cap(spec, dtn) / d)) ** 2
        sw = [min(v, capn) / own_scale(spec) for v in log_sweep(spec, dtn)]
    for i in range(N):
        c = rng.random()
        nv = rng.choice(NORMS) * (s0 if rng.random() < 0.7 else 1.0)
        if sw is not None:
            c, nv = 1.0, s0 * math.sqrt(sw[(i + case.get("sweep_off", 0)) % len(sw)])
        if nv != 0.0:
            # |R_i|^2 must stay finite in the dtype (d <= 6 components): "all residual tensors" up to there
            nv = min(max(nv, 1e-15), 1e17) if dtn in ("float32", "bfloat16") else (min(max(nv, 2e-2), 40.0) if dtn == "float16" else min(nv, 1e140))
            if spec["kind"] != "poly":
                nv = min(nv, 0.5 * math.sqrt(x_cap(spec, dtn) / d))
            if spec["kind"] == "poly":          # x^3 of the user polynomial must stay finite
                nv = min(nv, 1e40 if dtn == "float64" else (3.0 if dtn == "float16" else 1e5))
        if "norm_cap" in case and nv > case["norm_cap"] * s0:
            nv = case["norm_cap"] * s0 * rng.uniform(0.3, 1.0)
        dirv = common.rand_dir(rng, d)
        row = [nv * v for v in dirv]
        if spec["kind"] == "huber" and c < 0.2:
            # exactly on / next to the threshold: one component = delta  =>  x = fl(delta^2)
            row = [0.0] * d
            row[rng.randrange(d)] = spec["p"][0] * rng.choice([1.0, 1.0, 1 - 2.0 ** -52, 1 + 2.0 ** -52, -1.0])
        rows.append(row)
    if N and case.get("force_zero_row", False):
        rows[rng.randrange(N)] = [0.0] * d
    R = torch.tensor(rows, dtype=DT[dtn]).reshape(list(case["batch"]) + [d])
    jm = rng.choice([1.0, 1.0, 1e-3, 50.0])
    Jv = [[jm * rng.gauss(0, 1) * rng.choice([1.0, 1.0, 1.0, 0.0, 1e-4]) for _ in range(p)] for _ in range(N * d)]
    J = torch.tensor(Jv, dtype=DT[dtn]).reshape(N * d, p)
    return R, J


def choose_poly(case):
    """user kernel parameters adapted to the residual norms of the case so that rho' > 0 and neither rho'
    nor rho'' is a near-cancellation (the float code could then not be compared at 64 eps)"""
    rng = random.Random(case["data_seed"] ^ 0x5bd1)
    R, _ = corrector_data({**case, "spec": {"kind": "poly", "p": [1.0, 0.0, 0.0]}})
    xs = [float(v) for v in R.double().square().sum(-1).flatten().tolist()]
    lo = 1e-20 if case["dtype"] == "float32" else 1e-120
    pos = [v for v in xs if v > lo]
    xref = rng.choice(pos) if pos else 1.0
    xmax = max(pos) if pos else 1.0
    regime = case["regime"]
    for _ in range(40):
        c1 = rng.choice([1.0, 0.3, 2.5])
        u = rng.choice([1e-14, 1e-9, 1e-4, 1e-2, 0.1, 0.5, 1.0, 3.0, 30.0])
        v = rng.choice([0.0, 0.0, 1e-3, 0.1, 1.0])
        if regime == "convex":
            c2, c3 = c1 * u / xref, c1 * v / xref ** 2
        elif regime in ("linear", "affine"):
            c2, c3 = 0.0, 0.0
        elif regime == "concave":
            c2, c3 = -c1 * min(u, 0.2) / xmax, 0.0
            if rng.random() < 0.4:
                c3 = -c1 * 0.05 * min(v, 1.0) / xmax ** 2
        else:  # mixed: rho'' changes sign inside the batch
            c2 = -c1 * 0.2 / xmax
            c3 = -c2 / (3 * xref) * rng.choice([0.5, 2.0, 4.0])
        if dtn_bad(case["dtype"], c1, c2, c3, xmax):
            continue
        ok = True
        for x in xs:
            t1 = [c1, 2 * c2 * x, 3 * c3 * x * x]
            g1 = sum(t1)
            if g1 <= 0 or sum(abs(t) for t in t1) > 4 * g1:
                ok = False
                break
            t2 = [2 * c2, 6 * c3 * x]
            g2 = sum(t2)
            if g2 != 0 and sum(abs(t) for t in t2) > 16 * abs(g2):
                ok = False
                break
        if ok:
            return {"kind": "poly", "p": [c1, c2, c3], **({"affine": True} if regime == "affine" else {})}
    if regime == "affine":
        return {"kind": "poly", "p": [1.0, 0.0, 0.0], "affine": True}
    return {"kind": "poly", "p": [1.0, 0.5 / xref, 0.0]} if regime != "linear" else {"kind": "poly", "p": [1.0, 0.0, 0.0]}


def dtn_bad(dtn, c1, c2, c3, xmax):
    lim = 1e30 if dtn == "float32" else 1e250
    vals = [abs(c2) * xmax * xmax, abs(c3) * xmax ** 3, abs(c2), abs(c3)]
    if not all(math.isfinite(v) for v in vals):
        return True
    return any(v > lim for v in vals) or any(0 < v < 1 / lim for v in (abs(c2), abs(c3)))


def item_amp(spec, x: float) -> float:
    """conditioning of rho'(x) w.r.t. rounding of its own intermediates: the polynomial user kernels are generated
    with cancellation <= 4; Tolerant evaluates exp(u), u = (x-a)/b, whose relative error is |u| eps"""
    if spec["kind"] == "poly":
        return 4.0
    if spec["kind"] == "tolerant":
        u = (x - spec["p"][0]) / spec["p"][1]
        sig = 1.0 / (1.0 + math.exp(-u)) if u > -700 else 0.0
        return 1.0 + (1.0 - sig) * abs(u)       # d sigma / sigma = (1 - sigma) du,  du = |u| eps
    return 1.0


def d2_noise(spec, x: float) -> float:
    """x * (magnitude of the cancelling terms of rho''(x)) / rho'(x): times eps this bounds the spurious |alpha| that
    rounding noise in autograd's rho'' can create where the exact rho'' is <= 0 but tiny (mask flips)"""
    if x <= 0:
        return 0.0
    k, p = spec["kind"], spec["p"]
    if k == "poly":
        g1 = p[0] + 2 * p[1] * x + 3 * p[2] * x * x
        return (abs(2 * p[1]) + abs(6 * p[2] * x)) * x / g1 if g1 > 0 else 0.0
    return 0.0


DENORM = {"float64": 2.0 ** -1074, "float32": 2.0 ** -149, "float16": 2.0 ** -24, "bfloat16": 2.0 ** -133}


def g1_floor(spec, dtn) -> float:
    """representability of rho' as autograd computes it: the chain rule of `c * f(x / c)` (c = delta^2, resp. b for
    Tolerant) passes through the intermediate c * rho'; once that is subnormal its absolute error is the subnormal
    spacing, i.e. rho' carries an absolute error DENORM / c (only visible for rho' * c < ~1e-38 in float32)"""
    k, p = spec["kind"], spec["p"]
    c = 1.0
    if k in ("pseudohuber", "cauchy", "arctan"):
        c = min(1.0, p[0] * p[0])
    elif k == "tolerant":
        c = min(1.0, abs(p[1]))
    return 4.0 * DENORM[dtn] / c


SQRT_TINY = {"float64": 2.0 ** -536, "float32": 2.0 ** -74, "float16": 2.0 ** -12, "bfloat16": 2.0 ** -66}     # sqrt of the smallest subnormal (rho' underflow)


def cfail(ctx, case, what):
    """ctx.fail without the harness-internal `_…` scratch entries of the case"""
    ctx.fail({k: v for k, v in case.items() if not k.startswith("_")}, what)


def mismatch(ctx, stream, case, detail):
    ctx.disagree(stream, {k: v for k, v in case.items() if not k.startswith("_")}, detail)


def build_corrector(which, kobj):
    C = ppc()
    return C.FastTriggs(kobj) if which == "fast" else C.Triggs(kobj)


def ld(t):
    return t.detach().double().numpy().astype(np.longdouble)


def corrector_oracles(ctx: Ctx, case, R, J, Rc, Jc):
    """the property's own statement on the real outputs (Rc, Jc) — independent of the Lean model"""
    spec, dtn, d, p = case["spec"], case["dtype"], case["d"], case["p"]
    eps = EPSD[dtn]
    N = int(math.prod(case["batch"]))
    Rn, Jn = ld(R).reshape(N, d), ld(J).reshape(N, d, p)
    Rcn, Jcn = ld(Rc).reshape(N, d), ld(Jc).reshape(N, d, p)
    if not (np.isfinite(Rcn.astype(np.float64)).all() and np.isfinite(Jcn.astype(np.float64)).all()):
        cfail(ctx, case, f"corrector-finite: {case['which']}({spec['kind']}{spec['p']}) returns non-finite values (dtype {dtn}, d={d})")
        return None
    xs = [sum(mp.mpf(float(v)) ** 2 for v in Rn[i]) for i in range(N)]
    g1 = np.array([float(mp_d1(spec, x)) for x in xs], dtype=np.longdouble)
    g2 = np.array([float(mp_d2(spec, x)) for x in xs], dtype=np.longdouble)
    mask = np.array([(x != 0) and (mp_d2(spec, x) > 0) for x in xs])
    ampv = np.array([item_amp(spec, float(x)) for x in xs], dtype=np.longdouble)
    # alpha = 1 - sqrt(1 + t) carries an absolute error ~eps(1+|alpha|): E[i,a,l] bounds its effect on J'
    E = np.zeros((N, d, p), dtype=np.longdouble)
    if case["which"] == "triggs":
        for i in range(N):
            x = float(xs[i])
            al = d2_noise(spec, x)
            if mask[i]:
                al += max(abs(1 - math.sqrt(max(0.0, 1 + 2 * x * float(g2[i]) / float(g1[i])))), 1.0)
            if al > 0 and x > 0:
                E[i] = math.sqrt(float(g1[i])) * al * np.abs(Rn[i])[:, None] * (np.abs(Rn[i]) @ np.abs(Jn[i]))[None, :] / x
    floorR = SQRT_TINY[dtn] * np.abs(Rn)
    floorJ = SQRT_TINY[dtn] * np.abs(Jn)
    # gradient law — per item (sharper than, and implying, the summed statement of the property)
    G = np.einsum("iap,ia->ip", Jcn, Rcn)
    Gw = g1[:, None] * np.einsum("iap,ia->ip", Jn, Rn)
    Gs = ampv[:, None] * (np.einsum("iap,ia->ip", np.abs(Jcn) + E + floorJ, np.abs(Rcn) + floorR)
                          + g1[:, None] * np.einsum("iap,ia->ip", np.abs(Jn), np.abs(Rn)))
    # + representability of rho' itself (below the smallest subnormal it is 0 in the dtype)
    tol = TOLK * eps * Gs + 16 * TINY[dtn] + g1_floor(spec, dtn) * np.einsum("iap,ia->ip", np.abs(Jn), np.abs(Rn))
    if N and not all_within(np.abs(G - Gw), tol):
        i, l = (int(v) for v in np.unravel_index(int(np.argmax(np.abs(G - Gw) - tol)), G.shape))
        cfail(ctx, case, f"grad-law: {case['which']}({spec['kind']}{spec['p']}) J'^T R' != sum rho' J^T R: item {i} (|R_i|^2={float(xs[i])!r}) "
                       f"component {l}: {float(G[i, l])!r} vs rho' J_i^T R_i = {float(Gw[i, l])!r} (tol {float(tol[i, l]):.3e}; dtype {dtn}, "
                       f"N={N}, d={d}, masked items {int(mask.sum())})")
    # Hessian law — per item
    JR = np.einsum("iap,ia->ip", Jn, Rn)
    H = np.einsum("iap,iaq->ipq", Jcn, Jcn)
    cur = 2 * g2 * mask if case["which"] == "triggs" else np.zeros(N, dtype=np.longdouble)
    Hw = g1[:, None, None] * np.einsum("iap,iaq->ipq", Jn, Jn) + cur[:, None, None] * np.einsum("ip,iq->ipq", JR, JR)
    JRa = np.einsum("iap,ia->ip", np.abs(Jn), np.abs(Rn))
    Ja = np.abs(Jcn) + E + floorJ
    Hs = ampv[:, None, None] * (np.einsum("iap,iaq->ipq", Ja, Ja) + g1[:, None, None] * np.einsum("iap,iaq->ipq", np.abs(Jn), np.abs(Jn))
                                + np.abs(cur)[:, None, None] * np.einsum("ip,iq->ipq", JRa, JRa))
    tolh = TOLK * eps * Hs + 16 * TINY[dtn] + g1_floor(spec, dtn) * np.einsum("iap,iaq->ipq", np.abs(Jn), np.abs(Jn))
    if N and not all_within(np.abs(H - Hw), tolh):
        idx = tuple(int(v) for v in np.unravel_index(int(np.argmax(np.abs(H - Hw) - tolh)), H.shape))
        name = "hess-law" if case["which"] == "triggs" else "fast-hess-law"
        cfail(ctx, case, f"{name}: {case['which']}({spec['kind']}{spec['p']}) J'^T J' != sum rho' J^T J + 2 rho'' J^T R R^T J on the mask: "
                       f"item {idx[0]} (|R_i|^2={float(xs[idx[0]])!r}, masked={bool(mask[idx[0]])}) entry {idx[1:]}: {float(H[idx])!r} vs "
                       f"{float(Hw[idx])!r} (tol {float(tolh[idx]):.3e}; dtype {dtn}, N={N}, d={d})")
    case["_amp"] = [float(v) for v in ampv]
    case["_E"] = E.astype(np.float64)
    return mask


def check_corrector(ctx: Ctx, case, cobj=None, fobj=None):
    """run the real corrector; oracles; returns (R, J, Rc, Jc) or None"""
    spec, dtn, d, p = case["spec"], case["dtype"], case["d"], case["p"]
    eps = EPSD[dtn]
    R, J = corrector_data(case)
    N = int(math.prod(case["batch"]))
    if cobj is None:
        kobj = build_kernel(spec)
        cobj = build_corrector(case["which"], kobj)
        fobj = build_corrector("fast", kobj) if case["which"] == "triggs" else None
    mon = common.PurityMonitor()
    try:
        if case.get("nograd", False):
            with torch.no_grad():
                Rc, Jc = mon.call("corrector", lambda R, J: cobj(R=R, J=J), R, J)
        else:
            Rc, Jc = mon.call("corrector", lambda R, J: cobj(R=R, J=J), R, J)
    except Exception as e:
        ctx.fail(case, f"corrector-raises: {case['which']}({spec['kind']}) raises {type(e).__name__}: {str(e)[:120]} (batch {case['batch']}, d={d}, p={p})")
        return None
    if mon.mutations:
        ctx.fail(case, f"corrector-mutates: {case['which']}({spec['kind']}) changed its argument {mon.mutations[0]['argument']}")
    if tuple(Rc.shape) != tuple(R.shape) or tuple(Jc.shape) != tuple(J.shape) or Rc.dtype != R.dtype or Jc.dtype != J.dtype:
        ctx.fail(case, f"corrector-shape: {case['which']} returned R' {tuple(Rc.shape)} {Rc.dtype}, J' {tuple(Jc.shape)} {Jc.dtype} "
                       f"for R {tuple(R.shape)}, J {tuple(J.shape)} {J.dtype}")
        return None
    Rc, Jc = Rc.detach(), Jc.detach()
    mask = corrector_oracles(ctx, case, R, J, Rc, Jc)
    if mask is None:
        return None
    case["_mask"] = [bool(m) for m in mask]
    # Triggs coincides with FastTriggs wherever rho'' <= 0 or R_i = 0
    if case["which"] == "triggs" and fobj is not None:
        try:
            Rf, Jf = fobj(R=R, J=J)
            Rf, Jf = Rf.detach().reshape(N, d), Jf.detach().reshape(N, d, p)
            Rt, Jt = Rc.reshape(N, d), Jc.reshape(N, d, p)
            for i in range(N):
                if mask[i]:
                    continue
                am = case["_amp"][i]
                dr = (Rt[i] - Rf[i]).abs() - 16 * am * eps * Rf[i].abs() - 4 * TINY[dtn]
                dj = (Jt[i] - Jf[i]).abs() - 16 * am * eps * (Jf[i].abs() + torch.from_numpy(case["_E"][i]).to(Jf.dtype)) - 4 * TINY[dtn]
                if not (bool((dr <= 0).all()) and bool((dj <= 0).all())):
                    cfail(ctx, case, f"elsewhere: Triggs differs from FastTriggs on item {i} where rho''<=0 or R_i=0 "
                                   f"({spec['kind']}{spec['p']}, R_i={R.reshape(N, d)[i].tolist()})")
                    break
        except Exception as e:
            ctx.fail(case, f"corrector-raises: FastTriggs({spec['kind']}) raises {type(e).__name__}: {str(e)[:120]}")
    return R, J, Rc, Jc


def corrector_line(case, R, J):
    N = int(math.prod(case["batch"]))
    return (f"c09.{case['which']} " + spec_wire(case["spec"]) + f" {N} {case['d']} {case['p']} "
            + common.wire_list(R.flatten().double().tolist()) + " " + common.wire_list(J.flatten().double().tolist()))


def compare_corrector(ctx: Ctx, case, R, J, Rc, Jc, rep, stream=None):
    spec, dtn, d, p = case["spec"], case["dtype"], case["d"], case["p"]
    stream = stream or case["which"]
    eps = EPSD[dtn]
    N = int(math.prod(case["batch"]))
    nums = reply_floats(rep)
    nR, nJ = N * d, N * d * p
    Rm = np.array(nums[:nR], dtype=np.float64).reshape(N, d)
    Jm = np.array(nums[nR:nR + nJ], dtype=np.float64).reshape(N, d, p)
    mm = nums[nR + nJ:]
    Rn, Jn = R.double().numpy().reshape(N, d), J.double().numpy().reshape(N, d, p)
    Ri, Ji = Rc.double().numpy().reshape(N, d), Jc.double().numpy().reshape(N, d, p)
    for i in range(N):
        x = float((Rn[i] ** 2).sum())
        amp = item_amp(spec, x)
        se = math.sqrt(max(float(mp_d1(spec, x)), 0.0))
        masked = bool(mm[i]) if mm else False
        # multiplicative structure: R' is relative per component; J' gets the rank-one term on the mask
        sfl = math.sqrt(se * se + g1_floor(spec, dtn)) - se          # sqrt(rho') when rho' is only known to +- g1_floor
        tolR = TOLK * amp * eps * np.abs(Rm[i]) + 4 * TINY[dtn] + sfl * np.abs(Rn[i])
        tolJ = TOLK * amp * eps * np.abs(se * Jn[i]) + 4 * TINY[dtn] + sfl * np.abs(Jn[i])
        if case["which"] == "triggs" and x > 0:
            al = d2_noise(spec, x)
            if masked or case.get("_mask", [False] * N)[i]:
                g1, g2 = float(mp_d1(spec, x)), float(mp_d2(spec, x))
                al += max(abs(1 - math.sqrt(max(0.0, 1 + 2 * x * g2 / g1))) if g1 > 0 else 0.0, 1.0)
            rr = np.abs(Rn[i])[:, None] * (np.abs(Rn[i]) @ np.abs(Jn[i]))[None, :] / x
            tolJ = tolJ + TOLK * amp * eps * se * al * rr
            tolR = tolR + TOLK * eps * d2_noise(spec, x) * np.abs(Rm[i])
        if not all_within(np.abs(Ri[i] - Rm[i]), tolR):
            a = int(np.argmax(np.abs(Ri[i] - Rm[i]) - tolR))
            mismatch(ctx, stream, case, f"{case['which']}({spec['kind']}{spec['p']}, {dtn}) R' item {i} comp {a}: implementation {Ri[i][a]!r} "
                                       f"model {Rm[i][a]!r} tol {tolR[a]:.3e}; R_i={Rn[i].tolist()} masked={masked}")
            return False
        if not all_within(np.abs(Ji[i] - Jm[i]), tolJ):
            idx = np.unravel_index(int(np.argmax(np.abs(Ji[i] - Jm[i]) - tolJ)), Ji[i].shape)
            mismatch(ctx, stream, case, f"{case['which']}({spec['kind']}{spec['p']}, {dtn}) J' item {i} entry {tuple(int(v) for v in idx)}: "
                                       f"implementation {Ji[i][idx]!r} model {Jm[i][idx]!r} tol {tolJ[idx]:.3e}; R_i={Rn[i].tolist()} masked={masked}")
            return False
    return True


def clean(case):
    return {k: v for k, v in case.items() if not k.startswith("_")}


def run_corrector(ctx: Ctx, cases):
    lines, metas = [], []
    pool = {}
    for case in cases:
        spec = case["spec"]
        key = (case["which"], spec["kind"], tuple(spec["p"]), bool(spec.get("affine")), spec.get("form"))
        if key not in pool:
            kobj = build_kernel(spec)
            pool[key] = (build_corrector(case["which"], kobj), build_corrector("fast", kobj))
        cobj, fobj = pool[key]                  # the same corrector object serves consecutive cases
        res = guard(ctx, case, lambda: check_corrector(ctx, case, cobj, fobj))
        msk = case.get("_mask", [])
        N = int(math.prod(case["batch"]))
        ctx.note_case((case["which"], spec["kind"], case.get("regime", ""), case["dtype"], tuple(case["batch"]), case["d"], case["p"],
                       sum(msk), case["data_seed"] % 3), True)
        ctx.count(f"{case['which']}.{spec['kind']}{'.' + case['regime'] if 'regime' in case else ''}")
        ctx.count(f"{case['which']}.d{case['d']}")
        ctx.count(f"{case['which']}.items.masked", sum(msk))
        ctx.count(f"{case['which']}.items.unmasked", N - sum(msk))
        if res is None:
            continue
        R, J, Rc, Jc = res
        ctx.count(f"{case['which']}.items.zero-row", int((R.reshape(N, case["d"]).abs().sum(-1) == 0).sum()))
        if N == 0:
            continue
        lines.append(corrector_line(case, R, J))
        metas.append((case, R, J, Rc, Jc))
        ctx.sample({"stream": case["which"], **clean(case), "R": R.flatten().tolist()[:6]}, cap=8)
    reps = ctx.driver.run(lines)
    for rep, (case, R, J, Rc, Jc) in zip(reps, metas):
        compare_corrector(ctx, clean(case) | {"_mask": case.get("_mask", [])}, R, J, Rc, Jc, rep)
    for case in cases:
        case.pop("_mask", None)
        case.pop("_amp", None)
        case.pop("_E", None)


def gen_corrector_case(rng, which, kind, regime=None):
    batch = small_shape(rng, 3, (1, 2, 3)) if rng.random() < 0.9 else [rng.choice([0, 1, 2]), 0][:rng.randint(1, 2)]
    if math.prod(batch) > 12:
        batch = batch[:2]
    case = {"stream": which, "which": which, "dtype": rng.choice(["float64", "float64", "float32"]),
            "batch": batch, "d": rng.randint(1, 6), "p": rng.randint(1, 4), "data_seed": rng.randrange(1 << 30),
            "nograd": rng.random() < 0.5, "force_zero_row": rng.random() < 0.35}
    if kind == "poly":
        case["regime"] = regime
        case["spec"] = {"kind": "poly", "p": [1.0, 0.0, 0.0]}
        case["spec"] = choose_poly(case)
        if not case["spec"].get("affine"):
            case["spec"]["form"] = rng.choice(USER_FORMS)
    else:
        case["spec"] = gen_spec(rng, kind)
    return case


# ----------------------------------------------------------------------------- select stream (optimiser plumbing)

class LinModel(nn.Module):
    """residual k = (M_k theta + y_k).view(n_k, d_k): Jacobian M_k known exactly"""

    def __init__(self, Ms, shapes, theta):
        super().__init__()
        self.vfh09_Ms, self.vfh09_shapes = Ms, shapes
        self.vfh09_theta = nn.Parameter(theta.clone())

    def forward(self, *ys):
        if getattr(self, "vfh09_ret_param", False):
            return self.vfh09_theta.view(1, -1)          # lesson 31: the model returns (a view of) its own parameter as the residual
        outs = tuple((M @ self.vfh09_theta + y).view(sh) for M, y, sh in zip(self.vfh09_Ms, ys, self.vfh09_shapes))
        return outs if len(outs) > 1 else outs[0]


class Recorder(nn.Module):
    def __init__(self):
        super().__init__()
        self.vfh09_calls = []
        self.vfh09_raise_next = False

    def forward(self, A, b):
        if self.vfh09_raise_next:
            self.vfh09_raise_next = False
            raise RuntimeError("linear solver fails (injected by the harness)")
        self.vfh09_calls.append((A.detach().clone(), b.detach().clone()))
        return torch.zeros(A.shape[-1], 1, dtype=A.dtype)


def arg_tokens(arg):
    if arg is None:
        return "none"
    if arg[0] == "one":
        return f"one {arg[1]}"
    return f"many {len(arg[1])} " + " ".join("N" if v is None else str(v) for v in arg[1])


def select_objects(case):
    """fresh kernel / corrector objects for the recorded kernel= / corrector= arguments"""
    kpool = [build_kernel(sp) for sp in case["kspecs"]]
    cpool = {}

    def corr(cid):          # user correctors: id = 2*j (+1): FastTriggs / Triggs of kernel j
        if cid not in cpool:
            cpool[cid] = build_corrector("triggs" if cid % 2 else "fast", kpool[cid // 2])
        return cpool[cid]

    def realise(arg, f, as_tuple):
        if arg is None:
            return None
        if arg[0] == "one":
            return f(arg[1])
        lst = [None if v is None else f(v) for v in arg[1]]
        return tuple(lst) if as_tuple else lst

    kernel = realise(case["karg"], lambda j: kpool[j], case["tuple"])
    corrector = realise(case["carg"], corr, case["tuple"])
    return kpool, kernel, corrector


def weight_arg(case, shapes, dt):
    """weight= as documented: one square matrix per residual (a list for several residuals); here w_k * I with w_k a power of 2"""
    if not case.get("weight"):
        return None
    ws = [torch.eye(d, dtype=dt) * w for (n, d), w in zip(shapes, case["weight"]["w"])]
    return ws if len(ws) > 1 else ws[0]


def build_opt(case, Ms, shapes, theta, kernel, corrector):
    import pypose as pp
    model = LinModel(Ms, shapes, theta)
    model.vfh09_ret_param = bool(case.get("identity_model"))
    rec = Recorder()
    wt = weight_arg(case, shapes, theta.dtype) if case.get("weight", {}).get("where") == "ctor" else None
    kw = {"vectorize": case.get("vectorize", True)}
    if wt is not None:
        kw["weight"] = wt
    if case["opt"] == "GN":
        opt = pp.optim.GN(model, solver=rec, kernel=kernel, corrector=corrector, **kw)
    else:
        st = case.get("strategy", "constant")
        S = pp.optim.strategy
        if st == "default":          # the optional argument OMITTED (lesson 29): every LM then builds its own TrustRegion()
            opt = pp.optim.LM(model, solver=rec, kernel=kernel, corrector=corrector, **case.get("lm", {}), **kw)
        else:
            strat = {"constant": lambda: S.Constant(damping=case["damping"]), "adaptive": lambda: S.Adaptive(damping=case["damping"]),
                     "trust": lambda: S.TrustRegion(radius=1.0 / case["damping"])}[st]()
            opt = pp.optim.LM(model, solver=rec, kernel=kernel, corrector=corrector, strategy=strat, **case.get("lm", {}), **kw)
    return model, opt, rec


def step_args(case, y, shapes, dt):
    """how the caller passes the data: as model input (default) or as `target` (then the model input is a zero offset);
    weight at construction or per step"""
    wt = weight_arg(case, shapes, dt) if case.get("weight", {}).get("where") == "step" else None
    if case.get("use_target"):
        zs = [torch.zeros_like(t) for t in y]
        tg = [(-t).view(sh) for t, sh in zip(y, shapes)]
        args = {"input": zs, "target": tg if len(tg) > 1 else tg[0]}
    else:
        args = {"input": y}
    if wt is not None:
        args["weight"] = wt
    return args


def do_step(case, opt, y, shapes, dt, quiet=True):
    import contextlib, io
    args = step_args(case, y, shapes, dt)
    with contextlib.redirect_stdout(io.StringIO()):
        if case.get("positional") and "weight" not in args:
            return opt.step(args["input"], args.get("target"))
        return opt.step(**args)


NSTEPS = 3


def select_setup(case):
    """builds kernels/correctors/optimiser exactly as recorded in the case"""
    rng = random.Random(case["data_seed"])
    dt = DT[case["dtype"]]
    p = case["p"]
    shapes = [tuple(sh) for sh in case["shapes"]]
    Ms = [torch.tensor([[rng.gauss(0, 1) for _ in range(p)] for _ in range(n * d)], dtype=dt) for n, d in shapes]
    theta = torch.tensor([rng.gauss(0, 1) for _ in range(p)], dtype=dt)
    ys = []
    for r in range(NSTEPS):       # several steps with different targets on the same optimiser object
        ys.append([torch.tensor([rng.gauss(0, 1) * rng.choice([0.0, 0.01, 1.0, 1.0, 10.0]) for _ in range(n * d)], dtype=dt) for n, d in shapes])
    if case.get("identity_model"):          # residual = the parameter itself: M = I; an offset only through `target`
        Ms = [torch.eye(p, dtype=dt)]
        if not case.get("use_target"):
            ys = [[torch.zeros(p, dtype=dt)] for _ in range(NSTEPS)]
    dthetas = [torch.tensor([rng.gauss(0, 0.3) for _ in range(p)], dtype=dt) for _ in range(NSTEPS)]
    kpool, kernel, corrector = select_objects(case)
    model, opt, rec = build_opt(case, Ms, shapes, theta, kernel, corrector)
    return model, opt, rec, ys, kpool, Ms, shapes, kernel, corrector, dthetas


def parse_select(rep, nres):
    st, toks = common.parse_reply(rep)
    if st != "ok" or len(toks) != 2 * nres + 1:
        raise common.InfraError(f"select reply: {rep}")
    if toks[-1] == "E1":          # empty kernel list: the model predicts IndexError for loss and step
        return ["-"] * nres, ["-"] * nres
    return toks[:nres], toks[nres:2 * nres]


def sel_spec(tok, kspecs):
    """kernel spec a selection token refers to (T = Trivial = identity)"""
    if tok in ("T", "AT"):
        return {"kind": "poly", "p": [1.0, 0.0, 0.0]}
    if tok.startswith("AK"):
        return kspecs[int(tok[2:])]
    if tok.startswith("K"):
        return kspecs[int(tok[1:])]
    if tok.startswith("U"):
        return kspecs[int(tok[1:]) // 2]
    raise ValueError(tok)


def as_list(arg):
    return None if arg is None else (list(arg) if isinstance(arg, (list, tuple)) else [arg])


def select_structure_oracle(ctx, case, opt, kernel, corrector):
    """documented normalisation of kernel= / corrector= (docstrings of GN / LM), checked on the real objects"""
    from pypose.optim.optimizer import Trivial
    C = ppc()
    kl, cl = as_list(kernel), as_list(corrector)
    mk, oc = list(opt.model.kernel), list(opt.corrector)
    want_k = [None] if kl is None else kl
    if len(mk) != len(want_k) or any((isinstance(m, Trivial) if w is None else m is w) is False for m, w in zip(mk, want_k)):
        ctx.fail(case, f"select-structure: RobustModel.kernel {[type(m).__name__ for m in mk]} is not the given kernel list "
                       f"{[None if w is None else type(w).__name__ for w in want_k]} (None -> Trivial)")
        return False
    if cl is not None:
        if len(oc) != len(cl) or any((isinstance(o, Trivial) if w is None else o is w) is False for o, w in zip(oc, cl)):
            ctx.fail(case, f"select-structure: optimizer.corrector {[type(o).__name__ for o in oc]} is not the given corrector list")
            return False
    elif kl is None:
        if len(oc) != 1 or not isinstance(oc[0], Trivial):
            ctx.fail(case, f"select-structure: without kernel and corrector the corrector list must be [Trivial], got {[type(o).__name__ for o in oc]}")
            return False
    else:
        probe = torch.tensor([0.0, 0.3, 1.7, 9.0], dtype=torch.float64)
        if len(oc) != len(kl) or not all(isinstance(o, C.FastTriggs) for o in oc):
            ctx.fail(case, f"select-structure: auto-correction must create one FastTriggs per kernel, got {[type(o).__name__ for o in oc]} for {len(kl)} kernels")
            return False
        for i, (o, w) in enumerate(zip(oc, kl)):
            want = probe.sum() if w is None else w(probe).sum()
            if not (abs(float(o.func(probe)) - float(want)) <= 1e-12 * (1 + abs(float(want)))):
                ctx.fail(case, f"select-structure: auto corrector {i} is not FastTriggs of kernel {i} ({'Trivial' if w is None else type(w).__name__})")
                return False
    return True


def select_line(case):
    return f"c09.select {len(case['shapes'])} {arg_tokens(case['karg'])} {arg_tokens(case['carg'])}"


def select_step_lines(case, lk, sc, Rs, Ms, shapes):
    nres, dtn = len(shapes), case["dtype"]
    lines, kinds = [], []
    for j in range(nres):
        tok = sc[j]
        which = "triggs" if (tok.startswith("U") and int(tok[1:]) % 2) else "fast"
        sub = {"which": which, "spec": sel_spec(tok, case["kspecs"]), "dtype": dtn, "batch": [shapes[j][0]], "d": shapes[j][1],
               "p": case["p"]}
        lines.append(corrector_line(sub, Rs[j], Ms[j]))
        kinds.append(sub)
    for j in range(nres):
        if lk[j] != "-":
            lines.append("c09.lossone " + spec_wire(sel_spec(lk[j], case["kspecs"])) + f" {shapes[j][0]} {shapes[j][1]} "
                         + common.wire_list(Rs[j].flatten().double().tolist()))
    # the whole step inside the model: kernel / corrector normalisation, selection by index, RobustModel.loss over all residual
    # tensors (lossTotal) and the stacked J'^T R' (stepJtR) — one line, last reply
    lines.append(f"c09.step {nres} {arg_tokens(case['karg'])} {arg_tokens(case['carg'])} {len(case['kspecs'])} "
                 + " ".join(spec_wire(sp) for sp in case["kspecs"]) + f" {case['p']} "
                 + " ".join(f"{shapes[j][0]} {shapes[j][1]} " + common.wire_list(Rs[j].flatten().double().tolist()) + " "
                            + common.wire_list(Ms[j].flatten().double().tolist()) for j in range(nres)))
    return lines, kinds


def select_plan(case):
    """the caller-side state before every step (pure mirror of what check_select does to the real objects; the recording
    solver returns a zero step, so the parameters only move by the caller's own in-place updates)"""
    rng = random.Random(case["data_seed"])
    dt = DT[case["dtype"]]
    p = case["p"]
    shapes = [tuple(sh) for sh in case["shapes"]]
    Ms = [torch.tensor([[rng.gauss(0, 1) for _ in range(p)] for _ in range(n * d)], dtype=dt) for n, d in shapes]
    theta = torch.tensor([rng.gauss(0, 1) for _ in range(p)], dtype=dt)
    ys = []
    for r in range(NSTEPS):
        ys.append([torch.tensor([rng.gauss(0, 1) * rng.choice([0.0, 0.01, 1.0, 1.0, 10.0]) for _ in range(n * d)], dtype=dt) for n, d in shapes])
    if case.get("identity_model"):          # residual = the parameter itself: M = I; an offset only through `target`
        Ms = [torch.eye(p, dtype=dt)]
        if not case.get("use_target"):
            ys = [[torch.zeros(p, dtype=dt)] for _ in range(NSTEPS)]
    dthetas = [torch.tensor([rng.gauss(0, 0.3) for _ in range(p)], dtype=dt) for _ in range(NSTEPS)]
    out = []
    for step in range(NSTEPS):
        if step == 1:
            theta = theta + dthetas[1]
        elif step >= 2:
            theta = theta * 0.5 - dthetas[step]
            Ms = Ms if case.get("identity_model") else [M * 1.25 for M in Ms]
        out.append((theta.clone(), [t.clone() for t in ys[step]], [M.clone() for M in Ms], shapes))
    return out


def check_select(ctx: Ctx, case, pre=None):
    """one optimiser configuration, NSTEPS steps on the same object; between steps the caller updates its targets and the
    model parameters in place; returns nothing (records into ctx)"""
    nres, dtn = len(case["shapes"]), case["dtype"]
    eps = EPSD[dtn]
    rep = pre[0] if pre is not None else ctx.driver.run([select_line(case)])[0]
    lk, sc = parse_select(rep, nres)
    try:
        model, opt, rec, ys, kpool, Ms, shapes, kernel, corrector, dthetas = select_setup(case)
    except Exception as e:
        ctx.fail(case, f"select-init: constructing {case['opt']} raises {type(e).__name__}: {str(e)[:120]}")
        return
    if not select_structure_oracle(ctx, case, opt, kernel, corrector):
        return
    consistent = all((c == "A" + k) or (c == k == "T") or (c.startswith("U") and k == f"K{int(c[1:]) // 2}")
                     for k, c in zip(lk, sc)) and "-" not in lk + sc
    y = None
    for step in range(NSTEPS):
        # --- what the caller does between steps (stale-read / reuse history)
        if step == 0:
            y = [t.clone() for t in ys[0]]
        elif step == 1:
            for t, new in zip(y, ys[1]):          # same list, same tensors, updated in place
                t.copy_(new)
            with torch.no_grad():
                model.vfh09_theta.add_(dthetas[1])
        else:
            y = [t.clone() for t in ys[step]]       # new tensors
            with torch.no_grad():
                model.vfh09_theta.mul_(0.5).sub_(dthetas[step])
                for M in ([] if case.get("identity_model") else Ms):          # the model's own constants change in place too
                    M.mul_(1.25)
        y_before = [t.clone() for t in y]
        theta0 = model.vfh09_theta.detach().clone()
        dt = DT[dtn]
        wk = case["weight"]["w"] if case.get("weight") else [1.0] * nres
        # --- a step in which the linear solver raises (GN propagates, LM catches it): nothing may have changed afterwards,
        #     and the retried step below must equal the step of a history without the failed one (compared with fresh)
        if case.get("fail_step") == step and "-" not in sc:
            n_before, st_before = len(rec.vfh09_calls), {k: repr(v) for k, v in vars(opt).items() if k in ("reject", "reject_count", "sparse")}
            rec.vfh09_raise_next = True
            try:
                do_step(case, opt, y, shapes, dt)
                fr = None
            except Exception as e:
                fr = type(e).__name__
            rec.vfh09_raise_next = False
            ctx.count(f"select.solver-raises.{case['opt']}.{'propagated' if fr else 'caught'}")
            if not torch.equal(model.vfh09_theta.detach(), theta0) or any(not torch.equal(t, t0) for t, t0 in zip(y, y_before)) or len(rec.vfh09_calls) != n_before:
                ctx.fail({**clean(case), "step": step}, f"select-atomic: after a step whose solver raised ({fr or 'caught by LM'}) the parameters / inputs / "
                         f"solver history of {case['opt']} are not what they were before")
                return
        copy_sys = None
        if case.get("deepcopy") and step == NSTEPS - 1 and "-" not in sc:
            # a deep copy of the whole optimiser, stepped first: copy and original must each hand over the same system
            import copy
            try:
                optc = copy.deepcopy(opt)
                do_step(case, optc, [t.clone() for t in y], shapes, dt)
                copy_sys = optc.solver.vfh09_calls[-len(optc.solver.vfh09_calls) + len(rec.vfh09_calls)] if len(optc.solver.vfh09_calls) > len(rec.vfh09_calls) else None
            except Exception as e:
                ctx.count(f"select.deepcopy-unsupported.{type(e).__name__}")      # observation only (scope rule)
                copy_sys = None
        ncalls = len(rec.vfh09_calls)
        try:
            loss = do_step(case, opt, y, shapes, dt)
            raised = None
        except Exception as e:
            raised = type(e).__name__
        if "-" in sc:
            if raised is None:
                ctx.disagree("select", case, f"model predicts an index error in step (correctors {sc}) but the implementation ran")
            return
        if raised is not None:
            ctx.fail(case, f"select-raises: {case['opt']}.step raises {raised} (kernel={case['karg']}, corrector={case['carg']}, step {step})")
            return
        if any(not torch.equal(t, t0) for t, t0 in zip(y, y_before)):
            ctx.fail({**clean(case), "step": step}, f"select-mutates: {case['opt']}.step changed the caller's input tensors")
            return
        if len(rec.vfh09_calls) < ncalls + 1 or (case["opt"] == "GN" and len(rec.vfh09_calls) != ncalls + 1):
            ctx.disagree("select", case, f"solver called {len(rec.vfh09_calls) - ncalls} times in one step")
            return
        A, b = rec.vfh09_calls[ncalls]          # LM may retry with more damping: the right-hand side is the same
        if not (bool(torch.isfinite(A).all()) and bool(torch.isfinite(b).all()) and isinstance(loss, torch.Tensor) and bool(torch.isfinite(loss).all())):
            ctx.fail({**clean(case), "step": step}, f"select-finite: {case['opt']} hands a non-finite system / loss to the solver "
                     f"(kernel={case['karg']}, corrector={case['carg']}, loss={loss})")
            return
        if copy_sys is not None and not ((torch.equal(copy_sys[0], A) or (case["opt"] == "LM" and case.get("strategy", "constant") != "constant"))
                                         and torch.equal(copy_sys[1], b)):
            ctx.fail({**clean(case), "step": step}, f"select-copy: a deep copy of the {case['opt']} optimiser, stepped on the same data just before the "
                     f"original, handed its solver a different system (max |dA| {float((copy_sys[0] - A).abs().max()):.3e}, max |db| {float((copy_sys[1] - b).abs().max()):.3e})")
            return
        if not torch.equal(model.vfh09_theta.detach(), theta0):
            ctx.fail({**clean(case), "step": step}, "select-atomic: a zero step changed the parameters")
            return
        # residuals and Jacobians of the linear model (exact by construction)
        Rs = [(M @ theta0 + yy).view(sh) for M, yy, sh in zip(Ms, y, shapes)]
        # rows of residual j carry the weight w_j (power of two: removing it is exact)
        roww = torch.cat([torch.full((n * d,), float(w), dtype=dt) for (n, d), w in zip(shapes, wk)])
        if case["opt"] == "GN":
            A, b = A / roww[:, None], b / roww[:, None]
        # --- oracle (real objects): residual j is corrected by corrector[0] if len == 1 else corrector[j]; the loss applies
        #     kernel[j] (kernel[0] if one kernel); a fresh optimiser at the same state hands over the same system
        try:
            sel_ok = True
            oc = list(opt.corrector)
            outs = []
            for j in range(nres):
                cj = oc[0] if len(oc) == 1 else oc[j]
                rj, jj = cj(R=Rs[j].clone(), J=Ms[j].clone())
                outs.append((rj.detach().reshape(-1), jj.detach()))
            Rcat, Jcat = torch.cat([o[0] for o in outs]), torch.cat([o[1] for o in outs])
            if case["opt"] == "GN":
                sel_ok = close_to(-b[:, 0], Rcat, eps) and close_to(A, Jcat, eps, 64 * eps * Jcat.double().abs().amax() if Jcat.numel() else None)
            else:
                wantb = ld(Jcat).T @ (ld(roww) * ld(Rcat))
                scb = np.abs(ld(Jcat)).T @ (ld(roww) * np.abs(ld(Rcat)))
                sel_ok = bool((np.abs(-ld(b)[:, 0] - wantb) <= 16 * eps * scb + 16 * TINY[dtn]).all())
            if not sel_ok:
                ctx.fail({**clean(case), "step": step}, f"select-index: {case['opt']} step {step}: the system handed to the solver is not "
                         f"[corrector[0] if one corrector else corrector[j]](R_j, J_j) stacked over the residuals (correctors "
                         f"{[type(o).__name__ for o in oc]}, {nres} residuals)")
                return
            kl = as_list(kernel)
            if "-" not in lk:
                tot = 0.0
                for j in range(nres):
                    kj = None if kl is None else (kl[j] if len(kl) > 1 else kl[0])
                    xj = Rs[j].square().sum(-1)
                    tot = tot + (xj.sum() if kj is None else kj(xj).sum())
                if not close_to(loss.detach().reshape(()), tot.detach().reshape(()), eps, 64 * eps * float(sum(r.square().sum() for r in Rs))):
                    if case["opt"] == "GN" or step == 0:
                        ctx.fail({**clean(case), "step": step}, f"loss-selection: {case['opt']} step {step} reports loss {float(loss)!r} but "
                                 f"sum_j kernel_j(|R_j|^2) with kernel_j = kernel[j] (kernel[0] if one) is {float(tot)!r}")
                        return
            if step > 0:
                kp2, k2, c2 = select_objects(case)
                m2, o2, r2 = build_opt(case, [M.clone() for M in Ms], shapes, theta0.clone(), k2, c2)
                l2 = do_step(case, o2, [t.clone() for t in y], shapes, dt)
                A2, b2 = r2.vfh09_calls[0]
                if case["opt"] == "GN":
                    A2, b2 = A2 / roww[:, None], b2 / roww[:, None]
                # (LM with an adaptive strategy legitimately carries its damping from step to step: only b is history-free there)
                same_A = case["opt"] == "LM" and case.get("strategy", "constant") != "constant" or close_to(A, A2, eps, 16 * eps * A2.double().abs().amax())
                if not (same_A and close_to(b, b2, eps, 16 * eps * b2.double().abs().amax())):
                    ctx.fail({**clean(case), "step": step}, f"select-history: step {step} on a reused {case['opt']} (targets / parameters updated in place "
                             f"between steps) hands the solver a different system than a fresh optimiser in the same state: max |dA| "
                             f"{float((A - A2).abs().max()):.3e}, max |db| {float((b - b2).abs().max()):.3e}")
                    return
                if case["opt"] == "GN" and not close_to(loss.detach().reshape(()), l2.detach().reshape(()), eps, 64 * eps * float(sum(r.square().sum() for r in Rs))):
                    ctx.fail({**clean(case), "step": step}, f"select-history: reused GN returns loss {float(loss)!r}, a fresh one {float(l2)!r}")
                    return
        except Exception as e:
            ctx.fail({**clean(case), "step": step}, f"select-oracle-raises: {type(e).__name__}: {str(e)[:160]}")
            return
        # --- model prediction: selected corrector per residual, selected kernel per residual in the loss
        lines, kinds = select_step_lines(case, lk, sc, Rs, Ms, shapes)
        if pre is not None and step in pre[1] and pre[1][step][0] == lines:
            reps = pre[1][step][1]
        else:
            reps = ctx.driver.run(lines)
        broken = False
        # corrected system
        if case["opt"] == "GN":
            off = 0
            for j in range(nres):
                n, d = shapes[j]
                Aj, bj = A[off:off + n * d], b[off:off + n * d, 0]
                off += n * d
                okc = compare_corrector(ctx, {**clean(case), **kinds[j], "residual": j, "step": step}, Rs[j], Ms[j],
                                        (-bj).view(n, d), Aj, reps[j], stream="select")
                if not okc:
                    broken = True
                    break
        # stacked J'^T R' from the per-residual model outputs (and its per-item conditioned scale)
        if True:
            tot = np.zeros(case["p"], dtype=np.longdouble)
            sca = np.zeros(case["p"], dtype=np.longdouble)
            for j in range(nres):
                n, d = shapes[j]
                nums = reply_floats(reps[j])
                Rm = np.array(nums[:n * d], dtype=np.longdouble).reshape(n * d)
                Jm = np.array(nums[n * d:n * d + n * d * case["p"]], dtype=np.longdouble).reshape(n * d, case["p"])
                tot += float(wk[j]) * (Jm.T @ Rm)
                # per item conditioning (no global magnitude factor): each row weighted by its own amplification
                ampj = np.repeat(np.array([item_amp(kinds[j]["spec"], float(x)) for x in Rs[j].double().square().sum(-1).flatten().tolist()],
                                          dtype=np.longdouble), d)
                sca += float(wk[j]) * (np.abs(Jm).T @ (ampj * np.abs(Rm)))
            # LM hands b = -J'^T R' to the solver; GN hands (J', -R') (weights already removed row-wise above)
            got = -ld(b)[:, 0] if case["opt"] == "LM" else ld(A).T @ (-ld(b)[:, 0]) * 1
            if case["opt"] == "GN":
                tot_cmp = sum((np.array(reply_floats(reps[j])[shapes[j][0] * shapes[j][1]:shapes[j][0] * shapes[j][1] * (1 + case["p"])], dtype=np.longdouble)
                               .reshape(shapes[j][0] * shapes[j][1], case["p"]).T
                               @ np.array(reply_floats(reps[j])[:shapes[j][0] * shapes[j][1]], dtype=np.longdouble)) for j in range(nres))
            else:
                tot_cmp = tot
            tol = TOLK * eps * sca * (1 if case["opt"] == "LM" else 2) + 16 * TINY[dtn]
            # the model's own end-to-end value (c09.step = lossTotal, stepJtR with the model's selection glue)
            st_, stoks = common.parse_reply(reps[-1])
            if st_ != "ok":
                mismatch(ctx, "step", {**clean(case), "step": step}, f"model step reply {reps[-1][:60]} but the implementation ran")
                broken = True
            else:
                sv = [wf(t_) for t_ in stoks]
                ctx.count(f"select.step-vs-model.{case['opt']}")
                unweighted = all(w == 1.0 for w in wk)
                if unweighted or case["opt"] == "GN":
                    if not all_within(np.abs(got - np.array(sv[1:1 + case["p"]], dtype=np.longdouble)), tol):
                        mismatch(ctx, "step", {**clean(case), "step": step}, f"{case['opt']}: J'^T R' handed to the solver {got.astype(float).tolist()} != "
                                 f"model stepJtR {sv[1:1 + case['p']]} (kernel={case['karg']}, corrector={case['carg']})")
                        broken = True
                step_loss_model = sv[0]
                # pass 10: the stacked J'^T J' of the model (stepJtJ) against the normal matrix of the system GN hands to its solver
                # (LM's recorded A is already clamped and damped — C08's business — so only GN is compared here)
                pcols = case["p"]
                if case["opt"] == "GN" and len(sv) == 1 + pcols + pcols * pcols:
                    An = ld(A)
                    ampr_ = np.concatenate([np.repeat(np.array([item_amp(kinds[j]["spec"], float(x_)) for x_ in Rs[j].double().square().sum(-1).flatten().tolist()]),
                                                      shapes[j][1]) for j in range(nres)]).astype(np.longdouble)
                    Hgot = An.T @ An
                    Hsc = np.abs(An).T @ (ampr_[:, None] * np.abs(An))
                    Hmod = np.array(sv[1 + pcols:], dtype=np.longdouble).reshape(pcols, pcols)
                    ctx.count("select.stepJtJ-vs-model.GN")
                    if not all_within(np.abs(Hgot - Hmod), TOLK * 2 * eps * Hsc + 16 * TINY[dtn]):
                        mismatch(ctx, "step", {**clean(case), "step": step}, f"GN: J'^T J' of the system handed to the solver {Hgot.astype(float).tolist()} != "
                                 f"model stepJtJ {Hmod.astype(float).tolist()} (kernel={case['karg']}, corrector={case['carg']})")
                        broken = True
            if case["opt"] == "LM" and not all_within(np.abs(got - tot_cmp), tol):
                mismatch(ctx, "select", {**clean(case), "step": step}, f"LM right-hand side {got.astype(float).tolist()} != model J'^T R' "
                                                                       f"{tot.astype(float).tolist()} (selection {sc})")
                broken = True
        # loss value
        want, wsc = mp.mpf(0), 0.0
        ri = nres
        for j in range(nres):
            if lk[j] != "-":
                want += mp.mpf(reply_floats(reps[ri])[0])
                sp = sel_spec(lk[j], case["kspecs"])
                # value scale + the effect of rounding |R_i|^2 itself: rho'(x) * x
                wsc += sum(val_scale(sp, float(x)) + float(mp_d1(sp, float(x))) * float(x) * shapes[j][1]
                           for x in Rs[j].double().square().sum(-1).flatten().tolist())
                ri += 1
        if not (abs(mp.mpf(float(loss)) - want) <= TOLK * eps * wsc * 2 + 16 * TINY[dtn]):
            ctx.disagree("select", {**clean(case), "step": step}, f"loss {float(loss)!r} != model {float(want)!r} (loss kernels {lk})")
            broken = True
        if st_ == "ok" and "-" not in lk and (case["opt"] == "GN" or step == 0) and not (abs(float(loss) - step_loss_model) <= TOLK * eps * wsc * 2 + 16 * TINY[dtn]):
            mismatch(ctx, "step", {**clean(case), "step": step}, f"loss {float(loss)!r} != model lossTotal {step_loss_model!r}")
            broken = True
        # --- oracle: the direction handed to the solver is the gradient of the loss the optimiser reports
        if consistent and all(w == 1.0 for w in wk):
            try:
                with torch.enable_grad():
                    la = step_args(case, y, shapes, dt)
                    L = opt.model.loss(la["input"], la.get("target"))
                    g, = torch.autograd.grad(L, model.vfh09_theta)
            except Exception as e:
                ctx.fail({**clean(case), "step": step}, f"select-oracle-raises: loss / autograd raises {type(e).__name__}: {str(e)[:160]}")
                return
            ampr = np.concatenate([np.repeat(np.array([item_amp(kinds[j]["spec"], float(x)) for x in Rs[j].double().square().sum(-1).flatten().tolist()]),
                                             shapes[j][1]) for j in range(nres)]).astype(np.longdouble)
            if case["opt"] == "GN":
                rhs = ld(A).T @ (-ld(b)[:, 0])
                sc_ = np.abs(ld(A)).T @ (ampr * np.abs(ld(b)[:, 0]))
            else:
                rhs = -ld(b)[:, 0]
                sc_ = sca
            gl = ld(g)
            if not np.isfinite(gl.astype(np.float64)).all():
                ctx.fail({**clean(case), "step": step}, f"select-finite: gradient of the reported loss is not finite: {gl.astype(float).tolist()}")
                return
            tol = TOLK * 4 * eps * sc_ + 16 * TINY[dtn]
            if not all_within(np.abs(2 * rhs - gl), tol):
                cfail(ctx, {**clean(case), "step": step}, f"descent-direction: {case['opt']} with kernel={case['karg']} corrector={case['carg']}: "
                         f"2*J'^T R' = {(2 * rhs).astype(float).tolist()} but the gradient of the reported loss is {gl.astype(float).tolist()}")
                return
            if not (abs(float(L.detach()) - float(loss)) <= TOLK * eps * wsc * 2 + 16 * TINY[dtn]):
                ctx.fail({**clean(case), "step": step}, f"loss-report: step returned {float(loss)!r} but model.loss is {float(L)!r}")
                return
        if broken:
            return


def gen_select_case(rng):
    nres = rng.choice([1, 2, 2, 3])
    shapes = [[rng.randint(1, 3), rng.randint(1, 4)] for _ in range(nres)]
    nk = rng.randint(1, 3)
    kinds = [rng.choice(BUILTIN + ["poly"]) for _ in range(nk)]
    kspecs = []
    for kd in kinds:
        if kd == "poly":
            kspecs.append({"kind": "poly", "p": [rng.choice([1.0, 0.5]), rng.choice([0.3, 0.05, 1.0]), rng.choice([0.0, 0.02])],
                           "form": rng.choice([f for f in USER_FORMS if f.startswith(("sub", "module"))])})
        else:
            kspecs.append(gen_spec(rng, kd))

    def mk(n_ids, allow_none):
        c = rng.random()
        if c < 0.25:
            return None
        if c < 0.45:
            return ["one", rng.randrange(n_ids)]
        ln = rng.choice([1, nres, nres, nres]) if rng.random() < 0.9 else rng.choice([2, 3, 4])
        return ["many", [None if (allow_none and rng.random() < 0.25) else rng.randrange(n_ids) for _ in range(ln)]]

    karg = mk(nk, True)
    cc = rng.random()
    if cc < 0.5:
        carg = None
    elif cc < 0.75 and karg is not None:
        # user correctors that match the kernels position by position (FastTriggs or Triggs)
        if karg[0] == "one":
            carg = ["one", 2 * karg[1] + rng.randrange(2)]
        else:
            carg = ["many", [None if v is None else 2 * v + rng.randrange(2) for v in karg[1]]]
    else:
        carg = mk(2 * nk, True)
    case = {"stream": "select", "opt": rng.choice(["GN", "LM"]), "dtype": rng.choice(["float64", "float64", "float32"]),
            "p": rng.randint(1, 3), "shapes": shapes, "kspecs": kspecs, "karg": karg, "carg": carg, "tuple": rng.random() < 0.3,
            "damping": rng.choice([1e-6, 1e-3, 1.0]), "data_seed": rng.randrange(1 << 30), **select_extras(rng, nres)}
    if rng.random() < 0.1:          # lesson 31: the model returns (a view of) its own parameter as the single one-item residual
        case.update({"shapes": [[1, case["p"]]], "identity_model": True})
        if rng.random() < 0.5:
            case["use_target"] = True
        for key in ("karg", "carg"):
            if case[key] is not None and case[key][0] == "many":
                case[key] = ["many", case[key][1][:1] or [None]]
        if case.get("weight"):
            case["weight"]["w"] = case["weight"]["w"][:1]
    return case


def select_extras(rng, nres, full=False):
    """keyword arguments nobody varies together: vectorize, data passed as target, weight (at construction / per step),
    LM strategy and bounds, positional call; a solver that raises in one step; a deep copy of the optimiser"""
    ex = {}
    if rng.random() < 0.3:
        ex["vectorize"] = False
    if rng.random() < 0.35:
        ex["use_target"] = True
    if rng.random() < 0.3:
        ex["weight"] = {"where": rng.choice(["ctor", "step"]), "w": [rng.choice([0.5, 2.0, 4.0, 1.0]) for _ in range(nres)]}
    if rng.random() < 0.5:
        ex["strategy"] = rng.choice(["constant", "adaptive", "trust", "default"])
    if rng.random() < 0.3:
        ex["lm"] = {"min": rng.choice([1e-6, 1e-3]), "max": rng.choice([1e32, 1e3]), "reject": rng.choice([0, 1, 16])}
    if rng.random() < 0.3:
        ex["positional"] = True
    if rng.random() < 0.3:
        ex["fail_step"] = rng.randrange(NSTEPS)
    if rng.random() < 0.3:
        ex["deepcopy"] = True
    return ex


def run_select(ctx: Ctx, cases):
    # the model's replies for all cases / steps in two driver batches (the inputs of every step are known in advance)
    reps1 = ctx.driver.run([select_line(c) for c in cases])
    allines, index = [], []
    for ci, (case, rep) in enumerate(zip(cases, reps1)):
        lk, sc = parse_select(rep, len(case["shapes"]))
        if "-" in sc:
            continue
        for step, (theta0, y, Ms_, shapes) in enumerate(select_plan(case)):
            Rs = [(M @ theta0 + yy).view(sh) for M, yy, sh in zip(Ms_, y, shapes)]
            lines, _ = select_step_lines(case, lk, sc, Rs, Ms_, shapes)
            index.append((ci, step, len(allines), len(lines), lines))
            allines += lines
    reps2 = ctx.driver.run(allines)
    pre = {ci: (reps1[ci], {}) for ci in range(len(cases))}
    for ci, step, off, ln, lines in index:
        pre[ci][1][step] = (lines, reps2[off:off + ln])
    for ci, case in enumerate(cases):
        # a kernel list of length 1 < len < nres silently drops residuals from the loss and fails in step: still compared
        guard(ctx, case, lambda: check_select(ctx, case, pre[ci]))
        k = case["karg"]
        c = case["carg"]
        ctx.note_case(("select", case["opt"], case["dtype"], len(case["shapes"]), None if k is None else (k[0], len(k[1]) if k[0] == "many" else 1),
                       None if c is None else (c[0], len(c[1]) if c[0] == "many" else 1), case["tuple"], case["data_seed"] % 3), True)
        ctx.count(f"select.{case['opt']}.kernel-{'none' if k is None else k[0]}.corrector-{'none' if c is None else c[0]}")
        ctx.sample(case, cap=10)


# ----------------------------------------------------------------------------- constructor stream (pass 3)
# The constructors' documented parameter checks (delta > 0; a > 0, b < 0; 0 < delta <= 1 for Scale; none for Arctan) against the
# model's `Spec.ctorOk` / `Spec.construct` (c09.construct): rejected <=> `err ctor`; an accepted kernel is then called.

CTOR_PARAMS = {
    "huber": [[1.0], [0.0], [-1.0], [-5e-324], [5e-324], [1e-300], [3.0]],
    "pseudohuber": [[1.0], [0.0], [-0.5], [2.0]],
    "cauchy": [[1.0], [0.0], [-2.0], [0.25]],
    "softlone": [[1.0], [0.0], [-1e-9], [1.5]],
    "arctan": [[1.0], [-2.0], [0.5]],                       # no constructor check: a negative delta is accepted (delta^2 is used)
    "tolerant": [[1.0, -1.0], [0.0, -1.0], [-1.0, -1.0], [1.0, 0.0], [1.0, 1.0], [2.0, -0.5], [5e-324, -5e-324]],
    "scale": [[1.0], [0.0], [-0.5], [1.0 + 2.0 ** -52], [2.0], [0.5], [5e-324]],
}


def run_ctor(ctx: Ctx):
    K = ppk()
    lines, metas = [], []
    for kind in BUILTIN:
        for pr in CTOR_PARAMS[kind]:
            for dtn in ("float64", "float32"):
                pp_ = [float(v) for v in pr] + [0.0] * (3 - len(pr))
                case = {"stream": "ctor", "spec": {"kind": kind, "p": pp_}, "dtype": dtn}
                x = torch.tensor([0.0, 0.5, 2.0], dtype=DT[dtn])
                try:
                    kobj = K.Tolerant(pp_[0], pp_[1]) if kind == "tolerant" else getattr(K, CLS[kind])(pp_[0])
                    raised = None
                except Exception as e:
                    raised = type(e).__name__
                    kobj = None
                valid = {"tolerant": pp_[0] > 0 and pp_[1] < 0, "scale": 0 < pp_[0] <= 1, "arctan": True}.get(kind, pp_[0] > 0)
                if raised is None and not valid:
                    ctx.fail(case, f"ctor-accepts: {CLS[kind]}({pr}) is constructed although the documented parameter range excludes it")
                if raised is not None and valid:
                    ctx.fail(case, f"ctor-rejects: {CLS[kind]}({pr}) raises {raised} for parameters inside the documented range")
                y = None
                if kobj is not None:
                    y = guard(ctx, case, lambda: kobj(x))
                ctx.note_case(("ctor", kind, tuple(pr), dtn), True)
                ctx.count(f"ctor.{kind}.{'rejected' if raised else 'accepted'}")
                lines.append("c09.construct " + spec_wire(case["spec"]) + " " + common.wire_list(x.double().tolist()))
                metas.append((case, raised, x, y))
    reps = ctx.driver.run(lines)
    for rep, (case, raised, x, y) in zip(reps, metas):
        st, toks = common.parse_reply(rep)
        if (st == "err" and toks == "ctor") != (raised is not None):
            ctx.disagree("ctor", case, f"{case['spec']['kind']}{case['spec']['p']}: implementation {'raises ' + raised if raised else 'constructs'}, model {rep[:20]}")
        elif st == "ok" and y is not None and bool(torch.isfinite(y).all()):
            compare_kernel(ctx, case, x, y, rep)


# ----------------------------------------------------------------------------- history stream (hardening pass)
# One kernel / corrector OBJECT lives through a history of calls in which every per-call argument changes (dtype, batch
# rank and extents incl. 0, d, p, grad mode, memory layout) and the caller's tensors are updated in place between calls.
# Oracles (model-free): every call equals the same call on a FRESH object with contiguous copies (no state, no stale
# read, no layout dependence), each item equals the call on that item alone (no batch-level decision), the caller's
# storage — also outside a view — is bit-for-bit untouched, the object's public attributes do not change; plus the
# per-item gradient/Hessian laws and the Lean-model correspondence on every call.

LAYOUTS = ["contig", "transposed", "strided", "buffer", "expanded", "alias", "inplace"]
SENTINEL = 777.25


def lay_out(T: torch.Tensor, layout: str, rng: random.Random):
    """-> (V, base): V has the values of T in the requested memory layout, base is the storage owner to watch"""
    if layout == "transposed" and T.dim() >= 2:
        base = T.transpose(0, -1).clone(memory_format=torch.contiguous_format)      # always a copy (contiguous() may alias T)
        return base.transpose(0, -1), base
    if layout in ("strided", "transposed") and T.dim() >= 1:
        base = torch.full(tuple(T.shape[:-1]) + (2 * T.shape[-1] + 1,), SENTINEL, dtype=T.dtype)
        base[..., 1:2 * T.shape[-1] + 1:2] = T
        return base[..., 1:2 * T.shape[-1] + 1:2], base
    if layout == "buffer":
        off = rng.randint(1, 5)
        base = torch.full((T.numel() + off + rng.randint(1, 5),), SENTINEL, dtype=T.dtype)
        base[off:off + T.numel()] = T.reshape(-1)
        return base[off:off + T.numel()].view(T.shape), base
    c = T.clone()
    return c, c


def history_call_data(which, spec, call):
    """contiguous reference tensors of one call (deterministic)"""
    sub = {"spec": spec, "dtype": call["dtype"], "data_seed": call["data_seed"]}
    if which == "kernel":
        x = kernel_inputs({**sub, "shape": call["shape"], "with_zero": True})
        if call["layout"] == "expanded" and x.dim() >= 1 and x.shape[0] > 0:
            x = x[:1].expand(x.shape).clone()
        return (x,)
    R, J = corrector_data({**sub, "batch": call["batch"], "d": call["d"], "p": call["p"], "force_zero_row": call.get("zero", False)})
    N = int(math.prod(call["batch"]))
    if call["layout"] == "expanded" and N > 0:
        R = R.reshape(N, call["d"])[:1].expand(N, call["d"]).reshape(R.shape).clone()
        J = J[:1].expand(J.shape).clone()
    if call["layout"] == "alias":          # d = p = 1: the same tensor is residual and Jacobian
        J = R.reshape(N, 1).clone()
        R = J.reshape(list(call["batch"]) + [1])
    return R, J


def close_to(a, b, eps, extra=None):
    """|a-b| <= 16 eps |b| (+ extra) element-wise, NaN/inf must match exactly"""
    if tuple(a.shape) != tuple(b.shape) or a.dtype != b.dtype:
        return False
    a, b = a.detach().double(), b.detach().double()
    fin = torch.isfinite(b)
    if not torch.equal(torch.isfinite(a), fin):
        return False
    tol = 16 * eps * b.abs() + (0 if extra is None else extra)
    return bool(((a - b).abs()[fin] <= (tol[fin] if isinstance(tol, torch.Tensor) else tol)).all())


def pub_state(obj):
    """public attribute snapshot of a kernel / corrector (values by repr; sub-objects by identity)"""
    out = {}
    for k, v in vars(obj).items():
        if k.startswith("_") or k.startswith("vfh09_"):          # private state / the harness' own attributes (prefix vfh09_, lesson 48)
            continue
        out[k] = repr(v) if isinstance(v, (int, float, bool, str, tuple, type(None))) else ("obj", id(v))
    out["#keys"] = tuple(sorted(k for k in vars(obj) if not k.startswith("_") and not k.startswith("vfh09_")))
    return out


GMODES = ["plain", "no_grad", "enable_grad", "req_R", "req_J", "req_both", "graph", "inference"]


def apply_obj(which, obj, tensors, gmode="plain", kw=True):
    """one call of a kernel / corrector under a grad mode; returns (outputs, raised_in_inference)"""
    import contextlib
    tensors = tuple(tensors)
    marked = []
    if gmode in ("req_R", "req_both", "graph") or (gmode == "req_J" and which == "kernel"):
        marked.append(0)
    if gmode in ("req_J", "req_both") and which != "kernel":
        marked.append(1)
    ts = list(tensors)
    for i in marked:
        if ts[i].is_floating_point():
            if gmode == "graph":
                ts[i] = ts[i].clone().requires_grad_(True) * 1.0          # a non-leaf inside an autograd graph
            elif ts[i].is_leaf and not ts[i].requires_grad:
                ts[i].requires_grad_(True)
    try:
        with contextlib.ExitStack() as stack:
            if gmode in ("no_grad", "enable_grad"):
                stack.enter_context(torch.no_grad())
            if gmode == "enable_grad":
                stack.enter_context(torch.enable_grad())          # re-enabled inside an ambient no_grad
            if gmode == "inference":
                stack.enter_context(torch.inference_mode())
            if which == "kernel":
                out = (obj(input=ts[0]),) if kw else (obj(ts[0]),)
            elif kw:
                out = tuple(obj(R=ts[0], J=ts[1]))
            else:
                out = tuple(obj(ts[0], ts[1]))
    finally:
        for i in marked:
            if gmode != "graph" and tensors[i].is_leaf and tensors[i].requires_grad:
                tensors[i].requires_grad_(False)
    return out


def hfail(ctx, case, what):
    ctx.fail(case, what)


def make_copy(obj, how):
    import copy
    import pickle
    if how == "deepcopy":
        return copy.deepcopy(obj), how
    if how == "copy":
        return copy.copy(obj), how
    try:
        return pickle.loads(pickle.dumps(obj)), how
    except Exception:
        return copy.deepcopy(obj), "pickle-unsupported"      # FastTriggs holds a lambda: not picklable (observation, notes)


def overlaps_internally(t):
    return t.numel() > 1 and any(st == 0 and sz > 1 for st, sz in zip(t.stride(), t.shape))


def check_history(ctx: Ctx, case, lines=None, metas=None):
    """see the header of this section; hardening pass 2: several objects (sharing kernels, copies of each other) interleaved
    in one history, grad modes, keyword / positional calls, Parameter inputs, failing calls in between (atomicity),
    outputs overwritten in place by the caller"""
    kspecs = case.get("kernels", [case.get("spec")])
    odefs = case.get("objects", [{"which": case.get("which"), "kernel": 0}])
    kobjs = [build_kernel(sp) for sp in kspecs]
    objs = [None] * len(odefs)

    def get_obj(i):
        if objs[i] is None:
            od = odefs[i]
            if "copy_of" in od:
                src = get_obj(od["copy_of"])
                o, how = make_copy(src["obj"], od["how"])
                ctx.count(f"history.copy.{how}")
                ko = o if src["which"] == "kernel" else (getattr(o, "kernel", None) or src["kobj"])
                objs[i] = {"obj": o, "kobj": ko, "which": src["which"], "spec": src["spec"]}
            else:
                ko = kobjs[od["kernel"]]
                o = ko if od["which"] == "kernel" else build_corrector(od["which"], ko)
                objs[i] = {"obj": o, "kobj": ko, "which": od["which"], "spec": kspecs[od["kernel"]]}
            objs[i]["st0"], objs[i]["kst0"] = pub_state(objs[i]["obj"]), pub_state(objs[i]["kobj"])
        return objs[i]

    for i, od in enumerate(odefs):
        if "copy_of" not in od:
            get_obj(i)
    rng = random.Random(case["data_seed"])
    held_alias = False
    held = None            # caller-held tensors of the previous call (for the in-place / stale-read calls)
    held_key = None
    kept = {}              # object index -> (returned tensors, their values) of its previous call, still held by the caller
    for ci, call in enumerate(case["calls"]):
        cc = {**clean(case), "call": ci}
        O = get_obj(call.get("obj", 0))
        which, spec, obj, kobj = O["which"], O["spec"], O["obj"], O["kobj"]
        if call.get("kparams") is not None and hasattr(kobj, "vfh09_p"):
            # the caller changes the private state behind the kernel's parameter properties: every later call must follow it
            kobj.vfh09_p = list(call["kparams"][:len(kobj.vfh09_p)])
            O["spec"] = spec = {**spec, "p": list(call["kparams"])}
        dtn = call["dtype"]
        eps = EPSD[dtn]
        gmode = call.get("gmode", "no_grad" if call.get("nograd") else "plain")
        kwm = call.get("kw", True)
        ref_in = history_call_data(which, spec, call)
        layout = call["layout"]
        fresh_k = build_kernel(spec)
        fresh = fresh_k if which == "kernel" else build_corrector(which, fresh_k)
        # ---- a deliberately failing call in between: must raise and leave everything as it was (atomicity)
        if call.get("fail"):
            # only exceptions that a VALID use produces (scope rule): the documented non-negativity assertion of a kernel,
            # a user kernel callback that raises inside a corrector, FastTriggs' documented refusal of inference mode
            bad = [t.clone() for t in ref_in]
            how = None
            if which == "kernel" and bad[0].numel() and spec["kind"] != "poly":
                flat = bad[0].reshape(-1)
                flat[rng.randrange(flat.numel())] = -abs(float(own_scale(spec))) * 0.3 - 1e-3
                how = "negative"
            elif spec["kind"] == "poly" and hasattr(kobj, "vfh09_armed"):
                kobj.vfh09_armed = True
                how = "callback"
            elif which == "fast":
                how = "inference"
            if how is None:
                continue
            try:
                apply_obj(which, obj, bad, "inference" if how == "inference" else "plain", kwm)
                raised = False
            except Exception:
                raised = True
            finally:
                if how == "callback":
                    kobj.vfh09_armed = False
            ctx.count(f"history.failing-call.{how}.{'raised' if raised else 'accepted'}")
            if how == "negative" and not raised:
                ctx.fail(cc, f"negative-accepted: {spec['kind']}{spec['p']} accepts a tensor with a negative element in the middle of a history")
                return
            if pub_state(obj) != O["st0"] or pub_state(kobj) != O["kst0"]:
                ctx.fail(cc, f"history-atomic: a call that raised ({how}) changed public attributes of the {which}/{spec['kind']} object")
                return
            continue            # the following calls must behave as if the failed call had never happened (compared with fresh)
        try:
            key = (which, tuple(tuple(t.shape) for t in ref_in), dtn)
            if layout == "inplace" and held is not None and not held_alias and held_key == key:
                # the caller updates the tensors it still holds, in place, to the new values (three different in-place routes)
                for h, r in zip(held, ref_in):
                    if h.numel():
                        h.mul_(0.5)
                        h.copy_(r)
                        h[(0,) * h.dim()] = r[(0,) * r.dim()]
                views, bases = held, [h for h in held]
            elif layout == "alias" and which != "kernel":
                V, base = lay_out(ref_in[1], "contig", rng)
                views, bases = (V.reshape(ref_in[0].shape), V), [base]
            else:
                pairs = [lay_out(t, layout, rng) for t in ref_in]
                views, bases = tuple(p[0] for p in pairs), [p[1] for p in pairs]
            if call.get("ptype") == "parameter" and layout not in ("alias", "inplace"):
                views = tuple(nn.Parameter(v, requires_grad=bool(ci % 2)) if v.is_floating_point() else v for v in views)
            before = [b.detach().clone() for b in bases]
        except Exception as e:
            hfail(ctx, cc, f"history-raises: preparing / fresh {which}({spec['kind']}) call {ci} raises {type(e).__name__}: {str(e)[:120]}")
            held = None
            continue
        try:
            out = apply_obj(which, obj, views, gmode, kwm)
        except Exception as e:
            if gmode == "inference" and which != "kernel":
                # FastTriggs documents that it refuses inference mode; Triggs fails there too: a refusal is legal, but atomic
                ctx.count(f"history.inference-refused.{which}")
                if pub_state(obj) != O["st0"] or pub_state(kobj) != O["kst0"]:
                    ctx.fail(cc, f"history-atomic: the refused inference-mode call changed public attributes of the {which} object")
                    return
                held = None
                continue
            hfail(ctx, cc, f"history-raises: {which}({spec['kind']}) call {ci} (layout {layout}, dtype {dtn}, grad mode {gmode}, "
                         f"{'keyword' if kwm else 'positional'}, shapes {[tuple(t.shape) for t in ref_in]}) raises {type(e).__name__}: {str(e)[:120]}")
            held = None
            continue            # the object lives on: later calls of the history are still checked
        # the reference AFTER the real call: a fresh object must not warm any module-level cache before the call under test
        try:
            ref = apply_obj(which, fresh, tuple(t.clone() for t in ref_in), "plain", True)
        except Exception as e:
            hfail(ctx, cc, f"history-raises: a fresh {which}({spec['kind']}) on plain contiguous copies raises after call {ci} (grad mode {gmode}): {type(e).__name__}: {str(e)[:120]}")
            held = None
            continue
        held = tuple(v.detach() if isinstance(v, nn.Parameter) else v for v in views)
        held_key = key
        held_alias = layout == "alias" and which != "kernel"
        if gmode == "inference":
            held = None
        names = ["y"] if which == "kernel" else ["R'", "J'"]
        # purity, bit for bit, including the storage outside a view
        for b, b0 in zip(bases, before):
            if not torch.equal(torch.nan_to_num(b.detach(), nan=1.5), torch.nan_to_num(b0, nan=1.5)):
                ctx.fail(cc, f"history-mutates: {which}({spec['kind']}) call {ci} (layout {layout}) changed the caller's storage")
                return
        # same VALUES as a fresh object on plain contiguous copies, whatever the grad mode / argument type / call syntax
        ampc = 1.0
        if which != "kernel" and ref_in[0].numel():
            ampc = max(item_amp(spec, float(x)) for x in ref_in[0].double().square().sum(-1).flatten().tolist())
        extra = None
        for nm, o, r, vin in zip(names, out, ref, views):
            if not isinstance(o, torch.Tensor):
                ctx.fail(cc, f"history-type: {which} returned {type(o).__name__} for {nm}")
                return
            if nm == "J'" and which == "triggs" and r.numel():
                extra = 16 * eps * r.detach().double().abs().amax() * 4          # rank-one part: relative to the item scale
            if not close_to(o, r, eps * ampc, extra if nm == "J'" else None):
                dd = (o.detach().double() - r.detach().double()).abs().max().item() if tuple(o.shape) == tuple(r.shape) and o.numel() else float("nan")
                ctx.fail(cc, f"history-fresh: {which}({spec['kind']}{spec['p']}) call {ci} on object {call.get('obj', 0)} (reused / layout {layout} / dtype {dtn} / "
                             f"grad mode {gmode} / {'keyword' if kwm else 'positional'} / {call.get('ptype', 'tensor')}): {nm} (shape {tuple(o.shape)} {o.dtype}) "
                             f"differs from a fresh object on plain contiguous copies (shape {tuple(r.shape)} {r.dtype}, max |diff| {dd:.3e})")
                return
            if o.numel() and vin.numel() and o.untyped_storage().data_ptr() == vin.untyped_storage().data_ptr():
                ctx.fail(cc, f"history-alias: {which} call {ci}: output {nm} shares storage with the caller's input")
                return
            if overlaps_internally(o):
                ctx.fail(cc, f"history-overlap: {which} call {ci}: output {nm} overlaps itself (strides {o.stride()} for shape {tuple(o.shape)})")
                return
        if len(out) == 2 and out[0].numel() and out[1].numel() and out[0].untyped_storage().data_ptr() == out[1].untyped_storage().data_ptr():
            ctx.fail(cc, f"history-overlap: {which} call {ci}: R' and J' share storage")
            return
        # public attributes (of this object and of every other object of the history: no cross-talk)
        for oi, Oo in enumerate(objs):
            if Oo is not None and (pub_state(Oo["obj"]) != Oo["st0"] or pub_state(Oo["kobj"]) != Oo["kst0"]):
                ctx.fail(cc, f"history-state: public attributes of object {oi} ({Oo['which']}/{Oo['spec']['kind']}) changed during call {ci} on object {call.get('obj', 0)}")
                return
        out_vals = tuple(o.detach().clone() for o in out)
        # results returned EARLIER (by any object of the history) still hold their values: no shared output buffer / state
        for oi2, (ots, ovs) in list(kept.items()):
            for o_old, v_old in zip(ots, ovs):
                if not torch.equal(torch.nan_to_num(o_old.detach(), nan=1.5), torch.nan_to_num(v_old, nan=1.5)):
                    ctx.fail(cc, f"history-overlap: a result returned earlier by object {oi2} changed when object {call.get('obj', 0)} ({which}) was called again "
                                 f"(call {ci}): results do not own their memory")
                    return
        if gmode != "inference" and not call.get("mutate_out"):
            kept[call.get("obj", 0)] = (out, out_vals)
        else:
            kept.pop(call.get("obj", 0), None)
        if call.get("mutate_out") and gmode != "inference":
            # the caller owns the results: overwriting them in place must not reach the inputs, the module or a later call
            with torch.no_grad():
                for o in out:
                    if o.numel():
                        o.detach().mul_(0).sub_(123.0)
            for b, b0 in zip(bases, before):
                if not torch.equal(torch.nan_to_num(b.detach(), nan=1.5), torch.nan_to_num(b0, nan=1.5)):
                    ctx.fail(cc, f"history-alias: overwriting the outputs of {which} call {ci} in place changed the caller's inputs")
                    return
        out = out_vals
        # item alone == item in the batch
        try:
            if which == "kernel":
                flat_in, flat_out = ref_in[0].reshape(-1), out[0].reshape(-1)
                for i in sorted({0, flat_in.numel() // 2, flat_in.numel() - 1}) if flat_in.numel() else []:
                    alone = fresh(flat_in[i:i + 1].clone())
                    if not close_to(alone.reshape(()), flat_out[i], eps):
                        ctx.fail(cc, f"history-itemwise: {spec['kind']}{spec['p']} element {i} in the batch {float(flat_out[i])!r} != alone {float(alone)!r} (x={float(flat_in[i])!r})")
                        return
            else:
                N, d, p = int(math.prod(call["batch"])), ref_in[0].shape[-1], ref_in[1].shape[-1]
                Rn, Jn = ref_in[0].reshape(N, d), ref_in[1].reshape(N, d, p)
                Ro, Jo = out[0].reshape(N, d), out[1].reshape(N, d, p)
                for i in sorted({0, N // 2, N - 1}) if N else []:
                    ra, ja = fresh(R=Rn[i:i + 1].clone(), J=Jn[i].clone())
                    ex = 16 * eps * Jo[i].double().abs().amax() * 4 if which == "triggs" else None
                    if not (close_to(ra.reshape(d), Ro[i], eps * ampc) and close_to(ja.reshape(d, p), Jo[i], eps * ampc, ex)):
                        ctx.fail(cc, f"history-itemwise: {which}({spec['kind']}{spec['p']}) item {i} of a batch of {N} differs from the same item alone "
                                     f"(R_i={Rn[i].tolist()}, batch norms^2 {Rn.double().square().sum(-1).tolist()[:6]})")
                        return
        except Exception as e:
            ctx.fail(cc, f"history-raises: {which}({spec['kind']}) on a single item raises {type(e).__name__}: {str(e)[:120]}")
            return
        # the laws and the model on this call
        if which != "kernel":
            N = int(math.prod(call["batch"]))
            sub = {**cc, "which": which, "spec": spec, "dtype": dtn, "batch": call["batch"], "d": ref_in[0].shape[-1], "p": ref_in[1].shape[-1]}
            if N and bool(torch.isfinite(out[0]).all()) and bool(torch.isfinite(out[1]).all()) and not (spec["kind"] == "poly" and not poly_admissible_x(spec, ref_in[0])):
                msk = corrector_oracles(ctx, sub, ref_in[0], ref_in[1], out[0], out[1])
                if lines is not None and msk is not None:
                    lines.append(corrector_line(sub, ref_in[0], ref_in[1]))
                    metas.append((clean(sub) | {"_mask": [bool(m) for m in msk]}, ref_in[0], ref_in[1], out[0], out[1]))
            elif N and not (bool(torch.isfinite(out[0]).all()) and bool(torch.isfinite(out[1]).all())):
                ctx.fail(cc, f"corrector-finite: {which}({spec['kind']}{spec['p']}) call {ci} returns non-finite values")
                return
        elif ref_in[0].numel() and spec["kind"] != "poly":
            kernel_value_oracle(ctx, cc, spec, dtn, ref_in[0], out[0])
        if which == "kernel" and ref_in[0].numel() and lines is not None:
            sub = {**cc, "spec": spec, "dtype": dtn, "shape": call["shape"]}
            lines.append(kernel_line(sub, ref_in[0]))
            metas.append((sub, ref_in[0], out[0]))


def poly_admissible_x(spec, R):
    c1, c2, c3 = spec["p"]
    for x in R.double().square().sum(-1).flatten().tolist():
        t1 = [c1, 2 * c2 * x, 3 * c3 * x * x]
        if sum(t1) <= 0 or sum(abs(t) for t in t1) > 4 * sum(t1):
            return False
        t2 = [2 * c2, 6 * c3 * x]
        if sum(t2) != 0 and sum(abs(t) for t in t2) > 16 * abs(sum(t2)):
            return False
    return True


def gen_history_case(rng, which, spec, ncalls=6, objects=None, kernels=None):
    """`objects` / `kernels`: several objects in one history (see check_history); calls then pick an object at random"""
    calls = []
    prev = None
    nobj = len(objects) if objects else 1

    def which_of(oi):
        if not objects:
            return which
        od = objects[oi]
        while "copy_of" in od:
            od = objects[od["copy_of"]]
        return od["which"]

    for ci in range(ncalls):
        oi = rng.randrange(nobj)
        w = which_of(oi)
        layout = LAYOUTS[(ci + rng.randrange(len(LAYOUTS))) % len(LAYOUTS)] if ci else "contig"
        if w == "kernel" and layout == "alias":
            layout = "strided"
        call = {"obj": oi, "dtype": rng.choice(["float64", "float32"]), "layout": layout, "data_seed": rng.randrange(1 << 30),
                "zero": rng.random() < 0.5, "gmode": GMODES[(ci * 3 + rng.randrange(len(GMODES))) % len(GMODES)] if rng.random() < 0.8 else "plain",
                "kw": rng.random() < 0.6, "ptype": "parameter" if rng.random() < 0.2 else "tensor", "mutate_out": rng.random() < 0.5}
        if ci and rng.random() < 0.15:
            call["fail"] = True
        if layout == "inplace" and prev is not None and which_of(prev["obj"]) == w:
            for k in ("dtype", "shape", "batch", "d", "p"):          # same tensors, new values
                if k in prev:
                    call[k] = prev[k]
        elif w == "kernel":
            call["shape"] = [rng.choice([0, 1, 2, 3, 5]) for _ in range(rng.randint(0, 3))]
        else:
            call["batch"] = [rng.choice([0, 1, 2, 3, 4]) if rng.random() < 0.12 else rng.choice([1, 2, 3, 4]) for _ in range(rng.randint(0, 3))]
            call["d"], call["p"] = rng.randint(1, 6), rng.randint(1, 5)
            if rng.random() < 0.15:                 # special sizes: N = d = p
                k = rng.choice([1, 2, 3, 5])
                call["batch"], call["d"], call["p"] = [k], k, k
            if layout == "alias":
                call["d"], call["p"] = 1, 1
        calls.append(call)
        if "fail" not in call:
            prev = call
    case = {"stream": "history", "which": which, "spec": spec, "calls": calls, "data_seed": rng.randrange(1 << 30)}
    if objects:
        case["objects"], case["kernels"] = objects, kernels
    return case


def multi_objects(rng, kspecs):
    """FastTriggs and Triggs sharing one kernel object with the bare kernel, a second kernel of another kind, and copies
    (deepcopy / copy / pickle round trip) of the correctors — all used interleaved in one history"""
    objects = [{"which": "fast", "kernel": 0}, {"which": "triggs", "kernel": 0}, {"which": "kernel", "kernel": 0},
               {"which": "triggs", "kernel": 1}, {"which": "fast", "kernel": 1}]
    for how in ("deepcopy", "copy", "pickle"):
        objects.append({"copy_of": rng.randrange(5), "how": how})
    return objects


def run_history(ctx: Ctx, cases):
    lines, metas = [], []
    for case in cases:
        n0 = len(lines)
        guard(ctx, case, lambda: check_history(ctx, case, lines, metas))
        ctx.note_case(("history", case["which"], case["spec"]["kind"], len(case.get("objects", [0])), tuple(c["layout"] for c in case["calls"]),
                       tuple(c.get("gmode", "") for c in case["calls"]), case["data_seed"] % 5), True)
        ctx.count(f"history.{'multi' if 'objects' in case else case['which']}.{case['spec']['kind']}")
        for c in case["calls"]:
            ctx.count(f"history.layout.{c['layout']}")
            ctx.count(f"history.dtype.{c['dtype']}")
            ctx.count(f"history.gmode.{c.get('gmode', 'no_grad' if c.get('nograd') else 'plain')}")
            ctx.count(f"history.call-syntax.{'keyword' if c.get('kw', True) else 'positional'}")
        ctx.count("history.vfh09_calls-to-model", len(lines) - n0)
    reps = ctx.driver.run(lines)
    for rep, meta in zip(reps, metas):
        if len(meta) == 3:
            compare_kernel(ctx, meta[0], meta[1], meta[2], rep)
        else:
            compare_corrector(ctx, meta[0], meta[1], meta[2], meta[3], meta[4], rep, stream="history")


def guard(ctx: Ctx, case, fn):
    """a misbehaving implementation (exception anywhere below the harness) is a failing input, never a harness crash"""
    import traceback
    try:
        return fn()
    except common.InfraError:
        raise
    except Exception as e:
        tb = traceback.format_exc()
        # the unchanged tree never raises here (seeds 0..9, both tiers), so whatever raises is the implementation's doing:
        # an unexpected return type / shape / exception is a failing input of the property, not a harness verdict (exit 2)
        where = "implementation" if ("/pypose/" in tb or "/torch/" in tb) else "handling the implementation's result"
        ctx.fail(clean(case), f"implementation-crash: {type(e).__name__} in {where}: {str(e)[:160]} | {tb.strip().splitlines()[-3].strip()[:120]}")
        return None


# ----------------------------------------------------------------------------- lessons 19 and 23 (round 4)

def mode_order_cases():
    """lesson 23: a module-level cache filled under one grad mode and read under another. Two INSTANCES of the same kernel /
    corrector, one shape/dtype key per history that no other part of the run uses (these histories run first, so the key is
    fresh in the process for the first mode), the grad modes in several orders on that same key."""
    out = []
    keys = [([17], 5, 3), ([19, 1], 2, 1), ([1, 23], 4, 2), ([29], 1, 1), ([31, 1, 1], 6, 2), ([37], 3, 3), ([41], 5, 1), ([43, 1], 3, 2),
            ([47], 6, 1), ([53], 2, 2), ([1, 59], 1, 3), ([61], 4, 1)]
    orders = [["no_grad", "plain", "req_R", "graph", "enable_grad"], ["inference", "plain", "req_both", "no_grad"],
              ["plain", "no_grad", "inference", "req_J", "graph"], ["enable_grad", "inference", "graph", "plain"],
              ["req_R", "no_grad", "plain"], ["graph", "inference", "no_grad", "req_both"]]
    specs = [("kernel", {"kind": kd, "p": [float(v) for v in CORPUS_SPECS[kd][1]]}) for kd in BUILTIN] + [
             ("fast", {"kind": "cauchy", "p": [0.5, 0.0, 0.0]}), ("triggs", {"kind": "cauchy", "p": [0.5, 0.0, 0.0]}),
             ("triggs", {"kind": "poly", "p": [1.0, 0.5, 0.0], "form": "sub:Scale"}), ("fast", {"kind": "scale", "p": [0.5, 0.0, 0.0]})]
    for si, (which, spec) in enumerate(specs):
        for oi in range(2):
            batch, d, p = keys[(2 * si + oi) % len(keys)] if which == "kernel" else keys[(si + 5 * oi) % len(keys)]
            if which == "kernel":
                batch, d = [], 67 + 2 * si + oi          # kernels: a 1-D length no other part of the run uses
            dtn = "float32" if (si + oi) % 2 else "float64"
            calls = []
            # kernels work under inference_mode: their first history always STARTS there (the poisoning order), the second varies
            for ci, gm in enumerate(orders[(si + oi) % len(orders)] if which != "kernel" else (orders[1] if oi == 0 else orders[si % len(orders)])):
                call = {"obj": ci % 2, "dtype": dtn, "layout": "contig", "data_seed": 9900 + 7 * si + ci, "zero": False, "gmode": gm,
                        "kw": True, "ptype": "tensor", "mutate_out": False}
                if which == "kernel":
                    call["shape"] = batch + [d]
                else:
                    call["batch"], call["d"], call["p"] = batch, d, p
                calls.append(call)
            out.append({"stream": "history", "which": which, "spec": spec, "calls": calls, "data_seed": 5151 + si,
                        "objects": [{"which": which, "kernel": 0}, {"which": which, "kernel": 1}], "kernels": [spec, spec]})
    return out


LARGE_SIZES_QUICK = [16384, 16385, 65536, 65537, 2 ** 18 + 37]
LARGE_SIZES_THOROUGH = [2 ** k + e for k in range(10, 17) for e in (-1, 0, 1)] + [131073, 2 ** 18 + 1, 2 ** 18 + 37, 2 ** 20 + 1]


def large_inputs(which, spec, dtn, n, d, p, seed):
    g = torch.Generator().manual_seed(seed)
    s0 = own_scale(spec) if spec["kind"] != "poly" else 1.0
    cap = x_cap(spec, dtn)
    if which == "kernel":
        u = torch.rand(n, generator=g, dtype=torch.float64)
        x = (s0 * torch.exp(12 * u - 6)).clamp(max=cap)
        x[torch.rand(n, generator=g) < 0.02] = 0.0
        x[-1] = s0 * 1.37                  # the LAST element is an ordinary one
        return (x.to(DT[dtn]),)
    u = torch.rand(n, 1, generator=g, dtype=torch.float64)
    nv = math.sqrt(s0) * torch.exp(6 * u - 3) if spec["kind"] != "poly" else torch.exp(3 * u - 2.5)
    dirs = torch.randn(n, d, generator=g, dtype=torch.float64)
    R = nv * dirs / dirs.norm(dim=-1, keepdim=True).clamp(min=1e-12)
    if spec["kind"] != "poly":
        R[torch.rand(n, generator=g) < 0.02] = 0.0
    R[-1] = math.sqrt(s0 if spec["kind"] != "poly" else 1.0) * 0.8 * torch.ones(d, dtype=torch.float64) / math.sqrt(d)
    J = torch.randn(n * d, p, generator=g, dtype=torch.float64)
    return R.to(DT[dtn]), J.to(DT[dtn])


def run_large(ctx: Ctx):
    """lesson 19: batches of 2^k, 2^k +- 1 items (> 2^14 and > 2^16 in quick) in several shapes. Model-free oracles: the call on the
    whole batch equals the calls on two parts stacked (several cut points) and the call on single items (first / LAST / random);
    then the Lean model and the laws on a sample that contains the last item."""
    rng = ctx.rng
    sizes = LARGE_SIZES_QUICK if ctx.quick else LARGE_SIZES_THOROUGH
    jobs = []
    for n in sizes:
        for kind in (BUILTIN if n in (16385, 65537, 2 ** 18 + 37, 2 ** 20 + 1) or not ctx.quick else [rng.choice(BUILTIN)]):
            jobs.append(("kernel", gen_spec(rng, kind) if kind != "tolerant" else {"kind": kind, "p": [1.0, -0.1, 0.0]}, n))
        for which in ("fast", "triggs"):
            cspecs = [{"kind": "cauchy", "p": [0.7, 0.0, 0.0]}, {"kind": "huber", "p": [1.0, 0.0, 0.0]},
                      {"kind": "poly", "p": [1.0, 0.5, 0.0], "form": rng.choice(USER_FORMS)}]
            for spec in (cspecs if n < 2 ** 17 else cspecs[2:] if ctx.quick else cspecs):
                jobs.append((which, spec, n))
    lines, metas = [], []
    for which, spec, n in jobs:
        dtn = rng.choice(["float64", "float32"])
        eps = EPSD[dtn]
        d, p = (1, 1) if which == "kernel" else (rng.choice([1, 2, 3]), rng.choice([1, 2]))
        case = {"stream": "large", "which": which, "spec": spec, "dtype": dtn, "n": n, "d": d, "p": p, "data_seed": rng.randrange(1 << 30)}
        shapes = [[n]] + [[a, n // a] for a in (16, 256) if n % a == 0] + [[1, n]]
        case["batch"] = rng.choice(shapes)
        ctx.note_case(("large", which, spec["kind"], n, tuple(case["batch"]), dtn), True)
        ctx.count(f"large.{which}.n{n}")

        def body():
            tin = large_inputs(which, spec, dtn, n, d, p, case["data_seed"])
            kobj = build_kernel(spec)
            obj = kobj if which == "kernel" else build_corrector(which, kobj)

            def call(ts, batch=None):
                if which == "kernel":
                    return (obj(ts[0].reshape(batch) if batch else ts[0]).reshape(-1),)
                r, j = obj(R=ts[0].reshape(list(batch) + [d]) if batch else ts[0], J=ts[1])
                return r.detach().reshape(-1, d), j.detach()
            full = call(tin, case["batch"])
            # vector lanes vs scalar tails may round the transcendental functions differently: absolute slack of a few ulps of the
            # formula's own intermediates (kernels) / of the item scale (Triggs' rank-one part)
            kex = 16 * eps * (val_scale(spec, 0.0) + val_scale(spec, own_scale(spec))) if which == "kernel" and spec["kind"] != "poly" else None
            for o in full:
                if not bool(torch.isfinite(o).all()):
                    bad = int((~torch.isfinite(o.reshape(o.shape[0], -1)).all(-1)).nonzero()[0])
                    ctx.fail(case, f"large-finite: {which}({spec['kind']}) on {n} items (shape {case['batch']}): non-finite output at flat row {bad} of {o.shape[0]}")
                    return
            # split consistency
            for a in sorted({1, n // 2, n - 1, 16384 if n > 16384 else n // 3}):
                if which == "kernel":
                    parts = [call((tin[0][:a],)), call((tin[0][a:],))]
                else:
                    parts = [call((tin[0][:a], tin[1][:a * d])), call((tin[0][a:], tin[1][a * d:]))]
                for oi_, o in enumerate(full):
                    st = torch.cat([parts[0][oi_], parts[1][oi_]])
                    if not close_to(st, o, eps, kex if which == "kernel" else (16 * eps * o.double().abs().amax() * 4 if which == "triggs" and oi_ == 1 else None)):
                        diff = (st.double() - o.double()).abs().reshape(o.shape[0], -1).amax(-1)
                        ctx.fail(case, f"large-split: {which}({spec['kind']}) on {n} items: f(x) != cat(f(x[:{a}]), f(x[{a}:])) — first differing flat row "
                                       f"{int((diff > 0).nonzero()[0])}, max |diff| {float(diff.max()):.3e}")
                        return
            # single items: first, LAST, random
            # first, LAST, random, and the first / last element of the tail n % 2^k for several block sizes (lesson 34)
            idx = sorted({0, n - 1, n - 2} | {rng.randrange(n) for _ in range(5)}
                         | {(n // 2 ** k_) * 2 ** k_ for k_ in (8, 10, 14, 16, 18) if (n // 2 ** k_) * 2 ** k_ < n})
            for i in idx:
                if which == "kernel":
                    alone = call((tin[0][i:i + 1],))
                    ok = close_to(alone[0], full[0][i:i + 1], eps, kex)
                else:
                    alone = call((tin[0][i:i + 1], tin[1][i * d:(i + 1) * d]))
                    ok = close_to(alone[0], full[0][i:i + 1], eps) and close_to(alone[1], full[1][i * d:(i + 1) * d], eps,
                                                                                   16 * eps * alone[1].double().abs().amax() * 4 if which == "triggs" else None)
                if not ok:
                    ctx.fail(case, f"large-item: {which}({spec['kind']}) on {n} items (shape {case['batch']}): item {i}{' (the last one)' if i == n - 1 else ''} differs from the call on that item alone")
                    return
            # the model and the laws on the sample
            sel = torch.tensor(idx)
            if which == "kernel":
                xs_, ys_ = tin[0][sel], full[0][sel]
                sub = {**case, "shape": [len(idx)]}
                if spec["kind"] != "poly":
                    kernel_value_oracle(ctx, sub, spec, dtn, xs_, ys_)
                lines.append(kernel_line(sub, xs_))
                metas.append((sub, xs_, ys_))
            else:
                Rs_, Js_ = tin[0][sel], tin[1].reshape(n, d, p)[sel].reshape(len(idx) * d, p)
                Ro_, Jo_ = full[0][sel], full[1].reshape(n, d, p)[sel].reshape(len(idx) * d, p)
                sub = {**case, "batch": [len(idx)]}
                msk = corrector_oracles(ctx, sub, Rs_, Js_, Ro_, Jo_)
                if msk is not None:
                    lines.append(corrector_line(sub, Rs_, Js_))
                    metas.append((clean(sub) | {"_mask": [bool(m) for m in msk]}, Rs_, Js_, Ro_, Jo_))
        guard(ctx, case, body)
    reps = ctx.driver.run(lines)
    for rep, meta in zip(reps, metas):
        if len(meta) == 3:
            compare_kernel(ctx, meta[0], meta[1], meta[2], rep)
        else:
            compare_corrector(ctx, meta[0], meta[1], meta[2], meta[3], meta[4], rep, stream="large")


# ----------------------------------------------------------------------------- round-5 lessons (29-36)

HALF_SPECS = [{"kind": "huber", "p": [1.0, 0, 0]}, {"kind": "huber", "p": [0.5, 0, 0]}, {"kind": "pseudohuber", "p": [2.0, 0, 0]},
              {"kind": "cauchy", "p": [1.0, 0, 0]}, {"kind": "softlone", "p": [1.0, 0, 0]}, {"kind": "arctan", "p": [0.5, 0, 0]},
              {"kind": "tolerant", "p": [1.0, -0.25, 0]}, {"kind": "tolerant", "p": [2.0, -1.0, 0]}, {"kind": "scale", "p": [0.5, 0, 0]}]
HALF_VALS = [0.0, 2.0 ** -9, 0.0078125, 0.0625, 0.25, 0.4375, 0.5, 1.0 - 2.0 ** -7, 1.0, 1.0 + 2.0 ** -7, 1.5, 2.0, 3.96875, 4.0, 5.0, 17.0, 30.0]
HALF_ROWS3 = [[0.0, 0.0, 0.0], [0.046875, 0.0, 0.03125], [0.5, -0.25, 0.25], [1.0, 0.0, 0.0], [0.0, -0.5, 0.0], [0.75, 1.0, 0.0],
              [1.0, 1.0, -0.5], [2.0, -1.5, 1.0]]


def narrow_dtype_corpus():
    """lesson 30: every floating dtype the entry points accept — float16 and bfloat16 inputs (kernels and both correctors), value AND
    dtype of the result (16 ulp of the 16-bit format, the result must keep the input dtype)"""
    K, Cr, H = [], [], []
    for dtn in HALVES:
        for spec in HALF_SPECS:
            sp = {"kind": spec["kind"], "p": [float(v) for v in spec["p"]]}
            K.append({"stream": "kernel", "spec": sp, "dtype": dtn, "shape": [len(HALF_VALS)], "data_seed": 1, "vals": HALF_VALS})
        for which in ("fast", "triggs"):
            for sp in ({"kind": "huber", "p": [1.0, 0.0, 0.0]}, {"kind": "cauchy", "p": [1.0, 0.0, 0.0]}, {"kind": "tolerant", "p": [1.0, -0.25, 0.0]},
                       {"kind": "scale", "p": [0.5, 0.0, 0.0]}, {"kind": "poly", "p": [1.0, 0.25, 0.0], "form": "sub:Scale"},
                       {"kind": "poly", "p": [1.0, 0.0, 0.0], "affine": True, "form": "ret-input"}):
                Cr.append({"stream": which, "which": which, "dtype": dtn, "batch": [2, 4], "d": 3, "p": 2, "data_seed": 31, "nograd": which == "fast",
                           "force_zero_row": False, "rows": HALF_ROWS3, "spec": sp, **({"regime": "convex"} if sp["kind"] == "poly" and not sp.get("affine") else {})})
        for which, sp in (("kernel", {"kind": "cauchy", "p": [1.0, 0.0, 0.0]}), ("triggs", {"kind": "huber", "p": [1.0, 0.0, 0.0]})):
            calls = []
            for ci, (gm, d2) in enumerate((("plain", dtn), ("no_grad", "float32"), ("req_R", dtn), ("plain", "float64"), ("graph", dtn))):
                call = {"obj": 0, "dtype": d2, "layout": "contig" if ci % 2 == 0 else "strided", "data_seed": 8100 + ci, "zero": True, "gmode": gm,
                        "kw": True, "ptype": "tensor", "mutate_out": bool(ci % 2), "norm_cap_half": True}
                if which == "kernel":
                    call["shape"] = [5]
                else:
                    call["batch"], call["d"], call["p"] = [3], 2, 2
                calls.append(call)
            H.append({"stream": "history", "which": which, "spec": sp, "calls": calls, "data_seed": 6161})
    return K, Cr, H


def run_int_kernels(ctx: Ctx):
    """lesson 30, integer inputs (not documented — differential expectation read off the unchanged tree): the six kernels without
    index assignment promote int64 / int32 / uint8 input to the default float dtype and return the closed form there; Huber
    (`output[mask] = input[mask]` into `zeros_like(input)`) refuses integers — counted, not judged."""
    xs = [0, 1, 2, 5, 17, 100]
    for kind in BUILTIN:
        spec = {"kind": kind, "p": [1.0, -1.0, 0.0] if kind == "tolerant" else [0.5 if kind == "scale" else 1.0, 0.0, 0.0]}
        for tdt in (torch.int64, torch.int32, torch.uint8):
            case = {"stream": "int-kernel", "spec": spec, "dtype": str(tdt).replace("torch.", "")}
            x = torch.tensor(xs, dtype=tdt)
            kobj = build_kernel(spec)
            try:
                y = kobj(x)
            except Exception as e:
                ctx.count(f"int-kernel.{kind}.raises.{type(e).__name__}")
                if kind != "huber":
                    ctx.fail(case, f"int-input: {CLS[kind]} raises {type(e).__name__} on {case['dtype']} input (the unchanged tree promotes to the default float dtype)")
                continue
            ctx.note_case(("int-kernel", kind, case["dtype"]), True)
            ctx.count(f"int-kernel.{kind}.{str(y.dtype).replace('torch.', '')}")
            if not torch.equal(x, torch.tensor(xs, dtype=tdt)):
                ctx.fail(case, f"kernel-mutates: {CLS[kind]} changed its {case['dtype']} input")
            if y.dtype != torch.get_default_dtype() or tuple(y.shape) != tuple(x.shape):
                ctx.fail(case, f"int-input: {CLS[kind]} on {case['dtype']} input returns {y.dtype} {tuple(y.shape)}, expected the default float dtype {torch.get_default_dtype()}")
                continue
            kernel_value_oracle(ctx, case, spec, "float32", x.double(), y)


def sandwich_ops():
    """every public operation of the two modules, on degenerate shapes too (a single item, all-ones batch, d = 1), with backward passes"""
    K, C = ppk(), ppc()
    ops = []
    kernels = [K.Huber(), K.Huber(0.5), K.PseudoHuber(), K.Cauchy(2.0), K.SoftLOne(), K.Arctan(), K.Tolerant(), K.Tolerant(2.0, -0.5), K.Scale(), K.Scale(0.5),
               user_kernel("sub:Scale", [1.0, 0.5, 0.0]), RetKernel("ret-input")]
    for dt in (torch.float64, torch.float32):
        for shape in ([1], [], [1, 1], [3], [2, 1, 2]):
            for k in kernels:
                def kop(k=k, dt=dt, shape=shape):
                    x = (torch.arange(int(math.prod(shape)) or 1, dtype=dt).reshape(shape) * 0.75 + 0.25).requires_grad_(True)
                    y = k(x)
                    y.sum().backward()
                    with torch.no_grad():
                        if y is not x and y.untyped_storage().data_ptr() != x.untyped_storage().data_ptr():
                            y.mul_(0).sub_(7.0)          # the caller overwrites what it got
                ops.append(kop)
        for batch, d, p in (([1], 1, 1), ([1], 3, 2), ([1, 1, 1], 2, 1), ([2], 1, 1), ([3, 2], 2, 2)):
            for k in kernels[2:]:
                for W in (C.FastTriggs, C.Triggs):
                    def cop(k=k, W=W, dt=dt, batch=batch, d=d, p=p):
                        N = int(math.prod(batch))
                        R = (torch.arange(N * d, dtype=dt).reshape(batch + [d]) * 0.5 + 0.125)
                        J = torch.ones(N * d, p, dtype=dt) * 0.75
                        r, j = W(k)(R=R, J=J)
                        with torch.no_grad():
                            r.mul_(0).sub_(5.0)
                            j.mul_(0).add_(9.0)
                    ops.append(cop)
    return ops


def run_sandwich(ctx: Ctx):
    """lesson 32: two identical calls of one operation with EVERY other public operation of the modules in between (single-item and
    batched, both dtypes, forward and backward, outputs overwritten in place) — the two results must be equal bit for bit."""
    between = sandwich_ops()
    K = ppk()
    subjects = []
    for kind in BUILTIN:
        spec = {"kind": kind, "p": [1.0, -1.0, 0.0] if kind == "tolerant" else [0.5 if kind == "scale" else 1.0, 0.0, 0.0], "default": kind != "scale"}
        for shape in ([1], [1, 1], [4]):
            subjects.append(("kernel", spec, shape, 1, 1))
    for which in ("fast", "triggs"):
        for spec in ({"kind": "cauchy", "p": [1.0, 0.0, 0.0], "default": True}, {"kind": "poly", "p": [1.0, 0.5, 0.0], "form": "sub:Huber"},
                     {"kind": "poly", "p": [1.0, 0.0, 0.0], "affine": True, "form": "ret-input"}):
            for batch, d, p in (([1], 1, 1), ([1], 3, 2), ([1, 1], 2, 1), ([3], 2, 2)):
                subjects.append((which, spec, batch, d, p))
    for si, (which, spec, shape, d, p) in enumerate(subjects):
        dtn = "float64" if si % 2 else "float32"
        case = {"stream": "sandwich", "which": which, "spec": spec, "dtype": dtn, "shape": shape, "d": d, "p": p}
        ctx.note_case(("sandwich", which, spec["kind"], tuple(shape), d, dtn), True)
        ctx.count(f"sandwich.{which}")

        def body():
            kobj = build_kernel(spec)
            obj = kobj if which == "kernel" else build_corrector(which, kobj)
            n = int(math.prod(shape))
            if which == "kernel":
                x = torch.arange(n, dtype=DT[dtn]).reshape(shape) * 0.6 + 0.3
                call = lambda: (obj(x.clone()).detach().clone(),)
            else:
                R = torch.arange(n * d, dtype=DT[dtn]).reshape(list(shape) + [d]) * 0.4 + 0.2
                J = torch.arange(n * d * p, dtype=DT[dtn]).reshape(n * d, p) * 0.1 - 0.3
                call = lambda: tuple(t.detach().clone() for t in obj(R=R.clone(), J=J.clone()))
            first = call()
            for op in between[si % 3::3]:          # a third of the operations per subject, all of them over three subjects
                op()
            second = call()
            for a in first + second:
                if not bool(torch.isfinite(a).all()):
                    ctx.fail(case, f"non-finite result: {which}({spec['kind']}) on shape {shape} (d={d}) returns NaN / inf for a finite valid input")
                    return
            for a, b in zip(first, second):
                if a.shape != b.shape or not torch.equal(torch.nan_to_num(a, nan=1.5), torch.nan_to_num(b, nan=1.5)):
                    ctx.fail(case, f"sandwich: {which}({spec['kind']}) on shape {shape} (d={d}) gives a different result after other kernels / correctors "
                                   f"were used in between (max |diff| {float((a.double() - b.double()).abs().max()) if a.shape == b.shape and a.numel() else float('nan'):.3e})")
                    return
            # and the second result is still right (compared with the model through the usual oracle on a fresh object)
            if which == "kernel" and spec["kind"] != "poly":
                kernel_value_oracle(ctx, case, spec, dtn, x, second[0])
        guard(ctx, case, body)


# ----------------------------------------------------------------------------- case lists

def gen_cases(ctx: Ctx, rng, scale=1.0):
    def n(q, t):
        return max(1, int(ctx.pick(q, t) * scale))
    kernel_cases, neg_cases, corr_cases, select_cases = [], [], [], []
    for kind in BUILTIN:
        for i in range(n(30, 300)):
            spec = gen_spec(rng, kind)
            kernel_cases.append({"stream": "kernel", "spec": spec, "dtype": rng.choice(["float64", "float64", "float32"]),
                                 "shape": small_shape(rng, 3), "data_seed": rng.randrange(1 << 30), "with_zero": rng.random() < 0.8})
        for i in range(n(12, 120)):
            neg_cases.append({"stream": "negative", "spec": gen_spec(rng, kind), "dtype": rng.choice(["float64", "float32"]),
                              "shape": small_shape(rng, 3), "mode": rng.choice(["neg", "neg", "neg", "negzero", "clean"]),
                              "data_seed": rng.randrange(1 << 30)})
    # branch-neighbourhood sweeps (deterministic part of every run): the Huber threshold from both sides at
    # distances 2^-1 .. 2^-mantissa, in both dtypes, for the value (kernel stream) and the slope (corrector streams)
    for dtn in ("float32", "float64"):
        for dl in (1.0, rng.choice([0.5, 2.0, 0.1, 3.7, math.exp(rng.uniform(-3, 3))])):
            spec = {"kind": "huber", "p": [dl, 0.0, 0.0]}
            kernel_cases.append({"stream": "kernel", "spec": spec, "dtype": dtn, "shape": [2 * (23 if dtn == "float32" else 52) + 1],
                                 "data_seed": rng.randrange(1 << 30), "sweep": True})
            for which in ("fast", "triggs"):
                nb = 2 * (23 if dtn == "float32" else 52) + 1
                corr_cases.append({"stream": which, "which": which, "dtype": dtn, "batch": [nb], "d": rng.randint(1, 3),
                                   "p": rng.randint(1, 2), "data_seed": rng.randrange(1 << 30), "nograd": rng.random() < 0.5,
                                   "force_zero_row": False, "sweep": True, "spec": spec})
    # evenly spaced sweeps over each kernel's working range (value), and over Tolerant's u = 50 .. -60 (slope, curvature)
    for dtn in ("float32", "float64"):
        for kind in BUILTIN:
            spec = gen_spec(rng, kind)
            if kind == "tolerant":
                a = rng.choice([1.0, 5.0, 0.3, 50.0])
                spec = {"kind": kind, "p": [a, -a / 50.0, 0.0]}
            nl = len(lin_sweep(spec))
            kernel_cases.append({"stream": "kernel", "spec": spec, "dtype": dtn, "shape": [nl], "data_seed": rng.randrange(1 << 30),
                                 "linsweep": True})
            if kind == "tolerant":
                for which in ("fast", "triggs"):
                    corr_cases.append({"stream": which, "which": which, "dtype": dtn, "batch": [nl], "d": rng.randint(1, 2), "p": 1,
                                       "data_seed": rng.randrange(1 << 30), "nograd": rng.random() < 0.5, "force_zero_row": False,
                                       "linsweep": True, "spec": spec})
    for which in ("fast", "triggs"):
        for kind in BUILTIN:
            spec_cases = []
            for i in range(n(6, 60)):
                c = gen_corrector_case(rng, which, kind)
                spec_cases.append(c)
                # the same corrector object again, same shapes, different data (stale state between calls)
                if rng.random() < 0.6:
                    spec_cases.append({**c, "data_seed": rng.randrange(1 << 30)})
            corr_cases += spec_cases
        if which == "triggs":
            # the float32 band of Tolerant where exp(2u) overflows the normal range (a/|b| in 44..50, x << a)
            for i in range(n(10, 40)):
                c = gen_corrector_case(rng, which, "tolerant")
                a = rng.choice([1.0, 5.0, 0.3, 50.0])
                c["dtype"] = "float32"
                c["batch"] = [rng.choice([3, 4, 6])]
                c["norm_cap"] = 0.3
                c["spec"] = {"kind": "tolerant", "p": [a, -a / rng.choice([44.0, 46.0, 48.0, 50.0]), 0.0]}
                corr_cases.append(c)
        regs = ["convex", "convex", "convex", "linear", "affine", "concave", "mixed"] if which == "triggs" else ["convex", "affine", "concave"]
        for reg in regs:
            for i in range(n(12, 100)):
                c = gen_corrector_case(rng, which, "poly", reg)
                corr_cases.append(c)
                if rng.random() < 0.6:
                    c2 = {**c, "data_seed": rng.randrange(1 << 30)}
                    # same kernel object, new residuals: keep the parameters only if they stay admissible
                    corr_cases.append(c2 if poly_admissible(c2) else {**c2, "spec": choose_poly(c2)})
    for i in range(n(90, 1200)):
        select_cases.append(gen_select_case(rng))
    return kernel_cases, neg_cases, corr_cases, select_cases


def poly_admissible(case):
    R, _ = corrector_data(case)
    c1, c2, c3 = case["spec"]["p"]
    xs_ = R.double().square().sum(-1).flatten().tolist()
    if dtn_bad(case["dtype"], c1, c2, c3, max(xs_) if xs_ else 1.0):
        return False
    for x in R.double().square().sum(-1).flatten().tolist():
        t1 = [c1, 2 * c2 * x, 3 * c3 * x * x]
        if sum(t1) <= 0 or sum(abs(t) for t in t1) > 4 * sum(t1):
            return False
        t2 = [2 * c2, 6 * c3 * x]
        if sum(t2) != 0 and sum(abs(t) for t in t2) > 16 * abs(sum(t2)):
            return False
    return True


CORPUS_SPECS = {
    "huber": [[1.0, 0, 0], [0.3, 0, 0], [2.5, 0, 0], [1e-3, 0, 0]],
    "pseudohuber": [[1.0, 0, 0], [2.0, 0, 0], [0.05, 0, 0]],
    "cauchy": [[1.0, 0, 0], [0.5, 0, 0], [7.0, 0, 0]],
    "softlone": [[1.0, 0, 0], [0.6, 0, 0], [4.0, 0, 0]],
    "arctan": [[1.0, 0, 0], [0.25, 0, 0], [3.0, 0, 0]],
    "tolerant": [[1.0, -1.0, 0], [1.0, -0.02, 0], [5.0, -0.1, 0], [50.0, -1.0, 0], [0.3, -0.7, 0]],
    "scale": [[1.0, 0, 0], [0.5, 0, 0], [1e-3, 0, 0]],
}
CORPUS_POLY = [("convex", [1.0, 0.5, 0.0]), ("convex", [0.3, 1e-9, 0.2]), ("linear", [2.5, 0.0, 0.0]), ("affine", [0.7, 0.0, 0.0]),
               ("concave", [1.0, -2e-4, 0.0]), ("mixed", [1.0, -2e-4, 1e-5])]


def corner_corpus():
    """DETERMINISTIC corner corpus — independent of VERIF_SEED, run before anything random.
    Every kernel x fixed parameters x both dtypes: threshold sweeps, even sweeps, extremes, every negative value at every
    position class; every corrector x kernel: one mixed-regime batch (zero / tiny / at the threshold +- 8 ulp / ordinary /
    large / overflow-free maximum) for d = 1, 3, 6; user kernels of every curvature class; one object history through all
    memory layouts; every syntactic form of kernel= / corrector= on GN and LM."""
    rng = random.Random(909)
    K, Ng, Cr, H, S = [], [], [], [], []
    for kind in BUILTIN:
        for pi, pr in enumerate(CORPUS_SPECS[kind]):
            spec = {"kind": kind, "p": [float(v) for v in pr]}
            for dtn in ("float32", "float64"):
                nb = 2 * (23 if dtn == "float32" else 52) + 1
                if pi < 2:
                    K.append({"stream": "kernel", "spec": spec, "dtype": dtn, "shape": [nb], "data_seed": 1, "sweep": True})
                    if kind != "tolerant" or pr[0] / abs(pr[1]) == 50.0:
                        K.append({"stream": "kernel", "spec": spec, "dtype": dtn, "shape": [len(lin_sweep(spec))], "data_seed": 2, "linsweep": True})
                K.append({"stream": "kernel", "spec": spec, "dtype": dtn, "shape": [3, 4], "data_seed": 1000 + pi, "with_zero": True})
                if pi in (0, len(CORPUS_SPECS[kind]) - 1):
                    K.append({"stream": "kernel", "spec": spec, "dtype": dtn, "shape": [81], "data_seed": 5, "logsweep": True})
                    for which in ("fast", "triggs"):
                        Cr.append({"stream": which, "which": which, "dtype": dtn, "batch": [81], "d": 1 + pi % 3, "p": 1, "data_seed": 6,
                                   "nograd": False, "force_zero_row": False, "logsweep": True, "spec": spec})
                if pi == 0:
                    for shape in ([], [1], [2, 3]):
                        for mode, ds in (("neg", 11), ("neg", 12), ("neg", 13), ("negzero", 14), ("clean", 15)):
                            Ng.append({"stream": "negative", "spec": spec, "dtype": dtn, "shape": shape, "mode": mode, "data_seed": ds + len(shape)})
                if pi < 2:
                    for which in ("fast", "triggs"):
                        for d, pp_ in ((1, 1), (3, 2), (6, 4)):
                            Cr.append({"stream": which, "which": which, "dtype": dtn, "batch": [2, 4], "nitems": 8, "d": d, "p": pp_,
                                       "data_seed": 40 + d, "nograd": d == 3, "force_zero_row": False, "regimes": True, "spec": spec})
                        if kind == "huber":
                            Cr.append({"stream": which, "which": which, "dtype": dtn, "batch": [nb], "d": 2, "p": 1, "data_seed": 3,
                                       "nograd": False, "force_zero_row": False, "sweep": True, "spec": spec})
                        if kind == "tolerant" and pr[0] / abs(pr[1]) == 50.0:
                            Cr.append({"stream": which, "which": which, "dtype": dtn, "batch": [len(lin_sweep(spec))], "d": 1, "p": 1,
                                       "data_seed": 4, "nograd": True, "force_zero_row": False, "linsweep": True, "spec": spec})
    for reg, pr in CORPUS_POLY:
        for form in (USER_FORMS if reg != "affine" else ["module"]):
            spec = {"kind": "poly", "p": pr, **({"affine": True} if reg == "affine" else {"form": form})}
            for dtn in (("float32", "float64") if form == "module" else ("float64",)):
                for which in ("fast", "triggs"):
                    Cr.append({"stream": which, "which": which, "dtype": dtn, "batch": [8], "nitems": 8, "d": 3, "p": 2, "data_seed": 50,
                               "nograd": form.startswith("sub"), "force_zero_row": False, "regimes": True, "regime": reg, "spec": spec})
    # object histories: fixed call sequences through every layout and both dtypes
    for which, kinds in (("kernel", ["huber", "tolerant", "cauchy"]), ("fast", ["huber", "cauchy", "scale"]),
                         ("triggs", ["huber", "arctan", "tolerant", "scale"])):
        for kind in kinds:
            spec = {"kind": kind, "p": [float(v) for v in CORPUS_SPECS[kind][1]]}
            H.append(gen_history_case(random.Random(77 + len(H)), which, spec, ncalls=len(LAYOUTS) + 2))
        H.append(gen_history_case(random.Random(177 + len(H)), which, {"kind": "poly", "p": [1.0, 0.5, 0.0]}, ncalls=len(LAYOUTS) + 2))
    # the full layout x batch-rank matrix on one object per corrector / kernel
    for which, kind in (("kernel", "huber"), ("kernel", "tolerant"), ("fast", "cauchy"), ("triggs", "cauchy"), ("triggs", "huber")):
        calls = []
        for bi, (batch, dd) in enumerate((b_, d_) for b_ in ([3, 2, 3], [4], [], [2, 0], [5, 2]) for d_ in ((1, 3) if which != "kernel" else (3,))):
            for li, layout in enumerate(LAYOUTS):
                if which == "kernel" and layout == "alias":
                    continue
                call = {"dtype": "float64" if (bi + li) % 2 else "float32", "nograd": bool((bi + li) % 3 == 0), "layout": layout,
                        "data_seed": 9000 + 31 * bi + li, "zero": True}
                if layout == "inplace" and calls:
                    for k in ("dtype", "shape", "batch", "d", "p"):
                        if k in calls[-1]:
                            call[k] = calls[-1][k]
                elif which == "kernel":
                    call["shape"] = batch + [3]
                else:
                    call["batch"], call["d"], call["p"] = batch, (1 if layout == "alias" else dd), (1 if layout == "alias" else 1 + (li % 4))
                calls.append(call)
        H.append({"stream": "history", "which": which, "spec": {"kind": kind, "p": [float(v) for v in CORPUS_SPECS[kind][1]]},
                  "calls": calls, "data_seed": 4242})
    # Tolerant beyond a/|b| = 50 (softplus' linear branch z > 50 is taken): the model follows the code's exact guard
    for ratio in (50.0 * (1 + 2.0 ** -40), 51.0, 64.0, 200.0, 700.0):
        for dtn in ("float32", "float64"):
            spec = {"kind": "tolerant", "p": [1.0, -1.0 / ratio, 0.0]}
            K.append({"stream": "kernel", "spec": spec, "dtype": dtn, "shape": [1], "data_seed": 2, "usweep": True, "outside_domain": True})
    # grad mode x call syntax x argument type matrix (values must not depend on any of them), special sizes N = d = p,
    # a failing call in the middle, outputs overwritten by the caller
    for which, spec in (("kernel", {"kind": "huber", "p": [2.0, 0.0, 0.0], "int": True}), ("kernel", {"kind": "huber", "p": [3.0, 0.0, 0.0], "int": True, "kwargs": True}),
                        ("kernel", {"kind": "pseudohuber", "p": [3.0, 0.0, 0.0], "int": True}), ("kernel", {"kind": "tolerant", "p": [1.0, -0.05, 0.0], "kwargs": True}),
                        ("fast", {"kind": "cauchy", "p": [0.5, 0.0, 0.0]}), ("triggs", {"kind": "cauchy", "p": [0.5, 0.0, 0.0]}),
                        ("triggs", {"kind": "poly", "p": [1.0, 0.5, 0.0]}), ("triggs", {"kind": "poly", "p": [1.0, 0.5, 0.0], "form": "sub:Huber"}),
                        ("triggs", {"kind": "poly", "p": [0.5, 0.25, 0.1], "form": "sub:Scale"}), ("fast", {"kind": "poly", "p": [1.0, 0.5, 0.0], "form": "sub:Tolerant"}),
                        ("fast", {"kind": "poly", "p": [0.7, 0.0, 0.0], "affine": True}),
                        ("triggs", {"kind": "scale", "p": [0.5, 0.0, 0.0]}), ("triggs", {"kind": "huber", "p": [1.0, 0.0, 0.0], "int": True})):
        calls = []
        for gi, gm in enumerate(GMODES):
            for kwm in (True, False):
                k = [3, 1, 2, 5][(gi + kwm) % 4]
                call = {"obj": 0, "dtype": "float64" if (gi + kwm) % 2 else "float32", "layout": "contig" if gm in ("req_R", "req_J", "req_both") or kwm else "strided",
                        "data_seed": 7000 + 10 * gi + kwm, "zero": True, "gmode": gm, "kw": kwm, "ptype": "parameter" if (gi % 3 == 1 and kwm) else "tensor",
                        "mutate_out": bool((gi + kwm) % 2)}
                if which == "kernel":
                    call["shape"] = [k, k]
                else:
                    call["batch"], call["d"], call["p"] = ([k] if gi % 2 else [k, k]), k, k          # N = d = p (and N = d^2)
                calls.append(call)
            if gi in (2, 5):
                calls.append({**calls[-1], "fail": True, "data_seed": 7500 + gi})
        H.append({"stream": "history", "which": which, "spec": spec, "calls": calls, "data_seed": 4343})
    # several objects sharing kernels, and copies of them, interleaved in fixed orders
    for oi, (k0, k1) in enumerate((("cauchy", "huber"), ("tolerant", "scale"), ("arctan", "pseudohuber"))):
        ksp = [{"kind": k0, "p": [float(v) for v in CORPUS_SPECS[k0][1]]}, {"kind": k1, "p": [float(v) for v in CORPUS_SPECS[k1][1]]}]
        H.append(gen_history_case(random.Random(3100 + oi), "fast", ksp[0], ncalls=24, objects=multi_objects(random.Random(3200 + oi), ksp), kernels=ksp))
    # lesson 29: kernels / correctors built with every optional argument OMITTED, several per class, interleaved with explicitly
    # parametrised instances of the same classes in one history; lesson 33: the same with parameters as properties
    for oi in range(2):
        ksp = [{"kind": "huber", "p": [1.0, 0.0, 0.0], "default": True}, {"kind": "huber", "p": [0.5, 0.0, 0.0]}, {"kind": "huber", "p": [1.0, 0.0, 0.0], "default": True},
               {"kind": "tolerant", "p": [1.0, -1.0, 0.0], "default": True}, {"kind": "tolerant", "p": [2.0, -0.5, 0.0]}, {"kind": "scale", "p": [1.0, 0.0, 0.0], "default": True},
               {"kind": "cauchy", "p": [1.0, 0.0, 0.0], "default": True}, {"kind": "cauchy", "p": [3.0, 0.0, 0.0], "prop": True},
               {"kind": "pseudohuber", "p": [1.0, 0.0, 0.0], "default": True}, {"kind": "softlone", "p": [1.0, 0.0, 0.0], "default": True},
               {"kind": "arctan", "p": [1.0, 0.0, 0.0], "default": True}, {"kind": "huber", "p": [2.0, 0.0, 0.0], "prop": True},
               {"kind": "tolerant", "p": [1.5, -0.5, 0.0], "prop": True}, {"kind": "scale", "p": [0.25, 0.0, 0.0], "prop": True}]
        objs = [{"which": "kernel", "kernel": i} for i in range(len(ksp))] + [{"which": w, "kernel": i} for i in (0, 2, 3, 6, 7, 11, 12) for w in ("fast", "triggs")]
        H.append(gen_history_case(random.Random(4500 + oi), "kernel", ksp[0], ncalls=70, objects=objs, kernels=ksp))
    # lesson 33: the caller changes the private state behind the parameter properties between calls
    for which, kind, plist in (("kernel", "huber", [[1.0], [0.25], [3.0], [1.0]]), ("triggs", "cauchy", [[2.0], [0.5], [2.0]]),
                               ("fast", "tolerant", [[1.0, -0.5], [3.0, -0.25], [1.0, -0.5]]), ("kernel", "scale", [[1.0], [0.125], [0.5]])):
        calls = []
        for ci, pp_ in enumerate(plist * 2):
            call = {"obj": 0, "dtype": "float64" if ci % 2 else "float32", "layout": "contig", "data_seed": 8800 + ci, "zero": True,
                    "gmode": ["plain", "no_grad", "req_R"][ci % 3], "kw": True, "ptype": "tensor", "mutate_out": False,
                    "kparams": [float(v) for v in pp_] + [0.0] * (3 - len(pp_))}
            if which == "kernel":
                call["shape"] = [6]
            else:
                call["batch"], call["d"], call["p"] = [4], 2, 2
            calls.append(call)
        H.append({"stream": "history", "which": which, "spec": {"kind": kind, "p": calls[0]["kparams"], "prop": True}, "calls": calls, "data_seed": 4747})
    # lesson 31: user kernels that return their argument / a view of it, in every stream
    for form in ("ret-input", "ret-view"):
        spec = {"kind": "poly", "p": [1.0, 0.0, 0.0], "affine": True, "form": form}
        for dtn in ("float32", "float64"):
            for which in ("fast", "triggs"):
                Cr.append({"stream": which, "which": which, "dtype": dtn, "batch": [8], "nitems": 8, "d": 3, "p": 2, "data_seed": 51,
                           "nograd": dtn == "float32", "force_zero_row": False, "regimes": True, "regime": "affine", "spec": spec})
        H.append(gen_history_case(random.Random(4900 + len(H)), "triggs", spec, ncalls=10))
        H.append(gen_history_case(random.Random(4950 + len(H)), "fast", spec, ncalls=10))
    # lesson 36: bands between round-off and a would-be tolerance — tiny residual x huge curvature (2 x rho''/rho' = O(1) although
    # |R|^2 is far below eps), huge residual x tiny curvature, in both dtypes
    for dtn in ("float32", "float64"):
        tiny = [1e-15, 1e-9, 1e-5] if dtn == "float32" else [1e-150, 1e-30, 1e-9]
        for nv in tiny:
            x_ = nv * nv
            Cr.append({"stream": "triggs", "which": "triggs", "dtype": dtn, "batch": [4], "d": 2, "p": 2, "data_seed": 36, "nograd": False,
                       "force_zero_row": False, "regime": "band-tiny", "spec": {"kind": "poly", "p": [1.0, 0.75 / x_, 0.0], "form": "module"},
                       "rows": [[nv, 0.0], [0.6 * nv, -0.8 * nv], [0.0, 0.0], [0.5 * nv, 0.5 * nv]]})
        big = 1e5 if dtn == "float32" else 1e40
        Cr.append({"stream": "triggs", "which": "triggs", "dtype": dtn, "batch": [3], "d": 2, "p": 1, "data_seed": 37, "nograd": True,
                   "force_zero_row": False, "regime": "band-huge", "spec": {"kind": "poly", "p": [1.0, 0.5 / (big * big), 0.0], "form": "sub:Cauchy"},
                   "rows": [[big, 0.0], [0.6 * big, 0.8 * big], [1.0, 1.0]]})
    # exact coincidences (lesson 20): |R_i|^2 == delta^2 bit for bit with a GENERIC direction (3-4-5 triples scaled by powers of two),
    # both signs, next to zero rows and duplicates; x == a for Tolerant
    for dtn in ("float32", "float64"):
        for which in ("fast", "triggs"):
            Cr.append({"stream": which, "which": which, "dtype": dtn, "batch": [8], "d": 3, "p": 2, "data_seed": 21, "nograd": False,
                       "force_zero_row": False, "spec": {"kind": "huber", "p": [2.5, 0.0, 0.0]},
                       "rows": [[1.5, 2.0, 0.0], [-2.0, 0.0, 1.5], [0.0, -1.5, -2.0], [2.5, 0.0, 0.0], [0.0, 0.0, 0.0], [1.5, 2.0, 0.0],
                                [0.75, 1.0, 0.0], [3.0, 4.0, 0.0]]})
            Cr.append({"stream": which, "which": which, "dtype": dtn, "batch": [4], "d": 2, "p": 1, "data_seed": 22, "nograd": True,
                       "force_zero_row": False, "spec": {"kind": "tolerant", "p": [6.25, -0.125, 0.0]},
                       "rows": [[1.5, 2.0], [2.0, -1.5], [0.0, 2.5], [0.0, 0.0]]})
    # sign change of rho'' inside the batch, approached geometrically from both sides (mask threshold)
    for dtn in ("float32", "float64"):
        Cr.append({"stream": "triggs", "which": "triggs", "dtype": dtn, "batch": [2 * (20 if dtn == "float32" else 44) + 1], "d": 2, "p": 2,
                   "data_seed": 8, "nograd": True, "force_zero_row": False, "sweep": True, "regime": "mixed-sweep",
                   "spec": {"kind": "poly", "p": [1.0, -0.05, 0.05 / 3.0]}, "xref": 1.0})
    # every syntactic form of kernel= / corrector=
    kspecs = [{"kind": "huber", "p": [0.4, 0.0, 0.0]}, {"kind": "cauchy", "p": [1.5, 0.0, 0.0]}, {"kind": "poly", "p": [1.0, 0.3, 0.0], "form": "sub:Scale"}]
    kspecs_sub = [{"kind": "poly", "p": [1.0, 0.3, 0.0], "form": "sub:Tolerant"}, {"kind": "poly", "p": [0.5, 0.5, 0.02], "form": "sub:Huber"},
                  {"kind": "poly", "p": [1.0, 0.05, 0.0], "form": "sub:Cauchy"}]
    for nres in (1, 3):
        kforms = [None, ["one", 1], ["many", [2]], ["many", list(range(nres))], ["many", [None] + list(range(1, nres))] if nres > 1 else ["many", [None]]]
        if nres == 3:
            kforms.append(["many", [0, 1]])
        kforms.append(["many", []])                                  # empty list: IndexError in step (model: emptyKernelList)
        kforms.append(["many", list(range(nres)) + [0, None]])       # longer than the number of residuals: extras ignored
        for kf in kforms:
            cforms = [None, ["one", 3], ["many", [5]], ["many", [None] * nres], ["many", [(2 * j + j % 2) for j in range(nres)]]]
            if kf is not None and kf[0] == "many" and len(kf[1]) == nres:
                cforms.append(["many", [None if v is None else 2 * v + 1 for v in kf[1]]])
            for cf in cforms:
                for oi, opt in enumerate(("GN", "LM")):
                    # every second configuration uses a pool of USER kernels derived from shipped classes (lesson 21)
                    pool = kspecs if (len(S) // 2) % 2 == 0 else kspecs_sub
                    S.append({"stream": "select", "opt": opt, "dtype": "float64" if (len(S) % 3) else "float32", "p": 2,
                              "shapes": [[2, 3], [1, 1], [3, 2]][:nres], "kspecs": pool, "karg": kf, "carg": cf, "tuple": bool(len(S) % 2),
                              "damping": 1e-3, "data_seed": 600 + len(S), **select_extras(random.Random(5000 + len(S)), nres)})
    for oi, (opt, kf, cf) in enumerate((("GN", ["one", 0], None), ("LM", ["one", 2], ["one", 5]), ("GN", None, None), ("LM", ["many", [1]], None),
                                        ("GN", ["one", 3], ["one", 7]), ("LM", ["one", 3], None))):
        S.append({"stream": "select", "opt": opt, "dtype": "float64" if oi % 2 else "float32", "p": 3, "shapes": [[1, 3]], "identity_model": True,
                  "kspecs": kspecs + [{"kind": "poly", "p": [1.0, 0.0, 0.0], "affine": True, "form": "ret-input"}], "karg": kf, "carg": cf, "tuple": False,
                  "damping": 1e-3, "data_seed": 700 + oi, "strategy": "default" if oi % 2 else "constant", **({"use_target": True} if oi >= 3 else {})})
    kdef = [{"kind": "huber", "p": [1.0, 0.0, 0.0], "default": True}, {"kind": "tolerant", "p": [1.0, -1.0, 0.0], "default": True},
            {"kind": "cauchy", "p": [1.0, 0.0, 0.0], "default": True}]
    for oi, (opt, kf, cf) in enumerate((("LM", ["many", [0, 1, 2]], None), ("LM", ["one", 2], None), ("GN", ["many", [2, 0, 1]], ["many", [5, 0, 3]]),
                                        ("LM", ["many", [1, 1, 1]], ["one", 3]))):
        S.append({"stream": "select", "opt": opt, "dtype": "float64", "p": 2, "shapes": [[2, 3], [1, 1], [3, 2]], "kspecs": kdef, "karg": kf, "carg": cf,
                  "tuple": bool(oi % 2), "damping": 1e-3, "data_seed": 750 + oi, "strategy": "default"})
    return K, Ng, Cr, H, S


def gen_history_cases(ctx, rng, scale=1.0):
    out = []
    for which in ("kernel", "fast", "triggs"):
        for i in range(max(1, int(ctx.pick(8, 60) * scale))):
            kind = rng.choice(BUILTIN + (["poly"] if which != "kernel" else []))
            spec = gen_spec(rng, kind) if kind != "poly" else {"kind": "poly", "p": [rng.choice([1.0, 0.4]), rng.choice([0.0, 0.2, 1.0]), rng.choice([0.0, 0.05])],
                                                               "form": rng.choice(USER_FORMS)}
            out.append(gen_history_case(rng, which, spec, ncalls=rng.randint(4, 7)))
    for i in range(max(1, int(ctx.pick(8, 60) * scale))):
        k0, k1 = rng.sample(BUILTIN, 2)
        kspecs = [gen_spec(rng, k0), gen_spec(rng, k1)]
        out.append(gen_history_case(rng, "fast", kspecs[0], ncalls=rng.randint(8, 14), objects=multi_objects(rng, kspecs), kernels=kspecs))
    return out


def run(ctx: Ctx):
    oracle_selftest()
    torch.set_num_threads(2)
    # 1. deterministic corner corpus (seed-independent), first
    K, Ng, Cr, H, S = corner_corpus()
    ctx.count("corpus.cases", len(K) + len(Ng) + len(Cr) + len(H) + len(S))
    run_history(ctx, mode_order_cases())          # first: their shape keys must be fresh in the process (lesson 23)
    run_sandwich(ctx)
    run_int_kernels(ctx)
    nK, nCr, nH = narrow_dtype_corpus()
    run_kernel(ctx, nK)
    run_corrector(ctx, nCr)
    run_history(ctx, nH)
    run_ctor(ctx)
    run_kernel(ctx, K)
    run_negative(ctx, Ng)
    run_corrector(ctx, Cr)
    run_history(ctx, H)
    run_select(ctx, S)
    # 2. seeded random population
    kernel_cases, neg_cases, corr_cases, select_cases = gen_cases(ctx, ctx.rng)
    run_kernel(ctx, kernel_cases)
    run_negative(ctx, neg_cases)
    run_corrector(ctx, corr_cases)
    run_history(ctx, gen_history_cases(ctx, ctx.rng))
    run_select(ctx, select_cases)
    run_large(ctx)


def search(ctx: Ctx):
    """after a broken proof / correspondence: the oracles alone on a larger, differently seeded population"""
    oracle_selftest()
    scale_h = 1.0 if ctx.quick else 0.5
    for rnd in range(3):
        rng = random.Random(ctx.seed * 7919 + 104729 * (rnd + 1))
        kernel_cases, neg_cases, corr_cases, select_cases = gen_cases(ctx, rng, scale=1.0 if ctx.quick else 0.5)
        for c in kernel_cases:
            check_kernel(ctx, c)
            if c["spec"]["kind"] == "huber":
                huber_threshold_oracle(ctx, c)
        for c in neg_cases:
            check_negative(ctx, c)
        for c in corr_cases:
            check_corrector(ctx, c)
            c.pop("_mask", None)
            c.pop("_amp", None)
            c.pop("_E", None)
        for c in select_cases:
            n0 = len(ctx.disagreements)
            guard(ctx, c, lambda: check_select(ctx, c))
            del ctx.disagreements[n0:]
        for c in gen_history_cases(ctx, rng, scale=scale_h):
            guard(ctx, c, lambda: check_history(ctx, c))
        if ctx.failures:
            return


def replay(ctx: Ctx, case) -> bool:
    oracle_selftest()
    c = dict(case["case"])
    c.pop("step", None)
    n0 = len(ctx.failures)
    st = c.get("stream")
    if st == "kernel":
        res = check_kernel(ctx, c)
        if c["spec"]["kind"] == "huber":
            huber_threshold_oracle(ctx, c)
        if res is not None and res[0].numel():
            compare_kernel(ctx, c, res[0], res[1], ctx.driver.run([kernel_line(c, res[0])])[0])
            print("  implementation:", res[1].flatten().tolist()[:8])
    elif st == "negative":
        x, raised = check_negative(ctx, c)
        rep = ctx.driver.run([kernel_line(c, x)])[0]
        print("  implementation:", "raises " + raised if raised else "accepts", "| model:", rep[:40])
    elif st in ("fast", "triggs"):
        res = check_corrector(ctx, c)
        if res is not None and res[0].numel():
            rep = ctx.driver.run([corrector_line(c, res[0], res[1])])[0]
            compare_corrector(ctx, c, *res, rep)
            print("  implementation R':", res[2].flatten().tolist()[:8])
    elif st == "select":
        check_select(ctx, c)
    elif st == "ctor":
        run_ctor(ctx)
    elif st == "large":
        ctx.rng = random.Random(c["data_seed"])
        run_large(ctx)
    elif st == "history":
        c.pop("call", None)
        lines, metas = [], []
        check_history(ctx, c, lines, metas)
        for rep, meta in zip(ctx.driver.run(lines), metas):
            if len(meta) == 3:
                compare_kernel(ctx, meta[0], meta[1], meta[2], rep)
            else:
                compare_corrector(ctx, meta[0], meta[1], meta[2], meta[3], meta[4], rep, stream="history")
    for f in ctx.failures[n0:]:
        print("  fails:", f["what"])
    for d in ctx.disagreements:
        print("  model/implementation disagreement:", d["detail"])
    return len(ctx.failures) == n0 and not ctx.disagreements
