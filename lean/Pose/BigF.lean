import Pose.Scalar
/-!
# `BigF` — 192-bit software floating point (executable instance of `Scalar`)

Value of `⟨m, e⟩` is `m · 2^e` with `|m| < 2^192` after `norm`.  `+ - * / sqrt` are computed exactly on
integers and then rounded to nearest (so each is within 2⁻¹⁹² relative); `exp log sin cos atan` are
argument-reduced Taylor series evaluated with the same arithmetic (accuracy ≈ 2⁻¹⁷⁰ relative away
from zeros of the function — self-tested against identities and mpmath by `check.py selftest`).

This file is part of the *trusted base* of the correspondence check, not of any theorem.
-/

namespace PP

structure BigF where
  m : Int
  e : Int
deriving Repr, Inhabited

namespace BigF

def prec : Nat := 192

def zero : BigF := ⟨0, 0⟩

def norm (x : BigF) : BigF :=
  let n := x.m.natAbs
  if n == 0 then zero else
  let bl := n.log2 + 1
  if bl > prec then
    let s := bl - prec
    let half : Nat := 1 <<< (s - 1)
    let qn := (n + half) >>> s
    ⟨if x.m < 0 then -(qn : Int) else qn, x.e + s⟩
  else x

def ofInt (i : Int) : BigF := norm ⟨i, 0⟩
def ofNat (n : Nat) : BigF := ofInt n
def one : BigF := ⟨1, 0⟩

def neg (a : BigF) : BigF := ⟨-a.m, a.e⟩

def add (a b : BigF) : BigF :=
  if a.m == 0 then b else if b.m == 0 then a else
  if a.e ≥ b.e then
    let d := (a.e - b.e).toNat
    if d > 3 * prec then a else norm ⟨a.m * (2 ^ d : Int) + b.m, b.e⟩
  else
    let d := (b.e - a.e).toNat
    if d > 3 * prec then b else norm ⟨b.m * (2 ^ d : Int) + a.m, a.e⟩

def sub (a b : BigF) : BigF := add a (neg b)
def mul (a b : BigF) : BigF := norm ⟨a.m * b.m, a.e + b.e⟩

/-- `a / b`; division by zero yields 0 (callers guard; the driver reports `div0` separately). -/
def div (a b : BigF) : BigF :=
  if b.m == 0 then zero else
  let s := prec + b.m.natAbs.log2 + 3
  let num := a.m * (2 ^ s : Int)
  -- round-to-nearest integer quotient
  let qd := Int.fdiv (2 * num + b.m) (2 * b.m)
  norm ⟨qd, a.e - b.e - s⟩

def isZero (a : BigF) : Bool := a.m == 0
def isNeg (a : BigF) : Bool := a.m < 0
def lt (a b : BigF) : Bool := (sub a b).m < 0
def le (a b : BigF) : Bool := (sub a b).m ≤ 0
def abs (a : BigF) : BigF := ⟨a.m.natAbs, a.e⟩

/-- multiply by `2^k` exactly -/
def scale2 (a : BigF) (k : Int) : BigF := if a.m == 0 then a else ⟨a.m, a.e + k⟩

def sqrt (a : BigF) : BigF :=
  if a.m ≤ 0 then zero else
  let n := a.m.natAbs
  let bl := n.log2 + 1
  let s0 : Nat := 2 * prec + 2 - bl
  let s : Nat := if ((a.e - (s0 : Int)) % 2 != 0) then s0 + 1 else s0
  let n2 := n <<< s
  norm ⟨(Nat.sqrt n2 : Int), (a.e - s) / 2⟩

/-- floor(π·2²⁵⁶), floor(ln2·2²⁵⁶) (computed with mpmath at 400 bits) -/
def piC : BigF := norm ⟨363771576891766324280234942777729862653393377328392429958772151117938894466185, -256⟩
def ln2C : BigF := norm ⟨80260960185991308862233904206310070533990667611589946606122867505419956976171, -256⟩

/-- nearest integer to `a` (ties away from zero irrelevant here) -/
def roundInt (a : BigF) : Int :=
  if a.e ≥ 0 then a.m * (2 ^ a.e.toNat : Int)
  else
    let s := (-a.e).toNat
    Int.fdiv (a.m + (2 ^ (s - 1) : Int)) (2 ^ s : Int)

/-- floor of `a` -/
def floorInt (a : BigF) : Int :=
  if a.e ≥ 0 then a.m * (2 ^ a.e.toNat : Int)
  else Int.fdiv a.m (2 ^ (-a.e).toNat : Int)

/-- `Σ_{i<n} x^i / i!` -/
def expTaylor (x : BigF) (n : Nat) : BigF := Id.run do
  let mut term := one
  let mut sum := one
  for i in [1:n] do
    term := div (mul term x) (ofNat i)
    sum := add sum term
  return sum

def exp (x : BigF) : BigF :=
  if x.m == 0 then one else
  -- x = kk·ln2 + r, |r| ≤ ln2/2 ; r' = r / 2^8 ; exp r = (exp r')^(2^8)
  let kk := roundInt (div x ln2C)
  let r := sub x (mul (ofInt kk) ln2C)
  let r' := scale2 r (-8)
  let y0 := expTaylor r' 34
  let y := (List.range 8).foldl (fun y _ => mul y y) y0
  scale2 y kk

/-- `2·atanh t` for small `t`: `2 Σ t^(2i+1)/(2i+1)` -/
def atanh2 (t : BigF) (n : Nat) : BigF := Id.run do
  let t2 := mul t t
  let mut p := t
  let mut sum := t
  for i in [1:n] do
    p := mul p t2
    sum := add sum (div p (ofNat (2 * i + 1)))
  return scale2 sum 1

/-- natural logarithm; non-positive input yields 0 (callers guard). -/
def log (x : BigF) : BigF :=
  if x.m ≤ 0 then zero else
  -- x = y · 2^kk with y ∈ [1/√2·…, √2]: choose kk so that y ∈ [0.70, 1.42)
  let bl : Int := (x.m.natAbs.log2 + 1 : Nat)
  let kk0 := x.e + bl              -- x ∈ [2^(kk0-1), 2^kk0)
  let y0 := scale2 x (-kk0)        -- ∈ [0.5, 1)
  let (y, kk) := if lt y0 (div (ofNat 7071) (ofNat 10000)) then (scale2 y0 1, kk0 - 1) else (y0, kk0)
  let t := div (sub y one) (add y one)
  add (mul (ofInt kk) ln2C) (atanh2 t 46)

def sinTaylor (r : BigF) (n : Nat) : BigF := Id.run do
  let r2 := neg (mul r r)
  let mut term := r
  let mut sum := r
  for i in [1:n] do
    term := div (mul term r2) (ofNat ((2 * i) * (2 * i + 1)))
    sum := add sum term
  return sum

def cosTaylor (r : BigF) (n : Nat) : BigF := Id.run do
  let r2 := neg (mul r r)
  let mut term := one
  let mut sum := one
  for i in [1:n] do
    term := div (mul term r2) (ofNat ((2 * i - 1) * (2 * i)))
    sum := add sum term
  return sum

/-- reduce: x = j·(π/2) + r, |r| ≤ π/4 -/
def redPi2 (x : BigF) : Int × BigF :=
  let hp := scale2 piC (-1)
  let j := roundInt (div x hp)
  (j, sub x (mul (ofInt j) hp))

def sin (x : BigF) : BigF :=
  if x.m == 0 then zero else
  let (j, r) := redPi2 x
  match j % 4 with
  | 0 => sinTaylor r 30
  | 1 => cosTaylor r 30
  | 2 => neg (sinTaylor r 30)
  | _ => neg (cosTaylor r 30)

def cos (x : BigF) : BigF :=
  if x.m == 0 then one else
  let (j, r) := redPi2 x
  match j % 4 with
  | 0 => cosTaylor r 30
  | 1 => neg (sinTaylor r 30)
  | 2 => neg (cosTaylor r 30)
  | _ => sinTaylor r 30

def atanTaylor (t : BigF) (n : Nat) : BigF := Id.run do
  let t2 := neg (mul t t)
  let mut p := t
  let mut sum := t
  for i in [1:n] do
    p := mul p t2
    sum := add sum (div p (ofNat (2 * i + 1)))
  return sum

/-- atan for |x| ≤ 1 : three half-angle reductions then Taylor -/
def atanSmall (x : BigF) : BigF :=
  let h := fun (t : BigF) => div t (add one (sqrt (add one (mul t t))))
  let t := h (h (h x))
  scale2 (atanTaylor t 34) 3

def atan (x : BigF) : BigF :=
  if x.m == 0 then zero else
  let ax := abs x
  let r := if le ax one then atanSmall ax
           else sub (scale2 piC (-1)) (atanSmall (div one ax))
  if x.m < 0 then neg r else r

/-- `atan2 y x` ∈ (-π, π]; `atan2 0 0 = 0` -/
def atan2 (y x : BigF) : BigF :=
  if x.m > 0 then atan (div y x)
  else if x.m < 0 then
    if y.m ≥ 0 then add (atan (div y x)) piC else sub (atan (div y x)) piC
  else if y.m > 0 then scale2 piC (-1)
  else if y.m < 0 then neg (scale2 piC (-1))
  else zero

instance : Scalar BigF where
  add := add
  sub := sub
  mul := mul
  neg := neg
  div := div
  ofNat := ofNat
  sqrt := sqrt
  sin := sin
  cos := cos
  atan := atan
  atan2 := atan2
  exp := exp
  log := log
  pi := piC
  lt := lt
  le := le

/-- text form used on the wire: `m:e` -/
def toWire (x : BigF) : String := s!"{x.m}:{x.e}"

/-- parse `m:e` (both decimal integers). -/
def ofWire? (s : String) : Option BigF :=
  match s.splitOn ":" with
  | [ms, es] =>
    match ms.toInt?, es.toInt? with
    | some m, some e => some (norm ⟨m, e⟩)
    | _, _ => none
  | _ => none

end BigF
end PP
