import Pose.Wire
/-! Driver ops for C18. -/
namespace PP.Driver
open PP Wire

def opsC18 : List (String × Handler) := []

end PP.Driver
