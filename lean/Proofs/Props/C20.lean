import Proofs.Lemmas.Stop
import Proofs.Lemmas.StopX
import Proofs.Lemmas.StopAux
/-!
# C20 — stopping controllers stop exactly on their documented conditions, within budget

Property theorems only (helpers and the definitions of the documented causes `budgetCause`,
`patienceCause`, `sopCause`, `rtbCause` are in `Proofs/Lemmas/Stop.lean`; the model is
`Pose/Model/Stop.lean`).  Every statement quantifies over **all** configurations
(`max_steps`, `patience` any integers), **all** observation / loss sequences and **all** lengths.

Step indices are 0-based: step `i` is the `(i+1)`-th call of `step`; "after `n` steps" means after the
calls fed with `obs 0 … obs (n-1)`.
-/
namespace PP.Stop

/-! ## clause 1: `continual()` is true until, and false from, the first documented cause -/

/-- **StopOnPlateau.** After `n` steps from the constructor state `continual()` is true iff none of the
documented causes (budget reached, `patience` consecutive steps without the configured decrease, the
optimizer's last step involved a rejection) occurred at any of the `n` steps. -/
theorem sop_continual_iff (c : Cfg) (obs : Nat → Obs) (n : Nat) :
    (run (sopStep c) St.init obs n).cont = true ↔ ∀ i, i < n → ¬ sopCause c obs i :=
  init_cont_iff (sop_isCtl c) obs n

/-- **ReduceToBason.** Same with the cause "all losses below `tol`" instead of the rejection. -/
theorem rtb_continual_iff (c : Cfg) (obs : Nat → Obs) (n : Nat) :
    (run (rtbStep c) St.init obs n).cont = true ↔ ∀ i, i < n → ¬ rtbCause c obs i :=
  init_cont_iff (rtb_isCtl c) obs n

/-- "true until, false from": if `i` is the first step with a cause then `continual()` after `n` steps
is true exactly for `n ≤ i`. -/
theorem sop_first_cause (c : Cfg) (obs : Nat → Obs) (i : Nat) (hi : sopCause c obs i)
    (hfirst : ∀ j, j < i → ¬ sopCause c obs j) (n : Nat) :
    (run (sopStep c) St.init obs n).cont = true ↔ n ≤ i := by
  rw [sop_continual_iff]
  constructor
  · intro h
    by_cases hn : n ≤ i
    · exact hn
    · exact absurd hi (h i (by omega))
  · intro hn j hj; exact hfirst j (by omega)

theorem rtb_first_cause (c : Cfg) (obs : Nat → Obs) (i : Nat) (hi : rtbCause c obs i)
    (hfirst : ∀ j, j < i → ¬ rtbCause c obs j) (n : Nat) :
    (run (rtbStep c) St.init obs n).cont = true ↔ n ≤ i := by
  rw [rtb_continual_iff]
  constructor
  · intro h
    by_cases hn : n ≤ i
    · exact hn
    · exact absurd hi (h i (by omega))
  · intro hn j hj; exact hfirst j (by omega)

/-- A first cause always exists when the budget is a number: the budget itself is a cause at step
`max_steps - 1` at the latest (step 0 if `max_steps ≤ 1`). -/
theorem budget_is_cause (c : Cfg) (obs : Nat → Obs) :
    sopCause c obs (c.maxSteps - 1).toNat ∧ rtbCause c obs (c.maxSteps - 1).toNat := by
  have : budgetCause c (c.maxSteps - 1).toNat := by unfold budgetCause; omega
  exact ⟨Or.inl this, Or.inl this⟩

/-- The observable counters: after `n` steps `steps = n` and `patience_count` is the length of the run of
non-decreasing steps that ends at the last step (both controllers; they keep counting after stopping). -/
theorem counters_spec (c : Cfg) (obs : Nat → Obs) (n : Nat) :
    (run (sopStep c) St.init obs n).steps = n ∧ (run (sopStep c) St.init obs n).pc = trail obs n ∧
    (run (rtbStep c) St.init obs n).steps = n ∧ (run (rtbStep c) St.init obs n).pc = trail obs n := by
  refine ⟨?_, ?_, ?_, ?_⟩
  · simpa [St.init] using run_steps (sop_isCtl c) St.init obs n
  · rw [run_pc (sop_isCtl c)]; exact pcFrom_zero obs n
  · simpa [St.init] using run_steps (rtb_isCtl c) St.init obs n
  · rw [run_pc (rtb_isCtl c)]; exact pcFrom_zero obs n

/-- `patience_count ≥ m` after `n` steps iff the last `m` of the `n` steps all failed to decrease. -/
theorem patience_count_spec (c : Cfg) (obs : Nat → Obs) (n m : Nat) :
    m ≤ (run (rtbStep c) St.init obs n).pc ↔
      (m ≤ n ∧ ∀ j, n - m ≤ j → j < n → (obs j).nodec = true) := by
  rw [(counters_spec c obs n).2.2.2]; exact trail_ge_iff obs n m

/-! ## clause 2: absorbing — once false it stays false (until `reset`) -/

/-- From **any** state with `continual() = false`, any further steps leave it false. -/
theorem sop_absorbing (c : Cfg) (s : St) (hs : s.cont = false) (obs : Nat → Obs) (n : Nat) :
    (run (sopStep c) s obs n).cont = false := run_absorbing (sop_isCtl c) s hs obs n

theorem rtb_absorbing (c : Cfg) (s : St) (hs : s.cont = false) (obs : Nat → Obs) (n : Nat) :
    (run (rtbStep c) s obs n).cont = false := run_absorbing (rtb_isCtl c) s hs obs n

/-- Monotone along any run from any state: true at a later time implies true at every earlier time. -/
theorem continual_antitone (c : Cfg) (s : St) (obs : Nat → Obs) (n m : Nat) (hnm : n ≤ m) :
    ((run (sopStep c) s obs m).cont = true → (run (sopStep c) s obs n).cont = true) ∧
    ((run (rtbStep c) s obs m).cont = true → (run (rtbStep c) s obs n).cont = true) :=
  ⟨run_cont_mono (sop_isCtl c) s obs n m hnm, run_cont_mono (rtb_isCtl c) s obs n m hnm⟩

/-! ## clause 3: `reset` restores the initial state

`_Stepper.reset` (ReduceToBason).  `StopOnPlateau` / `_Scheduler` has **no** `reset` in /repo: for it the
"until reset" part of the clause has no implementation and "once false it stays false" holds unconditionally
(`sop_absorbing`, `optimize_stopped_noop`). -/

/-- **`reset` restores the initial state** (ReduceToBason), from every state whatsoever, and after it the
characterisation of clause 1 applies to the steps that follow.  In the model `reset` returns the constructor state by
definition (`_Stepper.reset` assigns all four fields), so the first two conjuncts are `rfl`: what ties this clause to
the code is the harness' reset-state / reset-behaviour oracle on the real object (defect D31 was found there), not
this theorem.  (Read-backs `rtb_reset_initial`, `rtbNum_reset_eq_fresh`, `rtb_history_since_last_reset` and the
historical witness `rtb_reset_old_not_initial` are in `Proofs/Lemmas/StopAux.lean`.) -/
theorem rtb_reset_clause (c : Cfg) (s : St) (obs : Nat → Obs) (n : Nat) :
    rtbReset s = St.init ∧
    run (rtbStep c) (rtbReset s) obs n = run (rtbStep c) St.init obs n ∧
    ((run (rtbStep c) (rtbReset s) obs n).cont = true ↔ ∀ i, i < n → ¬ rtbCause c obs i) :=
  ⟨rfl, rfl, rtb_continual_iff c obs n⟩

/-- Until `reset` nothing re-arms a stopped stepper, and `reset` is the only event that does: over any
history of `step`/`reset` events, the flag after an event is true only if the event is a `reset` or the
flag was true before it. -/
theorem rtb_only_reset_rearms (c : Cfg) (d tol : ℝ) (s : RtbSt ℝ) (e : Ev ℝ)
    (h : (rtbEv c d tol s e).st.cont = true) : e = Ev.reset ∨ s.st.cont = true := by
  cases e with
  | reset => exact Or.inl rfl
  | step loss =>
    right
    simp only [rtbEv, rtbStepNum] at h
    exact ((rtb_isCtl c).cont s.st _).mp h |>.1

/-! ## clause 4: every driver loop ends after at most `steps` controller steps -/

/-- **`StopOnPlateau.optimize`** from any scheduler state: the loop terminates with `continual()` false,
the scheduler state is the run over the observations produced, the flag was true before every iteration,
and the number of `optimizer.step` calls is at most `max 1 (max_steps - steps)`. -/
theorem optimize_bounded (c : Cfg) (s : St) (obs : Nat → Obs) :
    (optimize c s obs).2 = run (sopStep c) s obs (optimize c s obs).1 ∧
    (optimize c s obs).2.cont = false ∧
    (∀ j, j < (optimize c s obs).1 → (run (sopStep c) s obs j).cont = true) ∧
    ((optimize c s obs).1 : Int) ≤ max 1 (c.maxSteps - (s.steps : Int)) := by
  obtain ⟨m, heq, hf, hb, hle, _, _⟩ := loop_bounded (sop_isCtl c) obs s
  unfold optimize
  rw [heq]
  exact ⟨rfl, hf, hb, hle⟩

/-- fresh scheduler with `steps ≥ 1`: at most `steps` optimizer steps, at least one. -/
theorem optimize_le_steps (c : Cfg) (hc : 1 ≤ c.maxSteps) (obs : Nat → Obs) :
    1 ≤ (optimize c St.init obs).1 ∧ ((optimize c St.init obs).1 : Int) ≤ c.maxSteps := by
  obtain ⟨m, heq, _, _, hle, _, h1⟩ := loop_bounded (sop_isCtl c) obs St.init
  unfold optimize
  rw [heq]
  have := h1 rfl
  simp only [St.init] at hle
  exact ⟨this, by omega⟩

/-- The hypothesis `1 ≤ max_steps` of `optimize_le_steps` is needed: with `steps ≤ 0` code and model perform exactly
ONE optimizer step (the flag is true on entry, the budget test `steps >= max_steps` fires on the first step). -/
theorem optimize_nonpositive_budget (c : Cfg) (hc : c.maxSteps ≤ 0) (obs : Nat → Obs) :
    (optimize c St.init obs).1 = 1 := by
  obtain ⟨m, heq, _, _, hle, _, h1⟩ := loop_bounded (sop_isCtl c) obs St.init
  unfold optimize
  rw [heq]
  have := h1 rfl
  simp only [St.init] at hle
  omega

/-- the loop ends exactly at the first documented cause -/
theorem optimize_count_first_cause (c : Cfg) (obs : Nat → Obs) :
    1 ≤ (optimize c St.init obs).1 ∧ sopCause c obs ((optimize c St.init obs).1 - 1) ∧
    ∀ i, i + 1 < (optimize c St.init obs).1 → ¬ sopCause c obs i :=
  loop_init_first_cause (sop_isCtl c) obs

/-- calling `optimize` on a stopped scheduler does nothing (nothing re-arms it) -/
theorem optimize_stopped_noop (c : Cfg) (s : St) (hs : s.cont = false) (obs : Nat → Obs) :
    optimize c s obs = (0, s) := by
  obtain ⟨m, heq, _, _, _, h0, _⟩ := loop_bounded (sop_isCtl c) obs s
  unfold optimize
  rw [heq, h0 hs]
  rfl

/-- **`ICP.forward`**, whatever state the stepper is in when `forward` is entered (first call, later
call, shared stepper): at least 1 and at most `max 1 max_steps` controller steps, `svdtf` is called once
per step plus once at the end, and the stepper ends stopped. -/
theorem icp_bounded (c : Cfg) (s : St) (obs : Nat → Obs) :
    1 ≤ (icpForward c s obs).1 ∧ ((icpForward c s obs).1 : Int) ≤ max 1 c.maxSteps ∧
    (icpForward c s obs).2.1 = (icpForward c s obs).1 + 1 ∧ (icpForward c s obs).2.2.cont = false := by
  obtain ⟨m, heq, hf, _, hle, _, h1⟩ := loop_bounded (rtb_isCtl c) obs (rtbReset s)
  unfold icpForward
  simp only [heq]
  have := h1 rfl
  simp only [rtbReset] at hle
  exact ⟨this, by omega, by simp, hf⟩

/-- **`MPC.forward`** for an MPC built (`k ≥ 1` times, e.g. a stepper shared by `k` MPC objects) on a
stepper created with `steps`: at most `max 1 (steps - k)` controller steps, hence at most `steps` for
`steps ≥ 1`; `lqr` is called once per step plus once at the end. -/
theorem mpc_bounded (c0 : Cfg) (k : Nat) (hk : 1 ≤ k) (s : St) (obs : Nat → Obs) :
    1 ≤ (mpcForward (mpcInitN k c0) s obs).1 ∧
    ((mpcForward (mpcInitN k c0) s obs).1 : Int) ≤ max 1 (c0.maxSteps - k) ∧
    (1 ≤ c0.maxSteps → ((mpcForward (mpcInitN k c0) s obs).1 : Int) ≤ c0.maxSteps) ∧
    (mpcForward (mpcInitN k c0) s obs).2.1 = (mpcForward (mpcInitN k c0) s obs).1 + 1 ∧
    (mpcForward (mpcInitN k c0) s obs).2.2.cont = false := by
  have hcfg : ∀ k : Nat, (mpcInitN k c0).maxSteps = c0.maxSteps - k := by
    intro k
    induction k with
    | zero => simp [mpcInitN]
    | succ k ih => simp only [mpcInitN, mpcInit, ih]; omega
  obtain ⟨m, heq, hf, _, hle, _, h1⟩ := loop_bounded (rtb_isCtl (mpcInitN k c0)) obs (rtbReset s)
  unfold mpcForward
  simp only [heq]
  have := h1 rfl
  simp only [rtbReset, hcfg] at hle
  exact ⟨this, by omega, fun _ => by omega, by simp, hf⟩

/-- `ICP.forward` / `MPC.forward`, whatever state the stepper is in on entry (first call, later call, shared
stepper): the number of controller steps is exactly the index of the first documented cause of a fresh
controller (budget `steps` for ICP, `steps - k` for an MPC built `k` times on the stepper). -/
theorem icp_mpc_count_first_cause (c : Cfg) (k : Nat) (s : St) (obs : Nat → Obs) :
    (1 ≤ (icpForward c s obs).1 ∧ rtbCause c obs ((icpForward c s obs).1 - 1) ∧
      ∀ i, i + 1 < (icpForward c s obs).1 → ¬ rtbCause c obs i) ∧
    (1 ≤ (mpcForward (mpcInitN k c) s obs).1 ∧
      rtbCause (mpcInitN k c) obs ((mpcForward (mpcInitN k c) s obs).1 - 1) ∧
      ∀ i, i + 1 < (mpcForward (mpcInitN k c) s obs).1 → ¬ rtbCause (mpcInitN k c) obs i) := by
  have hr : rtbReset s = St.init := rfl
  unfold icpForward mpcForward
  simp only [hr]
  exact ⟨loop_init_first_cause (rtb_isCtl c) obs, loop_init_first_cause (rtb_isCtl (mpcInitN k c)) obs⟩

/-- with `steps ≥ 2` even the number of `lqr` calls (loop + final solve) is at most `steps` -/
theorem mpc_lqr_calls_le_steps (c0 : Cfg) (h2 : 2 ≤ c0.maxSteps) (s : St) (obs : Nat → Obs) :
    ((mpcForward (mpcInit c0) s obs).2.1 : Int) ≤ c0.maxSteps := by
  have := mpc_bounded c0 1 (by omega) s obs
  simp only [mpcInitN] at this
  obtain ⟨_, hle, _, hcalls, _⟩ := this
  rw [hcalls]
  push_cast
  omega

/-! ## the numeric layer: how the observations are computed from real-valued (batched) losses -/

/-- **ReduceToBason on real-valued batched losses** (non-empty batches of positive losses **of one constant size
`B`** — the flat model pairs `last` and `loss` with `List.zip`, which matches torch only then; for shapes that change
see `rtbRunX_spec` —, any `d`, `tol`, `steps`, `patience`, any length): `continual()` after `n` steps is true iff at no step `i < n` the budget
was reached, or at least `patience` consecutive steps up to `i` each failed to decrease every element by
the fraction `d` of its new value, or all elements were below `tol`. -/
theorem rtbNum_continual_iff_pos (c : Cfg) (d tol : ℝ) (loss : Nat → List ℝ) (B : Nat)
    (_hB : ∀ i, (loss i).length = B)
    (hne : ∀ i, loss i ≠ []) (hpos : ∀ i, ∀ x ∈ loss i, 0 < x) (n : Nat) :
    (rtbRunNum c d tol RtbSt.init loss n).st.cont = true ↔
      ∀ i, i < n → ¬ (budgetCause c i ∨
        (∃ m : Nat, c.patience ≤ (m : Int) ∧ m ≤ i + 1 ∧ ∀ j, i + 1 - m ≤ j → j ≤ i → failsAt d loss j) ∨
        (∀ x ∈ loss i, x < tol)) := by
  have hnd : ∀ j, (numObs d tol none loss j).nodec = true ↔ failsAt d loss j := by
    intro j
    cases j with
    | zero =>
      have hx : ∃ x ∈ loss 0, (0:ℝ) ≤ x := by
        cases hl : loss 0 with
        | nil => exact absurd hl (hne 0)
        | cons a t => exact ⟨a, by simp, le_of_lt (hpos 0 a (by simp [hl]))⟩
      simp only [numObs, rtbObs, relNoDec_none_of_nonneg d (loss 0) hx, failsAt]
      constructor
      · intro h; exact absurd h (by decide)
      · rintro ⟨j', h, _⟩; omega
    | succ j =>
      simp only [numObs, rtbObs, relNoDec_some_pos d (loss j) (loss (j+1)) (hpos (j+1)), failsAt]
      constructor
      · intro h; exact ⟨j, rfl, h⟩
      · rintro ⟨j', h, hall⟩
        have : j' = j := by omega
        subst this; exact hall
  have hbl : ∀ i, (numObs d tol none loss i).below = true ↔ ∀ x ∈ loss i, x < tol := by
    intro i; simp only [numObs, rtbObs]; exact belowTol_iff tol (loss i)
  rw [rtbRunNum_st, RtbSt.init, rtb_continual_iff]
  constructor
  · intro h i hi hc
    apply h i hi
    rcases hc with h1 | ⟨m, hp, hm, hall⟩ | h3
    · exact Or.inl h1
    · exact Or.inr (Or.inl ⟨m, hp, hm, fun j h1 h2 => (hnd j).mpr (hall j h1 h2)⟩)
    · exact Or.inr (Or.inr ((hbl i).mpr h3))
  · intro h i hi hc
    apply h i hi
    rcases hc with h1 | ⟨m, hp, hm, hall⟩ | h3
    · exact Or.inl h1
    · exact Or.inr (Or.inl ⟨m, hp, hm, fun j h1 h2 => (hnd j).mp (hall j h1 h2)⟩)
    · exact Or.inr (Or.inr ((hbl i).mp h3))

/-- **ReduceToBason on arbitrary real losses** (any sign, zeros, empty batches; constant batch size `B`), with the
causes **in the property's own words**: `continual()` after `n` steps is true iff at no step `i < n` the budget was
reached, or at least `patience` consecutive steps up to `i` each *failed to decrease* (`failsAtR`: first step after the
constructor — only an all-negative batch; later — for every element, with previous value `l` and new value `x`:
`x > 0` and `l - x < d·x`, or `x < 0` and `d·x < l - x`, or `x = 0` and `l < 0`), or all elements were below `tol`. -/
theorem rtbNum_continual_iff_real (c : Cfg) (d tol : ℝ) (loss : Nat → List ℝ) (B : Nat)
    (_hB : ∀ i, (loss i).length = B) (n : Nat) :
    (rtbRunNum c d tol RtbSt.init loss n).st.cont = true ↔
      ∀ i, i < n → ¬ (budgetCause c i ∨
        (∃ m : Nat, c.patience ≤ (m : Int) ∧ m ≤ i + 1 ∧ ∀ j, i + 1 - m ≤ j → j ≤ i → failsAtR d loss j) ∨
        (∀ x ∈ loss i, x < tol)) := by
  have hbl : ∀ i, (numObs d tol none loss i).below = true ↔ ∀ x ∈ loss i, x < tol := by
    intro i; simp only [numObs, rtbObs]; exact belowTol_iff tol (loss i)
  rw [rtbRunNum_st, RtbSt.init, rtb_continual_iff]
  constructor
  · intro h i hi hc
    apply h i hi
    rcases hc with h1 | ⟨m, hp, hm, hall⟩ | h3
    · exact Or.inl h1
    · exact Or.inr (Or.inl ⟨m, hp, hm, fun j h1 h2 => (numObs_nodec_iff d tol loss j).mpr (hall j h1 h2)⟩)
    · exact Or.inr (Or.inr ((hbl i).mpr h3))
  · intro h i hi hc
    apply h i hi
    rcases hc with h1 | ⟨m, hp, hm, hall⟩ | h3
    · exact Or.inl h1
    · exact Or.inr (Or.inl ⟨m, hp, hm, fun j h1 h2 => (numObs_nodec_iff d tol loss j).mp (hall j h1 h2)⟩)
    · exact Or.inr (Or.inr ((hbl i).mp h3))

/-- the same through the model's own predicates (`relNoDec`, `belowTol`), constant batch size `B` -/
theorem rtbNum_continual_iff_all (c : Cfg) (d tol : ℝ) (loss : Nat → List ℝ) (B : Nat)
    (_hB : ∀ i, (loss i).length = B) (n : Nat) :
    (rtbRunNum c d tol RtbSt.init loss n).st.cont = true ↔
      ∀ i, i < n → ¬ rtbCause c (numObs d tol none loss) i := by
  rw [rtbRunNum_st, RtbSt.init, rtb_continual_iff]

/-- **StopOnPlateau on real-valued optimizer readings** (any reals, any threshold): `continual()` after
`n` steps is true iff at no step `i < n` the budget was reached, or at least `patience` consecutive steps
up to `i` each had `last - loss < decreasing`, or the optimizer had `reject_count > 0`. -/
theorem sopNum_continual_iff (c : Cfg) (d : ℝ) (o : Nat → OptObs ℝ) (n : Nat) :
    (run (sopStep c) St.init (fun i => sopObs d (o i)) n).cont = true ↔
      ∀ i, i < n → ¬ (budgetCause c i ∨
        (∃ m : Nat, c.patience ≤ (m : Int) ∧ m ≤ i + 1 ∧
          ∀ j, i + 1 - m ≤ j → j ≤ i → (o j).last - (o j).loss < d) ∨
        (∃ r, (o i).rejectCount = some r ∧ 0 < r)) := by
  have hnd : ∀ j, (sopObs d (o j)).nodec = true ↔ (o j).last - (o j).loss < d := by
    intro j; simp only [sopObs]; exact absNoDec_iff d _ _
  have hrj : ∀ i, (sopObs d (o i)).rej = true ↔ ∃ r, (o i).rejectCount = some r ∧ 0 < r := by
    intro i
    simp only [sopObs]
    cases (o i).rejectCount with
    | none => simp
    | some r => simp
  rw [sop_continual_iff]
  constructor
  · intro h i hi hc
    apply h i hi
    rcases hc with h1 | ⟨m, hp, hm, hall⟩ | h3
    · exact Or.inl h1
    · exact Or.inr (Or.inl ⟨m, hp, hm, fun j h1 h2 => (hnd j).mpr (hall j h1 h2)⟩)
    · exact Or.inr (Or.inr ((hrj i).mpr h3))
  · intro h i hi hc
    apply h i hi
    rcases hc with h1 | ⟨m, hp, hm, hall⟩ | h3
    · exact Or.inl h1
    · exact Or.inr (Or.inl ⟨m, hp, hm, fun j h1 h2 => (hnd j).mp (hall j h1 h2)⟩)
    · exact Or.inr (Or.inr ((hrj i).mp h3))

/-- On the first step after `reset` (or construction) `last = +inf`: a batch containing a non-negative loss
never counts as a non-decrease; a batch of only negative losses does (`(inf - x)/x = -inf`). -/
theorem rtbNum_first_step_nodec (d tol : ℝ) (loss : List ℝ) :
    ((∃ x ∈ loss, 0 ≤ x) → (rtbObs d tol none loss).nodec = false) ∧
    ((∀ x ∈ loss, x < 0) → (rtbObs d tol none loss).nodec = true) := by
  refine ⟨fun h => relNoDec_none_of_nonneg d loss h, fun h => ?_⟩
  simp only [rtbObs, relNoDec, List.all_eq_true]
  intro x hx
  exact (relNoDec1_none d x).mpr (h x hx)

/-! ## pass 3: IEEE special values, every batch shape, numeric driver loops, argument defaulting

Model: `Pose/Model/StopX.lean`. -/

/-- **The extended model contains the finite one.** With the exact IEEE rules for `inf`, `0` and NaN the single
formula `(last - loss)/loss < d` reproduces, for all real `last`, `loss`, `d`, the case split of `relNoDec1`
(first step after reset, zero loss, `0/0`); likewise the absolute test of StopOnPlateau. -/
theorem ext_model_agrees_on_finite (d l x : ℝ) :
    relNoDec1X (XF.num d) (XF.num l) (XF.num x) = relNoDec1 d (some l) x ∧
    relNoDec1X (XF.num d) XF.pinf (XF.num x) = relNoDec1 d none x ∧
    absNoDecX (XF.num d) (XF.num l) (XF.num x) = absNoDec d l x :=
  ⟨relNoDec1X_num_num d l x, relNoDec1X_pinf_num d x, absNoDecX_num d l x⟩

/-- **NaN losses.** Every comparison with a NaN is false: a NaN element is never "below tol" and never a
"non-decrease" — neither as the new loss nor as the stored `last` — for any thresholds (also NaN/inf ones);
StopOnPlateau: a NaN reading (or a NaN `decreasing`) never counts as a non-decrease. -/
theorem nan_never_satisfies_a_criterion (d l x t : XF ℝ) :
    relNoDec1X d l XF.nan = false ∧ relNoDec1X d XF.nan x = false ∧ XF.lt XF.nan t = false ∧
    XF.lt x XF.nan = false ∧ absNoDecX d XF.nan x = false ∧ absNoDecX d x XF.nan = false ∧
    absNoDecX XF.nan x x = false :=
  ⟨(nan_tests d l x t).1, (nan_tests d l x t).2.1, (nan_tests d l x t).2.2.1, (nan_tests d l x t).2.2.2,
   (absNoDecX_nan d x).1, (absNoDecX_nan d x).2.1, (absNoDecX_nan d x).2.2⟩

/-- **Infinite and negative-zero losses** after a finite `last`: `±inf` is never a non-decrease (`(l ∓ inf)/±inf`
is NaN); `-inf` is below every finite `tol`, `+inf` below none; a `-0.0` loss counts as a non-decrease iff
`last > 0` — the opposite sign of the `+0.0` case (`last < 0`). -/
theorem inf_and_negzero_losses (d : XF ℝ) (dd l tol : ℝ) :
    relNoDec1X d (XF.num l) XF.pinf = false ∧ relNoDec1X d (XF.num l) XF.ninf = false ∧
    XF.lt (XF.ninf : XF ℝ) (XF.num tol) = true ∧ XF.lt (XF.pinf : XF ℝ) (XF.num tol) = false ∧
    relNoDec1X (XF.num dd) (XF.num l) XF.nzero = decide (0 < l) ∧
    relNoDec1X (XF.num dd) (XF.num l) (XF.num 0) = decide (l < 0) := by
  refine ⟨(inf_loss_tests d l tol).1, (inf_loss_tests d l tol).2.1, rfl, rfl, relNoDec1X_negzero dd l, ?_⟩
  rw [relNoDec1X_num_num]
  simp [relNoDec1]

/-- **The batched criterion for every pair of shapes** (any scalar type, special values included):
`torch.all((last - loss)/loss < d)` raises iff the shapes do not broadcast; otherwise it is the conjunction over
every element `k` of the broadcast shape of the element test on the entries torch pairs with `k`.  Special cases
for every shape `s`: `last` 0-dim (first step after `reset`) — every element of `loss` against that one value;
`last` of the same shape as `loss` — element by element. -/
theorem batched_criterion_every_shape {α : Type} [Scalar α] (d : XF α) (last loss : TX α) (l : XF α) (s : Batch.Shape)
    (ls xs : List (XF α)) (hl : ls.length = Batch.numel s) (hx : xs.length = Batch.numel s) :
    (relNoDecT d last loss = (Batch.broadcastShapes last.shape loss.shape).map fun out =>
      (List.range (Batch.numel out)).all fun k => relNoDec1X d (last.bat out k) (loss.bat out k)) ∧
    relNoDecT d (TX.scalar l) ⟨s, xs⟩ = some (xs.all fun x => relNoDec1X d l x) ∧
    relNoDecT d ⟨s, ls⟩ ⟨s, xs⟩ = some ((List.zip ls xs).all fun p => relNoDec1X d p.1 p.2) :=
  ⟨relNoDecT_spec d last loss, relNoDecT_scalar_last d l s xs hx, relNoDecT_same_shape d s ls xs hl hx⟩

/-- On finite tensors of one shape the extended step is the step of the basic numeric model: observation and
abstract state coincide (`last` of the same shape, or the 0-dim `inf` after a reset), for every shape. -/
theorem ext_step_agrees_on_finite (c : Cfg) (d tol : ℝ) (st : St) (s : Batch.Shape) (ls xs : List ℝ)
    (hl : ls.length = Batch.numel s) (hx : xs.length = Batch.numel s) :
    rtbObsX (XF.num d) (XF.num tol) ⟨s, ls.map XF.num⟩ ⟨s, xs.map XF.num⟩ = some (rtbObs d tol (some ls) xs) ∧
    rtbObsX (XF.num d) (XF.num tol) (TX.scalar XF.pinf) ⟨s, xs.map XF.num⟩ = some (rtbObs d tol none xs) ∧
    (rtbStepX c (XF.num d) (XF.num tol) ⟨st, ⟨s, ls.map XF.num⟩⟩ ⟨s, xs.map XF.num⟩).map (·.st)
      = some (rtbStepNum c d tol ⟨st, some ls⟩ xs).st := by
  have hbelow : belowTolT (XF.num tol) (⟨s, xs.map XF.num⟩ : TX ℝ) = belowTol tol xs := by
    simp only [belowTolT, TX.allLt, belowTol, List.all_map]
    apply all_congr'
    intro x _
    rfl
  have h1 : relNoDecT (XF.num d) (⟨s, ls.map XF.num⟩ : TX ℝ) ⟨s, xs.map XF.num⟩ = some (relNoDec d (some ls) xs) := by
    rw [relNoDecT_same_shape (XF.num d) s _ _ (by simpa using hl) (by simpa using hx)]
    congr 1
    simp only [relNoDec, List.zip_map, List.all_map]
    apply all_congr'
    intro p _
    simp [Function.comp, relNoDec1X_num_num]
  have h2 : relNoDecT (XF.num d) (TX.scalar XF.pinf : TX ℝ) ⟨s, xs.map XF.num⟩ = some (relNoDec d none xs) := by
    rw [relNoDecT_scalar_last (XF.num d) XF.pinf s _ (by simpa using hx)]
    congr 1
    simp only [relNoDec, List.all_map]
    apply all_congr'
    intro x _
    simp [Function.comp, relNoDec1X_pinf_num]
  refine ⟨?_, ?_, ?_⟩
  · simp [rtbObsX, h1, hbelow, rtbObs]
  · simp [rtbObsX, h2, hbelow, rtbObs]
  · simp [rtbStepX, rtbObsX, h1, hbelow, rtbStepNum, rtbObs]

/-- **`continual()` for histories with special values and changing shapes.** If `n` steps on the tensors
`loss 0 … loss (n-1)` (any shapes that broadcast, NaN, inf, -0.0 allowed) do not raise, there is an observation stream —
the one `rtbObsX` computes from `last = lastOf loss i` and `loss i` — such that the controller state is the abstract
run on it; hence `continual()` is true iff none of the documented causes occurred, `last` is the last loss. -/
theorem rtbRunX_spec {α : Type} [Scalar α] (c : Cfg) (d tol : XF α) (loss : Nat → TX α) (n : Nat) (s : RtbStX α)
    (h : rtbRunX c d tol RtbStX.init loss n = some s) :
    ∃ obs : Nat → Obs, (∀ i, i < n → rtbObsX d tol (lastOf loss i) (loss i) = some (obs i)) ∧
      s.st = run (rtbStep c) St.init obs n ∧ s.last = lastOf loss n ∧
      (s.st.cont = true ↔ ∀ i, i < n → ¬ rtbCause c obs i) := by
  induction n generalizing s with
  | zero =>
    simp only [rtbRunX, Option.some.injEq] at h
    subst h
    exact ⟨fun _ => default, fun i hi => by omega, rfl, rfl, by simp [RtbStX.init, St.init]⟩
  | succ n ih =>
    simp only [rtbRunX] at h
    cases hp : rtbRunX c d tol RtbStX.init loss n with
    | none => simp [hp] at h
    | some s' =>
      rw [hp] at h
      simp only [Option.bind_some, rtbStepX] at h
      obtain ⟨obs, hobs, hst, hlast, _⟩ := ih s' hp
      cases ho : rtbObsX d tol s'.last (loss n) with
      | none => simp [ho] at h
      | some o =>
        simp only [ho, Option.map_some, Option.some.injEq] at h
        subst h
        let obs' : Nat → Obs := fun i => if i = n then o else obs i
        have hrun : run (rtbStep c) St.init obs' n = run (rtbStep c) St.init obs n := by
          have : ∀ m, m ≤ n → run (rtbStep c) St.init obs' m = run (rtbStep c) St.init obs m := by
            intro m hm
            induction m with
            | zero => rfl
            | succ m ihm =>
              simp only [run]
              rw [ihm (by omega)]
              have : obs' m = obs m := by simp [obs']; intro hmn; omega
              rw [this]
          exact this n (Nat.le_refl n)
        refine ⟨obs', ?_, ?_, rfl, ?_⟩
        · intro i hi
          by_cases hin : i = n
          · subst hin; simp only [obs', if_true]; rw [← hlast]; exact ho
          · simp only [obs', hin, if_false]; exact hobs i (by omega)
        · simp only [run, hrun, ← hst]
          simp [obs']
        · have : (rtbStep c s'.st o) = run (rtbStep c) St.init obs' (n+1) := by
            simp only [run, hrun, ← hst]; simp [obs']
          rw [this]
          exact rtb_continual_iff c obs' (n+1)

/-- **A NaN anywhere in the loss resets the patience count** (0-dim `last` or `last` of the same shape): the step
is observed as "decrease, not below tol", so `patience_count` becomes 0 and only the budget can stop. -/
theorem nan_loss_resets_patience (c : Cfg) (d tol l : XF ℝ) (st : St) (s : Batch.Shape) (ls xs : List (XF ℝ))
    (hl : ls.length = Batch.numel s) (hx : xs.length = Batch.numel s) (hnan : XF.nan ∈ xs) :
    rtbObsX d tol (TX.scalar l) ⟨s, xs⟩ = some ⟨false, false, false⟩ ∧
    rtbObsX d tol ⟨s, ls⟩ ⟨s, xs⟩ = some ⟨false, false, false⟩ ∧
    (rtbStepX c d tol ⟨st, ⟨s, ls⟩⟩ ⟨s, xs⟩).map (·.st.pc) = some 0 := by
  have hbelow : belowTolT tol (⟨s, xs⟩ : TX ℝ) = false := by
    simp only [belowTolT, TX.allLt]
    rw [List.all_eq_false]
    exact ⟨XF.nan, hnan, by simp [(nan_tests d l l tol).2.2.1]⟩
  have h1 : relNoDecT d (TX.scalar l) (⟨s, xs⟩ : TX ℝ) = some false := by
    rw [relNoDecT_scalar_last d l s xs hx]
    congr 1
    rw [List.all_eq_false]
    exact ⟨XF.nan, hnan, by simp [(nan_tests d l l tol).1]⟩
  have h2 : relNoDecT d (⟨s, ls⟩ : TX ℝ) ⟨s, xs⟩ = some false := by
    rw [relNoDecT_same_shape d s ls xs hl hx]
    congr 1
    rw [List.all_eq_false]
    obtain ⟨i, hi, hxi⟩ := List.getElem_of_mem hnan
    have hil : i < ls.length := by omega
    refine ⟨(ls[i], xs[i]), ?_, ?_⟩
    · exact List.mem_iff_getElem.mpr ⟨i, by simp [hil, hi], by simp⟩
    · simp [hxi, (nan_tests d ls[i] l tol).1]
  refine ⟨by simp [rtbObsX, h1, hbelow], by simp [rtbObsX, h2, hbelow], ?_⟩
  simp [rtbStepX, rtbObsX, h2, hbelow, rtbStep]

/-- **Numeric driver loop of `ICP.forward` / `MPC.forward`** on the batched losses the loop body produces (one
constant batch size `B` — the `error` / `cost` of a forward call has a fixed shape), for every loss stream and every
stepper state on entry: the number of controller steps is that of the abstract loop on the
observations computed from the losses (`last` = previous loss, `inf` first), hence it is ≥ 1, ≤ `max 1 max_steps`,
exactly the first index at which a documented cause occurs; kernel calls = steps + 1; the final numeric state is the
numeric run and ends stopped. -/
theorem forwardNum_spec (c : Cfg) (d tol : ℝ) (s : RtbSt ℝ) (loss : Nat → List ℝ) (B : Nat)
    (_hB : ∀ i, (loss i).length = B) :
    (forwardNum c d tol s loss).1 = (icpForward c s.st (obsOfLosses d tol none loss)).1 ∧
    (forwardNum c d tol s loss).2.1 = (forwardNum c d tol s loss).1 + 1 ∧
    (forwardNum c d tol s loss).2.2 = rtbRunNum c d tol RtbSt.init loss (forwardNum c d tol s loss).1 ∧
    (forwardNum c d tol s loss).2.2.st.cont = false ∧
    1 ≤ (forwardNum c d tol s loss).1 ∧ ((forwardNum c d tol s loss).1 : Int) ≤ max 1 c.maxSteps ∧
    rtbCause c (obsOfLosses d tol none loss) ((forwardNum c d tol s loss).1 - 1) ∧
    (∀ i, i + 1 < (forwardNum c d tol s loss).1 → ¬ rtbCause c (obsOfLosses d tol none loss) i) := by
  have href := loopG_refines (rtbStepNum c d tol) (fun s => s.st) (fun s x => rtbObs d tol s.last x) (rtbStep c)
    (fun s x => rfl) loss (fuelFor c (rtbResetNum s).st) 0 (rtbResetNum s)
  have hobs : (fun j => rtbObs d tol (runG (rtbStepNum c d tol) (rtbResetNum s) (fun t => loss (0 + t)) (j - 0)).last (loss j))
      = obsOfLosses d tol none loss := by
    funext j
    have e : (fun t => loss (0 + t)) = loss := by funext t; simp
    rw [e, Nat.sub_zero, ← rtbRunNum_eq_runG, rtbRunNum_last]
    cases j <;> rfl
  rw [hobs] at href
  obtain ⟨h1, h2, h3, _⟩ := href
  have hicp : (icpForward c s.st (obsOfLosses d tol none loss)).1
      = (loop (rtbStep c) (obsOfLosses d tol none loss) (fuelFor c (rtbReset s.st)) 0 (rtbReset s.st)).1 := rfl
  have hfw : (forwardNum c d tol s loss).1
      = (loopG (rtbStepNum c d tol) (fun s => s.st.cont) loss (fuelFor c (rtbResetNum s).st) 0 (rtbResetNum s)).1 := rfl
  have hfw2 : (forwardNum c d tol s loss).2.2
      = (loopG (rtbStepNum c d tol) (fun s => s.st.cont) loss (fuelFor c (rtbResetNum s).st) 0 (rtbResetNum s)).2 := rfl
  have hcnt : (forwardNum c d tol s loss).1 = (icpForward c s.st (obsOfLosses d tol none loss)).1 := by
    rw [hfw, hicp]; exact h1
  have hb := icp_bounded c s.st (obsOfLosses d tol none loss)
  have hc := (icp_mpc_count_first_cause c 0 s.st (obsOfLosses d tol none loss)).1
  refine ⟨hcnt, rfl, ?_, ?_, ?_, ?_, ?_, ?_⟩
  · rw [hfw2, h2]
    have e : (fun t => loss (0 + t)) = loss := by funext t; simp
    rw [e, Nat.sub_zero, ← rtbRunNum_eq_runG, ← hfw]
    rfl
  · rw [hfw2, h3]
    exact hb.2.2.2
  · rw [hcnt]; exact hb.1
  · rw [hcnt]; exact hb.2.1
  · rw [hcnt]; exact hc.2.1
  · rw [hcnt]; exact hc.2.2

/-- **Numeric driver loop of `StopOnPlateau.optimize`** on the optimizer's readings `(last, loss, reject_count)`,
from any scheduler state: the number of `optimizer.step` calls is that of the abstract loop on the observations
`sopObs d (o i)`; from the constructor state it is ≥ 1, ≤ `steps` (for `steps ≥ 1`), exactly the first index at which
a documented cause occurs. -/
theorem optimizeNum_spec (c : Cfg) (d : ℝ) (s : St) (o : Nat → OptObs ℝ) :
    (optimizeNum c d s o).1 = (optimize c s (fun i => sopObs d (o i))).1 ∧
    (optimizeNum c d s o).2 = (optimize c s (fun i => sopObs d (o i))).2 ∧
    (optimizeNum c d s o).2.cont = false ∧
    ((optimizeNum c d s o).1 : Int) ≤ max 1 (c.maxSteps - (s.steps : Int)) ∧
    (s = St.init → 1 ≤ (optimizeNum c d s o).1 ∧
      sopCause c (fun i => sopObs d (o i)) ((optimizeNum c d s o).1 - 1) ∧
      ∀ i, i + 1 < (optimizeNum c d s o).1 → ¬ sopCause c (fun i => sopObs d (o i)) i) := by
  have href := loopG_refines (sopStepNum c d) (fun s => s) (fun _ x => sopObs d x) (sopStep c)
    (fun s x => rfl) o (fuelFor c s) 0 s
  obtain ⟨h1, _, h3, _⟩ := href
  have e1 : (optimizeNum c d s o).1 = (optimize c s (fun i => sopObs d (o i))).1 := h1
  have e2 : (optimizeNum c d s o).2 = (optimize c s (fun i => sopObs d (o i))).2 := h3
  have hb := optimize_bounded c s (fun i => sopObs d (o i))
  refine ⟨e1, e2, by rw [e2]; exact hb.2.1, by rw [e1]; exact hb.2.2.2, ?_⟩
  intro hs
  subst hs
  rw [e1]
  exact optimize_count_first_cause c (fun i => sopObs d (o i))

/-- **Error path.** A step raises exactly when the shape of the stored `last` and the shape of the new loss do not
broadcast (`torch.broadcast_shapes` fails); in particular never on the first step after a `reset` (0-dim `last`) and
never when the loss keeps its shape. -/
theorem step_raises_iff {α : Type} [Scalar α] (c : Cfg) (d tol : XF α) (s : RtbStX α) (loss : TX α) :
    (rtbStepX c d tol s loss = none ↔ Batch.broadcastShapes s.last.shape loss.shape = none) ∧
    (rtbStepX c d tol RtbStX.init loss).isSome = true ∧
    (s.last.shape = loss.shape → (rtbStepX c d tol s loss).isSome = true) := by
  have key : ∀ (l : TX α), (rtbStepX c d tol ⟨s.st, l⟩ loss).isSome = (Batch.broadcastShapes l.shape loss.shape).isSome := by
    intro l
    simp only [rtbStepX, rtbObsX, Option.isSome_map, relNoDecT_spec]
  refine ⟨?_, ?_, ?_⟩
  · have := key s.last
    cases h1 : rtbStepX c d tol s loss <;> cases h2 : Batch.broadcastShapes s.last.shape loss.shape <;>
      simp_all
  · have := key (TX.scalar XF.pinf)
    have e : (⟨s.st, TX.scalar XF.pinf⟩ : RtbStX α) = ⟨s.st, TX.scalar XF.pinf⟩ := rfl
    simp only [rtbStepX, rtbObsX, Option.isSome_map, relNoDecT_spec, RtbStX.init, TX.scalar, broadcastShapes_nil_left,
      Option.isSome_some]
  · intro h
    rw [key s.last, h, broadcastShapes_self]
    rfl

/-- Hence a history whose losses all have one shape (any shape, any values incl. NaN) never raises, for every
length — the hypothesis of `rtbRunX_spec` is satisfied. -/
theorem constant_shape_never_raises {α : Type} [Scalar α] (c : Cfg) (d tol : XF α) (loss : Nat → TX α) (sh : Batch.Shape)
    (hsh : ∀ i, (loss i).shape = sh) (n : Nat) :
    ∃ s, rtbRunX c d tol RtbStX.init loss n = some s ∧ s.last = lastOf loss n := by
  induction n with
  | zero => exact ⟨RtbStX.init, rfl, rfl⟩
  | succ n ih =>
    obtain ⟨s, hs, hl⟩ := ih
    have hsome : (rtbStepX c d tol s (loss n)).isSome = true := by
      cases n with
      | zero =>
        simp only [rtbRunX, Option.some.injEq] at hs
        subst hs
        exact (step_raises_iff c d tol RtbStX.init (loss 0)).2.1
      | succ m =>
        apply (step_raises_iff c d tol s (loss (m+1))).2.2
        rw [hl]
        simp [lastOf, hsh]
    obtain ⟨s', hs'⟩ := Option.isSome_iff_exists.mp hsome
    refine ⟨s', by simp [rtbRunX, hs, hs'], ?_⟩
    simp only [rtbStepX] at hs'
    cases ho : rtbObsX d tol s.last (loss n) with
    | none => simp [ho] at hs'
    | some o =>
      simp only [ho, Option.map_some, Option.some.injEq] at hs'
      subst hs'
      rfl

/-- **StopOnPlateau with special values** (`sopStepX`, what the driver runs for the `numx.sop` stream): on finite
readings it is the step of the basic model; a NaN reading or a NaN `decreasing` never counts as a non-decrease. -/
theorem sop_ext_agrees_and_nan (c : Cfg) (d l x : ℝ) (s : St) (rc : Option Nat) (dx a : XF ℝ) :
    sopStepX c (XF.num d) s (XF.num l) (XF.num x) rc = sopStepNum c d s ⟨l, x, rc⟩ ∧
    (sopObsX dx XF.nan a rc).nodec = false ∧ (sopObsX dx a XF.nan rc).nodec = false ∧
    (sopObsX XF.nan a a rc).nodec = false := by
  refine ⟨?_, (absNoDecX_nan dx a).1, (absNoDecX_nan dx a).2.1, (absNoDecX_nan dx a).2.2⟩
  unfold sopStepX sopStepNum sopObsX sopObs
  rw [absNoDecX_num]
  cases rc <;> rfl

/-- **The documented check of `StopOnPlateau.step`** (`assert self.optimizer.loss is not None`, its first statement):
a call made while `optimizer.loss is None` raises and leaves the scheduler exactly as it was, so over any history of
calls — some of them failing the check — the scheduler is where the successful calls alone put it. -/
theorem sop_failed_assert_atomic (c : Cfg) (d : ℝ) (s : St) (calls : List (Option (OptObs ℝ))) :
    (sopStepChecked c d s none = none ∧ sopStepOrKeep c d s none = s) ∧
    calls.foldl (sopStepOrKeep c d) s = (calls.filterMap id).foldl (sopStepNum c d) s := by
  refine ⟨⟨rfl, rfl⟩, ?_⟩
  induction calls generalizing s with
  | nil => rfl
  | cons o t ih =>
    cases o with
    | none => simpa [sopStepOrKeep, sopStepChecked] using ih s
    | some r => simpa [sopStepOrKeep, sopStepChecked] using ih (sopStepNum c d s r)

/-- **`scheduler.continual()` reads the scheduler's own flag.** `continual` is a wrapper object bound to a scheduler
and calling its `iscontinual()`; over every sequence of constructions, steps, copies (`copy` / `deepcopy` / `pickle`,
re-bound by `__setstate__`) and `load_state_dict` calls, the wrapper stored in scheduler `i` stays bound to `i`, hence
`scheduler_i.continual() = scheduler_i._continual` for every scheduler at every time (the pre-fix behaviour, D39,
violates this: `continual_wrapper_old_reads_foreign_flag`). -/
theorem continual_wrapper_reads_own_flag (ops : List HeapOp) (h0 : Heap) (hb : ∀ i, h0.bound i = i) (i : Nat) :
    (ops.foldl Heap.apply h0).bound i = i ∧
    (ops.foldl Heap.apply h0).continual i = ((ops.foldl Heap.apply h0).st i).cont := by
  have key : ∀ (ops : List HeapOp) (h : Heap), (∀ i, h.bound i = i) → ∀ i, (ops.foldl Heap.apply h).bound i = i := by
    intro ops
    induction ops with
    | nil => intro h hb i; exact hb i
    | cons op t ih =>
      intro h hb i
      apply ih
      intro j
      cases op with
      | new k => simp only [Heap.apply, setAt]; split <;> simp_all
      | step k c o => exact hb j
      | copy dst src => simp only [Heap.apply, setAt]; split <;> simp_all
      | load dst src => simp only [Heap.apply, setAt]; split <;> simp_all
  have := key ops h0 hb i
  exact ⟨this, by simp [Heap.continual, Heap.iscontinual, this]⟩

/-- With the default steppers (`ICP()`: 200 steps, `MPC(…)`: 10 − 1; the constants are tied to the code by the
`defaults` stream, read-back in `defaults_constants`) a default ICP performs at most 200 controller steps / 201 `svdtf`
calls and a default MPC at most 9 / 10 `lqr` calls, whatever the losses and the stepper state on entry. -/
theorem default_drivers_bounded (s : St) (obs : Nat → Obs) :
    (icpForward (icpStepper (none : Option (RtbArgs ℝ))).1 s obs).1 ≤ 200 ∧
    (icpForward (icpStepper (none : Option (RtbArgs ℝ))).1 s obs).2.1 ≤ 201 ∧
    (mpcForward (mpcStepper (none : Option (RtbArgs ℝ))).1 s obs).1 ≤ 9 ∧
    (mpcForward (mpcStepper (none : Option (RtbArgs ℝ))).1 s obs).2.1 ≤ 10 := by
  have hi : (icpStepper (none : Option (RtbArgs ℝ))).1 = ⟨200, 5⟩ := rfl
  have hm : (mpcStepper (none : Option (RtbArgs ℝ))).1 = ⟨9, 5⟩ := (defaults_constants 0 0 0 0).2.2.2.2.2
  have b1 := icp_bounded ⟨200, 5⟩ s obs
  have b2 := icp_bounded ⟨9, 5⟩ s obs
  refine ⟨?_, ?_, ?_, ?_⟩
  · rw [hi]; have := b1.2.1; simp only at this; omega
  · rw [hi, b1.2.2.1]; have := b1.2.1; simp only at this; omega
  · rw [hm]; have := b2.2.1; simp only [mpcForward, icpForward] at this ⊢; omega
  · rw [hm]
    have h := b2.2.1
    have hc := b2.2.2.1
    simp only [mpcForward, icpForward] at h hc ⊢
    omega

/-! ## pass 7: the property-words characterisation for tensors of every (constant) shape -/

/-- **Run-level bridge between the two numeric models.** For finite losses that are tensors of one shape `sh` (any
shape) the shape-aware IEEE model never raises and its controller state after every number of steps is the state of
the flat model on the flattened data; `last` is the last loss (the 0-dim `inf` before the first step). -/
theorem rtbRunX_finite_eq_rtbRunNum (c : Cfg) (d tol : ℝ) (sh : Batch.Shape) (loss : Nat → List ℝ)
    (hlen : ∀ i, (loss i).length = Batch.numel sh) (n : Nat) :
    rtbRunX c (XF.num d) (XF.num tol) RtbStX.init (fun i => ⟨sh, (loss i).map XF.num⟩) n
      = some ⟨(rtbRunNum c d tol RtbSt.init loss n).st, lastOf (fun i => ⟨sh, (loss i).map XF.num⟩) n⟩ := by
  induction n with
  | zero => rfl
  | succ n ih =>
    simp only [rtbRunX, ih, Option.bind_some, rtbStepX]
    have hobs : rtbObsX (XF.num d) (XF.num tol) (lastOf (fun i => (⟨sh, (loss i).map XF.num⟩ : TX ℝ)) n)
        ⟨sh, (loss n).map XF.num⟩ = some (rtbObs d tol (rtbRunNum c d tol RtbSt.init loss n).last (loss n)) := by
      cases n with
      | zero =>
        exact (ext_step_agrees_on_finite c d tol St.init sh (loss 0) (loss 0) (hlen 0) (hlen 0)).2.1
      | succ m =>
        rw [rtbRunNum_last]
        exact (ext_step_agrees_on_finite c d tol St.init sh (loss m) (loss (m+1)) (hlen m) (hlen (m+1))).1
    simp only [hobs, Option.map_some]
    rfl

/-- **ReduceToBason on real-valued tensors of any shape, causes in the property's own words.** For every shape `sh`,
every history of finite real tensors of that shape (any signs, zeros), every `steps`, `patience`, `decreasing`, `tol`
and every length `n`: the step never raises, and `continual()` after `n` steps is true iff at no step `i < n` the
budget was reached, or at least `patience` consecutive steps up to `i` each failed to decrease (`failsAtR`, element by
element in row-major order), or all elements were below `tol` — evaluated through the IEEE formula of the code
(`rtbRunX`: `(last - loss)/loss < d` with `inf` after reset and `x/0 = ±inf`), not through a hard-wired case split. -/
theorem tensor_continual_iff_real (c : Cfg) (d tol : ℝ) (sh : Batch.Shape) (loss : Nat → List ℝ)
    (hlen : ∀ i, (loss i).length = Batch.numel sh) (n : Nat) :
    ∃ s, rtbRunX c (XF.num d) (XF.num tol) RtbStX.init (fun i => ⟨sh, (loss i).map XF.num⟩) n = some s ∧
      (s.st.cont = true ↔
        ∀ i, i < n → ¬ (budgetCause c i ∨
          (∃ m : Nat, c.patience ≤ (m : Int) ∧ m ≤ i + 1 ∧ ∀ j, i + 1 - m ≤ j → j ≤ i → failsAtR d loss j) ∨
          (∀ x ∈ loss i, x < tol))) :=
  ⟨_, rtbRunX_finite_eq_rtbRunNum c d tol sh loss hlen n,
   rtbNum_continual_iff_real c d tol loss (Batch.numel sh) hlen n⟩

/-- **StopOnPlateau over histories with special values** (NaN / ±inf / -0.0 readings, any thresholds): the scheduler
after `n` steps of `sopStepX` is the abstract run on the observations `sopObsX` computes, hence `continual()` is true
iff no documented cause occurred — where a NaN reading never counts as a non-decrease (`sop_ext_agrees_and_nan`). -/
theorem sopX_continual_iff (c : Cfg) (d : XF ℝ) (last loss : Nat → XF ℝ) (rc : Nat → Option Nat) (n : Nat) :
    (runG (fun s (i : Nat) => sopStepX c d s (last i) (loss i) (rc i)) St.init (fun i => i) n)
      = run (sopStep c) St.init (fun i => sopObsX d (last i) (loss i) (rc i)) n ∧
    ((runG (fun s (i : Nat) => sopStepX c d s (last i) (loss i) (rc i)) St.init (fun i => i) n).cont = true ↔
      ∀ i, i < n → ¬ sopCause c (fun i => sopObsX d (last i) (loss i) (rc i)) i) := by
  have h : runG (fun s (i : Nat) => sopStepX c d s (last i) (loss i) (rc i)) St.init (fun i => i) n
      = run (sopStep c) St.init (fun i => sopObsX d (last i) (loss i) (rc i)) n := by
    induction n with
    | zero => rfl
    | succ n ih => simp only [runG, run]; rw [ih]; rfl
  exact ⟨h, by rw [h]; exact sop_continual_iff c _ n⟩

/-! ## pass 10: closed forms for the number of driver iterations; NaN histories -/

/-- **Closed form, losses that always decrease.** If every step decreases the loss by the configured amount and no
immediate cause (rejection / below tol) ever occurs, and `patience ≥ 1`, every driver loop entered from the constructor
state performs exactly `max 1 max_steps` controller steps (`optimize`, and `ICP.forward` / `MPC.forward` from any
stepper state since they reset). -/
theorem iterations_when_always_decreasing (c : Cfg) (hp : 1 ≤ c.patience) (s : St) (obs : Nat → Obs)
    (hdec : ∀ i, (obs i).nodec = false) (hrej : ∀ i, (obs i).rej = false) (hbel : ∀ i, (obs i).below = false) :
    ((optimize c St.init obs).1 : Int) = max 1 c.maxSteps ∧
    ((icpForward c s obs).1 : Int) = max 1 c.maxSteps ∧
    ((mpcForward c s obs).1 : Int) = max 1 c.maxSteps := by
  have hno : ∀ p : Int, 1 ≤ p → ∀ i, ¬ patienceCause p obs i := by
    intro p hp1 i h
    rw [patienceCause_iff, trail_zero_of_last obs i (hdec i)] at h
    omega
  have key : ∀ m : Nat, 1 ≤ m →
      (budgetCause c (m - 1) ∨ patienceCause c.patience obs (m - 1) ∨ False) →
      (∀ i, i + 1 < m → ¬ (budgetCause c i ∨ patienceCause c.patience obs i ∨ False)) →
      (m : Int) = max 1 c.maxSteps := by
    intro m hm hc hbefore
    have hb : budgetCause c (m - 1) := by
      rcases hc with h | h | h
      · exact h
      · exact absurd h (hno c.patience hp (m - 1))
      · exact absurd h id
    unfold budgetCause at hb
    by_cases hm1 : m = 1
    · subst hm1; simp at hb; omega
    · have := hbefore (m - 2) (by omega)
      have hnb : ¬ budgetCause c (m - 2) := fun h => this (Or.inl h)
      unfold budgetCause at hnb
      have e1 : ((m - 1 + 1 : Nat) : Int) = m := by omega
      have e2 : ((m - 2 + 1 : Nat) : Int) = m - 1 := by omega
      rw [e1] at hb
      rw [e2] at hnb
      omega
  refine ⟨?_, ?_, ?_⟩
  · have h := optimize_count_first_cause c obs
    apply key _ h.1
    · rcases h.2.1 with a | a | a
      · exact Or.inl a
      · exact Or.inr (Or.inl a)
      · simp [hrej] at a
    · intro i hi hc
      apply h.2.2 i hi
      rcases hc with a | a | a
      · exact Or.inl a
      · exact Or.inr (Or.inl a)
      · exact absurd a id
  · have h := (icp_mpc_count_first_cause c 0 s obs).1
    apply key _ h.1
    · rcases h.2.1 with a | a | a
      · exact Or.inl a
      · exact Or.inr (Or.inl a)
      · simp [hbel] at a
    · intro i hi hc
      apply h.2.2 i hi
      rcases hc with a | a | a
      · exact Or.inl a
      · exact Or.inr (Or.inl a)
      · exact absurd a id
  · have h := (icp_mpc_count_first_cause c 0 s obs).2
    simp only [mpcInitN] at h
    apply key _ h.1
    · rcases h.2.1 with a | a | a
      · exact Or.inl a
      · exact Or.inr (Or.inl a)
      · simp [hbel] at a
    · intro i hi hc
      apply h.2.2 i hi
      rcases hc with a | a | a
      · exact Or.inl a
      · exact Or.inr (Or.inl a)
      · exact absurd a id

/-- **Closed form, losses that never decrease.** If every step fails to decrease the loss by the configured amount and
no immediate cause (rejection / below tol) occurs, every driver loop entered from the constructor state performs
exactly `max 1 (min max_steps patience)` controller steps. -/
theorem iterations_when_never_decreasing (c : Cfg) (s : St) (obs : Nat → Obs)
    (hnd : ∀ i, (obs i).nodec = true) (hrej : ∀ i, (obs i).rej = false) (hbel : ∀ i, (obs i).below = false) :
    ((optimize c St.init obs).1 : Int) = max 1 (min c.maxSteps c.patience) ∧
    ((icpForward c s obs).1 : Int) = max 1 (min c.maxSteps c.patience) ∧
    ((mpcForward c s obs).1 : Int) = max 1 (min c.maxSteps c.patience) := by
  have hpc : ∀ i, patienceCause c.patience obs i ↔ c.patience ≤ ((i + 1 : Nat) : Int) := by
    intro i
    rw [patienceCause_iff, trail_all_nodec obs hnd]
  have key : ∀ m : Nat, 1 ≤ m →
      (budgetCause c (m - 1) ∨ patienceCause c.patience obs (m - 1) ∨ False) →
      (∀ i, i + 1 < m → ¬ (budgetCause c i ∨ patienceCause c.patience obs i ∨ False)) →
      (m : Int) = max 1 (min c.maxSteps c.patience) := by
    intro m hm hc hbefore
    have hb : c.maxSteps ≤ (m : Int) ∨ c.patience ≤ (m : Int) := by
      have e1 : ((m - 1 + 1 : Nat) : Int) = m := by omega
      rcases hc with h | h | h
      · unfold budgetCause at h; rw [e1] at h; exact Or.inl h
      · rw [hpc, e1] at h; exact Or.inr h
      · exact absurd h id
    by_cases hm1 : m = 1
    · subst hm1; omega
    · have := hbefore (m - 2) (by omega)
      have e2 : ((m - 2 + 1 : Nat) : Int) = m - 1 := by omega
      have hn1 : ¬ c.maxSteps ≤ (m : Int) - 1 := by
        intro h; apply this; left; unfold budgetCause; rw [e2]; exact h
      have hn2 : ¬ c.patience ≤ (m : Int) - 1 := by
        intro h; apply this; right; left; rw [hpc, e2]; exact h
      omega
  refine ⟨?_, ?_, ?_⟩
  · have h := optimize_count_first_cause c obs
    apply key _ h.1
    · rcases h.2.1 with a | a | a
      · exact Or.inl a
      · exact Or.inr (Or.inl a)
      · simp [hrej] at a
    · intro i hi hc
      apply h.2.2 i hi
      rcases hc with a | a | a
      · exact Or.inl a
      · exact Or.inr (Or.inl a)
      · exact absurd a id
  · have h := (icp_mpc_count_first_cause c 0 s obs).1
    apply key _ h.1
    · rcases h.2.1 with a | a | a
      · exact Or.inl a
      · exact Or.inr (Or.inl a)
      · simp [hbel] at a
    · intro i hi hc
      apply h.2.2 i hi
      rcases hc with a | a | a
      · exact Or.inl a
      · exact Or.inr (Or.inl a)
      · exact absurd a id
  · have h := (icp_mpc_count_first_cause c 0 s obs).2
    simp only [mpcInitN] at h
    apply key _ h.1
    · rcases h.2.1 with a | a | a
      · exact Or.inl a
      · exact Or.inr (Or.inl a)
      · simp [hbel] at a
    · intro i hi hc
      apply h.2.2 i hi
      rcases hc with a | a | a
      · exact Or.inl a
      · exact Or.inr (Or.inl a)
      · exact absurd a id

/-- **Closed form, `k` decreasing steps followed by a plateau** (the typical run of ICP / MPC / an optimizer that
converges): if exactly the first `k` steps decrease the loss by the configured amount and no later one does, no
immediate cause occurs and `patience ≥ 1`, every driver loop entered from the constructor state performs exactly
`max 1 (min max_steps (k + patience))` controller steps.  (`k = 0` is `iterations_when_never_decreasing`; letting
`k ≥ max_steps` gives `iterations_when_always_decreasing`.) -/
theorem iterations_when_plateau_after (c : Cfg) (hp : 1 ≤ c.patience) (k : Nat) (s : St) (obs : Nat → Obs)
    (hnd : ∀ i, (obs i).nodec = decide (k ≤ i)) (hrej : ∀ i, (obs i).rej = false) (hbel : ∀ i, (obs i).below = false) :
    ((optimize c St.init obs).1 : Int) = max 1 (min c.maxSteps (k + c.patience)) ∧
    ((icpForward c s obs).1 : Int) = max 1 (min c.maxSteps (k + c.patience)) ∧
    ((mpcForward c s obs).1 : Int) = max 1 (min c.maxSteps (k + c.patience)) := by
  have hpc : ∀ i, patienceCause c.patience obs i ↔ (k : Int) + c.patience ≤ ((i + 1 : Nat) : Int) := by
    intro i
    rw [patienceCause_iff, trail_plateau_after obs k hnd]
    omega
  have key : ∀ m : Nat, 1 ≤ m →
      (budgetCause c (m - 1) ∨ patienceCause c.patience obs (m - 1) ∨ False) →
      (∀ i, i + 1 < m → ¬ (budgetCause c i ∨ patienceCause c.patience obs i ∨ False)) →
      (m : Int) = max 1 (min c.maxSteps (k + c.patience)) := by
    intro m hm hc hbefore
    have hb : c.maxSteps ≤ (m : Int) ∨ (k : Int) + c.patience ≤ (m : Int) := by
      have e1 : ((m - 1 + 1 : Nat) : Int) = m := by omega
      rcases hc with h | h | h
      · unfold budgetCause at h; rw [e1] at h; exact Or.inl h
      · rw [hpc, e1] at h; exact Or.inr h
      · exact absurd h id
    by_cases hm1 : m = 1
    · subst hm1; omega
    · have := hbefore (m - 2) (by omega)
      have e2 : ((m - 2 + 1 : Nat) : Int) = m - 1 := by omega
      have hn1 : ¬ c.maxSteps ≤ (m : Int) - 1 := by
        intro h; apply this; left; unfold budgetCause; rw [e2]; exact h
      have hn2 : ¬ (k : Int) + c.patience ≤ (m : Int) - 1 := by
        intro h; apply this; right; left; rw [hpc, e2]; exact h
      omega
  refine ⟨?_, ?_, ?_⟩
  · have h := optimize_count_first_cause c obs
    apply key _ h.1
    · rcases h.2.1 with a | a | a
      · exact Or.inl a
      · exact Or.inr (Or.inl a)
      · simp [hrej] at a
    · intro i hi hc
      apply h.2.2 i hi
      rcases hc with a | a | a
      · exact Or.inl a
      · exact Or.inr (Or.inl a)
      · exact absurd a id
  · have h := (icp_mpc_count_first_cause c 0 s obs).1
    apply key _ h.1
    · rcases h.2.1 with a | a | a
      · exact Or.inl a
      · exact Or.inr (Or.inl a)
      · simp [hbel] at a
    · intro i hi hc
      apply h.2.2 i hi
      rcases hc with a | a | a
      · exact Or.inl a
      · exact Or.inr (Or.inl a)
      · exact absurd a id
  · have h := (icp_mpc_count_first_cause c 0 s obs).2
    simp only [mpcInitN] at h
    apply key _ h.1
    · rcases h.2.1 with a | a | a
      · exact Or.inl a
      · exact Or.inr (Or.inl a)
      · simp [hbel] at a
    · intro i hi hc
      apply h.2.2 i hi
      rcases hc with a | a | a
      · exact Or.inl a
      · exact Or.inr (Or.inl a)
      · exact absurd a id

/-- **The closed form on real losses.** `ICP.forward` / `MPC.forward` on batches of positive real losses (constant batch
size) in which at every step some element still decreases by at least the fraction `decreasing` of its new value and
some element is still at or above `tol`: the loop runs for exactly `max 1 max_steps` controller steps — the budget is
the only thing that stops a run that keeps improving (`patience ≥ 1`). -/
theorem forwardNum_keeps_improving (c : Cfg) (hp : 1 ≤ c.patience) (d tol : ℝ) (s : RtbSt ℝ) (loss : Nat → List ℝ)
    (B : Nat) (hB : ∀ i, (loss i).length = B) (hne : ∀ i, loss i ≠ []) (hpos : ∀ i, ∀ x ∈ loss i, 0 < x)
    (himp : ∀ i, ∃ p ∈ List.zip (loss i) (loss (i+1)), d * p.2 ≤ p.1 - p.2)
    (htol : ∀ i, ∃ x ∈ loss i, tol ≤ x) :
    ((forwardNum c d tol s loss).1 : Int) = max 1 c.maxSteps := by
  rw [(forwardNum_spec c d tol s loss B hB).1]
  have hobs : ∀ i, obsOfLosses d tol none loss i = numObs d tol none loss i := by
    intro i; cases i <;> rfl
  have hnd : ∀ i, (obsOfLosses d tol none loss i).nodec = false := by
    intro i
    rw [hobs]
    cases hh : (numObs d tol none loss i).nodec with
    | false => rfl
    | true =>
      have hf := (numObs_nodec_iff d tol loss i).mp hh
      cases i with
      | zero =>
        obtain ⟨x, hx⟩ : ∃ x, x ∈ loss 0 := List.exists_mem_of_ne_nil _ (hne 0)
        have := hf x hx
        have := hpos 0 x hx
        linarith
      | succ j =>
        obtain ⟨p, hpm, hpd⟩ := himp j
        have hfe := hf p hpm
        have hx : 0 < p.2 := hpos (j+1) p.2 (List.of_mem_zip hpm).2
        rcases hfe with ⟨_, h⟩ | ⟨h, _⟩ | ⟨h, _⟩ <;> linarith
  have hbel : ∀ i, (obsOfLosses d tol none loss i).below = false := by
    intro i
    rw [hobs]
    cases hh : (numObs d tol none loss i).below with
    | false => rfl
    | true =>
      have hb : belowTol tol (loss i) = true := by simpa [numObs, rtbObs] using hh
      obtain ⟨x, hx, hxt⟩ := htol i
      have := (belowTol_iff tol (loss i)).mp hb x hx
      linarith
  have hrej : ∀ i, (obsOfLosses d tol none loss i).rej = false := by intro i; cases i <;> rfl
  exact (iterations_when_always_decreasing c hp s.st _ hnd hrej hbel).2.1

/-- **Closed form with an immediate cause.** `k` decreasing steps, then a plateau, and the immediate cause of the
controller (rejection for StopOnPlateau, all-below-tol for ReduceToBason) first present at step `h` (0-based) and from
then on; `patience ≥ 1`: every driver loop entered from the constructor state performs exactly
`max 1 (min max_steps (min (k + patience) (h + 1)))` controller steps — the loop ends at whichever of the three documented
causes comes first. (`iterations_when_plateau_after` is the case "never", i.e. `h ≥ max_steps`.) -/
theorem iterations_with_immediate_cause (c : Cfg) (hp : 1 ≤ c.patience) (k h : Nat) (s : St) (obs : Nat → Obs)
    (hnd : ∀ i, (obs i).nodec = decide (k ≤ i)) (hrej : ∀ i, (obs i).rej = decide (h ≤ i))
    (hbel : ∀ i, (obs i).below = decide (h ≤ i)) :
    ((optimize c St.init obs).1 : Int) = max 1 (min c.maxSteps (min (k + c.patience) (h + 1))) ∧
    ((icpForward c s obs).1 : Int) = max 1 (min c.maxSteps (min (k + c.patience) (h + 1))) ∧
    ((mpcForward c s obs).1 : Int) = max 1 (min c.maxSteps (min (k + c.patience) (h + 1))) := by
  have hpc : ∀ i, patienceCause c.patience obs i ↔ (k : Int) + c.patience ≤ ((i + 1 : Nat) : Int) := by
    intro i
    rw [patienceCause_iff, trail_plateau_after obs k hnd]
    omega
  have key : ∀ m : Nat, 1 ≤ m →
      (budgetCause c (m - 1) ∨ patienceCause c.patience obs (m - 1) ∨ h ≤ m - 1) →
      (∀ i, i + 1 < m → ¬ (budgetCause c i ∨ patienceCause c.patience obs i ∨ h ≤ i)) →
      (m : Int) = max 1 (min c.maxSteps (min (k + c.patience) (h + 1))) := by
    intro m hm hc hbefore
    have hb : c.maxSteps ≤ (m : Int) ∨ (k : Int) + c.patience ≤ (m : Int) ∨ (h : Int) + 1 ≤ (m : Int) := by
      have e1 : ((m - 1 + 1 : Nat) : Int) = m := by omega
      rcases hc with a | a | a
      · unfold budgetCause at a; rw [e1] at a; exact Or.inl a
      · rw [hpc, e1] at a; exact Or.inr (Or.inl a)
      · right; right; omega
    by_cases hm1 : m = 1
    · subst hm1; omega
    · have := hbefore (m - 2) (by omega)
      have e2 : ((m - 2 + 1 : Nat) : Int) = m - 1 := by omega
      have hn1 : ¬ c.maxSteps ≤ (m : Int) - 1 := by
        intro a; apply this; left; unfold budgetCause; rw [e2]; exact a
      have hn2 : ¬ (k : Int) + c.patience ≤ (m : Int) - 1 := by
        intro a; apply this; right; left; rw [hpc, e2]; exact a
      have hn3 : ¬ h ≤ m - 2 := fun a => this (Or.inr (Or.inr a))
      omega
  refine ⟨?_, ?_, ?_⟩
  · have hh := optimize_count_first_cause c obs
    apply key _ hh.1
    · rcases hh.2.1 with a | a | a
      · exact Or.inl a
      · exact Or.inr (Or.inl a)
      · right; right; simpa [hrej] using a
    · intro i hi hc
      apply hh.2.2 i hi
      rcases hc with a | a | a
      · exact Or.inl a
      · exact Or.inr (Or.inl a)
      · right; right; simpa [hrej] using a
  · have hh := (icp_mpc_count_first_cause c 0 s obs).1
    apply key _ hh.1
    · rcases hh.2.1 with a | a | a
      · exact Or.inl a
      · exact Or.inr (Or.inl a)
      · right; right; simpa [hbel] using a
    · intro i hi hc
      apply hh.2.2 i hi
      rcases hc with a | a | a
      · exact Or.inl a
      · exact Or.inr (Or.inl a)
      · right; right; simpa [hbel] using a
  · have hh := (icp_mpc_count_first_cause c 0 s obs).2
    simp only [mpcInitN] at hh
    apply key _ hh.1
    · rcases hh.2.1 with a | a | a
      · exact Or.inl a
      · exact Or.inr (Or.inl a)
      · right; right; simpa [hbel] using a
    · intro i hi hc
      apply hh.2.2 i hi
      rcases hc with a | a | a
      · exact Or.inl a
      · exact Or.inr (Or.inl a)
      · right; right; simpa [hbel] using a

/-- **Histories of NaN losses stop on the budget only.** For tensors of one shape (any shape) each containing a NaN
(any other values, any thresholds): no step raises, and `continual()` after `n` steps is true iff `patience ≥ 1` and the
budget has not been reached — the patience count is reset by every step and "below tol" never holds. -/
theorem nan_history_stops_on_budget_only (c : Cfg) (d tol : XF ℝ) (sh : Batch.Shape) (xs : Nat → List (XF ℝ))
    (hlen : ∀ i, (xs i).length = Batch.numel sh) (hnan : ∀ i, XF.nan ∈ xs i) (n : Nat) :
    ∃ s, rtbRunX c d tol RtbStX.init (fun i => ⟨sh, xs i⟩) n = some s ∧
      (s.st.cont = true ↔ ∀ i, i < n → ¬ (budgetCause c i ∨ c.patience ≤ 0)) := by
  obtain ⟨s, hs, _⟩ := constant_shape_never_raises c d tol (fun i => (⟨sh, xs i⟩ : TX ℝ)) sh (fun _ => rfl) n
  obtain ⟨obs, hobs, _, _, hcont⟩ := rtbRunX_spec c d tol (fun i => (⟨sh, xs i⟩ : TX ℝ)) n s hs
  refine ⟨s, hs, ?_⟩
  have hob : ∀ i, i < n → obs i = ⟨false, false, false⟩ := by
    intro i hi
    have h := hobs i hi
    cases i with
    | zero =>
      have := (nan_loss_resets_patience c d tol XF.pinf St.init sh (xs 0) (xs 0) (hlen 0) (hlen 0) (hnan 0)).1
      simp only [lastOf] at h
      rw [this] at h
      exact (Option.some.inj h).symm
    | succ j =>
      have := (nan_loss_resets_patience c d tol XF.pinf St.init sh (xs j) (xs (j+1)) (hlen j) (hlen (j+1)) (hnan (j+1))).2.1
      simp only [lastOf] at h
      rw [this] at h
      exact (Option.some.inj h).symm
  rw [hcont]
  constructor
  · intro h i hi hc
    apply h i hi
    rcases hc with a | a
    · exact Or.inl a
    · exact Or.inr (Or.inl ((patienceCause_iff c.patience obs i).mpr (by
        rw [trail_zero_of_last obs i (by rw [hob i hi])]; simpa using a)))
  · intro h i hi hc
    apply h i hi
    rcases hc with a | a | a
    · exact Or.inl a
    · right
      have := (patienceCause_iff c.patience obs i).mp a
      rw [trail_zero_of_last obs i (by rw [hob i hi])] at this
      simpa using this
    · rw [hob i hi] at a; exact absurd a (by decide)

/-! ## what the driver executes is the model the theorems are about -/

/-- the executable trace on a list is the sequence of `run` states -/
theorem trace_getElem (stepf : St → Obs → St) (s : St) (os : List Obs) (i : Nat) (hi : i < os.length) :
    (trace stepf s os)[i]? = some (run stepf s (fun j => os.getD j default) (i+1)) := by
  induction os generalizing s i with
  | nil => simp at hi
  | cons o os ih =>
    cases i with
    | zero => simp [trace, run]
    | succ i =>
      simp only [trace, List.getElem?_cons_succ]
      rw [ih (stepf s o) i (by simpa using hi)]
      have := run_shift stepf s (fun j => (o :: os).getD j default) (i+1)
      simp only [List.getD_cons_zero, List.getD_cons_succ] at this
      rw [this]

/-! ## non-vacuity -/

-- a history on which each cause is the first one (steps=6, patience=2)
example : (List.range 7).map (fun n => (run (sopStep ⟨6, 2⟩) St.init
    (fun i => if i = 2 ∨ i = 3 then ⟨true, false, false⟩ else ⟨false, false, false⟩) n).cont)
    = [true, true, true, true, false, false, false] := by decide
example : (List.range 4).map (fun n => (run (sopStep ⟨6, 2⟩) St.init
    (fun i => if i = 1 then ⟨false, false, true⟩ else ⟨false, false, false⟩) n).cont)
    = [true, true, false, false] := by decide
example : (List.range 8).map (fun n => (run (rtbStep ⟨6, 2⟩) St.init
    (fun _ => ⟨false, false, false⟩) n).cont) = [true, true, true, true, true, true, false, false] := by decide
example : (List.range 4).map (fun n => (run (rtbStep ⟨6, 2⟩) St.init
    (fun i => if i = 2 then ⟨false, true, false⟩ else ⟨false, false, false⟩) n).cont)
    = [true, true, true, false] := by decide
-- driver loops
example : (optimize ⟨6, 2⟩ St.init (fun _ => ⟨false, false, false⟩)).1 = 6 := by decide
example : (icpForward ⟨200, 5⟩ ⟨17, 0, false⟩ (fun i => ⟨decide (2 ≤ i), false, false⟩)).1 = 7 := by decide
-- a second `forward` on a used, stopped stepper behaves like the first
example : (icpForward ⟨200, 5⟩ ⟨17, 3, false⟩ (fun _ => ⟨true, false, false⟩)).1 = 5 ∧
    (icpForward ⟨200, 5⟩ St.init (fun _ => ⟨true, false, false⟩)).1 = 5 := by decide
example : (mpcForward (mpcInit ⟨10, 5⟩) St.init (fun _ => ⟨false, false, false⟩)).2.1 = 10 := by decide
-- hypotheses of `rtbNum_continual_iff_pos` are satisfiable by a non-trivial batched sequence
example : ∃ loss : Nat → List ℝ, (∀ i, loss i ≠ []) ∧ (∀ i, ∀ x ∈ loss i, 0 < x) ∧ loss 0 ≠ loss 1 :=
  ⟨fun i => [1 / ((i : ℝ) + 1), 2], fun i => by simp, fun i x hx => by
    simp only [List.mem_cons, List.mem_nil_iff, or_false] at hx
    rcases hx with rfl | rfl
    · positivity
    · norm_num, by norm_num⟩

-- pass 3: hypotheses are satisfiable by non-trivial values
example : ([XF.num 1, XF.nan, XF.pinf, XF.nzero, XF.num 2, XF.num 3] : List (XF ℝ)).length = Batch.numel [2, 3] ∧
    XF.nan ∈ ([XF.num 1, XF.nan, XF.pinf, XF.nzero, XF.num 2, XF.num 3] : List (XF ℝ)) := by
  constructor
  · rfl
  · simp
example : ∃ s, rtbRunX (α := ℝ) ⟨9, 2⟩ (XF.num (1/2)) (XF.num 1) RtbStX.init (fun i => ⟨[2], [XF.num (4 - i), XF.nan]⟩) 5 = some s :=
  (constant_shape_never_raises ⟨9, 2⟩ _ _ _ [2] (fun _ => rfl) 5).imp fun _ h => h.1
example : Batch.broadcastShapes [3, 1] [1, 3] = some [3, 3] ∧ Batch.broadcastShapes [3] [2] = none := by decide

-- pass 7: a non-trivial instance of `tensor_continual_iff_real` (shape [2,3], mixed signs and a zero)
example : ∀ i : Nat, ([1 / ((i : ℝ) + 1), -2, 0, 3, 4, 5] : List ℝ).length = Batch.numel [2, 3] := fun _ => rfl

-- pass 10: the hypotheses of the closed forms / the NaN theorem are satisfiable; a concrete instance of each closed form
example : (optimize ⟨7, 3⟩ St.init (fun _ => ⟨false, false, false⟩)).1 = 7 ∧
    (icpForward ⟨7, 3⟩ ⟨4, 2, false⟩ (fun _ => ⟨true, false, false⟩)).1 = 3 ∧
    (mpcForward ⟨2, 9⟩ St.init (fun _ => ⟨true, false, false⟩)).1 = 2 := by decide
example : (icpForward ⟨200, 5⟩ St.init (fun i => ⟨decide (3 ≤ i), false, false⟩)).1 = 8 ∧
    (optimize ⟨6, 5⟩ St.init (fun i => ⟨decide (3 ≤ i), false, false⟩)).1 = 6 := by decide
-- pass 11: below tol from step 4 on ends a default-sized ICP run after 5 steps; a rejection at step 2 ends optimize after 3
example : (icpForward ⟨200, 5⟩ St.init (fun i => ⟨decide (3 ≤ i), decide (4 ≤ i), decide (4 ≤ i)⟩)).1 = 5 ∧
    (optimize ⟨30, 5⟩ St.init (fun i => ⟨decide (9 ≤ i), decide (2 ≤ i), decide (2 ≤ i)⟩)).1 = 3 := by decide
-- halving losses, d = 1/2, tol = 0: the hypotheses of `forwardNum_keeps_improving` hold
example : ∀ i : Nat, ∃ p ∈ List.zip [(1 / 2 : ℝ) ^ i, 3] [(1 / 2 : ℝ) ^ (i + 1), 3], (1 / 2 : ℝ) * p.2 ≤ p.1 - p.2 := by
  intro i
  refine ⟨((1 / 2 : ℝ) ^ i, (1 / 2 : ℝ) ^ (i + 1)), by simp, ?_⟩
  have : (0 : ℝ) < (1 / 2 : ℝ) ^ i := by positivity
  simp only [pow_succ]
  nlinarith
example : ∀ i : Nat, XF.nan ∈ ([XF.num (i : ℝ), XF.nan, XF.pinf] : List (XF ℝ)) ∧
    ([XF.num (i : ℝ), XF.nan, XF.pinf] : List (XF ℝ)).length = Batch.numel [3] := fun _ => ⟨by simp, rfl⟩

end PP.Stop
