import Proofs.Lemmas.AutogradChain
set_option linter.unusedSimpArgs false
set_option linter.unusedVariables false
namespace PP.AD
open PP

/-- contract of the external autograd kernel that is needed for the algebra: the Jacobian it returns is square of the
algebra dimension -/
def DJShape (dJ : DJ ℝ) : Prop := ∀ g eps phi p, Shape g.adim g.adim (dJ g eps phi p)

theorem length_matrixB (g : Grp) (X go : DVec ℝ) : (matrixB g X go).length = g.gdim := by
  cases g
  · simp only [matrixB]
    rw [length_dadd _ _ (by rw [length_dadd _ _ (by simp [length_actB1])]; simp [length_actB1]),
      length_dadd _ _ (by simp [length_actB1]), length_actB1]
  all_goals
    simp only [matrixB]
    rw [length_dadd _ _ (by rw [length_dadd _ _ (by rw [length_dadd _ _ (by simp [length_act4B1])]; simp [length_act4B1]),
        length_dadd _ _ (by simp [length_act4B1])]; simp [length_act4B1]),
      length_dadd _ _ (by rw [length_dadd _ _ (by simp [length_act4B1])]; simp [length_act4B1]),
      length_dadd _ _ (by simp [length_act4B1]), length_act4B1]

theorem length_bwd1 (o : Op1) (g : Grp) (eps : ℝ) (x out go : DVec ℝ) (t u : Ty) (h : ty1 o g t = some u) :
    (bwd1 o g eps x out go).length = t.dim := by
  cases o <;> simp only [ty1] at h <;> split at h <;> simp at h <;> rename_i ht <;> subst ht
  · simp [bwd1, expB, Ty.dim, length_vecMul _ (Shape_JlMat g eps x) (adim_pos g)]
  · simp [bwd1, logB, Ty.dim, length_vecMul _ (Shape_JlInvMat g eps out) (adim_pos g), gdim_eq]
  · simp [bwd1, invB, Ty.dim, length_vecMul _ (Shape_AdjMat g out) (adim_pos g), gdim_eq]
  · simp [bwd1, Ty.dim, length_matrixB]

theorem length_jvp1 (o : Op1) (g : Grp) (eps : ℝ) (x out τ : DVec ℝ) (t u : Ty) (h : ty1 o g t = some u) :
    (jvp1 o g eps x out τ).length = u.tdim := by
  cases o <;> simp only [ty1] at h <;> split at h <;> simp at h <;> subst h
  · simp [jvp1, Ty.tdim, length_mulVec _ (Shape_JlMat g eps x)]
  · simp [jvp1, Ty.tdim, length_mulVec _ (Shape_JlInvMat g eps out)]
  · simp [jvp1, Ty.tdim, length_mulVec _ (Shape_AdjMat g out)]
  · simp [jvp1, Ty.tdim, length_matrixT]

theorem adj1 (o : Op1) (g : Grp) (eps : ℝ) (x out go τ : DVec ℝ) (t u : Ty) (h : ty1 o g t = some u)
    (hgo : go.length = u.dim) (hτ : τ.length = t.tdim) :
    DVec.dot (bwd1 o g eps x out go) τ = DVec.dot go (jvp1 o g eps x out τ) := by
  cases o <;> simp only [ty1] at h <;> split at h <;> simp at h <;> rename_i ht <;> subst ht <;> subst h
  · exact adj_Exp g eps x go τ hgo
  · exact adj_Log g eps out go τ hgo hτ
  · exact adj_Inv g out go τ hgo hτ
  · simp only [bwd1, jvp1]
    by_cases hg : g = .SO3
    · subst hg; exact adj_Matrix_SO3 x go τ hgo hτ
    · exact adj_Matrix_4 g hg x go τ (by cases g <;> first | exact absurd rfl hg | exact hgo) hτ

theorem length_bwd2 (dJ : DJ ℝ) (hdJ : DJShape dJ) (o : Op2) (g : Grp) (eps : ℝ) (x y out go : DVec ℝ) (t t' u : Ty)
    (h : ty2 o g t t' = some u) :
    (bwd2 dJ o g eps x y out go).1.length = t.dim ∧ (bwd2 dJ o g eps x y out go).2.length = t'.dim := by
  cases o <;> simp only [ty2] at h <;> split at h <;> simp at h <;> rename_i ht <;> obtain ⟨h1, h2⟩ := ht <;> subst h1 <;> subst h2
  · simp [bwd2, mulB, Ty.dim, length_vecMul _ (Shape_AdjMat g x) (adim_pos g), gdim_eq]
  · simp [bwd2, actB, Ty.dim, length_vecMul _ (Shape_ActJac g (v3 out)) (by norm_num),
      length_vecMul _ (Shape_toRows (Mat33 g x)) (by norm_num), gdim_eq]
  · simp [bwd2, act4B, Ty.dim, length_vecMul _ (Shape_Act4Jac g (v3 out) (nth out 3)) (by norm_num),
      length_vecMul _ (Shape_Mat44 g x) (by norm_num), gdim_eq]
  · simp [bwd2, adjB, Ty.dim, length_vecMul _ (Shape_adMat g out) (adim_pos g),
      length_vecMul _ (Shape_AdjMat g x) (adim_pos g), gdim_eq]
  · cases g <;>
      simp [bwd2, adjTB, Ty.dim, length_adjF, length_vecMul _ (Shape_adMat _ _) (adim_pos _),
        length_vecMul _ (Shape_AdjMat _ _) (adim_pos _), gdim_eq]
  · simp [bwd2, jinvpB, logB, Ty.dim, length_vecMul _ (Shape_JlInvMat g eps _) (adim_pos g), gdim_eq]

theorem length_jvp2 (dJ : DJ ℝ) (hdJ : DJShape dJ) (o : Op2) (g : Grp) (eps : ℝ) (x y out τx τy : DVec ℝ) (t t' u : Ty)
    (h : ty2 o g t t' = some u) (hx : τx.length = t.tdim) :
    (jvp2 dJ o g eps x y out τx τy).length = u.tdim := by
  cases o <;> simp only [ty2] at h <;> split at h <;> simp at h <;> rename_i ht <;> obtain ⟨h1, h2⟩ := ht <;>
    subst h1 <;> subst h2 <;> subst h <;> simp only [Ty.tdim] at hx ⊢ <;> simp only [jvp2]
  · rw [length_dadd _ _ (by rw [hx, length_mulVec _ (Shape_AdjMat g x)]), hx]
  · rw [length_dadd _ _ (by rw [length_mulVec _ (Shape_ActJac g _), length_mulVec _ (Shape_toRows _)]),
      length_mulVec _ (Shape_ActJac g _)]
  · rw [length_dadd _ _ (by rw [length_mulVec _ (Shape_Act4Jac g _ _), length_mulVec _ (Shape_Mat44 _ _)]),
      length_mulVec _ (Shape_Act4Jac g _ _)]
  · rw [length_dadd _ _ (by rw [length_dneg, length_mulVec _ (Shape_adMat g _), length_mulVec _ (Shape_AdjMat g _)]),
      length_dneg, length_mulVec _ (Shape_adMat g _)]
  · rw [length_dadd _ _ (by rw [length_mulVec _ (Shape_AdjMat g _), length_mulVec _ (Shape_AdjMat g _)]),
      length_mulVec _ (Shape_AdjMat g _)]
  · rw [length_dadd _ _ (by rw [length_mulVec _ (hdJ _ _ _ _), length_mulVec _ (Shape_JlInvMat g _ _)]),
      length_mulVec _ (hdJ _ _ _ _)]

theorem adj2 (dJ : DJ ℝ) (hdJ : DJShape dJ) (o : Op2) (g : Grp) (eps : ℝ) (x y out go τx τy : DVec ℝ) (t t' u : Ty)
    (h : ty2 o g t t' = some u) (hgo : go.length = u.dim) (hx : τx.length = t.tdim) (hy : τy.length = t'.tdim)
    (hyl : y.length = t'.dim) :
    DVec.dot (bwd2 dJ o g eps x y out go).1 τx + DVec.dot (bwd2 dJ o g eps x y out go).2 τy
      = DVec.dot go (jvp2 dJ o g eps x y out τx τy) := by
  cases o <;> simp only [ty2] at h <;> split at h <;> simp at h <;> rename_i ht <;> obtain ⟨h1, h2⟩ := ht <;>
    subst h1 <;> subst h2 <;> subst h <;> simp only [Ty.tdim, Ty.dim] at hx hy hgo hyl <;> simp only [bwd2, jvp2]
  · exact adj_Mul g x go τx τy hgo hx hy
  · exact adj_Act g x out go τx τy hgo hx
  · exact adj_Act4 g x out go τx τy hgo hx
  · exact adj_Adj g x out go τx τy hgo hx
  · by_cases hg : g = .SO3
    · subst hg; exact adj_AdjT_SO3 x y go τx τy hgo hx hy hyl
    · exact adj_AdjT_gen g hg x y go τx τy hgo hx
  · exact adj_Jinvp g eps _ (hdJ _ _ _ _) _ go τx τy hgo hx

/-- **Chain rule for all programs.**  For every well-typed expression tree (any depth, any sharing of leaves), every
cotangent `go` of the output and every choice of leaf tangents, the reverse sweep pairs with the leaf tangents to
exactly `⟨go, forward tangent of the program⟩`; the forward tangent composes the local Jacobians of the nodes. -/
theorem backprop_adjoint_aux (dJ : DJ ℝ) (hdJ : DJShape dJ) (eps : ℝ) (lt : List Ty) (env tan : List (DVec ℝ))
    (hE : EnvOK lt env tan) (p : Prog) :
    ∀ ty go, tyOf lt p = some ty → go.length = ty.dim →
      pairSum tan (backprop dJ eps env p go) = DVec.dot go (tangent dJ eps env tan p) ∧
      (eval eps env p).length = ty.dim ∧ (tangent dJ eps env tan p).length = ty.tdim := by
  induction p with
  | leaf i =>
    intro ty go hty hgo
    simp only [tyOf] at hty
    obtain ⟨h1, h2⟩ := hE i ty hty
    exact ⟨by simp [backprop, pairSum, tangent], by simpa [eval] using h1, by simpa [tangent] using h2⟩
  | un o g p ih =>
    intro ty go hty hgo
    simp only [tyOf] at hty
    cases hp : tyOf lt p with
    | none => simp [hp] at hty
    | some t =>
      simp only [hp, Option.bind_some] at hty
      have hb := length_bwd1 o g eps (eval eps env p) (fwd1 o g eps (eval eps env p)) go t ty hty
      obtain ⟨i1, i2, i3⟩ := ih t _ hp hb
      refine ⟨?_, ?_, ?_⟩
      · simp only [backprop, tangent]
        rw [i1]
        exact adj1 o g eps _ _ go _ t ty hty hgo i3
      · simp only [eval]; exact length_fwd1 o g eps _ t ty hty
      · simp only [tangent]; exact length_jvp1 o g eps _ _ _ t ty hty
  | bin o g p q ihp ihq =>
    intro ty go hty hgo
    simp only [tyOf] at hty
    cases hp : tyOf lt p with
    | none => simp [hp] at hty
    | some t =>
      cases hq : tyOf lt q with
      | none => simp [hp, hq] at hty
      | some t' =>
        simp only [hp, hq, Option.bind_some] at hty
        obtain ⟨b1, b2⟩ := length_bwd2 dJ hdJ o g eps (eval eps env p) (eval eps env q)
          (fwd2 o g eps (eval eps env p) (eval eps env q)) go t t' ty hty
        obtain ⟨i1, i2, i3⟩ := ihp t _ hp b1
        obtain ⟨j1, j2, j3⟩ := ihq t' _ hq b2
        refine ⟨?_, ?_, ?_⟩
        · simp only [backprop, tangent, pairSum_append]
          rw [i1, j1]
          exact adj2 dJ hdJ o g eps _ _ _ go _ _ t t' ty hty hgo i3 j3 j2
        · simp only [eval]; exact length_fwd2 o g eps _ _ t t' ty hty
        · simp only [tangent]; exact length_jvp2 dJ hdJ o g eps _ _ _ _ _ t t' ty hty i3
end PP.AD
