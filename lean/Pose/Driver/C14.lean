import Pose.Wire
/-! Driver ops for C14. -/
namespace PP.Driver
open PP Wire

def opsC14 : List (String × Handler) := []

end PP.Driver
