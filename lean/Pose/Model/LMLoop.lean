import Pose.Scalar
import Pose.Model.Basic
/-!
# Model of the accept/reject loop of `pypose/optim/optimizer.py` and of `pypose/optim/strategy.py`

What is modelled (same branch structure, same order of operations as the code):

* `LevenbergMarquardt.step`: the cached-loss initialisation
  `self.last = self.loss = self.loss if hasattr(self,'loss') else self.model.loss(..)`,
  `self.reject_count = 0`, and the `while self.last <= self.loss:` loop with its three exits
  (solver raised → `break`; trial accepted / rejections exhausted → `break`; loop condition false).
* `GaussNewton.step`: solve, `self.last = cached or loss`, update, `self.loss = loss`.
* `strategy.Constant/Adaptive/TrustRegion.update`, with Python's `max(a, min(b, c))` semantics and
  the step-quality `(last - loss) / -((J D)ᵀ (2R + J D))`.
* `RobustModel.loss`: `Σ_outputs Σ_items ρ_i(‖r‖²)` with the `len(kernel) > 1` dispatch.

What is a **parameter with a contract** (never re-implemented):

* `lossAt : P → α`   — the robust loss as a function of the parameters (same data on every call);
* `solve`            — the (user-supplied, possibly stateful, possibly raising) linear solver together
                       with the construction of `A_k`, `b` (that construction is property C07);
* `retr`, `neg`      — `update_parameter(params, D)` and `-D`; contract (hypothesis of the theorems)
                       `retr (retr p d) (neg d) = p` (`Exp(-δ)·Exp(δ)·X = X`, resp. `x + δ - δ = x`);
* `upd`              — `strategy.update` (any user strategy); the three library strategies are modelled
                       below and plugged in by the driver.

`P`, `D`, `S` are arbitrary types.  The loop is `body` iterated (`loop n = body^[n]`); the theorems show
it is halted after `reject+1` iterations, so fuel is never what stops it.
-/
namespace PP.LMLoop
variable {α : Type} [Scalar α]

/-! ## strategies -/

/-- the mutable entries of the param-group dict `pg` -/
structure SState (α : Type) where
  damping : α
  /-- `pg['radius']` (TrustRegion only; carried unchanged by the other strategies) -/
  radius : α
  /-- `pg['down']`: a constant for `Adaptive`, mutable for `TrustRegion` -/
  down : α
deriving Repr, Inhabited

/-- entries that `update` only reads: `pg['high'], pg['low'], pg['up'], pg['factor']`,
`self.down` (TrustRegion's initial down factor), `self.min`, `self.max` -/
structure Hyper (α : Type) where
  high : α
  low : α
  up : α
  factor : α
  down0 : α
  smin : α
  smax : α
deriving Repr, Inhabited

/-- the three-way outcome of `if quality > high … elif quality > low … else …` -/
inductive Verdict where
  | very | ok | bad
deriving Repr, DecidableEq, Inhabited

/-- Python `min(a, b)`: `b if b < a else a` -/
def pyMin (a b : α) : α := if Scalar.lt b a then b else a
/-- Python `max(a, b)`: `b if b > a else a` -/
def pyMax (a b : α) : α := if Scalar.lt a b then b else a
/-- `max(self.min, min(x, self.max))` -/
def clampMM (h : Hyper α) (x : α) : α := pyMax h.smin (pyMin x h.smax)

def isZero (x : α) : Bool := !(Scalar.lt x (k 0)) && !(Scalar.lt (k 0) x)

/-- denominator of the step quality: `-((J @ D).mT @ (2 * R + J @ D))` -/
def qualityDen (J : DMat α) (D R : DVec α) : α :=
  let u := DMat.mulVec J D
  let t := DVec.dot u (List.zipWith (fun r ui => k 2 * r + ui) R u)
  (-t)

/-- `quality = num / den` compared with the thresholds.  `den = 0` follows IEEE: `0/0 = NaN` fails both
comparisons (→ `bad`); `num/0` is `±inf` (the model takes `den = +0`; the sign of a floating zero is
not modelled and the harness accepts either outcome in that region). -/
def verdict (high low num den : α) : Verdict :=
  if isZero den then
    (if Scalar.lt (k 0) num then Verdict.very else Verdict.bad)
  else
    let qual := num / den
    if Scalar.lt high qual then Verdict.very
    else if Scalar.lt low qual then Verdict.ok
    else Verdict.bad

/-- The same comparison with the IEEE sign of a zero denominator made explicit. The code computes
`den = -(t)` with `t = (J D)ᵀ(2R + J D)`; when `J D = 0` one usually has `t = +0.` and hence `den = -0.` (`negZero = true`):
`num / -0. = -sign(num)·inf`, so a *decrease* (`num > 0`) gives `-inf` ("unsuccessful") and an *increase* gives `+inf`
("very successful"); `0/±0 = NaN` fails both tests. `negZero = false` is the convention of `verdict`. -/
def verdictZ (negZero : Bool) (high low num den : α) : Verdict :=
  if isZero den then
    if isZero num then Verdict.bad
    else if (Scalar.lt (k 0) num) != negZero then Verdict.very else Verdict.bad
  else
    let qual := num / den
    if Scalar.lt high qual then Verdict.very
    else if Scalar.lt low qual then Verdict.ok
    else Verdict.bad

/-- `Constant.update`: `pg['damping'] = pg['damping']` -/
def updConstant (s : SState α) : SState α := s

/-- `Adaptive.update` after the quality has been classified -/
def updAdaptive (h : Hyper α) (s : SState α) (v : Verdict) : SState α :=
  let d := match v with
    | .very => s.damping * s.down
    | .ok => s.damping
    | .bad => s.damping * h.up
  { s with damping := clampMM h d }

/-- `TrustRegion.update` after the quality has been classified -/
def updTrust (h : Hyper α) (s : SState α) (v : Verdict) : SState α :=
  let r0 := k 1 / s.damping
  let rd : α × α := match v with
    | .very => (h.up * r0, h.down0)
    | .ok => (r0, h.down0)
    | .bad => (r0 * s.down, s.down * h.factor)
  let dn := clampMM h rd.2
  let r := clampMM h rd.1
  { damping := k 1 / r, radius := r, down := dn }

/-- `TrustRegion.update` with its error branch: `pg` holds Python floats, so `1. / pg['damping']` and `1. / pg['radius']`
raise `ZeroDivisionError` (inside `step()`) when the operand is zero — reachable with `TrustRegion(radius=inf)`
(damping `1/inf = 0`) or with `min = 0` when the radius underflows. -/
def updTrustE (h : Hyper α) (s : SState α) (v : Verdict) : Except String (SState α) :=
  if isZero s.damping then .error "ZeroDivisionError"
  else
    let s' := updTrust h s v
    if isZero s'.radius then .error "ZeroDivisionError" else .ok s'

inductive Kind where
  | constant | adaptive | trust
deriving Repr, DecidableEq, Inhabited

/-- `strategy.update(pg, last, loss, J, D, R)` with `num = last - loss`, `den = qualityDen J D R` -/
def stratUpd (kd : Kind) (h : Hyper α) (s : SState α) (num den : α) : SState α :=
  match kd with
  | .constant => updConstant s
  | .adaptive => updAdaptive h s (verdict h.high h.low num den)
  | .trust => updTrust h s (verdict h.high h.low num den)

/-- `strategy.update` with the sign of a zero denominator and the `ZeroDivisionError` branch of TrustRegion -/
def stratUpdZ (kd : Kind) (negZero : Bool) (h : Hyper α) (s : SState α) (num den : α) : Except String (SState α) :=
  match kd with
  | .constant => .ok (updConstant s)
  | .adaptive => .ok (updAdaptive h s (verdictZ negZero h.high h.low num den))
  | .trust => updTrustE h s (verdictZ negZero h.high h.low num den)

/-- a whole history of updates -/
def stratRun (kd : Kind) (h : Hyper α) (s : SState α) (qs : List (α × α)) : SState α :=
  qs.foldl (fun s nd => stratUpd kd h s nd.1 nd.2) s

/-! ## the optimisation problem and the environment of one `step()` call -/

/-- fixed over a run ("step is called repeatedly on the same data") -/
structure Prob (P D α : Type) where
  lossAt : P → α
  retr : P → D → P
  neg : D → D

/-- what one call of `step` sees: the solver (argument: index of the solve within this call, i.e. which
`A_k`; `none` = the solver raised) and the strategy update (J, R of this call closed over) -/
structure Env (P D S α : Type) where
  solve : Nat → P → Option D
  upd : S → α → α → D → S

/-- state of the `while` loop -/
structure St (P S α : Type) where
  p : P
  s : S
  loss : α
  last : α
  /-- `self.reject_count` -/
  rc : Nat
  /-- number of calls of the linear solver so far in this call (= trials, a raising solve included) -/
  solves : Nat
  /-- `false` once a `break` was executed or the loop condition was found false -/
  live : Bool

variable {P D S : Type}

/-- one evaluation of the loop condition plus (if it holds) one pass through the loop body -/
def body (pr : Prob P D α) (reject : Nat) (e : Env P D S α) (st : St P S α) : St P S α :=
  if st.live && Scalar.le st.last st.loss then
    match e.solve st.solves st.p with
    | none => { st with solves := st.solves + 1, live := false }          -- except …: break
    | some d =>
      let p1 := pr.retr st.p d                                             -- update_parameter(D)
      let l1 := pr.lossAt p1                                               -- self.loss = model.loss
      let s1 := e.upd st.s st.last l1 d                                    -- strategy.update
      if Scalar.lt st.last l1 && decide (st.rc < reject) then             -- reject step
        { p := pr.retr p1 (pr.neg d), s := s1, loss := st.last, last := st.last,
          rc := st.rc + 1, solves := st.solves + 1, live := true }
      else                                                                 -- else: break
        { p := p1, s := s1, loss := l1, last := st.last, rc := st.rc,
          solves := st.solves + 1, live := false }
  else { st with live := false }

def loop (pr : Prob P D α) (reject : Nat) (e : Env P D S α) : Nat → St P S α → St P S α
  | 0, st => st
  | n + 1, st => loop pr reject e n (body pr reject e st)

/-- state at the top of the `while` loop: `self.last = self.loss = cached or loss(params)`, `reject_count = 0` -/
def start (pr : Prob P D α) (cached : Option α) (p : P) (s : S) : St P S α :=
  let l0 := match cached with
    | some l => l
    | none => pr.lossAt p
  { p := p, s := s, loss := l0, last := l0, rc := 0, solves := 0, live := true }

/-- `LevenbergMarquardt.step` (one param group); the returned value is `.loss` -/
def lmStep (pr : Prob P D α) (reject : Nat) (e : Env P D S α) (cached : Option α) (p : P) (s : S) :
    St P S α :=
  loop pr reject e (reject + 1) (start pr cached p s)

/-- what persists on the optimizer object between calls -/
structure Opt (P S α : Type) where
  p : P
  s : S
  /-- `self.loss` if it exists -/
  cached : Option α
  /-- `self.last` if it exists -/
  last : Option α
  rc : Nat

def lmCall (pr : Prob P D α) (reject : Nat) (o : Opt P S α) (e : Env P D S α) : Opt P S α :=
  let st := lmStep pr reject e o.cached o.p o.s
  { p := st.p, s := st.s, cached := some st.loss, last := some st.last, rc := st.rc }

/-- a history of `step()` calls, each with its own solver behaviour / Jacobian -/
def lmRun (pr : Prob P D α) (reject : Nat) (o : Opt P S α) (es : List (Env P D S α)) : Opt P S α :=
  es.foldl (lmCall pr reject) o

/-- a history in which the caller also changes `optimizer.reject` between calls (public attribute) -/
def lmRunV (pr : Prob P D α) (o : Opt P S α) (es : List (Nat × Env P D S α)) : Opt P S α :=
  es.foldl (fun o re => lmCall pr re.1 o re.2) o

/-- a whole run with ONE stateful user solver: `gsolve n p` is what the solver does at its `n`-th call of the run
(`none` = it raises there), whichever `step()` call that solve belongs to. State: optimizer + number of solves so far. -/
def lmCallG (pr : Prob P D α) (reject : Nat) (gsolve : Nat → P → Option D)
    (on : Opt P S α × Nat) (upd : S → α → α → D → S) : Opt P S α × Nat :=
  let st := lmStep pr reject { solve := fun i p => gsolve (on.2 + i) p, upd := upd } on.1.cached on.1.p on.1.s
  ({ p := st.p, s := st.s, cached := some st.loss, last := some st.last, rc := st.rc }, on.2 + st.solves)

def lmRunG (pr : Prob P D α) (reject : Nat) (gsolve : Nat → P → Option D)
    (on : Opt P S α × Nat) (upds : List (S → α → α → D → S)) : Opt P S α × Nat :=
  upds.foldl (lmCallG pr reject gsolve) on

/-! ## Gauss-Newton -/

structure GNOpt (P α : Type) where
  p : P
  loss : Option α
  last : Option α

/-- `GaussNewton.step`; `solve = none` means the solver raised: the exception propagates before anything
was assigned -/
def gnStep (pr : Prob P D α) (solve : P → Option D) (o : GNOpt P α) : GNOpt P α :=
  match solve o.p with
  | none => o
  | some d =>
    let last := match o.loss with
      | some l => l
      | none => pr.lossAt o.p
    let p1 := pr.retr o.p d
    { p := p1, loss := some (pr.lossAt p1), last := some last }

def gnRun (pr : Prob P D α) (o : GNOpt P α) (solves : List (P → Option D)) : GNOpt P α :=
  solves.foldl (fun o sv => gnStep pr sv o) o

/-! ## `RobustModel.loss` -/

/-- one output tensor: a list of items, each the residual vector along the last dimension -/
abbrev Output (α : Type) := List (List α)

/-- `kernel(r.square().sum(-1)).sum()` for one output -/
def outputLoss (rho : α → α) (o : Output α) : α :=
  DVec.sum (o.map (fun r => rho (DVec.normSq r)))

/-- `RobustModel.loss`: with more than one kernel, `zip(kernels, residuals)` (truncating); otherwise
`kernel[0]` for every output. For `kernels = []` (reachable: `LM(model, kernel=[])`) the code raises `IndexError` at
`self.kernel[0]`; that case is `robustLossE`, the value returned here for `[]` is a totalisation and means nothing. -/
def robustLoss (kernels : List (α → α)) (outs : List (Output α)) : α :=
  if kernels.length > 1 then
    DVec.sum (List.zipWith outputLoss kernels outs)
  else
    let rho := kernels.headD (fun x => x)
    DVec.sum (outs.map (outputLoss rho))

/-- `RobustModel.loss` with its error branch: an empty kernel list raises `IndexError` (`self.kernel[0]`) -/
def robustLossE (kernels : List (α → α)) (outs : List (Output α)) : Except String α :=
  if kernels.isEmpty then .error "IndexError" else .ok (robustLoss kernels outs)

/-- the `kernel=` argument as the user writes it: nothing, one kernel, or a list whose entries may be `None` -/
inductive KSpec (α : Type) where
  | none
  | single (rho : α → α)
  | list (ks : List (Option (α → α)))

/-- constructor glue of `GaussNewton` / `LevenbergMarquardt` / `RobustModel`:
`kernel = [kernel] if not a list`, `k if k is not None else Trivial()`, `[Trivial()] if kernel is None` -/
def normKernels : KSpec α → List (α → α)
  | .none => [fun x => x]
  | .single rho => [rho]
  | .list ks => ks.map (fun o => o.getD (fun x => x))

/-- the loss an optimizer built with `kernel=spec` reports -/
def lossOf (spec : KSpec α) (outs : List (Output α)) : α := robustLoss (normKernels spec) outs
/-- … including `kernel=[]` (→ `IndexError` at the first loss evaluation) -/
def lossOfE (spec : KSpec α) (outs : List (Output α)) : Except String α := robustLossE (normKernels spec) outs

/-! ### strategy constructors: what ends up in the param group (`defaults`) -/

/-- `Constant(damping)` -/
def initConstant (damping : α) : SState α := ⟨damping, k 1 / damping, k 1⟩
/-- `Adaptive(damping, …, down)`: `pg['down']` is the constant down factor -/
def initAdaptive (damping down : α) : SState α := ⟨damping, k 1 / damping, down⟩
/-- `TrustRegion(radius, …, down)`: `damping = 1 / radius` -/
def initTrust (radius down : α) : SState α := ⟨k 1 / radius, radius, down⟩

/-- kernels needed by the loss stream (the kernel laws themselves are property C09) -/
def rhoTrivial (x : α) : α := x
def rhoHuber (delta : α) (x : α) : α :=
  if Scalar.lt (Scalar.sqrt x) delta then x else k 2 * delta * Scalar.sqrt x - delta * delta
/-- a USER kernel deriving from `Huber` and overriding `forward`: `ρ(x) = Huber_δ(x) − δ²` (negative for small residuals:
the loss may be negative; same derivatives as Huber) -/
def rhoShiftHuber (delta : α) (x : α) : α := rhoHuber delta x - delta * delta
def rhoPseudoHuber (delta : α) (x : α) : α :=
  k 2 * (delta * delta) * (Scalar.sqrt (x / (delta * delta) + k 1) - k 1)
def rhoCauchy (delta : α) (x : α) : α :=
  (delta * delta) * Scalar.log (x / (delta * delta) + k 1)

end PP.LMLoop
