import Proofs.Lemmas.LieExp
import Mathlib.MeasureTheory.Integral.IntervalIntegral.FundThmCalculus
import Mathlib.Analysis.Complex.Trigonometric
import Mathlib.Analysis.SpecialFunctions.Trigonometric.Deriv
import Mathlib.Analysis.SpecialFunctions.ExpDeriv
import Mathlib.Tactic.FieldSimp
import Mathlib.Tactic.Ring
import Mathlib.Tactic.Linarith
import Mathlib.Tactic.Positivity
/-!
# Integral representation of the coefficients of `rxso3_Ws` and the regime-to-regime error bounds (C01)

`W(φ,σ) = ∫₀¹ exp(u(σ·1 + φ^)) du` gives `θ·A = ∫₀¹ e^{uσ} sin(uθ) du`, `θ²·B = ∫₀¹ e^{uσ}(1 − cos(uθ)) du`,
`C = ∫₀¹ e^{uσ} du` (proved here from the closed forms by the fundamental theorem of calculus).  Bounding the
integrands gives, for *all* `θ ≠ 0`, `σ ≠ 0`, the distance between the exact coefficients and the ones the code
uses in regimes 1–3, without any removable-singularity analysis.
-/
open MeasureTheory intervalIntegral
namespace PP
namespace WsInt
noncomputable section

theorem hasDeriv_exp_mul (s u : ℝ) : HasDerivAt (fun u => Real.exp (u * s)) (Real.exp (u * s) * s) u := by
  simpa using ((hasDerivAt_id u).mul_const s).exp
theorem hasDeriv_sin_mul (t u : ℝ) : HasDerivAt (fun u => Real.sin (u * t)) (Real.cos (u * t) * t) u := by
  simpa using ((hasDerivAt_id u).mul_const t).sin
theorem hasDeriv_cos_mul (t u : ℝ) : HasDerivAt (fun u => Real.cos (u * t)) (-Real.sin (u * t) * t) u := by
  simpa using ((hasDerivAt_id u).mul_const t).cos

theorem integral_exp_sin (s t : ℝ) (hD : s * s + t * t ≠ 0) :
    ∫ u in (0:ℝ)..1, Real.exp (u * s) * Real.sin (u * t)
      = (Real.exp s * (s * Real.sin t - t * Real.cos t) + t) / (s * s + t * t) := by
  have hd : ∀ u ∈ Set.uIcc (0:ℝ) 1, HasDerivAt
      (fun u => Real.exp (u * s) * (s * Real.sin (u * t) - t * Real.cos (u * t)) / (s * s + t * t))
      (Real.exp (u * s) * Real.sin (u * t)) u := by
    intro u _
    have h := ((hasDeriv_exp_mul s u).mul (((hasDeriv_sin_mul t u).const_mul s).sub ((hasDeriv_cos_mul t u).const_mul t))).div_const
      (s * s + t * t)
    exact h.congr_deriv (by simp only [Pi.sub_apply]; rw [div_eq_iff hD]; ring)
  rw [integral_eq_sub_of_hasDerivAt hd ((by fun_prop : Continuous fun u => Real.exp (u * s) * Real.sin (u * t)).intervalIntegrable _ _)]
  simp
  field_simp
  ring

theorem integral_exp_cos (s t : ℝ) (hD : s * s + t * t ≠ 0) :
    ∫ u in (0:ℝ)..1, Real.exp (u * s) * Real.cos (u * t)
      = (Real.exp s * (s * Real.cos t + t * Real.sin t) - s) / (s * s + t * t) := by
  have hd : ∀ u ∈ Set.uIcc (0:ℝ) 1, HasDerivAt
      (fun u => Real.exp (u * s) * (s * Real.cos (u * t) + t * Real.sin (u * t)) / (s * s + t * t))
      (Real.exp (u * s) * Real.cos (u * t)) u := by
    intro u _
    have h := ((hasDeriv_exp_mul s u).mul (((hasDeriv_cos_mul t u).const_mul s).add ((hasDeriv_sin_mul t u).const_mul t))).div_const
      (s * s + t * t)
    exact h.congr_deriv (by simp only [Pi.add_apply]; rw [div_eq_iff hD]; ring)
  rw [integral_eq_sub_of_hasDerivAt hd ((by fun_prop : Continuous fun u => Real.exp (u * s) * Real.cos (u * t)).intervalIntegrable _ _)]
  simp
  field_simp

theorem integral_exp (s : ℝ) (hs : s ≠ 0) :
    ∫ u in (0:ℝ)..1, Real.exp (u * s) = (Real.exp s - 1) / s := by
  have hd : ∀ u ∈ Set.uIcc (0:ℝ) 1, HasDerivAt (fun u => Real.exp (u * s) / s) (Real.exp (u * s)) u := by
    intro u _
    have h := (hasDeriv_exp_mul s u).div_const s
    exact h.congr_deriv (by field_simp)
  rw [integral_eq_sub_of_hasDerivAt hd ((by fun_prop : Continuous fun u => Real.exp (u * s)).intervalIntegrable _ _)]
  simp
  field_simp
theorem integral_mul_exp (s : ℝ) (hs : s ≠ 0) :
    ∫ u in (0:ℝ)..1, u * Real.exp (u * s) = (s * Real.exp s - (Real.exp s - 1)) / (s * s) := by
  have hd : ∀ u ∈ Set.uIcc (0:ℝ) 1, HasDerivAt (fun u => Real.exp (u * s) * (u / s - 1 / (s * s)))
      (u * Real.exp (u * s)) u := by
    intro u _
    have h := (hasDeriv_exp_mul s u).mul (((hasDerivAt_id u).div_const s).sub_const (1 / (s * s)))
    exact h.congr_deriv (by simp only [id]; field_simp; ring)
  rw [integral_eq_sub_of_hasDerivAt hd ((by fun_prop : Continuous fun u => u * Real.exp (u * s)).intervalIntegrable _ _)]
  simp only [one_mul, zero_mul, Real.exp_zero, zero_div, zero_sub]
  field_simp
  ring

theorem integral_sq_exp (s : ℝ) (hs : s ≠ 0) :
    ∫ u in (0:ℝ)..1, u ^ 2 / 2 * Real.exp (u * s)
      = (1 / 2 * (s * s) * Real.exp s + (Real.exp s - 1) - s * Real.exp s) / (s * s * s) := by
  have hd : ∀ u ∈ Set.uIcc (0:ℝ) 1, HasDerivAt
      (fun u => Real.exp (u * s) * (u ^ 2 / (2 * s) - u / (s * s) + 1 / (s * s * s)))
      (u ^ 2 / 2 * Real.exp (u * s)) u := by
    intro u _
    have h := (hasDeriv_exp_mul s u).mul
      (((((hasDerivAt_id u).pow 2).div_const (2 * s)).sub ((hasDerivAt_id u).div_const (s * s))).add_const (1 / (s * s * s)))
    exact h.congr_deriv (by simp only [id, Pi.sub_apply, Pi.pow_apply, Nat.cast_ofNat]; field_simp; ring)
  rw [integral_eq_sub_of_hasDerivAt hd ((by fun_prop : Continuous fun u => u ^ 2 / 2 * Real.exp (u * s)).intervalIntegrable _ _)]
  simp only [one_mul, zero_mul, Real.exp_zero]
  field_simp
  ring

/-- `|e^{us} − 1| ≤ e^{|s|} − 1` for `0 ≤ u ≤ 1` -/
theorem abs_exp_mul_sub_one_le (s u : ℝ) (hu0 : 0 ≤ u) (hu1 : u ≤ 1) :
    |Real.exp (u * s) - 1| ≤ Real.exp |s| - 1 := by
  have hy : |u * s| ≤ |s| := by
    rw [abs_mul, abs_of_nonneg hu0]; nlinarith [abs_nonneg s]
  have hmono : Real.exp |u * s| ≤ Real.exp |s| := Real.exp_le_exp.mpr hy
  have key : |Real.exp (u * s) - 1| ≤ Real.exp |u * s| - 1 := by
    rcases le_or_gt 0 (u * s) with h | h
    · rw [abs_of_nonneg h, abs_of_nonneg]
      have := Real.add_one_le_exp (u * s); linarith
    · rw [abs_of_neg h]
      have h1 := Real.add_one_le_exp (u * s)
      have h2 := Real.add_one_le_exp (-(u * s))
      have h3 : Real.exp (u * s) < 1 := by rw [← Real.exp_zero]; exact Real.exp_lt_exp.mpr h
      rw [abs_of_neg (by linarith)]
      have h4 : Real.exp (u * s) * Real.exp (-(u * s)) = 1 := by rw [← Real.exp_add]; simp
      nlinarith [Real.exp_pos (u * s), Real.exp_pos (-(u * s))]
  linarith

theorem exp_mul_le (s u : ℝ) (hu0 : 0 ≤ u) (hu1 : u ≤ 1) : Real.exp (u * s) ≤ Real.exp |s| := by
  apply Real.exp_le_exp.mpr
  calc u * s ≤ |u * s| := le_abs_self _
    _ = u * |s| := by rw [abs_mul, abs_of_nonneg hu0]
    _ ≤ |s| := by nlinarith [abs_nonneg s]

/-! ### the closed-form coefficients of `rxso3_Ws` as integrals over `u ∈ [0,1]`
`W(φ,σ) = ∫₀¹ exp(u(σ·1 + K)) du`, so `θ·A = ∫ e^{uσ} sin(uθ)`, `θ²·B = ∫ e^{uσ}(1 − cos(uθ))`, `C = ∫ e^{uσ}`. -/

theorem D_ne (s t : ℝ) (ht : t ≠ 0) : s * s + t * t ≠ 0 := by
  have : 0 < t * t := mul_self_pos.mpr ht
  have := mul_self_nonneg s
  exact ne_of_gt (by linarith)

theorem mul_WsA4 (t s : ℝ) (ht : t ≠ 0) :
    t * WsA4 t s = ∫ u in (0:ℝ)..1, Real.exp (u * s) * Real.sin (u * t) := by
  have hD := D_ne s t ht
  have hD' : t * t + s * s ≠ 0 := by rwa [add_comm]
  rw [integral_exp_sin s t hD]; unfold WsA4; field_simp; ring

theorem sq_mul_WsB4 (t s : ℝ) (ht : t ≠ 0) (hs : s ≠ 0) :
    t * t * WsB4 t s = (∫ u in (0:ℝ)..1, Real.exp (u * s)) - ∫ u in (0:ℝ)..1, Real.exp (u * s) * Real.cos (u * t) := by
  have hD := D_ne s t ht
  have hD' : t * t + s * s ≠ 0 := by rwa [add_comm]
  rw [integral_exp_cos s t hD, integral_exp s hs]; unfold WsB4; field_simp; ring

theorem WsC_eq_integral (s : ℝ) (hs : s ≠ 0) : WsC s = ∫ u in (0:ℝ)..1, Real.exp (u * s) := by
  rw [integral_exp s hs]; rfl

theorem mul_A2 (t : ℝ) (ht : t ≠ 0) :
    t * ((1 - Real.cos t) / (t * t)) = ∫ u in (0:ℝ)..1, Real.exp (u * 0) * Real.sin (u * t) := by
  rw [integral_exp_sin 0 t (D_ne 0 t ht)]; simp; field_simp; ring

theorem sq_mul_B2 (t : ℝ) (ht : t ≠ 0) :
    t * t * ((t - Real.sin t) / (t * t * t)) = (∫ u in (0:ℝ)..1, (1:ℝ)) - ∫ u in (0:ℝ)..1, Real.exp (u * 0) * Real.cos (u * t) := by
  rw [integral_exp_cos 0 t (D_ne 0 t ht)]; simp; field_simp

theorem cont_es (s t : ℝ) : Continuous fun u : ℝ => Real.exp (u * s) * Real.sin (u * t) := by fun_prop
theorem cont_ec (s t : ℝ) : Continuous fun u : ℝ => Real.exp (u * s) * Real.cos (u * t) := by fun_prop
theorem cont_e (s : ℝ) : Continuous fun u : ℝ => Real.exp (u * s) := by fun_prop

/-- a function bounded by `C` on `(0,1]` has `|∫₀¹ f| ≤ C` -/
theorem abs_integral_le (f : ℝ → ℝ) (C : ℝ) (h : ∀ u, 0 ≤ u → u ≤ 1 → |f u| ≤ C) : |∫ u in (0:ℝ)..1, f u| ≤ C := by
  have := intervalIntegral.norm_integral_le_of_norm_le_const (a := (0:ℝ)) (b := 1) (C := C) (f := f) (by
    intro u hu
    rw [Set.uIoc_of_le zero_le_one] at hu
    exact h u (le_of_lt hu.1) hu.2)
  simpa using this

/-- regime 2 vs regime 4, coefficient of `K`: `|θ (A(θ,σ) − A(θ,0))| ≤ e^{|σ|} − 1` -/
theorem A4_sub_A2 (t s : ℝ) (ht : t ≠ 0) :
    |t * (WsA4 t s - (1 - Real.cos t) / (t * t))| ≤ Real.exp |s| - 1 := by
  rw [mul_sub, mul_WsA4 t s ht, mul_A2 t ht,
    ← intervalIntegral.integral_sub ((cont_es s t).intervalIntegrable _ _) ((cont_es 0 t).intervalIntegrable _ _)]
  apply abs_integral_le
  intro u hu0 hu1
  have e : Real.exp (u * s) * Real.sin (u * t) - Real.exp (u * 0) * Real.sin (u * t)
      = (Real.exp (u * s) - 1) * Real.sin (u * t) := by simp; ring
  rw [e, abs_mul]
  calc _ ≤ (Real.exp |s| - 1) * 1 := by
        gcongr
        · have := abs_exp_mul_sub_one_le s u hu0 hu1
          have := abs_nonneg (Real.exp (u * s) - 1); linarith
        · exact abs_exp_mul_sub_one_le s u hu0 hu1
        · exact Real.abs_sin_le_one _
    _ = _ := by ring

/-- coefficient of `K²`: `|θ² (B(θ,σ) − B(θ,0))| ≤ 2 (e^{|σ|} − 1)` -/
theorem B4_sub_B2 (t s : ℝ) (ht : t ≠ 0) (hs : s ≠ 0) :
    |t * t * (WsB4 t s - (t - Real.sin t) / (t * t * t))| ≤ 2 * (Real.exp |s| - 1) := by
  rw [mul_sub, sq_mul_WsB4 t s ht hs, sq_mul_B2 t ht,
    ← intervalIntegral.integral_sub ((cont_e s).intervalIntegrable _ _) ((cont_ec s t).intervalIntegrable _ _),
    ← intervalIntegral.integral_sub (continuous_const.intervalIntegrable _ _) ((cont_ec 0 t).intervalIntegrable _ _),
    ← intervalIntegral.integral_sub]
  · apply abs_integral_le
    intro u hu0 hu1
    have e : Real.exp (u * s) - Real.exp (u * s) * Real.cos (u * t) - (1 - Real.exp (u * 0) * Real.cos (u * t))
        = (Real.exp (u * s) - 1) * (1 - Real.cos (u * t)) := by simp; ring
    rw [e, abs_mul]
    have hc : |1 - Real.cos (u * t)| ≤ 2 := by
      rw [abs_le]; constructor <;> linarith [Real.neg_one_le_cos (u * t), Real.cos_le_one (u * t)]
    calc _ ≤ (Real.exp |s| - 1) * 2 := by
          gcongr
          · have := abs_exp_mul_sub_one_le s u hu0 hu1
            have := abs_nonneg (Real.exp (u * s) - 1); linarith
          · exact abs_exp_mul_sub_one_le s u hu0 hu1
      _ = _ := by ring
  · exact (Continuous.intervalIntegrable (by fun_prop) _ _)
  · exact (Continuous.intervalIntegrable (by fun_prop) _ _)

/-- `|C(σ) − 1| ≤ e^{|σ|} − 1` -/
theorem WsC_sub_one (s : ℝ) (hs : s ≠ 0) : |WsC s - 1| ≤ Real.exp |s| - 1 := by
  have e : WsC s - 1 = ∫ u in (0:ℝ)..1, (Real.exp (u * s) - 1) := by
    rw [intervalIntegral.integral_sub ((cont_e s).intervalIntegrable _ _) (continuous_const.intervalIntegrable _ _),
      ← WsC_eq_integral s hs]
    simp
  rw [e]
  apply abs_integral_le
  intro u hu0 hu1
  exact abs_exp_mul_sub_one_le s u hu0 hu1

/-! ### regime 3 (`0 < θ ≤ 1`, `σ ≠ 0`): the `θ → 0` limits `A₃`, `B₃` against the closed forms -/

theorem abs_sin_sub_self_le (x : ℝ) (hx : |x| ≤ 1) : |Real.sin x - x| ≤ |x| ^ 3 / 5 := by
  have hb := Real.sin_bound hx
  have h3 : |x ^ 3 / 6| = |x| ^ 3 / 6 := by rw [abs_div, abs_pow]; norm_num
  have e : Real.sin x - x = (Real.sin x - (x - x ^ 3 / 6)) - x ^ 3 / 6 := by ring
  have h5 : |x| ^ 5 ≤ |x| ^ 3 := by
    have h0 := abs_nonneg x
    have : |x| ^ 2 ≤ 1 := by nlinarith
    calc |x| ^ 5 = |x| ^ 3 * |x| ^ 2 := by ring
      _ ≤ |x| ^ 3 * 1 := by gcongr
      _ = |x| ^ 3 := by ring
  have hp : 0 ≤ |x| ^ 3 := by positivity
  rw [e]
  calc _ ≤ |Real.sin x - (x - x ^ 3 / 6)| + |x ^ 3 / 6| := abs_sub _ _
    _ ≤ |x| ^ 5 / 100 + |x| ^ 3 / 6 := by rw [h3]; linarith
    _ ≤ |x| ^ 3 / 5 := by linarith

theorem mul_WsA3 (t s : ℝ) (hs : s ≠ 0) : t * WsA3 s = ∫ u in (0:ℝ)..1, Real.exp (u * s) * (u * t) := by
  have e : (fun u : ℝ => Real.exp (u * s) * (u * t)) = fun u => t * (u * Real.exp (u * s)) := by funext u; ring
  rw [e, intervalIntegral.integral_const_mul, integral_mul_exp s hs]; rfl

theorem sq_mul_WsB3 (t s : ℝ) (hs : s ≠ 0) :
    t * t * WsB3 s = ∫ u in (0:ℝ)..1, Real.exp (u * s) * ((u * t) ^ 2 / 2) := by
  have e : (fun u : ℝ => Real.exp (u * s) * ((u * t) ^ 2 / 2)) = fun u => (t * t) * (u ^ 2 / 2 * Real.exp (u * s)) := by
    funext u; ring
  rw [e, intervalIntegral.integral_const_mul, integral_sq_exp s hs]; rfl

/-- `|θ (A(θ,σ) − A₃(σ))| ≤ e^{|σ|} θ³/5` for `0 < θ ≤ 1` -/
theorem A4_sub_A3 (t s : ℝ) (ht0 : 0 < t) (ht1 : t ≤ 1) (hs : s ≠ 0) :
    |t * (WsA4 t s - WsA3 s)| ≤ Real.exp |s| * (t ^ 3 / 5) := by
  rw [mul_sub, mul_WsA4 t s (ne_of_gt ht0), mul_WsA3 t s hs,
    ← intervalIntegral.integral_sub ((cont_es s t).intervalIntegrable _ _) (Continuous.intervalIntegrable (by fun_prop) _ _)]
  apply abs_integral_le
  intro u hu0 hu1
  have e : Real.exp (u * s) * Real.sin (u * t) - Real.exp (u * s) * (u * t)
      = Real.exp (u * s) * (Real.sin (u * t) - u * t) := by ring
  have hx0 : 0 ≤ u * t := mul_nonneg hu0 (le_of_lt ht0)
  have hx1 : u * t ≤ t := by nlinarith
  have hx : |u * t| ≤ 1 := by rw [abs_of_nonneg hx0]; linarith
  have hb := abs_sin_sub_self_le (u * t) hx
  rw [abs_of_nonneg hx0] at hb
  have h3 : (u * t) ^ 3 ≤ t ^ 3 := pow_le_pow_left₀ hx0 hx1 3
  rw [e, abs_mul, abs_of_pos (Real.exp_pos _)]
  calc _ ≤ Real.exp |s| * ((u * t) ^ 3 / 5) :=
        mul_le_mul (exp_mul_le s u hu0 hu1) hb (abs_nonneg _) (le_of_lt (Real.exp_pos _))
    _ ≤ _ := by gcongr

/-- `|θ² (B(θ,σ) − B₃(σ))| ≤ e^{|σ|} θ⁴ (5/96)` for `0 < θ ≤ 1` -/
theorem B4_sub_B3 (t s : ℝ) (ht0 : 0 < t) (ht1 : t ≤ 1) (hs : s ≠ 0) :
    |t * t * (WsB4 t s - WsB3 s)| ≤ Real.exp |s| * (t ^ 4 * (5 / 96)) := by
  rw [mul_sub, sq_mul_WsB4 t s (ne_of_gt ht0) hs, sq_mul_WsB3 t s hs,
    ← intervalIntegral.integral_sub ((cont_e s).intervalIntegrable _ _) ((cont_ec s t).intervalIntegrable _ _),
    ← intervalIntegral.integral_sub (Continuous.intervalIntegrable (by fun_prop) _ _) (Continuous.intervalIntegrable (by fun_prop) _ _)]
  apply abs_integral_le
  intro u hu0 hu1
  have e : Real.exp (u * s) - Real.exp (u * s) * Real.cos (u * t) - Real.exp (u * s) * ((u * t) ^ 2 / 2)
      = -(Real.exp (u * s) * (Real.cos (u * t) - (1 - (u * t) ^ 2 / 2))) := by ring
  have hx0 : 0 ≤ u * t := mul_nonneg hu0 (le_of_lt ht0)
  have hx1 : u * t ≤ t := by nlinarith
  have hx : |u * t| ≤ 1 := by rw [abs_of_nonneg hx0]; linarith
  have hb := Real.cos_bound hx
  rw [abs_of_nonneg hx0] at hb
  have h4 : (u * t) ^ 4 ≤ t ^ 4 := pow_le_pow_left₀ hx0 hx1 4
  rw [e, abs_neg, abs_mul, abs_of_pos (Real.exp_pos _)]
  calc _ ≤ Real.exp |s| * ((u * t) ^ 4 * (5 / 96)) :=
        mul_le_mul (exp_mul_le s u hu0 hu1) hb (abs_nonneg _) (le_of_lt (Real.exp_pos _))
    _ ≤ _ := by gcongr
end
end WsInt
end PP
