import Proofs.Real
import Pose.Model.Corrector
import Mathlib.Algebra.BigOperators.Group.Finset.Basic
import Mathlib.Algebra.BigOperators.Intervals
import Mathlib.Algebra.BigOperators.Ring.Finset
import Mathlib.Algebra.Order.BigOperators.Ring.Finset
import Mathlib.Tactic.Ring
import Mathlib.Tactic.Linarith
import Mathlib.Tactic.FieldSimp
/-!
# Helper lemmas for the corrector part of C09: `sumN` over ℝ is `Finset.sum` over `range`
-/
namespace PP.Corrector
open Finset

theorem sumN_eq_sum (n : Nat) (f : Nat → ℝ) : sumN n f = ∑ i ∈ range n, f i := by
  induction n with
  | zero => simp [sumN]
  | succ n ih => simp only [sumN, ih, sum_range_succ]

theorem normSq_eq_sum (d : Nat) (R : Nat → ℝ) : normSq d R = ∑ a ∈ range d, R a * R a := by
  unfold normSq; exact sumN_eq_sum _ _

theorem normSq_nonneg (d : Nat) (R : Nat → ℝ) : 0 ≤ normSq d R := by
  rw [normSq_eq_sum]; exact sum_nonneg fun a _ => mul_self_nonneg (R a)

/-- `‖R‖² = 0` exactly when every component (below `d`) vanishes -/
theorem normSq_eq_zero_iff (d : Nat) (R : Nat → ℝ) : normSq d R = 0 ↔ ∀ a < d, R a = 0 := by
  rw [normSq_eq_sum, sum_eq_zero_iff_of_nonneg (fun a _ => mul_self_nonneg (R a))]
  constructor
  · intro h a ha; exact mul_self_eq_zero.mp (h a (mem_range.mpr ha))
  · intro h a ha; rw [h a (mem_range.mp ha)]; ring

theorem isZero_real (x : ℝ) : isZero x = decide (x = 0) := by
  unfold isZero
  simp only [le_real, k_real, Nat.cast_zero]
  by_cases h : x = 0
  · simp [h]
  · rcases lt_or_gt_of_ne h with h' | h'
    · simp [h, not_le.mpr h']
    · simp [h, not_le.mpr h']

theorem mask_real (x g2 : ℝ) : mask x g2 = decide (x ≠ 0 ∧ 0 < g2) := by
  unfold mask
  rw [isZero_real]
  simp only [le_real, k_real, Nat.cast_zero]
  by_cases h : x = 0 <;> by_cases h2 : g2 ≤ 0 <;> simp [h, h2, not_lt.mpr, lt_of_not_ge]

theorem smax_real (a b : ℝ) : smax a b = max a b := by
  unfold smax
  simp only [lt_real]
  by_cases h : a < b
  · simp [h, max_eq_right (le_of_lt h)]
  · simp [h, max_eq_left (not_lt.mp h)]

/-! ### one item of `FastTriggs` / `Triggs` -/

section item
variable (d : Nat) (x g1 g2 : ℝ) (R : Nat → ℝ) (J : Nat → Nat → ℝ)

theorem fast_R (a : Nat) : (fast g1 R J).R a = Real.sqrt g1 * R a := rfl
theorem fast_J (a l : Nat) : (fast g1 R J).J a l = Real.sqrt g1 * J a l := rfl

theorem triggs_unmasked (hm : mask x g2 = false) : triggs d x g1 g2 R J = fast g1 R J := by
  unfold triggs fast
  simp only [hm]
  rfl

theorem triggs_R_masked (hm : mask x g2 = true) (a : Nat) :
    (triggs d x g1 g2 R J).R a = Real.sqrt g1 * R a / (1 - alpha x g1 g2) := by
  unfold triggs
  simp only [hm, if_true, sqrt_real, k_real, Nat.cast_one]

theorem triggs_J_masked (hm : mask x g2 = true) (a l : Nat) :
    (triggs d x g1 g2 R J).J a l =
      Real.sqrt g1 * (J a l - alpha x g1 g2 / x * R a * ∑ b ∈ range d, R b * J b l) := by
  unfold triggs
  simp only [hm, if_true, sqrt_real, sumN_eq_sum]
  have : ∑ b ∈ range d, R a * R b * (Real.sqrt g1 * J b l)
      = R a * Real.sqrt g1 * ∑ b ∈ range d, R b * J b l := by
    rw [mul_sum]; exact sum_congr rfl fun b _ => by ring
  rw [this]; ring

/-- on the mask (with `ρ' > 0`, `x = ‖R‖² > 0`) `1 - α = √(1 + 2xρ''/ρ')`, which is `> 1` -/
theorem one_sub_alpha (hx : 0 < x) (h1 : 0 < g1) (h2 : 0 < g2) :
    1 - alpha x g1 g2 = Real.sqrt (1 + 2 * x * g2 / g1) ∧ 1 < Real.sqrt (1 + 2 * x * g2 / g1) := by
  have ht : 0 < 2 * x * g2 / g1 := by positivity
  constructor
  · unfold alpha
    simp only [sqrt_real, k_real, smax_real, Nat.cast_zero, Nat.cast_one, Nat.cast_ofNat]
    rw [max_eq_right (by linarith)]; ring
  · rw [show (1:ℝ) = Real.sqrt 1 by simp]
    apply Real.sqrt_lt_sqrt (by norm_num)
    simp only [Real.sqrt_one]; linarith

/-- `α` is a root of `½α² − α − (ρ''/ρ')‖R‖² = 0` -/
theorem alpha_root (hx : 0 < x) (h1 : 0 < g1) (h2 : 0 < g2) :
    (1/2) * (alpha x g1 g2)^2 - alpha x g1 g2 - g2 / g1 * x = 0 := by
  obtain ⟨he, hs⟩ := one_sub_alpha x g1 g2 hx h1 h2
  have ht : 0 ≤ 1 + 2 * x * g2 / g1 := by positivity
  have hsq := Real.mul_self_sqrt ht
  have ha : alpha x g1 g2 = 1 - Real.sqrt (1 + 2 * x * g2 / g1) := by linarith
  rw [ha]
  field_simp
  field_simp at hsq
  nlinarith [hsq]


theorem fast_item_grad (h1 : 0 ≤ g1) (l : Nat) :
    ∑ a ∈ range d, (fast g1 R J).J a l * (fast g1 R J).R a = g1 * ∑ a ∈ range d, J a l * R a := by
  simp only [fast_R, fast_J]
  rw [mul_sum]
  refine sum_congr rfl fun a _ => ?_
  have := Real.mul_self_sqrt h1
  calc Real.sqrt g1 * J a l * (Real.sqrt g1 * R a) = (Real.sqrt g1 * Real.sqrt g1) * (J a l * R a) := by ring
    _ = g1 * (J a l * R a) := by rw [this]

theorem fast_item_hess (h1 : 0 ≤ g1) (l m : Nat) :
    ∑ a ∈ range d, (fast g1 R J).J a l * (fast g1 R J).J a m = g1 * ∑ a ∈ range d, J a l * J a m := by
  simp only [fast_J]
  rw [mul_sum]
  refine sum_congr rfl fun a _ => ?_
  have := Real.mul_self_sqrt h1
  calc Real.sqrt g1 * J a l * (Real.sqrt g1 * J a m) = (Real.sqrt g1 * Real.sqrt g1) * (J a l * J a m) := by ring
    _ = g1 * (J a l * J a m) := by rw [this]

/-- gradient identity of one masked item -/
theorem triggs_item_grad_masked (hxR : x = ∑ a ∈ range d, R a * R a) (hx : 0 < x) (h1 : 0 < g1) (h2 : 0 < g2)
    (l : Nat) :
    ∑ a ∈ range d, (triggs d x g1 g2 R J).J a l * (triggs d x g1 g2 R J).R a
      = g1 * ∑ a ∈ range d, J a l * R a := by
  have hm : mask x g2 = true := by rw [mask_real]; simp [hx.ne', h2]
  obtain ⟨he, hs⟩ := one_sub_alpha x g1 g2 hx h1 h2
  set s := Real.sqrt (1 + 2 * x * g2 / g1) with hsdef
  have hs0 : s ≠ 0 := by linarith
  have hg := Real.mul_self_sqrt h1.le
  simp only [triggs_R_masked d x g1 g2 R J hm, triggs_J_masked d x g1 g2 R J hm]
  set al := alpha x g1 g2 with hal
  rw [he]
  set c := ∑ b ∈ range d, R b * J b l with hc
  have e1 : ∀ a, Real.sqrt g1 * (J a l - al / x * R a * c) * (Real.sqrt g1 * R a / s)
      = (g1 / s) * (R a * J a l) - (g1 / s * (al / x) * c) * (R a * R a) := by
    intro a
    calc _ = (Real.sqrt g1 * Real.sqrt g1) / s * (R a * J a l) - ((Real.sqrt g1 * Real.sqrt g1) / s * (al / x) * c) * (R a * R a) := by ring
      _ = _ := by rw [hg]
  simp only [e1]
  rw [sum_sub_distrib, ← mul_sum, ← mul_sum, ← hc, ← hxR]
  have hc' : ∑ a ∈ range d, J a l * R a = c := by
    rw [hc]; exact sum_congr rfl fun a _ => by ring
  rw [hc']
  have hal' : al = 1 - s := by linarith
  rw [hal']
  field_simp
  ring

/-- Hessian identity of one masked item -/
theorem triggs_item_hess_masked (hxR : x = ∑ a ∈ range d, R a * R a) (hx : 0 < x) (h1 : 0 < g1) (h2 : 0 < g2)
    (l m : Nat) :
    ∑ a ∈ range d, (triggs d x g1 g2 R J).J a l * (triggs d x g1 g2 R J).J a m
      = g1 * ∑ a ∈ range d, J a l * J a m
        + 2 * g2 * ((∑ a ∈ range d, J a l * R a) * (∑ a ∈ range d, R a * J a m)) := by
  have hm : mask x g2 = true := by rw [mask_real]; simp [hx.ne', h2]
  obtain ⟨he, hs⟩ := one_sub_alpha x g1 g2 hx h1 h2
  have hroot := alpha_root x g1 g2 hx h1 h2
  have hg := Real.mul_self_sqrt h1.le
  simp only [triggs_J_masked d x g1 g2 R J hm]
  set al := alpha x g1 g2 with hal
  set cl := ∑ b ∈ range d, R b * J b l with hcl
  set cm := ∑ b ∈ range d, R b * J b m with hcm
  have e1 : ∀ a, Real.sqrt g1 * (J a l - al / x * R a * cl) * (Real.sqrt g1 * (J a m - al / x * R a * cm))
      = g1 * (J a l * J a m) - (g1 * (al / x) * cm) * (R a * J a l) - (g1 * (al / x) * cl) * (R a * J a m)
        + (g1 * (al / x)^2 * cl * cm) * (R a * R a) := by
    intro a
    calc _ = (Real.sqrt g1 * Real.sqrt g1) * ((J a l - al / x * R a * cl) * (J a m - al / x * R a * cm)) := by ring
      _ = g1 * ((J a l - al / x * R a * cl) * (J a m - al / x * R a * cm)) := by rw [hg]
      _ = _ := by ring
  simp only [e1]
  rw [sum_add_distrib, sum_sub_distrib, sum_sub_distrib, ← mul_sum, ← mul_sum, ← mul_sum, ← mul_sum,
    ← hcl, ← hcm, ← hxR]
  have hc' : ∑ a ∈ range d, J a l * R a = cl := by
    rw [hcl]; exact sum_congr rfl fun a _ => by ring
  rw [hc']
  have hx0 : x ≠ 0 := hx.ne'
  have hg0 : g1 ≠ 0 := h1.ne'
  have key : g1 * ((al / x)^2 * x - 2 * (al / x)) = 2 * g2 := by
    field_simp
    field_simp at hroot
    nlinarith [hroot]
  calc _ = g1 * ∑ a ∈ range d, J a l * J a m + (g1 * ((al / x)^2 * x - 2 * (al / x))) * (cl * cm) := by ring
    _ = _ := by rw [key]

end item

end PP.Corrector
