import Pose.Wire
/-! Driver ops for C09. -/
namespace PP.Driver
open PP Wire

def opsC09 : List (String × Handler) := []

end PP.Driver
