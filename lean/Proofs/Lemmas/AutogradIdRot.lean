/-
C04 (pass 3): `SO3`/`RxSO3` `Log` backward at the identity element and `rxso3` `Exp` backward at rotation part zero are
the true left-perturbation derivatives.
-/
import Proofs.Lemmas.AutogradExp
import Proofs.Lemmas.AutogradLog
import Proofs.Lemmas.AutogradZero
import Mathlib.Analysis.SpecialFunctions.ExpDeriv
import Mathlib.Analysis.SpecialFunctions.Log.Deriv
set_option maxRecDepth 10000
set_option linter.unusedSimpArgs false
set_option linter.unusedVariables false
namespace PP.AD
open PP

/-- regime 3 of `SO3_Log` (`‖v‖ ≤ eps`): a rational function of the coordinates -/
theorem SO3Log_regime3 (eps : ℝ) (p : Quat ℝ) (h : ¬ eps < p.vec.norm) :
    SO3Log eps p = p.vec.smul (2 * (1 / p.w - p.vec.normSq / (3 * (p.w * p.w * p.w)))) := by
  unfold SO3Log so3LogFactor
  simp only [lt_real, h, decide_false, Bool.false_eq_true, if_false, k_real, Nat.cast_ofNat, Nat.cast_one, Vec3.norm_sq]

/-- **`SO3_Log.backward` at the identity element** (either representative `±1`; regime 3 of the logarithm, Taylor branch of
`so3_Jl_inv`): exact, nothing is divided by `‖v‖`. -/
theorem SO3Log_tangent_identity (eps : ℝ) (heps : 0 < eps) (X : ℝ → DVec ℝ) (a0 a1 a2 : ℝ)
    (hX : LCurve 4 X (liftG .SO3 (X 0) [a0, a1, a2])) (hv : (qt (X 0)).vec = ⟨0, 0, 0⟩) (hw : nth (X 0) 3 * nth (X 0) 3 = 1) :
    LCurve 3 (fun t => logF .SO3 eps (X t))
      ((JlInvMat .SO3 eps (logF .SO3 eps (X 0))).mulVec [a0, a1, a2]) := by
  have h0 := hX 0 (by norm_num); have h1 := hX 1 (by norm_num); have h2 := hX 2 (by norm_num); have h3 := hX 3 (by norm_num)
  have z0 : nth (X 0) 0 = 0 := by have := congrArg Vec3.x hv; simpa [qt, Quat.vec] using this
  have z1 : nth (X 0) 1 = 0 := by have := congrArg Vec3.y hv; simpa [qt, Quat.vec] using this
  have z2 : nth (X 0) 2 = 0 := by have := congrArg Vec3.z hv; simpa [qt, Quat.vec] using this
  set w := nth (X 0) 3 with hw'
  have hwne : w ≠ 0 := by intro h; rw [h] at hw; norm_num at hw
  simp only [liftG, liftQ, qt, v3, nth_cons_zero, nth_cons_succ, Quat.toList, Quat.mul, Quat.mk', Vec3.smul,
    z0, z1, z2, ← hw'] at h0 h1 h2 h3
  have e0 := h0.differentiableAt; have e1 := h1.differentiableAt; have e2 := h2.differentiableAt; have e3 := h3.differentiableAt
  have hNc : ContinuousAt (fun t => Real.sqrt (nth (X t) 0 * nth (X t) 0 + nth (X t) 1 * nth (X t) 1 + nth (X t) 2 * nth (X t) 2)) 0 :=
    (((h0.continuousAt.mul h0.continuousAt).add (h1.continuousAt.mul h1.continuousAt)).add (h2.continuousAt.mul h2.continuousAt)).sqrt
  have hev : ∀ᶠ t in nhds (0:ℝ), ¬ eps < (qt (X t)).vec.norm := by
    have : ∀ᶠ t in nhds (0:ℝ), Real.sqrt (nth (X t) 0 * nth (X t) 0 + nth (X t) 1 * nth (X t) 1 + nth (X t) 2 * nth (X t) 2) < eps := by
      apply hNc.eventually (gt_mem_nhds _)
      simp [z0, z1, z2, heps]
    filter_upwards [this] with t ht
    have : (qt (X t)).vec.norm = Real.sqrt (nth (X t) 0 * nth (X t) 0 + nth (X t) 1 * nth (X t) 1 + nth (X t) 2 * nth (X t) 2) := by
      simp [Vec3.norm, Vec3.normSq, qt, Quat.vec]
    rw [this]; exact not_lt.mpr (le_of_lt ht)
  have hnz0 : ¬ eps < (qt (X 0)).vec.norm := by
    rw [hv]; simp [Vec3.norm, Vec3.normSq]; exact le_of_lt heps
  have hval : logF .SO3 eps (X 0) = [0, 0, 0] := by
    simp only [logF, SO3Log_regime3 eps _ hnz0, hv]
    simp [Vec3.smul, Vec3.toList]
  have hJ : (JlInvMat .SO3 eps (logF .SO3 eps (X 0))).mulVec [a0, a1, a2] = [a0, a1, a2] := by
    rw [hval]
    have := JlInvMat_zero .SO3 eps (le_of_lt heps)
    simp only [Grp.adim, DVec.zero, List.replicate, k_real, Nat.cast_zero] at this
    rw [this]
    simp [DMat.one, DMat.mulVec, DVec.basis, List.range, List.range.loop, ddot_cons]
  rw [hJ]
  have hw3 : nth (X 0) 3 ≠ 0 := hwne
  have hden : 3 * (nth (X 0) 3 * nth (X 0) 3 * nth (X 0) 3) ≠ 0 := mul_ne_zero (by norm_num) (mul_ne_zero (mul_ne_zero hwne hwne) hwne)
  have key : ∀ i, i < 3 → HasDerivAt (fun t => nth (((qt (X t)).vec.smul (2 * (1 / (qt (X t)).w - (qt (X t)).vec.normSq /
        (3 * ((qt (X t)).w * (qt (X t)).w * (qt (X t)).w))))).toList) i) (nth [a0, a1, a2] i) 0 := by
    intro i hi
    interval_cases i
    all_goals
      simp only [Quat.vec, Vec3.smul, Vec3.normSq, Vec3.toList, qt, nth_cons_zero, nth_cons_succ, Nat.reduceAdd, zero_add]
      refine HasDerivAt.congr_deriv (DifferentiableAt.hasDerivAt (by fun_prop (disch := assumption))) ?_
      simp (disch := first | assumption | fun_prop (disch := assumption)) only [deriv_fun_add, deriv_fun_sub, deriv_fun_mul,
        deriv_fun_div, deriv_const, deriv_const_mul_field, h0.deriv, h1.deriv, h2.deriv, h3.deriv]
      simp only [z0, z1, z2, ← hw']
      field_simp
      try ring_nf
      try (rw [show w ^ 2 = 1 by rw [pow_two]; exact hw]; ring)
  intro i hi
  refine (key i hi).congr_of_eventuallyEq ?_
  filter_upwards [hev] with t ht
  simp only [logF, SO3Log_regime3 eps _ ht]
/-- **`rxso3_Exp.backward` at zero rotation** (any log-scale): exact -/
theorem rxso3Exp_tangent_zero (eps : ℝ) (heps : 0 < eps) (x : ℝ → DVec ℝ) (d0 d1 d2 d3 : ℝ)
    (hx : LCurve 4 x [d0, d1, d2, d3]) (hz : v3 (x 0) = ⟨0, 0, 0⟩) :
    LCurve 5 (fun t => expF .RxSO3 eps (x t))
      (liftG .RxSO3 (expF .RxSO3 eps (x 0)) ((JlMat .RxSO3 eps (x 0)).mulVec [d0, d1, d2, d3])) := by
  have hφ : LCurve 3 (fun t => [nth (x t) 0, nth (x t) 1, nth (x t) 2]) [d0, d1, d2] := by
    intro j hj
    interval_cases j
    · simpa using hx 0 (by norm_num)
    · simpa using hx 1 (by norm_num)
    · simpa using hx 2 (by norm_num)
  have hrot := so3Exp_tangent_zero eps heps (fun t => [nth (x t) 0, nth (x t) 1, nth (x t) 2]) d0 d1 d2 hφ
    (by simpa [v3] using hz)
  have h3 := hx 3 (by norm_num)
  simp only [nth_cons_zero, nth_cons_succ] at h3
  intro i hi
  by_cases h4 : i < 4
  · have := hrot i h4
    have e1 : (fun t => nth (expF .RxSO3 eps (x t)) i) = fun t => nth (expF .SO3 eps [nth (x t) 0, nth (x t) 1, nth (x t) 2]) i := by
      funext t
      interval_cases i <;> simp [expF, rxso3Exp, RxSO3.toList, torx, Quat.toList, v3]
    have e2 : nth (liftG .RxSO3 (expF .RxSO3 eps (x 0)) ((JlMat .RxSO3 eps (x 0)).mulVec [d0, d1, d2, d3])) i
        = nth (liftG .SO3 (expF .SO3 eps ((fun t => [nth (x t) 0, nth (x t) 1, nth (x t) 2]) 0))
            ((JlMat .SO3 eps ((fun t => [nth (x t) 0, nth (x t) 1, nth (x t) 2]) 0)).mulVec [d0, d1, d2])) i := by
      interval_cases i <;>
        simp [liftG, liftQ, expF, rxso3Exp, JlMat, rxso3Jl, RxSO3.toList, torx, Vec3.toList, Quat.toList, v3, qt, DMat.block,
          DMat.hcat, DMat.vcat, DMat.zero, DVec.zero, Mat3.toRows, DMat.mulVec, ddot_cons]
    rw [e1, e2]; exact this
  · have hi4 : i = 4 := by omega
    subst hi4
    have e1 : (fun t => nth (expF .RxSO3 eps (x t)) 4) = fun t => Real.exp (nth (x t) 3) := by
      funext t; simp [expF, rxso3Exp, RxSO3.toList, torx, Quat.toList]
    rw [e1]
    refine h3.exp.congr_deriv ?_
    simp [liftG, expF, rxso3Exp, JlMat, rxso3Jl, RxSO3.toList, torx, Vec3.toList, Quat.toList, DMat.block,
      DMat.hcat, DMat.vcat, DMat.zero, DVec.zero, Mat3.toRows, DMat.mulVec, ddot_cons, mul_comm]

/-- **`RxSO3_Log.backward` at the identity rotation** (any scale, either quaternion representative): exact -/
theorem RxSO3Log_tangent_identity (eps : ℝ) (heps : 0 < eps) (X : ℝ → DVec ℝ) (a0 a1 a2 a3 : ℝ)
    (hX : LCurve 5 X (liftG .RxSO3 (X 0) [a0, a1, a2, a3])) (hs : 0 < nth (X 0) 4)
    (hv : (qt (X 0)).vec = ⟨0, 0, 0⟩) (hw : nth (X 0) 3 * nth (X 0) 3 = 1) :
    LCurve 4 (fun t => logF .RxSO3 eps (X t))
      ((JlInvMat .RxSO3 eps (logF .RxSO3 eps (X 0))).mulVec [a0, a1, a2, a3]) := by
  have hQ : LCurve 4 (fun t => [nth (X t) 0, nth (X t) 1, nth (X t) 2, nth (X t) 3])
      (liftG .SO3 ((fun t => [nth (X t) 0, nth (X t) 1, nth (X t) 2, nth (X t) 3]) 0) [a0, a1, a2]) := by
    intro j hj
    have := hX j (by omega)
    interval_cases j <;>
      simpa [liftG, liftQ, qt, v3, Quat.toList] using this
  have hrot := SO3Log_tangent_identity eps heps (fun t => [nth (X t) 0, nth (X t) 1, nth (X t) 2, nth (X t) 3]) a0 a1 a2 hQ
    (by simpa [qt, Quat.vec] using hv) (by simpa using hw)
  have h4 := hX 4 (by norm_num)
  intro i hi
  by_cases h3 : i < 3
  · have := hrot i h3
    have e1 : (fun t => nth (logF .RxSO3 eps (X t)) i) = fun t => nth (logF .SO3 eps [nth (X t) 0, nth (X t) 1, nth (X t) 2, nth (X t) 3]) i := by
      funext t
      interval_cases i <;> simp [logF, RxSO3Log, rxso3.toList, toRx, Vec3.toList, qt]
    have e2 : nth ((JlInvMat .RxSO3 eps (logF .RxSO3 eps (X 0))).mulVec [a0, a1, a2, a3]) i
        = nth ((JlInvMat .SO3 eps (logF .SO3 eps ((fun t => [nth (X t) 0, nth (X t) 1, nth (X t) 2, nth (X t) 3]) 0))).mulVec [a0, a1, a2]) i := by
      interval_cases i <;>
        simp [logF, RxSO3Log, JlInvMat, rxso3JlInv, rxso3.toList, toRx, torx, Vec3.toList, v3, qt, DMat.block,
          DMat.hcat, DMat.vcat, DMat.zero, DVec.zero, Mat3.toRows, DMat.mulVec, ddot_cons]
    rw [e1, e2]; exact this
  · have hi3 : i = 3 := by omega
    subst hi3
    have e1 : (fun t => nth (logF .RxSO3 eps (X t)) 3) = fun t => Real.log (nth (X t) 4) := by
      funext t; simp [logF, RxSO3Log, rxso3.toList, toRx, Vec3.toList]
    rw [e1]
    have hs : nth (X 0) 4 ≠ 0 := ne_of_gt hs
    refine (h4.log hs).congr_deriv ?_
    simp [liftG, logF, RxSO3Log, JlInvMat, rxso3JlInv, rxso3.toList, toRx, torx, Vec3.toList, Quat.toList, DMat.block,
      DMat.hcat, DMat.vcat, DMat.zero, DVec.zero, Mat3.toRows, DMat.mulVec, ddot_cons]
    field_simp
end PP.AD
