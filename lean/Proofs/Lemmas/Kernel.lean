import Proofs.Real
import Pose.Model.Kernel
import Mathlib.Analysis.SpecialFunctions.Sqrt
import Mathlib.Analysis.SpecialFunctions.Log.Deriv
import Mathlib.Analysis.SpecialFunctions.ExpDeriv
import Mathlib.Analysis.SpecialFunctions.Trigonometric.ArctanDeriv
import Mathlib.Analysis.Calculus.Deriv.Inv
import Mathlib.Tactic.Ring
import Mathlib.Tactic.Linarith
import Mathlib.Tactic.FieldSimp
import Mathlib.Tactic.Positivity
import Mathlib.Topology.Algebra.Order.LiminfLimsup
import Mathlib.Analysis.SpecialFunctions.Trigonometric.Bounds
/-!
# Helper lemmas for the kernel part of C09: the kernels of `Pose/Model/Kernel.lean` at `α = ℝ`
(closed forms, monotonicity, first and second derivatives, signs)
-/
namespace PP.Kernel

theorem ok_real (x : ℝ) : ok x = decide (0 ≤ x) := by
  unfold ok; simp only [le_real, k_real, Nat.cast_zero]

theorem guarded_nonneg (f : ℝ → ℝ) {x : ℝ} (h : 0 ≤ x) : guarded f x = some (f x) := by
  unfold guarded; rw [ok_real]; simp [h]

theorem guarded_neg (f : ℝ → ℝ) {x : ℝ} (h : x < 0) : guarded f x = none := by
  unfold guarded; rw [ok_real]; simp [not_le.mpr h]

/-! ### Huber -/
theorem huberV_real (δ x : ℝ) :
    huberV δ x = if Real.sqrt x < δ then x else 2 * δ * Real.sqrt x - δ * δ := by
  unfold huberV
  simp only [lt_real, sqrt_real, k_real, Nat.cast_ofNat, decide_eq_true_eq]

theorem huberD1_real (δ x : ℝ) :
    huberD1 δ x = if Real.sqrt x < δ then 1 else δ / Real.sqrt x := by
  unfold huberD1
  simp only [lt_real, sqrt_real, k_real, Nat.cast_one, decide_eq_true_eq]

theorem huberD2_real (δ x : ℝ) :
    huberD2 δ x = if Real.sqrt x < δ then 0 else -(δ / (2 * (x * Real.sqrt x))) := by
  unfold huberD2
  simp only [lt_real, sqrt_real, k_real, Nat.cast_zero, Nat.cast_ofNat, decide_eq_true_eq]

theorem sqrt_lt_iff {δ x : ℝ} (hδ : 0 < δ) : Real.sqrt x < δ ↔ x < δ * δ := by
  rw [Real.sqrt_lt' hδ, pow_two]

theorem huberV_lower {δ x : ℝ} (hδ : 0 < δ) (h : x < δ * δ) : huberV δ x = x := by
  rw [huberV_real, if_pos ((sqrt_lt_iff hδ).mpr h)]

theorem huberV_upper {δ x : ℝ} (hδ : 0 < δ) (h : δ * δ ≤ x) :
    huberV δ x = 2 * δ * Real.sqrt x - δ * δ := by
  rw [huberV_real, if_neg (by rw [sqrt_lt_iff hδ]; exact not_lt.mpr h)]

theorem huberV_zero {δ : ℝ} (hδ : 0 < δ) : huberV δ 0 = 0 := huberV_lower hδ (by positivity)

theorem huberV_threshold {δ : ℝ} (hδ : 0 < δ) : huberV δ (δ * δ) = δ * δ := by
  rw [huberV_upper hδ le_rfl, Real.sqrt_mul_self hδ.le]; ring

theorem huberV_mono {δ x y : ℝ} (hδ : 0 < δ) (hxy : x ≤ y) : huberV δ x ≤ huberV δ y := by
  by_cases hx : x < δ * δ
  · by_cases hy : y < δ * δ
    · rw [huberV_lower hδ hx, huberV_lower hδ hy]; exact hxy
    · have hy' := not_lt.mp hy
      rw [huberV_lower hδ hx, huberV_upper hδ hy']
      have : δ ≤ Real.sqrt y := by
        rw [← Real.sqrt_mul_self hδ.le]; exact Real.sqrt_le_sqrt hy'
      nlinarith
  · have hx' := not_lt.mp hx
    have hy' : δ * δ ≤ y := le_trans hx' hxy
    rw [huberV_upper hδ hx', huberV_upper hδ hy']
    have := Real.sqrt_le_sqrt hxy
    nlinarith


/-- derivative of the upper Huber branch `2δ√x − δ²` -/
theorem huber_upper_hasDerivAt (δ : ℝ) {x : ℝ} (hx : 0 < x) :
    HasDerivAt (fun y => 2 * δ * Real.sqrt y - δ * δ) (δ / Real.sqrt x) x := by
  have h := ((Real.hasDerivAt_sqrt hx.ne').const_mul (2 * δ)).sub_const (δ * δ)
  refine h.congr_deriv ?_
  have : Real.sqrt x ≠ 0 := (Real.sqrt_pos.mpr hx).ne'
  field_simp

theorem huber_hasDerivAt_lower {δ x : ℝ} (hδ : 0 < δ) (h : x < δ * δ) :
    HasDerivAt (huberV δ) (huberD1 δ x) x := by
  have h1 : huberD1 δ x = 1 := by rw [huberD1_real, if_pos ((sqrt_lt_iff hδ).mpr h)]
  rw [h1]
  refine (hasDerivAt_id x).congr_of_eventuallyEq ?_
  filter_upwards [Iio_mem_nhds h] with y hy
  exact huberV_lower hδ hy

theorem huber_hasDerivAt_upper {δ x : ℝ} (hδ : 0 < δ) (h : δ * δ < x) :
    HasDerivAt (huberV δ) (huberD1 δ x) x := by
  have hx : 0 < x := lt_trans (by positivity) h
  have h1 : huberD1 δ x = δ / Real.sqrt x := by
    rw [huberD1_real, if_neg (by rw [sqrt_lt_iff hδ]; exact not_lt.mpr h.le)]
  rw [h1]
  refine (huber_upper_hasDerivAt δ hx).congr_of_eventuallyEq ?_
  filter_upwards [Ioi_mem_nhds h] with y hy
  exact huberV_upper hδ (le_of_lt hy)

/-- at the threshold itself the two one-sided derivatives agree (both are 1): Huber is C¹ there -/
theorem huber_hasDerivAt_threshold {δ : ℝ} (hδ : 0 < δ) :
    HasDerivAt (huberV δ) (huberD1 δ (δ * δ)) (δ * δ) := by
  have hx : 0 < δ * δ := by positivity
  have h1 : huberD1 δ (δ * δ) = 1 := by
    rw [huberD1_real, if_neg (by rw [sqrt_lt_iff hδ]; exact lt_irrefl _), Real.sqrt_mul_self hδ.le]
    exact div_self hδ.ne'
  rw [h1]
  have hl : HasDerivWithinAt (huberV δ) 1 (Set.Iic (δ * δ)) (δ * δ) := by
    refine ((hasDerivAt_id (δ * δ)).hasDerivWithinAt).congr ?_ ?_
    · intro y hy
      rcases lt_or_eq_of_le (Set.mem_Iic.mp hy) with h | h
      · exact huberV_lower hδ h
      · rw [h]; exact huberV_threshold hδ
    · exact huberV_threshold hδ
  have hu : HasDerivWithinAt (huberV δ) 1 (Set.Ici (δ * δ)) (δ * δ) := by
    have h := (huber_upper_hasDerivAt δ hx).hasDerivWithinAt (s := Set.Ici (δ * δ))
    rw [Real.sqrt_mul_self hδ.le, div_self hδ.ne'] at h
    refine h.congr ?_ ?_
    · intro y hy; exact huberV_upper hδ (Set.mem_Ici.mp hy)
    · exact huberV_upper hδ le_rfl
  have := hl.union hu
  rwa [Set.Iic_union_Ici, hasDerivWithinAt_univ] at this

/-- `ρ'` of Huber in a form that shows its continuity: `δ / max δ √x` -/
theorem huberD1_eq_div_max {δ : ℝ} (hδ : 0 < δ) (x : ℝ) : huberD1 δ x = δ / max δ (Real.sqrt x) := by
  rw [huberD1_real]
  by_cases h : Real.sqrt x < δ
  · rw [if_pos h, max_eq_left h.le, div_self hδ.ne']
  · rw [if_neg h, max_eq_right (not_lt.mp h)]

theorem huberD1_continuous {δ : ℝ} (hδ : 0 < δ) : Continuous (huberD1 δ) := by
  have : huberD1 δ = fun x => δ / max δ (Real.sqrt x) := funext (huberD1_eq_div_max hδ)
  rw [this]
  refine continuous_const.div (continuous_const.max Real.continuous_sqrt) ?_
  intro x
  exact (lt_of_lt_of_le hδ (le_max_left _ _)).ne'

theorem huberV_continuous {δ : ℝ} (hδ : 0 < δ) : Continuous (huberV δ) := by
  have : huberV δ = fun x => if δ ≤ Real.sqrt x then 2 * δ * Real.sqrt x - δ * δ else x := by
    funext x
    rw [huberV_real]
    by_cases h : Real.sqrt x < δ
    · rw [if_pos h, if_neg (not_le.mpr h)]
    · rw [if_neg h, if_pos (not_lt.mp h)]
  rw [this]
  refine Continuous.if_le (by fun_prop) continuous_id continuous_const Real.continuous_sqrt ?_
  intro x hx
  have hx0 : 0 ≤ x := by
    by_contra hneg
    rw [Real.sqrt_eq_zero_of_nonpos (le_of_lt (not_le.mp hneg))] at hx
    exact hδ.ne' hx
  rw [← hx]
  nlinarith [Real.mul_self_sqrt hx0]


/-! ### PseudoHuber -/
theorem pseudoHuberV_real (δ x : ℝ) :
    pseudoHuberV δ x = 2 * (δ * δ) * (Real.sqrt (x / (δ * δ) + 1) - 1) := by
  unfold pseudoHuberV; simp only [sqrt_real, k_real, Nat.cast_ofNat, Nat.cast_one]
theorem pseudoHuberD1_real (δ x : ℝ) : pseudoHuberD1 δ x = 1 / Real.sqrt (x / (δ * δ) + 1) := by
  unfold pseudoHuberD1; simp only [sqrt_real, k_real, Nat.cast_one]
theorem pseudoHuberD2_real (δ x : ℝ) :
    pseudoHuberD2 δ x = -(1 / (2 * (δ * δ) * ((x / (δ * δ) + 1) * Real.sqrt (x / (δ * δ) + 1)))) := by
  unfold pseudoHuberD2; simp only [sqrt_real, k_real, Nat.cast_ofNat, Nat.cast_one]

theorem ph_arg_pos {δ x : ℝ} (hδ : 0 < δ) (hx : 0 ≤ x) : 0 < x / (δ * δ) + 1 := by positivity

theorem pseudoHuberV_zero (δ : ℝ) : pseudoHuberV δ 0 = 0 := by
  rw [pseudoHuberV_real]; simp

theorem pseudoHuberV_mono {δ x y : ℝ} (hδ : 0 < δ) (hxy : x ≤ y) :
    pseudoHuberV δ x ≤ pseudoHuberV δ y := by
  rw [pseudoHuberV_real, pseudoHuberV_real]
  have h2 : 0 < δ * δ := by positivity
  have : Real.sqrt (x / (δ * δ) + 1) ≤ Real.sqrt (y / (δ * δ) + 1) := by
    apply Real.sqrt_le_sqrt
    have := div_le_div_of_nonneg_right hxy h2.le
    linarith
  nlinarith

theorem pseudoHuber_hasDerivAt {δ x : ℝ} (hδ : 0 < δ) (hx : 0 ≤ x) :
    HasDerivAt (pseudoHuberV δ) (pseudoHuberD1 δ x) x := by
  have hu := ph_arg_pos hδ hx
  have h2 : δ * δ ≠ 0 := by positivity
  have harg : HasDerivAt (fun y : ℝ => y / (δ * δ) + 1) (1 / (δ * δ)) x := by
    simpa using ((hasDerivAt_id x).div_const (δ * δ)).add_const 1
  have h := ((harg.sqrt hu.ne').sub_const 1).const_mul (2 * (δ * δ))
  have hf : pseudoHuberV δ = fun y => 2 * (δ * δ) * (Real.sqrt (y / (δ * δ) + 1) - 1) :=
    funext (pseudoHuberV_real δ)
  rw [hf, pseudoHuberD1_real]
  refine h.congr_deriv ?_
  have : Real.sqrt (x / (δ * δ) + 1) ≠ 0 := (Real.sqrt_pos.mpr hu).ne'
  field_simp


/-! ### Cauchy -/
theorem cauchyV_real (δ x : ℝ) : cauchyV δ x = (δ * δ) * Real.log (x / (δ * δ) + 1) := by
  unfold cauchyV; simp only [log_real, k_real, Nat.cast_one]
theorem cauchyD1_real (δ x : ℝ) : cauchyD1 δ x = 1 / (x / (δ * δ) + 1) := by
  unfold cauchyD1; simp only [k_real, Nat.cast_one]
theorem cauchyD2_real (δ x : ℝ) :
    cauchyD2 δ x = -(1 / ((δ * δ) * ((x / (δ * δ) + 1) * (x / (δ * δ) + 1)))) := by
  unfold cauchyD2; simp only [k_real, Nat.cast_one]

theorem cauchyV_zero (δ : ℝ) : cauchyV δ 0 = 0 := by rw [cauchyV_real]; simp

theorem cauchyV_mono {δ x y : ℝ} (hδ : 0 < δ) (hx : 0 ≤ x) (hxy : x ≤ y) : cauchyV δ x ≤ cauchyV δ y := by
  rw [cauchyV_real, cauchyV_real]
  have h2 : 0 < δ * δ := by positivity
  have hu : 0 < x / (δ * δ) + 1 := by positivity
  have : Real.log (x / (δ * δ) + 1) ≤ Real.log (y / (δ * δ) + 1) := by
    apply Real.log_le_log hu
    have := div_le_div_of_nonneg_right hxy h2.le
    linarith
  nlinarith

theorem cauchy_hasDerivAt {δ x : ℝ} (hδ : 0 < δ) (hx : 0 ≤ x) : HasDerivAt (cauchyV δ) (cauchyD1 δ x) x := by
  have hu : 0 < x / (δ * δ) + 1 := by positivity
  have harg : HasDerivAt (fun y : ℝ => y / (δ * δ) + 1) (1 / (δ * δ)) x := by
    simpa using ((hasDerivAt_id x).div_const (δ * δ)).add_const 1
  have h := (harg.log hu.ne').const_mul (δ * δ)
  have hf : cauchyV δ = fun y => (δ * δ) * Real.log (y / (δ * δ) + 1) := funext (cauchyV_real δ)
  rw [hf, cauchyD1_real]
  refine h.congr_deriv ?_
  have h2 : δ * δ ≠ 0 := by positivity
  field_simp

theorem cauchy_hasDerivAt2 {δ x : ℝ} (hδ : 0 < δ) (hx : 0 ≤ x) : HasDerivAt (cauchyD1 δ) (cauchyD2 δ x) x := by
  have hu : 0 < x / (δ * δ) + 1 := by positivity
  have harg : HasDerivAt (fun y : ℝ => y / (δ * δ) + 1) (1 / (δ * δ)) x := by
    simpa using ((hasDerivAt_id x).div_const (δ * δ)).add_const 1
  have h := harg.inv hu.ne'
  have hf : cauchyD1 δ = fun y => (y / (δ * δ) + 1)⁻¹ := by
    funext y; rw [cauchyD1_real, one_div]
  rw [hf, cauchyD2_real]
  refine h.congr_deriv ?_
  have h2 : δ * δ ≠ 0 := by positivity
  field_simp

/-! ### SoftLOne -/
theorem softLOneV_real (δ x : ℝ) : softLOneV δ x = 2 * (δ * Real.sqrt (1 / (δ * δ) + x) - 1) := by
  unfold softLOneV; simp only [sqrt_real, k_real, Nat.cast_ofNat, Nat.cast_one]
theorem softLOneD1_real (δ x : ℝ) : softLOneD1 δ x = δ / Real.sqrt (1 / (δ * δ) + x) := by
  unfold softLOneD1; simp only [sqrt_real, k_real, Nat.cast_one]
theorem softLOneD2_real (δ x : ℝ) :
    softLOneD2 δ x = -(δ / (2 * ((1 / (δ * δ) + x) * Real.sqrt (1 / (δ * δ) + x)))) := by
  unfold softLOneD2; simp only [sqrt_real, k_real, Nat.cast_ofNat, Nat.cast_one]

theorem softLOneV_zero {δ : ℝ} (hδ : 0 < δ) : softLOneV δ 0 = 0 := by
  rw [softLOneV_real, add_zero]
  have : Real.sqrt (1 / (δ * δ)) = 1 / δ := by
    rw [show 1 / (δ * δ) = (1 / δ) * (1 / δ) by field_simp]
    exact Real.sqrt_mul_self (by positivity)
  rw [this]; field_simp; ring

theorem softLOneV_mono {δ x y : ℝ} (hδ : 0 < δ) (hxy : x ≤ y) : softLOneV δ x ≤ softLOneV δ y := by
  rw [softLOneV_real, softLOneV_real]
  have : Real.sqrt (1 / (δ * δ) + x) ≤ Real.sqrt (1 / (δ * δ) + y) := Real.sqrt_le_sqrt (by linarith)
  nlinarith

theorem softLOne_hasDerivAt {δ x : ℝ} (hδ : 0 < δ) (hx : 0 ≤ x) :
    HasDerivAt (softLOneV δ) (softLOneD1 δ x) x := by
  have hu : 0 < 1 / (δ * δ) + x := by positivity
  have harg : HasDerivAt (fun y : ℝ => 1 / (δ * δ) + y) 1 x := by
    simpa using (hasDerivAt_id x).const_add (1 / (δ * δ))
  have h := (((harg.sqrt hu.ne').const_mul δ).sub_const 1).const_mul 2
  have hf : softLOneV δ = fun y => 2 * (δ * Real.sqrt (1 / (δ * δ) + y) - 1) := funext (softLOneV_real δ)
  rw [hf, softLOneD1_real]
  refine h.congr_deriv ?_
  have : Real.sqrt (1 / (δ * δ) + x) ≠ 0 := (Real.sqrt_pos.mpr hu).ne'
  field_simp

/-! ### Arctan -/
theorem arctanV_real (δ x : ℝ) : arctanV δ x = (δ * δ) * Real.arctan (x / (δ * δ)) := by
  unfold arctanV; simp only [atan_real]
theorem arctanD1_real (δ x : ℝ) : arctanD1 δ x = 1 / (1 + (x / (δ * δ)) * (x / (δ * δ))) := by
  unfold arctanD1; simp only [k_real, Nat.cast_one]
theorem arctanD2_real (δ x : ℝ) :
    arctanD2 δ x = -(2 * (x / (δ * δ)) /
      ((δ * δ) * ((1 + (x / (δ * δ)) * (x / (δ * δ))) * (1 + (x / (δ * δ)) * (x / (δ * δ)))))) := by
  unfold arctanD2; simp only [k_real, Nat.cast_ofNat, Nat.cast_one]

theorem arctanV_zero (δ : ℝ) : arctanV δ 0 = 0 := by rw [arctanV_real]; simp

theorem arctanV_mono {δ x y : ℝ} (hδ : δ ≠ 0) (hxy : x ≤ y) : arctanV δ x ≤ arctanV δ y := by
  rw [arctanV_real, arctanV_real]
  have h2 : 0 < δ * δ := mul_self_pos.mpr hδ
  have : Real.arctan (x / (δ * δ)) ≤ Real.arctan (y / (δ * δ)) :=
    Real.arctan_strictMono.monotone (div_le_div_of_nonneg_right hxy h2.le)
  nlinarith

theorem arctan_hasDerivAt {δ : ℝ} (hδ : δ ≠ 0) (x : ℝ) : HasDerivAt (arctanV δ) (arctanD1 δ x) x := by
  have h2 : δ * δ ≠ 0 := by positivity
  have harg : HasDerivAt (fun y : ℝ => y / (δ * δ)) (1 / (δ * δ)) x := by
    simpa using (hasDerivAt_id x).div_const (δ * δ)
  have h := harg.arctan.const_mul (δ * δ)
  have hf : arctanV δ = fun y => (δ * δ) * Real.arctan (y / (δ * δ)) := funext (arctanV_real δ)
  rw [hf, arctanD1_real]
  refine h.congr_deriv ?_
  have : 1 + (x / (δ * δ)) ^ 2 ≠ 0 := by positivity
  field_simp


/-! ### Tolerant -/
theorem tolerantV_real (a b x : ℝ) :
    tolerantV a b x = b * Real.log (1 + Real.exp ((x - a) / b)) - b * Real.log (1 + Real.exp ((-a) / b)) := by
  unfold tolerantV; simp only [log_real, exp_real, k_real, Nat.cast_one]
theorem tolerantD1_real (a b x : ℝ) :
    tolerantD1 a b x = Real.exp ((x - a) / b) / (1 + Real.exp ((x - a) / b)) := by
  unfold tolerantD1; simp only [exp_real, k_real, Nat.cast_one]
theorem tolerantD2_real (a b x : ℝ) :
    tolerantD2 a b x = Real.exp ((x - a) / b) /
      (b * ((1 + Real.exp ((x - a) / b)) * (1 + Real.exp ((x - a) / b)))) := by
  unfold tolerantD2; simp only [exp_real, k_real, Nat.cast_one]

theorem tolerantV_zero (a b : ℝ) : tolerantV a b 0 = 0 := by
  rw [tolerantV_real, zero_sub]; ring

theorem tolerantV_mono {a b x y : ℝ} (hb : b < 0) (hxy : x ≤ y) : tolerantV a b x ≤ tolerantV a b y := by
  rw [tolerantV_real, tolerantV_real]
  have h1 : (y - a) / b ≤ (x - a) / b := div_le_div_of_nonpos_of_le hb.le (by linarith)
  have h2 : Real.exp ((y - a) / b) ≤ Real.exp ((x - a) / b) := Real.exp_le_exp.mpr h1
  have h3 : Real.log (1 + Real.exp ((y - a) / b)) ≤ Real.log (1 + Real.exp ((x - a) / b)) :=
    Real.log_le_log (by positivity) (by linarith)
  nlinarith

theorem tolerant_hasDerivAt {a b : ℝ} (hb : b ≠ 0) (x : ℝ) :
    HasDerivAt (tolerantV a b) (tolerantD1 a b x) x := by
  have harg : HasDerivAt (fun y : ℝ => (y - a) / b) (1 / b) x := by
    simpa using ((hasDerivAt_id x).sub_const a).div_const b
  have hpos : (1 + Real.exp ((x - a) / b)) ≠ 0 := by positivity
  have h := (((harg.exp.const_add 1).log hpos).const_mul b).sub_const (b * Real.log (1 + Real.exp ((-a) / b)))
  have hf : tolerantV a b = fun y =>
      b * Real.log (1 + Real.exp ((y - a) / b)) - b * Real.log (1 + Real.exp ((-a) / b)) :=
    funext (tolerantV_real a b)
  rw [hf, tolerantD1_real]
  refine h.congr_deriv ?_
  field_simp

theorem tolerant_hasDerivAt2 {a b : ℝ} (hb : b ≠ 0) (x : ℝ) :
    HasDerivAt (tolerantD1 a b) (tolerantD2 a b x) x := by
  have harg : HasDerivAt (fun y : ℝ => (y - a) / b) (1 / b) x := by
    simpa using ((hasDerivAt_id x).sub_const a).div_const b
  have hpos : (1 + Real.exp ((x - a) / b)) ≠ 0 := by positivity
  have h := harg.exp.div (harg.exp.const_add 1) hpos
  have hf : tolerantD1 a b = fun y => Real.exp ((y - a) / b) / (1 + Real.exp ((y - a) / b)) :=
    funext (tolerantD1_real a b)
  rw [hf, tolerantD2_real]
  refine h.congr_deriv ?_
  field_simp
  ring

/-! ### Scale and the polynomial user family -/
theorem scaleV_real (δ x : ℝ) : scaleV δ x = δ * x := rfl
theorem scaleD1_real (δ x : ℝ) : scaleD1 δ x = δ := rfl
theorem scaleD2_real (δ x : ℝ) : scaleD2 δ x = 0 := by unfold scaleD2; simp only [k_real, Nat.cast_zero]

theorem scale_hasDerivAt (δ x : ℝ) : HasDerivAt (scaleV δ) (scaleD1 δ x) x := by
  have h := (hasDerivAt_id x).const_mul δ
  have hf : scaleV δ = fun y => δ * y := rfl
  rw [hf, scaleD1_real]
  simpa using h

theorem polyV_real (c1 c2 c3 x : ℝ) : polyV c1 c2 c3 x = c1 * x + c2 * (x * x) + c3 * (x * x * x) := rfl
theorem polyD1_real (c1 c2 c3 x : ℝ) : polyD1 c1 c2 c3 x = c1 + 2 * c2 * x + 3 * c3 * (x * x) := by
  unfold polyD1; simp only [k_real, Nat.cast_ofNat]
theorem polyD2_real (c1 c2 c3 x : ℝ) : polyD2 c1 c2 c3 x = 2 * c2 + 6 * c3 * x := by
  unfold polyD2; simp only [k_real, Nat.cast_ofNat]

theorem poly_hasDerivAt (c1 c2 c3 x : ℝ) : HasDerivAt (polyV c1 c2 c3) (polyD1 c1 c2 c3 x) x := by
  have hid := hasDerivAt_id x
  have h := ((hid.const_mul c1).add ((hid.mul hid).const_mul c2)).add (((hid.mul hid).mul hid).const_mul c3)
  rw [polyD1_real]
  refine h.congr_deriv ?_
  simp only [id, Pi.mul_apply]; ring

theorem poly_hasDerivAt2 (c1 c2 c3 x : ℝ) : HasDerivAt (polyD1 c1 c2 c3) (polyD2 c1 c2 c3 x) x := by
  have hid := hasDerivAt_id x
  have h := ((hid.const_mul (2 * c2)).const_add c1).add ((hid.mul hid).const_mul (3 * c3))
  have hf : polyD1 c1 c2 c3 = fun y => c1 + 2 * c2 * y + 3 * c3 * (y * y) := funext (polyD1_real c1 c2 c3)
  rw [hf, polyD2_real]
  refine h.congr_deriv ?_
  simp only [id]; ring


/-! ### second derivatives -/

theorem div_sqrt_hasDerivAt (δ : ℝ) {x : ℝ} (hx : 0 < x) :
    HasDerivAt (fun y => δ / Real.sqrt y) (-(δ / (2 * (x * Real.sqrt x)))) x := by
  have hs : Real.sqrt x ≠ 0 := (Real.sqrt_pos.mpr hx).ne'
  have h := ((Real.hasDerivAt_sqrt hx.ne').inv hs).const_mul δ
  have hf : (fun y => δ / Real.sqrt y) = fun y => δ * (Real.sqrt y)⁻¹ := by
    funext y; rw [div_eq_mul_inv]
  rw [hf]
  refine h.congr_deriv ?_
  have hsq : Real.sqrt x ^ 2 = x := Real.sq_sqrt hx.le
  field_simp
  rw [hsq]

theorem huber_hasDerivAt2_lower {δ x : ℝ} (hδ : 0 < δ) (h : x < δ * δ) :
    HasDerivAt (huberD1 δ) (huberD2 δ x) x := by
  have h2 : huberD2 δ x = 0 := by rw [huberD2_real, if_pos ((sqrt_lt_iff hδ).mpr h)]
  rw [h2]
  refine (hasDerivAt_const x (1:ℝ)).congr_of_eventuallyEq ?_
  filter_upwards [Iio_mem_nhds h] with y hy
  rw [huberD1_real, if_pos ((sqrt_lt_iff hδ).mpr hy)]

theorem huber_hasDerivAt2_upper {δ x : ℝ} (hδ : 0 < δ) (h : δ * δ < x) :
    HasDerivAt (huberD1 δ) (huberD2 δ x) x := by
  have hx : 0 < x := lt_trans (by positivity) h
  have h2 : huberD2 δ x = -(δ / (2 * (x * Real.sqrt x))) := by
    rw [huberD2_real, if_neg (by rw [sqrt_lt_iff hδ]; exact not_lt.mpr h.le)]
  rw [h2]
  refine (div_sqrt_hasDerivAt δ hx).congr_of_eventuallyEq ?_
  filter_upwards [Ioi_mem_nhds h] with y hy
  rw [huberD1_real, if_neg (by rw [sqrt_lt_iff hδ]; exact not_lt.mpr (le_of_lt hy))]

theorem pseudoHuber_hasDerivAt2 {δ x : ℝ} (hδ : 0 < δ) (hx : 0 ≤ x) :
    HasDerivAt (pseudoHuberD1 δ) (pseudoHuberD2 δ x) x := by
  have hu : 0 < x / (δ * δ) + 1 := by positivity
  have h2 : δ * δ ≠ 0 := by positivity
  have harg : HasDerivAt (fun y : ℝ => y / (δ * δ) + 1) (1 / (δ * δ)) x := by
    simpa using ((hasDerivAt_id x).div_const (δ * δ)).add_const 1
  have h := (div_sqrt_hasDerivAt 1 hu).comp x harg
  have hf : pseudoHuberD1 δ = (fun y => 1 / Real.sqrt y) ∘ (fun y : ℝ => y / (δ * δ) + 1) := by
    funext y; rw [pseudoHuberD1_real]; rfl
  rw [hf, pseudoHuberD2_real]
  refine h.congr_deriv ?_
  have : Real.sqrt (x / (δ * δ) + 1) ≠ 0 := (Real.sqrt_pos.mpr hu).ne'
  field_simp

theorem softLOne_hasDerivAt2 {δ x : ℝ} (hδ : 0 < δ) (hx : 0 ≤ x) :
    HasDerivAt (softLOneD1 δ) (softLOneD2 δ x) x := by
  have hu : 0 < 1 / (δ * δ) + x := by positivity
  have harg : HasDerivAt (fun y : ℝ => 1 / (δ * δ) + y) 1 x := by
    simpa using (hasDerivAt_id x).const_add (1 / (δ * δ))
  have h := (div_sqrt_hasDerivAt δ hu).comp x harg
  have hf : softLOneD1 δ = (fun y => δ / Real.sqrt y) ∘ (fun y : ℝ => 1 / (δ * δ) + y) := by
    funext y; rw [softLOneD1_real]; rfl
  rw [hf, softLOneD2_real]
  refine h.congr_deriv ?_
  ring

theorem arctan_hasDerivAt2 {δ : ℝ} (hδ : δ ≠ 0) (x : ℝ) : HasDerivAt (arctanD1 δ) (arctanD2 δ x) x := by
  have h2 : δ * δ ≠ 0 := mul_self_ne_zero.mpr hδ
  have harg : HasDerivAt (fun y : ℝ => y / (δ * δ)) (1 / (δ * δ)) x := by
    simpa using (hasDerivAt_id x).div_const (δ * δ)
  have hden : (1 + (x / (δ * δ)) * (x / (δ * δ))) ≠ 0 := by
    have := mul_self_nonneg (x / (δ * δ)); linarith
  have h := ((harg.mul harg).const_add 1).inv hden
  have hf : arctanD1 δ = fun y => (1 + (y / (δ * δ)) * (y / (δ * δ)))⁻¹ := by
    funext y; rw [arctanD1_real, one_div]
  rw [hf, arctanD2_real]
  refine h.congr_deriv ?_
  simp only [Pi.mul_apply]
  have hden2 : δ ^ 4 + x ^ 2 ≠ 0 := by positivity
  field_simp
  ring


/-! ### signs of `ρ'`, `ρ''` -/
theorem huberD1_pos {δ : ℝ} (hδ : 0 < δ) (x : ℝ) : 0 < huberD1 δ x := by
  rw [huberD1_real]
  by_cases h : Real.sqrt x < δ
  · rw [if_pos h]; exact one_pos
  · rw [if_neg h]; exact div_pos hδ (lt_of_lt_of_le hδ (not_lt.mp h))

theorem huberD1_le_one {δ : ℝ} (hδ : 0 < δ) (x : ℝ) : huberD1 δ x ≤ 1 := by
  rw [huberD1_real]
  by_cases h : Real.sqrt x < δ
  · rw [if_pos h]
  · rw [if_neg h]; exact (div_le_one (lt_of_lt_of_le hδ (not_lt.mp h))).mpr (not_lt.mp h)

theorem huberD2_nonpos {δ x : ℝ} (hδ : 0 < δ) (hx : 0 ≤ x) : huberD2 δ x ≤ 0 := by
  rw [huberD2_real]
  by_cases h : Real.sqrt x < δ
  · rw [if_pos h]
  · rw [if_neg h]
    have : 0 ≤ δ / (2 * (x * Real.sqrt x)) := by positivity
    linarith

theorem pseudoHuberD1_pos {δ x : ℝ} (hδ : 0 < δ) (hx : 0 ≤ x) : 0 < pseudoHuberD1 δ x := by
  rw [pseudoHuberD1_real]
  have hu : 0 < x / (δ * δ) + 1 := by positivity
  have := Real.sqrt_pos.mpr hu
  positivity

theorem pseudoHuberD2_nonpos {δ x : ℝ} (hδ : 0 < δ) (hx : 0 ≤ x) : pseudoHuberD2 δ x ≤ 0 := by
  rw [pseudoHuberD2_real]
  have : 0 ≤ 1 / (2 * (δ * δ) * ((x / (δ * δ) + 1) * Real.sqrt (x / (δ * δ) + 1))) := by positivity
  linarith

theorem cauchyD1_pos {δ x : ℝ} (hδ : 0 < δ) (hx : 0 ≤ x) : 0 < cauchyD1 δ x := by
  rw [cauchyD1_real]; positivity

theorem cauchyD2_nonpos {δ x : ℝ} (hδ : 0 < δ) (hx : 0 ≤ x) : cauchyD2 δ x ≤ 0 := by
  rw [cauchyD2_real]
  have : 0 ≤ 1 / ((δ * δ) * ((x / (δ * δ) + 1) * (x / (δ * δ) + 1))) := by positivity
  linarith

theorem softLOneD1_pos {δ x : ℝ} (hδ : 0 < δ) (hx : 0 ≤ x) : 0 < softLOneD1 δ x := by
  rw [softLOneD1_real]
  have hu : 0 < 1 / (δ * δ) + x := by positivity
  have := Real.sqrt_pos.mpr hu
  positivity

theorem softLOneD2_nonpos {δ x : ℝ} (hδ : 0 < δ) (hx : 0 ≤ x) : softLOneD2 δ x ≤ 0 := by
  rw [softLOneD2_real]
  have : 0 ≤ δ / (2 * ((1 / (δ * δ) + x) * Real.sqrt (1 / (δ * δ) + x))) := by positivity
  linarith

theorem arctanD1_pos (δ x : ℝ) : 0 < arctanD1 δ x := by
  rw [arctanD1_real]
  have := mul_self_nonneg (x / (δ * δ))
  positivity

theorem arctanD2_nonpos {δ x : ℝ} (hx : 0 ≤ x) : arctanD2 δ x ≤ 0 := by
  rw [arctanD2_real]
  have h2 : 0 ≤ δ * δ := mul_self_nonneg δ
  have : 0 ≤ 2 * (x / (δ * δ)) /
      ((δ * δ) * ((1 + (x / (δ * δ)) * (x / (δ * δ))) * (1 + (x / (δ * δ)) * (x / (δ * δ))))) := by positivity
  linarith

theorem tolerantD1_pos (a b x : ℝ) : 0 < tolerantD1 a b x := by
  rw [tolerantD1_real]; positivity

theorem tolerantD1_lt_one (a b x : ℝ) : tolerantD1 a b x < 1 := by
  rw [tolerantD1_real, div_lt_one (by positivity)]; linarith

theorem tolerantD2_nonpos {a b : ℝ} (hb : b < 0) (x : ℝ) : tolerantD2 a b x ≤ 0 := by
  rw [tolerantD2_real]
  apply div_nonpos_of_nonneg_of_nonpos (by positivity)
  have : 0 < (1 + Real.exp ((x - a) / b)) * (1 + Real.exp ((x - a) / b)) := by positivity
  nlinarith



/-! ### robust kernels never exceed the quadratic loss: `ρ(x) ≤ x` (SoftLOne: `≤ δ²x`) -/

theorem huberV_le_self (δ : ℝ) {x : ℝ} (hx : 0 ≤ x) : huberV δ x ≤ x := by
  rw [huberV_real]
  by_cases h : Real.sqrt x < δ
  · rw [if_pos h]
  · rw [if_neg h]
    nlinarith [sq_nonneg (Real.sqrt x - δ), Real.mul_self_sqrt hx]

theorem pseudoHuberV_le_self {δ x : ℝ} (hδ : 0 < δ) (hx : 0 ≤ x) : pseudoHuberV δ x ≤ x := by
  rw [pseudoHuberV_real]
  have h2 : 0 < δ * δ := by positivity
  set u := x / (δ * δ) with hu
  have hu0 : 0 ≤ u := by positivity
  have hs : Real.sqrt (u + 1) ≤ 1 + u / 2 := by
    rw [show 1 + u / 2 = Real.sqrt ((1 + u / 2) ^ 2) from (Real.sqrt_sq (by positivity)).symm]
    apply Real.sqrt_le_sqrt
    nlinarith [sq_nonneg u]
  have hx' : x = u * (δ * δ) := by rw [hu]; field_simp
  nlinarith

theorem cauchyV_le_self {δ x : ℝ} (hδ : 0 < δ) (hx : 0 ≤ x) : cauchyV δ x ≤ x := by
  rw [cauchyV_real]
  have h2 : 0 < δ * δ := by positivity
  set u := x / (δ * δ) with hu
  have hu0 : 0 ≤ u := by positivity
  have hl : Real.log (u + 1) ≤ u := by
    have := Real.log_le_sub_one_of_pos (show 0 < u + 1 by positivity)
    linarith
  have hx' : x = u * (δ * δ) := by rw [hu]; field_simp
  nlinarith

theorem scaleV_le_self {δ x : ℝ} (hδ1 : δ ≤ 1) (hx : 0 ≤ x) : scaleV δ x ≤ x := by
  rw [scaleV_real]; nlinarith

theorem tolerantV_le_self {a b x : ℝ} (hb : b < 0) (hx : 0 ≤ x) : tolerantV a b x ≤ x := by
  rw [tolerantV_real]
  -- ρ = b·(log(1+c q) − log(1+c)),  c = e^{−a/b}, q = e^{x/b} ≤ 1
  have hq : Real.exp ((x - a) / b) = Real.exp (-a / b) * Real.exp (x / b) := by
    rw [← Real.exp_add]; congr 1; field_simp; ring
  set c := Real.exp (-a / b) with hc
  set q := Real.exp (x / b) with hqd
  have hc0 : 0 < c := Real.exp_pos _
  have hq0 : 0 < q := Real.exp_pos _
  have hq1 : q ≤ 1 := by
    rw [hqd, ← Real.exp_zero]; apply Real.exp_le_exp.mpr
    exact div_nonpos_of_nonneg_of_nonpos hx hb.le
  rw [hq]
  -- x = b · log q
  have hxq : x = b * Real.log q := by rw [hqd, Real.log_exp]; field_simp [hb.ne]
  have key : Real.log (1 + c) - Real.log (1 + c * q) ≤ - Real.log q := by
    rw [← Real.log_inv, ← Real.log_div (by positivity) (by positivity)]
    apply Real.log_le_log (by positivity)
    rw [div_le_iff₀ (by positivity), inv_mul_eq_div, le_div_iff₀ hq0]
    nlinarith
  nlinarith

theorem arctanV_le_self {δ x : ℝ} (hδ : δ ≠ 0) (hx : 0 ≤ x) : arctanV δ x ≤ x := by
  rw [arctanV_real]
  have h2 : 0 < δ * δ := mul_self_pos.mpr hδ
  set w := x / (δ * δ) with hw
  have hw0 : 0 ≤ w := by positivity
  have h : Real.arctan w ≤ w := by
    have h1 : 0 ≤ Real.arctan w := Real.arctan_nonneg.mpr hw0
    have := Real.le_tan h1 (Real.arctan_lt_pi_div_two w)
    rwa [Real.tan_arctan] at this
  have hx' : x = w * (δ * δ) := by rw [hw]; field_simp
  nlinarith

theorem softLOneV_le {δ x : ℝ} (hδ : 0 < δ) (hx : 0 ≤ x) : softLOneV δ x ≤ δ * δ * x := by
  rw [softLOneV_real]
  have h2 : 0 < δ * δ := by positivity
  -- δ √(1/δ² + x) = √(1 + δ² x) ≤ 1 + δ² x / 2
  have hs : δ * Real.sqrt (1 / (δ * δ) + x) ≤ 1 + δ * δ * x / 2 := by
    have e : δ * Real.sqrt (1 / (δ * δ) + x) = Real.sqrt (1 + δ * δ * x) := by
      rw [show (1 + δ * δ * x) = (δ * δ) * (1 / (δ * δ) + x) by field_simp,
        Real.sqrt_mul h2.le, Real.sqrt_mul_self hδ.le]
    rw [e, show 1 + δ * δ * x / 2 = Real.sqrt ((1 + δ * δ * x / 2) ^ 2) from (Real.sqrt_sq (by positivity)).symm]
    apply Real.sqrt_le_sqrt
    nlinarith [sq_nonneg (δ * δ * x)]
  linarith


/-! ### pass 3: Tolerant as the code computes it (softplus with threshold 50) -/

theorem softplus50_real (z : ℝ) : softplus50 z = if 50 < z then z else Real.log (1 + Real.exp z) := by
  unfold softplus50; simp only [lt_real, log_real, exp_real, k_real, Nat.cast_ofNat, Nat.cast_one, decide_eq_true_eq]
theorem softplus50D1_real (z : ℝ) : softplus50D1 z = if 50 < z then 1 else Real.exp z / (1 + Real.exp z) := by
  unfold softplus50D1; simp only [lt_real, exp_real, k_real, Nat.cast_ofNat, Nat.cast_one, decide_eq_true_eq]
theorem softplus50D2_real (z : ℝ) :
    softplus50D2 z = if 50 < z then 0 else Real.exp z / ((1 + Real.exp z) * (1 + Real.exp z)) := by
  unfold softplus50D2; simp only [lt_real, exp_real, k_real, Nat.cast_ofNat, Nat.cast_one, Nat.cast_zero, decide_eq_true_eq]

/-- on the property's domain the argument of softplus never exceeds its threshold -/
theorem tolerant_arg_le {a b x : ℝ} (hb : b < 0) (hx : 0 ≤ x) (hdom : a ≤ 50 * (-b)) : (x - a) / b ≤ 50 := by
  rw [div_le_iff_of_neg hb]; nlinarith

theorem tolerantC_eq {a b x : ℝ} (hb : b < 0) (hx : 0 ≤ x) (hdom : a ≤ 50 * (-b)) :
    tolerantC a b x = tolerantV a b x ∧ tolerantCD1 a b x = tolerantD1 a b x ∧ tolerantCD2 a b x = tolerantD2 a b x := by
  have hu := not_lt.mpr (tolerant_arg_le hb hx hdom)
  refine ⟨?_, ?_, ?_⟩
  · unfold tolerantC; rw [softplus50_real, if_neg hu, tolerantV_real]
    simp only [log_real, exp_real, k_real, Nat.cast_one]
  · unfold tolerantCD1; rw [softplus50D1_real, if_neg hu, tolerantD1_real]
  · unfold tolerantCD2; rw [softplus50D2_real, if_neg hu, tolerantD2_real]
    have : (1 + Real.exp ((x - a) / b)) ≠ 0 := by positivity
    field_simp

/-- beyond the threshold (only reachable for `a/|b| > 50`) the code's value differs from the documented one by at most
`|b|·e⁻⁵⁰` -/
theorem tolerantC_error {a b x : ℝ} (hb : b < 0) (hu : 50 < (x - a) / b) :
    |tolerantC a b x - tolerantV a b x| ≤ -b * Real.exp (-50) := by
  set u := (x - a) / b with hud
  have e1 : tolerantC a b x - tolerantV a b x = -b * (Real.log (1 + Real.exp u) - u) := by
    unfold tolerantC; rw [softplus50_real, if_pos hu, tolerantV_real]
    simp only [log_real, exp_real, k_real, Nat.cast_one]; ring
  have h2 : Real.log (1 + Real.exp u) - u = Real.log (1 + Real.exp (-u)) := by
    have : (1 + Real.exp u) = Real.exp u * (1 + Real.exp (-u)) := by
      rw [mul_add, mul_one, ← Real.exp_add]; simp [add_comm]
    rw [this, Real.log_mul (Real.exp_pos u).ne' (by positivity), Real.log_exp]; ring
  have h3 : 0 ≤ Real.log (1 + Real.exp (-u)) := Real.log_nonneg (by linarith [Real.exp_pos (-u)])
  have h4 : Real.log (1 + Real.exp (-u)) ≤ Real.exp (-u) := by
    have := Real.log_le_sub_one_of_pos (show 0 < 1 + Real.exp (-u) by positivity); linarith
  have h5 : Real.exp (-u) ≤ Real.exp (-50) := Real.exp_le_exp.mpr (by linarith)
  rw [e1, h2, abs_of_nonneg (mul_nonneg (by linarith) h3)]
  exact mul_le_mul_of_nonneg_left (le_trans h4 h5) (by linarith)

/-- … and there the code's kernel is not zero at zero (this is why the property restricts `a/|b| ≤ 50`) -/
theorem tolerantC_zero_outside {a b : ℝ} (hb : b < 0) (hu : 50 < (0 - a) / b) : 0 < tolerantC a b 0 := by
  set u := (0 - a) / b with hud
  have e1 : tolerantC a b 0 = -b * (Real.log (1 + Real.exp u) - u) := by
    unfold tolerantC; rw [softplus50_real, if_pos hu]
    simp only [log_real, exp_real, k_real, Nat.cast_one]
    rw [show (-a) / b = u by rw [hud]; ring]; ring
  rw [e1]
  have : u < Real.log (1 + Real.exp u) := by
    calc u = Real.log (Real.exp u) := (Real.log_exp u).symm
      _ < Real.log (1 + Real.exp u) := Real.log_lt_log (Real.exp_pos u) (by linarith)
  exact mul_pos (by linarith) (by linarith)



/-! ### pass 3: constructor checks and the parameter domain of the property -/
theorem ctorOk_real (s : Spec ℝ) : s.ctorOk = true ↔
    (match s.kind with
     | .huber | .pseudoHuber | .cauchy | .softLOne => 0 < s.p1
     | .arctan => True
     | .tolerant => 0 < s.p1 ∧ s.p2 < 0
     | .scale => 0 < s.p1 ∧ s.p1 ≤ 1
     | .poly => True) := by
  unfold Spec.ctorOk
  cases s.kind <;> simp [lt_real, le_real, k_real]

/-- the parameter domain of the property: what the constructor accepts, plus `δ ≠ 0` for Arctan (which has no constructor
check) and `a/|b| ≤ 50` for Tolerant -/
def Spec.inDomain (s : Spec ℝ) : Prop :=
  s.kind ≠ Kind.poly ∧ s.ctorOk = true ∧ (s.kind = Kind.arctan → s.p1 ≠ 0) ∧ (s.kind = Kind.tolerant → s.p1 ≤ 50 * (-s.p2))



/-! ### moved from Props (audit): intermediates in their domains; kernels dominated by the quadratic loss -/
theorem kernels_domains {δ : ℝ} (hδ : 0 < δ) {a b : ℝ} (hb : b < 0) {x : ℝ} (hx : 0 ≤ x) :
    δ * δ ≠ 0 ∧ 0 ≤ x ∧                     -- Huber: √x
    0 < x / (δ * δ) + 1 ∧                    -- PseudoHuber radicand, Cauchy log argument
    0 < 1 / (δ * δ) + x ∧                    -- SoftLOne radicand
    b ≠ 0 ∧ 0 < 1 + Real.exp ((x - a) / b) ∧ 0 < 1 + Real.exp (-a / b) := by
  refine ⟨by positivity, hx, by positivity, by positivity, hb.ne, by positivity, by positivity⟩

/-- (beyond the property text) every kernel is dominated by the quadratic loss it robustifies:
`ρ(x) ≤ x` on `[0,∞)` (SoftLOne, whose documented form has slope `δ²` at 0: `ρ(x) ≤ δ²x`; Scale needs `δ ≤ 1`). -/
theorem kernels_le_quadratic {δ : ℝ} (hδ : 0 < δ) {a b : ℝ} (hb : b < 0) {x : ℝ} (hx : 0 ≤ x) :
    huberV δ x ≤ x ∧ pseudoHuberV δ x ≤ x ∧ cauchyV δ x ≤ x ∧ softLOneV δ x ≤ δ * δ * x ∧ arctanV δ x ≤ x ∧
    tolerantV a b x ≤ x ∧ (δ ≤ 1 → scaleV δ x ≤ x) :=
  ⟨huberV_le_self δ hx, pseudoHuberV_le_self hδ hx, cauchyV_le_self hδ hx, softLOneV_le hδ hx,
   arctanV_le_self hδ.ne' hx, tolerantV_le_self hb hx, fun h1 => scaleV_le_self h1 hx⟩

end PP.Kernel
