import Proofs.Lemmas.LogExp
import Proofs.Lemmas.LieDispatch
import Mathlib.Analysis.Real.Pi.Bounds
/-!
# C02 — Log is the principal inverse of Exp on all four groups

Statements are about the model of `pypose/lietensor/operation.py` (`Pose/Model/Lie.lean`, compositions in
`Pose/Model/LogExp.lean`) at `α = ℝ`.  `eps` is the dtype's machine epsilon used by the code's branch tests and
is a parameter (`0 ≤ eps ≤ 1`, resp. `≤ 1/2`), so float32 and float64 are covered by the same theorem.

Regimes of `SO3_Log.forward` on `q = (v, w)`:  (1) `eps < ‖v‖`, `eps < |w|` — `2·atan(‖v‖/w)/‖v‖`;
(2) `eps < ‖v‖`, `|w| ≤ eps` — `pm(w)·π/‖v‖`;  (3) `‖v‖ ≤ eps` — two-term series.

"Same transformation": a group element and the element with the negated quaternion (`…negQ`) act identically
(`*_negQ_act`), so `Exp (Log X) ∈ {X, negQ X}` is the clause "Exp(Log(X)) is the same transformation as X".
IEEE rounding is outside the theorems (measured by the correspondence check).
-/
namespace PP
open Vec3 Quat Mat3

/-! ## SO3 : `Exp (Log q)` -/

/-- Regime 1, unit `q`: `Exp (Log q) = sign(w)·q`, exactly. -/
theorem SO3_exp_log (eps : ℝ) (q : Quat ℝ) (hq : q.normSq = 1) (h0 : 0 ≤ eps) (he1 : eps ≤ 1)
    (h1 : eps < q.vec.norm) (h2 : eps < |q.w|) :
    SO3ExpLog eps q = Quat.scale (|q.w| / q.w) q := by
  unfold SO3ExpLog
  rw [so3Exp_SO3Log_r1 eps q hq h0 he1 h1 h2]
  have hw : q.w ≠ 0 := abs_pos.mp (lt_of_le_of_lt h0 h2)
  unfold Quat.scale
  ext <;> simp only [Quat.mk', Quat.vec, Vec3.smul]
  field_simp

/-- upper hemisphere: the round trip is the identity -/
theorem SO3_exp_log_pos (eps : ℝ) (q : Quat ℝ) (hq : q.normSq = 1) (h0 : 0 ≤ eps) (he1 : eps ≤ 1)
    (h1 : eps < q.vec.norm) (h2 : eps < q.w) : SO3ExpLog eps q = q := by
  have hw : 0 < q.w := lt_of_le_of_lt h0 h2
  rw [SO3_exp_log eps q hq h0 he1 h1 (by rw [abs_of_pos hw]; exact h2), abs_of_pos hw, div_self (ne_of_gt hw),
    Quat.scale_one]

/-- lower hemisphere: the round trip returns the antipodal quaternion `-q` (same rotation) -/
theorem SO3_exp_log_neg (eps : ℝ) (q : Quat ℝ) (hq : q.normSq = 1) (h0 : 0 ≤ eps) (he1 : eps ≤ 1)
    (h1 : eps < q.vec.norm) (h2 : q.w < -eps) : SO3ExpLog eps q = SO3negQ q := by
  have hw : q.w < 0 := by linarith
  rw [SO3_exp_log eps q hq h0 he1 h1 (by rw [abs_of_neg hw]; linarith), abs_of_neg hw, neg_div,
    div_self (ne_of_lt hw), Quat.scale_neg_one]
  rfl

/-- `q` and `-q` are the same rotation (any quaternion) -/
theorem SO3_negQ_act (q : Quat ℝ) (p : Vec3 ℝ) : (SO3negQ q).act p = q.act p := Quat.neg_act q p

/-- Regime 1: `Exp (Log q)` is the same rotation as `q` — on every point, in both hemispheres. -/
theorem SO3_exp_log_act (eps : ℝ) (q : Quat ℝ) (hq : q.normSq = 1) (h0 : 0 ≤ eps) (he1 : eps ≤ 1)
    (h1 : eps < q.vec.norm) (h2 : eps < |q.w|) (p : Vec3 ℝ) : (SO3ExpLog eps q).act p = q.act p := by
  rcases lt_or_gt_of_ne (abs_pos.mp (lt_of_le_of_lt h0 h2)) with hw | hw
  · rw [SO3_exp_log_neg eps q hq h0 he1 h1 (by rw [abs_of_neg hw] at h2; linarith), SO3_negQ_act]
  · rw [SO3_exp_log_pos eps q hq h0 he1 h1 (by rw [abs_of_pos hw] at h2; exact h2)]

/-- … hence the same rotation matrix -/
theorem SO3_exp_log_matrix (eps : ℝ) (q : Quat ℝ) (hq : q.normSq = 1) (h0 : 0 ≤ eps) (he1 : eps ≤ 1)
    (h1 : eps < q.vec.norm) (h2 : eps < |q.w|) : SO3matrix (SO3ExpLog eps q) = SO3matrix q := by
  unfold SO3matrix
  rw [SO3_exp_log_act eps q hq h0 he1 h1 h2, SO3_exp_log_act eps q hq h0 he1 h1 h2,
    SO3_exp_log_act eps q hq h0 he1 h1 h2]

/-- the round trip stays on the unit sphere -/
theorem SO3_exp_log_unit (eps : ℝ) (q : Quat ℝ) (hq : q.normSq = 1) (h0 : 0 ≤ eps) (he1 : eps ≤ 1)
    (h1 : eps < q.vec.norm) (h2 : eps < |q.w|) : (SO3ExpLog eps q).normSq = 1 := by
  rcases lt_or_gt_of_ne (abs_pos.mp (lt_of_le_of_lt h0 h2)) with hw | hw
  · rw [SO3_exp_log_neg eps q hq h0 he1 h1 (by rw [abs_of_neg hw] at h2; linarith)]
    unfold SO3negQ; rw [Quat.normSq_neg, hq]
  · rw [SO3_exp_log_pos eps q hq h0 he1 h1 (by rw [abs_of_pos hw] at h2; exact h2), hq]

/-- Regime 2 (`|w| ≤ eps`, rotation angle within `2·eps` of `π`): `Exp (Log q) = (pm(w)·v/‖v‖, 0)` exactly, and
for unit `q` that is within `√2·eps` (Euclidean, in ℝ⁴) of `pm(w)·q`. -/
theorem SO3_exp_log_near_pi (eps : ℝ) (q : Quat ℝ) (hq : q.normSq = 1) (h0 : 0 ≤ eps) (hpi : eps < Real.pi)
    (h1 : eps < q.vec.norm) (h2 : ¬ eps < |q.w|) :
    SO3ExpLog eps q = Quat.mk' (q.vec.smul (spm q.w / q.vec.norm)) 0 ∧
      Quat.distSq (SO3ExpLog eps q) (Quat.scale (spm q.w) q) ≤ 2 * eps ^ 2 :=
  ⟨so3Exp_SO3Log_r2 eps q h0 hpi h1 h2, so3Exp_SO3Log_r2_dist eps q hq h0 hpi h1 h2⟩

/-- Regimes 1 and 2 together (every unit quaternion with `‖v‖ > eps`, i.e. every rotation by more than `≈2·eps`):
`Exp (Log q)` is within `√2·eps` of `q` or of `-q` — the same rotation up to the accuracy of the arithmetic (quaternion-level statement; the action-level bound is
`SO3_exp_log_act_all`). -/
theorem SO3_exp_log_any (eps : ℝ) (q : Quat ℝ) (hq : q.normSq = 1) (h0 : 0 ≤ eps) (he1 : eps ≤ 1)
    (h1 : eps < q.vec.norm) :
    Quat.distSq (SO3ExpLog eps q) q ≤ 2 * eps ^ 2 ∨ Quat.distSq (SO3ExpLog eps q) (SO3negQ q) ≤ 2 * eps ^ 2 := by
  have hz : ∀ p : Quat ℝ, Quat.distSq p p = 0 := by intro p; unfold Quat.distSq; ring
  have hnn : (0 : ℝ) ≤ 2 * eps ^ 2 := by positivity
  by_cases h2 : eps < |q.w|
  · rcases lt_or_gt_of_ne (abs_pos.mp (lt_of_le_of_lt h0 h2)) with hw | hw
    · right
      rw [SO3_exp_log_neg eps q hq h0 he1 h1 (by rw [abs_of_neg hw] at h2; linarith), hz]; exact hnn
    · left
      rw [SO3_exp_log_pos eps q hq h0 he1 h1 (by rw [abs_of_pos hw] at h2; exact h2), hz]; exact hnn
  · have h := (SO3_exp_log_near_pi eps q hq h0 (by linarith [Real.pi_gt_three]) h1 h2).2
    rw [spm_real] at h
    by_cases hw : q.w < 0
    · right; simp only [hw, if_true] at h; rw [Quat.scale_neg_one] at h; exact h
    · left; simp only [hw, if_false] at h; rw [Quat.scale_one] at h; exact h

/-! ## SO3 : `‖Log q‖ ≤ π` -/

/-- regime 1: strictly below `π`, and equal to `2·atan(‖v‖/|w|)` -/
theorem SO3_log_norm_lt_pi (eps : ℝ) (q : Quat ℝ) (h0 : 0 ≤ eps) (h1 : eps < q.vec.norm) (h2 : eps < |q.w|) :
    (SO3Log eps q).norm = 2 * Real.arctan (q.vec.norm / |q.w|) ∧ (SO3Log eps q).norm < Real.pi := by
  have h := SO3Log_r1_norm eps q h0 h1 h2
  refine ⟨h, ?_⟩
  rw [h]; linarith [Real.arctan_lt_pi_div_two (q.vec.norm / |q.w|)]

/-- regime 2: exactly `π` (any quaternion with `‖v‖ > eps`) -/
theorem SO3_log_norm_eq_pi (eps : ℝ) (q : Quat ℝ) (h0 : 0 ≤ eps) (h1 : eps < q.vec.norm) (h2 : ¬ eps < |q.w|) :
    (SO3Log eps q).norm = Real.pi := SO3Log_r2_norm eps q h0 h1 h2

/-- The rotation part of `Log q` has norm at most `π` — every unit quaternion, all three regimes. -/
theorem SO3_log_norm_le_pi (eps : ℝ) (q : Quat ℝ) (hq : q.normSq = 1) (h0 : 0 ≤ eps) (he : eps ≤ 1 / 2) :
    (SO3Log eps q).norm ≤ Real.pi := by
  by_cases h1 : eps < q.vec.norm
  · by_cases h2 : eps < |q.w|
    · exact le_of_lt (SO3_log_norm_lt_pi eps q h0 h1 h2).2
    · exact le_of_eq (SO3Log_r2_norm eps q h0 h1 h2)
  · exact le_trans (SO3Log_r3_norm_le eps q hq he h1) Real.two_le_pi

/-! ## SO3 : regime 3 against the exact principal logarithm -/

/-- Regime 3 (`‖v‖ ≤ eps`, `v ≠ 0`): the series value differs from the exact principal logarithm
`(2·atan(‖v‖/w)/‖v‖)·v` (the regime-1 formula, which `Exp` inverts exactly) by at most `2‖v‖⁵/(5|w|⁵)` in norm —
for a unit quaternion and `eps = 2⁻⁵²` that is `< 10⁻⁷⁸`; for `v = 0` both are `0`. -/
theorem SO3_log_series (eps : ℝ) (q : Quat ℝ) (h1 : ¬ eps < q.vec.norm) (hv : 0 < q.vec.norm) (hw : q.w ≠ 0) :
    ((SO3Log eps q).sub (q.vec.smul (2 * Real.arctan (q.vec.norm / q.w) / q.vec.norm))).norm
      ≤ 2 * q.vec.norm ^ 5 / (5 * |q.w| ^ 5) := by
  unfold SO3Log
  rw [Vec3.smul_sub_smul, Vec3.norm_smul]
  have h := so3LogFactor_r3_error eps q.vec.norm q.w h1 hv hw
  have hwa : 0 < |q.w| := abs_pos.mpr hw
  calc |so3LogFactor eps q.vec.norm q.w - 2 * Real.arctan (q.vec.norm / q.w) / q.vec.norm| * q.vec.norm
      ≤ 2 * q.vec.norm ^ 4 / (5 * |q.w| ^ 5) * q.vec.norm := by gcongr
    _ = 2 * q.vec.norm ^ 5 / (5 * |q.w| ^ 5) := by field_simp

/-- `v = 0` (`q = ±1`): `Log q = 0` exactly -/
theorem SO3_log_zero (eps : ℝ) (q : Quat ℝ) (hv : q.vec.norm = 0) : SO3Log eps q = Vec3.zero := by
  unfold SO3Log
  rw [Vec3.norm_eq_zero hv]
  ext <;> lie_unfold <;> ring

/-- Regime 3 in full (`‖v‖ ≤ eps ≤ 1/4`, unit `q`): `Exp (Log q)` is within `eps⁴` (Euclidean distance in ℝ⁴) of `sign(w)·q`,
whichever branch of `so3_Exp` the tiny logarithm falls into. -/
theorem SO3_exp_log_regime3 (eps : ℝ) (q : Quat ℝ) (hq : q.normSq = 1) (h0 : 0 ≤ eps) (he : eps ≤ 1 / 4)
    (h1 : ¬ eps < q.vec.norm) :
    Quat.distSq (SO3ExpLog eps q) (Quat.scale (|q.w| / q.w) q) ≤ eps ^ 8 := by
  have hu := unit_parts q hq
  have hn0 := Vec3.norm_nonneg q.vec
  have hne : q.vec.norm ≤ eps := not_lt.mp h1
  have hn4 : q.vec.norm ≤ 1 / 4 := by linarith
  have he8 : 0 ≤ eps ^ 8 := by positivity
  rcases hn0.lt_or_eq with hv | hv
  · -- ‖v‖ > 0
    have hb := r3_bound_le q hq hn4
    have hcl := expClosed_log3_dist eps q hq (by linarith) h1 hv
    have hn10 : q.vec.norm ^ 10 ≤ eps ^ 10 := pow_le_pow_left₀ hn0 hne 10
    have he10 : eps ^ 10 ≤ eps ^ 8 / 16 := by
      have : eps ^ 10 = eps ^ 8 * eps ^ 2 := by ring
      rw [this]
      have : eps ^ 2 ≤ 1 / 16 := by nlinarith
      nlinarith
    by_cases hθ : eps < (SO3Log eps q).norm
    · unfold SO3ExpLog
      rw [so3Exp_eq_expClosed eps _ hθ]
      linarith
    · -- Taylor branch of Exp
      have hLpos : 0 < (SO3Log eps q).norm := by
        have hL : SO3Log eps q = q.vec.smul (so3LogFactor eps q.vec.norm q.w) := rfl
        rw [hL, Vec3.norm_smul]
        have hw2 : 3 / 4 ≤ q.w * q.w := by nlinarith
        have hw : q.w ≠ 0 := by intro h; rw [h] at hw2; norm_num at hw2
        have hf : so3LogFactor eps q.vec.norm q.w ≠ 0 := by
          rw [so3LogFactor_r3 _ _ _ h1]
          have e : 2 * (1 / q.w - q.vec.norm * q.vec.norm / (3 * (q.w * q.w * q.w)))
              = 2 * (3 * (q.w * q.w) - q.vec.norm * q.vec.norm) / (3 * (q.w * q.w * q.w)) := by field_simp
          rw [e]
          apply div_ne_zero
          · have : 0 < 3 * (q.w * q.w) - q.vec.norm * q.vec.norm := by nlinarith
            positivity
          · exact mul_ne_zero (by norm_num) (mul_ne_zero (mul_ne_zero hw hw) hw)
        exact mul_pos (abs_pos.mpr hf) hv
      have hLe : (SO3Log eps q).norm ≤ eps := not_lt.mp hθ
      have ht := so3Exp_taylor_near_closed eps (SO3Log eps q) hθ hLpos (by linarith)
      have htri := Quat.distSq_triangle (so3Exp eps (SO3Log eps q)) (expClosed (SO3Log eps q))
        (Quat.scale (|q.w| / q.w) q)
      have hu8 : ((SO3Log eps q).norm / 2) ^ 8 ≤ (eps / 2) ^ 8 := pow_le_pow_left₀ (by positivity) (by linarith) 8
      have e8 : (eps / 2) ^ 8 = eps ^ 8 / 256 := by ring
      unfold SO3ExpLog
      linarith
  · -- v = 0 : q = ±1
    have hz : q.vec.norm = 0 := hv.symm
    have hLz := SO3_log_zero eps q hz
    have hw1 : q.w * q.w = 1 := by rw [hz] at hu; linarith
    have hvz := Vec3.norm_eq_zero hz
    have hx : q.x = 0 := by have := congrArg Vec3.x hvz; simpa [Quat.vec, Vec3.zero] using this
    have hy : q.y = 0 := by have := congrArg Vec3.y hvz; simpa [Quat.vec, Vec3.zero] using this
    have hzz : q.z = 0 := by have := congrArg Vec3.z hvz; simpa [Quat.vec, Vec3.zero] using this
    have hw : q.w ≠ 0 := by intro h; rw [h] at hw1; norm_num at hw1
    have habs : |q.w| = 1 := by
      have := abs_mul_abs_self q.w
      have h3 := abs_nonneg q.w
      nlinarith
    unfold SO3ExpLog
    rw [hLz, so3Exp_zero eps h0]
    have : Quat.scale (|q.w| / q.w) q = Quat.one := by
      unfold Quat.scale Quat.one
      ext <;> simp [hx, hy, hzz]
      rw [habs]; field_simp
    rw [this, Quat.distSq_self]; exact he8

/-! ## SO3 : `Log (-q) = Log q`, `Log (q⁻¹) = -Log q` -/

/-- A unit quaternion `q` and `-q` have the same logarithm unless the rotation angle is exactly `π` (`w = 0`), in all three
regimes. (Stated for VALID elements only: for a non-unit quaternion with `w = 0` in regime 3 the totalised `1/0 = 0` of the
model would make the identity hold vacuously where the code produces inf/NaN.) -/
theorem SO3_log_neg (eps : ℝ) (q : Quat ℝ) (_hq : q.normSq = 1) (hw : q.w ≠ 0) :
    SO3LogNeg eps q = SO3Log eps q := SO3Log_neg' eps q (Or.inl hw)

/-- at angle exactly `π` (`w = 0`) the two logarithms are the two opposite vectors of length `π` -/
theorem SO3_log_neg_at_pi (eps : ℝ) (q : Quat ℝ) (h0 : 0 ≤ eps) (h1 : eps < q.vec.norm) (hw : q.w = 0) :
    SO3LogNeg eps q = (SO3Log eps q).neg := by
  have h2 : ¬ eps < |q.w| := by rw [hw, abs_zero]; exact not_lt.mpr h0
  have h2' : ¬ eps < |q.neg.w| := by rw [Quat.w_neg, hw, neg_zero, abs_zero]; exact not_lt.mpr h0
  unfold SO3LogNeg SO3negQ
  rw [SO3Log_r2 eps q h1 h2, SO3Log_r2 eps q.neg (by rw [Quat.vec_neg, Vec3.norm_neg]; exact h1) h2',
    Quat.vec_neg, Vec3.norm_neg, Quat.w_neg, hw, neg_zero, Vec3.neg_smul]

/-- `Log (Inv q) = -Log q` for every quaternion, every regime -/
theorem SO3_log_inv (eps : ℝ) (q : Quat ℝ) : SO3LogInv eps q = (SO3Log eps q).neg := SO3Log_conj eps q

/-! ## so3 : `Log (Exp x) = x` below `π` -/

/-- `Log (Exp x) = x` exactly, whenever `Exp x` lands in regime 1 of the logarithm. -/
theorem so3_log_exp (eps : ℝ) (x : Vec3 ℝ) (h0 : 0 ≤ eps) (h : eps < x.norm) (hpi : x.norm < Real.pi)
    (hs : eps < Real.sin (x.norm / 2)) (hc : eps < Real.cos (x.norm / 2)) : so3LogExp eps x = x :=
  SO3Log_so3Exp_r1 eps x h0 h hpi hs hc

/-- … in particular for every rotation angle in the band `π·eps < θ < π·(1−eps)` -/
theorem so3_log_exp_band (eps : ℝ) (x : Vec3 ℝ) (h0 : 0 ≤ eps) (hlo : Real.pi * eps < x.norm)
    (hhi : x.norm < Real.pi * (1 - eps)) : so3LogExp eps x = x := by
  have hp := Real.pi_pos
  have hb := band_sin_cos eps x.norm h0 hlo hhi
  have h3 : (3 : ℝ) < Real.pi := Real.pi_gt_three
  exact SO3Log_so3Exp_r1 eps x h0 (by nlinarith) (by nlinarith) hb.1 hb.2

/-- STATED DEVIATION from the clause "Log(Exp x) = x whenever the angle is below π": within `π·eps` of `π` (`cos(θ/2) ≤ eps`, `θ < π`
possible) the model — and the code — return `x` rescaled to length `π`, which is NOT `x`; the clause holds there only up to
`‖Log(Exp x) − x‖ = π − θ ≤ π·eps` (inside the property's 16·eps·‖x‖ accuracy). -/
theorem so3_log_exp_near_pi (eps : ℝ) (x : Vec3 ℝ) (h0 : 0 ≤ eps) (h : eps < x.norm) (hpi : x.norm ≤ Real.pi)
    (hs : eps < Real.sin (x.norm / 2)) (hc : ¬ eps < Real.cos (x.norm / 2)) :
    so3LogExp eps x = x.smul (Real.pi / x.norm) ∧ Real.pi - x.norm ≤ Real.pi * eps :=
  ⟨SO3Log_so3Exp_r2 eps x h0 h hpi hs hc,
   pi_sub_le_of_cos_le eps x.norm (Vec3.norm_nonneg x) hpi (not_lt.mp hc)⟩

/-- Taylor branch of `Exp` (`θ ≤ eps`) followed by regime 3 of `Log`: `Log (Exp x) = (1+δ)·x` with `|δ| ≤ θ⁴/50` -/
theorem so3_log_exp_small (eps : ℝ) (x : Vec3 ℝ) (h0 : 0 ≤ eps) (he1 : eps ≤ 1) (h : ¬ eps < x.norm) :
    ∃ δ : ℝ, so3LogExp eps x = x.smul (1 + δ) ∧ |δ| ≤ x.normSq ^ 2 / 50 := by
  have hθ0 := Vec3.norm_nonneg x
  have hθ : x.norm ≤ eps := not_lt.mp h
  have hn : x.norm * x.norm = x.normSq := Vec3.norm_sq x
  have hn0 : 0 ≤ x.normSq := Vec3.normSq_nonneg x
  have hn1 : x.normSq ≤ 1 := by rw [← hn]; nlinarith
  have hE := so3Exp_taylor eps x h
  generalize hc : 1 / 2 - 1 / 48 * x.normSq + 1 / 3840 * (x.normSq * x.normSq) = c at hE
  generalize hw : 1 - 1 / 8 * x.normSq + 1 / 384 * (x.normSq * x.normSq) = w at hE
  have hc0 : 0 < c := by rw [← hc]; nlinarith
  have hc1 : c ≤ 1 / 2 + 1 / 3840 := by rw [← hc]; nlinarith
  have hw0 : 7 / 8 ≤ w := by rw [← hw]; nlinarith
  have hw1 : w ≤ 1 + 1 / 384 := by rw [← hw]; nlinarith
  have hvn : (so3Exp eps x).vec.norm = c * x.norm := by
    rw [hE, Quat.mk'_vec, Vec3.norm_smul, abs_of_pos hc0]
  have hr3 : ¬ eps < (so3Exp eps x).vec.norm := by rw [hvn]; nlinarith
  refine ⟨c * (2 * (1 / w - c * x.norm * (c * x.norm) / (3 * (w * w * w)))) - 1, ?_, ?_⟩
  · unfold so3LogExp
    rw [SO3Log_r3 eps _ hr3, hvn, hE, Quat.mk'_vec, Quat.mk'_w, Vec3.smul_smul]
    congr 1; ring
  · have hw3 : 0 < 3 * (w * w * w) := by positivity
    have key : c * (2 * (1 / w - c * x.norm * (c * x.norm) / (3 * (w * w * w)))) - 1
        = (6 * c * (w * w) - 2 * x.normSq * (c * c * c) - 3 * (w * w * w)) / (3 * (w * w * w)) := by
      rw [← hn]; field_simp; ring
    have hN : 6 * c * (w * w) - 2 * x.normSq * (c * c * c) - 3 * (w * w * w)
        = -(x.normSq ^ 2 * ((x.normSq ^ 5 + 960 * x.normSq ^ 4 - 138240 * x.normSq ^ 3 + 6860800 * x.normSq ^ 2
            - 143769600 * x.normSq + 1061683200) / 28311552000)) := by
      rw [← hc, ← hw]; ring
    rw [key, hN]
    generalize x.normSq = n at hn0 hn1 ⊢
    have p5 : n ^ 5 ≤ n := pow_le_of_le_one hn0 hn1 (by norm_num)
    have p4 : n ^ 4 ≤ n := pow_le_of_le_one hn0 hn1 (by norm_num)
    have p3 : n ^ 3 ≤ n := pow_le_of_le_one hn0 hn1 (by norm_num)
    have p2 : n ^ 2 ≤ n := pow_le_of_le_one hn0 hn1 (by norm_num)
    have q5 : 0 ≤ n ^ 5 := by positivity
    have q4 : 0 ≤ n ^ 4 := by positivity
    have q3 : 0 ≤ n ^ 3 := by positivity
    have q2 : 0 ≤ n ^ 2 := by positivity
    obtain ⟨Q, hQ⟩ : ∃ Q, Q = (n ^ 5 + 960 * n ^ 4 - 138240 * n ^ 3 + 6860800 * n ^ 2 - 143769600 * n + 1061683200) / 28311552000 :=
      ⟨_, rfl⟩
    have hQ0 : 0 ≤ Q := by rw [hQ]; apply div_nonneg _ (by norm_num); linarith only [q5, q4, q2, p3, hn1, hn0]
    have hQ1 : Q ≤ 3 / 80 := by rw [hQ, div_le_iff₀ (by norm_num)]; linarith only [p5, p4, p2, q3, hn0]
    rw [← hQ]
    have hww : (49 : ℝ) / 64 ≤ w * w := by nlinarith only [hw0]
    have hwww : (343 : ℝ) / 512 ≤ w * w * w := by
      have := mul_le_mul hww hw0 (by norm_num) (by positivity)
      linarith only [this]
    have hw3' : (2 : ℝ) ≤ 3 * (w * w * w) := by linarith only [hwww]
    rw [abs_div, abs_neg, abs_of_nonneg (by positivity), abs_of_pos hw3, div_le_iff₀ hw3]
    have h1 : n ^ 2 * Q ≤ n ^ 2 * (3 / 80) := mul_le_mul_of_nonneg_left hQ1 q2
    have h2 : n ^ 2 / 50 * 2 ≤ n ^ 2 / 50 * (3 * (w * w * w)) := mul_le_mul_of_nonneg_left hw3' (by positivity)
    linarith only [h1, h2, q2]

/-- the thin band `eps < θ` with `sin(θ/2) ≤ eps` (closed-form `Exp`, then regime 3 of `Log`): `Log (Exp x)` misses `x`
by at most `2·tan⁵(θ/2)/5 ≈ θ⁵/80` in norm -/
theorem so3_log_exp_gap (eps : ℝ) (x : Vec3 ℝ) (h0 : 0 ≤ eps) (h : eps < x.norm) (hpi : x.norm < Real.pi)
    (hs : ¬ eps < Real.sin (x.norm / 2)) :
    ((so3LogExp eps x).sub x).norm ≤ 2 * Real.sin (x.norm / 2) ^ 5 / (5 * |Real.cos (x.norm / 2)| ^ 5) := by
  have hpos : 0 < x.norm := lt_of_le_of_lt h0 h
  have hvn := so3Exp_closed_vec_norm eps x h0 h (by linarith [Real.pi_pos])
  have hw : (so3Exp eps x).w = Real.cos (x.norm / 2) := by rw [so3Exp_closed eps x h]; rfl
  have hspos : 0 < Real.sin (x.norm / 2) := Real.sin_pos_of_pos_of_lt_pi (by linarith) (by linarith)
  have hcpos : 0 < Real.cos (x.norm / 2) :=
    Real.cos_pos_of_mem_Ioo ⟨by linarith [Real.pi_pos], by linarith⟩
  have key := SO3_log_series eps (so3Exp eps x) (by rw [hvn]; exact hs) (by rw [hvn]; exact hspos)
    (by rw [hw]; exact ne_of_gt hcpos)
  rw [hvn, hw] at key
  have e : (so3Exp eps x).vec.smul (2 * Real.arctan (Real.sin (x.norm / 2) / Real.cos (x.norm / 2)) /
      Real.sin (x.norm / 2)) = x := by
    rw [← Real.tan_eq_sin_div_cos, Real.arctan_tan (by linarith) (by linarith), so3Exp_closed eps x h,
      Quat.mk'_vec, Vec3.smul_smul]
    have : Real.sin (x.norm / 2) / x.norm * (2 * (x.norm / 2) / Real.sin (x.norm / 2)) = 1 := by field_simp
    rw [this, Vec3.smul_one]
  rw [e] at key
  exact key

/-! ## `so3_Jl_inv · so3_Jl = 1` -/

/-- closed-form branch, every angle with `sin(θ/2) ≠ 0` (all of `eps < θ < 2π`) -/
theorem JlInv_mul_Jl (eps : ℝ) (x : Vec3 ℝ) (h0 : 0 ≤ eps) (h : eps < x.norm) (h2 : x.norm < 2 * Real.pi) :
    (so3JlInv eps x).mul (so3Jl eps x) = Mat3.one ∧ (so3Jl eps x).mul (so3JlInv eps x) = Mat3.one := by
  have hpos : 0 < x.norm := lt_of_le_of_lt h0 h
  have hS : Real.sin (x.norm / 2) ≠ 0 := ne_of_gt (Real.sin_pos_of_pos_of_lt_pi (by linarith) (by linarith))
  exact ⟨so3JlInv_mul_so3Jl eps x h0 h hS, so3Jl_mul_so3JlInv eps x h0 h hS⟩

/-- Taylor branch (`θ ≤ eps`): `JlInv·Jl = 1 − (θ⁴/1440)·K + (−θ²/720 + θ⁴/1440)·K²`, i.e. `1 + O(θ⁴)` entrywise -/
theorem JlInv_mul_Jl_taylor (eps : ℝ) (x : Vec3 ℝ) (h : ¬ eps < x.norm) :
    (so3JlInv eps x).mul (so3Jl eps x) =
      polyK 1 (-(x.normSq ^ 2) / 1440) (-x.normSq / 720 + x.normSq ^ 2 / 1440) x :=
  so3JlInv_mul_so3Jl_taylor eps x h

/-! ## SE3 -/

theorem SE3_negQ_act (X : SE3 ℝ) (p : Vec3 ℝ) : SE3Act (SE3negQ X) p = SE3Act X p := by
  unfold SE3Act SE3negQ; simp only []; rw [Quat.neg_act]

/-- `Exp (Log X) = (t, sign(w)·q)` : the same rigid motion, translation recovered exactly. -/
theorem SE3_exp_log (eps : ℝ) (X : SE3 ℝ) (hq : X.q.normSq = 1) (h0 : 0 ≤ eps) (he1 : eps ≤ 1)
    (h1 : eps < X.q.vec.norm) (h2 : eps < |X.q.w|) :
    SE3ExpLog eps X = ⟨X.t, Quat.scale (|X.q.w| / X.q.w) X.q⟩ := by
  obtain ⟨ha, hb, hc, _⟩ := SO3Log_r1_angle eps X.q hq h0 he1 h1 h2
  have hvn : 0 < X.q.vec.norm := lt_of_le_of_lt h0 h1
  have hS : Real.sin ((SO3Log eps X.q).norm / 2) ≠ 0 := by rw [hc]; exact ne_of_gt hvn
  have e := SO3_exp_log eps X.q hq h0 he1 h1 h2
  unfold SO3ExpLog at e
  unfold SE3ExpLog se3Exp SE3Log
  simp only []
  rw [← Mat3.mul_mulVec, so3Jl_mul_so3JlInv eps _ h0 ha hS, Mat3.one_mulVec, e]

theorem SE3_exp_log_pos (eps : ℝ) (X : SE3 ℝ) (hq : X.q.normSq = 1) (h0 : 0 ≤ eps) (he1 : eps ≤ 1)
    (h1 : eps < X.q.vec.norm) (h2 : eps < X.q.w) : SE3ExpLog eps X = X := by
  have hw : 0 < X.q.w := lt_of_le_of_lt h0 h2
  rw [SE3_exp_log eps X hq h0 he1 h1 (by rw [abs_of_pos hw]; exact h2), abs_of_pos hw, div_self (ne_of_gt hw),
    Quat.scale_one]

theorem SE3_exp_log_neg (eps : ℝ) (X : SE3 ℝ) (hq : X.q.normSq = 1) (h0 : 0 ≤ eps) (he1 : eps ≤ 1)
    (h1 : eps < X.q.vec.norm) (h2 : X.q.w < -eps) : SE3ExpLog eps X = SE3negQ X := by
  have hw : X.q.w < 0 := by linarith
  rw [SE3_exp_log eps X hq h0 he1 h1 (by rw [abs_of_neg hw]; linarith), abs_of_neg hw, neg_div,
    div_self (ne_of_lt hw), Quat.scale_neg_one]
  rfl

/-- same transformation: identical action on every point -/
theorem SE3_exp_log_act (eps : ℝ) (X : SE3 ℝ) (hq : X.q.normSq = 1) (h0 : 0 ≤ eps) (he1 : eps ≤ 1)
    (h1 : eps < X.q.vec.norm) (h2 : eps < |X.q.w|) (p : Vec3 ℝ) : SE3Act (SE3ExpLog eps X) p = SE3Act X p := by
  rcases lt_or_gt_of_ne (abs_pos.mp (lt_of_le_of_lt h0 h2)) with hw | hw
  · rw [SE3_exp_log_neg eps X hq h0 he1 h1 (by rw [abs_of_neg hw] at h2; linarith), SE3_negQ_act]
  · rw [SE3_exp_log_pos eps X hq h0 he1 h1 (by rw [abs_of_pos hw] at h2; exact h2)]

/-- Regime 2 (`|w| ≤ eps`): the translation is still recovered exactly (`Jl(φ)·Jl⁻¹(φ) = 1` at `‖φ‖ = π`); the
rotation part is the regime-2 value of `SO3_exp_log_near_pi` (within `√2·eps` of `±q`). -/
theorem SE3_exp_log_near_pi (eps : ℝ) (X : SE3 ℝ) (h0 : 0 ≤ eps) (hpi : eps < Real.pi)
    (h1 : eps < X.q.vec.norm) (h2 : ¬ eps < |X.q.w|) :
    SE3ExpLog eps X = ⟨X.t, Quat.mk' (X.q.vec.smul (spm X.q.w / X.q.vec.norm)) 0⟩ := by
  have hn := SO3Log_r2_norm eps X.q h0 h1 h2
  have hS : Real.sin ((SO3Log eps X.q).norm / 2) ≠ 0 := by rw [hn, Real.sin_pi_div_two]; norm_num
  unfold SE3ExpLog se3Exp SE3Log
  simp only []
  rw [← Mat3.mul_mulVec, so3Jl_mul_so3JlInv eps _ h0 (by rw [hn]; exact hpi) hS, Mat3.one_mulVec,
    so3Exp_SO3Log_r2 eps X.q h0 hpi h1 h2]

/-- `Log (Exp ξ) = ξ` for rotation angle below `π` (regime 1 after `Exp`), any translation part -/
theorem SE3_log_exp (eps : ℝ) (x : se3 ℝ) (h0 : 0 ≤ eps) (h : eps < x.phi.norm) (hpi : x.phi.norm < Real.pi)
    (hs : eps < Real.sin (x.phi.norm / 2)) (hc : eps < Real.cos (x.phi.norm / 2)) : se3LogExp eps x = x := by
  have e := SO3Log_so3Exp_r1 eps x.phi h0 h hpi hs hc
  have hS : Real.sin (x.phi.norm / 2) ≠ 0 := ne_of_gt (lt_of_le_of_lt h0 hs)
  unfold se3LogExp SE3Log se3Exp
  simp only []
  rw [e, ← Mat3.mul_mulVec, so3JlInv_mul_so3Jl eps _ h0 h hS, Mat3.one_mulVec]

theorem SE3_log_exp_band (eps : ℝ) (x : se3 ℝ) (h0 : 0 ≤ eps) (hlo : Real.pi * eps < x.phi.norm)
    (hhi : x.phi.norm < Real.pi * (1 - eps)) : se3LogExp eps x = x := by
  have hb := band_sin_cos eps x.phi.norm h0 hlo hhi
  have h3 : (3 : ℝ) < Real.pi := Real.pi_gt_three
  exact SE3_log_exp eps x h0 (by nlinarith) (by nlinarith) hb.1 hb.2

/-- `X` and the element with the negated quaternion have the same `Log` away from angle `π` -/
theorem SE3_log_neg (eps : ℝ) (X : SE3 ℝ) (_hq : X.q.normSq = 1) (hw : X.q.w ≠ 0) :
    SE3LogNeg eps X = SE3Log eps X := by
  unfold SE3LogNeg SE3negQ SE3Log
  simp only []
  rw [SO3Log_neg' eps X.q (Or.inl hw)]

/-- `Log (Inv X) = -Log X` on SE3 for a unit quaternion in regime 1 (`‖v‖ > eps`, `|w| > eps`): uses
`Jl⁻¹(−φ)·R(φ)ᵀ = Jl⁻¹(φ)`.  PARTIAL w.r.t. the clause: in regime 2 (`|w| ≤ eps`) and regime 3 (`‖v‖ ≤ eps`) the rotation part
is still exactly negated (`SO3_log_inv`); for every recovered angle above `eps` (regimes 1, 2, upper part of 3) the translation
part is covered by the backward form `SE3_log_inv_backward` + `log_inv_backward_bound` (pass 3). Still only measured
(stream `loginv`): rotations by less than `eps` (Taylor branch of `so3_Jl_inv`). -/
theorem SE3_log_inv_partial (eps : ℝ) (X : SE3 ℝ) (hq : X.q.normSq = 1) (h0 : 0 ≤ eps) (he1 : eps ≤ 1)
    (h1 : eps < X.q.vec.norm) (h2 : eps < |X.q.w|) : SE3LogInv eps X = se3.neg (SE3Log eps X) := by
  obtain ⟨ha, _, hc, _⟩ := SO3Log_r1_angle eps X.q hq h0 he1 h1 h2
  have hvn : 0 < X.q.vec.norm := lt_of_le_of_lt h0 h1
  have hS : Real.sin ((SO3Log eps X.q).norm / 2) ≠ 0 := by rw [hc]; exact ne_of_gt hvn
  have hact : X.q.conj.act X.t = (so3Exp eps (SO3Log eps X.q)).conj.act X.t := by
    rcases lt_or_gt_of_ne (abs_pos.mp (lt_of_le_of_lt h0 h2)) with hw | hw
    · have e := SO3_exp_log_neg eps X.q hq h0 he1 h1 (by rw [abs_of_neg hw] at h2; linarith)
      unfold SO3ExpLog SO3negQ at e
      rw [e, Quat.conj_neg_act]
    · have e := SO3_exp_log_pos eps X.q hq h0 he1 h1 (by rw [abs_of_pos hw] at h2; exact h2)
      unfold SO3ExpLog at e
      rw [e]
  unfold SE3LogInv SE3Inv SE3Log se3.neg
  simp only []
  rw [SO3Log_conj, Mat3.mulVec_neg, hact, so3JlInv_neg_conj_act eps _ h0 ha hS]

/-! ## RxSO3 -/

theorem RxSO3_negQ_act (X : RxSO3 ℝ) (p : Vec3 ℝ) : RxSO3Act (RxSO3negQ X) p = RxSO3Act X p := by
  unfold RxSO3Act RxSO3negQ; simp only []; rw [Quat.neg_act]

theorem RxSO3_exp_log (eps : ℝ) (X : RxSO3 ℝ) (hq : X.q.normSq = 1) (hs : 0 < X.s) (h0 : 0 ≤ eps) (he1 : eps ≤ 1)
    (h1 : eps < X.q.vec.norm) (h2 : eps < |X.q.w|) :
    RxSO3ExpLog eps X = ⟨Quat.scale (|X.q.w| / X.q.w) X.q, X.s⟩ := by
  have e := SO3_exp_log eps X.q hq h0 he1 h1 h2
  unfold SO3ExpLog at e
  unfold RxSO3ExpLog rxso3Exp RxSO3Log
  simp only [exp_real, log_real]
  rw [e, Real.exp_log hs]

theorem RxSO3_exp_log_act (eps : ℝ) (X : RxSO3 ℝ) (hq : X.q.normSq = 1) (hs : 0 < X.s) (h0 : 0 ≤ eps)
    (he1 : eps ≤ 1) (h1 : eps < X.q.vec.norm) (h2 : eps < |X.q.w|) (p : Vec3 ℝ) :
    RxSO3Act (RxSO3ExpLog eps X) p = RxSO3Act X p := by
  have e := SO3_exp_log_act eps X.q hq h0 he1 h1 h2 p
  have e2 := RxSO3_exp_log eps X hq hs h0 he1 h1 h2
  have e3 := SO3_exp_log eps X.q hq h0 he1 h1 h2
  rw [e2]; unfold RxSO3Act; simp only []
  rw [← e3, e]

theorem rxso3_log_exp (eps : ℝ) (x : rxso3 ℝ) (h0 : 0 ≤ eps) (h : eps < x.phi.norm) (hpi : x.phi.norm < Real.pi)
    (hs : eps < Real.sin (x.phi.norm / 2)) (hc : eps < Real.cos (x.phi.norm / 2)) : rxso3LogExp eps x = x := by
  have e := SO3Log_so3Exp_r1 eps x.phi h0 h hpi hs hc
  unfold rxso3LogExp RxSO3Log rxso3Exp
  simp only [exp_real, log_real]
  rw [e, Real.log_exp]

theorem RxSO3_log_neg (eps : ℝ) (X : RxSO3 ℝ) (_hq : X.q.normSq = 1) (hw : X.q.w ≠ 0) :
    RxSO3LogNeg eps X = RxSO3Log eps X := by
  unfold RxSO3LogNeg RxSO3negQ RxSO3Log
  simp only []
  rw [SO3Log_neg' eps X.q (Or.inl hw)]

/-- `Log (Inv X) = -Log X` for every `X` with POSITIVE scale (a valid element), every regime of the quaternion logarithm.
(The identity `log (1/s) = -log s` of the totalised real functions also holds for `s ≤ 0`, where the code returns NaN / inf; the
hypothesis keeps the statement inside the code's domain.) -/
theorem RxSO3_log_inv (eps : ℝ) (X : RxSO3 ℝ) (_hs : 0 < X.s) :
    RxSO3LogInv eps X = rxso3.neg (RxSO3Log eps X) := by
  unfold RxSO3LogInv RxSO3Inv RxSO3Log rxso3.neg
  simp only [log_real, k_real, Nat.cast_one]
  rw [SO3Log_conj, one_div, Real.log_inv]

/-! ## Sim3 -/

theorem Sim3_negQ_act (X : Sim3 ℝ) (p : Vec3 ℝ) : Sim3Act (Sim3negQ X) p = Sim3Act X p := by
  unfold Sim3Act Sim3negQ; simp only []; rw [Quat.neg_act]

/-- the coupling matrix `W` that `Sim3_Log.forward` inverts is non-singular: every `σ`, every `θ < 2π`,
all four regimes (`det W = C·((C − Bθ²)² + A²θ²)`) -/
theorem Ws_det_ne_zero (eps : ℝ) (x : rxso3 ℝ) (h0 : 0 ≤ eps) (hth : x.phi.norm < 2 * Real.pi) :
    (rxso3Ws eps x).det ≠ 0 := rxso3Ws_det_ne_zero eps x h0 hth

/-- the guard of the adjugate inverse holds on every valid input of `Sim3_Log` -/
theorem Sim3_log_det_ne_zero (eps : ℝ) (X : Sim3 ℝ) (hq : X.q.normSq = 1) (h0 : 0 ≤ eps) (he : eps ≤ 1 / 2) :
    sim3LogDet eps X ≠ 0 := by
  unfold sim3LogDet
  apply rxso3Ws_det_ne_zero eps _ h0
  have := SO3_log_norm_le_pi eps X.q hq h0 he
  show (SO3Log eps X.q).norm < 2 * Real.pi
  linarith [Real.pi_pos]

/-- `Exp (Log X) = (t, sign(w)·q, s)` : same similarity transformation -/
theorem Sim3_exp_log (eps : ℝ) (X : Sim3 ℝ) (hq : X.q.normSq = 1) (hs : 0 < X.s) (h0 : 0 ≤ eps) (he1 : eps ≤ 1)
    (h1 : eps < X.q.vec.norm) (h2 : eps < |X.q.w|) :
    Sim3ExpLog eps X = ⟨X.t, Quat.scale (|X.q.w| / X.q.w) X.q, X.s⟩ := by
  obtain ⟨_, hb, _, _⟩ := SO3Log_r1_angle eps X.q hq h0 he1 h1 h2
  have e := SO3_exp_log eps X.q hq h0 he1 h1 h2
  unfold SO3ExpLog at e
  have hdet : (rxso3Ws eps (RxSO3Log eps ⟨X.q, X.s⟩)).det ≠ 0 := by
    apply rxso3Ws_det_ne_zero eps _ h0
    show (SO3Log eps X.q).norm < 2 * Real.pi
    linarith [Real.pi_pos]
  unfold Sim3ExpLog sim3Exp Sim3Log
  simp only []
  rw [Mat3.mulVec_inv_mulVec _ hdet]
  unfold rxso3Exp RxSO3Log
  simp only [exp_real, log_real]
  rw [e, Real.exp_log hs]

/-- Regime 2 (`|w| ≤ eps`): translation and scale are recovered exactly, the rotation part is the regime-2 value -/
theorem Sim3_exp_log_near_pi (eps : ℝ) (X : Sim3 ℝ) (hs : 0 < X.s) (h0 : 0 ≤ eps) (hpi : eps < Real.pi)
    (h1 : eps < X.q.vec.norm) (h2 : ¬ eps < |X.q.w|) :
    Sim3ExpLog eps X = ⟨X.t, Quat.mk' (X.q.vec.smul (spm X.q.w / X.q.vec.norm)) 0, X.s⟩ := by
  have hn := SO3Log_r2_norm eps X.q h0 h1 h2
  have hdet : (rxso3Ws eps (RxSO3Log eps ⟨X.q, X.s⟩)).det ≠ 0 := by
    apply rxso3Ws_det_ne_zero eps _ h0
    show (SO3Log eps X.q).norm < 2 * Real.pi
    rw [hn]; linarith [Real.pi_pos]
  unfold Sim3ExpLog sim3Exp Sim3Log
  simp only []
  rw [Mat3.mulVec_inv_mulVec _ hdet]
  unfold rxso3Exp RxSO3Log
  simp only [exp_real, log_real]
  rw [so3Exp_SO3Log_r2 eps X.q h0 hpi h1 h2, Real.exp_log hs]

theorem Sim3_exp_log_act (eps : ℝ) (X : Sim3 ℝ) (hq : X.q.normSq = 1) (hs : 0 < X.s) (h0 : 0 ≤ eps)
    (he1 : eps ≤ 1) (h1 : eps < X.q.vec.norm) (h2 : eps < |X.q.w|) (p : Vec3 ℝ) :
    Sim3Act (Sim3ExpLog eps X) p = Sim3Act X p := by
  have e := SO3_exp_log_act eps X.q hq h0 he1 h1 h2 p
  have e2 := Sim3_exp_log eps X hq hs h0 he1 h1 h2
  have e3 := SO3_exp_log eps X.q hq h0 he1 h1 h2
  rw [e2]; unfold Sim3Act; simp only []
  rw [← e3, e]

/-- `Log (Exp ξ) = ξ` for rotation angle below `π`, any `σ`, any translation part -/
theorem Sim3_log_exp (eps : ℝ) (x : sim3 ℝ) (h0 : 0 ≤ eps) (h : eps < x.phi.norm) (hpi : x.phi.norm < Real.pi)
    (hs : eps < Real.sin (x.phi.norm / 2)) (hc : eps < Real.cos (x.phi.norm / 2)) : sim3LogExp eps x = x := by
  have e := SO3Log_so3Exp_r1 eps x.phi h0 h hpi hs hc
  have hdet : (rxso3Ws eps ⟨x.phi, x.sigma⟩).det ≠ 0 :=
    rxso3Ws_det_ne_zero eps _ h0 (by show x.phi.norm < 2 * Real.pi; linarith [Real.pi_pos])
  unfold sim3LogExp Sim3Log sim3Exp rxso3Exp RxSO3Log
  simp only [exp_real, log_real]
  rw [e, Real.log_exp, Mat3.inv_mulVec_mulVec _ hdet]

theorem Sim3_log_exp_band (eps : ℝ) (x : sim3 ℝ) (h0 : 0 ≤ eps) (hlo : Real.pi * eps < x.phi.norm)
    (hhi : x.phi.norm < Real.pi * (1 - eps)) : sim3LogExp eps x = x := by
  have hb := band_sin_cos eps x.phi.norm h0 hlo hhi
  have h3 : (3 : ℝ) < Real.pi := Real.pi_gt_three
  exact Sim3_log_exp eps x h0 (by nlinarith) (by nlinarith) hb.1 hb.2

theorem Sim3_log_neg (eps : ℝ) (X : Sim3 ℝ) (_hq : X.q.normSq = 1) (hw : X.q.w ≠ 0) :
    Sim3LogNeg eps X = Sim3Log eps X := by
  unfold Sim3LogNeg Sim3negQ Sim3Log RxSO3Log
  simp only []
  rw [SO3Log_neg' eps X.q (Or.inl hw)]

/-- `Log (Inv X) = -Log X` on Sim3, closed-form regime of the coupling matrix (`|log s| > eps`; the rotation angle is
above `eps` by regime 1): uses `W(−φ,−σ) = e^{−σ}·R(φ)ᵀ·W(φ,σ)` and the invertibility of `W`.  PARTIAL w.r.t. the clause:
for `0 < |log s| ≤ eps` (series regime of `W`: the code uses `C = 1` while the scale is `e^σ ≠ 1`) and in regimes 2/3 of
the quaternion logarithm the identity holds to `O(eps)·‖t‖` only — measured by correspondence (`loginv`), not proved;
`s = 1` exactly is `Sim3_log_inv_unit_scale`. -/
theorem Sim3_log_inv_partial (eps : ℝ) (X : Sim3 ℝ) (hq : X.q.normSq = 1) (hs : 0 < X.s) (h0 : 0 ≤ eps) (he1 : eps ≤ 1)
    (h1 : eps < X.q.vec.norm) (h2 : eps < |X.q.w|) (h3 : eps < |Real.log X.s|) :
    Sim3LogInv eps X = sim3.neg (Sim3Log eps X) := by
  obtain ⟨ha, hb, _, _⟩ := SO3Log_r1_angle eps X.q hq h0 he1 h1 h2
  have hact : X.q.conj.act X.t = (so3Exp eps (SO3Log eps X.q)).conj.act X.t := by
    rcases lt_or_gt_of_ne (abs_pos.mp (lt_of_le_of_lt h0 h2)) with hw | hw
    · have e := SO3_exp_log_neg eps X.q hq h0 he1 h1 (by rw [abs_of_neg hw] at h2; linarith)
      unfold SO3ExpLog SO3negQ at e
      rw [e, Quat.conj_neg_act]
    · have e := SO3_exp_log_pos eps X.q hq h0 he1 h1 (by rw [abs_of_pos hw] at h2; exact h2)
      unfold SO3ExpLog at e
      rw [e]
  have hdet : (rxso3Ws eps ⟨SO3Log eps X.q, Real.log X.s⟩).det ≠ 0 :=
    rxso3Ws_det_ne_zero eps _ h0 (by show (SO3Log eps X.q).norm < 2 * Real.pi; linarith [Real.pi_pos])
  have hdet' : (rxso3Ws eps ⟨(SO3Log eps X.q).neg, -Real.log X.s⟩).det ≠ 0 :=
    rxso3Ws_det_ne_zero eps _ h0 (by
      show (SO3Log eps X.q).neg.norm < 2 * Real.pi
      rw [Vec3.norm_neg]; linarith [Real.pi_pos])
  have hW := rxso3Ws_neg_r4 eps (SO3Log eps X.q) (Real.log X.s) h0 ha h3
  have key : ((X.q.conj.act X.t).smul (1 / X.s)).neg =
      (rxso3Ws eps ⟨(SO3Log eps X.q).neg, -Real.log X.s⟩).mulVec
        ((rxso3Ws eps ⟨SO3Log eps X.q, Real.log X.s⟩).inv.mulVec X.t).neg := by
    rw [Mat3.mulVec_neg, hW, Mat3.smul_mulVec, Mat3.mul_mulVec, Mat3.mulVec_inv_mulVec _ hdet, Real.exp_log hs,
      hact, so3Exp_conj_act eps _ ha]
  unfold Sim3LogInv Sim3Inv Sim3Log RxSO3Log sim3.neg
  simp only [log_real, k_real, Nat.cast_one]
  rw [SO3Log_conj, one_div, Real.log_inv, ← one_div, key, Mat3.inv_mulVec_mulVec _ hdet']

/-- `Log (Inv X) = -Log X` on Sim3 with scale exactly `1` (`σ = 0`: regime 2 of the coupling matrix) -/
theorem Sim3_log_inv_unit_scale (eps : ℝ) (X : Sim3 ℝ) (hq : X.q.normSq = 1) (hs1 : X.s = 1) (h0 : 0 ≤ eps)
    (he1 : eps ≤ 1) (h1 : eps < X.q.vec.norm) (h2 : eps < |X.q.w|) :
    Sim3LogInv eps X = sim3.neg (Sim3Log eps X) := by
  obtain ⟨ha, hb, _, _⟩ := SO3Log_r1_angle eps X.q hq h0 he1 h1 h2
  have hact : X.q.conj.act X.t = (so3Exp eps (SO3Log eps X.q)).conj.act X.t := by
    rcases lt_or_gt_of_ne (abs_pos.mp (lt_of_le_of_lt h0 h2)) with hw | hw
    · have e := SO3_exp_log_neg eps X.q hq h0 he1 h1 (by rw [abs_of_neg hw] at h2; linarith)
      unfold SO3ExpLog SO3negQ at e
      rw [e, Quat.conj_neg_act]
    · have e := SO3_exp_log_pos eps X.q hq h0 he1 h1 (by rw [abs_of_pos hw] at h2; exact h2)
      unfold SO3ExpLog at e
      rw [e]
  have hdet : (rxso3Ws eps ⟨SO3Log eps X.q, 0⟩).det ≠ 0 :=
    rxso3Ws_det_ne_zero eps _ h0 (by show (SO3Log eps X.q).norm < 2 * Real.pi; linarith [Real.pi_pos])
  have hdet' : (rxso3Ws eps ⟨(SO3Log eps X.q).neg, 0⟩).det ≠ 0 :=
    rxso3Ws_det_ne_zero eps _ h0 (by
      show (SO3Log eps X.q).neg.norm < 2 * Real.pi
      rw [Vec3.norm_neg]; linarith [Real.pi_pos])
  have hW := rxso3Ws_neg_r2 eps (SO3Log eps X.q) h0 ha
  have key : ((X.q.conj.act X.t).smul 1).neg =
      (rxso3Ws eps ⟨(SO3Log eps X.q).neg, 0⟩).mulVec ((rxso3Ws eps ⟨SO3Log eps X.q, 0⟩).inv.mulVec X.t).neg := by
    rw [Mat3.mulVec_neg, hW, Mat3.mul_mulVec, Mat3.mulVec_inv_mulVec _ hdet, hact, so3Exp_conj_act eps _ ha,
      Vec3.smul_one]
  unfold Sim3LogInv Sim3Inv Sim3Log RxSO3Log sim3.neg
  simp only [log_real, k_real, Nat.cast_one]
  rw [SO3Log_conj, hs1, div_one, Real.log_one, neg_zero, key, Mat3.inv_mulVec_mulVec _ hdet']

/-! ## zero rotation, rotation-norm corollaries for the bigger groups -/

/-- `x = 0` (Taylor branch of `Exp`, regime 3 of `Log`): exact -/
theorem so3_log_exp_zero (eps : ℝ) (h0 : 0 ≤ eps) : so3LogExp eps (Vec3.zero : Vec3 ℝ) = Vec3.zero := by
  unfold so3LogExp; rw [so3Exp_zero eps h0, SO3Log_one]

/-- pure translations round-trip exactly -/
theorem SE3_log_exp_zero_rot (eps : ℝ) (h0 : 0 ≤ eps) (tau : Vec3 ℝ) :
    se3LogExp eps ⟨tau, Vec3.zero⟩ = ⟨tau, Vec3.zero⟩ := by
  have hz : ¬ eps < (Vec3.zero : Vec3 ℝ).norm := by rw [Vec3.zero_norm]; exact not_lt.mpr h0
  unfold se3LogExp SE3Log se3Exp
  simp only []
  rw [so3Exp_zero eps h0, SO3Log_one, so3Jl_taylor eps _ hz, so3JlInv_taylor eps _ hz, polyK_zero, polyK_zero,
    Mat3.smul_one_mulVec, Mat3.smul_one_mulVec, Vec3.smul_one, Vec3.smul_one]

/-- pure translation + scaling (no rotation) round-trips exactly, for every `σ` (regimes 1 and 3 of `rxso3_Ws`) -/
theorem Sim3_log_exp_zero_rot (eps : ℝ) (h0 : 0 ≤ eps) (tau : Vec3 ℝ) (sg : ℝ) :
    sim3LogExp eps ⟨tau, Vec3.zero, sg⟩ = ⟨tau, Vec3.zero, sg⟩ := by
  have hdet : (rxso3Ws eps ⟨Vec3.zero, sg⟩).det ≠ 0 :=
    rxso3Ws_det_ne_zero eps _ h0 (by show (Vec3.zero : Vec3 ℝ).norm < 2 * Real.pi; rw [Vec3.zero_norm]; linarith [Real.pi_pos])
  unfold sim3LogExp Sim3Log sim3Exp rxso3Exp RxSO3Log
  simp only [exp_real, log_real]
  rw [so3Exp_zero eps h0, SO3Log_one, Real.log_exp, Mat3.inv_mulVec_mulVec _ hdet]

theorem rxso3_log_exp_zero_rot (eps : ℝ) (h0 : 0 ≤ eps) (sg : ℝ) :
    rxso3LogExp eps ⟨Vec3.zero, sg⟩ = ⟨Vec3.zero, sg⟩ := by
  unfold rxso3LogExp RxSO3Log rxso3Exp
  simp only [exp_real, log_real]
  rw [so3Exp_zero eps h0, SO3Log_one, Real.log_exp]

/-- the rotation part of `Log X` has norm at most `π` on SE3, RxSO3, Sim3 as well (it is `SO3Log` of the quaternion) -/
theorem SE3_log_rot_norm_le_pi (eps : ℝ) (X : SE3 ℝ) (hq : X.q.normSq = 1) (h0 : 0 ≤ eps) (he : eps ≤ 1 / 2) :
    (SE3Log eps X).phi.norm ≤ Real.pi := SO3_log_norm_le_pi eps X.q hq h0 he
theorem RxSO3_log_rot_norm_le_pi (eps : ℝ) (X : RxSO3 ℝ) (hq : X.q.normSq = 1) (h0 : 0 ≤ eps) (he : eps ≤ 1 / 2) :
    (RxSO3Log eps X).phi.norm ≤ Real.pi := SO3_log_norm_le_pi eps X.q hq h0 he
theorem Sim3_log_rot_norm_le_pi (eps : ℝ) (X : Sim3 ℝ) (hq : X.q.normSq = 1) (h0 : 0 ≤ eps) (he : eps ≤ 1 / 2) :
    (Sim3Log eps X).phi.norm ≤ Real.pi := SO3_log_norm_le_pi eps X.q hq h0 he

/-- RxSO3, regime 2: scale recovered exactly, rotation part the regime-2 value -/
theorem RxSO3_exp_log_near_pi (eps : ℝ) (X : RxSO3 ℝ) (hs : 0 < X.s) (h0 : 0 ≤ eps) (hpi : eps < Real.pi)
    (h1 : eps < X.q.vec.norm) (h2 : ¬ eps < |X.q.w|) :
    RxSO3ExpLog eps X = ⟨Quat.mk' (X.q.vec.smul (spm X.q.w / X.q.vec.norm)) 0, X.s⟩ := by
  unfold RxSO3ExpLog rxso3Exp RxSO3Log
  simp only [exp_real, log_real]
  rw [so3Exp_SO3Log_r2 eps X.q h0 hpi h1 h2, Real.exp_log hs]

/-! ## `Exp ∘ Log` for every valid element: all regimes, block structure on the bigger groups -/

/-- `Exp (Log q)` is the same rotation as `q` up to the accuracy of the arithmetic — EVERY unit quaternion, all three regimes of
`SO3_Log`, both branches of `so3_Exp`, both hemispheres: within `√2·eps` (in ℝ⁴) of `q` or of `-q`. -/
theorem SO3_exp_log_all (eps : ℝ) (q : Quat ℝ) (hq : q.normSq = 1) (h0 : 0 ≤ eps) (he : eps ≤ 1 / 4) :
    Quat.distSq (SO3ExpLog eps q) q ≤ 2 * eps ^ 2 ∨ Quat.distSq (SO3ExpLog eps q) (SO3negQ q) ≤ 2 * eps ^ 2 := by
  by_cases h1 : eps < q.vec.norm
  · exact SO3_exp_log_any eps q hq h0 (by linarith) h1
  · have h := SO3_exp_log_regime3 eps q hq h0 he h1
    have hu := unit_parts q hq
    have hn0 := Vec3.norm_nonneg q.vec
    have hw2 : 3 / 4 ≤ q.w * q.w := by nlinarith [not_lt.mp h1]
    have hw : q.w ≠ 0 := by intro h'; rw [h'] at hw2; norm_num at hw2
    have he8 : eps ^ 8 ≤ 2 * eps ^ 2 := by
      have : eps ^ 8 = eps ^ 2 * eps ^ 6 := by ring
      rw [this]
      have h6 : eps ^ 6 ≤ 1 := pow_le_one₀ h0 (by linarith)
      have h2 : 0 ≤ eps ^ 2 := by positivity
      nlinarith
    rcases lt_or_gt_of_ne hw with hneg | hpos
    · right
      rw [abs_of_neg hneg, neg_div, div_self hw, Quat.scale_neg_one] at h
      exact le_trans h he8
    · left
      rw [abs_of_pos hpos, div_self hw, Quat.scale_one] at h
      exact le_trans h he8

/-- block structure of `Exp ∘ Log` on Sim3 for EVERY valid element (unit quaternion, positive scale), all regimes of the
quaternion logarithm and of the coupling matrix: translation and scale are recovered exactly, the rotation block is the SO3
round trip -/
theorem Sim3_exp_log_blocks (eps : ℝ) (X : Sim3 ℝ) (hq : X.q.normSq = 1) (hs : 0 < X.s) (h0 : 0 ≤ eps) (he : eps ≤ 1 / 2) :
    Sim3ExpLog eps X = ⟨X.t, SO3ExpLog eps X.q, X.s⟩ := by
  have hdet : (rxso3Ws eps (RxSO3Log eps ⟨X.q, X.s⟩)).det ≠ 0 := by
    apply rxso3Ws_det_ne_zero eps _ h0
    show (SO3Log eps X.q).norm < 2 * Real.pi
    linarith [SO3_log_norm_le_pi eps X.q hq h0 he, Real.pi_pos]
  unfold Sim3ExpLog sim3Exp Sim3Log SO3ExpLog
  simp only []
  rw [Mat3.mulVec_inv_mulVec _ hdet]
  unfold rxso3Exp RxSO3Log
  simp only [exp_real, log_real]
  rw [Real.exp_log hs]

theorem RxSO3_exp_log_blocks (eps : ℝ) (X : RxSO3 ℝ) (hs : 0 < X.s) :
    RxSO3ExpLog eps X = ⟨SO3ExpLog eps X.q, X.s⟩ := by
  unfold RxSO3ExpLog rxso3Exp RxSO3Log SO3ExpLog
  simp only [exp_real, log_real]
  rw [Real.exp_log hs]

/-- SE3: the rotation block is the SO3 round trip; the translation is recovered exactly whenever the recovered angle is above the
threshold (`Jl·Jl⁻¹ = 1`, closed forms), and otherwise (`‖Log q‖ ≤ eps`) through the explicit `1 + O(θ⁴)` Taylor product -/
theorem SE3_exp_log_blocks (eps : ℝ) (X : SE3 ℝ) (hq : X.q.normSq = 1) (h0 : 0 ≤ eps) (he : eps ≤ 1 / 2) :
    (SE3ExpLog eps X).q = SO3ExpLog eps X.q ∧
    (eps < (SO3Log eps X.q).norm → (SE3ExpLog eps X).t = X.t) ∧
    (¬ eps < (SO3Log eps X.q).norm → (SE3ExpLog eps X).t =
      (polyK 1 (-((SO3Log eps X.q).normSq ^ 2) / 1440)
        (-(SO3Log eps X.q).normSq / 720 + (SO3Log eps X.q).normSq ^ 2 / 1440) (SO3Log eps X.q)).mulVec X.t) := by
  refine ⟨rfl, ?_, ?_⟩
  · intro hθ
    have hpi := SO3_log_norm_le_pi eps X.q hq h0 he
    have hpos : 0 < (SO3Log eps X.q).norm := lt_of_le_of_lt h0 hθ
    have hS : Real.sin ((SO3Log eps X.q).norm / 2) ≠ 0 :=
      ne_of_gt (Real.sin_pos_of_pos_of_lt_pi (by linarith) (by linarith [Real.pi_pos]))
    show (so3Jl eps (SO3Log eps X.q)).mulVec ((so3JlInv eps (SO3Log eps X.q)).mulVec X.t) = X.t
    rw [← Mat3.mul_mulVec, so3Jl_mul_so3JlInv eps _ h0 hθ hS, Mat3.one_mulVec]
  · intro hθ
    show (so3Jl eps (SO3Log eps X.q)).mulVec ((so3JlInv eps (SO3Log eps X.q)).mulVec X.t) = _
    rw [← Mat3.mul_mulVec, so3Jl_taylor eps _ hθ, so3JlInv_taylor eps _ hθ, polyK_mul]
    congr 2 <;> ring

/-- Sim3, EVERY valid element (unit quaternion, positive scale; all regimes of `SO3_Log`, `so3_Exp`, `rxso3_Ws`):
`Exp (Log X)` has exactly the translation and the scale of `X`, and its quaternion is within `√2·eps` of `±q` — the same
similarity transformation up to the accuracy of the arithmetic. -/
theorem Sim3_exp_log_all (eps : ℝ) (X : Sim3 ℝ) (hq : X.q.normSq = 1) (hs : 0 < X.s) (h0 : 0 ≤ eps) (he : eps ≤ 1 / 4) :
    (Sim3ExpLog eps X).t = X.t ∧ (Sim3ExpLog eps X).s = X.s ∧
      (Quat.distSq (Sim3ExpLog eps X).q X.q ≤ 2 * eps ^ 2 ∨ Quat.distSq (Sim3ExpLog eps X).q (SO3negQ X.q) ≤ 2 * eps ^ 2) := by
  rw [Sim3_exp_log_blocks eps X hq hs h0 (by linarith)]
  exact ⟨rfl, rfl, SO3_exp_log_all eps X.q hq h0 he⟩

theorem RxSO3_exp_log_all (eps : ℝ) (X : RxSO3 ℝ) (hq : X.q.normSq = 1) (hs : 0 < X.s) (h0 : 0 ≤ eps) (he : eps ≤ 1 / 4) :
    (RxSO3ExpLog eps X).s = X.s ∧
      (Quat.distSq (RxSO3ExpLog eps X).q X.q ≤ 2 * eps ^ 2 ∨ Quat.distSq (RxSO3ExpLog eps X).q (SO3negQ X.q) ≤ 2 * eps ^ 2) := by
  rw [RxSO3_exp_log_blocks eps X hs]
  exact ⟨rfl, SO3_exp_log_all eps X.q hq h0 he⟩

/-- SE3, every unit quaternion whose recovered angle is above the threshold: translation exact, quaternion within `√2·eps` of `±q`.
EXCLUDED here: rotations by less than `eps`, which includes pure translations and the identity — those are
`SE3_exp_log_pure_translation` (exact) and `SE3_exp_log_small_bound` (`‖t' − t‖ ≤ θ⁴‖t‖/223`) + `SO3_exp_log_regime3`. -/
theorem SE3_exp_log_all (eps : ℝ) (X : SE3 ℝ) (hq : X.q.normSq = 1) (h0 : 0 ≤ eps) (he : eps ≤ 1 / 4)
    (hθ : eps < (SO3Log eps X.q).norm) :
    (SE3ExpLog eps X).t = X.t ∧
      (Quat.distSq (SE3ExpLog eps X).q X.q ≤ 2 * eps ^ 2 ∨ Quat.distSq (SE3ExpLog eps X).q (SO3negQ X.q) ≤ 2 * eps ^ 2) := by
  obtain ⟨h1, h2, _⟩ := SE3_exp_log_blocks eps X hq h0 (by linarith)
  refine ⟨h2 hθ, ?_⟩
  rw [h1]; exact SO3_exp_log_all eps X.q hq h0 he

/-- SE3 elements without rotation (`v = 0`: pure translations, the identity, either sign of `w`): `Log X = (t, 0)` and
`Exp (Log X) = (t, 1)` exactly -/
theorem SE3_exp_log_pure_translation (eps : ℝ) (X : SE3 ℝ) (h0 : 0 ≤ eps) (hv : X.q.vec.norm = 0) :
    SE3Log eps X = ⟨X.t, Vec3.zero⟩ ∧ SE3ExpLog eps X = ⟨X.t, Quat.one⟩ := by
  have hz : ¬ eps < (Vec3.zero : Vec3 ℝ).norm := by rw [Vec3.zero_norm]; exact not_lt.mpr h0
  have hL := SO3_log_zero eps X.q hv
  have h1 : SE3Log eps X = ⟨X.t, Vec3.zero⟩ := by
    unfold SE3Log
    simp only []
    rw [hL, so3JlInv_taylor eps _ hz, polyK_zero, Mat3.smul_one_mulVec, Vec3.smul_one]
  refine ⟨h1, ?_⟩
  unfold SE3ExpLog
  rw [h1]
  unfold se3Exp
  simp only []
  rw [so3Jl_taylor eps _ hz, polyK_zero, Mat3.smul_one_mulVec, Vec3.smul_one, so3Exp_zero eps h0]

/-- SE3, rotation by less than `eps` (Taylor branches of `so3_Jl` and `so3_Jl_inv`): the translation of `Exp (Log X)` misses `t` by at
most `θ⁴/223·‖t‖` (`‖t' − t‖² ≤ θ⁸‖t‖²/50000`, `θ = ‖Log q‖ ≤ eps ≤ 1`) -/
theorem SE3_exp_log_small_bound (eps : ℝ) (X : SE3 ℝ) (hq : X.q.normSq = 1) (h0 : 0 ≤ eps) (he : eps ≤ 1 / 2)
    (hθ : ¬ eps < (SO3Log eps X.q).norm) :
    (((SE3ExpLog eps X).t).sub X.t).normSq ≤ (SO3Log eps X.q).normSq ^ 4 / 50000 * X.t.normSq := by
  obtain ⟨_, _, h3⟩ := SE3_exp_log_blocks eps X hq h0 he
  rw [h3 hθ, polyK_mulVec_sub]
  have hn0 := Vec3.normSq_nonneg (SO3Log eps X.q)
  have hn1 : (SO3Log eps X.q).normSq ≤ 1 := by
    rw [← Vec3.norm_sq]
    have := Vec3.norm_nonneg (SO3Log eps X.q)
    have : (SO3Log eps X.q).norm ≤ 1 / 2 := by linarith [not_lt.mp hθ]
    nlinarith
  have ht0 := Vec3.normSq_nonneg X.t
  generalize (SO3Log eps X.q) = x at *
  have c1 := Vec3.cross_normSq_le x X.t
  have c2 := Vec3.cross_normSq_le x (x.cross X.t)
  have c1n := Vec3.normSq_nonneg (x.cross X.t)
  have c2n := Vec3.normSq_nonneg (x.cross (x.cross X.t))
  have c2' : (x.cross (x.cross X.t)).normSq ≤ x.normSq * (x.normSq * X.t.normSq) := by nlinarith
  refine le_trans (Vec3.add_normSq_le _ _) ?_
  rw [Vec3.normSq_smul, Vec3.normSq_smul]
  generalize x.normSq = n at *
  generalize X.t.normSq = T at *
  generalize (x.cross X.t).normSq = A at *
  generalize (x.cross (x.cross X.t)).normSq = B at *
  have hA : A ≤ n * T := c1
  have hB : B ≤ n * (n * T) := c2'
  have ha2 : (-(n ^ 2) / 1440) * (-(n ^ 2) / 1440) = n ^ 4 / 2073600 := by ring
  have hb2 : (-n / 720 + n ^ 2 / 1440) * (-n / 720 + n ^ 2 / 1440) ≤ n ^ 2 / 518400 := by
    have : (-n / 720 + n ^ 2 / 1440) * (-n / 720 + n ^ 2 / 1440) = n ^ 2 * (n / 1440 - 1 / 720) ^ 2 := by ring
    rw [this]
    have h1 : (n / 1440 - 1 / 720) ^ 2 ≤ 1 / 518400 := by nlinarith
    have hn2 : 0 ≤ n ^ 2 := by positivity
    nlinarith
  rw [ha2]
  have hb2n : 0 ≤ (-n / 720 + n ^ 2 / 1440) * (-n / 720 + n ^ 2 / 1440) := mul_self_nonneg _
  have hnT : 0 ≤ n * T := mul_nonneg hn0 ht0
  have t1 : n ^ 4 / 2073600 * A ≤ n ^ 4 / 2073600 * (n * T) := mul_le_mul_of_nonneg_left hA (by positivity)
  have hB0 : 0 ≤ B := c2n
  have t2 : (-n / 720 + n ^ 2 / 1440) * (-n / 720 + n ^ 2 / 1440) * B ≤ n ^ 2 / 518400 * (n * (n * T)) := by
    calc _ ≤ n ^ 2 / 518400 * B := mul_le_mul_of_nonneg_right hb2 hB0
      _ ≤ n ^ 2 / 518400 * (n * (n * T)) := mul_le_mul_of_nonneg_left hB (by positivity)
  have hn5 : n ^ 5 * T ≤ n ^ 4 * T := by
    have : n ^ 5 = n ^ 4 * n := by ring
    rw [this]
    have h4 : 0 ≤ n ^ 4 * T := mul_nonneg (by positivity) ht0
    nlinarith [mul_le_mul_of_nonneg_left hn1 h4]
  nlinarith



/-! ## `Log (X⁻¹) = −Log X` beyond regime 1: backward form with an explicit perturbation bound -/

/-- `Log (X⁻¹) = −Log (X̃)` on SE3 for every unit quaternion whose recovered angle is above the threshold (regimes 1, 2 and the
upper part of 3): `X̃ = (t̃, q)` with `t̃ = (Exp(Log q)·q*)·t`, the translation turned by the round-trip defect of the quaternion -/
theorem SE3_log_inv_backward (eps : ℝ) (X : SE3 ℝ) (hq : X.q.normSq = 1) (h0 : 0 ≤ eps) (he : eps ≤ 1 / 2)
    (hθ : eps < (SO3Log eps X.q).norm) :
    SE3LogInv eps X = se3.neg (SE3Log eps ⟨((SO3ExpLog eps X.q).mul X.q.conj).act X.t, X.q⟩) := by
  have hpi := SO3_log_norm_le_pi eps X.q hq h0 he
  have hpos : 0 < (SO3Log eps X.q).norm := lt_of_le_of_lt h0 hθ
  have hS : Real.sin ((SO3Log eps X.q).norm / 2) ≠ 0 :=
    ne_of_gt (Real.sin_pos_of_pos_of_lt_pi (by linarith) (by linarith [Real.pi_pos]))
  have hE : (so3Exp eps (SO3Log eps X.q)).normSq = 1 := so3Exp_normSq_closed eps _ h0 hθ
  have hqc : X.q.conj.normSq = 1 := by rw [Quat.normSq_conj, hq]
  unfold SE3LogInv SE3Inv SE3Log se3.neg SO3ExpLog
  simp only []
  rw [SO3Log_conj, Mat3.mulVec_neg, so3JlInv_neg_mulVec eps _ h0 hθ hS, Quat.act_mul _ _ hE hqc]
/-- size of the translation perturbation in the backward statements: `‖t̃ − t‖² ≤ 8·eps²·‖t‖²` for every unit quaternion
(all regimes; `0` in regime 1) -/
theorem log_inv_backward_bound (eps : ℝ) (q : Quat ℝ) (t : Vec3 ℝ) (hq : q.normSq = 1) (h0 : 0 ≤ eps) (he : eps ≤ 1 / 4)
    (hθ : eps < (SO3Log eps q).norm) :
    ((((SO3ExpLog eps q).mul q.conj).act t).sub t).normSq ≤ 8 * eps ^ 2 * t.normSq := by
  have hE : (SO3ExpLog eps q).normSq = 1 := so3Exp_normSq_closed eps _ h0 hθ
  have hr : ((SO3ExpLog eps q).mul q.conj).normSq = 1 := by rw [Quat.normSq_mul, hE, Quat.normSq_conj, hq]; ring
  have h1 := Quat.act_sub_normSq_le _ hr t
  have htn := Vec3.normSq_nonneg t
  have hu : ((SO3ExpLog eps q).mul q.conj).vec.normSq ≤ 2 * eps ^ 2 := by
    rcases SO3_exp_log_all eps q hq h0 he with h | h
    · have := Quat.vec_mul_conj_le (SO3ExpLog eps q) q hq 1
      rw [Quat.scale_one] at this; linarith
    · have := Quat.vec_mul_conj_le (SO3ExpLog eps q) q hq (-1)
      rw [Quat.scale_neg_one] at this
      unfold SO3negQ at h; linarith
  nlinarith

/-- `Log (X⁻¹) = −Log (X̃)` on Sim3 (closed-form regime of the coupling matrix, `|log s| > eps`; recovered angle above the
threshold): same `X̃ = (t̃, q, s)` as on SE3 -/
theorem Sim3_log_inv_backward (eps : ℝ) (X : Sim3 ℝ) (hq : X.q.normSq = 1) (hs : 0 < X.s) (h0 : 0 ≤ eps) (he : eps ≤ 1 / 2)
    (hθ : eps < (SO3Log eps X.q).norm) (h3 : eps < |Real.log X.s|) :
    Sim3LogInv eps X = sim3.neg (Sim3Log eps ⟨((SO3ExpLog eps X.q).mul X.q.conj).act X.t, X.q, X.s⟩) := by
  have hpi := SO3_log_norm_le_pi eps X.q hq h0 he
  have hE : (so3Exp eps (SO3Log eps X.q)).normSq = 1 := so3Exp_normSq_closed eps _ h0 hθ
  have hqc : X.q.conj.normSq = 1 := by rw [Quat.normSq_conj, hq]
  have hdet : (rxso3Ws eps ⟨SO3Log eps X.q, Real.log X.s⟩).det ≠ 0 :=
    rxso3Ws_det_ne_zero eps _ h0 (by show (SO3Log eps X.q).norm < 2 * Real.pi; linarith [Real.pi_pos])
  have hdet' : (rxso3Ws eps ⟨(SO3Log eps X.q).neg, -Real.log X.s⟩).det ≠ 0 :=
    rxso3Ws_det_ne_zero eps _ h0 (by
      show (SO3Log eps X.q).neg.norm < 2 * Real.pi
      rw [Vec3.norm_neg]; linarith [Real.pi_pos])
  have hW := rxso3Ws_neg_r4 eps (SO3Log eps X.q) (Real.log X.s) h0 hθ h3
  have key : ((X.q.conj.act X.t).smul (1 / X.s)).neg =
      (rxso3Ws eps ⟨(SO3Log eps X.q).neg, -Real.log X.s⟩).mulVec
        ((rxso3Ws eps ⟨SO3Log eps X.q, Real.log X.s⟩).inv.mulVec
          (((so3Exp eps (SO3Log eps X.q)).mul X.q.conj).act X.t)).neg := by
    rw [Mat3.mulVec_neg, hW, Mat3.smul_mulVec, Mat3.mul_mulVec, Mat3.mulVec_inv_mulVec _ hdet, Real.exp_log hs,
      ← so3Exp_conj_act eps _ hθ, Quat.act_mul _ _ hE hqc, Quat.conj_act_act _ hE]
  unfold Sim3LogInv Sim3Inv Sim3Log RxSO3Log sim3.neg SO3ExpLog
  simp only [log_real, k_real, Nat.cast_one]
  rw [SO3Log_conj, one_div, Real.log_inv, ← one_div, key, Mat3.inv_mulVec_mulVec _ hdet']

/-! ## action-level "same transformation" -/

/-- `Exp (Log q)` ACTS like `q` on every point up to `2√2·eps·‖p‖`: unit `q`, all regimes of `SO3_Log` (both hemispheres), recovered
angle above the threshold (for rotations by less than `eps` the Taylor branch of `so3_Exp` is not exactly unit and only the
quaternion-level bound `SO3_exp_log_regime3` is proved) -/
theorem SO3_exp_log_act_all (eps : ℝ) (q : Quat ℝ) (p : Vec3 ℝ) (hq : q.normSq = 1) (h0 : 0 ≤ eps) (he : eps ≤ 1 / 4)
    (hθ : eps < (SO3Log eps q).norm) :
    (((SO3ExpLog eps q).act p).sub (q.act p)).normSq ≤ 8 * eps ^ 2 * p.normSq := by
  have hE : (SO3ExpLog eps q).normSq = 1 := so3Exp_normSq_closed eps _ h0 hθ
  have hqc : q.conj.normSq = 1 := by rw [Quat.normSq_conj, hq]
  have h := log_inv_backward_bound eps q (q.act p) hq h0 he hθ
  rw [Quat.act_mul _ _ hE hqc, Quat.conj_act_act q hq, Quat.act_normSq q hq] at h
  exact h

/-- … and so does `Exp (Log X)` on Sim3: `‖Exp(Log X)·p − X·p‖² ≤ 8·eps²·s²·‖p‖²` (translation and scale are exact) -/
theorem Sim3_exp_log_act_all (eps : ℝ) (X : Sim3 ℝ) (p : Vec3 ℝ) (hq : X.q.normSq = 1) (hs : 0 < X.s) (h0 : 0 ≤ eps)
    (he : eps ≤ 1 / 4) (hθ : eps < (SO3Log eps X.q).norm) :
    ((Sim3Act (Sim3ExpLog eps X) p).sub (Sim3Act X p)).normSq ≤ 8 * eps ^ 2 * (X.s ^ 2 * p.normSq) := by
  rw [Sim3_exp_log_blocks eps X hq hs h0 (by linarith)]
  unfold Sim3Act
  simp only []
  have h := SO3_exp_log_act_all eps X.q p hq h0 he hθ
  have e : ((X.t.add (((SO3ExpLog eps X.q).act p).smul X.s)).sub (X.t.add ((X.q.act p).smul X.s)))
      = (((SO3ExpLog eps X.q).act p).sub (X.q.act p)).smul X.s := by ext <;> lie_unfold <;> ring
  rw [e, Vec3.normSq_smul]
  have hs2 : 0 ≤ X.s * X.s := mul_self_nonneg _
  nlinarith

theorem SE3_exp_log_act_all (eps : ℝ) (X : SE3 ℝ) (p : Vec3 ℝ) (hq : X.q.normSq = 1) (h0 : 0 ≤ eps)
    (he : eps ≤ 1 / 4) (hθ : eps < (SO3Log eps X.q).norm) :
    ((SE3Act (SE3ExpLog eps X) p).sub (SE3Act X p)).normSq ≤ 8 * eps ^ 2 * p.normSq := by
  obtain ⟨h1, h2, _⟩ := SE3_exp_log_blocks eps X hq h0 (by linarith)
  unfold SE3Act
  rw [h1, h2 hθ]
  have h := SO3_exp_log_act_all eps X.q p hq h0 he hθ
  have e : ((X.t.add ((SO3ExpLog eps X.q).act p)).sub (X.t.add (X.q.act p)))
      = ((SO3ExpLog eps X.q).act p).sub (X.q.act p) := by ext <;> lie_unfold <;> ring
  rw [e]; exact h


/-- `so3_log_exp_small` with the sign of the defect: `−θ⁴/50 ≤ δ ≤ 0` (the recovered vector is never longer than `x`, so it stays in
the Taylor branch of `so3_Jl_inv`) -/
theorem so3_log_exp_small_signed (eps : ℝ) (x : Vec3 ℝ) (h0 : 0 ≤ eps) (he1 : eps ≤ 1) (h : ¬ eps < x.norm) :
    ∃ δ : ℝ, so3LogExp eps x = x.smul (1 + δ) ∧ -(x.normSq ^ 2 / 50) ≤ δ ∧ δ ≤ 0 := by
  have hθ0 := Vec3.norm_nonneg x
  have hθ : x.norm ≤ eps := not_lt.mp h
  have hn : x.norm * x.norm = x.normSq := Vec3.norm_sq x
  have hn0 : 0 ≤ x.normSq := Vec3.normSq_nonneg x
  have hn1 : x.normSq ≤ 1 := by rw [← hn]; nlinarith
  have hE := so3Exp_taylor eps x h
  generalize hc : 1 / 2 - 1 / 48 * x.normSq + 1 / 3840 * (x.normSq * x.normSq) = c at hE
  generalize hw : 1 - 1 / 8 * x.normSq + 1 / 384 * (x.normSq * x.normSq) = w at hE
  have hc0 : 0 < c := by rw [← hc]; nlinarith
  have hc1 : c ≤ 1 / 2 + 1 / 3840 := by rw [← hc]; nlinarith
  have hw0 : 7 / 8 ≤ w := by rw [← hw]; nlinarith
  have hw1 : w ≤ 1 + 1 / 384 := by rw [← hw]; nlinarith
  have hvn : (so3Exp eps x).vec.norm = c * x.norm := by
    rw [hE, Quat.mk'_vec, Vec3.norm_smul, abs_of_pos hc0]
  have hr3 : ¬ eps < (so3Exp eps x).vec.norm := by rw [hvn]; nlinarith
  refine ⟨c * (2 * (1 / w - c * x.norm * (c * x.norm) / (3 * (w * w * w)))) - 1, ?_, ?_⟩
  · unfold so3LogExp
    rw [SO3Log_r3 eps _ hr3, hvn, hE, Quat.mk'_vec, Quat.mk'_w, Vec3.smul_smul]
    congr 1; ring
  · have hw3 : 0 < 3 * (w * w * w) := by positivity
    have key : c * (2 * (1 / w - c * x.norm * (c * x.norm) / (3 * (w * w * w)))) - 1
        = (6 * c * (w * w) - 2 * x.normSq * (c * c * c) - 3 * (w * w * w)) / (3 * (w * w * w)) := by
      rw [← hn]; field_simp; ring
    have hN : 6 * c * (w * w) - 2 * x.normSq * (c * c * c) - 3 * (w * w * w)
        = -(x.normSq ^ 2 * ((x.normSq ^ 5 + 960 * x.normSq ^ 4 - 138240 * x.normSq ^ 3 + 6860800 * x.normSq ^ 2
            - 143769600 * x.normSq + 1061683200) / 28311552000)) := by
      rw [← hc, ← hw]; ring
    rw [key, hN]
    generalize x.normSq = n at hn0 hn1 ⊢
    have p5 : n ^ 5 ≤ n := pow_le_of_le_one hn0 hn1 (by norm_num)
    have p4 : n ^ 4 ≤ n := pow_le_of_le_one hn0 hn1 (by norm_num)
    have p3 : n ^ 3 ≤ n := pow_le_of_le_one hn0 hn1 (by norm_num)
    have p2 : n ^ 2 ≤ n := pow_le_of_le_one hn0 hn1 (by norm_num)
    have q5 : 0 ≤ n ^ 5 := by positivity
    have q4 : 0 ≤ n ^ 4 := by positivity
    have q3 : 0 ≤ n ^ 3 := by positivity
    have q2 : 0 ≤ n ^ 2 := by positivity
    obtain ⟨Q, hQ⟩ : ∃ Q, Q = (n ^ 5 + 960 * n ^ 4 - 138240 * n ^ 3 + 6860800 * n ^ 2 - 143769600 * n + 1061683200) / 28311552000 :=
      ⟨_, rfl⟩
    have hQ0 : 0 ≤ Q := by rw [hQ]; apply div_nonneg _ (by norm_num); linarith only [q5, q4, q2, p3, hn1, hn0]
    have hQ1 : Q ≤ 3 / 80 := by rw [hQ, div_le_iff₀ (by norm_num)]; linarith only [p5, p4, p2, q3, hn0]
    rw [← hQ]
    have hww : (49 : ℝ) / 64 ≤ w * w := by nlinarith only [hw0]
    have hwww : (343 : ℝ) / 512 ≤ w * w * w := by
      have := mul_le_mul hww hw0 (by norm_num) (by positivity)
      linarith only [this]
    have hw3' : (2 : ℝ) ≤ 3 * (w * w * w) := by linarith only [hwww]
    have hnq : 0 ≤ n ^ 2 * Q := mul_nonneg q2 hQ0
    have h1 : n ^ 2 * Q ≤ n ^ 2 * (3 / 80) := mul_le_mul_of_nonneg_left hQ1 q2
    have h2 : n ^ 2 / 50 * 2 ≤ n ^ 2 / 50 * (3 * (w * w * w)) := mul_le_mul_of_nonneg_left hw3' (by positivity)
    constructor
    · rw [neg_div, neg_le_neg_iff, div_le_iff₀ hw3]
      linarith only [h1, h2, q2]
    · rw [neg_div]
      exact neg_nonpos.mpr (div_nonneg hnq (le_of_lt hw3))


/-- `Log (Exp ξ)` on se3 for rotations by at most `eps` (Taylor branches of `so3_Exp`, `so3_Jl`, `so3_Jl_inv`, regime 3 of `SO3_Log`):
the rotation block is `(1+δ)·φ` with `|δ| ≤ θ⁴/50` and the translation block misses `τ` by at most `θ⁴‖τ‖/26`
(`‖τ' − τ‖² ≤ θ⁸‖τ‖²/700`) — the clause "Log(Exp x) = x, angles dense near 0" for SE3, translation included. -/
theorem se3_log_exp_small (eps : ℝ) (x : se3 ℝ) (h0 : 0 ≤ eps) (he1 : eps ≤ 1) (h : ¬ eps < x.phi.norm) :
    ∃ δ : ℝ, (se3LogExp eps x).phi = x.phi.smul (1 + δ) ∧ |δ| ≤ x.phi.normSq ^ 2 / 50 ∧
      ((se3LogExp eps x).tau.sub x.tau).normSq ≤ x.phi.normSq ^ 4 / 700 * x.tau.normSq := by
  obtain ⟨δ, hφ, hd1, hd0⟩ := so3_log_exp_small_signed eps x.phi h0 he1 h
  have hθ0 := Vec3.norm_nonneg x.phi
  have hθ : x.phi.norm ≤ eps := not_lt.mp h
  have hn0 : 0 ≤ x.phi.normSq := Vec3.normSq_nonneg x.phi
  have hn1 : x.phi.normSq ≤ 1 := by rw [← Vec3.norm_sq]; nlinarith
  have hn2 : x.phi.normSq ^ 2 ≤ 1 := by nlinarith
  have hc0 : 0 ≤ 1 + δ := by nlinarith
  have hθ' : ¬ eps < (x.phi.smul (1 + δ)).norm := by
    rw [Vec3.norm_smul, abs_of_nonneg hc0]; nlinarith
  refine ⟨δ, hφ, by rw [abs_le]; constructor <;> linarith, ?_⟩
  have htau : (se3LogExp eps x).tau = (so3JlInv eps (so3LogExp eps x.phi)).mulVec ((so3Jl eps x.phi).mulVec x.tau) := rfl
  rw [htau, hφ, so3JlInv_taylor eps _ hθ', polyK_smul_arg, so3Jl_taylor eps _ h, ← Mat3.mul_mulVec, polyK_mul, show (1 : ℝ) * 1 = 1 from one_mul 1, polyK_mulVec_sub]
  obtain ⟨hB, hC⟩ := jl_taylor_pert_coefs x.phi.normSq δ hn0 hn1 hd0 hd1
  have ht0 := Vec3.normSq_nonneg x.tau
  have c1 := Vec3.cross_normSq_le x.phi x.tau
  have c2 := Vec3.cross_normSq_le x.phi (x.phi.cross x.tau)
  have c1n := Vec3.normSq_nonneg (x.phi.cross x.tau)
  have c2n := Vec3.normSq_nonneg (x.phi.cross (x.phi.cross x.tau))
  refine le_trans (Vec3.add_normSq_le _ _) ?_
  rw [Vec3.normSq_smul, Vec3.normSq_smul]
  generalize x.phi.normSq = n at *
  generalize x.tau.normSq = T at *
  generalize (x.phi.cross x.tau).normSq = A at *
  generalize (x.phi.cross (x.phi.cross x.tau)).normSq = Bn at *
  generalize 1 * (1 / 2 - 1 / 24 * n) + -(1 / 2) * (1 + δ) * 1 -
        n * (-(1 / 2) * (1 + δ) * (1 / 6 - 1 / 120 * n) + 1 / 12 * ((1 + δ) * (1 + δ)) * (1 / 2 - 1 / 24 * n)) = b at *
  generalize 1 * (1 / 6 - 1 / 120 * n) + 1 / 12 * ((1 + δ) * (1 + δ)) * 1 + -(1 / 2) * (1 + δ) * (1 / 2 - 1 / 24 * n) -
        n * (1 / 12 * ((1 + δ) * (1 + δ)) * (1 / 6 - 1 / 120 * n)) = c at *
  have hb2 : b * b ≤ (n ^ 2 / 40) * (n ^ 2 / 40) := by
    have := abs_mul_abs_self b
    have h1 := mul_le_mul hB hB (abs_nonneg b) (by positivity)
    linarith
  have hc2 : c * c ≤ (n / 200) * (n / 200) := by
    have := abs_mul_abs_self c
    have h1 := mul_le_mul hC hC (abs_nonneg c) (by positivity)
    linarith
  have hBn : Bn ≤ n * (n * T) := by nlinarith
  have t1 : b * b * A ≤ (n ^ 2 / 40) * (n ^ 2 / 40) * (n * T) := mul_le_mul hb2 c1 c1n (by positivity)
  have t2 : c * c * Bn ≤ (n / 200) * (n / 200) * (n * (n * T)) := mul_le_mul hc2 hBn c2n (by positivity)
  have hn5 : n ^ 5 * T ≤ n ^ 4 * T := by
    have : n ^ 5 = n ^ 4 * n := by ring
    rw [this]
    have h4 : 0 ≤ n ^ 4 * T := mul_nonneg (by positivity) ht0
    nlinarith [mul_le_mul_of_nonneg_left hn1 h4]
  have hn4T : 0 ≤ n ^ 4 * T := mul_nonneg (by positivity) ht0
  nlinarith

/-- `Log (Exp ξ)` on sim3 for rotations by at most `eps ≤ 1/2`, stated in terms of the coefficients `(A, B, C)` that `rxso3_Ws` uses
there (regimes 1 and 3: they depend on `σ` only): rotation block `(1+δ)φ` with `|δ| ≤ θ⁴/50`, log-scale exact, and — PROVIDED
`|A| ≤ |C|` and `|B| ≤ |C|` — translation block within `θ⁵‖τ‖/17` of `τ` (`‖τ'−τ‖² ≤ θ¹⁰‖τ‖²/300`). The coefficient hypotheses
hold in both regimes (`sim3_log_exp_small_unit`: A = 1/2, B = 1/6, C = 1; `ws3_A_le_C`, `ws3_B_le_C` for `|σ| > eps`), which gives the
unconditional `sim3_log_exp_small`. -/
theorem sim3_log_exp_small_of_coef (eps : ℝ) (x : sim3 ℝ) (h0 : 0 ≤ eps) (he : eps ≤ 1 / 2) (h : ¬ eps < x.phi.norm)
    (hA : |(rxso3WsCoef eps x.phi.norm x.sigma).1| ≤ |(rxso3WsCoef eps x.phi.norm x.sigma).2.2|)
    (hB : |(rxso3WsCoef eps x.phi.norm x.sigma).2.1| ≤ |(rxso3WsCoef eps x.phi.norm x.sigma).2.2|)
    (hC : (rxso3WsCoef eps x.phi.norm x.sigma).2.2 ≠ 0) :
    ∃ δ : ℝ, (sim3LogExp eps x).phi = x.phi.smul (1 + δ) ∧ |δ| ≤ x.phi.normSq ^ 2 / 50 ∧ (sim3LogExp eps x).sigma = x.sigma ∧
      ((sim3LogExp eps x).tau.sub x.tau).normSq ≤ x.phi.normSq ^ 5 / 300 * x.tau.normSq := by
  obtain ⟨δ, hφ, hd1, hd0⟩ := so3_log_exp_small_signed eps x.phi h0 (by linarith) h
  have hθ0 := Vec3.norm_nonneg x.phi
  have hθ : x.phi.norm ≤ eps := not_lt.mp h
  have hn0 : 0 ≤ x.phi.normSq := Vec3.normSq_nonneg x.phi
  have hn14 : x.phi.normSq ≤ 1 / 4 := by rw [← Vec3.norm_sq]; nlinarith
  have hc0 : 0 ≤ 1 + δ := by nlinarith
  have hθ' : ¬ eps < (x.phi.smul (1 + δ)).norm := by
    rw [Vec3.norm_smul, abs_of_nonneg hc0]; nlinarith
  refine ⟨δ, hφ, by rw [abs_le]; constructor <;> linarith, (show Real.log (Real.exp x.sigma) = x.sigma from Real.log_exp _), ?_⟩
  -- the translation block
  have htau : (sim3LogExp eps x).tau =
      (rxso3Ws eps ⟨so3LogExp eps x.phi, Real.log (Real.exp x.sigma)⟩).inv.mulVec ((rxso3Ws eps ⟨x.phi, x.sigma⟩).mulVec x.tau) := rfl
  rw [htau, Real.log_exp, hφ]
  have hdet : (rxso3Ws eps ⟨x.phi.smul (1 + δ), x.sigma⟩).det ≠ 0 :=
    rxso3Ws_det_ne_zero eps _ h0 (by
      show (x.phi.smul (1 + δ)).norm < 2 * Real.pi
      have := not_lt.mp hθ'
      linarith [Real.pi_gt_three])
  have hW : rxso3Ws eps ⟨x.phi, x.sigma⟩ = polyK (rxso3WsCoef eps x.phi.norm x.sigma).2.2 (rxso3WsCoef eps x.phi.norm x.sigma).1
      (rxso3WsCoef eps x.phi.norm x.sigma).2.1 x.phi := rfl
  have hW' : rxso3Ws eps ⟨x.phi.smul (1 + δ), x.sigma⟩ = polyK (rxso3WsCoef eps x.phi.norm x.sigma).2.2
      ((rxso3WsCoef eps x.phi.norm x.sigma).1 * (1 - -δ))
      ((rxso3WsCoef eps x.phi.norm x.sigma).2.1 * ((1 - -δ) * (1 - -δ))) x.phi := by
    rw [rxso3Ws_eq]
    simp only []
    rw [rxso3WsCoef_small_indep eps (x.phi.smul (1 + δ)).norm x.phi.norm x.sigma hθ' h, polyK_smul_arg]
    congr 1 <;> ring
  have hy := Mat3.mulVec_inv_mulVec _ hdet ((rxso3Ws eps ⟨x.phi, x.sigma⟩).mulVec x.tau)
  rw [hW'] at hy ⊢
  rw [hW] at hy ⊢
  exact ws_pert_bound _ _ _ (-δ) x.phi x.tau _ hC hA hB hn14 (by linarith) (by linarith) hy

/-- unconditional for (numerically) unit scale, `|σ| ≤ eps` (regime 1 of `rxso3_Ws`: A = 1/2, B = 1/6, C = 1) -/
theorem sim3_log_exp_small_unit (eps : ℝ) (x : sim3 ℝ) (h0 : 0 ≤ eps) (he : eps ≤ 1 / 2) (h : ¬ eps < x.phi.norm)
    (hs : ¬ eps < |x.sigma|) :
    ∃ δ : ℝ, (sim3LogExp eps x).phi = x.phi.smul (1 + δ) ∧ |δ| ≤ x.phi.normSq ^ 2 / 50 ∧ (sim3LogExp eps x).sigma = x.sigma ∧
      ((sim3LogExp eps x).tau.sub x.tau).normSq ≤ x.phi.normSq ^ 5 / 300 * x.tau.normSq := by
  apply sim3_log_exp_small_of_coef eps x h0 he h <;> rw [rxso3WsCoef_r1 eps _ _ hs h] <;> norm_num


/-- `Log (Exp ξ)` on sim3 for EVERY rotation by at most `eps ≤ 1/2` and EVERY log-scale `σ` (regimes 1 and 3 of `rxso3_Ws`): rotation block
`(1+δ)φ` with `|δ| ≤ θ⁴/50`, log-scale recovered exactly, translation block within `θ⁵‖τ‖/17` of `τ` (`‖τ'−τ‖² ≤ θ¹⁰‖τ‖²/300`) — the
clause "Log(Exp x) = x, angles dense near 0" for Sim3, translation included. -/
theorem sim3_log_exp_small (eps : ℝ) (x : sim3 ℝ) (h0 : 0 ≤ eps) (he : eps ≤ 1 / 2) (h : ¬ eps < x.phi.norm) :
    ∃ δ : ℝ, (sim3LogExp eps x).phi = x.phi.smul (1 + δ) ∧ |δ| ≤ x.phi.normSq ^ 2 / 50 ∧ (sim3LogExp eps x).sigma = x.sigma ∧
      ((sim3LogExp eps x).tau.sub x.tau).normSq ≤ x.phi.normSq ^ 5 / 300 * x.tau.normSq := by
  by_cases hs : eps < |x.sigma|
  · obtain ⟨hA, hC⟩ := ws3_A_le_C eps x.phi.norm x.sigma h0 hs h
    exact sim3_log_exp_small_of_coef eps x h0 he h hA (ws3_B_le_C eps x.phi.norm x.sigma h0 hs h) hC
  · exact sim3_log_exp_small_unit eps x h0 he h hs

/-- pure translations / identity of SE3 (`v = 0`, either sign of `w`): `Log (X⁻¹) = −Log X = (−t, 0)` exactly -/
theorem SE3_log_inv_pure_translation (eps : ℝ) (X : SE3 ℝ) (hq : X.q.normSq = 1) (h0 : 0 ≤ eps) (hv : X.q.vec.norm = 0) :
    SE3LogInv eps X = se3.neg (SE3Log eps X) := by
  have hz : ¬ eps < (Vec3.zero : Vec3 ℝ).norm := by rw [Vec3.zero_norm]; exact not_lt.mpr h0
  have hvz := Vec3.norm_eq_zero hv
  have hx : X.q.x = 0 := by have := congrArg Vec3.x hvz; simpa [Quat.vec, Vec3.zero] using this
  have hy : X.q.y = 0 := by have := congrArg Vec3.y hvz; simpa [Quat.vec, Vec3.zero] using this
  have hzz : X.q.z = 0 := by have := congrArg Vec3.z hvz; simpa [Quat.vec, Vec3.zero] using this
  have hw1 : X.q.w * X.q.w = 1 := by
    have : X.q.x * X.q.x + X.q.y * X.q.y + X.q.z * X.q.z + X.q.w * X.q.w = 1 := hq
    rw [hx, hy, hzz] at this; linarith
  have hcv : X.q.conj.vec.norm = 0 := by rw [Quat.vec_conj, Vec3.norm_neg]; exact hv
  have hact : X.q.conj.act X.t = X.t := by
    ext <;> lie_unfold <;> rw [hx, hy, hzz] <;> ring_nf
  have e1 := (SE3_exp_log_pure_translation eps X h0 hv).1
  have e2 := (SE3_exp_log_pure_translation eps ⟨(X.q.conj.act X.t).neg, X.q.conj⟩ h0 hcv).1
  unfold SE3LogInv SE3Inv
  simp only []
  rw [e2, e1, hact]
  unfold se3.neg
  simp only []
  congr 1
  ext <;> simp [Vec3.neg, Vec3.zero]

/-- Sim3 with scale exactly `1`, every recovered angle above the threshold (regimes 1, 2 and the upper part of 3): backward form -/
theorem Sim3_log_inv_backward_unit_scale (eps : ℝ) (X : Sim3 ℝ) (hq : X.q.normSq = 1) (hs1 : X.s = 1) (h0 : 0 ≤ eps)
    (he : eps ≤ 1 / 2) (hθ : eps < (SO3Log eps X.q).norm) :
    Sim3LogInv eps X = sim3.neg (Sim3Log eps ⟨((SO3ExpLog eps X.q).mul X.q.conj).act X.t, X.q, X.s⟩) := by
  have hpi := SO3_log_norm_le_pi eps X.q hq h0 he
  have hE : (so3Exp eps (SO3Log eps X.q)).normSq = 1 := so3Exp_normSq_closed eps _ h0 hθ
  have hqc : X.q.conj.normSq = 1 := by rw [Quat.normSq_conj, hq]
  have hdet : (rxso3Ws eps ⟨SO3Log eps X.q, 0⟩).det ≠ 0 :=
    rxso3Ws_det_ne_zero eps _ h0 (by show (SO3Log eps X.q).norm < 2 * Real.pi; linarith [Real.pi_pos])
  have hdet' : (rxso3Ws eps ⟨(SO3Log eps X.q).neg, 0⟩).det ≠ 0 :=
    rxso3Ws_det_ne_zero eps _ h0 (by
      show (SO3Log eps X.q).neg.norm < 2 * Real.pi
      rw [Vec3.norm_neg]; linarith [Real.pi_pos])
  have hW := rxso3Ws_neg_r2 eps (SO3Log eps X.q) h0 hθ
  have key : ((X.q.conj.act X.t).smul 1).neg =
      (rxso3Ws eps ⟨(SO3Log eps X.q).neg, 0⟩).mulVec
        ((rxso3Ws eps ⟨SO3Log eps X.q, 0⟩).inv.mulVec (((so3Exp eps (SO3Log eps X.q)).mul X.q.conj).act X.t)).neg := by
    rw [Mat3.mulVec_neg, hW, Mat3.mul_mulVec, Mat3.mulVec_inv_mulVec _ hdet, ← so3Exp_conj_act eps _ hθ,
      Quat.act_mul _ _ hE hqc, Quat.conj_act_act _ hE, Vec3.smul_one]
  unfold Sim3LogInv Sim3Inv Sim3Log RxSO3Log sim3.neg SO3ExpLog
  simp only [log_real, k_real, Nat.cast_one]
  rw [SO3Log_conj, hs1, div_one, Real.log_one, neg_zero, key, Mat3.inv_mulVec_mulVec _ hdet']

/-- the rotation (and log-scale) blocks of `Log ∘ Exp` on se3 / rxso3 / sim3 are those of so3: every statement about `so3LogExp`
(`so3_log_exp_zero / _small / _gap / _band / _near_pi`) transfers verbatim to the rotation block of the bigger algebras -/
theorem log_exp_rot_blocks (eps : ℝ) :
    (∀ x : se3 ℝ, (se3LogExp eps x).phi = so3LogExp eps x.phi) ∧
    (∀ x : rxso3 ℝ, (rxso3LogExp eps x).phi = so3LogExp eps x.phi ∧ (rxso3LogExp eps x).sigma = x.sigma) ∧
    (∀ x : sim3 ℝ, (sim3LogExp eps x).phi = so3LogExp eps x.phi ∧ (sim3LogExp eps x).sigma = x.sigma) := by
  refine ⟨fun x => rfl, fun x => ⟨rfl, ?_⟩, fun x => ⟨rfl, ?_⟩⟩
  · show Real.log (Real.exp x.sigma) = x.sigma
    exact Real.log_exp _
  · show Real.log (Real.exp x.sigma) = x.sigma
    exact Real.log_exp _


/-! ## pass 11: one statement for `Log (Exp x) = x` below π on so3; rxso3 near 0 -/

/-- `Log (Exp ξ)` on rxso3 for every rotation by at most `eps` and every log-scale: rotation block `(1+δ)φ` with `|δ| ≤ θ⁴/50`, log-scale
recovered exactly — with `se3_log_exp_small` and `sim3_log_exp_small` the clause "Log(Exp x) = x, angles dense near 0" holds on all
four groups -/
theorem rxso3_log_exp_small (eps : ℝ) (x : rxso3 ℝ) (h0 : 0 ≤ eps) (he1 : eps ≤ 1) (h : ¬ eps < x.phi.norm) :
    ∃ δ : ℝ, rxso3LogExp eps x = ⟨x.phi.smul (1 + δ), x.sigma⟩ ∧ |δ| ≤ x.phi.normSq ^ 2 / 50 := by
  obtain ⟨δ, hφ, hd⟩ := so3_log_exp_small eps x.phi h0 he1 h
  refine ⟨δ, ?_, hd⟩
  obtain ⟨h1, h2⟩ := (log_exp_rot_blocks eps).2.1 x
  have : rxso3LogExp eps x = ⟨(rxso3LogExp eps x).phi, (rxso3LogExp eps x).sigma⟩ := rfl
  rw [this, h1, h2, hφ]

/-- norm form of the small-angle statements: `‖Log(Exp x) − x‖ ≤ θ⁵/50` on so3 for `θ ≤ eps ≤ 1` -/
theorem so3_log_exp_small_norm (eps : ℝ) (x : Vec3 ℝ) (h0 : 0 ≤ eps) (he1 : eps ≤ 1) (h : ¬ eps < x.norm) :
    ((so3LogExp eps x).sub x).norm ≤ x.norm ^ 5 / 50 := by
  obtain ⟨δ, hφ, hd⟩ := so3_log_exp_small eps x h0 he1 h
  have e : (so3LogExp eps x).sub x = x.smul δ := by rw [hφ]; ext <;> lie_unfold <;> ring
  rw [e, Vec3.norm_smul]
  have hn := Vec3.norm_nonneg x
  have hns : x.normSq ^ 2 = x.norm ^ 4 := by rw [← Vec3.norm_sq]; ring
  rw [hns] at hd
  calc |δ| * x.norm ≤ x.norm ^ 4 / 50 * x.norm := mul_le_mul_of_nonneg_right hd hn
    _ = x.norm ^ 5 / 50 := by ring
/-- ONE statement for the clause "Log(Exp x) = x whenever the rotation angle is below π" on so3: for every `x` with `‖x‖ < π(1−eps)`
(`0 ≤ eps ≤ 1/4`), through all branches of `so3_Exp` / `SO3_Log` (Taylor, gap band, exact band), `‖Log(Exp x) − x‖ ≤ ‖x‖⁵/40`
(zero on the band `eps < sin(θ/2)`; at most `eps⁴·θ/40`-ish below). Within `π·eps` of π see `so3_log_exp_near_pi`. -/
theorem so3_log_exp_below_pi (eps : ℝ) (x : Vec3 ℝ) (h0 : 0 ≤ eps) (he : eps ≤ 1 / 4) (hhi : x.norm < Real.pi * (1 - eps)) :
    ((so3LogExp eps x).sub x).norm ≤ x.norm ^ 5 / 40 := by
  have hn := Vec3.norm_nonneg x
  have hp := Real.pi_pos
  have hpi : x.norm < Real.pi := by nlinarith
  have h5 : 0 ≤ x.norm ^ 5 := by positivity
  by_cases h : eps < x.norm
  · by_cases hs : eps < Real.sin (x.norm / 2)
    · -- exact band
      have hc : eps < Real.cos (x.norm / 2) := by
        have h1 : 2 / Real.pi * (Real.pi / 2 - x.norm / 2) ≤ Real.sin (Real.pi / 2 - x.norm / 2) :=
          Real.mul_le_sin (by linarith) (by linarith)
        rw [Real.sin_pi_div_two_sub] at h1
        have e : 2 / Real.pi * (Real.pi / 2 - x.norm / 2) = (Real.pi - x.norm) / Real.pi := by field_simp
        rw [e] at h1
        have : eps < (Real.pi - x.norm) / Real.pi := by rw [lt_div_iff₀ hp]; linarith
        linarith
      rw [so3_log_exp eps x h0 h hpi hs hc]
      have : (x.sub x) = Vec3.zero := by ext <;> lie_unfold <;> ring
      rw [this, Vec3.zero_norm]; positivity
    · -- gap band
      have hg := so3_log_exp_gap eps x h0 h hpi hs
      have hpos : 0 < x.norm := lt_of_le_of_lt h0 h
      have hS0 : 0 < Real.sin (x.norm / 2) := Real.sin_pos_of_pos_of_lt_pi (by linarith) (by linarith)
      have hS1 : Real.sin (x.norm / 2) ≤ x.norm / 2 := Real.sin_le (by linarith)
      have hS2 : Real.sin (x.norm / 2) ≤ 1 / 4 := by linarith [not_lt.mp hs]
      have hsc := Real.sin_sq_add_cos_sq (x.norm / 2)
      have hC0 : 0 < Real.cos (x.norm / 2) := Real.cos_pos_of_mem_Ioo ⟨by linarith, by linarith⟩
      have hC1 : Real.cos (x.norm / 2) ≤ 1 := Real.cos_le_one _
      have hC2 : 15 / 16 ≤ Real.cos (x.norm / 2) := by nlinarith
      rw [abs_of_pos hC0] at hg
      have hC5 : (15 / 16 : ℝ) ^ 5 ≤ Real.cos (x.norm / 2) ^ 5 := pow_le_pow_left₀ (by norm_num) hC2 5
      have hS5 : Real.sin (x.norm / 2) ^ 5 ≤ (x.norm / 2) ^ 5 := pow_le_pow_left₀ (le_of_lt hS0) hS1 5
      have hden : 0 < 5 * Real.cos (x.norm / 2) ^ 5 := by positivity
      refine le_trans hg ?_
      rw [div_le_iff₀ hden]
      have e : (x.norm / 2) ^ 5 = x.norm ^ 5 / 32 := by ring
      rw [e] at hS5
      have hnum : (0.72 : ℝ) ≤ (15 / 16 : ℝ) ^ 5 := by norm_num
      nlinarith
  · exact le_trans (so3_log_exp_small_norm eps x h0 (by linarith) h) (by linarith)

/-! ## uniqueness of the logarithm in the principal ball, all four groups -/

/-- on the open shell `eps < ‖x‖ < π` the closed-form exponential has `w = cos(‖x‖/2) > 0`: two such exponentials are never
antipodal, so "same rotation" (`q` or `-q`) reduces to equality of the quaternions there -/
theorem so3Exp_not_antipodal_principal (eps : ℝ) (x y : Vec3 ℝ) (hx : eps < x.norm) (hxp : x.norm < Real.pi)
    (hy : eps < y.norm) (hyp : y.norm < Real.pi) (h0 : 0 ≤ eps) : so3Exp eps x ≠ (so3Exp eps y).neg := by
  have hcx : 0 < Real.cos (x.norm / 2) :=
    Real.cos_pos_of_mem_Ioo ⟨by linarith [Real.pi_pos, lt_of_le_of_lt h0 hx], by linarith⟩
  have hcy : 0 < Real.cos (y.norm / 2) :=
    Real.cos_pos_of_mem_Ioo ⟨by linarith [Real.pi_pos, lt_of_le_of_lt h0 hy], by linarith⟩
  intro h
  rw [so3Exp_closed eps x hx, so3Exp_closed eps y hy] at h
  have hw := congrArg Quat.w h
  simp only [Quat.neg, Quat.mk'] at hw
  linarith

/-- uniqueness in the principal ball (SO3), on the OPEN SHELL `eps < ‖·‖ < π` (closed-form branch of `so3_Exp`; `x = 0` and the
Taylor branch `‖x‖ ≤ eps` are not covered): two tangent vectors there with the same exponential are equal -/
theorem so3Exp_inj_principal (eps : ℝ) (x y : Vec3 ℝ) (h0 : 0 ≤ eps) (hx : eps < x.norm) (hxp : x.norm < Real.pi)
    (hy : eps < y.norm) (hyp : y.norm < Real.pi) (h : so3Exp eps x = so3Exp eps y) : x = y := by
  have hx0 : 0 < x.norm := lt_of_le_of_lt h0 hx
  have hy0 : 0 < y.norm := lt_of_le_of_lt h0 hy
  rw [so3Exp_closed eps x hx, so3Exp_closed eps y hy] at h
  have hw := congrArg Quat.w h
  have hv := congrArg Quat.vec h
  simp only [Quat.mk'_w, Quat.mk'_vec] at hw hv
  have hθ : x.norm / 2 = y.norm / 2 :=
    Real.injOn_cos ⟨by linarith, by linarith [Real.pi_pos]⟩ ⟨by linarith, by linarith [Real.pi_pos]⟩ hw
  have hθ' : x.norm = y.norm := by linarith
  rw [hθ'] at hv
  have hs : Real.sin (y.norm / 2) / y.norm ≠ 0 :=
    div_ne_zero (ne_of_gt (Real.sin_pos_of_pos_of_lt_pi (by linarith) (by linarith))) (ne_of_gt hy0)
  exact Vec3.smul_cancel hs hv

/-- … hence also when the exponentials are only known to be the same ROTATION (equal or antipodal quaternions) -/
theorem so3Exp_inj_principal_rot (eps : ℝ) (x y : Vec3 ℝ) (h0 : 0 ≤ eps) (hx : eps < x.norm) (hxp : x.norm < Real.pi)
    (hy : eps < y.norm) (hyp : y.norm < Real.pi)
    (h : so3Exp eps x = so3Exp eps y ∨ so3Exp eps x = (so3Exp eps y).neg) : x = y := by
  rcases h with h | h
  · exact so3Exp_inj_principal eps x y h0 hx hxp hy hyp h
  · exact absurd h (so3Exp_not_antipodal_principal eps x y hx hxp hy hyp h0)

/-- `Log` is THE logarithm in the principal ball, for a unit quaternion in REGIME 1 (`‖v‖ > eps`, `|w| > eps`): whatever tangent
vector `x` of length in `(eps, π)` exponentiates to `q` or to `-q`, it is `SO3Log q`. (Regimes 2 and 3, where `Exp (Log q)` is only
within `√2·eps` of `±q`, are not covered.) -/
theorem SO3_log_unique (eps : ℝ) (q : Quat ℝ) (x : Vec3 ℝ) (hq : q.normSq = 1) (h0 : 0 ≤ eps) (he1 : eps ≤ 1)
    (h1 : eps < q.vec.norm) (h2 : eps < |q.w|) (hx : eps < x.norm) (hxp : x.norm < Real.pi)
    (h : so3Exp eps x = q ∨ so3Exp eps x = q.neg) : x = SO3Log eps q := by
  obtain ⟨ha, hb, _, _⟩ := SO3Log_r1_angle eps q hq h0 he1 h1 h2
  apply so3Exp_inj_principal_rot eps x (SO3Log eps q) h0 hx hxp ha hb
  have e := SO3_exp_log eps q hq h0 he1 h1 h2
  unfold SO3ExpLog at e
  rcases lt_or_gt_of_ne (abs_pos.mp (lt_of_le_of_lt h0 h2)) with hw | hw
  · rw [e, abs_of_neg hw, neg_div, div_self (ne_of_lt hw), Quat.scale_neg_one]
    rcases h with h | h
    · right; rw [h]; ext <;> simp [Quat.neg]
    · left; exact h
  · rw [e, abs_of_pos hw, div_self (ne_of_gt hw), Quat.scale_one]
    rcases h with h | h
    · left; exact h
    · right; exact h

/-- uniqueness in the principal ball on SE3, RxSO3, Sim3: `Exp` is injective on rotation angles in the open shell `(eps, π)`
(any translation part, any log-scale). Hypothesis: EQUAL group elements; the "same transformation" versions (quaternion possibly
negated) are `*_inj_principal_tf` below. -/
theorem se3Exp_inj_principal (eps : ℝ) (x y : se3 ℝ) (h0 : 0 ≤ eps) (hx : eps < x.phi.norm) (hxp : x.phi.norm < Real.pi)
    (hy : eps < y.phi.norm) (hyp : y.phi.norm < Real.pi) (h : se3Exp eps x = se3Exp eps y) : x = y := by
  have hq := congrArg SE3.q h
  have ht := congrArg SE3.t h
  simp only [se3Exp] at hq ht
  have hphi := so3Exp_inj_principal eps x.phi y.phi h0 hx hxp hy hyp hq
  rw [hphi] at ht
  have hS : Real.sin (y.phi.norm / 2) ≠ 0 :=
    ne_of_gt (Real.sin_pos_of_pos_of_lt_pi (by linarith) (by linarith))
  have hJ := so3JlInv_mul_so3Jl eps y.phi h0 hy hS
  have : x.tau = y.tau := by
    have e1 := congrArg (so3JlInv eps y.phi).mulVec ht
    rw [← Mat3.mul_mulVec, ← Mat3.mul_mulVec, hJ, Mat3.one_mulVec, Mat3.one_mulVec] at e1
    exact e1
  cases x; cases y; simp_all

theorem rxso3Exp_inj_principal (eps : ℝ) (x y : rxso3 ℝ) (h0 : 0 ≤ eps) (hx : eps < x.phi.norm)
    (hxp : x.phi.norm < Real.pi) (hy : eps < y.phi.norm) (hyp : y.phi.norm < Real.pi)
    (h : rxso3Exp eps x = rxso3Exp eps y) : x = y := by
  have hq := congrArg RxSO3.q h
  have hs := congrArg RxSO3.s h
  simp only [rxso3Exp, exp_real] at hq hs
  have hphi := so3Exp_inj_principal eps x.phi y.phi h0 hx hxp hy hyp hq
  have hsig := Real.exp_injective hs
  cases x; cases y; simp_all

theorem sim3Exp_inj_principal (eps : ℝ) (x y : sim3 ℝ) (h0 : 0 ≤ eps) (hx : eps < x.phi.norm)
    (hxp : x.phi.norm < Real.pi) (hy : eps < y.phi.norm) (hyp : y.phi.norm < Real.pi)
    (h : sim3Exp eps x = sim3Exp eps y) : x = y := by
  have hq := congrArg Sim3.q h
  have hs := congrArg Sim3.s h
  have ht := congrArg Sim3.t h
  simp only [sim3Exp, rxso3Exp, exp_real] at hq hs ht
  have hphi := so3Exp_inj_principal eps x.phi y.phi h0 hx hxp hy hyp hq
  have hsig := Real.exp_injective hs
  rw [hphi, hsig] at ht
  have hdet : (rxso3Ws eps ⟨y.phi, y.sigma⟩).det ≠ 0 :=
    rxso3Ws_det_ne_zero eps _ h0 (by show y.phi.norm < 2 * Real.pi; linarith [Real.pi_pos])
  have := Mat3.mulVec_cancel _ hdet ht
  cases x; cases y; simp_all

/-- "same transformation" versions on the bigger groups: equal elements OR elements with the negated quaternion -/
theorem se3Exp_inj_principal_tf (eps : ℝ) (x y : se3 ℝ) (h0 : 0 ≤ eps) (hx : eps < x.phi.norm) (hxp : x.phi.norm < Real.pi)
    (hy : eps < y.phi.norm) (hyp : y.phi.norm < Real.pi)
    (h : se3Exp eps x = se3Exp eps y ∨ se3Exp eps x = SE3negQ (se3Exp eps y)) : x = y := by
  rcases h with h | h
  · exact se3Exp_inj_principal eps x y h0 hx hxp hy hyp h
  · exfalso
    have hq := congrArg SE3.q h
    simp only [se3Exp, SE3negQ] at hq
    exact so3Exp_not_antipodal_principal eps x.phi y.phi hx hxp hy hyp h0 hq

theorem rxso3Exp_inj_principal_tf (eps : ℝ) (x y : rxso3 ℝ) (h0 : 0 ≤ eps) (hx : eps < x.phi.norm)
    (hxp : x.phi.norm < Real.pi) (hy : eps < y.phi.norm) (hyp : y.phi.norm < Real.pi)
    (h : rxso3Exp eps x = rxso3Exp eps y ∨ rxso3Exp eps x = RxSO3negQ (rxso3Exp eps y)) : x = y := by
  rcases h with h | h
  · exact rxso3Exp_inj_principal eps x y h0 hx hxp hy hyp h
  · exfalso
    have hq := congrArg RxSO3.q h
    simp only [rxso3Exp, RxSO3negQ] at hq
    exact so3Exp_not_antipodal_principal eps x.phi y.phi hx hxp hy hyp h0 hq

theorem sim3Exp_inj_principal_tf (eps : ℝ) (x y : sim3 ℝ) (h0 : 0 ≤ eps) (hx : eps < x.phi.norm)
    (hxp : x.phi.norm < Real.pi) (hy : eps < y.phi.norm) (hyp : y.phi.norm < Real.pi)
    (h : sim3Exp eps x = sim3Exp eps y ∨ sim3Exp eps x = Sim3negQ (sim3Exp eps y)) : x = y := by
  rcases h with h | h
  · exact sim3Exp_inj_principal eps x y h0 hx hxp hy hyp h
  · exfalso
    have hq := congrArg Sim3.q h
    simp only [sim3Exp, rxso3Exp, Sim3negQ] at hq
    exact so3Exp_not_antipodal_principal eps x.phi y.phi hx hxp hy hyp h0 hq


/-! ## the glue between the user's call and the cores: `LieType` table, dispatch, shapes, dtype threshold
(model: `Pose/Model/LieDispatch.lean`; correspondence stream `dispatch`) -/



/-- the `LieType` table: `manifold ≤ dimension ≤ embedding`, `embedding − manifold = 1`, and a type is a Lie-algebra type
(`on_manifold`) exactly when its storage is as wide as its manifold -/
theorem ltype_table (t : LType) :
    t.manifold ≤ t.dimension ∧ t.dimension ≤ t.embedding ∧ t.embedding = t.manifold + 1 ∧
      (t.onManifold = true ↔ t.dimension = t.manifold) := by
  cases t <;> simp [LType.manifold, LType.dimension, LType.embedding, LType.onManifold]

/-- `Log` is refused (AttributeError) exactly on the algebra types, `Exp` exactly on the group types -/
theorem logType_error_iff (t : LType) :
    (t.logType = .error "AttributeError" ↔ t.onManifold = true) ∧ (t.expType = .error "AttributeError" ↔ t.onManifold = false) := by
  cases t <;> simp [LType.logType, LType.expType, LType.onManifold, LType.dimension, LType.manifold]

/-- the types returned by `Log` and `Exp` are inverse to each other; `Log` returns an algebra type whose storage width is the
manifold dimension of the group, with the same embedding -/
theorem logType_expType (G a : LType) (h : G.logType = .ok a) :
    a.expType = .ok G ∧ a.onManifold = true ∧ a.dimension = G.manifold ∧ a.embedding = G.embedding := by
  cases G <;> simp [LType.logType] at h <;> subst h <;>
    simp [LType.expType, LType.onManifold, LType.dimension, LType.manifold, LType.embedding]

theorem expType_logType (a G : LType) (h : a.expType = .ok G) :
    G.logType = .ok a ∧ G.onManifold = false ∧ G.dimension = a.embedding := by
  cases a <;> simp [LType.expType] at h <;> subst h <;>
    simp [LType.logType, LType.onManifold, LType.dimension, LType.manifold, LType.embedding]

/-- `torch.finfo(dtype).eps` of every floating dtype satisfies the hypotheses `0 ≤ eps`, `eps ≤ 1/2`, `eps ≤ 1`, `eps < π` under
which the theorems of this file are stated — they apply to the thresholds the code actually uses -/
theorem dtype_eps_range (d : DType) :
    0 < (d.eps : ℝ) ∧ (d.eps : ℝ) ≤ 1 / 128 ∧ (d.eps : ℝ) = 1 / 2 ^ d.fracBits := by
  cases d <;> simp [DType.eps, DType.fracBits] <;> norm_num



/-- the dispatcher calls the modelled cores: on a well-formed item of each group type `lieLogItem` is the core logarithm -/
theorem lieLogItem_core (eps : ℝ) :
    (∀ q : Quat ℝ, lieLogItem .SO3 eps q.toList = .ok (SO3Log eps q).toList) ∧
    (∀ X : SE3 ℝ, lieLogItem .SE3 eps X.toList = .ok (SE3Log eps X).toList) ∧
    (∀ X : RxSO3 ℝ, lieLogItem .RxSO3 eps X.toList = .ok (RxSO3Log eps X).toList) ∧
    (∀ X : Sim3 ℝ, lieLogItem .Sim3 eps X.toList = .ok (Sim3Log eps X).toList) := by
  refine ⟨fun q => ?_, fun X => ?_, fun X => ?_, fun X => ?_⟩
  · have := quatAt_toList q []
    simp only [List.append_nil] at this
    simp [lieLogItem, LType.dimension, Quat.toList_length, this]
  · simp [lieLogItem, LType.dimension, SE3.toList_length, SE3.ofList_toList]
  · simp [lieLogItem, LType.dimension, RxSO3.toList_length, RxSO3.ofList_toList]
  · simp [lieLogItem, LType.dimension, Sim3.toList_length, Sim3.ofList_toList]

theorem lieExpItem_core (eps : ℝ) :
    (∀ x : Vec3 ℝ, lieExpItem .so3 eps x.toList = .ok (so3Exp eps x).toList) ∧
    (∀ x : se3 ℝ, lieExpItem .se3 eps x.toList = .ok (se3Exp eps x).toList) ∧
    (∀ x : rxso3 ℝ, lieExpItem .rxso3 eps x.toList = .ok (rxso3Exp eps x).toList) ∧
    (∀ x : sim3 ℝ, lieExpItem .sim3 eps x.toList = .ok (sim3Exp eps x).toList) := by
  refine ⟨fun x => ?_, fun x => ?_, fun x => ?_, fun x => ?_⟩
  · have := vec3At_toList x []
    simp only [List.append_nil] at this
    simp [lieExpItem, LType.dimension, Vec3.toList_length, this]
  · simp [lieExpItem, LType.dimension, se3.toList_length, se3.ofList_toList]
  · simp [lieExpItem, LType.dimension, rxso3.toList_length, rxso3.ofList_toList]
  · simp [lieExpItem, LType.dimension, sim3.toList_length, sim3.ofList_toList]

/-- error paths of `X.Log()` characterised: the constructor refuses a wrong width, `LieType.Log` refuses algebra types, and
nothing else is refused — every item of the right width of a group type is accepted -/
theorem lieLogItem_error_iff (t : LType) (eps : ℝ) (item : List ℝ) (e : String) :
    lieLogItem t eps item = .error e ↔
      (item.length ≠ t.dimension ∧ e = "AssertionError") ∨
      (item.length = t.dimension ∧ t.onManifold = true ∧ e = "AttributeError") := by
  unfold lieLogItem
  by_cases h : item.length = t.dimension
  · cases t <;> simp [h, LType.onManifold, LType.dimension, LType.manifold] <;>
      first | exact fun h' => h'.symm | exact ⟨fun h' => h'.symm, fun h' => h'.symm⟩
  · simp [h]
    exact ⟨fun h' => h'.symm, fun h' => h'.symm⟩

/-- an accepted call returns an item of the width of the returned type -/
theorem lieLogItem_length (t t' : LType) (eps : ℝ) (item out : List ℝ) (ht : t.logType = .ok t')
    (h : lieLogItem t eps item = .ok out) : out.length = t'.dimension := by
  unfold lieLogItem at h
  by_cases hl : item.length = t.dimension
  · cases t <;> simp [LType.logType] at ht <;> subst ht <;> simp [hl] at h <;> subst h <;> rfl
  · simp [hl] at h



/-- (Holds by unfolding `lieBatch`: it states what the MODEL's batched call is. That the code's batching — any batch shape, any
rank — is this item-wise map rests on the correspondence streams `dispatch`, `batch`, `size`, `large`.)
An accepted batched `Log`: the returned type is the algebra of the group, the shape is the batch shape with the last
extent replaced by the algebra's width, the buffer holds one item per input item, and row `i` of the result is the item
logarithm of row `i` of the input (item-wise, whatever the other rows are) -/
theorem lieLog_ok (t t' : LType) (eps : ℝ) (shape shape' : List Nat) (data out : List ℝ)
    (h : lieLog t eps shape data = .ok (t', shape', out)) :
    t.logType = .ok t' ∧ shape' = shape.dropLast ++ [t'.dimension] ∧ shape.getLast? = some t.dimension ∧
      out.length = batchCount shape * t'.dimension ∧
      ∃ rows, mapE (lieLogItem t eps) (chunks t.dimension data) = .ok rows ∧ out = rows.flatten ∧
        rows.length = batchCount shape := by
  unfold lieLog lieBatch at h
  by_cases hs : shapeOk t shape data.length = true
  · simp only [hs, Bool.not_true, Bool.false_eq_true, if_false] at h
    cases ht : t.logType with
    | error e => simp [ht] at h
    | ok t2 =>
      cases hr : mapE (lieLogItem t eps) (chunks t.dimension data) with
      | error e => simp [ht, hr] at h
      | ok rows =>
        simp only [ht, hr, Except.ok.injEq, Prod.mk.injEq] at h
        obtain ⟨h1, h2, h3⟩ := h
        subst h1
        unfold shapeOk at hs
        simp only [Bool.and_eq_true, beq_iff_eq] at hs
        have hpos : 0 < t.dimension := by cases t <;> simp [LType.dimension]
        have hcl : (chunks t.dimension data).length = batchCount shape := chunks_length _ _ hpos data hs.2
        have hrl := mapE_ok_length _ _ _ hr
        have hfl := mapE_rows_length (lieLogItem t eps) t2.dimension
          (fun x y hxy => lieLogItem_length t t2 eps x y ht hxy) _ _ hr
        refine ⟨rfl, h2.symm, hs.1, ?_, rows, rfl, h3.symm, ?_⟩
        · rw [← h3, hfl, hcl]
        · rw [hrl, hcl]
  · simp [hs] at h

/-- refusals of the batched call: a malformed tensor is refused by the constructor before anything else, a well-formed tensor of
an algebra type by `LieType.Log` -/
theorem lieLog_error (t : LType) (eps : ℝ) (shape : List Nat) (data : List ℝ) :
    (shapeOk t shape data.length = false → lieLog t eps shape data = .error "AssertionError") ∧
    (shapeOk t shape data.length = true → t.onManifold = true → lieLog t eps shape data = .error "AttributeError") := by
  unfold lieLog lieBatch
  constructor
  · intro h; simp [h]
  · intro h hm
    have := (logType_error_iff t).1.mpr hm
    simp [h, this]



/-- `X.Log().Exp()` as the user calls it, with the code's own threshold `torch.finfo(dtype).eps` (the threshold is no longer a free parameter; the
regime-1 hypotheses on the quaternion, now relative to that threshold, remain):
for every dtype and every unit-quaternion SE3 item in regime 1 the dispatched round trip returns `(t, sign(w)·q)` -/
theorem lie_exp_log_SE3 (d : DType) (X : SE3 ℝ) (hq : X.q.normSq = 1) (h1 : (d.eps : ℝ) < X.q.vec.norm)
    (h2 : (d.eps : ℝ) < |X.q.w|) :
    (lieLogItem .SE3 (d.eps : ℝ) X.toList).bind (lieExpItem .se3 (d.eps : ℝ)) =
      .ok (⟨X.t, Quat.scale (|X.q.w| / X.q.w) X.q⟩ : SE3 ℝ).toList := by
  obtain ⟨hp, hle, _⟩ := dtype_eps_range d
  rw [(lieLogItem_core _).2.1 X]
  show lieExpItem .se3 _ (SE3Log _ X).toList = _
  rw [(lieExpItem_core _).2.1 (SE3Log _ X)]
  have := SE3_exp_log (d.eps : ℝ) X hq (le_of_lt hp) (by linarith) h1 h2
  unfold SE3ExpLog at this
  rw [this]

theorem lie_exp_log_SO3 (d : DType) (q : Quat ℝ) (hq : q.normSq = 1) (h1 : (d.eps : ℝ) < q.vec.norm)
    (h2 : (d.eps : ℝ) < |q.w|) :
    (lieLogItem .SO3 (d.eps : ℝ) q.toList).bind (lieExpItem .so3 (d.eps : ℝ)) =
      .ok (Quat.scale (|q.w| / q.w) q).toList := by
  obtain ⟨hp, hle, _⟩ := dtype_eps_range d
  rw [(lieLogItem_core _).1 q]
  show lieExpItem .so3 _ (SO3Log _ q).toList = _
  rw [(lieExpItem_core _).1 (SO3Log _ q)]
  have := SO3_exp_log (d.eps : ℝ) q hq (le_of_lt hp) (by linarith) h1 h2
  unfold SO3ExpLog at this
  rw [this]

theorem lie_exp_log_RxSO3 (d : DType) (X : RxSO3 ℝ) (hq : X.q.normSq = 1) (hs : 0 < X.s)
    (h1 : (d.eps : ℝ) < X.q.vec.norm) (h2 : (d.eps : ℝ) < |X.q.w|) :
    (lieLogItem .RxSO3 (d.eps : ℝ) X.toList).bind (lieExpItem .rxso3 (d.eps : ℝ)) =
      .ok (⟨Quat.scale (|X.q.w| / X.q.w) X.q, X.s⟩ : RxSO3 ℝ).toList := by
  obtain ⟨hp, hle, _⟩ := dtype_eps_range d
  rw [(lieLogItem_core _).2.2.1 X]
  show lieExpItem .rxso3 _ (RxSO3Log _ X).toList = _
  rw [(lieExpItem_core _).2.2.1 (RxSO3Log _ X)]
  have := RxSO3_exp_log (d.eps : ℝ) X hq hs (le_of_lt hp) (by linarith) h1 h2
  unfold RxSO3ExpLog at this
  rw [this]

theorem lie_exp_log_Sim3 (d : DType) (X : Sim3 ℝ) (hq : X.q.normSq = 1) (hs : 0 < X.s)
    (h1 : (d.eps : ℝ) < X.q.vec.norm) (h2 : (d.eps : ℝ) < |X.q.w|) :
    (lieLogItem .Sim3 (d.eps : ℝ) X.toList).bind (lieExpItem .sim3 (d.eps : ℝ)) =
      .ok (⟨X.t, Quat.scale (|X.q.w| / X.q.w) X.q, X.s⟩ : Sim3 ℝ).toList := by
  obtain ⟨hp, hle, _⟩ := dtype_eps_range d
  rw [(lieLogItem_core _).2.2.2 X]
  show lieExpItem .sim3 _ (Sim3Log _ X).toList = _
  rw [(lieExpItem_core _).2.2.2 (Sim3Log _ X)]
  have := Sim3_exp_log (d.eps : ℝ) X hq hs (le_of_lt hp) (by linarith) h1 h2
  unfold Sim3ExpLog at this
  rw [this]

/-- `‖rotation part of Log X‖ ≤ π` with the code's threshold, for every dtype and every unit quaternion — no hypothesis on `eps` -/
theorem lie_log_norm_le_pi (d : DType) (q : Quat ℝ) (hq : q.normSq = 1) : (SO3Log (d.eps : ℝ) q).norm ≤ Real.pi := by
  obtain ⟨hp, hle, _⟩ := dtype_eps_range d
  exact SO3_log_norm_le_pi _ q hq (le_of_lt hp) (by linarith)

/-! ## non-vacuity: the hypotheses are satisfiable by non-trivial values (and the conclusions instantiate) -/
section NonVacuity
open C02Ex


example : qU.normSq = 1 ∧ qL.normSq = 1 ∧ qPi.normSq = 1 := by
  refine ⟨?_, ?_, ?_⟩ <;> simp only [qU, qL, qPi, Quat.normSq] <;> norm_num

/-- `SO3_exp_log_pos`, `SO3_exp_log_neg` at `eps = 10⁻³`: the round trip of `(3/5,0,0,±4/5)` -/
example : SO3ExpLog (1 / 1000) qU = qU :=
  SO3_exp_log_pos _ _ qU_unit (by norm_num) (by norm_num) qU_v (by simp only [qU]; norm_num)
example : SO3ExpLog (1 / 1000) qL = ⟨-(3 / 5), -0, -0, - -(4 / 5)⟩ :=
  SO3_exp_log_neg _ _ qL_unit (by norm_num) (by norm_num) qL_v (by simp only [qL]; norm_num)
example (p : Vec3 ℝ) : (SO3ExpLog (1 / 1000) qL).act p = qL.act p :=
  SO3_exp_log_act _ _ qL_unit (by norm_num) (by norm_num) qL_v qL_w p
example : SO3matrix (SO3ExpLog (1 / 1000) qL) = SO3matrix qL :=
  SO3_exp_log_matrix _ _ qL_unit (by norm_num) (by norm_num) qL_v qL_w
/-- regime 2 at angle `π` -/
example : Quat.distSq (SO3ExpLog (1 / 1000) qPi) (Quat.scale (spm qPi.w) qPi) ≤ 2 * (1 / 1000 : ℝ) ^ 2 :=
  (SO3_exp_log_near_pi _ _ qPi_unit (by norm_num) (by linarith [Real.pi_gt_three]) qPi_v qPi_w).2
example : (SO3Log (1 / 1000) qPi).norm = Real.pi := SO3_log_norm_eq_pi _ _ (by norm_num) qPi_v qPi_w
example : (SO3Log (1 / 1000) qL).norm < Real.pi := (SO3_log_norm_lt_pi _ _ (by norm_num) qL_v qL_w).2
example : (SO3Log (1 / 1000) qL).norm ≤ Real.pi := SO3_log_norm_le_pi _ _ qL_unit (by norm_num) (by norm_num)
example : SO3LogNeg (1 / 1000) qL = SO3Log (1 / 1000) qL :=
  SO3_log_neg _ _ qL_unit (by simp only [qL]; norm_num)
example : SO3LogNeg (1 / 1000) qPi = (SO3Log (1 / 1000) qPi).neg := SO3_log_neg_at_pi _ _ (by norm_num) qPi_v rfl


/-- `Log (Exp x) = x` at `x = (1,0,0)` (1 rad), `eps = 10⁻³` -/
example : so3LogExp (1 / 1000) x1 = x1 := so3_log_exp_band _ _ (by norm_num) x1_lo x1_hi
example : (so3JlInv (1 / 1000) x1).mul (so3Jl (1 / 1000) x1) = Mat3.one :=
  (JlInv_mul_Jl _ _ (by norm_num) (by rw [x1_norm]; norm_num) (by rw [x1_norm]; linarith [Real.pi_gt_three])).1
/-- the Taylor branch is inhabited by non-zero vectors -/
example : ¬ (1 / 1000 : ℝ) < (⟨1 / 2000, 0, 0⟩ : Vec3 ℝ).norm := by
  rw [Vec3.norm_axis _ (by norm_num)]; norm_num
example : ∃ δ : ℝ, so3LogExp (1 / 1000) ⟨1 / 2000, 0, 0⟩ = (⟨1 / 2000, 0, 0⟩ : Vec3 ℝ).smul (1 + δ) ∧
    |δ| ≤ (⟨1 / 2000, 0, 0⟩ : Vec3 ℝ).normSq ^ 2 / 50 :=
  so3_log_exp_small _ _ (by norm_num) (by norm_num) (by rw [Vec3.norm_axis _ (by norm_num)]; norm_num)
/-- the gap band: `θ = 3/2000`, `eps = 1/1000` -/
example : ((so3LogExp (1 / 1000) ⟨3 / 2000, 0, 0⟩).sub ⟨3 / 2000, 0, 0⟩).norm ≤
    2 * Real.sin ((⟨3 / 2000, 0, 0⟩ : Vec3 ℝ).norm / 2) ^ 5 / (5 * |Real.cos ((⟨3 / 2000, 0, 0⟩ : Vec3 ℝ).norm / 2)| ^ 5) := by
  have hn : (⟨3 / 2000, 0, 0⟩ : Vec3 ℝ).norm = 3 / 2000 := Vec3.norm_axis _ (by norm_num)
  refine so3_log_exp_gap _ _ (by norm_num) (by rw [hn]; norm_num) (by rw [hn]; linarith [Real.pi_gt_three]) ?_
  rw [hn]
  have := Real.sin_le (show (0 : ℝ) ≤ 3 / 2000 / 2 by norm_num)
  intro h; linarith
/-- regime 3 is inhabited by non-trivial unit quaternions: `q = (1/2000, 0, 0, √(1 − 1/2000²))`, `eps = 1/1000` -/
example : ∃ q : Quat ℝ, q.normSq = 1 ∧ ¬ (1 / 1000 : ℝ) < q.vec.norm ∧ 0 < q.vec.norm := by
  refine ⟨⟨1 / 2000, 0, 0, Real.sqrt (1 - (1 / 2000) ^ 2)⟩, ?_, ?_, ?_⟩
  · simp only [Quat.normSq]
    rw [Real.mul_self_sqrt (by norm_num)]; norm_num
  · show ¬ (1 / 1000 : ℝ) < (⟨1 / 2000, 0, 0⟩ : Vec3 ℝ).norm
    rw [Vec3.norm_axis _ (by norm_num)]; norm_num
  · show (0 : ℝ) < (⟨1 / 2000, 0, 0⟩ : Vec3 ℝ).norm
    rw [Vec3.norm_axis _ (by norm_num)]; norm_num
/-- near `π`: `x = (π,0,0)` has `cos(θ/2) = 0 ≤ eps < sin(θ/2) = 1` -/
example : so3LogExp (1 / 1000) ⟨Real.pi, 0, 0⟩ = (⟨Real.pi, 0, 0⟩ : Vec3 ℝ).smul (Real.pi / (⟨Real.pi, 0, 0⟩ : Vec3 ℝ).norm) := by
  have hn : (⟨Real.pi, 0, 0⟩ : Vec3 ℝ).norm = Real.pi := Vec3.norm_axis _ (le_of_lt Real.pi_pos)
  refine (so3_log_exp_near_pi _ _ (by norm_num) ?_ ?_ ?_ ?_).1
  · rw [hn]; linarith [Real.pi_gt_three]
  · rw [hn]
  · rw [hn, Real.sin_pi_div_two]; norm_num
  · rw [hn, Real.cos_pi_div_two]; norm_num

/-- SE3 / RxSO3 / Sim3 instances: translation `(1,2,3)`, scale `2` -/
example : SE3ExpLog (1 / 1000) ⟨⟨1, 2, 3⟩, qL⟩ = SE3negQ ⟨⟨1, 2, 3⟩, qL⟩ :=
  SE3_exp_log_neg _ _ qL_unit (by norm_num) (by norm_num) qL_v (by simp only [qL]; norm_num)
example : SE3ExpLog (1 / 1000) ⟨⟨1, 2, 3⟩, qU⟩ = ⟨⟨1, 2, 3⟩, qU⟩ :=
  SE3_exp_log_pos _ _ qU_unit (by norm_num) (by norm_num) qU_v (by simp only [qU]; norm_num)
example : se3LogExp (1 / 1000) ⟨⟨1, 2, 3⟩, x1⟩ = ⟨⟨1, 2, 3⟩, x1⟩ := SE3_log_exp_band _ _ (by norm_num) x1_lo x1_hi
example : SE3LogInv (1 / 1000) ⟨⟨1, 2, 3⟩, qL⟩ = se3.neg (SE3Log (1 / 1000) ⟨⟨1, 2, 3⟩, qL⟩) :=
  SE3_log_inv_partial _ _ qL_unit (by norm_num) (by norm_num) qL_v qL_w
example : SE3LogNeg (1 / 1000) ⟨⟨1, 2, 3⟩, qL⟩ = SE3Log (1 / 1000) ⟨⟨1, 2, 3⟩, qL⟩ :=
  SE3_log_neg _ _ qL_unit (by simp only [qL]; norm_num)
example : RxSO3ExpLog (1 / 1000) ⟨qU, 2⟩ = ⟨Quat.scale (|qU.w| / qU.w) qU, 2⟩ :=
  RxSO3_exp_log _ _ qU_unit (by norm_num) (by norm_num) (by norm_num) qU_v qU_w
example : rxso3LogExp (1 / 1000) ⟨x1, -3⟩ = ⟨x1, -3⟩ := by
  have hb := band_sin_cos (1 / 1000) x1.norm (by norm_num) x1_lo x1_hi
  exact rxso3_log_exp _ _ (by norm_num) (by rw [x1_norm]; norm_num) (by rw [x1_norm]; linarith [Real.pi_gt_three]) hb.1 hb.2
example : (rxso3Ws (1 / 1000) ⟨x1, 1 / 2⟩).det ≠ 0 :=
  Ws_det_ne_zero _ _ (by norm_num) (by show x1.norm < 2 * Real.pi; rw [x1_norm]; linarith [Real.pi_gt_three])
example : (rxso3Ws (1 / 1000) ⟨x1, 0⟩).det ≠ 0 :=      -- regime 2 (σ = 0)
  Ws_det_ne_zero _ _ (by norm_num) (by show x1.norm < 2 * Real.pi; rw [x1_norm]; linarith [Real.pi_gt_three])
example : sim3LogDet (1 / 1000) ⟨⟨1, 2, 3⟩, qPi, 2⟩ ≠ 0 := Sim3_log_det_ne_zero _ _ qPi_unit (by norm_num) (by norm_num)
example : Sim3ExpLog (1 / 1000) ⟨⟨1, 2, 3⟩, qL, 2⟩ = ⟨⟨1, 2, 3⟩, Quat.scale (|qL.w| / qL.w) qL, 2⟩ :=
  Sim3_exp_log _ _ qL_unit (by norm_num) (by norm_num) (by norm_num) qL_v qL_w
example : sim3LogExp (1 / 1000) ⟨⟨1, 2, 3⟩, x1, -3⟩ = ⟨⟨1, 2, 3⟩, x1, -3⟩ :=
  Sim3_log_exp_band _ _ (by norm_num) x1_lo x1_hi
example : Sim3LogInv (1 / 1000) ⟨⟨1, 2, 3⟩, qL, Real.exp 1⟩ = sim3.neg (Sim3Log (1 / 1000) ⟨⟨1, 2, 3⟩, qL, Real.exp 1⟩) :=
  Sim3_log_inv_partial _ _ qL_unit (Real.exp_pos 1) (by norm_num) (by norm_num) qL_v qL_w
    (by show (1 / 1000 : ℝ) < |Real.log (Real.exp 1)|; rw [Real.log_exp]; norm_num)
example : Sim3LogInv (1 / 1000) ⟨⟨1, 2, 3⟩, qL, 1⟩ = sim3.neg (Sim3Log (1 / 1000) ⟨⟨1, 2, 3⟩, qL, 1⟩) :=
  Sim3_log_inv_unit_scale _ _ qL_unit rfl (by norm_num) (by norm_num) qL_v qL_w
example : ((SO3Log (1 / 1000) ⟨1 / 2000, 0, 0, 1⟩).sub ((⟨1 / 2000, 0, 0⟩ : Vec3 ℝ).smul
    (2 * Real.arctan ((⟨1 / 2000, 0, 0⟩ : Vec3 ℝ).norm / 1) / (⟨1 / 2000, 0, 0⟩ : Vec3 ℝ).norm))).norm
    ≤ 2 * (⟨1 / 2000, 0, 0⟩ : Vec3 ℝ).norm ^ 5 / (5 * |(1 : ℝ)| ^ 5) :=
  SO3_log_series (1 / 1000) ⟨1 / 2000, 0, 0, 1⟩
    (by show ¬ (1 / 1000 : ℝ) < (⟨1 / 2000, 0, 0⟩ : Vec3 ℝ).norm; rw [Vec3.norm_axis _ (by norm_num)]; norm_num)
    (by show (0 : ℝ) < (⟨1 / 2000, 0, 0⟩ : Vec3 ℝ).norm; rw [Vec3.norm_axis _ (by norm_num)]; norm_num)
    (by show (1 : ℝ) ≠ 0; norm_num)
example : Sim3LogNeg (1 / 1000) ⟨⟨1, 2, 3⟩, qL, 2⟩ = Sim3Log (1 / 1000) ⟨⟨1, 2, 3⟩, qL, 2⟩ :=
  Sim3_log_neg _ _ qL_unit (by simp only [qL]; norm_num)

/-- pass 3: the regime-3 theorems, the all-regime statements, the backward forms and the dispatch-level round trips instantiate -/
example : Quat.distSq (SO3ExpLog (1 / 1000) ⟨1 / 2000, 0, 0, -Real.sqrt (1 - (1 / 2000) ^ 2)⟩)
    (Quat.scale (|(-Real.sqrt (1 - (1 / 2000) ^ 2))| / (-Real.sqrt (1 - (1 / 2000) ^ 2))) ⟨1 / 2000, 0, 0, -Real.sqrt (1 - (1 / 2000) ^ 2)⟩)
    ≤ (1 / 1000 : ℝ) ^ 8 :=     -- a genuine tiny rotation (‖v‖ = eps/2) in the LOWER hemisphere
  SO3_exp_log_regime3 _ _ (by simp only [Quat.normSq]; rw [neg_mul_neg, Real.mul_self_sqrt (by norm_num)]; norm_num)
    (by norm_num) (by norm_num)
    (by show ¬ (1 / 1000 : ℝ) < (⟨1 / 2000, 0, 0⟩ : Vec3 ℝ).norm; rw [Vec3.norm_axis _ (by norm_num)]; norm_num)
example : Quat.distSq (SO3ExpLog (1 / 1000) qPi) qPi ≤ 2 * (1 / 1000 : ℝ) ^ 2 ∨
    Quat.distSq (SO3ExpLog (1 / 1000) qPi) (SO3negQ qPi) ≤ 2 * (1 / 1000 : ℝ) ^ 2 :=
  SO3_exp_log_all _ _ qPi_unit (by norm_num) (by norm_num)
example : Sim3ExpLog (1 / 1000) ⟨⟨1, 2, 3⟩, qPi, 2⟩ = ⟨⟨1, 2, 3⟩, SO3ExpLog (1 / 1000) qPi, 2⟩ :=
  Sim3_exp_log_blocks _ _ qPi_unit (by norm_num) (by norm_num) (by norm_num)
example : (Sim3ExpLog (1 / 1000) ⟨⟨1, 2, 3⟩, qPi, 2⟩).t = ⟨1, 2, 3⟩ :=
  (Sim3_exp_log_all _ ⟨⟨1, 2, 3⟩, qPi, 2⟩ qPi_unit (by norm_num) (by norm_num) (by norm_num)).1
example : x1 = SO3Log (1 / 1000) (so3Exp (1 / 1000) x1) :=     -- uniqueness: x1 is THE logarithm of Exp x1
  (so3_log_exp_band _ _ (by norm_num) x1_lo x1_hi).symm
example : ∀ y : Vec3 ℝ, (1 / 1000 : ℝ) < y.norm → y.norm < Real.pi → so3Exp (1 / 1000) x1 = so3Exp (1 / 1000) y → x1 = y :=
  fun y hy hyp h => so3Exp_inj_principal _ x1 y (by norm_num) (by rw [x1_norm]; norm_num)
    (by rw [x1_norm]; linarith [Real.pi_gt_three]) hy hyp h
example : SE3LogInv (1 / 1000) ⟨⟨1, 2, 3⟩, qPi⟩ =
    se3.neg (SE3Log (1 / 1000) ⟨((SO3ExpLog (1 / 1000) qPi).mul qPi.conj).act ⟨1, 2, 3⟩, qPi⟩) :=
  SE3_log_inv_backward _ _ qPi_unit (by norm_num) (by norm_num)
    (by rw [SO3_log_norm_eq_pi _ _ (by norm_num) qPi_v qPi_w]; linarith [Real.pi_gt_three])
example : ((((SO3ExpLog (1 / 1000) qPi).mul qPi.conj).act ⟨1, 2, 3⟩).sub ⟨1, 2, 3⟩).normSq
    ≤ 8 * (1 / 1000 : ℝ) ^ 2 * (⟨1, 2, 3⟩ : Vec3 ℝ).normSq :=
  log_inv_backward_bound _ _ _ qPi_unit (by norm_num) (by norm_num)
    (by rw [SO3_log_norm_eq_pi _ _ (by norm_num) qPi_v qPi_w]; linarith [Real.pi_gt_three])
example : (lieLogItem .SE3 (DType.float32.eps : ℝ) (⟨⟨1, 2, 3⟩, qL⟩ : SE3 ℝ).toList).bind (lieExpItem .se3 (DType.float32.eps : ℝ)) =
    .ok (⟨⟨1, 2, 3⟩, Quat.scale (|qL.w| / qL.w) qL⟩ : SE3 ℝ).toList := by
  have he : (DType.float32.eps : ℝ) ≤ 1 / 1000 := by
    rw [(dtype_eps_range .float32).2.2]; simp only [DType.fracBits]; norm_num
  exact lie_exp_log_SE3 .float32 ⟨⟨1, 2, 3⟩, qL⟩ qL_unit (lt_of_le_of_lt he qL_v) (lt_of_le_of_lt he qL_w)
example : lieLog .se3 (1 / 1000 : ℝ) [6] [0, 0, 0, 0, 0, 0] = .error "AttributeError" :=
  (lieLog_error .se3 _ [6] _).2 (by decide) (by decide)
example : lieLog .SE3 (1 / 1000 : ℝ) [2, 6] (List.replicate 12 0) = .error "AssertionError" :=
  (lieLog_error .SE3 _ [2, 6] _).1 (by decide)
example : (SO3Log (DType.float64.eps : ℝ) qL).norm ≤ Real.pi := lie_log_norm_le_pi .float64 qL qL_unit

/-- audit round: witnesses for the remaining theorems -/
example : SO3Log (1 / 1000) qL = SO3Log (1 / 1000) qL := by      -- SO3_log_unique with x := Log qL (exponentiating to -qL)
  obtain ⟨ha, hb, _, _⟩ := SO3Log_r1_angle (1 / 1000) qL qL_unit (by norm_num) (by norm_num) qL_v qL_w
  exact SO3_log_unique _ qL _ qL_unit (by norm_num) (by norm_num) qL_v qL_w ha hb
    (Or.inr (SO3_exp_log_neg (1 / 1000) qL qL_unit (by norm_num) (by norm_num) qL_v (by simp only [qL]; norm_num)))
example : SE3ExpLog (1 / 1000) ⟨⟨1, 2, 3⟩, qPi⟩ = ⟨⟨1, 2, 3⟩, Quat.mk' (qPi.vec.smul (spm qPi.w / qPi.vec.norm)) 0⟩ :=
  SE3_exp_log_near_pi _ _ (by norm_num) (by linarith [Real.pi_gt_three]) qPi_v qPi_w
example : RxSO3ExpLog (1 / 1000) ⟨qPi, 2⟩ = ⟨Quat.mk' (qPi.vec.smul (spm qPi.w / qPi.vec.norm)) 0, 2⟩ :=
  RxSO3_exp_log_near_pi _ _ (by norm_num) (by norm_num) (by linarith [Real.pi_gt_three]) qPi_v qPi_w
example : Sim3ExpLog (1 / 1000) ⟨⟨1, 2, 3⟩, qPi, 2⟩ = ⟨⟨1, 2, 3⟩, Quat.mk' (qPi.vec.smul (spm qPi.w / qPi.vec.norm)) 0, 2⟩ :=
  Sim3_exp_log_near_pi _ _ (by norm_num) (by norm_num) (by linarith [Real.pi_gt_three]) qPi_v qPi_w
example : (SE3ExpLog (1 / 1000) ⟨⟨1, 2, 3⟩, qPi⟩).t = ⟨1, 2, 3⟩ :=
  (SE3_exp_log_all _ ⟨⟨1, 2, 3⟩, qPi⟩ qPi_unit (by norm_num) (by norm_num)
    (by rw [SO3_log_norm_eq_pi _ _ (by norm_num) qPi_v qPi_w]; linarith [Real.pi_gt_three])).1
example : (RxSO3ExpLog (1 / 1000) ⟨qPi, 2⟩).s = 2 :=
  (RxSO3_exp_log_all _ ⟨qPi, 2⟩ qPi_unit (by norm_num) (by norm_num) (by norm_num)).1
example : Sim3LogInv (1 / 1000) ⟨⟨1, 2, 3⟩, qPi, Real.exp 1⟩ =
    sim3.neg (Sim3Log (1 / 1000) ⟨((SO3ExpLog (1 / 1000) qPi).mul qPi.conj).act ⟨1, 2, 3⟩, qPi, Real.exp 1⟩) :=
  Sim3_log_inv_backward _ _ qPi_unit (Real.exp_pos 1) (by norm_num) (by norm_num)
    (by rw [SO3_log_norm_eq_pi _ _ (by norm_num) qPi_v qPi_w]; linarith [Real.pi_gt_three])
    (by show (1 / 1000 : ℝ) < |Real.log (Real.exp 1)|; rw [Real.log_exp]; norm_num)
example : Sim3LogInv (1 / 1000) ⟨⟨1, 2, 3⟩, qPi, 1⟩ =
    sim3.neg (Sim3Log (1 / 1000) ⟨((SO3ExpLog (1 / 1000) qPi).mul qPi.conj).act ⟨1, 2, 3⟩, qPi, 1⟩) :=
  Sim3_log_inv_backward_unit_scale _ _ qPi_unit rfl (by norm_num) (by norm_num)
    (by rw [SO3_log_norm_eq_pi _ _ (by norm_num) qPi_v qPi_w]; linarith [Real.pi_gt_three])
example : ∀ y : se3 ℝ, (1 / 1000 : ℝ) < y.phi.norm → y.phi.norm < Real.pi →
    (se3Exp (1 / 1000) ⟨⟨1, 2, 3⟩, x1⟩ = se3Exp (1 / 1000) y ∨ se3Exp (1 / 1000) ⟨⟨1, 2, 3⟩, x1⟩ = SE3negQ (se3Exp (1 / 1000) y)) →
    (⟨⟨1, 2, 3⟩, x1⟩ : se3 ℝ) = y :=
  fun y hy hyp h => se3Exp_inj_principal_tf _ _ y (by norm_num) (by show (1 / 1000 : ℝ) < x1.norm; rw [x1_norm]; norm_num)
    (by show x1.norm < Real.pi; rw [x1_norm]; linarith [Real.pi_gt_three]) hy hyp h
example : ∀ y : rxso3 ℝ, (1 / 1000 : ℝ) < y.phi.norm → y.phi.norm < Real.pi →
    rxso3Exp (1 / 1000) ⟨x1, -3⟩ = rxso3Exp (1 / 1000) y → (⟨x1, -3⟩ : rxso3 ℝ) = y :=
  fun y hy hyp h => rxso3Exp_inj_principal _ _ y (by norm_num) (by show (1 / 1000 : ℝ) < x1.norm; rw [x1_norm]; norm_num)
    (by show x1.norm < Real.pi; rw [x1_norm]; linarith [Real.pi_gt_three]) hy hyp h
example : ∀ y : sim3 ℝ, (1 / 1000 : ℝ) < y.phi.norm → y.phi.norm < Real.pi →
    sim3Exp (1 / 1000) ⟨⟨1, 2, 3⟩, x1, -3⟩ = sim3Exp (1 / 1000) y → (⟨⟨1, 2, 3⟩, x1, -3⟩ : sim3 ℝ) = y :=
  fun y hy hyp h => sim3Exp_inj_principal _ _ y (by norm_num) (by show (1 / 1000 : ℝ) < x1.norm; rw [x1_norm]; norm_num)
    (by show x1.norm < Real.pi; rw [x1_norm]; linarith [Real.pi_gt_three]) hy hyp h
example : so3Exp (1 / 1000) x1 ≠ (so3Exp (1 / 1000) x1).neg :=
  so3Exp_not_antipodal_principal _ x1 x1 (by rw [x1_norm]; norm_num) (by rw [x1_norm]; linarith [Real.pi_gt_three])
    (by rw [x1_norm]; norm_num) (by rw [x1_norm]; linarith [Real.pi_gt_three]) (by norm_num)
/-- identity with `w = -1` carrying a translation: the SE3 corollaries for elements without rotation -/
example : SE3ExpLog (1 / 1000) (⟨⟨1, 2, 3⟩, ⟨0, 0, 0, -1⟩⟩ : SE3 ℝ) = ⟨⟨1, 2, 3⟩, Quat.one⟩ :=
  (SE3_exp_log_pure_translation (1 / 1000) (⟨⟨1, 2, 3⟩, ⟨0, 0, 0, -1⟩⟩ : SE3 ℝ) (by norm_num)
    (by show (⟨0, 0, 0⟩ : Vec3 ℝ).norm = 0; exact Vec3.norm_axis 0 (le_refl 0))).2
example : SE3LogInv (1 / 1000) (⟨⟨1, 2, 3⟩, ⟨0, 0, 0, -1⟩⟩ : SE3 ℝ) =
    se3.neg (SE3Log (1 / 1000) (⟨⟨1, 2, 3⟩, ⟨0, 0, 0, -1⟩⟩ : SE3 ℝ)) :=
  SE3_log_inv_pure_translation (1 / 1000) (⟨⟨1, 2, 3⟩, ⟨0, 0, 0, -1⟩⟩ : SE3 ℝ) (by simp only [Quat.normSq]; norm_num) (by norm_num)
    (by show (⟨0, 0, 0⟩ : Vec3 ℝ).norm = 0; exact Vec3.norm_axis 0 (le_refl 0))
example : (((SE3ExpLog (1 / 1000) (⟨⟨1, 2, 3⟩, ⟨0, 0, 0, -1⟩⟩ : SE3 ℝ)).t).sub ⟨1, 2, 3⟩).normSq ≤
    (SO3Log (1 / 1000) (⟨0, 0, 0, -1⟩ : Quat ℝ)).normSq ^ 4 / 50000 * (⟨1, 2, 3⟩ : Vec3 ℝ).normSq :=
  SE3_exp_log_small_bound (1 / 1000) (⟨⟨1, 2, 3⟩, ⟨0, 0, 0, -1⟩⟩ : SE3 ℝ) (by simp only [Quat.normSq]; norm_num) (by norm_num)
    (by norm_num) (by
      rw [SO3_log_zero (1 / 1000) (⟨0, 0, 0, -1⟩ : Quat ℝ)
        (by show (⟨0, 0, 0⟩ : Vec3 ℝ).norm = 0; exact Vec3.norm_axis 0 (le_refl 0)), Vec3.zero_norm]
      norm_num)
example (p : Vec3 ℝ) : (((SO3ExpLog (1 / 1000) qPi).act p).sub (qPi.act p)).normSq ≤ 8 * (1 / 1000 : ℝ) ^ 2 * p.normSq :=
  SO3_exp_log_act_all _ _ p qPi_unit (by norm_num) (by norm_num)
    (by rw [SO3_log_norm_eq_pi _ _ (by norm_num) qPi_v qPi_w]; linarith [Real.pi_gt_three])
example (p : Vec3 ℝ) : ((Sim3Act (Sim3ExpLog (1 / 1000) ⟨⟨1, 2, 3⟩, qPi, 2⟩) p).sub (Sim3Act ⟨⟨1, 2, 3⟩, qPi, 2⟩ p)).normSq
    ≤ 8 * (1 / 1000 : ℝ) ^ 2 * ((2 : ℝ) ^ 2 * p.normSq) :=
  Sim3_exp_log_act_all _ ⟨⟨1, 2, 3⟩, qPi, 2⟩ p qPi_unit (by norm_num) (by norm_num) (by norm_num)
    (by rw [SO3_log_norm_eq_pi _ _ (by norm_num) qPi_v qPi_w]; linarith [Real.pi_gt_three])
example : (se3LogExp (1 / 1000) ⟨⟨1, 2, 3⟩, x1⟩).phi = so3LogExp (1 / 1000) x1 := (log_exp_rot_blocks _).1 _

example : ∃ δ : ℝ, (se3LogExp (1 / 1000) ⟨⟨1, 2, 3⟩, ⟨1 / 2000, 0, 0⟩⟩).phi = (⟨1 / 2000, 0, 0⟩ : Vec3 ℝ).smul (1 + δ) ∧
    |δ| ≤ (⟨1 / 2000, 0, 0⟩ : Vec3 ℝ).normSq ^ 2 / 50 ∧
    ((se3LogExp (1 / 1000) ⟨⟨1, 2, 3⟩, ⟨1 / 2000, 0, 0⟩⟩).tau.sub ⟨1, 2, 3⟩).normSq
      ≤ (⟨1 / 2000, 0, 0⟩ : Vec3 ℝ).normSq ^ 4 / 700 * (⟨1, 2, 3⟩ : Vec3 ℝ).normSq :=
  se3_log_exp_small (1 / 1000) ⟨⟨1, 2, 3⟩, ⟨1 / 2000, 0, 0⟩⟩ (by norm_num) (by norm_num)
    (by show ¬ (1 / 1000 : ℝ) < (⟨1 / 2000, 0, 0⟩ : Vec3 ℝ).norm; rw [Vec3.norm_axis _ (by norm_num)]; norm_num)

example : ∃ δ : ℝ, (sim3LogExp (1 / 1000) (⟨⟨1, 2, 3⟩, ⟨1 / 2000, 0, 0⟩, -3⟩ : sim3 ℝ)).phi = (⟨1 / 2000, 0, 0⟩ : Vec3 ℝ).smul (1 + δ) ∧
    |δ| ≤ (⟨1 / 2000, 0, 0⟩ : Vec3 ℝ).normSq ^ 2 / 50 ∧ (sim3LogExp (1 / 1000) (⟨⟨1, 2, 3⟩, ⟨1 / 2000, 0, 0⟩, -3⟩ : sim3 ℝ)).sigma = (-3 : ℝ) ∧
    ((sim3LogExp (1 / 1000) (⟨⟨1, 2, 3⟩, ⟨1 / 2000, 0, 0⟩, -3⟩ : sim3 ℝ)).tau.sub ⟨1, 2, 3⟩).normSq
      ≤ (⟨1 / 2000, 0, 0⟩ : Vec3 ℝ).normSq ^ 5 / 300 * (⟨1, 2, 3⟩ : Vec3 ℝ).normSq :=
  sim3_log_exp_small (1 / 1000) (⟨⟨1, 2, 3⟩, ⟨1 / 2000, 0, 0⟩, -3⟩ : sim3 ℝ) (by norm_num) (by norm_num)
    (by show ¬ (1 / 1000 : ℝ) < (⟨1 / 2000, 0, 0⟩ : Vec3 ℝ).norm; rw [Vec3.norm_axis _ (by norm_num)]; norm_num)
example : ∃ δ : ℝ, (sim3LogExp (1 / 1000) (⟨⟨1, 2, 3⟩, ⟨1 / 2000, 0, 0⟩, 0⟩ : sim3 ℝ)).phi = (⟨1 / 2000, 0, 0⟩ : Vec3 ℝ).smul (1 + δ) ∧
    |δ| ≤ (⟨1 / 2000, 0, 0⟩ : Vec3 ℝ).normSq ^ 2 / 50 ∧ (sim3LogExp (1 / 1000) (⟨⟨1, 2, 3⟩, ⟨1 / 2000, 0, 0⟩, 0⟩ : sim3 ℝ)).sigma = (0 : ℝ) ∧
    ((sim3LogExp (1 / 1000) (⟨⟨1, 2, 3⟩, ⟨1 / 2000, 0, 0⟩, 0⟩ : sim3 ℝ)).tau.sub ⟨1, 2, 3⟩).normSq
      ≤ (⟨1 / 2000, 0, 0⟩ : Vec3 ℝ).normSq ^ 5 / 300 * (⟨1, 2, 3⟩ : Vec3 ℝ).normSq :=
  sim3_log_exp_small_unit (1 / 1000) (⟨⟨1, 2, 3⟩, ⟨1 / 2000, 0, 0⟩, 0⟩ : sim3 ℝ) (by norm_num) (by norm_num)
    (by show ¬ (1 / 1000 : ℝ) < (⟨1 / 2000, 0, 0⟩ : Vec3 ℝ).norm; rw [Vec3.norm_axis _ (by norm_num)]; norm_num)
    (by show ¬ (1 / 1000 : ℝ) < |(0 : ℝ)|; rw [abs_zero]; norm_num)

example : ∃ δ : ℝ, rxso3LogExp (1 / 1000) (⟨⟨1 / 2000, 0, 0⟩, -3⟩ : rxso3 ℝ) = ⟨(⟨1 / 2000, 0, 0⟩ : Vec3 ℝ).smul (1 + δ), -3⟩ ∧
    |δ| ≤ (⟨1 / 2000, 0, 0⟩ : Vec3 ℝ).normSq ^ 2 / 50 :=
  rxso3_log_exp_small (1 / 1000) (⟨⟨1 / 2000, 0, 0⟩, -3⟩ : rxso3 ℝ) (by norm_num) (by norm_num)
    (by show ¬ (1 / 1000 : ℝ) < (⟨1 / 2000, 0, 0⟩ : Vec3 ℝ).norm; rw [Vec3.norm_axis _ (by norm_num)]; norm_num)
example : ((so3LogExp (1 / 1000) ⟨3 / 2000, 0, 0⟩).sub ⟨3 / 2000, 0, 0⟩).norm ≤ (⟨3 / 2000, 0, 0⟩ : Vec3 ℝ).norm ^ 5 / 40 :=
  so3_log_exp_below_pi (1 / 1000) ⟨3 / 2000, 0, 0⟩ (by norm_num) (by norm_num)      -- a point of the gap band
    (by rw [Vec3.norm_axis _ (by norm_num)]; nlinarith [Real.pi_gt_three])
example : ((so3LogExp (1 / 1000) x1).sub x1).norm ≤ x1.norm ^ 5 / 40 :=
  so3_log_exp_below_pi (1 / 1000) x1 (by norm_num) (by norm_num) x1_hi
example : ((so3LogExp (1 / 1000) ⟨1 / 2000, 0, 0⟩).sub ⟨1 / 2000, 0, 0⟩).norm ≤ (⟨1 / 2000, 0, 0⟩ : Vec3 ℝ).norm ^ 5 / 50 :=
  so3_log_exp_small_norm (1 / 1000) ⟨1 / 2000, 0, 0⟩ (by norm_num) (by norm_num)
    (by rw [Vec3.norm_axis _ (by norm_num)]; norm_num)

end NonVacuity

end PP
