import Pose.Wire
import Pose.Driver.Lie
import Pose.Model.Spline
import Pose.Model.Traj
/-! Driver ops for C19 (splines, APE/RPE, geodesic loss).

Naturals travel as decimal tokens, numbers as exact `m:e` tokens, poses in PyPose storage order. -/
namespace PP.Driver
open PP Wire

namespace C19

def natTok (ts : List String) : Except String (Nat × List String) :=
  match ts with
  | t :: rest => do let n ← nat t; return (n, rest)
  | [] => throw "arity"

def numTok (ts : List String) : Except String (B × List String) :=
  match ts with
  | t :: rest => do let x ← num t; return (x, rest)
  | [] => throw "arity"

def numsTok (n : Nat) (ts : List String) : Except String (List B × List String) := do
  let (a, rest) ← Wire.take n ts
  let xs ← nums a
  return (xs, rest)

def se3List (n : Nat) (l : List B) : List (SE3 B) := (List.range n).map fun i => toSE3 l (7 * i)

def fnOf {β : Type} (d : β) (xs : List β) : Nat → β := fun i => xs.getD i d

def etypeOf : Nat → Traj.EType
  | 0 => .translation | 1 => .rotation | 2 => .pose | 3 => .radian | _ => .degree
def modeOf : Nat → Traj.AlignMode
  | 0 => .none | 1 => .origin | _ => .svd

def fmtPairs (ps : List (Nat × Nat)) : String := fmtNats (ps.flatMap fun p => [p.1, p.2])

/-- a trajectory block: `n stamps(n) poses(7n)` -/
def trajTok (ts : List String) : Except String ((List B × List (SE3 B)) × List String) := do
  let (n, ts) ← natTok ts
  let (st, ts) ← numsTok n ts
  let (ps, ts) ← numsTok (7 * n) ts
  return ((st, se3List n ps), ts)

end C19
open C19

def opsC19 : List (String × Handler) := [
  -- c19.count num den
  ("c19.count", fun ts => do
      match ts with
      | [a, b] => let num ← nat a; let den ← nat b
                  if num == 0 then throw "zero-interval" else return toString (Spline.count num den)
      | _ => throw "arity"),
  -- c19.flen num den  -> length of torch.arange(0, 1, num/den) in binary64 arithmetic
  ("c19.flen", fun ts => do
      match ts with
      | [a, b] => let num ← nat a; let den ← nat b
                  if num == 0 then throw "zero-interval" else return toString (Spline.floatLen num den)
      | _ => throw "arity"),
  -- c19.chs N kk interval p0 … p_{N-1}        (one coordinate)  ->  outLen values
  ("c19.chs", fun ts => do
      let (N, ts) ← natTok ts
      let (kk, ts) ← natTok ts
      let (iv, ts) ← numTok ts
      let (p, ts) ← numsTok N ts
      if !ts.isEmpty then throw "arity"
      return fmt (Spline.chspline N kk iv (fnOf BigF.zero p))),
  -- c19.chsa N num den interval p0 … p_{N-1}   (grid size computed by the model: floatLen num den)
  ("c19.chsa", fun ts => do
      let (N, ts) ← natTok ts
      let (num, ts) ← natTok ts
      let (den, ts) ← natTok ts
      let (iv, ts) ← numTok ts
      let (p, ts) ← numsTok N ts
      if !ts.isEmpty then throw "arity"
      if num == 0 then throw "zero-interval"
      return fmt (Spline.chsplineAuto N num den iv (fnOf BigF.zero p))),
  -- c19.bsa eps num den interval extrap N poses(7N)
  ("c19.bsa", fun ts => do
      let (eps, ts) ← numTok ts
      let (num, ts) ← natTok ts
      let (den, ts) ← natTok ts
      let (iv, ts) ← numTok ts
      let (ex, ts) ← natTok ts
      let (N, ts) ← natTok ts
      let (ps, ts) ← numsTok (7 * N) ts
      if !ts.isEmpty then throw "arity"
      if num == 0 then throw "zero-interval"
      match Spline.bsplineAuto eps N num den iv (ex == 1) (fnOf SE3one (se3List N ps)) with
      | none => throw "assert"
      | some out => return fmt (out.flatMap SE3.toList)),
  -- c19.chsidx N v  -> searchsorted index of v
  ("c19.chsidx", fun ts => do
      let (N, ts) ← natTok ts
      let (v, _) ← numTok ts
      return toString (Spline.searchIdx N v)),
  -- c19.bs eps kk interval extrap N poses(7N)  ->  poses (7 numbers each) | err assert
  ("c19.bs", fun ts => do
      let (eps, ts) ← numTok ts
      let (kk, ts) ← natTok ts
      let (iv, ts) ← numTok ts
      let (ex, ts) ← natTok ts
      let (N, ts) ← natTok ts
      let (ps, ts) ← numsTok (7 * N) ts
      if !ts.isEmpty then throw "arity"
      match Spline.bspline eps N kk iv (ex == 1) (fnOf SE3one (se3List N ps)) with
      | none => throw "assert"
      | some out => return fmt (out.flatMap SE3.toList)),
  -- c19.bsw u -> w1 w2 w3 wend1 wend2 wend3
  ("c19.bsw", numeric fun xs => match xs with
      | [u] => .ok [Spline.bw1 u, Spline.bw2 u, Spline.bw3 u, Spline.bwEnd1, Spline.bwEnd2, Spline.bwEnd3]
      | _ => .error "arity"),
  -- c19.twist eps T0(7) xi(6) t  ->  T0 · Exp(t·xi)
  ("c19.twist", withEps 14 fun e l =>
      (SE3Mul (toSE3 l) (se3Exp e (Spline.scale (tose3 l 7) (l.getD 13 default)))).toList),
  -- c19.bsat eps u P0 P1 P2 P3 (7 each) -> pose of one segment at parameter u
  ("c19.bsat", withEps 29 fun e l =>
      let P : Nat → SE3 B := fun i => toSE3 l (1 + 7 * i)
      (Spline.bsplineAt e P 0 (l.getD 0 default)).toList),
  -- c19.geo eps x(4) y(4)
  ("c19.geo", withEps 8 fun e l => [Traj.geodesic e (qt l) (qt l 4)]),
  -- c19.match diff off ns s… nl l…   -> i0 j0 i1 j1 …
  ("c19.match", fun ts => do
      let (d, ts) ← numTok ts
      let (off, ts) ← numTok ts
      let (ns, ts) ← natTok ts
      let (s, ts) ← numsTok ns ts
      let (nl, ts) ← natTok ts
      let (l, _) ← numsTok nl ts
      return fmtPairs (Traj.matchIdx d off s l)),
  -- c19.pairs pm(0 frame/1 distance) deltaN delta rtol all n poses(7n)
  ("c19.pairs", fun ts => do
      let (pm, ts) ← natTok ts
      let (dN, ts) ← natTok ts
      let (dl, ts) ← numTok ts
      let (rt, ts) ← numTok ts
      let (all, ts) ← natTok ts
      let (n, ts) ← natTok ts
      let (ps, _) ← numsTok (7 * n) ts
      return fmtPairs (Traj.pairId (if pm == 0 then .frame else .distance) dN dl rt (all == 1) (se3List n ps))),
  -- c19.mode align scale origin (0/1 each) -> mode(0 none,1 origin,2 svd) with_scale(0/1)
  ("c19.mode", fun ts => do
      match ts with
      | [a, b, c] => let a ← nat a; let b ← nat b; let c ← nat c
                     let r := Traj.modeOfFlags (a == 1) (b == 1) (c == 1)
                     let m := match r.1 with | .none => 0 | .origin => 1 | .svd => 2
                     return s!"{m} {if r.2 then 1 else 0}"
      | _ => throw "arity"),
  -- c19.stats e1 … en -> max min mean median rmse sse std
  ("c19.stats", numeric fun xs => .ok (Traj.stats xs).toList),
  -- c19.mat2SO3 m(9 row-major) -> quaternion
  ("c19.mat2SO3", numeric fun l => if l.length == 9 then
      .ok (Traj.mat2SO3 (q 1 100000) ⟨v3 l 0, v3 l 3, v3 l 6⟩).toList else .error "arity"),
  -- c19.ape eps etype mode T(8) diff off <r traj> <e traj>  ->  M  errors(M)  stats(7)
  ("c19.ape", fun ts => do
      let (eps, ts) ← numTok ts
      let (et, ts) ← natTok ts
      let (mode, ts) ← natTok ts
      let (T, ts) ← numsTok 8 ts
      let (d, ts) ← numTok ts
      let (off, ts) ← numTok ts
      let ((rs, rp), ts) ← trajTok ts
      let ((es, ep), ts) ← trajTok ts
      if !ts.isEmpty then throw "arity"
      match Traj.apeErrors eps (q 1 100000) (fun _ _ => toSim T) (etypeOf et) d off (modeOf mode) rs rp es ep with
      | none => throw "assert"
      | some er => return s!"{er.length} " ++ fmt (er ++ (Traj.stats er).toList)),
  -- c19.rpe eps etype mode T(8) diff off pm deltaN delta rtol all rpair <r traj> <e traj>
  ("c19.rpe", fun ts => do
      let (eps, ts) ← numTok ts
      let (et, ts) ← natTok ts
      let (mode, ts) ← natTok ts
      let (T, ts) ← numsTok 8 ts
      let (d, ts) ← numTok ts
      let (off, ts) ← numTok ts
      let (pm, ts) ← natTok ts
      let (dN, ts) ← natTok ts
      let (dl, ts) ← numTok ts
      let (rt, ts) ← numTok ts
      let (all, ts) ← natTok ts
      let (rpair, ts) ← natTok ts
      let ((rs, rp), ts) ← trajTok ts
      let ((es, ep), ts) ← trajTok ts
      if !ts.isEmpty then throw "arity"
      match Traj.rpeErrors eps (q 1 100000) (fun _ _ => toSim T) (etypeOf et) d off (modeOf mode)
          (if pm == 0 then .frame else .distance) dN dl rt (all == 1) (rpair == 1) rs rp es ep with
      | none => throw "assert"
      | some er => return s!"{er.length} " ++ fmt (er ++ (Traj.stats er).toList))
]

end PP.Driver
