"""C17 — point-set alignment (svdtf, svdstf), ICP, EPnP.

Model: lean/Pose/Model/Align.lean; theorems: lean/Proofs/Props/C17.lean.

Streams
  align : pp.svdtf / pp.svdstf on batched, broadcast clouds of every rank structure; every item of the real result
          is compared with the model (SVD = contract-checked Jacobi stand-in, 192 bit): exact cost of the
          implementation's transform vs the model's optimum, rotation / translation / scale blocks when the optimum
          is well conditioned, raised exception vs the model's `Except`.
  icp   : pp.module.ICP with recording steppers (fixed number of passes 0..n, ReduceToBason), init given to the
          constructor / to forward / both, the same module object called repeatedly; final transform, errors handed
          to the stepper and the closest-point objective against the model's loop.
  epnp  : (no model — declared partial) pp.module.EPnP against ground truth on generated scenes.
Oracles on the real code: validity (type, shape, unit quaternion, positive scale), purity, exact reproduction of
noise-free correspondences, no better competitor (ground truth, the four proper sign choices of an independent
float64 SVD, local perturbations), ICP objective never above the initial one and non-increasing in the number of
passes, exact recovery inside the convergence basin, EPnP pose and reprojection error.
"""
from __future__ import annotations

import math
import random
import warnings

import torch

from . import common, util_c17 as U
from .common import Ctx, InfraError

META = {
    "rule": "align: a deterministic corner corpus (3-point, planar, collinear, two distinct points, mirror images, mixed "
            "reflection batches, far offsets, extreme scales, both dtypes) followed by random specs: N from {3,4,5,6,8,13,50,200}+random, "
            "cloud kind from 9 rank structures (exact and rotated), rotation kind over all of SO(3) incl. exactly pi, scale ladder "
            "0.01..100 (svdstf), translation 0..1e4 extents, noise 0..0.5 (isotropic / one direction / mirror), batch shapes (), (B), (B1,B2) "
            "with broadcast of source or target; icp: N 3..200, permuted/partial/noisy targets, perturbations inside and outside the "
            "basin, 0..6 passes and ReduceToBason, init in ctor/forward/both, repeated calls; epnp: 6..100 points, f 200..2000, "
            "depth 2..12 extents, refine on/off, batch, intrinsics in ctor/forward. Non-trivial = not (identity transform and zero noise); "
            "distinct by (stream, fn, dtype, N-bucket, cloud, rotation kind, noise kind, reflection, batch shape).",
    "hardening": "views (strided / transposed / offset / expanded), the same tensor as both arguments, in-place updates of the caller's tensors between "
                 "calls, every batched item against the item alone, one ICP / EPnP object through histories of calls with every per-call argument "
                 "varied (each call bit-equal to a fresh module, public attributes unchanged), extents 1e-6..1e6",
    "trusted": ["torch.linalg.svd / det / topk / eig / lstsq are external kernels (contracts); the driver's Jacobi SVD stand-in is "
                "re-checked against the SVD contract on every call",
                "the existence of an SVD of the matrices the code decomposes (hypothesis `SVDOk`, pointwise in every svdtf/svdstf/EPnP-tail theorem, "
                "for all matrices in `svdtf_alignOk`) is classical mathematics, not proved here; the ICP theorems themselves do not depend on it: "
                "`exists_alignOk` gives an optimal aligner by compactness"],
    "assumptions": ["svdstf: Umeyama scale above mat2Sim3's rank threshold atol=1e-5 and sources not all equal (otherwise the code raises / divides by zero; "
                    "outside the property's quantifier)",
                    "ICP recovery clause: every point moved by less than half the distance from its image to any other target "
                    "(hypothesis of icp_recovers_small_perturbation / icpWith_recovers_small_perturbation; proved, not sampled); for clouds that "
                    "enter the basin only after k passes (the slowly converging items of the mixed batches) the same conclusion holds for every "
                    "pass count > k (icp_recovers_after, icpWith_recovers_after, icpWithB_recovers_after), a recovered item stays recovered "
                    "(icp_recovered_stays), and more passes are never worse at the level of the returned transforms, in particular an item of a batch "
                    "is never worse than the item alone with fewer passes (icp_result_more_passes_le, icpWithB_le_alone); WHEN the real loop enters "
                    "the basin and that the batch-level stepper does not stop before an item's own stepper would is sampled (round6 stream)"],
    "partial": ["EPnP: only the tail (_compute_scale, _compute_solution) is modelled and proved (epnp_compute_scale_exact, epnp_tail_exact; stream "
                "epnp_scale); the head (control basis, alpha solve, eig null space, lstsq beta candidates, GN refinement, candidate selection) is a "
                "pipeline of external kernels: ground-truth comparison on generated scenes only (sampling)",
                "floating-point accuracy of the returned transform rides on the correspondence tolerances (theorems are over the reals); "
                "unit norm of the returned quaternion is checked to 32 eps (not re-normalised product of float SVD factors), EPnP accuracy "
                "against empirical tier tolerances (>= 50 x the worst of 20 000 clean scenes per tier)",
                "ICP theorems are about the default ord = 2 / dim = -1 (Euclidean nearest neighbours); forward(ord=..., dim=...) is not modelled: for "
                "ord in {1, inf} the clause 'never a larger mean squared closest-point distance' is false of the code (observation, notes/C17.md); the "
                "harness checks there the error handed to the stepper, recovery in the ord-basin and equality with a fresh module only",
                "statelessness of a module across calls is definitional in the model (the stepper object, which forward mutates and resets, is not part "
                "of IcpMod): for the code it is decided by the history / lifecycle streams (sampling)"],
}

ATOL = 1e-5
UNIT_TOL = 32
# ICP accuracy: a returned point is accurate to ICP_DELTA_K·eps·D (D = largest coordinate: float positions are quantised to eps·D/2;
# clean tree: <= 17 eps·D over N 24..200, both dtypes, |x|/spacing 0..1e5); exact recovery to ICP_REC_K·eps·D (clean: <= 18)
ICP_DELTA_K = 64
ICP_REC_K = 256


def cloud_cond(src64: torch.Tensor) -> float:
    """conditioning of a rigid alignment of this cloud: λ1 / (λ2 + λ3) of its scatter matrix (the margin of `svdtf_optimum_unique` for a
    rigid image of the cloud), between 1 and 1e3: a 3-point or thin cloud determines its pose less accurately than a round one"""
    c = src64.double() - src64.double().mean(0)
    lam = torch.linalg.svdvals(c.T @ c)
    g = float(lam[1] + lam[2])
    return 1.0 if g <= 0 else min(1e3, max(1.0, float(lam[0]) / g))
RATIOS: dict = {}
torch.set_num_threads(1)   # tiny tensors: OpenMP fan-out only costs time on a shared machine


def track(name: str, err: float, tol: float):
    """largest observed error/tolerance ratio per check (reported in the evidence notes: head-room of the tolerances)"""
    if tol > 0 and math.isfinite(err) and math.isfinite(tol):
        RATIOS[name] = max(RATIOS.get(name, 0.0), err / tol)


def pp():
    import pypose
    return pypose


# ----------------------------------------------------------------------------- align stream

def item_spec(r: random.Random, N: int, fn: str, corner: dict | None = None) -> dict:
    spec = {
        "seed": r.randrange(1 << 30), "N": N,
        "cloud": r.choice(U.CLOUD_KINDS), "extent": r.choice([1.0, 1.0, 1.0, 1e-3, 30.0, 1e-6, 1e3, 1e6]),
        "rotate": r.random() < 0.6, "offset": r.choice([0.0, 0.0, 1.0, 3.0, 100.0, 1e4]),
        "qkind": r.choice(U.QUAT_KINDS),
        "scale": (r.choice([0.1, 0.5, 1.0, 1.0, 2.0, 10.0, 0.01, 100.0, r.uniform(0.1, 10),
                            1.0 + r.choice([-1, 1]) * 10.0 ** -r.choice([3, 5, 6, 8, 10, 12])]) if fn == "svdstf" else 1.0),
        "tmag": r.choice([0.0, 1e-3, 1.0, 1.0, 10.0, 1e4]),
        "noise": r.choice([0.0, 0.0, 0.0, 1e-12, 1e-6, 1e-3, 0.01, 0.1, 0.3, 0.5]),
        "nkind": r.choice(["iso", "iso", "iso", "normal", "mirror"]),
    }
    if corner:
        spec.update(corner)
    return spec


def build_case(r: random.Random, fn: str, N: int, dtype: str, batch, bcast: str, with_scale: bool = True,
               corners=None, tag: str = "random") -> dict:
    nb = int(math.prod(batch)) if batch else 1
    items = []
    for i in range(nb):
        c = None
        if corners:
            c = corners[i % len(corners)]
        items.append(item_spec(r, N, fn, c))
    if bcast == "src1":      # one source cloud shared by all items (targets differ)
        for it in items[1:]:
            for key in ("seed_src",):
                it[key] = items[0]["seed"]
    return {"kind": "align", "fn": fn, "N": N, "dtype": dtype, "batch": list(batch), "bcast": bcast, "with_scale": with_scale,
            "items": items, "tag": tag}


def materialise(case):
    """tensors (dtype) of shape batch+(N,3) for source/target, plus per-item float64 views and truths"""
    srcs, tgts, truths = [], [], []
    for it in case["items"]:
        s, t, tr = U.make_item(it)
        if case["bcast"] == "src1" and srcs:
            # shared source: regenerate this item's target from the first item's source with this item's transform
            it2 = dict(it)
            it2["seed"] = it["seed"]
            s0 = srcs[0]
            r = random.Random(it["seed"] ^ 0x5bd1e995)
            q = U.rand_quat(r, it["qkind"])
            R = U.q_to_mat(q)
            sc = it["scale"]
            td = U.q_normalize([r.gauss(0, 1) for _ in range(3)] + [0.0])[:3]
            tv = [it["tmag"] * it["extent"] * v for v in td]
            sig = it["noise"] * it["extent"] * sc
            t = []
            for p in s0:
                y = U.mat_vec(R, p)
                t.append([sc * y[j] + tv[j] + (r.gauss(0, 1) * sig if sig else 0.0) for j in range(3)])
            s, tr = s0, {"q": q, "t": tv, "s": sc}
            tr["shared"] = True
        tr["exact"] = it["noise"] == 0 and (it["nkind"] != "mirror" or tr.get("shared", False)) and \
            not (case["bcast"] == "tgt1" and srcs)
        srcs.append(s)
        tgts.append(t)
        truths.append(tr)
    if case.get("alias"):      # the same tensor is passed as source and target: the identity is the exact answer
        tgts = [list(map(list, s_)) for s_ in srcs]
        truths = [{"q": [0.0, 0.0, 0.0, 1.0], "t": [0.0, 0.0, 0.0], "s": 1.0, "exact": True} for _ in srcs]
    dt = case["dtype"]
    batch = tuple(case["batch"])
    N = case["N"]
    St, S64 = U.to_dtype(srcs, dt)
    Tt, T64 = U.to_dtype(tgts, dt)
    if case["bcast"] == "src1":
        src_t = St[0].reshape((1,) * max(0, len(batch) - 1) + (N, 3)) if len(batch) > 1 else St[0]
    else:
        src_t = St.reshape(batch + (N, 3))
    tgt_t = Tt.reshape(batch + (N, 3))
    if case["bcast"] == "tgt1" and len(batch) >= 1:
        # all items share the first target: overwrite
        tgt_t = Tt[0]
        T64 = T64[0:1].expand(len(srcs), N, 3).clone()
    return src_t, tgt_t, S64, T64, truths


LAYOUTS = ["contig", "contig", "strided", "transposed", "offset", "expanded", "overlap"]


def relayout(t: torch.Tensor, layout: str, batch_to=None):
    """the same values as `t` presented as a non-trivial view: returns (view, backing buffer or None).
    strided   : every second row / inner columns of a larger sentinel-filled buffer (non-contiguous in both axes)
    transposed: stored as (..., 3, N), handed over as `.mT`
    offset    : a contiguous slice in the middle of a larger 1-D buffer (non-zero storage offset)
    expanded  : leading batch axes added with stride 0 (`expand`)"""
    if layout == "strided":
        big = torch.full(t.shape[:-2] + (2 * t.shape[-2] + 1, 5), 7.25, dtype=t.dtype)
        v = big[..., 1:2 * t.shape[-2] + 1:2, 1:4]
        v.copy_(t)
        return v, big
    if layout == "transposed":
        big = t.mT.contiguous()
        return big.mT, big
    if layout == "offset":
        n = t.numel()
        big = torch.full((n + 10,), -3.5, dtype=t.dtype)
        big[5:5 + n] = t.reshape(-1)
        return big[5:5 + n].view(t.shape), big
    if layout == "expanded" and batch_to is not None and t.dim() == 2:
        return t.expand(tuple(batch_to) + tuple(t.shape)), t
    return t, None


def call_align(case, src_t, tgt_t):
    P = pp()
    if case["fn"] == "svdtf":
        return P.svdtf(src_t, tgt_t)
    if case.get("default_arg"):
        return P.svdstf(src_t, tgt_t)
    return P.svdstf(src_t, tgt_t, with_scale=case["with_scale"])


def sign_candidates(src, tgt, scale_mode):
    """competitors from an independent float64 SVD: U diag(±1,±1,±1) Vh with det = +1 (all four proper sign choices),
    each with its own optimal scale (svdstf) / scale 1 and optimal translation; as (s, R, t)"""
    st = U.stats(src, tgt)
    sc = src.double() - st["cs"]
    tc = tgt.double() - st["ct"]
    M = tc.T @ sc
    try:
        Uu, Sv, Vh = torch.linalg.svd(M)
    except Exception:
        return []
    out = []
    for sg in ((1, 1, 1), (1, 1, -1), (1, -1, 1), (-1, 1, 1), (1, -1, -1), (-1, 1, -1), (-1, -1, 1), (-1, -1, -1)):
        D = torch.diag(torch.tensor(sg, dtype=torch.float64))
        R = Uu @ D @ Vh
        if torch.det(R) < 0:
            continue
        m = float((R * M).sum())
        s = 1.0
        if scale_mode and st["A"] > 0:
            s = m / st["A"]
            if not s > 0:
                continue
        t = st["ct"] - s * (R @ st["cs"])
        out.append((s, R, t))
    return out


def cost_srt(s, R, t, src, tgt):
    return float(((s * (src.double() @ R.T) + t - tgt.double()) ** 2).sum())


def small_rot(ax, ang):
    v = [0.0, 0.0, 0.0]
    v[ax] = math.sin(ang / 2)
    return torch.tensor(U.q_to_mat(v + [math.cos(ang / 2)]), dtype=torch.float64)


def oracle_item(ctx: Ctx, case, idx, X, src, tgt, truth, eps):
    """the property's own statement on the real result `X` (storage vector, float64 copy) of item `idx`"""
    fn = case["fn"]
    it = case["items"][idx]
    cid = dict(case, item=idx)
    ok = True
    st = U.stats(src, tgt)
    q = X[3:7]
    nq = float(q.norm())
    # the quaternion is extracted (not re-normalised) from U·M·V of a float SVD: each factor is orthogonal to a few eps;
    # 8.02·eps32 was observed once in 40 000 float32 items, hence 32·eps here (the shared 8·eps is for single group ops)
    track("unit", abs(nq - 1), UNIT_TOL * eps)
    if not (abs(nq - 1) <= UNIT_TOL * eps):
        ctx.fail(cid, f"valid: {fn} quaternion norm {nq!r} differs from 1 by more than {UNIT_TOL} eps")
        ok = False
    if fn == "svdstf" and not (float(X[7]) > 0 and math.isfinite(float(X[7]))):
        ctx.fail(cid, f"valid: svdstf scale {float(X[7])!r} is not a positive finite number")
        return False
    if fn == "svdstf" and not case["with_scale"] and not (abs(float(X[7]) - 1) <= 16 * eps):
        ctx.fail(cid, f"noscale: svdstf(with_scale=False) returned scale {float(X[7])!r}")
        ok = False
    if not torch.isfinite(X).all():
        ctx.fail(cid, f"valid: {fn} returned non-finite numbers")
        return False
    if st["A"] == 0 or st["B"] == 0:
        return ok
    c_impl = U.cost_vec(X, src, tgt)
    cent = 1 + st["Ds"] / st["ss"] + st["Dt"] / st["st"]
    sc = float(X[7]) if fn == "svdstf" else 1.0
    tolc = cost_tol(eps, st, sc, cent)
    # float64 evaluation noise of the two costs being compared (coordinates of size D, residuals of size sqrt(c/N))
    e64 = common.EPS["float64"]
    tolc += 32 * e64 * (st["Dt"] + sc * st["Ds"]) * math.sqrt(st["N"] * max(c_impl, 0.0)) + 64 * st["N"] * (e64 * (st["Dt"] + sc * st["Ds"])) ** 2
    # competitors of the same class
    comps = []
    scale_mode = fn == "svdstf" and case["with_scale"]
    if scale_mode or truth["s"] == 1.0:      # the generating transform is of the same class: a legitimate competitor
        Rt = torch.tensor(U.q_to_mat(truth["q"]), dtype=torch.float64)
        comps.append(("generating", truth["s"], Rt, torch.tensor(truth["t"], dtype=torch.float64)))
    for k, (s, R, t) in enumerate(sign_candidates(src, tgt, scale_mode)):
        comps.append((f"svd-sign-choice-{k}", s, R, t))
    Ri = U.quat_mat_t(q / q.norm())
    for ax in range(3):
        for ang in (1e-3, -1e-3, 0.2):
            R2 = small_rot(ax, ang) @ Ri
            s2 = sc
            t2 = st["ct"] - s2 * (R2 @ st["cs"])
            comps.append((f"perturbed-rotation-{ax}", s2, R2, t2))
    if scale_mode:
        for f in (1 + 1e-3, 1 - 1e-3):
            comps.append(("perturbed-scale", sc * f, Ri, st["ct"] - sc * f * (Ri @ st["cs"])))
    comps.append(("perturbed-translation", sc, Ri, X[:3].double() + 1e-3 * (st["st"] + 1e-300)))
    for name, s, R, t in comps:
        c2 = cost_srt(s, R, t, src, tgt)
        if c_impl > c2 + tolc:
            ctx.fail(cid, f"optimality: {fn} result has sum of squared residuals {c_impl:.6e} but the {name} transform of the same class "
                          f"has {c2:.6e} (allowance {tolc:.2e}; N={st['N']}, cloud={it['cloud']}, noise={it['noise']}/{it['nkind']})")
            ok = False
            break
    return ok


def cost_tol(eps, st, sc, cent):
    """allowance on `cost(implementation) - cost(optimum)`, first order in eps:
    * the rotation / scale are determined from M only to eps·cent·‖M‖ (cent: digits lost by centring); in an
      ill-conditioned direction this costs up to that much;
    * a quaternion with unit norm only to UNIT_TOL·eps scales the rotation by 1 ± 2·UNIT_TOL·eps, which changes the
      cost by up to 4·2·UNIT_TOL·eps·(s²A + B);
    * rounding of the translation: N·(eps·D)²."""
    return 32 * eps * cent * math.sqrt(st["A"] * st["B"]) + 8 * UNIT_TOL * eps * (sc * sc * st["A"] + st["B"]) + \
        64 * st["N"] * (eps * (st["Dt"] + sc * st["Ds"])) ** 2


def exact_tol(eps, st, sc, S, det):
    s1 = S[0]
    gap = S[1] + det * S[2]
    kap = min(s1 / gap if gap > 0 else float("inf"), eps ** -0.5)
    cent = 1 + st["Ds"] / st["ss"] + st["Dt"] / st["st"]
    return 64 * eps * (st["Dt"] + sc * st["Ds"]) * cent * kap


def drive(ctx: Ctx, gens):
    """run generator-style checks in lock-step so that all their model requests of one round go to the driver in a
    single batch (the driver fans a batch out over processes); returns the generators' results"""
    results = [None] * len(gens)
    pending = {}
    for i, g in enumerate(gens):
        try:
            pending[i] = next(g)
        except StopIteration as e:
            results[i] = e.value
    while pending:
        order = list(pending)
        flat = [ln for i in order for ln in pending[i]]
        reps = ctx.driver.run(flat) if flat else []
        pos, nxt = 0, {}
        for i in order:
            k = len(pending[i])
            try:
                nxt[i] = gens[i].send(reps[pos:pos + k])
            except StopIteration as e:
                results[i] = e.value
            pos += k
        pending = nxt
    return results


def _safe_align(case, a, b):
    with warnings.catch_warnings():
        warnings.simplefilter("ignore")
        try:
            return call_align(case, a, b), None
        except Exception as e:      # noqa: BLE001
            return None, e



def align_extras(ctx: Ctx, case, src_t, tgt_t, X, S64, T64, eps) -> bool:
    """(10) every spelling of the call, (12) grad modes, (13) Parameter operands, (15) the result owns its memory, and the
    differentiability oracle (D42): all must give the values of the plain call bit for bit"""
    P = pp()
    fn = case["fn"]
    ok = True
    base = raw(X)
    ws = case["with_scale"]

    def f_pos(a, b):
        return P.svdtf(a, b) if fn == "svdtf" else P.svdstf(a, b, ws)

    def f_kw(a, b):
        return P.svdtf(source=a, target=b) if fn == "svdtf" else P.svdstf(source=a, target=b, with_scale=ws)

    def f_mixed(a, b):
        return P.svdtf(a, target=b) if fn == "svdtf" else P.svdstf(a, b, with_scale=ws)

    variants = [("positional", f_pos, "plain"), ("keyword", f_kw, "plain"), ("mixed", f_mixed, "plain"), ("positional", f_pos, "no_grad"),
                ("keyword", f_kw, "inference"), ("positional", f_pos, "requires_grad"), ("mixed", f_mixed, "parameter")]
    for style, f, mode in variants:
        a, b = as_mode(src_t, mode), as_mode(tgt_t, mode)
        if case.get("alias"):
            b = a
        try:
            with warnings.catch_warnings(), grad_mode(mode):
                warnings.simplefilter("ignore")
                Y = f(a, b)
        except Exception as e:  # noqa: BLE001
            ctx.fail(case, f"raises: {fn} raises {type(e).__name__}: {str(e)[:100]} with {style} arguments in grad mode {mode} although the plain call returns")
            ok = False
            continue
        ctx.count(f"align.extras.{mode}")
        if not lie_equal(Y, X) and mode in ("requires_grad", "parameter") and type(Y).__name__ == "LieTensor" and Y.shape == X.shape \
                and Y.dtype == X.dtype and bool(torch.isfinite(raw(Y)).all()):
            # graph-recording operands make torch pick other (broadcast) matmul kernels: last-bit differences are legitimate; the two
            # results must be equally good transforms of the same correspondences
            ctx.count("align.extras.grad-mode-rounding-differs")
            nbx = len(case["items"])
            Ya, Xa = raw(Y).double().reshape(nbx, -1), base.double().reshape(nbx, -1)
            for i in range(nbx):
                sa, ta = S64[i if case["bcast"] != "src1" else 0], T64[i]
                st = U.stats(sa, ta)
                if st["A"] == 0 or st["B"] == 0:
                    continue
                cy, cx = U.cost_vec(Ya[i], sa, ta), U.cost_vec(Xa[i], sa, ta)
                sc = float(Xa[i][7]) if fn == "svdstf" else 1.0
                cent = 1 + st["Ds"] / st["ss"] + st["Dt"] / st["st"]
                e64 = common.EPS["float64"]
                tol = cost_tol(eps, st, sc, cent) + 32 * e64 * (st["Dt"] + sc * st["Ds"]) * math.sqrt(st["N"] * max(cy, cx, 0.0)) \
                    + 64 * st["N"] * (e64 * (st["Dt"] + sc * st["Ds"])) ** 2
                if not (abs(cy - cx) <= tol):
                    ctx.fail(dict(case, item=i), f"grad-mode: {fn} in grad mode {mode} returns a transform with sum of squared residuals {cy:.6e}, "
                                                 f"the plain call {cx:.6e} (allowance {tol:.2e})")
                    ok = False
        elif not lie_equal(Y, X):
            d = float((raw(Y).double() - base.double()).abs().max()) if getattr(Y, "shape", None) == X.shape else float("nan")
            ctx.fail(case, f"spelling: {fn} with {style} arguments in grad mode {mode} returns {type(Y).__name__}{tuple(getattr(Y, 'shape', ()))} "
                           f"differing from the plain positional call by {d:.3e}")
            ok = False
            continue
        if mode == "requires_grad":
            # differentiable (D42): backward through the result runs; finite gradients on generic, noisy clouds
            try:
                raw_out = Y.tensor()
                raw_out.sum().backward()
                it0 = case["items"][0]
                generic = all(it["cloud"] in ("generic", "aniso") and it["noise"] >= 1e-3 and it["nkind"] == "iso" for it in case["items"]) \
                    and case["N"] >= 4 and case["bcast"] == "none" and not case.get("alias")
                if generic:
                    ctx.count("align.backward-finite-checked")
                    if a.grad is None or b.grad is None or not torch.isfinite(a.grad).all() or not torch.isfinite(b.grad).all():
                        ctx.fail(case, f"backward: the gradient of {fn} w.r.t. its clouds is missing or not finite on generic noisy clouds "
                                       f"(N={case['N']}, {it0['cloud']})")
                        ok = False
            except Exception as e:  # noqa: BLE001
                ctx.fail(case, f"backward: backward through the result of {fn} raises {type(e).__name__}: {str(e)[:100]}")
                ok = False
    # (15) ownership
    ok = owns_memory(ctx, case, X, [("the source", src_t), ("the target", tgt_t)], fn) and ok
    if base.dim() >= 2 and base.shape[0] >= 2:
        snapshot = base.clone()
        with torch.no_grad():
            base[0].mul_(2.0)
        if not torch.equal(base[1:], snapshot[1:]):
            ctx.fail(case, f"alias: changing item 0 of the batch returned by {fn} in place changes other items")
            ok = False
        with warnings.catch_warnings():
            warnings.simplefilter("ignore")
            try:
                Z = f_pos(src_t, tgt_t if not case.get("alias") else src_t)
                if not torch.equal(raw(Z), snapshot):
                    ctx.fail(case, f"alias: after the caller changed a returned result in place, {fn} returns something else for the same arguments")
                    ok = False
            except Exception as e:  # noqa: BLE001
                ctx.fail(case, f"raises: second {fn} call raises {type(e).__name__}")
                ok = False
        with torch.no_grad():
            base.copy_(snapshot)
    return ok


def mixed_and_stale(ctx: Ctx, case, src_t, tgt_t, S64, T64, Xf, eps) -> bool:
    """(7) every item of a batched call against the same call on that item alone; (5) the caller's tensors are updated in
    place after the call and the function is called again: the result must describe the *current* contents."""
    fn, nb = case["fn"], len(case["items"])
    dt = src_t.dtype
    ok = True
    if nb > 1:
        ctx.count("align.item-alone", nb)
        for i in range(nb):
            src = S64[i if case["bcast"] != "src1" else 0]
            tgt = T64[i]
            st = U.stats(src, tgt)
            if st["A"] == 0 or st["B"] == 0:
                continue
            Xi, err = _safe_align(case, src.to(dt), tgt.to(dt))
            if err is not None:
                ctx.count("align.item-alone-raises")     # mat2Sim3's batch-level rank test: alone the item may raise
                continue
            Xi = Xi.tensor().detach().double().reshape(-1)
            if Xi.shape != Xf[i].shape or not torch.isfinite(Xi).all() or not torch.isfinite(Xf[i]).all():
                continue
            cb, ca = U.cost_vec(Xf[i], src, tgt), U.cost_vec(Xi, src, tgt)
            sc = float(Xi[7]) if fn == "svdstf" else 1.0
            cent = 1 + st["Ds"] / st["ss"] + st["Dt"] / st["st"]
            e64 = common.EPS["float64"]
            tol = cost_tol(eps, st, sc, cent) + 32 * e64 * (st["Dt"] + sc * st["Ds"]) * math.sqrt(st["N"] * max(cb, ca, 0.0)) \
                + 64 * st["N"] * (e64 * (st["Dt"] + sc * st["Ds"])) ** 2
            track("alone", abs(cb - ca), tol)
            if not (abs(cb - ca) <= tol):
                ctx.fail(dict(case, item=i), f"batch: item {i} of the batched {fn} call has sum of squared residuals {cb:.6e}, the same item alone "
                                             f"{ca:.6e} (allowance {tol:.2e}; batch {case['batch']}, {case['bcast']})")
                ok = False
    if case.get("alias") or case["bcast"] != "none" or src_t.numel() == 0 or overlaps(src_t, tgt_t):
        return ok
    # stale reads: overwrite the caller's tensors in place (through the views they were given as) and call again
    new_src = (src_t.flip(-2) * 1.5 + 0.25 * float(src_t.abs().max())).clone()
    new_tgt = (tgt_t.roll(1, -2) * 0.75).clone()
    src_t.copy_(new_src)
    tgt_t.copy_(new_tgt)
    Xs, e1 = _safe_align(case, src_t, tgt_t)
    Xr, e2 = _safe_align(case, new_src, new_tgt)
    ctx.count("align.stale-read")
    if (e1 is None) != (e2 is None):
        degenerate = False
        for i in range(nb):
            st_ = U.stats(new_src.double().reshape(nb, -1, 3)[i], new_tgt.double().reshape(nb, -1, 3)[i])
            if st_["ss"] <= 1e4 * eps * st_["Ds"] or st_["st"] <= 1e4 * eps * st_["Dt"]:
                degenerate = True       # the cloud is a handful of quantisation levels wide: a check=True threshold decides, either way is fine
        if degenerate:
            ctx.count("align.stale-read.raise-at-threshold-skipped")
            return ok
        ctx.fail(case, f"stale: after an in-place update of its arguments {fn} {'raises' if e1 else 'returns'} while a fresh call on the "
                       f"same values {'raises' if e2 else 'returns'} ({type(e1 or e2).__name__})")
        return False
    if e1 is None:
        Xs = Xs.tensor().detach().double().reshape(nb, -1)
        Xr = Xr.tensor().detach().double().reshape(nb, -1)
        for i in range(nb):
            a, b = new_src.double().reshape(nb, -1, 3)[i], new_tgt.double().reshape(nb, -1, 3)[i]
            st = U.stats(a, b)
            if st["A"] == 0 or st["B"] == 0 or not torch.isfinite(Xs[i]).all() or not torch.isfinite(Xr[i]).all():
                continue
            cs_, cr_ = U.cost_vec(Xs[i], a, b), U.cost_vec(Xr[i], a, b)
            sc = float(Xr[i][7]) if fn == "svdstf" else 1.0
            cent = 1 + st["Ds"] / st["ss"] + st["Dt"] / st["st"]
            e64 = common.EPS["float64"]
            tol = cost_tol(eps, st, sc, cent) + 32 * e64 * (st["Dt"] + sc * st["Ds"]) * math.sqrt(st["N"] * max(cs_, cr_, 0.0)) \
                + 64 * st["N"] * (e64 * (st["Dt"] + sc * st["Ds"])) ** 2
            track("stale", abs(cs_ - cr_), tol)
            if not (abs(cs_ - cr_) <= tol):
                ctx.fail(dict(case, item=i), f"stale: after an in-place update of the caller's tensors {fn} returns a transform with sum of squared "
                                             f"residuals {cs_:.6e} on the current contents; a fresh call gives {cr_:.6e} (allowance {tol:.2e})")
                ok = False
    return ok


def check_align_case(ctx: Ctx, case, use_model=True) -> bool:
    return drive(ctx, [check_align_gen(ctx, case, use_model)])[0]


def check_align_gen(ctx: Ctx, case, use_model=True):
    fn, dtype, N = case["fn"], case["dtype"], case["N"]
    eps = common.EPS[dtype]
    src_t, tgt_t, S64, T64, truths = materialise(case)
    nb = len(case["items"])
    batch = tuple(case["batch"])
    # views and aliases: the arguments are handed over as non-trivial views of larger buffers
    lay = case.get("layout", ["contig", "contig"])
    if "overlap" in lay and case["bcast"] == "none" and not case.get("alias") and N >= 4 and src_t.shape == tgt_t.shape:
        # (31) the two clouds are overlapping windows of ONE buffer: source = buf[..., :-1, :], target = buf[..., 1:, :]
        # (the values are those of the window: the case is re-materialised from the buffer so that the model sees the same)
        buf = torch.cat([src_t, tgt_t[..., -1:, :]], dim=-2).contiguous()
        src_t, tgt_t = buf[..., :-1, :], buf[..., 1:, :]
        S64 = src_t.double().reshape(nb, N, 3).clone()
        T64 = tgt_t.double().reshape(nb, N, 3).clone()
        for tr in truths:
            tr["exact"] = False
            tr["q"], tr["t"], tr["s"] = [0.0, 0.0, 0.0, 1.0], [0.0, 0.0, 0.0], 1.0
        sbuf = tbuf = buf
        ctx.count("align.overlapping-windows")
    else:
        lay = [("contig" if l_ == "overlap" else l_) for l_ in lay]
        src_t, sbuf = relayout(src_t, lay[0], batch if case["bcast"] == "src1" else None)
        tgt_t, tbuf = relayout(tgt_t, lay[1], batch if case["bcast"] == "tgt1" else None)
    if case.get("alias"):
        tgt_t = src_t       # the very same tensor object as both arguments
    keep = [(b, b.clone()) for b in (sbuf, tbuf) if b is not None]
    mon = common.PurityMonitor()
    ok = True
    raised = None
    with warnings.catch_warnings():
        warnings.simplefilter("ignore")
        try:
            X = mon.call(fn, call_align, case, src_t, tgt_t)
        except Exception as e:      # noqa: BLE001 — the real code raised
            raised = e
    if mon.mutations:
        ctx.fail(case, f"mutation: {fn} changed its argument {mon.mutations[0]['argument']} (layout {lay})")
        ok = False
    for b, b0 in keep:
        if not torch.equal(b, b0):
            ctx.fail(case, f"mutation: {fn} wrote into the buffer its argument is a view of (layout {lay})")
            ok = False
    # model lines (one per item)
    lines = []
    for i in range(nb):
        pts = common.wire_list(S64[i if case["bcast"] != "src1" else 0].flatten().tolist()) + " " + common.wire_list(T64[i].flatten().tolist())
        if fn == "svdtf":
            lines.append(f"c17.svdtf {N} {pts}")
        else:
            lines.append(f"c17.svdstf {1 if case['with_scale'] else 0} {N} {pts}")
    reps = (yield lines) if use_model else [None] * nb
    model = []
    for rep in reps:
        if rep is None:
            model.append(None)
            continue
        stt, payload = common.parse_reply(rep)
        if stt == "err":
            if payload.startswith("raise:"):
                model.append(("raise", payload[6:]))
            else:
                raise InfraError(f"C17 driver stand-in failed its contract: {payload}")
        else:
            model.append(("ok", [float(common.from_wire(t)) for t in payload]))
    m_raises = [m for m in model if m and m[0] == "raise"]
    # mat2Sim3's rank test looks at the whole batch: it raises only if *every* item has a scale below atol; any other
    # conversion error (orthogonality / determinant) of one item raises for the batch
    m_all_rank = bool(m_raises) and len(m_raises) == nb and all(m[1] == "notFullRank" for m in m_raises)
    m_other = [m for m in m_raises if m[1] != "notFullRank"]
    if raised is not None:
        # (a batch in which *some* item has scale 0 — all its target points coincide after rounding — passes the
        # batch-level rank test and then fails the orthogonality test on rot/0: `scaledRotBatch` of the model; such an
        # item is reported by the per-item driver op as notFullRank, so any model raise makes a raise consistent)
        # (`mat2Sim3` takes `det(s·R)^(1/3)`: a Umeyama scale with s³ beyond the dtype's range — s > 7e12 in float32 — overflows
        # there; such scales only arise from clouds of wildly different extents sharing one target, far outside the property)
        fi = torch.finfo(src_t.dtype)
        big = [m[1][7] for m in model if m and m[0] == "ok" and fn == "svdstf" and
               not (1e3 * fi.tiny ** (1 / 3) < m[1][7] < 1e-3 * fi.max ** (1 / 3))]
        if use_model and not m_raises and big:
            ctx.count("align.raise-scale-cubed-out-of-dtype-range")
            return ok
        if use_model and not m_raises:
            ctx.disagree("align.raise", case, f"{fn} raised {type(raised).__name__}: {str(raised)[:100]} but the model returns a value")
            ctx.fail(case, f"raises: {fn} raises {type(raised).__name__} ({str(raised)[:80]}) on valid corresponding point sets")
            return False
        ctx.count("align.both-raise")
        return ok      # both raise (outside the quantifier: scale below the rank threshold) — agreement
    if m_all_rank or m_other:
        ctx.disagree("align.raise", case, f"model raises {m_raises[0][1]} but {fn} returned a value")
        return False
    if m_raises:
        ctx.count("align.rank-test-masked-by-batch", len(m_raises))
        model = [None if (m and m[0] == "raise") else m for m in model]
    P = pp()
    want_type = P.SE3_type if fn == "svdtf" else P.Sim3_type
    dim = 7 if fn == "svdtf" else 8
    if type(X).__name__ != "LieTensor" or X.ltype != want_type or tuple(X.shape) != batch + (dim,) or X.dtype != src_t.dtype:
        ctx.fail(case, f"type: {fn} returned {type(X).__name__} {getattr(X, 'ltype', None)} shape {tuple(X.shape)} {X.dtype} "
                       f"for batch {batch} dtype {dtype}")
        return False
    Xf = X.tensor().detach().double().reshape(nb, dim).clone()
    # (38) every value the real code returns is tested for finiteness BEFORE it goes to the model or into a comparison: a NaN / inf
    # for a finite valid input is a failure of the property on that input ("returns a proper rigid / similarity transform")
    finite = torch.isfinite(Xf).all(-1)
    for i in (~finite).nonzero().flatten().tolist():
        it = case["items"][i]
        ctx.fail(dict(case, item=i), f"valid: {fn} returns non-finite numbers {[round(v, 6) if math.isfinite(v) else str(v) for v in Xf[i].tolist()]} for finite "
                                     f"valid clouds (item {i} of batch {list(batch)}, N={N}, {dtype}, cloud={it['cloud']}, rotation={it['qkind']}"
                                     f"{'#%d' % it['rot_index'] if 'rot_index' in it else ''}, scale={it['scale']}, noise={it['noise']})")
        ok = False
    if bool(finite.all()):
        if case.get("extras"):
            ok = align_extras(ctx, case, src_t, tgt_t, X, S64, T64, eps) and ok
        ok = mixed_and_stale(ctx, case, src_t, tgt_t, S64, T64, Xf, eps) and ok
    # exact cost of the implementation's transform (model arithmetic) — finite items only
    lines2, slot = [], {}
    for i in range(nb):
        if not bool(finite[i]):
            continue
        pts = common.wire_list(S64[i if case["bcast"] != "src1" else 0].flatten().tolist()) + " " + common.wire_list(T64[i].flatten().tolist())
        slot[i] = len(lines2)
        lines2.append(f"c17.cost{dim} {N} {common.wire_list(Xf[i].tolist())} {pts}")
    got2 = (yield lines2) if use_model and lines2 else []
    reps2 = [got2[slot[i]] if (i in slot and got2) else None for i in range(nb)]
    for i in range(nb):
        src = S64[i if case["bcast"] != "src1" else 0]
        tgt = T64[i]
        it = case["items"][i]
        st = U.stats(src, tgt)
        if not bool(finite[i]):
            continue
        ok = oracle_item(ctx, case, i, Xf[i], src, tgt, truths[i], eps) and ok
        if model[i] is None or reps2[i] is None or st["A"] == 0 or st["B"] == 0:
            continue
        mv = model[i][1]
        cv = [float(v) for v in common.reply_nums(reps2[i])]
        cid = dict(case, item=i)
        if fn == "svdtf":
            mt, mq, mR, mS, mdet, mcost = mv[0:3], mv[3:7], mv[7:16], mv[16:19], mv[19], mv[20]
            msc = 1.0
            S = mS
        else:
            mt, mq, msc, mR, mS, mdet, mcost = mv[0:3], mv[3:7], mv[7], mv[8:17], mv[17:20], mv[20], mv[21]
            S = [v * N for v in mS]
        c_impl, Rimpl = cv[0], cv[1:10]
        refl = mdet < 0
        ctx.count(f"align.{fn}.{'reflection' if refl else 'proper'}")
        cent = 1 + st["Ds"] / st["ss"] + st["Dt"] / st["st"]
        sab = math.sqrt(st["A"] * st["B"])
        tolc = cost_tol(eps, st, msc, cent)
        track(f"cost.{dtype}", c_impl - mcost, tolc)
        if not (c_impl <= mcost + tolc):
            ctx.disagree("align.cost", cid, f"{fn} {dtype}: exact cost of the implementation's transform {c_impl:.6e} exceeds the model optimum "
                                           f"{mcost:.6e} by more than {tolc:.2e}")
            ctx.fail(cid, f"optimality: {fn} result has sum of squared residuals {c_impl:.6e}; the transform t={mt} q={mq} s={msc} of the same class "
                          f"has {mcost:.6e} (allowance {tolc:.2e}; N={N}, cloud={it['cloud']}, noise={it['noise']}/{it['nkind']}, reflection={refl})")
            ok = False
        # exact reproduction
        if truths[i]["exact"] and not (fn == "svdtf" and it["scale"] != 1.0) and \
                not (fn == "svdstf" and not case["with_scale"] and it["scale"] != 1.0):
            res = float((U.apply_vec(Xf[i], src) - tgt).abs().max())
            te = exact_tol(eps, st, msc, S, 1.0 if mdet > 0 else -1.0)
            ctx.count("align.exact")
            track(f"exact.{dtype}", res, te)
            if not (res <= te):
                ctx.fail(cid, f"exact: {fn} does not reproduce noise-free correspondences: max residual {res:.3e} > {te:.3e} "
                              f"(N={N}, cloud={it['cloud']}, rotation={it['qkind']}, scale={it['scale']})")
                ok = False
        # blocks, when the optimum is well conditioned
        gap = S[1] + (1.0 if mdet > 0 else -1.0) * S[2]
        tolR = 16 * eps + (16 * eps * cent * sab / gap if gap > 0 else float("inf"))
        if tolR <= 1e-3:
            ctx.count("align.blocks")
            eR = max(abs(a - b) for a, b in zip(Rimpl, mR))
            track(f"rot.{dtype}", eR, tolR)
            if not (eR <= tolR):
                ctx.disagree("align.rotation", cid, f"{fn} {dtype}: rotation block differs from the model by {eR:.3e} > {tolR:.3e}")
                ok = False
            csn = float(st["cs"].abs().max())
            ctn = float(st["ct"].abs().max())
            tols = 32 * eps * (1 + cent * sab / max(S[0] + gap, 1e-300)) if fn == "svdstf" else 0.0
            # the centroids are sums of N coordinates of size D: their rounding error scales with D, not with the (possibly zero:
            # symmetric clouds) centroid itself
            tolt = 3 * (tolR + tols) * msc * csn + 16 * eps * (st["Dt"] + 3 * msc * st["Ds"]) + 1e-300
            et = max(abs(float(Xf[i][j]) - mt[j]) for j in range(3))
            track(f"trans.{dtype}", et, tolt)
            if not (et <= tolt):
                ctx.disagree("align.translation", cid, f"{fn} {dtype}: translation differs from the model by {et:.3e} > {tolt:.3e}")
                ok = False
            if fn == "svdstf":
                es = abs(float(Xf[i][7]) - msc) / msc
                track(f"scale.{dtype}", es, tols)
                if not (es <= tols):
                    ctx.disagree("align.scale", cid, f"svdstf {dtype}: scale {float(Xf[i][7])!r} differs from the model's {msc!r} by {es:.3e} relative > {tols:.3e}")
                    ok = False
        else:
            ctx.count("align.illconditioned")
    return ok


def corner_cases(r: random.Random):
    """deterministic corner corpus: every seed sees these structures (data seeds are fixed too)"""
    fixed = random.Random(1717)
    out = []
    Z = {"noise": 0.0, "nkind": "iso", "offset": 0.0, "extent": 1.0, "tmag": 1.0, "scale": 1.0, "rotate": True}
    for fn in ("svdtf", "svdstf"):
        sc = {"scale": 2.0} if fn == "svdstf" else {}
        # 3-point sets: exact, many rotations (both signs of det(U Vh) occur), and noisy
        out.append(build_case(fixed, fn, 3, "float64", (8,), "none", corners=[dict(Z, cloud="generic", qkind=k, **sc) for k in
                                                                           ("uniform", "pi", "axis180", "nearpi", "small", "identity", "uniform", "mid")], tag="corner-3pt-exact"))
        out.append(build_case(fixed, fn, 3, "float64", (8,), "none", corners=[dict(Z, cloud="generic", qkind="uniform", noise=n, **sc) for n in
                                                                           (0.01, 0.1, 0.3, 0.5)], tag="corner-3pt-noisy"))
        # planar: exact axis-aligned, exact rotated, noisy along the normal (reflection-prone)
        out.append(build_case(fixed, fn, 6, "float64", (6,), "none", corners=[dict(Z, cloud="planar", rotate=False, qkind="uniform", **sc),
                                                                           dict(Z, cloud="planar", qkind="pi", **sc),
                                                                           dict(Z, cloud="planar", qkind="uniform", noise=0.1, nkind="normal", **sc),
                                                                           dict(Z, cloud="nearplanar", qkind="uniform", noise=0.01, **sc),
                                                                           dict(Z, cloud="planar", qkind="uniform", noise=0.3, **sc),
                                                                           dict(Z, cloud="planar", rotate=False, qkind="axis180", **sc)], tag="corner-planar"))
        # collinear / two distinct points / duplicated
        out.append(build_case(fixed, fn, 5, "float64", (6,), "none", corners=[dict(Z, cloud="collinear", rotate=False, qkind="uniform", **sc),
                                                                           dict(Z, cloud="collinear", qkind="uniform", **sc),
                                                                           dict(Z, cloud="two", qkind="uniform", **sc),
                                                                           dict(Z, cloud="duplicated", qkind="pi", **sc),
                                                                           dict(Z, cloud="nearcollinear", qkind="uniform", **sc),
                                                                           dict(Z, cloud="collinear", qkind="uniform", noise=0.05, **sc)], tag="corner-collinear"))
        # mirror images: the reflection branch with a large third singular value; mixed with proper items in one batch
        out.append(build_case(fixed, fn, 7, "float64", (2, 3), "none", corners=[dict(Z, cloud="generic", qkind="uniform", nkind="mirror", **sc),
                                                                             dict(Z, cloud="generic", qkind="uniform", **sc),
                                                                             dict(Z, cloud="aniso", qkind="mid", nkind="mirror", noise=0.05, **sc)], tag="corner-mirror-mixed"))
        # far offsets, large translations, tiny / large extents, float32
        for dt in ("float64", "float32"):
            out.append(build_case(fixed, fn, 13, dt, (4,), "none", corners=[dict(Z, cloud="generic", qkind="uniform", offset=100.0, tmag=1e4, **sc),
                                                                        dict(Z, cloud="generic", qkind="uniform", extent=1e-3, offset=1e4, **sc),
                                                                        dict(Z, cloud="aniso", qkind="uniform", extent=30.0, noise=0.5, **sc),
                                                                        dict(Z, cloud="lattice", qkind="axis180", tmag=0.0, **sc)], tag="corner-scales-" + dt))
        out.append(build_case(fixed, fn, 200, "float64", (), "none", corners=[dict(Z, cloud="generic", qkind="uniform", noise=0.5, **sc)], tag="corner-200"))
        out.append(build_case(fixed, fn, 4, "float32", (3,), "src1", corners=[dict(Z, cloud="generic", qkind="uniform", noise=0.1, **sc)], tag="corner-bcast-src"))
        out.append(build_case(fixed, fn, 4, "float64", (3,), "tgt1", corners=[dict(Z, cloud="generic", qkind="uniform", noise=0.1, **sc)], tag="corner-bcast-tgt"))
    # hardening: views / aliases, extreme extents (1e-6 … 1e6), mixed-regime batches (ranks, reflection, noise, extents in one batch)
    for fn in ("svdtf", "svdstf"):
        sc = {"scale": 0.5} if fn == "svdstf" else {}
        for k, lay in enumerate((["strided", "transposed"], ["transposed", "offset"], ["offset", "strided"], ["strided", "strided"])):
            c = build_case(fixed, fn, 5 + k, "float64" if k % 2 == 0 else "float32", (3,), "none",
                           corners=[dict(Z, cloud="generic", qkind="uniform", noise=0.1, **sc), dict(Z, cloud="planar", qkind="pi", **sc),
                                    dict(Z, cloud="generic", qkind="uniform", nkind="mirror", noise=0.05, **sc)], tag="corner-views")
            c["layout"] = lay
            out.append(c)
        for bshape in ((1,), (1, 2)):      # singleton batch axes must survive
            out.append(build_case(fixed, fn, 5, "float64", bshape, "none", corners=[dict(Z, cloud="generic", qkind="uniform", noise=0.1, **sc)],
                                  tag="corner-singleton-batch"))
        c = build_case(fixed, fn, 6, "float64", (2,), "none", corners=[dict(Z, cloud="generic", qkind="identity", tmag=0.0)], tag="corner-alias")
        c["alias"] = True
        c["layout"] = ["strided", "contig"]
        out.append(c)
        c = build_case(fixed, fn, 4, "float32", (3,), "src1", corners=[dict(Z, cloud="generic", qkind="uniform", noise=0.1, **sc)], tag="corner-expanded")
        c["layout"] = ["expanded", "contig"]
        out.append(c)
        for dt in ("float64", "float32"):
            out.append(build_case(fixed, fn, 9, dt, (6,), "none", corners=[dict(Z, cloud="generic", qkind="uniform", extent=1e-6, **sc),
                                                                        dict(Z, cloud="generic", qkind="uniform", extent=1e6, noise=0.01, **sc),
                                                                        dict(Z, cloud="planar", qkind="pi", extent=1e3, noise=0.1, nkind="normal", **sc),
                                                                        dict(Z, cloud="collinear", qkind="uniform", extent=1e-6, **sc),
                                                                        dict(Z, cloud="aniso", qkind="mid", extent=1e6, nkind="mirror", noise=0.05, **sc),
                                                                        dict(Z, cloud="generic", qkind="small", extent=1.0, noise=0.3, **sc)],
                                  tag="corner-extreme-mixed-" + dt))
    # hardening 2: special sizes (N = 3 = the coordinate dimension, N = 4; batch extents 1..4 in every batch position),
    # with_scale=False on mixed batches, rotations at the branch thresholds of the matrix->quaternion conversion
    for fn in ("svdtf", "svdstf"):
        sc = {"scale": 2.0} if fn == "svdstf" else {}
        for N_, bshape in ((3, (3,)), (3, (3, 3)), (3, (1, 3)), (3, (3, 1)), (4, (4,)), (4, (4, 3)), (3, (4,)), (4, (3,)), (3, (2, 2)), (4, (1,)), (5, (4, 4))):
            out.append(build_case(fixed, fn, N_, "float64" if len(bshape) == 1 else "float32", bshape, "none",
                                  with_scale=(N_ + len(bshape)) % 2 == 0,
                                  corners=[dict(Z, cloud="generic", qkind="uniform", noise=0.1, **sc), dict(Z, cloud="generic", qkind="pi", **sc),
                                           dict(Z, cloud="generic", qkind="uniform", nkind="mirror", noise=0.05, **sc),
                                           dict(Z, cloud="aniso", qkind="mid", noise=0.3, **sc)], tag="corner-sizes"))
        out.append(build_case(fixed, fn, 6, "float64", (8,), "none", corners=[dict(Z, cloud="generic", qkind=k, **sc) for k in
                                                                           ("r22_atol", "r22_atol", "diag_tie", "diag_tie", "r22_atol", "diag_tie", "r22_atol", "diag_tie")],
                              tag="corner-conversion-thresholds"))
    # round 4 (20): exact coincidences — cube / octahedron clouds and lattices under exact quarter turns: equal singular values
    # (isotropic M), exactly equal diagonal entries of R, equidistant points; (28) point counts around kernel switch-overs
    for fn in ("svdtf", "svdstf"):
        sc = {"scale": 2.0} if fn == "svdstf" else {}
        out.append(build_case(fixed, fn, 8, "float64", (6,), "none", corners=[dict(Z, cloud="cube", qkind="quarter", tmag=3.0, **sc),
                                                                           dict(Z, cloud="octa", qkind="quarter", tmag=0.0, **sc),
                                                                           dict(Z, cloud="cube", qkind="uniform", noise=0.1, **sc),
                                                                           dict(Z, cloud="cube", qkind="quarter", nkind="mirror", **sc),
                                                                           dict(Z, cloud="lattice", qkind="quarter", tmag=2.0, **sc),
                                                                           dict(Z, cloud="octa", qkind="pi", offset=4.0, **sc)], tag="corner-exact-ties"))
        out.append(build_case(fixed, fn, 6, "float32", (3,), "none", corners=[dict(Z, cloud="octa", qkind="quarter", **sc),
                                                                           dict(Z, cloud="cube", qkind="quarter", extent=0.5, **sc),
                                                                           dict(Z, cloud="octa", qkind="identity", tmag=0.0, **sc)], tag="corner-exact-ties"))
        for N_ in (25, 26, 33, 129):
            out.append(build_case(fixed, fn, N_, "float32", (2,), "none", corners=[dict(Z, cloud="generic", qkind="uniform", offset=1e4, noise=0.01, **sc),
                                                                                dict(Z, cloud="aniso", qkind="mid", offset=100.0, tmag=1e4, **sc)],
                                  tag="corner-kernel-sizes"))
        out.append(build_case(fixed, fn, 1025, "float32", (), "none", corners=[dict(Z, cloud="generic", qkind="uniform", offset=1e3, noise=0.1, **sc)],
                              tag="corner-kernel-sizes"))
    # round 5 (36): the band between round-off and a "helpful" tolerance — scales 1 ± 1e-3 … 1e-12, rotations 1e-3 … 1e-12 rad from the
    # identity, translations of that size, nearly planar / nearly collinear clouds of aspect 1e-6; (31) overlapping windows of one buffer
    for fn in ("svdtf", "svdstf"):
        for k_, dtn in ((3, "float64"), (6, "float64"), (9, "float64"), (12, "float64"), (3, "float32"), (5, "float32")):
            sc = {"scale": 1.0 + (-1) ** k_ * 10.0 ** -k_} if fn == "svdstf" else {}
            c = build_case(fixed, fn, 7, dtn, (4,), "none", corners=[dict(Z, cloud="generic", qkind="identity", tmag=0.0, **sc),
                                                                   dict(Z, cloud="generic", qkind="identity", tmag=10.0 ** -k_, **sc),
                                                                   dict(Z, cloud="aniso", qkind="small", tmag=0.0, **sc),
                                                                   dict(Z, cloud="generic", qkind="small", tmag=10.0 ** -k_, noise=10.0 ** -(k_ + 2), **sc)],
                           tag="corner-near-identity")
            out.append(c)
        sc = {"scale": 1.0 - 1e-6} if fn == "svdstf" else {}
        out.append(build_case(fixed, fn, 9, "float64", (4,), "none", corners=[dict(Z, cloud="nearplanar", qkind="small", **sc),
                                                                           dict(Z, cloud="nearcollinear", qkind="small", noise=1e-9, **sc),
                                                                           dict(Z, cloud="nearplanar", qkind="uniform", noise=1e-7, nkind="normal", **sc),
                                                                           dict(Z, cloud="nearcollinear", qkind="identity", tmag=1e-6, **sc)],
                              tag="corner-near-degenerate"))
        c = build_case(fixed, fn, 6, "float64", (3,), "none", corners=[dict(Z, cloud="generic", qkind="uniform", **sc)], tag="corner-overlap")
        c["layout"] = ["overlap", "overlap"]
        out.append(c)
    # lesson (38b): all 24 rotations of the cube (signed permutation matrices: axis quarter / half turns, half turns about face
    # diagonals, 120° turns about body diagonals) applied to exactly representable symmetric point sets and to random clouds — the
    # estimated R has exactly equal / zero entries there, which is where the branch selection of the matrix→quaternion conversion ties
    for fn in ("svdtf", "svdstf"):
        sc = {"scale": 2.0} if fn == "svdstf" else {}
        for cloud, N_, dtn in (("cube", 8, "float64"), ("octa", 6, "float64"), ("grid", 9, "float64"), ("triangle", 3, "float64"),
                               ("generic", 7, "float64"), ("cube", 8, "float32"), ("triangle", 3, "float32")):
            out.append(build_case(fixed, fn, N_, dtn, (24,), "none",
                                  corners=[dict(Z, cloud=cloud, qkind="quarter", rot_index=k_, tmag=float(k_ % 3), **sc) for k_ in range(24)],
                                  tag="corner-cube-rotations"))
        for k_ in (3, 7, 11, 16, 20, 23):       # unbatched calls as well
            out.append(build_case(fixed, fn, 3, "float64", (), "none", corners=[dict(Z, cloud="triangle", qkind="quarter", rot_index=k_, tmag=1.0, **sc)],
                                  tag="corner-cube-rotations"))
    # svdstf: the whole scale range of the quantifier and beyond, without scale, default argument
    out.append(build_case(fixed, "svdstf", 8, "float64", (7,), "none", corners=[dict(Z, cloud="generic", qkind="uniform", scale=s) for s in
                                                                            (0.1, 10.0, 1e-3, 1e3, 0.5, 3.0, 1.0)], tag="corner-scale-ladder"))
    out.append(build_case(fixed, "svdstf", 8, "float64", (4,), "none", with_scale=False,
                          corners=[dict(Z, cloud="generic", qkind="uniform", scale=s, noise=n) for s, n in ((1.0, 0.0), (1.0, 0.1), (2.0, 0.0), (0.5, 0.1))],
                          tag="corner-noscale"))
    c = build_case(fixed, "svdstf", 5, "float32", (2,), "none", corners=[dict(Z, cloud="generic", qkind="uniform", scale=3.0)], tag="corner-default-arg")
    c["default_arg"] = True
    out.append(c)
    return out


def random_align_case(r: random.Random) -> dict:
    fn = r.choice(["svdtf", "svdstf"])
    N = r.choice([3, 3, 3, 4, 4, 5, 6, 8, 13, 50, 200, r.randint(3, 200), r.choice([24, 25, 26, 32, 33, 128, 129])])
    dtype = r.choice(["float64", "float64", "float32"])
    c = r.random()
    batch = () if c < 0.45 else ((r.choice([1, 2, 3, 5]),) if c < 0.85 else (r.choice([1, 2]), r.choice([2, 3])))
    if N >= 50 and batch:
        batch = (2,)
    bcast = "none" if not batch else r.choice(["none", "none", "none", "src1", "tgt1"])
    case = build_case(r, fn, N, dtype, batch, bcast, with_scale=(r.random() < 0.8))
    case["layout"] = [r.choice(LAYOUTS), r.choice(LAYOUTS)]
    if bcast == "none" and r.random() < 0.06:
        case["alias"] = True
    case["extras"] = r.random() < 0.25
    return case


def sig_align(case):
    it = case["items"][0]
    nb = "3" if case["N"] == 3 else ("s" if case["N"] < 10 else ("m" if case["N"] < 60 else "l"))
    return ("align", case["fn"], case["dtype"], nb, it["cloud"], it["qkind"], it["nkind"], it["noise"] > 0, tuple(case["batch"]),
            case["bcast"], case["with_scale"])


def run_align(ctx: Ctx, cases):
    gens = []
    for case in cases:
        it = case["items"][0]
        nontrivial = not (it["qkind"] == "identity" and it["noise"] == 0 and it["tmag"] == 0)
        ctx.note_case(sig_align(case), nontrivial)
        ctx.count(f"align.{case['fn']}.cloud.{it['cloud']}")
        ctx.count(f"align.dtype.{case['dtype']}")
        ctx.count(f"align.batchrank.{len(case['batch'])}")
        ctx.count(f"align.noise.{it['noise']}")
        ctx.count(f"align.rotation.{it['qkind']}")
        gens.append(check_align_gen(ctx, case))
        ctx.sample({k: v for k, v in case.items() if k != "items"} | {"item0": case["items"][0]}, cap=4)
    drive(ctx, gens)


# ----------------------------------------------------------------------------- ICP stream

class FixedStepper:
    """a stepper object (the documented user-supplied `stepper`): exactly `n` passes; records what it is given"""

    def __init__(self, n):
        self.n, self.seen, self.resets = n, [], 0
        self.steps = 0

    def reset(self):
        self.steps = 0
        self.resets += 1
        self.seen = []

    def continual(self):
        return self.steps < self.n

    def step(self, loss):
        self.steps += 1
        if self.steps > self.n + 200:
            raise RuntimeError("runaway ICP loop: the user stepper's continual() is not consulted")
        self.seen.append(loss.detach().clone() if torch.is_tensor(loss) else torch.tensor(loss))


class CountingBason:
    """wraps the library's ReduceToBason, counting passes and recording the errors"""

    def __init__(self, **kw):
        self.inner = pp().utils.ReduceToBason(**kw)
        self.seen = []

    def reset(self):
        self.inner.reset()
        self.seen = []

    def continual(self):
        return self.inner.continual()

    def step(self, loss):
        self.seen.append(loss.detach().clone() if torch.is_tensor(loss) else torch.tensor(loss))
        self.inner.step(loss)


def icp_data(spec):
    """source, target (python lists), the true transform source->target points, initial transform"""
    r = random.Random(spec["seed"])
    N = spec["N"]
    src = U.gen_cloud(r, N, spec["cloud"], 1.0, True, spec["offset"])
    # true motion: rotation angle `ang`, translation `tr` (relative to the cloud's smallest point separation)
    d = U.q_normalize([r.gauss(0, 1) for _ in range(3)] + [0.0])[:3]
    ang = spec["ang"]
    q = [d[0] * math.sin(ang / 2), d[1] * math.sin(ang / 2), d[2] * math.sin(ang / 2), math.cos(ang / 2)]
    R = U.q_to_mat(q)
    td = U.q_normalize([r.gauss(0, 1) for _ in range(3)] + [0.0])[:3]
    t = [spec["tr"] * v for v in td]
    c = [sum(p[j] for p in src) / N for j in range(3)]
    # rotate about the centroid so that the displacement is governed by ang·radius + tr
    moved = []
    for p in src:
        y = U.mat_vec(R, [p[j] - c[j] for j in range(3)])
        moved.append([y[j] + c[j] + t[j] for j in range(3)])
    tt = [c[j] + t[j] - U.mat_vec(R, c)[j] for j in range(3)]
    tgt = [list(p) for p in moved]
    if spec["tnoise"]:
        tgt = [[v + r.gauss(0, 1) * spec["tnoise"] for v in p] for p in tgt]
    for _ in range(spec["extra"]):
        tgt.append([r.gauss(0, 1) + c[j] for j in range(3)])
    if spec["drop"]:
        keep = max(3, len(tgt) - spec["drop"])
        tgt = tgt[:keep]
    if spec["perm"]:
        r.shuffle(tgt)
    init = None
    if spec["init"] != "none":
        qi = U.rand_quat(r, "small" if spec["init_small"] else "mid")
        di = U.q_normalize([r.gauss(0, 1) for _ in range(3)] + [0.0])[:3]
        init = [spec["init_t"] * v for v in di] + qi
    return src, tgt, {"q": q, "t": tt}, init


def icp_spec(r: random.Random, N, inside: bool, **kw) -> dict:
    spec = {"seed": r.randrange(1 << 30), "N": N, "cloud": r.choice(["generic", "generic", "aniso", "planar", "lattice"]),
            "offset": r.choice([0.0, 0.0, 5.0]),
            "ang": (r.choice([0.0, 1e-12, 1e-9, 1e-6, 1e-3, 0.01]) if inside else r.choice([0.05, 0.2, 0.6, 1.5])),
            "tr": (r.choice([0.0, 1e-12, 1e-9, 1e-6, 1e-4, 1e-3]) if inside else r.choice([0.05, 0.3, 1.0])),
            "tnoise": 0.0 if inside else r.choice([0.0, 0.0, 0.01, 0.1]),
            "extra": r.choice([0, 0, 3, 10]), "drop": 0 if inside else r.choice([0, 0, 2]),
            "perm": r.random() < 0.8, "init": "none" if inside else r.choice(["none", "ctor", "forward", "both"]),
            "init_small": True, "init_t": r.choice([0.0, 0.01, 0.2]),
            "passes": r.choice([0, 1, 1, 2, 3, 4, 6]), "stepper": r.choice(["fixed", "fixed", "fixed", "bason", "default"]),
            "dtype": r.choice(["float64", "float64", "float32"]), "repeat": r.random() < 0.4, "batch": r.choice([0, 0, 0, 1, 2]),
            "inside": inside}
    spec.update(kw)
    return spec


def min_sep(pts):
    p = torch.tensor(pts, dtype=torch.float64)
    d = (p.unsqueeze(0) - p.unsqueeze(1)).norm(dim=-1)
    d.fill_diagonal_(float("inf"))
    return float(d.min())


def run_icp_once(spec, src_t, tgt_t, init_vec, stepper, module=None):
    P = pp()
    dt = src_t.dtype
    init = None if init_vec is None else P.SE3(torch.tensor(init_vec, dtype=torch.float64).to(dt))
    ctor_init = init if spec["init"] in ("ctor", "both") else None
    fwd_init = init if spec["init"] in ("forward",) else None
    if spec["init"] == "both":
        # forward's init must take precedence over the constructor's: give the constructor a wrong one
        bad = P.SE3(torch.tensor([3.0, -2.0, 1.0, 0.0, 0.0, 0.0, 1.0], dtype=dt))
        ctor_init, fwd_init = bad, init
    if module is None:
        module = P.module.ICP(init=ctor_init, stepper=stepper) if stepper is not None else P.module.ICP(init=ctor_init)
    if fwd_init is not None:
        out = module(src_t, tgt_t, init=fwd_init)
    else:
        out = module(src_t, tgt_t)
    return out, module


def check_icp_case(ctx: Ctx, spec, use_model=True) -> bool:
    return drive(ctx, [check_icp_gen(ctx, spec, use_model)])[0]


def check_icp_gen(ctx: Ctx, spec, use_model=True):
    P = pp()
    dtype = spec["dtype"]
    eps = common.EPS[dtype]
    src, tgt, truth, init = icp_data(spec)
    St, S64 = U.to_dtype(src, dtype)
    Tt, T64 = U.to_dtype(tgt, dtype)
    nb = spec["batch"]
    if nb:
        St = St.unsqueeze(0).expand(nb, -1, -1).clone()
        Tt = Tt.unsqueeze(0).expand(nb, -1, -1).clone()
    ok = True
    case = {"kind": "icp", **spec}
    init64 = None
    if init is not None:
        init64 = torch.tensor(init, dtype=torch.float64).to(St.dtype).double()
    cur0 = S64 if init64 is None else U.apply_vec(init64, S64)
    E0 = U.mscd(cur0, T64)
    D = float(max(S64.abs().max(), T64.abs().max()))
    n_list = list(range(spec["passes"] + 1)) if spec["stepper"] == "fixed" else [None]
    prevE, module, results = None, None, {}
    mon = common.PurityMonitor()
    for n in n_list:
        if spec["stepper"] == "fixed":
            stp = FixedStepper(n)
        elif spec["stepper"] == "bason":
            stp = CountingBason(steps=spec["passes"] + 1, patience=2, decreasing=1e-3, tol=1e-9)
        else:
            stp = None
        with warnings.catch_warnings():
            warnings.simplefilter("ignore")
            try:
                out, module = mon.call("ICP", run_icp_once, spec, St, Tt, init, stp)
                seen_first = list(stp.seen) if stp is not None else None
                if spec["repeat"]:
                    # second call on the same module object (the stepper must be reset, no state may leak)
                    out2, _ = run_icp_once(spec, St, Tt, init, stp, module=module)
                    if not torch.equal(out.tensor(), out2.tensor()):
                        ctx.fail(case, f"history: the second ICP call on the same module returns a different transform "
                                       f"(max diff {float((out.tensor() - out2.tensor()).abs().max()):.3e}, passes={n})")
                        ok = False
                    if spec["init"] in ("forward", "both"):
                        # a third call *without* forward-init must fall back to the constructor's init (none / the
                        # constructor's), exactly like a fresh module: forward's init must not persist
                        spec3 = dict(spec, init=("none" if spec["init"] == "forward" else "ctor"))
                        init3 = None if spec["init"] == "forward" else [3.0, -2.0, 1.0, 0.0, 0.0, 0.0, 1.0]
                        out3 = module(St, Tt)
                        fresh, _ = run_icp_once(spec3, St, Tt, init3, stp)
                        if not torch.equal(out3.tensor(), fresh.tensor()):
                            ctx.fail(case, f"history: after a call with forward(init=...) a call without init differs from a fresh module "
                                           f"(max diff {float((out3.tensor() - fresh.tensor()).abs().max()):.3e}, passes={n})")
                            ok = False
            except Exception as e:  # noqa: BLE001
                ctx.fail(case, f"raises: ICP raises {type(e).__name__}: {str(e)[:100]} (passes={n}, stepper={spec['stepper']})")
                return False
        if mon.mutations:
            ctx.fail(case, f"mutation: ICP changed its argument {mon.mutations[0]['argument']}")
            ok = False
            mon.mutations.clear()
        want_shape = ((nb,) if nb else ()) + (7,)
        if type(out).__name__ != "LieTensor" or out.ltype != P.SE3_type or tuple(out.shape) != want_shape or out.dtype != St.dtype:
            ctx.fail(case, f"type: ICP returned {type(out).__name__} shape {tuple(out.shape)} {out.dtype}, expected SE3 {want_shape}")
            return False
        Xall = out.tensor().detach().double().reshape(-1, 7)
        if nb and not all(torch.equal(Xall[0], Xall[i]) for i in range(1, nb)):
            ctx.fail(case, "batch: identical batch items give different ICP results")
            ok = False
        X = Xall[0]
        nq = float(X[3:7].norm())
        if not torch.isfinite(X).all() or not (abs(nq - 1) <= UNIT_TOL * eps):
            ctx.fail(case, f"valid: ICP result is not a valid SE3 element (|q|={nq!r})")
            return False
        En = U.mscd(U.apply_vec(X, S64), T64)
        # the returned points are accurate to delta; a squared distance d² then moves by at most 2·delta·d + delta²
        delta = ICP_DELTA_K * eps * D * cloud_cond(S64)
        tolE = delta * delta + 2 * delta * math.sqrt(E0) + 64 * eps * E0 + 1e-300
        if not (En <= E0 + tolE):
            ctx.fail(case, f"monotone: ICP result has mean squared closest-point distance {En:.6e} > {E0:.6e} of its initial transform "
                           f"(passes={n}, stepper={spec['stepper']}, N={spec['N']})")
            ok = False
        if prevE is not None and not (En <= prevE + delta * delta + 2 * delta * math.sqrt(prevE) + 64 * eps * prevE):
            ctx.fail(case, f"monotone: mean squared closest-point distance rises from {prevE:.6e} to {En:.6e} between {n - 1} and {n} passes")
            ok = False
        prevE = En
        seen = seen_first
        results[n] = (X, En, seen)
        if n == 0:
            # zero passes: the result must act like the initial transform on the source points
            d0 = float((U.apply_vec(X, S64) - cur0).abs().max())
            if not (d0 <= 256 * eps * D):
                ctx.fail(case, f"init: with zero passes the result differs from the initial transform on the source points by {d0:.3e}")
                ok = False
    # recovery inside the basin: exact rigid motion, displacement below half the point separation, enough passes
    last_n = n_list[-1]
    X, En, seen = results[last_n]
    passes_done = len(seen) if seen is not None else None
    if spec.get("inside") and (passes_done is None or passes_done >= 1):
        want = U.apply_vec(torch.tensor(truth["t"] + truth["q"], dtype=torch.float64), S64)
        res = float((U.apply_vec(X, S64) - want).abs().max())
        tolr = ICP_REC_K * eps * D * cloud_cond(S64)
        ctx.count("icp.recovery")
        track(f"icp.recover.{dtype}", res, tolr)
        if not (res <= tolr):
            ctx.fail(case, f"recover: ICP does not recover an exact rigid perturbation inside the basin: max point error {res:.3e} > {tolr:.3e} "
                           f"(angle={spec['ang']}, shift={spec['tr']}, passes={passes_done}, stepper={spec['stepper']})")
            ok = False
    # model
    if use_model and passes_done is not None and spec["N"] * len(tgt) * (passes_done + 1) <= 4000:
        args = [str(passes_done), "1" if init64 is not None else "0", str(len(src)), str(len(tgt))]
        nums = (init64.tolist() if init64 is not None else []) + S64.flatten().tolist() + T64.flatten().tolist()
        rep = (yield [f"c17.icp {' '.join(args)} {common.wire_list(nums)}"])[0]
        stt, payload = common.parse_reply(rep)
        if stt == "err":
            raise InfraError(f"C17 driver (icp) failed: {payload}")
        mv = [float(common.from_wire(t)) for t in payload]
        mX, margin, cond = mv[0:7], mv[7], mv[8]
        merrs = mv[9:9 + passes_done]
        msscd = mv[9 + passes_done:9 + 2 * passes_done + 1]
        mres = mv[-1]
        ext = float((T64 - T64.mean(0)).norm(dim=-1).max()) + 1e-300
        if cond < 1e-4:
            ctx.count("icp.degenerate-alignment-skipped")
        elif margin > 1e-6 * ext * ext:
            ctx.count("icp.model")
            # errors handed to the stepper
            for j, (a, b) in enumerate(zip([float(s.reshape(-1)[0]) for s in seen], merrs)):
                if not (abs(a - b) <= 256 * eps * D * (j + 1)):
                    ctx.disagree("icp.errors", case, f"error handed to the stepper at pass {j}: implementation {a!r} model {b!r}")
                    ok = False
                    break
            if not (abs(En - mres / len(src)) <= 1024 * eps * (D * math.sqrt(En) + En + eps * D * D) * (passes_done + 1) + 1e-300):
                ctx.disagree("icp.objective", case, f"mean squared closest-point distance of the result: implementation {En!r} model {mres / len(src)!r}")
                ok = False
            for a, b in zip(msscd, msscd[1:]):
                if b > a + 1e-40 * (a + D * D * len(src)):
                    raise InfraError("model ICP objective not monotone — contradicts theorem icp_monotone")
        else:
            ctx.count("icp.near-tie-skipped")
    return ok


def icp_corner_specs():
    fixed = random.Random(4242)
    out = []
    base = dict(cloud="generic", offset=0.0, tnoise=0.0, extra=0, drop=0, perm=True, init="none", init_small=True, init_t=0.0, batch=0)
    # inside the basin: exact recovery, every stepper, repeated calls on the same object, batch, float32
    for stepper, passes, rep, dt, nb in (("fixed", 3, True, "float64", 0), ("default", 1, True, "float64", 0), ("bason", 4, False, "float64", 2),
                                        ("fixed", 2, False, "float32", 0), ("default", 1, False, "float32", 1)):
        out.append(icp_spec(fixed, 12, True, **dict(base, ang=0.01, tr=1e-3, passes=passes, stepper=stepper, dtype=dt, repeat=rep, batch=nb,
                                                    extra=3)))
    out.append(icp_spec(fixed, 3, True, **dict(base, ang=1e-3, tr=1e-3, passes=2, stepper="fixed", dtype="float64", repeat=False)))
    out.append(icp_spec(fixed, 200, True, **dict(base, ang=1e-3, tr=1e-4, passes=2, stepper="fixed", dtype="float64", repeat=False)))
    # outside: monotonicity over passes, init variants
    for init in ("ctor", "forward", "both", "none"):
        out.append(icp_spec(fixed, 20, False, **dict(base, ang=0.4, tr=0.3, tnoise=0.05, extra=5, passes=5, stepper="fixed", dtype="float64",
                                                     repeat=(init == "ctor"), init=init, init_t=0.2)))
    out.append(icp_spec(fixed, 30, False, **dict(base, cloud="planar", ang=1.0, tr=0.5, passes=6, stepper="bason", dtype="float64", repeat=True)))
    return out


def run_icp(ctx: Ctx, specs):
    gens = []
    for spec in specs:
        ctx.note_case(("icp", spec["N"] // 10, spec["cloud"], spec["stepper"], spec["passes"], spec["init"], spec["dtype"], spec["batch"],
                       bool(spec.get("inside")), spec["repeat"]), spec["ang"] != 0 or spec["tr"] != 0)
        ctx.count(f"icp.stepper.{spec['stepper']}")
        ctx.count(f"icp.init.{spec['init']}")
        ctx.count("icp.inside" if spec.get("inside") else "icp.outside")
        gens.append(check_icp_gen(ctx, spec))
        ctx.sample({"stream": "icp", **spec}, cap=6)
    drive(ctx, gens)


def random_icp_spec(r: random.Random) -> dict:
    inside = r.random() < 0.45
    N = r.choice([3, 4, 6, 10, 15, 25, 40, r.randint(3, 40)] + ([100, 200] if r.random() < 0.15 else []))
    spec = icp_spec(r, N, inside)
    if inside:
        # make sure the perturbation really is inside the basin: displacement < 0.4 * minimal separation
        src, tgt, truth, init = icp_data(spec)
        S = torch.tensor(src, dtype=torch.float64)
        want = U.apply_vec(torch.tensor(truth["t"] + truth["q"], dtype=torch.float64), S)
        disp = float((want - S).norm(dim=-1).max())
        allp = src + tgt
        sep = min_sep(tgt) if len(tgt) > 1 else 0.0
        spec["inside"] = bool(disp < 0.4 * sep and spec["tnoise"] == 0 and spec["drop"] == 0) and spec["passes"] >= 1
        if spec["stepper"] != "fixed":
            spec["inside"] = spec["inside"] and True
    return spec


# ----------------------------------------------------------------------------- EPnP stream (ground truth only)

def epnp_scene(spec):
    r = random.Random(spec["seed"])
    N = spec["N"]
    ext = spec["extent"]
    sc = (1.0, spec["aniso"], spec["aniso"] ** 2 if spec["aniso"] < 1 else 1.0)
    pts = [[r.gauss(0, 1) * ext * sc[j] for j in range(3)] for _ in range(N)]
    F = U.q_to_mat(U.rand_quat(r, "uniform"))
    pts = [U.mat_vec(F, p) for p in pts]
    off = [r.gauss(0, 1) * spec["woff"] for _ in range(3)]
    pts = [[p[j] + off[j] for j in range(3)] for p in pts]
    q = U.rand_quat(r, spec["qkind"])
    R = U.q_to_mat(q)
    # camera-frame centroid at depth `depth`·radius on a random bearing inside the field of view
    rad = max(math.sqrt(sum((p[j] - off[j]) ** 2 for j in range(3))) for p in pts)
    depth = spec["depth"] * rad
    cc = [r.uniform(-0.3, 0.3) * depth, r.uniform(-0.3, 0.3) * depth, depth]
    t = [cc[j] - U.mat_vec(R, off)[j] for j in range(3)]
    f = spec["f"]
    K = [[f, 0.0, spec["cx"]], [0.0, f * spec["fy_ratio"], spec["cy"]], [0.0, 0.0, 1.0]]
    return pts, q, t, K


def epnp_spec(r: random.Random, **kw) -> dict:
    spec = {"seed": r.randrange(1 << 30), "N": r.choice([6, 6, 7, 8, 10, 20, 50, 100, r.randint(6, 100)]),
            "extent": r.choice([1.0, 1.0, 0.1, 10.0]), "aniso": r.choice([1.0, 1.0, 0.6, 0.4]), "woff": r.choice([0.0, 1.0, 10.0]),
            "qkind": r.choice(["uniform", "uniform", "pi", "small", "identity", "axis180"]), "depth": r.choice([2.0, 3.0, 5.0, 8.0, 12.0]),
            "f": r.choice([200.0, 500.0, 800.0, 2000.0]), "fy_ratio": r.choice([1.0, 1.0, 1.1, 0.8]), "cx": r.choice([0.0, 320.0]),
            "cy": r.choice([0.0, 240.0]), "refine": r.random() < 0.5, "kmode": r.choice(["ctor", "forward", "override"]),
            "batch": r.choice([0, 0, 0, 2, 3]), "second_call": r.random() < 0.3}
    spec.update(kw)
    return spec


def check_epnp_case(ctx: Ctx, spec) -> bool:
    P = pp()
    case = {"kind": "epnp", **spec}
    nb = spec["batch"]
    scenes = []
    for b in range(max(nb, 1)):
        s2 = dict(spec, seed=spec["seed"] + 7919 * b)
        scenes.append(epnp_scene(s2))
    pts = torch.tensor([s[0] for s in scenes], dtype=torch.float64)
    poses = torch.tensor([s[2] + s[1] for s in scenes], dtype=torch.float64)
    K = torch.tensor(scenes[0][3], dtype=torch.float64)
    T = P.SE3(poses)
    pix = P.point2pixel(pts, K, T)
    pc = T.unsqueeze(-2) @ pts
    if float(pc[..., 2].min()) <= 0:
        return True    # not in front of the camera: outside the quantifier
    if not nb:
        pts, pix, T = pts[0], pix[0], T[0]
    wrongK = K.clone()
    wrongK[0, 0] *= 1.7
    wrongK[1, 2] += 55.0
    ok = True
    try:
        with warnings.catch_warnings():
            warnings.simplefilter("ignore")
            if spec["kmode"] == "ctor":
                mod = P.module.EPnP(K, refine=spec["refine"])
                est = mod(pts, pix)
            elif spec["kmode"] == "forward":
                mod = P.module.EPnP(refine=spec["refine"])
                est = mod(pts, pix, K)
            else:
                mod = P.module.EPnP(wrongK, refine=spec["refine"])
                est = mod(pts, pix, K)
            if spec["second_call"]:
                # the same module again, on a different scene: no state of the first call may leak
                s3 = dict(spec, seed=spec["seed"] + 104729, batch=0)
                p3, q3, t3, K3 = epnp_scene(s3)
                p3 = torch.tensor(p3, dtype=torch.float64)
                T3 = P.SE3(torch.tensor(t3 + q3, dtype=torch.float64))
                if float((T3 @ p3)[..., 2].min()) > 0:
                    px3 = P.point2pixel(p3, K, T3)
                    e3 = mod(p3, px3, K) if spec["kmode"] != "ctor" else mod(p3, px3)
                    ok = epnp_compare(ctx, dict(case, call="second"), e3, T3, p3, px3, K) and ok
                    if spec["kmode"] == "override":
                        if not torch.equal(mod.intrinsics, wrongK):
                            ctx.fail(case, "history: forward's intrinsics overwrote the module's default intrinsics")
                            ok = False
    except Exception as e:  # noqa: BLE001
        ctx.fail(case, f"raises: EPnP raises {type(e).__name__}: {str(e)[:120]} (N={spec['N']}, refine={spec['refine']}, batch={nb})")
        return False
    return epnp_compare(ctx, case, est, T, pts, pix, K) and ok


def epnp_compare(ctx, case, est, T, pts, pix, K) -> bool:
    P = pp()
    if type(est).__name__ != "LieTensor" or est.ltype != P.SE3_type or tuple(est.shape) != tuple(T.shape):
        ctx.fail(case, f"type: EPnP returned {type(est).__name__} shape {tuple(getattr(est, 'shape', ()))}, expected SE3 {tuple(T.shape)}")
        return False
    E = est.tensor().detach().double().reshape(-1, 7)
    G = T.tensor().double().reshape(-1, 7)
    ptsb = pts.reshape(-1, pts.shape[-2], 3)
    ok = True
    for b in range(E.shape[0]):
        if not torch.isfinite(E[b]).all():
            ctx.fail(case, "valid: EPnP returned non-finite numbers")
            return False
        Re, Rg = U.quat_mat_t(E[b, 3:7] / E[b, 3:7].norm()), U.quat_mat_t(G[b, 3:7])
        er = float((Re - Rg).abs().max())
        depth = float(G[b, :3].norm()) + float(ptsb[b].abs().max())
        et = float((E[b, :3] - G[b, :3]).abs().max()) / depth
        # points in the camera frame
        pe = U.apply_vec(E[b], ptsb[b])
        pg = U.apply_vec(G[b], ptsb[b])
        ep = float((pe - pg).abs().max()) / depth
        # measured accuracy tiers of the unchanged tree (>= 50 x the worst of 20 000 clean scenes per tier; the error has a
        # heavy tail for the (nearly) exactly determined 6/7-point systems and for narrow fields of view):
        #   well conditioned (N >= 8, depth <= 5 radii, anisotropy >= 0.6): clean max 2.0e-10 without refinement
        #   (median 4e-14), 1.2e-11 with; otherwise without refinement N=6: 2.2e-6, N=7: 8.1e-9, N>=8: 9.2e-9;
        #   with refinement N<8: 6.0e-10, N>=8: 1.2e-11
        ci = case["per_item"][b] if "per_item" in case else case
        small = case["N"] < 8
        wellc = case["N"] >= 8 and ci["depth"] <= 5 and ci["aniso"] >= 0.6
        if case["refine"]:
            tol = 1e-7 if small else 1e-9
        elif wellc:
            tol = 2e-8
        else:
            tol = 1e-4 if case["N"] == 6 else 1e-6
        small = "small" if small else ("well" if wellc else "big")
        track(f"epnp.{'refine' if case['refine'] else 'norefine'}.{small}", max(er, et, ep), tol)
        ctx.count("epnp.items")
        if not (er <= tol and et <= tol and ep <= tol):
            ctx.fail(case, f"recover: EPnP does not recover the camera pose from exact projections: rotation error {er:.3e}, "
                           f"translation error {et:.3e} (relative), point error {ep:.3e} (relative) > {tol:.1e} "
                           f"(N={case['N']}, refine={case['refine']}, depth={case['depth']}, f={case['f']})")
            ok = False
    err = P.reprojerr(pts, pix, K, est, reduction="norm")
    emax = float(err.max())
    if not (emax <= 1e-4 * abs(float(K[0, 0])) / 500 + 1e-5):
        ctx.fail(case, f"reproject: EPnP pose has reprojection error {emax:.3e} px on exact projections (N={case['N']}, refine={case['refine']})")
        ok = False
    return ok


def epnp_corner_specs():
    fixed = random.Random(777)
    out = []
    for N in (8, 12, 30, 100, 9, 20):     # the well-conditioned family without refinement: the tight tier
        out.append(epnp_spec(fixed, N=N, refine=False, kmode="ctor", batch=fixed.choice([0, 0, 2]), second_call=False,
                             depth=fixed.choice([2.0, 3.0, 5.0]), aniso=fixed.choice([1.0, 0.6])))
    for N, refine, kmode, nb, second in ((6, True, "ctor", 0, True), (6, False, "forward", 0, False), (8, True, "override", 2, True),
                                         (20, False, "ctor", 3, False), (100, True, "forward", 0, False), (100, False, "override", 0, True),
                                         (7, True, "ctor", 0, False), (10, False, "ctor", 2, True)):
        out.append(epnp_spec(fixed, N=N, refine=refine, kmode=kmode, batch=nb, second_call=second))
    return out


def run_epnp(ctx: Ctx, specs):
    for spec in specs:
        ctx.note_case(("epnp", spec["N"] // 10, spec["refine"], spec["kmode"], spec["batch"], spec["qkind"], spec["depth"], spec["f"],
                       spec["aniso"]), True)
        ctx.count(f"epnp.refine.{spec['refine']}")
        ctx.count(f"epnp.kmode.{spec['kmode']}")
        check_epnp_case(ctx, spec)
        ctx.sample({"stream": "epnp", **spec}, cap=8)



# ----------------------------------------------------------------------------- object re-use histories (ICP / EPnP modules)

def _views(t, layout):
    v, buf = relayout(t, layout)
    return v, buf


def _eq_attr(a, b):
    if torch.is_tensor(a) and torch.is_tensor(b):
        return a.shape == b.shape and a.dtype == b.dtype and bool(torch.equal(torch.Tensor.as_subclass(a.detach(), torch.Tensor),
                                                                              torch.Tensor.as_subclass(b.detach(), torch.Tensor)))
    return a == b


def make_stepper(kind, n):
    P = pp()
    if kind == "fixed":
        return FixedStepper(n)
    if kind == "bason":
        return P.utils.ReduceToBason(steps=n + 2, patience=2, decreasing=1e-3, tol=1e-9)
    return None


def icp_hist_spec(r: random.Random, **kw) -> dict:
    spec = {"kind": "icp_hist", "seed": r.randrange(1 << 30), "stepper": r.choice(["default", "bason", "fixed", "fixed"]),
            "ctor_init": r.random() < 0.5, "ncalls": r.choice([3, 4, 5]), "dtype": r.choice(["float64", "float64", "float32"]),
            "passes": r.choice([1, 2, 3])}
    spec.update(kw)
    return spec


def check_icp_history(ctx: Ctx, hs) -> bool:
    """ONE ICP module object, several calls; every per-call argument varies between the calls (point counts, target size,
    batch shape with *different* items, dtype where legal, forward-init, memory layout); the constructor's init tensor and
    the caller's clouds are updated in place between calls.  Every call must equal the same call on a fresh, equivalent
    module bit for bit; the module's public attributes must be what the caller put there."""
    P = pp()
    r = random.Random(hs["seed"])
    case0 = dict(hs)
    ok = True
    dt_fixed = getattr(torch, hs["dtype"])
    init_t = None
    if hs["ctor_init"]:
        q = U.rand_quat(r, "small")
        init_t = P.SE3(torch.tensor([0.05, -0.02, 0.03] + q, dtype=torch.float64).to(dt_fixed))
    stp = make_stepper(hs["stepper"], hs["passes"])
    try:
        module = P.module.ICP(init=init_t, stepper=stp) if stp is not None else P.module.ICP(init=init_t)
    except Exception as e:  # noqa: BLE001
        ctx.fail(case0, f"raises: constructing ICP raises {type(e).__name__}: {str(e)[:100]}")
        return False
    stepper_obj = module.stepper
    st_attrs = {k: getattr(stepper_obj, k) for k in ("max_steps", "patience", "decreasing", "tol") if hasattr(stepper_obj, k)}
    for ci in range(hs["ncalls"]):
        case = dict(hs, call=ci)
        dtype = dt_fixed if hs["ctor_init"] else getattr(torch, r.choice(["float64", "float64", "float32"]))
        eps = common.EPS[str(dtype).split(".")[-1]]
        nb = r.choice([0, 0, 2, 3])
        N = r.choice([3, 5, 8, 12, 20, 30])
        extra = r.choice([0, 0, 2, 7])
        items = []
        for b in range(max(nb, 1)):
            inside = r.random() < 0.5
            sp = icp_spec(r, N, inside, extra=extra, drop=0, init="none", batch=0, offset=r.choice([0.0, 5.0, 1e3]))
            src, tgt, truth, _ = icp_data(sp)
            items.append((src, tgt, truth, sp))
        S = torch.tensor([it[0] for it in items], dtype=torch.float64).to(dtype)
        T = torch.tensor([it[1] for it in items], dtype=torch.float64).to(dtype)
        if not nb:
            S, T = S[0], T[0]
        lay = [r.choice(["contig", "contig", "strided", "transposed", "offset"]) for _ in range(2)]
        Sv, sbuf = relayout(S, lay[0])
        Tv, tbuf = relayout(T, lay[1])
        fwd = None
        if r.random() < 0.4:
            fwd = P.SE3(torch.tensor([0.0, 0.01, -0.01] + U.rand_quat(r, "small"), dtype=torch.float64).to(dtype))
        if init_t is not None and ci > 0 and r.random() < 0.6:
            # stale read: the caller updates the constructor's init tensor in place
            with torch.no_grad():
                init_t.copy_(P.SE3(torch.tensor([r.uniform(-0.1, 0.1) for _ in range(3)] + U.rand_quat(r, "small"), dtype=torch.float64).to(dt_fixed)))
            ctx.count("icp_hist.init-updated-in-place")
        snap = [(x, torch.Tensor.as_subclass(x.detach(), torch.Tensor).clone()) for x in (Sv, Tv, sbuf, tbuf, fwd, init_t) if x is not None]

        def one(mod, a, b, f):
            with warnings.catch_warnings():
                warnings.simplefilter("ignore")
                return mod(a, b, init=f) if f is not None else mod(a, b)

        def fresh():
            st2 = make_stepper(hs["stepper"], hs["passes"])
            i2 = None if init_t is None else P.SE3(init_t.tensor().detach().clone())
            m2 = P.module.ICP(init=i2, stepper=st2) if st2 is not None else P.module.ICP(init=i2)
            a, _ = relayout(S.clone(), lay[0])
            b, _ = relayout(T.clone(), lay[1])
            return one(m2, a, b, None if fwd is None else P.SE3(fwd.tensor().detach().clone()))

        rounds = [("call", None)]
        if r.random() < 0.5:
            rounds.append(("after-in-place-update", 1.0 + 2.0 ** -6))
        for what, factor in rounds:
            if factor is not None:      # stale read: the caller's clouds are changed in place, then the same objects are passed again
                with torch.no_grad():
                    Sv.mul_(factor)
                    Tv.mul_(factor)
                    S = Sv.clone() if lay[0] != "transposed" else Sv.contiguous().clone()
                    T = Tv.clone() if lay[1] != "transposed" else Tv.contiguous().clone()
                snap = [(x, torch.Tensor.as_subclass(x.detach(), torch.Tensor).clone()) for x in (Sv, Tv, sbuf, tbuf, fwd, init_t) if x is not None]
            try:
                out = one(module, Sv, Tv, fwd)
                ref = fresh()
            except Exception as e:  # noqa: BLE001
                ctx.fail(case, f"raises: ICP raises {type(e).__name__}: {str(e)[:100]} in call {ci} of a history on one module "
                               f"(N={N}, batch={nb}, dtype={dtype}, layout={lay}, forward-init={fwd is not None})")
                return False
            ctx.count("icp_hist.calls")
            want_shape = ((nb,) if nb else ()) + (7,)
            if type(out).__name__ != "LieTensor" or tuple(out.shape) != want_shape or out.dtype != dtype:
                ctx.fail(case, f"type: ICP returned {type(out).__name__} shape {tuple(getattr(out, 'shape', ()))} {getattr(out, 'dtype', None)}, "
                               f"expected SE3 {want_shape} {dtype} (call {ci} of a history)")
                return False
            if not torch.equal(out.tensor(), ref.tensor()):
                d = float((out.tensor() - ref.tensor()).abs().max())
                ctx.fail(case, f"history: {what} {ci} on a re-used ICP module differs from the same call on a fresh module by {d:.3e} "
                               f"(N={N}, batch={nb}, dtype={dtype}, layout={lay}, forward-init={fwd is not None}, stepper={hs['stepper']})")
                ok = False
            for x, x0 in snap:
                if not torch.equal(torch.Tensor.as_subclass(x.detach(), torch.Tensor), x0):
                    ctx.fail(case, f"mutation: ICP changed a tensor of the caller (call {ci}, layout {lay})")
                    ok = False
                    break
            # public attributes
            if module.init is not init_t or module.stepper is not stepper_obj:
                ctx.fail(case, f"history: ICP replaced its public attribute {'init' if module.init is not init_t else 'stepper'} during call {ci}")
                ok = False
            for k2, v2 in st_attrs.items():
                if not _eq_attr(getattr(stepper_obj, k2), v2):
                    ctx.fail(case, f"history: stepper attribute {k2} changed from {v2} to {getattr(stepper_obj, k2)} during call {ci}")
                    ok = False
            # the property itself, item by item (mixed batch: inside / outside the basin, different offsets)
            O = out.tensor().detach().double().reshape(-1, 7)
            S64 = S.double().reshape(-1, S.shape[-2], 3)
            T64 = T.double().reshape(-1, T.shape[-2], 3)
            eff = fwd if fwd is not None else init_t
            for b in range(O.shape[0]):
                if not torch.isfinite(O[b]).all():
                    ctx.fail(case, f"valid: ICP returned non-finite numbers (call {ci}, item {b})")
                    ok = False
                    continue
                cur0 = S64[b] if eff is None else U.apply_vec(eff.tensor().detach().double().reshape(-1), S64[b])
                E0, En = U.mscd(cur0, T64[b]), U.mscd(U.apply_vec(O[b], S64[b]), T64[b])
                D = float(max(S64[b].abs().max(), T64[b].abs().max())) * cloud_cond(S64[b])
                delta = ICP_DELTA_K * eps * D
                if not (En <= E0 + delta * delta + 2 * delta * math.sqrt(E0) + 64 * eps * E0):
                    ctx.fail(case, f"monotone: item {b} of call {ci}: mean squared closest-point distance {En:.6e} > {E0:.6e} of its initial transform "
                                   f"(batch of different items, stepper={hs['stepper']})")
                    ok = False
                # inside the basin (the initial nearest-neighbour assignment is the true correspondence, with a margin):
                # exact recovery, for the item inside the batch and for the item alone
                truth = items[b][2]
                want = U.apply_vec(torch.tensor(truth["t"] + truth["q"], dtype=torch.float64), S64[b]) * (1.0 if factor is None else factor)
                d0 = ((cur0.unsqueeze(1) - T64[b].unsqueeze(0)) ** 2).sum(-1)
                dw = ((want.unsqueeze(1) - T64[b].unsqueeze(0)) ** 2).sum(-1)
                basin = bool((d0.argmin(-1) == dw.argmin(-1)).all()) and float(dw.min(-1).values.max()) <= (64 * eps * D) ** 2 \
                    and U.nn_margin(cur0, T64[b]) > 1e-3 and items[b][3]["tnoise"] == 0
                if basin:
                    ctx.count("icp_hist.basin-items")
                    res = float((U.apply_vec(O[b], S64[b]) - want).abs().max())
                    tolr = ICP_REC_K * eps * D
                    if not (res <= tolr):
                        ctx.fail(case, f"recover: item {b} of call {ci} (batch of different items) is inside the basin but ICP misses the exact rigid "
                                       f"motion by {res:.3e} > {tolr:.3e} (stepper={hs['stepper']})")
                        ok = False
                    if O.shape[0] > 1:
                        try:
                            st3 = make_stepper(hs["stepper"], hs["passes"])
                            i3 = None if init_t is None else P.SE3(init_t.tensor().detach().clone())
                            m3 = P.module.ICP(init=i3, stepper=st3) if st3 is not None else P.module.ICP(init=i3)
                            alone = one(m3, S.reshape(-1, S.shape[-2], 3)[b].clone(), T.reshape(-1, T.shape[-2], 3)[b].clone(),
                                        None if fwd is None else P.SE3(fwd.tensor().detach().clone()))
                            ra = float((U.apply_vec(alone.tensor().detach().double().reshape(-1), S64[b]) - U.apply_vec(O[b], S64[b])).abs().max())
                            ctx.count("icp_hist.item-alone")
                            if not (ra <= 2 * tolr):
                                ctx.fail(case, f"batch: item {b} of a batched ICP call and the same item alone differ by {ra:.3e} on the source points "
                                               f"(inside the basin, call {ci})")
                                ok = False
                        except Exception as e:  # noqa: BLE001
                            ctx.fail(case, f"raises: ICP raises {type(e).__name__} on a single item of a batch that was accepted (call {ci})")
                            ok = False
    return ok


def epnp_hist_spec(r: random.Random, **kw) -> dict:
    spec = {"kind": "epnp_hist", "seed": r.randrange(1 << 30), "refine": r.random() < 0.5, "ctorK": r.random() < 0.7,
            "ncalls": r.choice([3, 4, 5])}
    spec.update(kw)
    return spec


def check_epnp_history(ctx: Ctx, hs) -> bool:
    """ONE EPnP module, several calls with different point counts, batch shapes (items of different regimes), intrinsics
    (default / per-call override / the default tensor updated in place by the caller), memory layouts; each call must
    equal a fresh module bit for bit and recover its own ground truth; `refine` and the stored intrinsics stay as set."""
    P = pp()
    r = random.Random(hs["seed"])
    ok = True
    K0 = torch.tensor([[r.choice([300.0, 500.0, 900.0]), 0.0, 320.0], [0.0, 480.0, 240.0], [0.0, 0.0, 1.0]], dtype=torch.float64) \
        if hs["ctorK"] else None
    try:
        mod = P.module.EPnP(K0, refine=hs["refine"]) if K0 is not None else P.module.EPnP(refine=hs["refine"])
    except Exception as e:  # noqa: BLE001
        ctx.fail(dict(hs), f"raises: constructing EPnP raises {type(e).__name__}: {str(e)[:100]}")
        return False
    for ci in range(hs["ncalls"]):
        N = r.choice([6, 8, 9, 12, 25, 40])
        nb = r.choice([0, 0, 2, 3])
        per_item, scenes = [], []
        for b in range(max(nb, 1)):
            sp = epnp_spec(r, N=N, batch=0)
            pts, q, t, _ = epnp_scene(sp)
            scenes.append((pts, q, t))
            per_item.append({"depth": sp["depth"], "aniso": sp["aniso"]})
        if K0 is not None and ci > 0 and r.random() < 0.5:
            with torch.no_grad():       # stale read: the caller changes the module's default intrinsics tensor in place
                K0[0, 0] = r.choice([250.0, 700.0, 1500.0])
                K0[1, 1] = K0[0, 0] * r.choice([1.0, 0.9])
                K0[0, 2] = r.choice([0.0, 320.0])
            ctx.count("epnp_hist.intrinsics-updated-in-place")
        override = (K0 is None) or r.random() < 0.35
        K = K0
        if override:
            f = r.choice([200.0, 640.0, 2000.0])
            K = torch.tensor([[f, 0.0, r.choice([0.0, 300.0])], [0.0, f * r.choice([1.0, 1.1]), 200.0], [0.0, 0.0, 1.0]], dtype=torch.float64)
        case = dict(hs, call=ci, N=N, depth=per_item[0]["depth"], aniso=per_item[0]["aniso"], f=float(K[0, 0]), per_item=per_item, batch=nb)
        pts = torch.tensor([s_[0] for s_ in scenes], dtype=torch.float64)
        T = P.SE3(torch.tensor([s_[2] + s_[1] for s_ in scenes], dtype=torch.float64))
        pix = P.point2pixel(pts, K, T)
        if float((T.unsqueeze(-2) @ pts)[..., 2].min()) <= 0:
            continue
        if not nb:
            pts, pix, T = pts[0], pix[0], T[0]
        lay = [r.choice(["contig", "contig", "strided", "transposed", "offset"]) for _ in range(2)]
        pv, pbuf = relayout(pts.clone(), lay[0])
        xv, xbuf = relayout(pix.clone(), lay[1]) if lay[1] != "strided" else (pix.clone(), None)
        snap = [(x, x.clone()) for x in (pv, xv, pbuf, xbuf, K) if x is not None]
        K0_before = None if K0 is None else K0.clone()
        try:
            with warnings.catch_warnings():
                warnings.simplefilter("ignore")
                est = mod(pv, xv, K) if override else mod(pv, xv)
                m2 = P.module.EPnP(K0.clone(), refine=hs["refine"]) if K0 is not None else P.module.EPnP(refine=hs["refine"])
                a, _ = relayout(pts.clone(), lay[0])
                b2, _ = relayout(pix.clone(), lay[1]) if lay[1] != "strided" else (pix.clone(), None)
                ref = m2(a, b2, K.clone()) if override else m2(a, b2)
        except Exception as e:  # noqa: BLE001
            ctx.fail(case, f"raises: EPnP raises {type(e).__name__}: {str(e)[:100]} in call {ci} of a history on one module "
                           f"(N={N}, batch={nb}, override={override}, layout={lay})")
            return False
        ctx.count("epnp_hist.calls")
        if type(est).__name__ == "LieTensor" and type(ref).__name__ == "LieTensor" and est.shape == ref.shape and \
                not torch.equal(est.tensor(), ref.tensor()):
            d = float((est.tensor() - ref.tensor()).abs().max())
            ctx.fail(case, f"history: call {ci} on a re-used EPnP module differs from the same call on a fresh module by {d:.3e} "
                           f"(N={N}, batch={nb}, override={override}, layout={lay}, refine={hs['refine']})")
            ok = False
        for x, x0 in snap:
            if not torch.equal(x, x0):
                ctx.fail(case, f"mutation: EPnP changed a tensor of the caller (call {ci}, layout {lay})")
                ok = False
                break
        if mod.refine != hs["refine"] or (K0 is not None and not torch.equal(mod.intrinsics, K0_before)) or \
                (K0 is None and hasattr(mod, "intrinsics")):
            ctx.fail(case, f"history: after call {ci} EPnP's public state is not what the caller set: refine={mod.refine} (set {hs['refine']}), default "
                           f"intrinsics {'differ from the tensor the caller passed (stale copy or overwritten)' if K0 is not None else 'created by a call'}")
            ok = False
        ok = epnp_compare(ctx, case, est, T, pts, pix, K) and ok
    return ok


def run_histories(ctx: Ctx, n_icp: int, n_epnp: int):
    fixed = random.Random(909)
    hs = [icp_hist_spec(fixed, stepper=s_, ctor_init=c_, dtype=d_, ncalls=4) for s_, c_, d_ in
          (("default", False, "float64"), ("default", True, "float64"), ("bason", True, "float32"), ("fixed", False, "float64"),
           ("fixed", True, "float64"))]
    hs += [icp_hist_spec(ctx.rng) for _ in range(n_icp)]
    for h in hs:
        ctx.note_case(("icp_hist", h["stepper"], h["ctor_init"], h["dtype"], h["ncalls"], h["seed"] % 7), True)
        ctx.count(f"icp_hist.{h['stepper']}.{'ctor-init' if h['ctor_init'] else 'no-init'}")
        check_icp_history(ctx, h)
    es = [epnp_hist_spec(fixed, refine=r_, ctorK=k_, ncalls=4) for r_, k_ in ((True, True), (False, True), (False, False), (True, False))]
    es += [epnp_hist_spec(ctx.rng) for _ in range(n_epnp)]
    for h in es:
        ctx.note_case(("epnp_hist", h["refine"], h["ctorK"], h["ncalls"], h["seed"] % 7), True)
        ctx.count(f"epnp_hist.refine-{h['refine']}.{'ctorK' if h['ctorK'] else 'noK'}")
        check_epnp_history(ctx, h)



# ----------------------------------------------------------------------------- hardening pass 2: lifecycles of ICP / EPnP objects
# keywords (ord, dim, init, intrinsics; positional vs keyword; verbose steppers), failing calls (atomicity), grad modes, copies
# (deepcopy / copy / pickle / state_dict) used interleaved with the original, outputs owning their memory, special sizes,
# two objects of different dtypes driven alternately in one process.

import contextlib
import copy as _copy
import io as _io
import pickle as _pickle

GRAD_MODES = ["plain", "plain", "no_grad", "inference", "requires_grad", "parameter"]
SIZES_B = [(), (), (1,), (2,), (3,), (4,), (2, 2), (3, 1), (1, 3)]


class RaisingStepper(FixedStepper):
    """FixedStepper whose `step` raises once armed (a user callback failing in the middle of a run)"""

    def __init__(self, n):
        super().__init__(n)
        self.arm_at = None

    def step(self, loss):
        if self.arm_at is not None and self.steps >= self.arm_at:
            raise RuntimeError("stepper callback failed (injected)")
        super().step(loss)


@contextlib.contextmanager
def grad_mode(mode):
    if mode == "no_grad":
        with torch.no_grad():
            yield
    elif mode == "inference":
        with torch.inference_mode():
            yield
    else:
        yield


def as_mode(t, mode):
    if mode == "requires_grad":
        return t.clone().requires_grad_(True)
    if mode == "parameter":
        return torch.nn.Parameter(t.clone())
    return t


def raw(x):
    return torch.Tensor.as_subclass(x.detach(), torch.Tensor)


def overlaps(a, b) -> bool:
    """do two tensors share memory?"""
    a, b = raw(a), raw(b)
    if a.numel() == 0 or b.numel() == 0:
        return False
    return a.untyped_storage().data_ptr() == b.untyped_storage().data_ptr()


def owns_memory(ctx, case, out, others, what) -> bool:
    """(15) a result must not be a stride-0 / self-overlapping view and must not alias an argument or module state"""
    t = raw(out)
    ok = True
    if t.dim() > 0 and t.numel() > 1 and any(st == 0 and sz > 1 for st, sz in zip(t.stride(), t.shape)):
        ctx.fail(case, f"alias: {what} returns a result whose items overlap in memory (stride {t.stride()} for shape {tuple(t.shape)})")
        ok = False
    for name, o in others:
        if o is not None and overlaps(t, o):
            ctx.fail(case, f"alias: the result of {what} shares its memory with {name}")
            ok = False
    return ok


def pickle_roundtrip(obj):
    buf = _io.BytesIO()
    _pickle.dump(obj, buf)
    buf.seek(0)
    return _pickle.load(buf)


def lie_equal(a, b) -> bool:
    return type(a).__name__ == type(b).__name__ == "LieTensor" and a.shape == b.shape and a.dtype == b.dtype and \
        bool(torch.equal(raw(a), raw(b)))


def ord_norm(d, o):
    if o == 1:
        return d.abs().sum(-1)
    if o == float("inf"):
        return d.abs().amax(-1)
    return (d.abs() ** o).sum(-1) ** (1.0 / o)


def icp_life_spec(r: random.Random, **kw) -> dict:
    spec = {"kind": "icp_life", "seed": r.randrange(1 << 30), "stepper": r.choice(["raising", "raising", "bason", "bason_verbose", "default"]),
            "ctor_init": r.random() < 0.5, "dtype": r.choice(["float64", "float64", "float32"]), "nsteps": r.choice([6, 8]),
            "passes": r.choice([1, 2, 3]), "sizes": None}
    spec.update(kw)
    return spec


def life_stepper(kind, n):
    P = pp()
    if kind == "raising":
        return RaisingStepper(n)
    if kind == "bason":
        return P.utils.ReduceToBason(steps=n + 2, patience=2, decreasing=1e-3, tol=1e-9)
    if kind == "bason_verbose":
        return P.utils.ReduceToBason(steps=n + 2, patience=2, decreasing=1e-3, tol=1e-9, verbose=True)
    return None


def icp_lifecycle(ctx: Ctx, ls):
    """generator (one `yield` per action, so that two objects can be driven alternately)"""
    P = pp()
    r = random.Random(ls["seed"])
    dt = getattr(torch, ls["dtype"])
    eps = common.EPS[ls["dtype"]]
    mk_init = lambda: P.SE3(torch.tensor([r.uniform(-0.05, 0.05) for _ in range(3)] + U.rand_quat(r, "small"), dtype=torch.float64).to(dt))  # noqa: E731
    init0 = mk_init() if ls["ctor_init"] else None
    stp = life_stepper(ls["stepper"], ls["passes"])
    try:
        m0 = P.module.ICP(init=init0, stepper=stp) if stp is not None else P.module.ICP(init=init0)
    except Exception as e:  # noqa: BLE001
        ctx.fail(dict(ls), f"raises: constructing ICP raises {type(e).__name__}: {str(e)[:100]}")
        return False
    # every module object with the value its `init` is expected to hold
    mods = [{"m": m0, "exp": None if init0 is None else raw(init0).clone(), "how": "original", "shares": True}]
    ok = True
    sizes = list(ls["sizes"]) if ls.get("sizes") else None

    def fresh_call(exp, S, T, fwd, kw):
        st2 = life_stepper(ls["stepper"], ls["passes"])
        i2 = None if exp is None else P.SE3(exp.clone())
        m2 = P.module.ICP(init=i2, stepper=st2) if st2 is not None else P.module.ICP(init=i2)
        with warnings.catch_warnings(), contextlib.redirect_stdout(_io.StringIO()):
            warnings.simplefilter("ignore")
            return m2(S.clone(), T.clone(), init=None if fwd is None else P.SE3(raw(fwd).clone()), **kw)

    def check_state(case, when):
        good = True
        for md in mods:
            m = md["m"]
            cur = None if m.init is None else raw(m.init)
            if (cur is None) != (md["exp"] is None) or (cur is not None and not torch.equal(cur, md["exp"])):
                ctx.fail(case, f"state: {when}: the `init` of the {md['how']} ICP module is not what its owner set "
                               f"(copies and originals must not be coupled; a failed call must leave the module as it was)")
                good = False
        return good

    for step in range(ls["nsteps"]):
        case = dict(ls, step=step)
        action = "call" if step == 0 else r.choice(["call", "call", "call", "fail", "copy", "update_init"])
        ctx.count(f"icp_life.{action}")
        if action == "update_init":
            tgt_md = r.choice(mods)
            if tgt_md["exp"] is not None:
                new = mk_init()
                with torch.no_grad():
                    tgt_md["m"].init.copy_(new)
                for md in mods:      # modules sharing the very same tensor object see the update; deep copies must not
                    if md["m"].init is tgt_md["m"].init:
                        md["exp"] = raw(new).clone()
            ok = check_state(case, "after an in-place update of one module's init") and ok
            yield
            continue
        if action == "copy":
            src_md = r.choice(mods)
            how = r.choice(["deepcopy", "deepcopy", "pickle", "copy"])
            try:
                with warnings.catch_warnings():
                    warnings.simplefilter("ignore")
                    m2 = {"deepcopy": _copy.deepcopy, "pickle": pickle_roundtrip, "copy": _copy.copy}[how](src_md["m"])
            except Exception as e:  # noqa: BLE001
                if src_md.get("grad_used"):     # observation (scope rule): copying a module that has seen graph tensors
                    ctx.count(f"icp_life.copy.{how}.raises-after-grad-call")
                else:
                    ctx.fail(case, f"raises: {how} of an ICP module raises {type(e).__name__}: {str(e)[:100]}")
                    ok = False
                yield
                continue
            if how != "copy" and m2.init is not None and (m2.init is src_md["m"].init or overlaps(m2.init, src_md["m"].init)):
                ctx.fail(case, f"alias: the {how} of an ICP module shares its `init` tensor with the original")
                ok = False
            if how != "copy" and m2.stepper is src_md["m"].stepper:
                ctx.fail(case, f"alias: the {how} of an ICP module shares its stepper object with the original")
                ok = False
            mods.append({"m": m2, "exp": None if src_md["exp"] is None else src_md["exp"].clone(), "how": how, "shares": how == "copy", "grad_used": src_md.get("grad_used", False)})
            ctx.count(f"icp_life.copy.{how}")
            yield
            continue
        # data of this call
        bshape = sizes.pop(0) if sizes else r.choice(SIZES_B)
        N = r.choice([3, 3, 4, 4, 5, 8, 13])
        extra = r.choice([0, 0, 0, 2, 5])
        nbi = int(math.prod(bshape)) if bshape else 1
        items = []
        for b in range(nbi):
            sp = icp_spec(r, N, True, extra=extra, drop=0, init="none", batch=0, offset=r.choice([0.0, 5.0]),
                          ang=r.choice([0.0, 1e-4, 3e-3]), tr=r.choice([0.0, 1e-4, 1e-3]))
            if r.random() < 0.35:       # spacing regimes of the ReduceToBason thresholds (tol 1e-5 / 1e-9) in the noise
                sp["tnoise"] = r.choice([5e-6, 1e-5, 2e-5, 1e-9, 1e-3])
            src, tgt, truth, _ = icp_data(sp)
            if r.random() < 0.3 and len(tgt) >= 2:      # near-duplicate targets: nearest-neighbour near-ties
                d = r.choice([0.0, 1e-12, 1e-7])
                tgt[-1] = [v + d for v in tgt[0]] if extra else tgt[-1]
            items.append((src, tgt, truth, sp))
        S = torch.tensor([it[0] for it in items], dtype=torch.float64).to(dt).reshape(tuple(bshape) + (N, 3))
        T = torch.tensor([it[1] for it in items], dtype=torch.float64).to(dt).reshape(tuple(bshape) + (N + extra, 3))
        fwd = mk_init() if r.random() < 0.35 else None
        if action == "fail":
            # (11) a call that raises must leave every object as it was
            kind = r.choice(["bad_point_dim", "init_not_lietensor", "init_wrong_dtype", "stepper_raises", "stepper_raises", "bad_ord", "target_not_tensor"])
            if not isinstance(r.choice(mods)["m"].stepper, RaisingStepper) and kind == "stepper_raises":
                kind = "init_not_lietensor"
            md = r.choice(mods)
            m = md["m"]
            stepper_before = m.stepper
            armed = False
            try:
                with warnings.catch_warnings(), contextlib.redirect_stdout(_io.StringIO()):
                    warnings.simplefilter("ignore")
                    if kind == "bad_point_dim":
                        m(S, T[..., :2])
                    elif kind == "init_not_lietensor":
                        m(S, T, init=torch.zeros(7, dtype=dt))
                    elif kind == "init_wrong_dtype":
                        m(S, T, init=P.SE3(torch.tensor([0., 0, 0, 0, 0, 0, 1], dtype=torch.float32 if dt == torch.float64 else torch.float64)))
                    elif kind == "bad_ord":
                        m(S, T, ord="fro")
                    elif kind == "target_not_tensor":
                        m(S, None)
                    elif isinstance(m.stepper, RaisingStepper):
                        m.stepper.arm_at = r.choice([0, 1])
                        armed = True
                        fi = fwd if fwd is not None else (mk_init() if r.random() < 0.6 else None)     # every keyword also on the failing path
                        m(S, T, init=fi) if fi is not None else m(S, T)
                ctx.count(f"icp_life.fail.{kind}.no-exception")
            except Exception:  # noqa: BLE001 — expected
                ctx.count(f"icp_life.fail.{kind}.raised")
            finally:
                if armed:
                    m.stepper.arm_at = None
            # scope rule: only exceptions a valid use can produce (a user callback raising, a documented argument check) are
            # failures of atomicity; what the module looks like after invalid caller input is only recorded
            valid = kind in ("stepper_raises", "init_not_lietensor")
            n0 = len(ctx.failures)
            if m.stepper is not stepper_before:
                ctx.fail(case, f"state: a failing call ({kind}) replaced the ICP module's stepper")
            check_state(case, f"after a failing call ({kind}) on the {md['how']} module")
            if len(ctx.failures) > n0:
                if valid:
                    ok = False
                else:
                    del ctx.failures[n0:]
                    ctx.count(f"icp_life.fail.{kind}.state-changed-after-invalid-input")
            yield
            continue
        # (10) keywords
        o = r.choice([None, None, 2, 1, float("inf"), 3])
        kw = {}
        if o is not None:
            kw["ord"] = o
        if r.random() < 0.3:
            kw["dim"] = -1
        style = r.choice(["positional", "keyword"])
        mode = r.choice(GRAD_MODES)
        case.update(batch=list(bshape), N=N, M=N + extra, ord=str(o), style=style, grad=mode, forward_init=fwd is not None)
        for md in list(mods):
            m = md["m"]
            a, b = as_mode(S, mode), as_mode(T, mode)
            if mode in ("requires_grad", "parameter"):
                for md_ in mods:      # steppers / solvers are shared by shallow copies: they keep the last (graph) loss / solution
                    md_["grad_used"] = True
            snap = [(x, raw(x).clone()) for x in (a, b, fwd) if x is not None]
            try:
                with warnings.catch_warnings(), contextlib.redirect_stdout(_io.StringIO()), grad_mode(mode):
                    warnings.simplefilter("ignore")
                    if style == "keyword":
                        out = m(source=a, target=b, init=fwd, **kw)
                    else:
                        out = m(a, b, kw.get("ord", 2), kw.get("dim", -1), fwd) if kw else (m(a, b, init=fwd) if fwd is not None else m(a, b))
                ref = fresh_call(md["exp"], S, T, fwd, kw)
            except Exception as e:  # noqa: BLE001
                ctx.fail(case, f"raises: ICP raises {type(e).__name__}: {str(e)[:120]} (step {step}, {md['how']} module, batch {bshape}, N={N}, "
                               f"ord={o}, {style} arguments, grad mode {mode})")
                ok = False
                continue
            ctx.count("icp_life.calls")
            ctx.count(f"icp_life.grad.{mode}")
            ctx.count(f"icp_life.ord.{o}")
            if not lie_equal(out, ref):
                d = float((raw(out).double() - raw(ref).double()).abs().max()) if getattr(out, "shape", None) == ref.shape else float("nan")
                ctx.fail(case, f"lifecycle: step {step}: the {md['how']} ICP module ({style} arguments, ord={o}, grad mode {mode}, batch {bshape}, N={N}) "
                               f"returns {type(out).__name__}{tuple(getattr(out, 'shape', ()))} differing from a fresh module in plain mode by {d:.3e}")
                ok = False
                continue
            for x, x0 in snap:
                if not torch.equal(raw(x), x0):
                    ctx.fail(case, f"mutation: ICP changed a tensor of the caller (step {step}, grad mode {mode})")
                    ok = False
            ok = owns_memory(ctx, case, out, [("the source", a), ("the target", b), ("the forward init", fwd), ("the module's init", m.init)], "ICP") and ok
            if isinstance(m.stepper, FixedStepper) and m.stepper.seen:
                # the keyword `ord`: the first error handed to the stepper is the mean ord-distance to the nearest target
                e0 = raw(m.stepper.seen[0]).double().reshape(-1)
                eff_ = raw(fwd).double().reshape(-1) if fwd is not None else (md["exp"].double().reshape(-1) if md["exp"] is not None else None)
                S64_, T64_ = S.double().reshape(-1, N, 3), T.double().reshape(-1, N + extra, 3)
                for bi in range(S64_.shape[0]):
                    c0 = S64_[bi] if eff_ is None else U.apply_vec(eff_, S64_[bi])
                    want_e = float(ord_norm(c0.unsqueeze(1) - T64_[bi].unsqueeze(0), 2 if o is None else o).min(-1).values.mean())
                    De = float(max(S64_[bi].abs().max(), T64_[bi].abs().max()))
                    if e0.numel() == S64_.shape[0] and not (abs(float(e0[bi]) - want_e) <= 256 * eps * De):
                        ctx.fail(case, f"keyword: with ord={o} the first error handed to the stepper is {float(e0[bi])!r}, the mean ord-distance to the "
                                       f"nearest target is {want_e!r} (step {step}, item {bi}, batch {bshape})")
                        ok = False
        # the property on the common result (all modules agreed with their fresh twins); only the original's init applies to `ref`
        md = mods[0]
        ref = fresh_call(md["exp"], S, T, fwd, kw)
        O = raw(ref).double().reshape(-1, 7)
        S64, T64 = S.double().reshape(-1, N, 3), T.double().reshape(-1, N + extra, 3)
        eff = raw(fwd).double().reshape(-1) if fwd is not None else (md["exp"].double().reshape(-1) if md["exp"] is not None else None)
        oo = 2 if o is None else o
        for b in range(O.shape[0]):
            if not torch.isfinite(O[b]).all() or not (abs(float(O[b, 3:7].norm()) - 1) <= UNIT_TOL * eps):
                ctx.fail(case, f"valid: ICP result is not a valid SE3 element (step {step}, item {b}, batch {bshape})")
                ok = False
                continue
            cur0 = S64[b] if eff is None else U.apply_vec(eff, S64[b])
            D = float(max(S64[b].abs().max(), T64[b].abs().max())) * cloud_cond(S64[b])
            delta = ICP_DELTA_K * eps * D
            if oo == 2:
                E0, En = U.mscd(cur0, T64[b]), U.mscd(U.apply_vec(O[b], S64[b]), T64[b])
                if not (En <= E0 + delta * delta + 2 * delta * math.sqrt(E0) + 64 * eps * E0):
                    ctx.fail(case, f"monotone: step {step} item {b} (batch {bshape}, N={N}): mean squared closest-point distance {En:.6e} > {E0:.6e} "
                                   f"of its initial transform")
                    ok = False
            truth = items[b][2]
            want = U.apply_vec(torch.tensor(truth["t"] + truth["q"], dtype=torch.float64), S64[b])
            diff0 = cur0.unsqueeze(1) - T64[b].unsqueeze(0)
            dn = ord_norm(diff0, oo)
            dw = ((want.unsqueeze(1) - T64[b].unsqueeze(0)) ** 2).sum(-1)
            srt = dn.sort(-1).values
            gap = float((srt[:, 1] - srt[:, 0]).min()) if srt.shape[1] > 1 else 1.0
            basin = bool((dn.argmin(-1) == dw.argmin(-1)).all()) and float(dw.min(-1).values.max()) <= (64 * eps * D) ** 2 \
                and gap > 1e-3 and items[b][3]["tnoise"] == 0
            if basin:
                ctx.count("icp_life.basin-items")
                res = float((U.apply_vec(O[b], S64[b]) - want).abs().max())
                tolr = ICP_REC_K * eps * D
                if not (res <= tolr):
                    ctx.fail(case, f"recover: step {step} item {b} (batch {bshape}, N={N}, ord={o}) is inside the basin but ICP misses the exact rigid "
                                   f"motion by {res:.3e} > {tolr:.3e}")
                    ok = False
        yield
    # finally: every result ever returned was scaled in place above? (outputs are not kept) — state must still be intact
    ok = check_state(dict(ls, step="end"), "at the end of the lifecycle") and ok
    return ok


def epnp_life_spec(r: random.Random, **kw) -> dict:
    spec = {"kind": "epnp_life", "seed": r.randrange(1 << 30), "refine": r.random() < 0.5, "ctorK": r.random() < 0.7, "nsteps": r.choice([5, 7]),
            "sizes": None}
    spec.update(kw)
    return spec


def epnp_lifecycle(ctx: Ctx, ls):
    P = pp()
    r = random.Random(ls["seed"])
    mkK = lambda: torch.tensor([[r.choice([300.0, 500.0, 900.0]), 0.0, r.choice([0.0, 320.0])], [0.0, r.choice([300.0, 480.0]), 240.0],  # noqa: E731
                                [0.0, 0.0, 1.0]], dtype=torch.float64)
    K0 = mkK() if ls["ctorK"] else None
    try:
        m0 = P.module.EPnP(K0, refine=ls["refine"]) if K0 is not None else P.module.EPnP(refine=ls["refine"])
    except Exception as e:  # noqa: BLE001
        ctx.fail(dict(ls), f"raises: constructing EPnP raises {type(e).__name__}: {str(e)[:100]}")
        return False
    mods = [{"m": m0, "exp": None if K0 is None else K0.clone(), "how": "original"}]
    ok = True
    sizes = list(ls["sizes"]) if ls.get("sizes") else None

    def check_state(case, when):
        good = True
        for md in mods:
            m = md["m"]
            has = hasattr(m, "intrinsics")
            if m.refine != ls["refine"] or has != (md["exp"] is not None) or (has and not torch.equal(m.intrinsics, md["exp"])):
                ctx.fail(case, f"state: {when}: refine / default intrinsics of the {md['how']} EPnP module are not what its owner set "
                               f"(copies and originals must not be coupled; a failed call must leave the module as it was)")
                good = False
        return good

    for step in range(ls["nsteps"]):
        case = dict(ls, step=step)
        action = "call" if step == 0 else r.choice(["call", "call", "call", "fail", "copy", "update_K"])
        ctx.count(f"epnp_life.{action}")
        if action == "update_K":
            md = r.choice(mods)
            if md["exp"] is not None:
                new = mkK()
                with torch.no_grad():
                    md["m"].intrinsics.copy_(new)
                for m2 in mods:
                    if hasattr(m2["m"], "intrinsics") and m2["m"].intrinsics is md["m"].intrinsics:
                        m2["exp"] = new.clone()
            ok = check_state(case, "after an in-place update of one module's intrinsics") and ok
            yield
            continue
        if action == "copy":
            src_md = r.choice(mods)
            how = r.choice(["deepcopy", "pickle", "copy", "state_dict"])
            try:
                if how == "state_dict":
                    if src_md["exp"] is None:
                        yield
                        continue
                    m2 = P.module.EPnP(torch.eye(3, dtype=torch.float64), refine=ls["refine"])
                    m2.load_state_dict(src_md["m"].state_dict())
                else:
                    m2 = {"deepcopy": _copy.deepcopy, "pickle": pickle_roundtrip, "copy": _copy.copy}[how](src_md["m"])
            except Exception as e:  # noqa: BLE001
                if src_md.get("grad_used"):
                    # observation (scope rule): after a call with requires_grad operands the module's LSTSQ solver keeps its last
                    # `out` (a non-leaf graph tensor, pypose/optim/solver.py) and deepcopy / pickle of the module raise
                    ctx.count(f"epnp_life.copy.{how}.raises-after-grad-call")
                else:
                    ctx.fail(case, f"raises: {how} of an EPnP module raises {type(e).__name__}: {str(e)[:100]}")
                    ok = False
                yield
                continue
            if how != "copy" and src_md["exp"] is not None and overlaps(m2.intrinsics, src_md["m"].intrinsics):
                ctx.fail(case, f"alias: the {how} copy of an EPnP module shares its intrinsics buffer with the original")
                ok = False
            mods.append({"m": m2, "exp": None if src_md["exp"] is None else src_md["exp"].clone(), "how": how,
                         "grad_used": src_md.get("grad_used", False)})
            ctx.count(f"epnp_life.copy.{how}")
            yield
            continue
        bshape = sizes.pop(0) if sizes else r.choice(SIZES_B)
        N = r.choice([6, 6, 7, 8, 12, 13, 24])
        nbi = int(math.prod(bshape)) if bshape else 1
        per_item, scenes = [], []
        for b in range(nbi):
            sp = epnp_spec(r, N=N, batch=0)
            pts, q, t, _ = epnp_scene(sp)
            scenes.append((pts, q, t))
            per_item.append({"depth": sp["depth"], "aniso": sp["aniso"]})
        if action == "fail":
            md = r.choice(mods)
            kind = r.choice(["three_points", "pixel_count", "intrinsics_shape", "points_not_tensor", "no_intrinsics"])
            pts = torch.tensor(scenes[0][0], dtype=torch.float64)
            pix = torch.zeros(N, 2, dtype=torch.float64)
            try:
                with warnings.catch_warnings():
                    warnings.simplefilter("ignore")
                    if kind == "three_points":
                        md["m"](pts[:3], pix[:3], mkK())
                    elif kind == "pixel_count":
                        md["m"](pts, pix[:-1], mkK())
                    elif kind == "intrinsics_shape":
                        md["m"](pts, pix, torch.eye(2, dtype=torch.float64))
                    elif kind == "points_not_tensor":
                        md["m"](None, pix, mkK())
                    else:
                        md["m"](pts, pix) if md["exp"] is None else md["m"](pts, pix, "K")
                ctx.count(f"epnp_life.fail.{kind}.no-exception")
            except Exception:  # noqa: BLE001 — expected
                ctx.count(f"epnp_life.fail.{kind}.raised")
            valid = kind in ("three_points", "pixel_count")       # documented assertion of forward()
            n0 = len(ctx.failures)
            check_state(case, f"after a failing call ({kind}) on the {md['how']} module")
            if len(ctx.failures) > n0:
                if valid:
                    ok = False
                else:
                    del ctx.failures[n0:]
                    ctx.count(f"epnp_life.fail.{kind}.state-changed-after-invalid-input")
            yield
            continue
        override_K = mkK() if (r.random() < 0.4) else None
        style = r.choice(["positional", "keyword"])
        mode = r.choice(GRAD_MODES)
        T = P.SE3(torch.tensor([s_[2] + s_[1] for s_ in scenes], dtype=torch.float64).reshape(tuple(bshape) + (7,)))
        pts = torch.tensor([s_[0] for s_ in scenes], dtype=torch.float64).reshape(tuple(bshape) + (N, 3))
        for md in list(mods):
            K = override_K if override_K is not None else md["exp"]
            if K is None:
                K = mkK()
                use_override = True
            else:
                use_override = override_K is not None
            pix = P.point2pixel(pts, K, T)
            if float((T.unsqueeze(-2) @ pts)[..., 2].min()) <= 0:
                continue
            cs = dict(case, N=N, batch=list(bshape), style=style, grad=mode, override=use_override, refine=ls["refine"], f=float(K[0, 0]),
                      depth=per_item[0]["depth"], aniso=per_item[0]["aniso"], per_item=per_item)
            a, b = as_mode(pts, mode), as_mode(pix, mode)
            if mode in ("requires_grad", "parameter"):
                for md_ in mods:      # steppers / solvers are shared by shallow copies: they keep the last (graph) loss / solution
                    md_["grad_used"] = True
            snap = [(x, raw(x).clone()) for x in (a, b, K)]
            try:
                with warnings.catch_warnings(), grad_mode(mode):
                    warnings.simplefilter("ignore")
                    if style == "keyword":
                        est = md["m"](points=a, pixels=b, intrinsics=K) if use_override else md["m"](points=a, pixels=b)
                    else:
                        est = md["m"](a, b, K) if use_override else md["m"](a, b)
                with warnings.catch_warnings():
                    warnings.simplefilter("ignore")
                    m2 = P.module.EPnP(md["exp"].clone(), refine=ls["refine"]) if md["exp"] is not None else P.module.EPnP(refine=ls["refine"])
                    ref = m2(pts.clone(), pix.clone(), K.clone()) if use_override else m2(pts.clone(), pix.clone())
            except Exception as e:  # noqa: BLE001
                ctx.fail(cs, f"raises: EPnP raises {type(e).__name__}: {str(e)[:120]} (step {step}, {md['how']} module, batch {bshape}, N={N}, "
                             f"{style} arguments, grad mode {mode}, refine={ls['refine']})")
                ok = False
                continue
            ctx.count("epnp_life.calls")
            ctx.count(f"epnp_life.grad.{mode}")
            if not lie_equal(est, ref):
                same_shape = getattr(est, "shape", None) == ref.shape
                if mode in ("requires_grad", "parameter") and same_shape:
                    # with graph-recording operands torch takes other kernels (lstsq / solve backward-capable paths): the values
                    # differ in the last bits (1e-16 .. 1e-13 observed); the accuracy oracle below decides
                    ctx.count("epnp_life.grad-mode-rounding-differs")
                elif mode == "inference" and ls["refine"] and same_shape:
                    # observed on the unchanged tree: under torch.inference_mode() the Gauss-Newton refinement is a silent no-op
                    # (optim.functional.modjac's @torch.enable_grad() cannot override inference mode); the accuracy oracle below
                    # (tier of the unrefined solution) still applies
                    ctx.count("epnp.inference-refine-skipped")      # out of scope (coordinator's decision): observation only
                else:
                    d = float((raw(est).double() - raw(ref).double()).abs().max()) if same_shape else float("nan")
                    ctx.fail(cs, f"lifecycle: step {step}: the {md['how']} EPnP module ({style} arguments, grad mode {mode}, batch {bshape}, N={N}, "
                                 f"override={use_override}) returns {type(est).__name__}{tuple(getattr(est, 'shape', ()))} differing from a fresh module "
                                 f"in plain mode by {d:.3e}")
                    ok = False
                    continue
            for x, x0 in snap:
                if not torch.equal(raw(x), x0):
                    ctx.fail(cs, f"mutation: EPnP changed a tensor of the caller (step {step}, grad mode {mode})")
                    ok = False
            ok = owns_memory(ctx, cs, est, [("the points", a), ("the pixels", b), ("the intrinsics", K)], "EPnP") and ok
            cs2 = dict(cs, refine=ls["refine"] and mode != "inference")
            ok = epnp_compare(ctx, cs2, P.SE3(raw(est).clone()), T, pts, pix, K) and ok
        ok = check_state(case, f"after call {step}") and ok
        yield
    return ok


def drive_alternately(gens):
    """advance several generators in turn until all are exhausted (two objects living in one process, interleaved)"""
    live = list(gens)
    while live:
        for g in list(live):
            try:
                next(g)
            except StopIteration:
                live.remove(g)


def run_lifecycles(ctx: Ctx, n_icp: int, n_epnp: int):
    fixed = random.Random(31337)
    small = [(3,), (4,), (3, 3), (1,), (2, 2), (), (1, 3), (3, 1)]
    il = [icp_life_spec(fixed, stepper=s_, ctor_init=c_, dtype=d_, nsteps=8, sizes=small[k:] + small[:k]) for k, (s_, c_, d_) in enumerate(
        (("raising", True, "float64"), ("raising", False, "float32"), ("bason_verbose", True, "float32"), ("default", False, "float64")))]
    il += [icp_life_spec(ctx.rng) for _ in range(n_icp)]
    el = [epnp_life_spec(fixed, refine=r_, ctorK=k_, nsteps=7, sizes=small[k:] + small[:k]) for k, (r_, k_) in enumerate(
        ((True, True), (False, True), (True, False), (False, False)))]
    el += [epnp_life_spec(ctx.rng) for _ in range(n_epnp)]
    for h in il + el:
        ctx.note_case((h["kind"], h.get("stepper"), h.get("refine"), h.get("ctor_init", h.get("ctorK")), h.get("dtype"), h["seed"] % 11), True)
    # pairs of objects (different dtypes / kinds) are driven alternately: module-level state written by one, read by the other
    order = il + el
    ctx.rng.shuffle(order)
    for i in range(0, len(order), 2):
        pair = order[i:i + 2]
        drive_alternately([(icp_lifecycle if h["kind"] == "icp_life" else epnp_lifecycle)(ctx, h) for h in pair])



# ----------------------------------------------------------------------------- EPnP tail (`_compute_scale`): model correspondence

def epnp_scale_spec(r: random.Random, **kw) -> dict:
    spec = {"kind": "epnp_scale", "seed": r.randrange(1 << 30), "N": r.choice([4, 6, 6, 7, 12, 30, 100]), "exact": r.random() < 0.6,
            "lam": r.choice([1.0, -1.0, 0.01, -0.01, 37.0, -250.0, 1e-4, -1e4, 1.0 + 10.0 ** -r.choice([3, 6, 9, 12]),
                             -(1.0 - 10.0 ** -r.choice([3, 6, 9, 12]))]), "lead": r.choice([(), (), (4,), (4, 2), (1,), (3,)]),
            "extent": r.choice([1.0, 1.0, 0.1, 30.0]), "dtype": r.choice(["float64", "float64", "float32"])}
    spec.update(kw)
    return spec


def epnp_scale_data(spec, b):
    """one item: world control points, barycentric weights (rows sum to 1), points, camera pose, control points handed to
    `_compute_scale` (exact up to the factor `lam`, or arbitrary)"""
    r = random.Random(spec["seed"] + 7001 * b)
    N, ext = spec["N"], spec["extent"]
    Cw = [[r.gauss(0, 1) * ext for _ in range(3)] for _ in range(4)]
    alpha = []
    for _ in range(N):
        w = [r.uniform(-1.0, 1.5) for _ in range(3)]
        alpha.append(w + [1.0 - sum(w)])
    pts = [[sum(alpha[i][j] * Cw[j][k_] for j in range(4)) for k_ in range(3)] for i in range(N)]
    q = U.rand_quat(r, r.choice(["uniform", "pi", "small", "identity"]))
    R = U.q_to_mat(q)
    rad = max(math.sqrt(sum(v * v for v in p)) for p in pts + Cw) + 1e-300
    t = [r.uniform(-0.3, 0.3) * rad, r.uniform(-0.3, 0.3) * rad, rad * r.choice([1.5, 3.0, 8.0])]
    cam = lambda p: [U.mat_vec(R, p)[k_] + t[k_] for k_ in range(3)]     # noqa: E731
    lam = spec["lam"] * (1.0 if b % 2 == 0 else -1.0 if spec["lead"] else 1.0)
    if spec["exact"]:
        bases = [[lam * v for v in cam(c)] for c in Cw]
    else:
        bases = [[r.gauss(0, 1) * ext + (2.0 * ext if k_ == 2 else 0.0) * r.choice([1, 1, -1]) for k_ in range(3)] for _ in range(4)]
    return {"Cw": Cw, "alpha": alpha, "pts": pts, "q": q, "t": t, "bases": bases, "lam": lam, "cam": [cam(p) for p in pts]}


def check_epnp_scale_gen(ctx: Ctx, spec):
    P = pp()
    case = dict(spec)
    dt = getattr(torch, spec["dtype"])
    eps = common.EPS[spec["dtype"]]
    lead = tuple(spec["lead"])
    nbi = int(math.prod(lead)) if lead else 1
    items = [epnp_scale_data(spec, b) for b in range(nbi)]
    N = spec["N"]
    Bt, B64 = U.to_dtype([sum(it["bases"], []) for it in items], spec["dtype"])
    At, A64 = U.to_dtype([it["alpha"] for it in items], spec["dtype"])
    Pt, P64 = U.to_dtype([it["pts"] for it in items], spec["dtype"])
    try:
        with warnings.catch_warnings():
            warnings.simplefilter("ignore")
            out = P.module.EPnP._compute_scale(Bt.reshape(lead + (12,)), At.reshape(lead + (N, 4)), Pt.reshape(lead + (N, 3)))
    except Exception as e:  # noqa: BLE001
        ctx.fail(case, f"raises: EPnP._compute_scale raises {type(e).__name__}: {str(e)[:100]} (lead {lead}, N={N})")
        return False
    ok = True
    if not (isinstance(out, tuple) and len(out) == 3 and tuple(out[0].shape) == lead + (4, 3) and tuple(out[1].shape) == lead + (N, 3)
            and tuple(out[2].shape) == lead + (1,) and out[1].dtype == dt):
        ctx.fail(case, f"type: EPnP._compute_scale returned shapes {[tuple(getattr(o, 'shape', ())) for o in out]} for lead {lead}, N={N}")
        return False
    ob = out[0].detach().double().reshape(nbi, 12)
    op = out[1].detach().double().reshape(nbi, N, 3)
    os_ = out[2].detach().double().reshape(nbi)
    lines = [f"c17.epnp_scale {N} " + common.wire_list(B64[b].tolist() + A64[b].flatten().tolist() + P64[b].flatten().tolist()) for b in range(nbi)]
    reps = yield lines
    for b, rep in enumerate(reps):
        it = items[b]
        stt, payload = common.parse_reply(rep)
        if stt == "err":
            raise InfraError(f"C17 driver (epnp_scale) failed: {payload}")
        mv = [float(common.from_wire(t_)) for t_ in payload]
        mb, mp_, ms, minz = mv[0:12], mv[12:12 + 3 * N], mv[12 + 3 * N], mv[13 + 3 * N]
        cid = dict(case, item=b)
        D = max(max(abs(v) for v in mp_), 1e-300)
        # conditioning of scale = <dc,dw>/<dc,dc>: both cloud spreads are computed after centring
        cent = 1 + float(P64[b].abs().max()) / (float((P64[b] - P64[b].mean(0)).norm(dim=-1).mean()) + 1e-300)
        tol = 64 * eps * cent * N ** 0.5
        if minz <= 64 * eps * D * cent:
            ctx.count("epnp_scale.sign-at-threshold-skipped")
            continue
        ctx.count("epnp_scale.items")
        if not (bool(torch.isfinite(ob[b]).all()) and bool(torch.isfinite(op[b]).all()) and math.isfinite(float(os_[b]))):
            ctx.fail(cid, f"valid: EPnP._compute_scale returns non-finite numbers (scale {float(os_[b])!r}) for finite valid input "
                          f"(item {b} of lead {lead}, N={N}, {spec['dtype']}, factor {it.get('lam')!r})")
            ok = False
            continue
        es = abs(float(os_[b]) - ms) / max(abs(ms), 1e-300)
        ep = max(abs(a - c_) for a, c_ in zip(op[b].flatten().tolist(), mp_)) / D
        eb = max(abs(a - c_) for a, c_ in zip(ob[b].tolist(), mb)) / max(max(abs(v) for v in mb), 1e-300)
        track(f"epnp_scale.{spec['dtype']}", max(es, ep, eb), tol)
        if not (es <= tol and ep <= tol and eb <= tol):
            ctx.disagree("epnp.scale", cid, f"_compute_scale {spec['dtype']}: scale / points / bases differ from the model by {es:.3e} / {ep:.3e} / {eb:.3e} "
                                            f"(relative) > {tol:.3e}")
            ok = False
        if spec["exact"]:
            # the law itself (theorem epnp_compute_scale_exact): camera-frame points and 1/lam are recovered
            cam = torch.tensor(it["cam"], dtype=torch.float64)
            Dc = float(cam.abs().max())
            res = float((op[b] - cam).abs().max()) / Dc
            rs = abs(float(os_[b]) * it["lam"] - 1.0)
            ctx.count("epnp_scale.exact")
            if not (res <= 4 * tol and rs <= 4 * tol):
                ctx.fail(cid, f"epnp-scale: control points exact up to the factor {it['lam']}: _compute_scale misses the camera-frame points by {res:.3e} "
                              f"(relative) and returns scale·lam = {float(os_[b]) * it['lam']!r} (allowance {4 * tol:.2e}; N={N}, lead {lead})")
                ok = False
    return ok


def run_epnp_scale(ctx: Ctx, n: int):
    fixed = random.Random(2718)
    specs = [epnp_scale_spec(fixed, N=N_, exact=True, lam=l_, lead=ld, dtype=d_) for N_, l_, ld, d_ in
             ((6, 1.0, (), "float64"), (6, -1.0, (), "float64"), (4, -0.01, (4,), "float64"), (12, 37.0, (4, 2), "float32"),
              (100, -250.0, (3,), "float64"), (7, 1e-4, (1,), "float32"), (3, -1e4, (4, 3), "float64"))]
    specs += [epnp_scale_spec(fixed, exact=False, lead=(4,), N=8), epnp_scale_spec(fixed, exact=False, lead=(), N=30, dtype="float32")]
    specs += [epnp_scale_spec(ctx.rng) for _ in range(n)]
    gens = []
    for sp in specs:
        ctx.note_case(("epnp_scale", sp["N"], sp["exact"], sp["lam"], tuple(sp["lead"]), sp["dtype"]), True)
        ctx.count(f"epnp_scale.{'exact' if sp['exact'] else 'arbitrary'}")
        gens.append(check_epnp_scale_gen(ctx, sp))
    drive(ctx, gens)



# ----------------------------------------------------------------------------- (28) thresholds hidden inside library kernels
# point counts on both sides of the switch-overs of torch kernels (cdist 25/26, matmul blocking 32/33, 128/129, 1024/1025) x
# float32 x clouds far from the origin relative to their spacing, judged by a float64 brute-force closest-point oracle: the
# theorems `icp_result_mscd_le_init` / `icp_recovers_small_perturbation` say what must hold.

KERNEL_N = [24, 25, 26, 27, 32, 33, 64, 65, 128, 129, 200]


def icp_kernel_spec(r: random.Random, **kw) -> dict:
    spec = {"kind": "icp_kernel", "seed": r.randrange(1 << 30), "N": r.choice(KERNEL_N), "dtype": r.choice(["float32", "float32", "float64"]),
            "spacing": r.choice([0.5, 1.0, 0.01, 30.0]), "ratio": r.choice([0.0, 3e2, 2e3, 1e4, 1e5]), "init": r.choice(["none", "exact", "near"]),
            "stepper": r.choice(["default", "default", "fixed1", "fixed3"]), "extra": r.choice([0, 0, 3]), "batch": r.choice([0, 0, 2])}
    spec.update(kw)
    return spec


def icp_kernel_data(spec, b=0):
    """jittered lattice (so that the spacing is known), shifted far from the origin, exact small rigid motion about the cloud
    centre (every point moves by < 0.15 spacing: inside the half-separation basin)"""
    r = random.Random(spec["seed"] + 977 * b)
    N, sp = spec["N"], spec["spacing"]
    side = round(N ** (1 / 3)) + 1
    pts = [[(i + 0.2 * r.random()) * sp, (j + 0.2 * r.random()) * sp, (k_ + 0.2 * r.random()) * sp]
           for i in range(side) for j in range(side) for k_ in range(side)]
    r.shuffle(pts)
    pts = pts[:N]
    d = U.q_normalize([r.gauss(0, 1) for _ in range(3)] + [0.0])[:3]
    off = [spec["ratio"] * sp * v for v in d]
    src = [[p[j] + off[j] for j in range(3)] for p in pts]
    ctr = [sum(p[j] for p in src) / N for j in range(3)]
    rad = max(math.sqrt(sum((p[j] - ctr[j]) ** 2 for j in range(3))) for p in src)
    ang = 0.08 * sp / rad * r.choice([1.0, 0.3])           # rotation moves the farthest point by <= 0.08 spacing
    ax = U.q_normalize([r.gauss(0, 1) for _ in range(3)] + [0.0])[:3]
    q = [ax[0] * math.sin(ang / 2), ax[1] * math.sin(ang / 2), ax[2] * math.sin(ang / 2), math.cos(ang / 2)]
    R = U.q_to_mat(q)
    sh = [r.uniform(-0.04, 0.04) * sp for _ in range(3)]
    tgt = []
    for p in src:
        y = U.mat_vec(R, [p[j] - ctr[j] for j in range(3)])
        tgt.append([y[j] + ctr[j] + sh[j] for j in range(3)])
    tt = [ctr[j] + sh[j] - U.mat_vec(R, ctr)[j] for j in range(3)]
    for _ in range(spec["extra"]):
        tgt.append([ctr[j] + (side + 1 + r.random()) * sp * (1 if j == 0 else r.random()) for j in range(3)])
    perm = list(range(len(tgt)))
    r.shuffle(perm)
    tgt = [tgt[i] for i in perm]
    return src, tgt, {"q": q, "t": tt}


def check_icp_kernel(ctx: Ctx, spec) -> bool:
    P = pp()
    case = dict(spec)
    dt = getattr(torch, spec["dtype"])
    eps = common.EPS[spec["dtype"]]
    nb = spec["batch"]
    items = [icp_kernel_data(spec, b) for b in range(max(nb, 1))]
    St, S64 = U.to_dtype([it[0] for it in items], spec["dtype"])
    Tt, T64 = U.to_dtype([it[1] for it in items], spec["dtype"])
    truths = [torch.tensor(it[2]["t"] + it[2]["q"], dtype=torch.float64) for it in items]
    init = None
    if spec["init"] != "none":
        rows = []
        for tr in truths:
            v = tr.clone()
            if spec["init"] == "near":      # half of the true motion
                v[:3] = v[:3] + 0.02 * spec["spacing"]
            rows.append(v.tolist())
        init = P.SE3(torch.tensor(rows, dtype=torch.float64).to(dt))
    if not nb:
        St_, Tt_ = St[0], Tt[0]
        init_ = None if init is None else init[0]
    else:
        St_, Tt_, init_ = St, Tt, init
    stp = {"default": None, "fixed1": FixedStepper(1), "fixed3": FixedStepper(3)}[spec["stepper"]]
    try:
        with warnings.catch_warnings():
            warnings.simplefilter("ignore")
            mod = P.module.ICP(stepper=stp) if stp is not None else P.module.ICP()
            out = mod(St_, Tt_, init=init_) if init_ is not None else mod(St_, Tt_)
    except Exception as e:  # noqa: BLE001
        ctx.fail(case, f"raises: ICP raises {type(e).__name__}: {str(e)[:100]} (N={spec['N']}, {spec['dtype']}, |x|/spacing={spec['ratio']})")
        return False
    want_shape = ((nb,) if nb else ()) + (7,)
    if type(out).__name__ != "LieTensor" or tuple(out.shape) != want_shape or out.dtype != dt:
        ctx.fail(case, f"type: ICP returned {type(out).__name__} {tuple(getattr(out, 'shape', ()))} {getattr(out, 'dtype', None)}, expected SE3 {want_shape} {dt}")
        return False
    O = out.tensor().detach().double().reshape(-1, 7)
    ok = True
    for b in range(O.shape[0]):
        cid = dict(case, item=b)
        if not torch.isfinite(O[b]).all():
            ctx.fail(cid, "valid: ICP returned non-finite numbers")
            ok = False
            continue
        s64, t64 = S64[b], T64[b]
        iv = None if init is None else init.tensor().detach().double().reshape(-1, 7)[b]
        cur0 = s64 if iv is None else U.apply_vec(iv, s64)
        D = float(max(s64.abs().max(), t64.abs().max()))
        E0, En = U.mscd(cur0, t64), U.mscd(U.apply_vec(O[b], s64), t64)
        delta = ICP_DELTA_K * eps * D
        tolE = delta * delta + 2 * delta * math.sqrt(E0) + 64 * eps * E0
        track(f"icp_kernel.monotone.{spec['dtype']}", max(En - E0, 0.0), tolE)
        ctx.count(f"icp_kernel.{spec['dtype']}.{'le25' if spec['N'] <= 25 else 'gt25'}.ratio{spec['ratio']:g}")
        if not (En <= E0 + tolE):
            ctx.fail(cid, f"monotone: ICP result has mean squared closest-point distance {En:.6e} (float64 brute force) > {E0:.6e} of its initial "
                          f"transform (allowance {tolE:.2e}; N={spec['N']}, {spec['dtype']}, spacing {spec['spacing']}, |x|/spacing {spec['ratio']:g}, "
                          f"init {spec['init']}, stepper {spec['stepper']})")
            ok = False
        # half-separation basin in float64 on the values the implementation sees
        want = U.apply_vec(truths[b], s64)
        dw = ((want.unsqueeze(1) - t64.unsqueeze(0)) ** 2).sum(-1)
        img = dw.argmin(-1)
        d0 = ((cur0 - t64[img]) ** 2).sum(-1)                       # ‖X0 s − X* s‖²
        other = ((t64[img].unsqueeze(1) - t64.unsqueeze(0)) ** 2).sum(-1)
        other[torch.arange(len(img)), img] = float("inf")
        basin = bool((4 * d0 < other.min(-1).values * 0.8).all()) and float(dw.min(-1).values.max()) <= (8 * eps * D) ** 2
        if basin:
            ctx.count("icp_kernel.basin")
            res = float((U.apply_vec(O[b], s64) - t64[img]).abs().max())
            tolr = ICP_REC_K * eps * D
            track(f"icp_kernel.recover.{spec['dtype']}", res, tolr)
            if not (res <= tolr):
                ctx.fail(cid, f"recover: every point is closer to its image than half the distance to any other target, but ICP misses the exact rigid "
                              f"motion by {res:.3e} > {tolr:.3e} (N={spec['N']}, {spec['dtype']}, spacing {spec['spacing']}, |x|/spacing {spec['ratio']:g}, "
                              f"init {spec['init']}, stepper {spec['stepper']})")
                ok = False
    return ok


def run_icp_kernel(ctx: Ctx, n: int):
    fixed = random.Random(2526)
    specs = []
    for N_ in (25, 26, 33, 129):
        for dtn in ("float32", "float64"):
            for ratio in (0.0, 2e3, 1e4, 1e5):
                specs.append(icp_kernel_spec(fixed, N=N_, dtype=dtn, ratio=ratio, spacing=0.5, init=("none" if (N_ + int(ratio)) % 2 == 0 else "exact"),
                                             stepper="default", extra=0, batch=0))
    specs += [icp_kernel_spec(fixed, N=1025, dtype="float32", ratio=2e3, spacing=0.5, init="none", stepper="fixed1", extra=0, batch=0),
              icp_kernel_spec(fixed, N=60, dtype="float32", ratio=3e3, spacing=1.0, init="near", stepper="fixed3", extra=3, batch=2)]
    specs += [icp_kernel_spec(ctx.rng) for _ in range(n)]
    for sp in specs:
        ctx.note_case(("icp_kernel", sp["N"], sp["dtype"], sp["ratio"], sp["spacing"], sp["init"], sp["stepper"], sp["batch"]), True)
        check_icp_kernel(ctx, sp)



# ----------------------------------------------------------------------------- (19) large batches: split consistency + samples

def large_data(seed, shape, N, dtype, mixed=True):
    """`prod(shape)` alignment problems built with torch (python loops would dominate): generic / planar / mirrored items mixed"""
    g = torch.Generator().manual_seed(seed)
    B = int(math.prod(shape))
    s = torch.randn(B, N, 3, generator=g, dtype=torch.float64)
    if mixed:
        s[1::3, :, 2] = 0.0                                     # planar items
    q = torch.randn(B, 4, generator=g, dtype=torch.float64)
    q = q / q.norm(dim=-1, keepdim=True)
    R = U.quat_mat_t(q)
    t = torch.randn(B, 1, 3, generator=g, dtype=torch.float64) * 3
    base = s.clone()
    if mixed:
        base[2::5, :, 0] = -base[2::5, :, 0]                    # mirrored items: reflection branch
    tg = base @ R.mT + t + 0.05 * torch.randn(B, N, 3, generator=g, dtype=torch.float64)
    dt = getattr(torch, dtype)
    return s.to(dt).reshape(tuple(shape) + (N, 3)), tg.to(dt).reshape(tuple(shape) + (N, 3))


def check_large(ctx: Ctx, spec):
    P = pp()
    case = dict(spec)
    shape, N, dtype, what = tuple(spec["shape"]), spec["N"], spec["dtype"], spec["what"]
    eps = common.EPS[dtype]
    B = int(math.prod(shape))
    src, tgt = large_data(spec["seed"], shape, N, dtype, mixed=(what != "EPnP"))     # EPnP: non-degenerate (non-planar) sets only
    Kc = torch.tensor([[500.0, 0, 320.0], [0, 480.0, 240.0], [0, 0, 1.0]], dtype=getattr(torch, dtype))
    if what == "EPnP":
        g = torch.Generator().manual_seed(spec["seed"] + 1)
        pose = torch.cat([torch.randn(B, 3, generator=g, dtype=torch.float64) * 0.3 + torch.tensor([0.0, 0.0, 8.0]),
                          torch.nn.functional.normalize(torch.randn(B, 4, generator=g, dtype=torch.float64), dim=-1)], -1)
        Tp = P.SE3(pose.to(Kc.dtype).reshape(shape + (7,)))
        tgt = P.point2pixel(src, Kc, Tp)                         # "target" = pixels

    def f(a, b):
        with warnings.catch_warnings():
            warnings.simplefilter("ignore")
            if what == "svdtf":
                return P.svdtf(a, b)
            if what == "svdstf":
                return P.svdstf(a, b, with_scale=spec.get("with_scale", True))
            if what == "ICP":
                return P.module.ICP(stepper=FixedStepper(spec.get("passes", 2)))(a, b)
            return P.module.EPnP(Kc, refine=False)(a, b)

    try:
        X = f(src, tgt)
    except Exception as e:  # noqa: BLE001
        ctx.fail(case, f"raises: {what} raises {type(e).__name__}: {str(e)[:100]} on a batch of shape {shape} ({B} items)")
        return False
    dim = 8 if what == "svdstf" else 7
    if type(X).__name__ != "LieTensor" or tuple(X.shape) != shape + (dim,) or X.dtype != src.dtype:
        ctx.fail(case, f"type: {what} returned {type(X).__name__} {tuple(getattr(X, 'shape', ()))} for a batch of shape {shape}")
        return False
    ok = True
    Xr = raw(X)
    if not torch.isfinite(Xr).all():
        bad = (~torch.isfinite(Xr.reshape(B, dim)).all(-1)).nonzero().flatten()[:3].tolist()
        ctx.fail(case, f"valid: {what} returns non-finite numbers for items {bad} of a batch of shape {shape} ({B} items)")
        return False
    ctx.count(f"large.{what}.{B}")
    # split consistency along the first batch axis: f(x) = cat(f(x[:a]), f(x[a:])) bit for bit
    L = shape[0]
    for a in sorted(set(spec.get("cuts") or {1, L // 3, L - 1}) - {0, L}):
        try:
            Y = torch.cat([raw(f(src[:a], tgt[:a])), raw(f(src[a:], tgt[a:]))], 0)
        except Exception as e:  # noqa: BLE001
            ctx.fail(case, f"raises: {what} raises {type(e).__name__} on a part ([:{a}] / [{a}:]) of a batch it accepted as a whole")
            ok = False
            continue
        if not torch.equal(Y, Xr):
            # torch's batched matmul may take another blocking for another batch size: last-bit differences are legitimate, so every
            # differing item must be an equally good answer (same cost / objective / pose up to the usual allowance)
            Yf, Xf_ = Y.reshape(B, dim).double(), Xr.reshape(B, dim).double()
            idx = (Yf != Xf_).any(-1).nonzero().flatten().tolist()
            ctx.count("large.split-last-bit-items", len(idx))
            fs_, ft_ = src.reshape((B,) + tuple(src.shape[len(shape):])), tgt.reshape((B,) + tuple(tgt.shape[len(shape):]))
            for j in idx[:50]:
                s64, t64 = fs_[j].double(), ft_[j].double()
                if what in ("svdtf", "svdstf"):
                    st = U.stats(s64, t64)
                    if st["A"] == 0 or st["B"] == 0:
                        continue
                    c1, c2 = U.cost_vec(Yf[j], s64, t64), U.cost_vec(Xf_[j], s64, t64)
                    sc = float(Xf_[j][7]) if what == "svdstf" else 1.0
                    tol = cost_tol(eps, st, sc, 1 + st["Ds"] / st["ss"] + st["Dt"] / st["st"]) + 64 * common.EPS["float64"] * (st["A"] * sc * sc + st["B"])
                    same = abs(c1 - c2) <= tol
                elif what == "ICP":
                    D_ = float(max(s64.abs().max(), t64.abs().max()))
                    same = float((U.apply_vec(Yf[j], s64) - U.apply_vec(Xf_[j], s64)).abs().max()) <= ICP_REC_K * eps * D_
                else:
                    same = float((Yf[j] - Xf_[j]).abs().max()) <= 1e-6 * (1 + float(Xf_[j].abs().max()))
                if not same:
                    ctx.fail(dict(case, item=j), f"split: {what} on a batch of shape {shape} differs from the same call on the parts [:{a}] and [{a}:] "
                                                 f"at item {j} by {float((Yf[j] - Xf_[j]).abs().max()):.3e} — not an equally good answer")
                    ok = False
                    break
    flatX = Xr.reshape(B, dim)
    fs, ft = src.reshape((B,) + tuple(src.shape[len(shape):])), tgt.reshape((B,) + tuple(tgt.shape[len(shape):]))
    r = random.Random(spec["seed"])
    # first, middle, random items and the LAST n % 2^k items for several k (remainders dropped by floor division)
    tail = {B - 1 - j for j in (0, 1, 2, 36, B % 64, B % 1024, B % 16384) if 0 <= B - 1 - j}
    for i in sorted({0, B // 2, r.randrange(B), r.randrange(B)} | tail):
        Xi = raw(f(fs[i:i + 1], ft[i:i + 1]))[0]
        if not torch.equal(Xi, flatX[i]):
            dd = float((Xi.double() - flatX[i].double()).abs().max())
            ctx.count("large.single-last-bit-items")
            if dd > 1e3 * eps * (1 + float(flatX[i].double().abs().max())) and what != "ICP":
                # (an ill-conditioned item may legitimately differ more; the property oracle below judges both)
                ctx.count("large.single-differs")
        # the property on the sampled item (incl. the LAST one)
        if what in ("svdtf", "svdstf"):
            s64, t64 = fs[i].double(), ft[i].double()
            st = U.stats(s64, t64)
            if st["A"] > 0 and st["B"] > 0:
                ci = U.cost_vec(flatX[i].double(), s64, t64)
                sc = float(flatX[i][7]) if what == "svdstf" else 1.0
                cent = 1 + st["Ds"] / st["ss"] + st["Dt"] / st["st"]
                tol = cost_tol(eps, st, sc, cent) + 64 * common.EPS["float64"] * (st["A"] * sc * sc + st["B"])
                best = min([cost_srt(s_, R_, t_, s64, t64) for s_, R_, t_ in sign_candidates(s64, t64, what == "svdstf" and spec.get("with_scale", True))] or [ci])
                nq = float(flatX[i][3:7].double().norm())
                if not (abs(nq - 1) <= UNIT_TOL * eps) or not (ci <= best + tol):
                    ctx.fail(dict(case, item=i), f"optimality: item {i} of {B} of a batched {what} call: |q| = {nq!r}, sum of squared residuals {ci:.6e}, "
                                                 f"best proper sign choice of an independent float64 SVD {best:.6e} (allowance {tol:.2e})")
                    ok = False
        elif what == "ICP":
            s64, t64 = fs[i].double(), ft[i].double()
            D = float(max(s64.abs().max(), t64.abs().max()))
            delta = ICP_DELTA_K * eps * D
            E0, En = U.mscd(s64, t64), U.mscd(U.apply_vec(flatX[i].double(), s64), t64)
            if not (En <= E0 + delta * delta + 2 * delta * math.sqrt(E0) + 64 * eps * E0):
                ctx.fail(dict(case, item=i), f"monotone: item {i} of {B} of a batched ICP call: mean squared closest-point distance {En:.6e} > {E0:.6e}")
                ok = False
        else:
            e_ = P.SE3(flatX[i].reshape(1, 7).clone())
            err = float(P.reprojerr(fs[i:i + 1], ft[i:i + 1], Kc, e_, reduction="norm").max())
            if not (err <= (1e-3 if dtype == "float64" else 50.0)):
                ctx.fail(dict(case, item=i), f"reproject: item {i} of {B} of a batched EPnP call has reprojection error {err:.3e} px on exact projections")
                ok = False
    return ok


def run_large(ctx: Ctx):
    specs = [{"kind": "large", "what": "svdtf", "shape": [65537], "N": 3, "dtype": "float32", "seed": 11},
             {"kind": "large", "what": "svdtf", "shape": [16385], "N": 4, "dtype": "float64", "seed": 12},
             {"kind": "large", "what": "svdstf", "shape": [32769], "N": 4, "dtype": "float64", "seed": 14},
             {"kind": "large", "what": "svdstf", "shape": [16385], "N": 5, "dtype": "float32", "seed": 16, "with_scale": False},
             {"kind": "large", "what": "svdtf", "shape": [131073], "N": 3, "dtype": "float32", "seed": 21, "cuts": [131072 - 37]},
             {"kind": "large", "what": "ICP", "shape": [4097], "N": 5, "dtype": "float32", "seed": 17, "passes": 2},
             {"kind": "large", "what": "ICP", "shape": [1025], "N": 6, "dtype": "float64", "seed": 18, "passes": 3},
             {"kind": "large", "what": "EPnP", "shape": [1025], "N": 6, "dtype": "float64", "seed": 19},
             {"kind": "large", "what": "EPnP", "shape": [257], "N": 12, "dtype": "float64", "seed": 20}]
    if not ctx.quick:
        specs += [{"kind": "large", "what": "svdstf", "shape": [65537], "N": 4, "dtype": "float64", "seed": 27},
                  {"kind": "large", "what": "svdtf", "shape": [257, 255], "N": 3, "dtype": "float64", "seed": 13},
                  {"kind": "large", "what": "svdstf", "shape": [16383, 2], "N": 3, "dtype": "float32", "seed": 15},
                  {"kind": "large", "what": "svdtf", "shape": [2 ** 18 + 1], "N": 3, "dtype": "float64", "seed": 22, "cuts": [2 ** 18]},
                  {"kind": "large", "what": "svdstf", "shape": [2 ** 18 + 37], "N": 3, "dtype": "float32", "seed": 23, "cuts": [2 ** 17 + 5]},
                  {"kind": "large", "what": "svdtf", "shape": [2 ** 20 + 1], "N": 3, "dtype": "float32", "seed": 24, "cuts": [2 ** 20]},
                  {"kind": "large", "what": "svdstf", "shape": [2 ** 20 + 1], "N": 3, "dtype": "float64", "seed": 25, "cuts": [2 ** 19 + 3]},
                  {"kind": "large", "what": "ICP", "shape": [2 ** 16 + 1], "N": 4, "dtype": "float32", "seed": 26, "passes": 1, "cuts": [2 ** 16]}]
        r = random.Random(ctx.seed + 5)
        for _ in range(20):
            k_ = r.choice([8, 10, 12, 14, 16])
            Bn = 2 ** k_ + r.choice([-1, 0, 1])
            what = r.choice(["svdtf", "svdstf", "svdtf", "svdstf", "ICP"])
            if what == "ICP":
                Bn = min(Bn, 4097)
            specs.append({"kind": "large", "what": what, "shape": [Bn], "N": r.choice([3, 4, 5, 8]), "dtype": r.choice(["float32", "float64"]),
                          "seed": r.randrange(1 << 20)})
    for sp in specs:
        ctx.note_case(("large", sp["what"], tuple(sp["shape"]), sp["N"], sp["dtype"]), True)
        check_large(ctx, sp)



# ----------------------------------------------------------------------------- round 4: ties (20), subclasses (21), mode order (23),
# default dtype (25), sign conventions (26)

@contextlib.contextmanager
def default_dtype(dt):
    old = torch.get_default_dtype()
    torch.set_default_dtype(dt)
    try:
        yield
    finally:
        torch.set_default_dtype(old)


def _rand_problem(r, N, dt, far=0.0):
    src = torch.tensor([[r.gauss(0, 1) + far for _ in range(3)] for _ in range(N)], dtype=torch.float64)
    q = torch.tensor(U.rand_quat(r, "uniform"), dtype=torch.float64)
    tgt = src @ U.quat_mat_t(q).T + torch.tensor([r.gauss(0, 1) for _ in range(3)], dtype=torch.float64) + \
        0.05 * torch.tensor([[r.gauss(0, 1) for _ in range(3)] for _ in range(N)], dtype=torch.float64)
    return src.to(dt), tgt.to(dt)


def _epnp_problem(r, N, dt, fx=500.0, fy=480.0):
    P = pp()
    sp = epnp_spec(r, N=N, batch=0, depth=3.0, aniso=1.0)
    pts, q, t, _ = epnp_scene(sp)
    K = torch.tensor([[fx, 0.0, 320.0], [0.0, fy, 240.0], [0.0, 0.0, 1.0]], dtype=torch.float64)
    pts = torch.tensor(pts, dtype=torch.float64)
    T = P.SE3(torch.tensor(t + q, dtype=torch.float64))
    pix = P.point2pixel(pts, K, T)
    return pts.to(dt), pix.to(dt), K.to(dt), T, sp


def check_round4(ctx: Ctx, seed: int) -> bool:
    P = pp()
    r = random.Random(seed)
    ok = True
    quiet = lambda: warnings.catch_warnings()      # noqa: E731

    # ---- (20) exactly equidistant targets: every source point has two nearest targets at exactly the same distance
    for dtn in ("float64", "float32"):
        dt = getattr(torch, dtn)
        eps = common.EPS[dtn]
        for N in (3, 8, 26):
            case = {"kind": "round4", "seed": seed, "what": "icp-ties", "N": N, "dtype": dtn}
            src = torch.tensor([[float(r.randint(-8, 8)) * 0.5 for _ in range(3)] for _ in range(N)], dtype=dt)
            e = torch.tensor([0.25, 0.0, 0.0], dtype=dt)
            tgt = torch.cat([src + e, src - e], 0)[torch.randperm(2 * N, generator=torch.Generator().manual_seed(seed + N))]
            cube = torch.tensor([[a, b, c] for a in (-1.0, 1.0) for b in (-1.0, 1.0) for c in (-1.0, 1.0)], dtype=dt)
            h = math.sqrt(0.5)
            rot45 = torch.tensor([[h, -h, 0.0], [h, h, 0.0], [0.0, 0.0, 1.0]], dtype=dt)
            for name, a, b in (("midpoints", src, tgt), ("cube-45deg", cube, cube @ rot45.T), ("identical", src, src.clone())):
                for stp in (None, FixedStepper(2)):
                    try:
                        with quiet():
                            warnings.simplefilter("ignore")
                            out = (P.module.ICP(stepper=stp) if stp is not None else P.module.ICP())(a, b)
                    except Exception as ex:  # noqa: BLE001
                        ctx.fail(dict(case, config=name), f"raises: ICP raises {type(ex).__name__}: {str(ex)[:100]} on exactly equidistant targets ({name}, N={N}, {dtn})")
                        ok = False
                        continue
                    ctx.count("round4.icp-ties")
                    O = raw(out).double()
                    D = float(max(a.abs().max(), b.abs().max()))
                    delta = ICP_DELTA_K * eps * D
                    E0 = U.mscd(a.double(), b.double())
                    En = U.mscd(U.apply_vec(O, a.double()), b.double()) if torch.isfinite(O).all() else float("inf")
                    if not (abs(float(O[3:7].norm()) - 1) <= UNIT_TOL * eps and En <= E0 + delta * delta + 2 * delta * math.sqrt(E0) + 64 * eps * E0):
                        ctx.fail(dict(case, config=name), f"monotone: ICP on exactly equidistant targets ({name}, N={N}, {dtn}): |q| = {float(O[3:7].norm())!r}, mean "
                                                          f"squared closest-point distance {En:.6e} > {E0:.6e} of the initial transform")
                        ok = False

    # ---- (21) user subclasses of the shipped classes behave by their own methods
    class KPasses(P.utils.ReduceToBason):
        """a user stepper derived from the shipped one: stops after exactly k passes, whatever the loss does (lesson 48: every name the
        harness adds to a subclass of a library class carries the prefix vfh17_; only the documented interface is overridden)"""

        def __init__(self, k_):
            super().__init__(steps=1000)
            self.vfh17_k, self.vfh17_mine = k_, 0

        def continual(self):
            return self.vfh17_mine < self.vfh17_k

        def step(self, loss):
            self.vfh17_mine += 1
            if self.vfh17_mine > self.vfh17_k + 100:      # the loop does not consult this object's own continual(): never hang the check
                raise RuntimeError("runaway ICP loop: the user stepper's continual() is not consulted")

        def reset(self):
            super().reset()
            self.vfh17_mine = 0

    class ShiftedICP(P.module.ICP):
        """a user module derived from ICP: always starts from its own stored guess"""

        def __init__(self, guess):
            super().__init__()
            self.vfh17_guess = guess

        def forward(self, source, target):     # noqa: D102
            return super().forward(source, target, init=self.vfh17_guess)

    class OwnCameraEPnP(P.module.EPnP):
        """a user module derived from EPnP that always uses its own camera (documented `forward(points, pixels, intrinsics)` only; the
        earlier version overrode the private `_refine`, a name a refactor may change: lesson 48)"""

        def __init__(self, cam):
            super().__init__(refine=False)
            self.vfh17_cam = cam

        def forward(self, points, pixels):     # noqa: D102
            return super().forward(points, pixels, intrinsics=self.vfh17_cam)

    for dtn in ("float64", "float32"):
        dt = getattr(torch, dtn)
        a, b = _rand_problem(r, 11, dt)
        case = {"kind": "round4", "seed": seed, "what": "subclass", "dtype": dtn}
        try:
            with quiet():
                warnings.simplefilter("ignore")
                for k_ in (1, 3):
                    st = KPasses(k_)
                    o1 = P.module.ICP(stepper=st)(a, b)
                    o2 = P.module.ICP(stepper=FixedStepper(k_))(a, b)
                    ctx.count("round4.subclass")
                    if st.vfh17_mine != k_ or not lie_equal(o1, o2):
                        ctx.fail(case, f"subclass: ICP with a user stepper derived from ReduceToBason (stop after {k_} passes) made {st.vfh17_mine} passes / differs from "
                                       f"exactly {k_} passes by {float((raw(o1).double() - raw(o2).double()).abs().max()):.3e}")
                        ok = False
                g = P.SE3(torch.tensor([0.1, -0.2, 0.05] + U.rand_quat(r, "small"), dtype=torch.float64).to(dt))
                o3 = ShiftedICP(g)(a, b)
                o4 = P.module.ICP()(a, b, init=g)
                if not lie_equal(o3, o4):
                    ctx.fail(case, "subclass: a user module derived from ICP (forward → super().forward(init=own guess)) differs from ICP with that init")
                    ok = False
            pts, pix, K, T, sp = _epnp_problem(r, 12, torch.float64)
            with quiet():
                warnings.simplefilter("ignore")
                e1 = OwnCameraEPnP(K)(pts, pix)
                e2 = P.module.EPnP(K, refine=False)(pts, pix)
            d = float((raw(e1) - raw(e2)).abs().max())
            ctx.count("round4.subclass")
            if not (d <= 1e-8):
                ctx.fail(case, f"subclass: a user EPnP whose forward passes its own camera to super().forward differs from EPnP(K, refine=False) by {d:.3e}")
                ok = False
            ok = epnp_compare(ctx, dict(sp, kind="round4", what="subclass-epnp", refine=False), e1, T, pts, pix, K) and ok
        except Exception as ex:  # noqa: BLE001
            ctx.fail(case, f"raises: a user subclass of ICP / EPnP / ReduceToBason raises {type(ex).__name__}: {str(ex)[:120]}")
            ok = False

    # ---- (23) order of grad modes on a key (N, shape, dtype) that is fresh in the process for the first mode
    fresh_N = [17, 19, 23, 29, 31, 37]
    r.shuffle(fresh_N)
    for what in ("svdtf", "svdstf", "ICP", "EPnP"):
        for order in (("inference", "requires_grad", "plain"), ("requires_grad", "no_grad", "inference", "plain")):
            N = fresh_N.pop() + (seed % 5) * 40 if fresh_N else 41 + seed % 50
            dtn = r.choice(["float64", "float32"]) if what != "EPnP" else "float64"
            dt = getattr(torch, dtn)
            case = {"kind": "round4", "seed": seed, "what": "mode-order", "fn": what, "N": N, "order": list(order), "dtype": dtn}
            if what == "EPnP":
                pts, pix, K, T, sp = _epnp_problem(r, N, dt)
                f = lambda a_, b_: P.module.EPnP(K, refine=False)(a_, b_)       # noqa: E731
                a, b = pts, pix
            else:
                a, b = _rand_problem(r, N, dt)
                f = {"svdtf": P.svdtf, "svdstf": P.svdstf, "ICP": lambda a_, b_: P.module.ICP(stepper=FixedStepper(2))(a_, b_)}[what]
            outs = []
            try:
                for mode in order:
                    aa, bb = as_mode(a, mode), as_mode(b, mode)
                    with quiet(), grad_mode(mode):
                        warnings.simplefilter("ignore")
                        y = f(aa, bb)
                    if mode == "requires_grad" and what in ("svdtf", "svdstf"):
                        y.tensor().sum().backward()
                        if aa.grad is None or not torch.isfinite(aa.grad).all():
                            ctx.fail(case, f"backward: gradient of {what} missing / not finite after the call order {order[:order.index(mode) + 1]}")
                            ok = False
                    outs.append(raw(y).clone())
            except Exception as ex:  # noqa: BLE001
                ctx.fail(case, f"raises: {what} raises {type(ex).__name__}: {str(ex)[:100]} in grad mode {mode} after the modes {order[:order.index(mode)]} "
                               f"on the same (N={N}, {dtn}) key")
                ok = False
                continue
            ctx.count("round4.mode-order")
            ref = outs[-1]
            for mode, y in zip(order, outs):
                close = torch.equal(y, ref) if what != "EPnP" else bool((y - ref).abs().max() <= 1e-9)
                if not close:
                    ctx.fail(case, f"grad-mode: {what} in mode {mode} (call order {order}, N={N}, {dtn}) differs from the plain call by "
                                   f"{float((y.double() - ref.double()).abs().max()):.3e}")
                    ok = False

    # ---- (25) process-wide default dtype: metadata and values must not depend on it
    for what in ("svdtf", "svdstf", "svdstf-noscale", "ICP", "EPnP"):
        for dtn, other in (("float32", torch.float64), ("float64", torch.float32)):
            dt = getattr(torch, dtn)
            case = {"kind": "round4", "seed": seed, "what": "default-dtype", "fn": what, "dtype": dtn, "default": str(other)}
            nbx = r.choice([(), (3,)])
            if what == "EPnP":
                pts, pix, K, T, sp = _epnp_problem(r, 9, dt)
                f = lambda: P.module.EPnP(K, refine=False)(pts, pix)       # noqa: E731
            else:
                ab = [_rand_problem(r, 7, dt) for _ in range(max(1, int(math.prod(nbx))))]
                a = torch.stack([x[0] for x in ab]).reshape(nbx + (7, 3))
                b = torch.stack([x[1] for x in ab]).reshape(nbx + (7, 3))
                f = {"svdtf": lambda: P.svdtf(a, b), "svdstf": lambda: P.svdstf(a, b), "svdstf-noscale": lambda: P.svdstf(a, b, with_scale=False),
                     "ICP": lambda: P.module.ICP(stepper=FixedStepper(2))(a, b)}[what]
            try:
                with quiet():
                    warnings.simplefilter("ignore")
                    with default_dtype(dt):
                        y0 = f()
                    with default_dtype(other):
                        y1 = f()
            except Exception as ex:  # noqa: BLE001
                ctx.fail(case, f"raises: {what} on {dtn} operands raises {type(ex).__name__}: {str(ex)[:100]} when the process default dtype is {other}")
                ok = False
                continue
            ctx.count("round4.default-dtype")
            if type(y1).__name__ != "LieTensor" or y1.dtype != dt or y1.shape != y0.shape or y1.ltype != y0.ltype:
                ctx.fail(case, f"metadata: {what} on {dtn} operands returns {type(y1).__name__} dtype {getattr(y1, 'dtype', None)} shape "
                               f"{tuple(getattr(y1, 'shape', ()))} under default dtype {other}; documented: the operands' dtype {dt}, shape {tuple(y0.shape)}")
                ok = False
            elif not (torch.equal(raw(y0), raw(y1)) if what != "EPnP" else bool((raw(y0) - raw(y1)).abs().max() <= (1e-9 if dtn == "float64" else 1e-2))):
                ctx.fail(case, f"metadata: values of {what} on {dtn} operands depend on the process default dtype (max diff "
                               f"{float((raw(y0).double() - raw(y1).double()).abs().max()):.3e})")
                ok = False

    # ---- (26) sign conventions: focal lengths of either sign (mirrored image axes), principal point of either sign
    for fx, fy in ((-500.0, 480.0), (500.0, -480.0), (-500.0, -480.0)):
        for refine in (False, True):
            pts, pix, K, T, sp = _epnp_problem(r, r.choice([8, 12, 20]), torch.float64, fx=fx, fy=fy)
            K[0, 2], K[1, 2] = r.choice([-320.0, 320.0]), r.choice([-240.0, 0.0])
            pix = P.point2pixel(pts, K, T)
            case = dict(sp, kind="round4", what="negative-focal", fx=fx, fy=fy, refine=refine, f=abs(fx))
            try:
                with quiet():
                    warnings.simplefilter("ignore")
                    est = P.module.EPnP(K, refine=refine)(pts, pix)
            except Exception as ex:  # noqa: BLE001
                ctx.fail(case, f"raises: EPnP raises {type(ex).__name__}: {str(ex)[:100]} with focal lengths ({fx}, {fy})")
                ok = False
                continue
            ctx.count("round4.negative-focal")
            ok = epnp_compare(ctx, case, est, T, pts, pix, K) and ok
    return ok


def run_round4(ctx: Ctx, n: int):
    for sd in [404] + [ctx.rng.randrange(1 << 20) for _ in range(n)]:
        ctx.note_case(("round4", sd % 13), True)
        check_round4(ctx, sd)



# ----------------------------------------------------------------------------- round 5: defaults shared between objects (29), dtypes (30),
# interleaving every other operation between two identical calls (32), property-overriding subclasses (33), admissible tie-breaks (35),
# every subset of operands requiring grad (37)

def _kabsch64(src, tgt):
    """independent float64 reference: best proper rotation + translation (torch SVD, all sign choices tried)"""
    best = None
    for s_, R_, t_ in sign_candidates(src, tgt, False):
        c_ = cost_srt(s_, R_, t_, src, tgt)
        if best is None or c_ < best[0]:
            best = (c_, R_, t_)
    return best


def check_round5(ctx: Ctx, seed: int) -> bool:
    P = pp()
    r = random.Random(seed)
    ok = True

    def quiet():
        w = warnings.catch_warnings()
        return w

    # ---- (29) objects built with the optional arguments OMITTED, several of them, interleaved; documented defaults:
    # ICP: init None, stepper = ReduceToBason(steps=200) of its own; EPnP: refine=True, no default intrinsics
    case = {"kind": "round5", "seed": seed, "what": "defaults"}
    try:
        with quiet():
            warnings.simplefilter("ignore")
            a1, b1 = _rand_problem(r, 9, torch.float64)
            a2, b2 = _rand_problem(r, 14, torch.float32)
            A, B_, C = P.module.ICP(), P.module.ICP(), P.module.ICP()
            ref1 = P.module.ICP(init=None, stepper=P.utils.ReduceToBason(steps=200))(a1, b1)
            ref2 = P.module.ICP(init=None, stepper=P.utils.ReduceToBason(steps=200))(a2, b2)
            if A.stepper is B_.stepper or B_.stepper is C.stepper:
                ctx.fail(case, "defaults: two ICP modules built without a stepper share one stepper object")
                ok = False
            o = [A(a1, b1), B_(a2, b2)]
            # the owner of A tunes A's stepper; B and C were built with defaults and must keep the documented behaviour
            A.stepper.max_steps = 1
            A.stepper.tol = 1e9
            g = P.SE3(torch.tensor([0.3, -0.1, 0.2] + U.rand_quat(r, "mid"), dtype=torch.float64))
            A.init = g
            o += [B_(a1, b1), C(a2, b2), C(a1, b1), B_(a2, b2)]
            for got, want, who in ((o[0], ref1, "A"), (o[1], ref2, "B"), (o[2], ref1, "B after A was tuned"), (o[3], ref2, "C after A was tuned"),
                                   (o[4], ref1, "C"), (o[5], ref2, "B")):
                ctx.count("round5.defaults")
                if not lie_equal(got, want):
                    ctx.fail(case, f"defaults: ICP module {who}, built with init / stepper omitted, differs from the documented default "
                                   f"(init=None, own ReduceToBason(steps=200)) by {float((raw(got).double() - raw(want).double()).abs().max()):.3e}")
                    ok = False
            if B_.init is not None or C.init is not None:
                ctx.fail(case, "defaults: setting `init` on one default-built ICP module changed another one's")
                ok = False
            pts, pix, K, T, sp = _epnp_problem(r, 10, torch.float64)
            K2 = K.clone()
            K2[0, 0], K2[1, 1] = 700.0, 650.0
            pix2 = P.point2pixel(pts, K2, T)
            E1, E2 = P.module.EPnP(K), P.module.EPnP(K2)
            E3 = P.module.EPnP()
            r1, r2 = E1(pts, pix), E2(pts, pix2)
            r3, r4 = E3(pts, pix, K), E1(pts, pix)
            want = P.module.EPnP(K, refine=True)(pts, pix)
            want2 = P.module.EPnP(K2, refine=True)(pts, pix2)
            for got, w_, who in ((r1, want, "first"), (r2, want2, "second (other intrinsics)"), (r3, want, "third (no default intrinsics)"), (r4, want, "first again")):
                ctx.count("round5.defaults")
                if not lie_equal(got, w_):
                    ctx.fail(case, f"defaults: EPnP module {who}, built with refine omitted, differs from EPnP(refine=True) with its own intrinsics by "
                                   f"{float((raw(got) - raw(w_)).abs().max()):.3e}")
                    ok = False
            if hasattr(E3, "intrinsics") or not torch.equal(E1.intrinsics, K) or not torch.equal(E2.intrinsics, K2):
                ctx.fail(case, "defaults: default intrinsics leak between EPnP modules built with different / no intrinsics")
                ok = False
    except Exception as ex:  # noqa: BLE001
        ctx.fail(case, f"raises: default-constructed ICP / EPnP modules raise {type(ex).__name__}: {str(ex)[:120]}")
        ok = False

    # ---- (30) every dtype torch accepts: the documented operands are floating point; anything else must raise or return a
    # result of a floating dtype that is a valid answer — never silently a wrong-dtype or garbage result
    a64, b64 = _rand_problem(r, 6, torch.float64)
    for dt in (torch.float16, torch.bfloat16, torch.int32, torch.int64, torch.uint8, torch.bool, torch.complex64):
        for name, f in (("svdtf", P.svdtf), ("svdstf", P.svdstf), ("ICP", lambda x, y: P.module.ICP(stepper=FixedStepper(1))(x, y))):
            case = {"kind": "round5", "seed": seed, "what": "dtype", "fn": name, "dtype": str(dt)}
            try:
                with quiet():
                    warnings.simplefilter("ignore")
                    X = f((a64 * 4).to(dt), (b64 * 4).to(dt))
            except Exception:  # noqa: BLE001 — the clean tree rejects every non-float32/64 dtype
                ctx.count("round5.dtype.rejected")
                continue
            ctx.count("round5.dtype.accepted")
            t_ = raw(X)
            if type(X).__name__ != "LieTensor" or not t_.is_floating_point() or not torch.isfinite(t_.double()).all() or \
                    not (abs(float(t_[..., 3:7].double().norm()) - 1) <= 1e-2):
                ctx.fail(case, f"dtype: {name} accepts {dt} operands and returns {type(X).__name__} of dtype {getattr(X, 'dtype', None)} that is not a "
                               f"valid floating-point transform")
                ok = False

    # ---- (32) every other public operation (forward and backward, single item and batch of 1, N = 3, both dtypes) between two
    # identical calls of the operation under test: bit-equal results
    def others():
        with quiet():
            warnings.simplefilter("ignore")
            for dt in (torch.float32, torch.float64):
                x, y = _rand_problem(r, 3, dt)
                xb, yb = x.unsqueeze(0), y.unsqueeze(0)
                P.svdtf(x, y)
                P.svdstf(xb, yb)
                P.svdstf(x, y, with_scale=False)
                xg = x.clone().requires_grad_(True)
                P.svdtf(xg.unsqueeze(0), yb).tensor().sum().backward()
                xg2 = x.clone().requires_grad_(True)
                P.svdstf(xg2, y).tensor().sum().backward()
                P.module.ICP(stepper=FixedStepper(1))(xb, yb)
                P.module.ICP()(x, y)
            pts_, pix_, K_, T_, _ = _epnp_problem(r, 6, torch.float64)
            P.module.EPnP(K_, refine=True)(pts_.unsqueeze(0), pix_.unsqueeze(0))
            P.module.EPnP(K_, refine=False)(pts_, pix_)

    ops = []
    for dt in (torch.float64, torch.float32):
        for shape in ((), (1,), (2,)):
            n_ = r.choice([3, 3, 4, 7])
            xs = [_rand_problem(r, n_, dt) for _ in range(max(1, int(math.prod(shape))))]
            x = torch.stack([q[0] for q in xs]).reshape(shape + (n_, 3))
            y = torch.stack([q[1] for q in xs]).reshape(shape + (n_, 3))
            ops += [("svdtf", lambda x=x, y=y: P.svdtf(x, y)), ("svdstf", lambda x=x, y=y: P.svdstf(x, y)),
                    ("svdstf-noscale", lambda x=x, y=y: P.svdstf(x, y, with_scale=False)),
                    ("ICP", lambda x=x, y=y: P.module.ICP(stepper=FixedStepper(2))(x, y))]
    pts, pix, K, T, sp = _epnp_problem(r, 6, torch.float64)
    ops += [("EPnP", lambda: P.module.EPnP(K, refine=False)(pts, pix)), ("EPnP-batch1", lambda: P.module.EPnP(K, refine=True)(pts.unsqueeze(0), pix.unsqueeze(0)))]
    for name, f in ops:
        case = {"kind": "round5", "seed": seed, "what": "interleave", "fn": name}
        try:
            with quiet():
                warnings.simplefilter("ignore")
                y1 = raw(f()).clone()
                others()
                y2 = raw(f())
        except Exception as ex:  # noqa: BLE001
            ctx.fail(case, f"raises: {name} raises {type(ex).__name__}: {str(ex)[:100]} when every other operation is run between two identical calls")
            ok = False
            continue
        ctx.count("round5.interleave")
        if not torch.equal(y1, y2):
            ctx.fail(case, f"interleave: two identical {name} calls differ by {float((y1.double() - y2.double()).abs().max()):.3e} after the other public "
                           f"operations (single item, batch of 1, N = 3, both dtypes, forward and backward) ran in between")
            ok = False

    # ---- (33) subclasses overriding *properties*: the constructor received None, the public attribute is computed
    case = {"kind": "round5", "seed": seed, "what": "property-subclass"}
    try:
        g = P.SE3(torch.tensor([0.2, 0.1, -0.3] + U.rand_quat(r, "mid"), dtype=torch.float64))

        class GuessICP(P.module.ICP):
            @property
            def init(self):
                return g

            @init.setter
            def init(self, v):      # the constructor stores None: ignored, the public attribute is computed
                pass

        Kp = torch.tensor([[450.0, 0.0, 300.0], [0.0, 470.0, 250.0], [0.0, 0.0, 1.0]], dtype=torch.float64)

        class CamEPnP(P.module.EPnP):
            @property
            def intrinsics(self):
                return Kp

        class LazyRefine(P.module.EPnP):
            @property
            def refine(self):
                return False

            @refine.setter
            def refine(self, v):
                pass

        with quiet():
            warnings.simplefilter("ignore")
            a, b = _rand_problem(r, 8, torch.float64)
            got, want = GuessICP()(a, b), P.module.ICP(init=g)(a, b)
            ctx.count("round5.property-subclass")
            if not lie_equal(got, want):
                ctx.fail(case, "property: an ICP subclass whose `init` is a computed property (constructor got None) does not start from that init")
                ok = False
            pts, pix, _, T, sp = _epnp_problem(r, 9, torch.float64)
            pix = P.point2pixel(pts, Kp, T)
            got, want = CamEPnP()(pts, pix), P.module.EPnP(Kp)(pts, pix)
            got2, want2 = LazyRefine(Kp, refine=True)(pts, pix), P.module.EPnP(Kp, refine=False)(pts, pix)
            ctx.count("round5.property-subclass", 2)
            if not lie_equal(got, want) or not lie_equal(got2, want2):
                ctx.fail(case, "property: an EPnP subclass whose `intrinsics` / `refine` is a computed property is not honoured")
                ok = False
    except Exception as ex:  # noqa: BLE001
        ctx.fail(case, f"raises: a subclass overriding a public attribute by a property raises {type(ex).__name__}: {str(ex)[:120]}")
        ok = False

    # ---- (35) ties at the selection boundary: every source point exactly midway between two targets; the claim "one pass = optimal
    # alignment to the nearest targets" must hold for SOME admissible tie-break: enumerate them
    for dtn in ("float64", "float32"):
        dt = getattr(torch, dtn)
        eps = common.EPS[dtn]
        N = 3
        src = torch.tensor([[float(r.randint(-6, 6)) * 0.5 for _ in range(3)] for _ in range(N)], dtype=torch.float64)
        if float((src[1] - src[0]).cross(src[2] - src[0], dim=-1).norm()) < 0.2:
            src = torch.tensor([[0.0, 0.0, 0.0], [1.5, 0.0, 0.5], [0.0, 2.0, -1.0]], dtype=torch.float64)
        e = torch.tensor([[0.25, 0.0, 0.0], [0.0, 0.25, 0.0], [0.0, 0.0, 0.5]], dtype=torch.float64)[[r.randrange(3) for _ in range(N)]]
        tgt = torch.cat([src + e, src - e], 0)
        case = {"kind": "round5", "seed": seed, "what": "tie-breaks", "dtype": dtn}
        try:
            with quiet():
                warnings.simplefilter("ignore")
                out = P.module.ICP(stepper=FixedStepper(1))(src.to(dt), tgt.to(dt))
        except Exception as ex:  # noqa: BLE001
            ctx.fail(case, f"raises: ICP raises {type(ex).__name__} on exactly tied nearest neighbours")
            ok = False
            continue
        moved = U.apply_vec(raw(out).double(), src)
        D = float(tgt.abs().max())
        best = float("inf")
        # admissible tie-breaks: for every source point ALL targets at exactly the minimal distance (the coordinates are multiples of
        # 0.25, squared distances are exact; a point may also coincide with another point's target)
        d2 = ((src.unsqueeze(1) - tgt.unsqueeze(0)) ** 2).sum(-1)
        choices = [(d2[i] == d2[i].min()).nonzero().flatten().tolist() for i in range(N)]
        import itertools
        nch = 0
        for pick in itertools.product(*choices):
            nch += 1
            sel = tgt[list(pick)]
            ref = _kabsch64(src, sel)
            if ref is None:
                continue
            # the claim "one pass = an optimal alignment to the chosen nearest targets" in terms of the cost (the optimal transform itself need
            # not be unique: three matched targets may be collinear or coincide)
            best = min(best, float(((moved - sel) ** 2).sum()) - ref[0])
        ctx.count("round5.tie-breaks")
        if not (best <= 4096 * eps * D * D):
            ctx.fail(case, f"ties: with every source point exactly equidistant from at least two targets, one ICP pass is an optimal alignment for none of "
                           f"the {nch} admissible nearest-neighbour choices (smallest excess cost {best:.3e}, allowance {4096 * eps * D * D:.2e}; {dtn})")
            ok = False

    # ---- (37) every non-empty subset of the operands requiring grad, through backward() and autograd.grad, against central differences
    a, b = _rand_problem(r, 6, torch.float64)
    for name, f in (("svdtf", P.svdtf), ("svdstf", P.svdstf)):
        wv = torch.tensor([r.uniform(-1, 1) for _ in range(7 if name == "svdtf" else 8)], dtype=torch.float64)
        L = lambda x, y: (raw_keep(f(x, y)) * wv).sum()      # noqa: E731

        def fd(which):
            gnum = torch.zeros(6, 3, dtype=torch.float64)
            h = 1e-6
            for i in range(6):
                for j in range(3):
                    d_ = torch.zeros(6, 3, dtype=torch.float64)
                    d_[i, j] = h
                    if which == 0:
                        gnum[i, j] = (L(a + d_, b) - L(a - d_, b)) / (2 * h)
                    else:
                        gnum[i, j] = (L(a, b + d_) - L(a, b - d_)) / (2 * h)
            return gnum
        with quiet():
            warnings.simplefilter("ignore")
            nums = [fd(0), fd(1)]
        for subset in ((True, False), (False, True), (True, True)):
            for via in ("backward", "autograd.grad"):
                case = {"kind": "round5", "seed": seed, "what": "grad-subsets", "fn": name, "requires_grad": list(subset), "via": via}
                x = a.clone().requires_grad_(subset[0])
                y = b.clone().requires_grad_(subset[1])
                try:
                    with quiet():
                        warnings.simplefilter("ignore")
                        val = L(x, y)
                        if via == "backward":
                            val.backward()
                            grads = [x.grad, y.grad]
                        else:
                            ins = [t_ for t_, s_ in ((x, subset[0]), (y, subset[1])) if s_]
                            gg = list(torch.autograd.grad(val, ins, allow_unused=True))
                            grads = [gg.pop(0) if subset[0] else None, gg.pop(0) if subset[1] else None]
                except Exception as ex:  # noqa: BLE001
                    ctx.fail(case, f"backward: differentiating {name} with requires_grad = {subset} via {via} raises {type(ex).__name__}: {str(ex)[:100]}")
                    ok = False
                    continue
                ctx.count("round5.grad-subsets")
                for k_, (need, gcalc) in enumerate(zip(subset, grads)):
                    if not need:
                        continue
                    scale_ = float(nums[k_].abs().max()) + 1e-12
                    if gcalc is None or not torch.isfinite(gcalc).all() or not (float((gcalc - nums[k_]).abs().max()) <= 1e-5 * scale_ + 1e-7):
                        err = float("nan") if gcalc is None else float((gcalc - nums[k_]).abs().max())
                        ctx.fail(case, f"backward: gradient of {name} w.r.t. its {'source' if k_ == 0 else 'target'} cloud (requires_grad = {subset}, via {via}) is "
                                       f"{'None' if gcalc is None else 'off by %.3e' % err} against central differences of size {scale_:.3e}")
                        ok = False
    return ok


def raw_keep(x):
    """the plain tensor of a LieTensor, graph kept"""
    return x.tensor()


def run_round5(ctx: Ctx, n: int):
    for sd in [505] + [ctx.rng.randrange(1 << 20) for _ in range(n)]:
        ctx.note_case(("round5", sd % 13), True)
        check_round5(ctx, sd)



# ----------------------------------------------------------------------------- lesson (38): cube rotations through ICP and EPnP

def check_cube_rotations(ctx: Ctx) -> bool:
    """ICP started from an exact cube rotation (its final `svdtf(source, temporal)` must reproduce it: the estimated rotation matrix
    has exactly tied entries) and EPnP poses whose rotation is a cube rotation; every result is tested for finiteness first"""
    P = pp()
    r = random.Random(3838)
    ok = True
    for dtn in ("float64", "float32"):
        dt = getattr(torch, dtn)
        eps = common.EPS[dtn]
        for cloud in ("cube", "generic", "triangle"):
            pts = U.gen_cloud(r, {"cube": 8, "generic": 7, "triangle": 3}[cloud], cloud, 1.0, False, 0.0)
            src = torch.tensor(pts, dtype=torch.float64)
            for k_, R in enumerate(U.CUBE24):
                Rm = torch.tensor(R, dtype=torch.float64)
                t = torch.tensor([float(k_ % 3), -1.0, 0.5], dtype=torch.float64)
                tgt = src @ Rm.T + t
                init = P.SE3(torch.tensor(t.tolist() + U.mat_to_q(R), dtype=torch.float64).to(dt))
                case = {"kind": "cube_rot", "what": "ICP", "dtype": dtn, "cloud": cloud, "rot_index": k_}
                for stp in (FixedStepper(1), None):
                    try:
                        with warnings.catch_warnings():
                            warnings.simplefilter("ignore")
                            m = P.module.ICP(init=init, stepper=stp) if stp is not None else P.module.ICP(init=init)
                            out = m(src.to(dt), tgt.to(dt))
                    except Exception as ex:  # noqa: BLE001
                        ctx.fail(case, f"raises: ICP raises {type(ex).__name__}: {str(ex)[:100]} when started from cube rotation #{k_} ({cloud}, {dtn})")
                        ok = False
                        continue
                    ctx.count("cube_rot.icp")
                    O = raw(out).double()
                    if not torch.isfinite(O).all():
                        ctx.fail(case, f"valid: ICP returns non-finite numbers {O.tolist()} for a finite valid problem: {cloud} cloud, target = cube rotation "
                                       f"#{k_} of the source + shift, init = that motion ({dtn})")
                        ok = False
                        continue
                    res = float((U.apply_vec(O, src) - tgt).abs().max())
                    D = float(tgt.abs().max())
                    if not (res <= ICP_REC_K * eps * D):
                        ctx.fail(case, f"recover: ICP started from the exact motion (cube rotation #{k_}, {cloud}, {dtn}) misses it by {res:.3e} > {ICP_REC_K * eps * D:.2e}")
                        ok = False
    K = torch.tensor([[500.0, 0.0, 320.0], [0.0, 480.0, 240.0], [0.0, 0.0, 1.0]], dtype=torch.float64)
    pts = torch.tensor([[r.gauss(0, 1) for _ in range(3)] for _ in range(9)], dtype=torch.float64)
    for k_, R in enumerate(U.CUBE24):
        T = P.SE3(torch.tensor([0.2, -0.1, 7.0] + U.mat_to_q(R), dtype=torch.float64))
        pix = P.point2pixel(pts, K, T)
        for refine in (False, True):
            case = {"kind": "cube_rot", "what": "EPnP", "rot_index": k_, "refine": refine, "N": 9, "depth": 3.0, "aniso": 1.0, "f": 500.0}
            try:
                with warnings.catch_warnings():
                    warnings.simplefilter("ignore")
                    est = P.module.EPnP(K, refine=refine)(pts, pix)
            except Exception as ex:  # noqa: BLE001
                ctx.fail(case, f"raises: EPnP raises {type(ex).__name__}: {str(ex)[:100]} for a pose whose rotation is cube rotation #{k_}")
                ok = False
                continue
            ctx.count("cube_rot.epnp")
            ok = epnp_compare(ctx, case, est, T, pts, pix, K) and ok
    return ok


# ----------------------------------------------------------------------------- round 6: classes (51), (42), (48)

class LenStepper(FixedStepper):
    """(42) a valid user stepper that is *falsy* when it is handed over: a recorder whose length is the number of losses seen"""

    def __len__(self):
        return len(self.seen)


class BoolStepper(FixedStepper):
    """(42) a valid user stepper whose truth value is continual(): handed over exhausted (after an earlier run) it is falsy"""

    def __bool__(self):
        return self.continual()


def r6_quat(axis, ang):
    a = torch.tensor(axis, dtype=torch.float64)
    a = a / a.norm()
    return torch.cat([a * math.sin(ang / 2), torch.tensor([math.cos(ang / 2)], dtype=torch.float64)])


def r6_item(r: random.Random, it: dict, N: int):
    """one registration problem of a mixed batch: (source, target, true 7-vector or None), float64.
    noisy : round cloud of extent 5·scale, rigid motion + Gaussian noise `noise`·extent on the target: the closest-point error settles
            at a non-zero floor;
    slow  : densely sampled space curve (`curve`) of extent ~0.5·scale that slides along its own tangent (rotation `rot` about the axis of
            the arc + the matching shift): exact correspondences exist, point-to-point ICP needs 10–35 small passes to lock on;
    fast  : round cloud of extent `scale` with a small exact motion (locks on in 2–4 passes)"""
    sc = it["scale"]
    if it["type"] == "noisy":
        A = 5 * sc * torch.tensor([[r.gauss(0, 1) for _ in range(3)] for _ in range(N)], dtype=torch.float64)
        q = r6_quat([r.gauss(0, 1) for _ in range(3)], 0.04)
        t = sc * torch.tensor([0.2, 0.1, -0.1], dtype=torch.float64)
        At = A @ U.quat_mat_t(q).T + t + it["noise"] * 5 * sc * torch.tensor([[r.gauss(0, 1) for _ in range(3)] for _ in range(N)], dtype=torch.float64)
        return A, At, None
    if it["type"] == "slow":
        th = torch.tensor(sorted(r.random() for _ in range(N)), dtype=torch.float64) * 1.5
        if it["curve"] == "arc":
            B = 0.2 * torch.stack([2 * torch.cos(th), 2 * torch.sin(th), 0.5 * torch.sin(3 * th)], -1)
        else:
            B = 0.4 * torch.stack([torch.cos(th), torch.sin(th), 0.05 * torch.sin(7 * th)], -1)
        q = r6_quat([0.0, 0.0, 1.0], it["rot"])
        t = torch.tensor([0.02, 0.01, 0.0], dtype=torch.float64) * (it["rot"] / 0.03)
    else:
        B = torch.tensor([[r.gauss(0, 1) for _ in range(3)] for _ in range(N)], dtype=torch.float64)
        q = r6_quat([r.gauss(0, 1) for _ in range(3)], 0.01)
        t = torch.tensor([0.004, -0.003, 0.002], dtype=torch.float64)
    B, t = B * sc, t * sc
    return B, B @ U.quat_mat_t(q).T + t, torch.cat([t, q])


def r6_stepper(kind: str):
    P = pp()
    if kind == "default":
        return None
    if kind == "bason60":
        return P.utils.ReduceToBason(steps=60)
    if kind == "bason_tight":
        return P.utils.ReduceToBason(steps=80, patience=3, decreasing=1e-4, tol=0.0)
    if kind == "fixed40":
        return FixedStepper(40)
    if kind == "len40":
        return LenStepper(40)
    raise ValueError(kind)


def r6_icp(stp):
    P = pp()
    return P.module.ICP() if stp is None else P.module.ICP(stepper=stp)


def check_mixed_batch(ctx: Ctx, spec) -> bool:
    """class (51): ONE ICP call on a batch that mixes problems of different kind and scale. Every item is judged by itself: it must be
    a valid SE3 element, its mean squared closest-point distance must not exceed that of the same item registered alone with the same
    stepper settings (the passes of an item do not depend on its neighbours, and further passes never raise that distance: theorem
    icp_monotone_mscd; the per-item passes of the batched loop: icpLoopB_eq_iter), and an item with exact correspondences that is recovered alone must be recovered in the batch"""
    P = pp()
    r = random.Random(spec["seed"])
    dtn, N = spec["dtype"], spec["N"]
    dt, eps = getattr(torch, dtn), common.EPS[dtn]
    probs = [r6_item(r, it, N) for it in spec["items"]]
    lead = tuple(spec.get("lead") or (len(probs),))
    S = torch.stack([p[0] for p in probs]).to(dt)
    T = torch.stack([p[1] for p in probs]).to(dt)
    S64, T64 = S.double(), T.double()
    case = dict(spec)
    desc = ", ".join(f"item {i}: {it['type']}" + (f" {it['curve']} rot {it['rot']}" if it["type"] == "slow" else "") + f" scale {it['scale']:g}"
                     for i, it in enumerate(spec["items"]))
    stp = r6_stepper(spec["stepper"])
    try:
        with warnings.catch_warnings():
            warnings.simplefilter("ignore")
            m = r6_icp(stp)
            out = m(S.reshape(lead + (N, 3)), T.reshape(lead + (N, 3)))
            alone = [r6_icp(r6_stepper(spec["stepper"]))(S[b], T[b]) for b in range(len(probs))]
    except Exception as ex:  # noqa: BLE001
        ctx.fail(case, f"raises: ICP raises {type(ex).__name__}: {str(ex)[:100]} on a mixed batch ({desc}; N={N}, {dtn}, stepper {spec['stepper']})")
        return False
    ctx.count("round6.mixed.calls")
    ok = True
    if type(out).__name__ != "LieTensor" or out.ltype != P.SE3_type or tuple(out.shape) != lead + (7,) or out.dtype != dt:
        ctx.fail(case, f"type: ICP returned {type(out).__name__} shape {tuple(getattr(out, 'shape', ()))} for a batch {lead}")
        return False
    if stp is not None and spec["stepper"] in ("fixed40", "len40"):
        if m.stepper is not stp:
            ctx.fail(case, f"stepper: ICP does not use the stepper object it was given ({type(stp).__name__}, falsy at hand-over: {not bool(stp)})")
            ok = False
        elif len(stp.seen) != stp.n or stp.continual():
            ctx.fail(case, f"stepper: ICP left its loop after {len(stp.seen)} passes although the user stepper asked for {stp.n} "
                           f"(continual() is {stp.continual()}); mixed batch: {desc}; N={N}, {dtn}")
            ok = False
    O = raw(out).double().reshape(len(probs), 7)
    for b, (_, _, truth) in enumerate(probs):
        cid = dict(case, item=b)
        Oa = raw(alone[b]).double().reshape(7)
        if not torch.isfinite(O[b]).all() or not (abs(float(O[b, 3:7].norm()) - 1) <= UNIT_TOL * eps):
            ctx.fail(cid, f"valid: ICP result of item {b} of a mixed batch is not a valid SE3 element: {O[b].tolist()} ({desc}; N={N}, {dtn})")
            ok = False
            continue
        if not torch.isfinite(Oa).all():
            ctx.fail(cid, f"valid: ICP on item {b} alone returns non-finite numbers ({desc}; N={N}, {dtn})")
            ok = False
            continue
        D = float(T64[b].abs().max())
        cond = cloud_cond(S64[b])
        Em, Ea = U.mscd(U.apply_vec(O[b], S64[b]), T64[b]), U.mscd(U.apply_vec(Oa, S64[b]), T64[b])
        delta = ICP_DELTA_K * eps * D * cond
        tolE = delta * delta + 2 * delta * math.sqrt(Ea) + 64 * eps * Ea + 1e-300
        ctx.count("round6.mixed.items")
        if not (Em <= Ea + tolE):
            ctx.fail(cid, f"batch-item: item {b} of a mixed batch ends at mean squared closest-point distance {Em:.6e}, the same item alone "
                          f"(same stepper settings: {spec['stepper']}) at {Ea:.6e} (allowance {tolE:.2e}): its passes depend on the other items "
                          f"({desc}; N={N}, {dtn}, lead {lead})")
            ok = False
        if truth is not None:
            want = U.apply_vec(truth, S64[b])
            tolr = ICP_REC_K * eps * D * cond
            ra, rm = float((U.apply_vec(Oa, S64[b]) - want).abs().max()), float((U.apply_vec(O[b], S64[b]) - want).abs().max())
            if ra <= tolr:
                ctx.count(f"round6.mixed.{spec['items'][b]['type']}-recovered-alone")
                track(f"round6.recover.{dtn}", rm, tolr)
                if not (rm <= tolr):
                    ctx.fail(cid, f"recover: exact rigid motion of item {b} is recovered when the item is registered alone (max point error {ra:.3e}) "
                                  f"but not in a batch next to other problems: {rm:.3e} > {tolr:.3e}, i.e. {rm / D:.1e} of the extent "
                                  f"({desc}; N={N}, {dtn}, stepper {spec['stepper']}, lead {lead})")
                    ok = False
            else:
                ctx.count(f"round6.mixed.{spec['items'][b]['type']}-not-recovered-alone")
    return ok


def mixed_corpus(quick: bool):
    no = lambda sc, nz=0.1: {"type": "noisy", "scale": sc, "noise": nz}                    # noqa: E731
    sl = lambda sc, rot, curve="arc": {"type": "slow", "curve": curve, "rot": rot, "scale": sc}   # noqa: E731
    fa = lambda sc: {"type": "fast", "scale": sc}                                          # noqa: E731
    specs = [
        dict(seed=1, dtype="float64", N=120, stepper="bason60", items=[no(1.0), sl(1.0, 0.1)]),
        dict(seed=2, dtype="float32", N=120, stepper="bason60", items=[sl(1.0, 0.15, "circle"), no(1.0)]),
        dict(seed=3, dtype="float64", N=120, stepper="default", items=[no(1e3), sl(1.0, 0.06), fa(1.0)]),
        dict(seed=4, dtype="float64", N=120, stepper="fixed40", items=[fa(1e-3), no(1.0), sl(1e3, 0.1)]),
        dict(seed=5, dtype="float32", N=120, stepper="len40", items=[no(1.0, 0.3), sl(1.0, 0.1, "circle")]),
        dict(seed=6, dtype="float64", N=200, stepper="bason_tight", items=[sl(1.0, 0.06), no(1.0), fa(1e3), sl(1e-2, 0.1, "circle")], lead=[2, 2]),
    ]
    if not quick:
        specs += [
            dict(seed=7, dtype="float32", N=200, stepper="default", items=[no(1.0), sl(1.0, 0.03)]),
            dict(seed=8, dtype="float64", N=200, stepper="default", items=[no(1.0, 0.1), sl(1.0, 0.03)]),
            dict(seed=9, dtype="float32", N=200, stepper="bason_tight", items=[sl(1e3, 0.15), no(1e-3), fa(1.0)]),
            dict(seed=10, dtype="float64", N=120, stepper="bason60", items=[fa(1e-3), fa(1.0), fa(1e3)]),
            dict(seed=11, dtype="float64", N=120, stepper="bason_tight", items=[sl(1e-3, 0.1), sl(1.0, 0.1), sl(1e3, 0.1)]),
            dict(seed=12, dtype="float32", N=120, stepper="fixed40", items=[no(1e2), sl(1.0, 0.15)], lead=[1, 2]),
        ]
    return [dict(s_, kind="round6", what="mixed-batch") for s_ in specs]


def random_mixed_spec(r: random.Random) -> dict:
    nb = r.choice([2, 2, 3, 4])
    items = [{"type": "noisy", "scale": 10.0 ** r.choice([-3, -1, 0, 0, 0, 1, 3]), "noise": r.choice([0.05, 0.1, 0.3])},
             {"type": "slow", "curve": r.choice(["arc", "circle"]), "rot": r.choice([0.03, 0.06, 0.1, 0.15]), "scale": 10.0 ** r.choice([-3, -1, 0, 0, 0, 1, 3])}]
    while len(items) < nb:
        items.append(r.choice([{"type": "fast", "scale": 10.0 ** r.choice([-3, 0, 3])},
                               {"type": "slow", "curve": "arc", "rot": r.choice([0.06, 0.1]), "scale": 10.0 ** r.choice([-2, 0, 2])},
                               {"type": "noisy", "scale": 10.0 ** r.choice([-2, 0, 2]), "noise": 0.2}]))
    r.shuffle(items)
    return {"kind": "round6", "what": "mixed-batch", "seed": r.randrange(1 << 30), "dtype": r.choice(["float64", "float32"]), "N": r.choice([120, 200]),
            "stepper": r.choice(["default", "bason60", "bason60", "bason_tight", "fixed40", "len40"]), "items": items,
            "lead": r.choice([[nb], [nb], [1, nb], [nb, 1]] + ([[2, 2]] if nb == 4 else []))}


def check_falsy_steppers(ctx: Ctx) -> bool:
    """(42) user steppers that are valid but falsy when they are handed to the constructor: the module must use the GIVEN object"""
    P = pp()
    r = random.Random(4242)
    ok = True
    for dtn in ("float64", "float32"):
        dt = getattr(torch, dtn)
        a, b = _rand_problem(r, 9, dt)
        for name in ("len", "bool-exhausted"):
            case = {"kind": "round6", "what": "falsy-stepper", "stepper": name, "dtype": dtn}
            try:
                with warnings.catch_warnings():
                    warnings.simplefilter("ignore")
                    if name == "len":
                        st = LenStepper(3)
                    else:
                        st = BoolStepper(3)
                        P.module.ICP(stepper=st)(a, b)          # exhausts it: continual() is False, so the object is falsy now
                    falsy = not bool(st)
                    m = P.module.ICP(stepper=st)
                    got = m(a, b)
                    want = P.module.ICP(stepper=FixedStepper(3))(a, b)
            except Exception as ex:  # noqa: BLE001
                ctx.fail(case, f"raises: ICP with a user stepper that is falsy at hand-over ({name}) raises {type(ex).__name__}: {str(ex)[:100]}")
                ok = False
                continue
            ctx.count("round6.falsy-stepper")
            if not falsy:
                raise InfraError("C17: the falsy stepper of the harness is not falsy at hand-over")
            if m.stepper is not st or len(st.seen) != 3 or not lie_equal(got, want):
                ctx.fail(case, f"stepper: ICP(stepper=<valid user stepper, falsy at hand-over: {name}>) does not drive the given object: "
                               f"module.stepper is the object: {m.stepper is st}, passes it saw: {len(st.seen)} (asked 3), result equals that of an "
                               f"ordinary 3-pass stepper: {lie_equal(got, want)} ({dtn})")
                ok = False
    return ok


def check_epnp_mixed_scales(ctx: Ctx) -> bool:
    """class (51) for EPnP: scenes of scale 1e-2, 1, 1e2 (same pixels) in ONE call; every item is judged against its own true pose"""
    P = pp()
    r = random.Random(5151)
    ok = True
    for refine in (False, True):
        for scales in ((1e-2, 1.0, 1e2), (1e3, 1.0), (1.0, 1e-3, 1.0, 1e3)):
            if ctx.quick and refine and len(scales) != 3:
                continue
            scenes = [_epnp_problem(r, 10, torch.float64) for _ in scales]
            K = scenes[0][2]
            pts = torch.stack([sc * s_[0] for sc, s_ in zip(scales, scenes)])
            T = P.SE3(torch.stack([torch.cat([sc * s_[3].tensor()[:3], s_[3].tensor()[3:]]) for sc, s_ in zip(scales, scenes)]))
            pix = P.point2pixel(pts, K, T)
            case = dict(scenes[0][4], kind="round6", what="epnp-mixed-scales", scales=list(scales), refine=refine)
            try:
                with warnings.catch_warnings():
                    warnings.simplefilter("ignore")
                    est = P.module.EPnP(K, refine=refine)(pts, pix)
            except Exception as ex:  # noqa: BLE001
                ctx.fail(case, f"raises: EPnP raises {type(ex).__name__}: {str(ex)[:100]} on a batch of scenes of scales {scales}")
                ok = False
                continue
            ctx.count("round6.epnp-mixed-scales")
            ok = epnp_compare(ctx, case, est, T, pts, pix, K) and ok
    return ok


def run_round6(ctx: Ctx, n: int):
    ctx.note_case(("round6", "fixed"), True)
    check_falsy_steppers(ctx)
    check_epnp_mixed_scales(ctx)
    for spec in mixed_corpus(ctx.quick) + [random_mixed_spec(ctx.rng) for _ in range(n)]:
        ctx.note_case(("round6", spec["stepper"], len(spec["items"]), spec["dtype"]), True)
        check_mixed_batch(ctx, spec)


# ----------------------------------------------------------------------------- entry points

def run(ctx: Ctx):
    rng = ctx.rng
    cases = corner_cases(rng)
    for i_, c in enumerate(cases):       # the spelling / grad-mode / ownership extras on every second corner case (they are structure-, not data-dependent)
        c["extras"] = (i_ % 2 == 0 and c.get("tag") != "corner-cube-rotations") or (c.get("tag") == "corner-cube-rotations" and c["N"] == 3 and c["dtype"] == "float64")
    n = ctx.pick(170, 3000)
    cases += [random_align_case(rng) for _ in range(n)]
    run_align(ctx, cases)
    specs = icp_corner_specs() + [random_icp_spec(rng) for _ in range(ctx.pick(25, 1000))]
    run_icp(ctx, specs)
    especs = epnp_corner_specs() + [epnp_spec(rng) for _ in range(ctx.pick(45, 2000))]
    run_icp_kernel(ctx, ctx.pick(20, 800))
    run_large(ctx)
    run_round4(ctx, ctx.pick(0, 25))
    run_round5(ctx, ctx.pick(0, 15))
    ctx.note_case(("cube_rot",), True)
    check_cube_rotations(ctx)
    run_round6(ctx, ctx.pick(0, 40))
    run_epnp(ctx, especs)
    run_epnp_scale(ctx, ctx.pick(25, 800))
    run_histories(ctx, ctx.pick(3, 50), ctx.pick(2, 40))
    run_lifecycles(ctx, ctx.pick(3, 50), ctx.pick(3, 40))
    ctx.notes.append("largest error/tolerance ratios: " + ", ".join(f"{k}={v:.3g}" for k, v in sorted(RATIOS.items())))


def search(ctx: Ctx):
    """after a broken proof / correspondence: hunt on the real code with the oracles only (no model), many more
    degenerate and reflection-prone configurations"""
    r = random.Random(ctx.seed * 7 + 17)
    for case in corner_cases(r):
        check_align_case(ctx, case, use_model=False)
        if ctx.failures:
            return
    for _ in range(600):
        case = random_align_case(r)
        for it in case["items"]:
            it["cloud"] = r.choice(["planar", "generic", "nearplanar", "collinear", "two", "aniso"])
            it["noise"] = r.choice([0.0, 0.1, 0.3, 0.5])
        check_align_case(ctx, case, use_model=False)
        if ctx.failures:
            return
    for spec in icp_corner_specs() + [random_icp_spec(r) for _ in range(100)]:
        check_icp_case(ctx, spec, use_model=False)
        if ctx.failures:
            return


def replay(ctx: Ctx, case) -> bool:
    c = dict(case["case"])
    kind = c.get("kind")
    n0 = len(ctx.failures)
    c.pop("item", None)
    if kind == "align":
        check_align_case(ctx, c)
    elif kind == "icp":
        c.pop("kind")
        check_icp_case(ctx, c)
    elif kind == "epnp":
        c.pop("kind")
        c.pop("call", None)
        check_epnp_case(ctx, c)
    elif kind == "cube_rot":
        check_cube_rotations(ctx)
    elif kind == "round6":
        if c.get("what") == "mixed-batch":
            check_mixed_batch(ctx, c)
        elif c.get("what") == "falsy-stepper":
            check_falsy_steppers(ctx)
        else:
            check_epnp_mixed_scales(ctx)
    elif kind == "round5":
        check_round5(ctx, c["seed"])
    elif kind == "round4":
        check_round4(ctx, c["seed"])
    elif kind == "large":
        c.pop("item", None)
        check_large(ctx, c)
    elif kind == "icp_kernel":
        c.pop("item", None)
        check_icp_kernel(ctx, c)
    elif kind == "epnp_scale":
        c.pop("item", None)
        drive(ctx, [check_epnp_scale_gen(ctx, c)])
    elif kind in ("icp_life", "epnp_life"):
        spec = {k2: v for k2, v in c.items() if k2 in ("kind", "seed", "stepper", "ctor_init", "dtype", "nsteps", "passes", "sizes", "refine", "ctorK")}
        drive_alternately([(icp_lifecycle if kind == "icp_life" else epnp_lifecycle)(ctx, spec)])
    elif kind == "icp_hist":
        c.pop("call", None)
        check_icp_history(ctx, c)
    elif kind == "epnp_hist":
        for k2 in ("call", "N", "depth", "aniso", "f", "per_item", "batch"):
            c.pop(k2, None)
        check_epnp_history(ctx, c)
    for f in ctx.failures[n0:]:
        print("  fails:", f["what"])
    for d in ctx.disagreements:
        print("  model/implementation disagreement:", d["stream"], d["detail"])
    return len(ctx.failures) == n0 and not ctx.disagreements
