import Proofs.Lemmas.AutogradChain
set_option linter.unusedSimpArgs false
namespace PP.AD
open PP

/-! ## typing -/
inductive Ty | G (g : Grp) | V (n : Nat)
deriving DecidableEq

def Ty.dim : Ty → Nat | .G g => g.gdim | .V n => n
def Ty.tdim : Ty → Nat | .G g => g.adim | .V n => n

def ty1 (o : Op1) (g : Grp) (t : Ty) : Option Ty :=
  match o with
  | .Exp => if t = .V g.adim then some (.G g) else none
  | .Log => if t = .G g then some (.V g.adim) else none
  | .Inv => if t = .G g then some (.G g) else none
  | .Matrix => if t = .G g then some (.V (matN g)) else none

def ty2 (o : Op2) (g : Grp) (t u : Ty) : Option Ty :=
  match o with
  | .Mul => if t = .G g ∧ u = .G g then some (.G g) else none
  | .Act => if t = .G g ∧ u = .V 3 then some (.V 3) else none
  | .Act4 => if t = .G g ∧ u = .V 4 then some (.V 4) else none
  | .Adj => if t = .G g ∧ u = .V g.adim then some (.V g.adim) else none
  | .AdjT => if t = .G g ∧ u = .V g.adim then some (.V g.adim) else none
  | .Jinvp => if t = .G g ∧ u = .V g.adim then some (.V g.adim) else none

/-- type of a program over leaf types `lt` (`none` = ill-typed) -/
def tyOf (lt : List Ty) : Prog → Option Ty
  | .leaf i => lt[i]?
  | .un o g p => (tyOf lt p).bind (ty1 o g)
  | .bin o g p q => (tyOf lt p).bind fun t => (tyOf lt q).bind fun u => ty2 o g t u

/-- leaf values and leaf tangents have the lengths their types prescribe -/
def EnvOK (lt : List Ty) (env tan : List (DVec ℝ)) : Prop :=
  ∀ i t, lt[i]? = some t → (env.getD i []).length = t.dim ∧ (tan.getD i []).length = t.tdim

/-! ## lengths -/
theorem length_expF (g : Grp) (eps : ℝ) (x : DVec ℝ) : (expF g eps x).length = g.gdim := by
  cases g <;> simp [expF, Grp.gdim, Quat.toList, SE3.toList, RxSO3.toList, Sim3.toList, Vec3.toList]
theorem length_logF (g : Grp) (eps : ℝ) (x : DVec ℝ) : (logF g eps x).length = g.adim := by
  cases g <;> simp [logF, Grp.adim, se3.toList, rxso3.toList, sim3.toList, Vec3.toList]
theorem length_invF (g : Grp) (x : DVec ℝ) : (invF g x).length = g.gdim := by
  cases g <;> simp [invF, Grp.gdim, Quat.toList, SE3.toList, RxSO3.toList, Sim3.toList, Vec3.toList]
theorem length_mulF (g : Grp) (x y : DVec ℝ) : (mulF g x y).length = g.gdim := by
  cases g <;> simp [mulF, Grp.gdim, Quat.toList, SE3.toList, RxSO3.toList, Sim3.toList, Vec3.toList]
theorem length_actF (g : Grp) (x y : DVec ℝ) : (actF g x y).length = 3 := by
  cases g <;> simp [actF, Vec3.toList]
theorem length_act4F (g : Grp) (x y : DVec ℝ) : (act4F g x y).length = 4 := by
  cases g <;> simp [act4F, pairL, Vec3.toList]
theorem length_adjF (g : Grp) (x y : DVec ℝ) : (adjF g x y).length = g.adim := by
  simp [adjF, length_mulVec _ (Shape_AdjMat g x)]
theorem length_adjTF (g : Grp) (x y : DVec ℝ) : (adjTF g x y).length = g.adim := by
  simp [adjTF, length_adjF]
theorem length_jinvpF (g : Grp) (eps : ℝ) (x y : DVec ℝ) : (jinvpF g eps x y).length = g.adim := by
  simp [jinvpF, jlInvP, length_mulVec _ (Shape_JlInvMat g eps _)]
theorem length_matrixF (g : Grp) (x : DVec ℝ) : (matrixF g x).length = matN g := by
  cases g <;> simp [matrixF, matN, Mat3.toList, Vec3.toList, SE3matrix, RxSO3matrix, Sim3matrix, matrix4, DMat.flat]
theorem length_matrixT (g : Grp) (x τ : DVec ℝ) : (matrixT g x τ).length = matN g := by
  cases g <;> simp [matrixT, matN, List.range, List.range.loop, List.flatMap]

theorem length_fwd1 (o : Op1) (g : Grp) (eps : ℝ) (x : DVec ℝ) (t u : Ty) (h : ty1 o g t = some u) :
    (fwd1 o g eps x).length = u.dim := by
  cases o <;> simp only [ty1] at h <;> split at h <;> simp at h <;> subst h <;>
    simp [fwd1, Ty.dim, length_expF, length_logF, length_invF, length_matrixF]

theorem length_fwd2 (o : Op2) (g : Grp) (eps : ℝ) (x y : DVec ℝ) (t t' u : Ty) (h : ty2 o g t t' = some u) :
    (fwd2 o g eps x y).length = u.dim := by
  cases o <;> simp only [ty2] at h <;> split at h <;> simp at h <;> subst h <;>
    simp [fwd2, Ty.dim, length_mulF, length_actF, length_act4F, length_adjF, length_adjTF, length_jinvpF]
end PP.AD
