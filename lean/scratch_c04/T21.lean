import Proofs.Props.C04
namespace PP.AD
open PP
/-- non-vacuity of `SO3_Log_tangent` (at `eps = 0`): the unit quaternion `(0.6, 0, 0, 0.8)` is in regime 1 and its
logarithm is not zero -/
example : (0:ℝ) < (qt ([0.6, 0, 0, 0.8] : DVec ℝ)).vec.norm ∧ (0:ℝ) < |(qt ([0.6, 0, 0, 0.8] : DVec ℝ)).w| ∧
    (0:ℝ) < (v3 (logF .SO3 0 [0.6, 0, 0, 0.8])).norm := by
  have hn : (qt ([0.6, 0, 0, 0.8] : DVec ℝ)).vec.norm = Real.sqrt 0.36 := by
    simp [Vec3.norm, Vec3.normSq, Quat.vec, qt]; norm_num
  have hpos : (0:ℝ) < Real.sqrt 0.36 := Real.sqrt_pos.mpr (by norm_num)
  have hw : (0:ℝ) < |(qt ([0.6, 0, 0, 0.8] : DVec ℝ)).w| := by simp [qt]; norm_num
  refine ⟨by rw [hn]; exact hpos, hw, ?_⟩
  have h1 : (0:ℝ) < (qt ([0.6, 0, 0, 0.8] : DVec ℝ)).vec.norm := by rw [hn]; exact hpos
  simp only [logF, SO3Log_regime1 0 _ h1 hw, hn]
  simp only [Vec3.norm, Vec3.normSq, v3, Vec3.smul, Vec3.toList, Quat.vec, qt, nth_cons_zero, nth_cons_succ, sqrt_real]
  apply Real.sqrt_pos.mpr
  have hA : Real.arctan (Real.sqrt 0.36 / 0.8) ≠ 0 := by
    rw [Ne, Real.arctan_eq_zero_iff]; exact ne_of_gt (div_pos hpos (by norm_num))
  have hF : 2 * Real.arctan (Real.sqrt 0.36 / 0.8) / Real.sqrt 0.36 ≠ 0 := by
    apply div_ne_zero (mul_ne_zero (by norm_num) hA) (ne_of_gt hpos)
  have : (0:ℝ) < (2 * Real.arctan (Real.sqrt 0.36 / 0.8) / Real.sqrt 0.36 * 0.6) ^ 2 := by positivity
  nlinarith [this]
end PP.AD
