"""Generator of the repetitive local-tangent lemmas of lean/Proofs/Lemmas/AutogradLocal<G>.lean (property C04).

    /venv/bin/python -m harness.util_autograd_gen        (from /verif) rewrites the four files

Every lemma has the same proof: name the component derivatives, unfold the forward pass to a polynomial in the curve
components, differentiate with `simp` + `fun_prop`, unfold the claimed tangent, close the polynomial identity modulo the
unit-quaternion hypothesis with `grind`."""
from __future__ import annotations

from pathlib import Path

GD = {"SO3": 4, "SE3": 7, "RxSO3": 5, "Sim3": 8}
AD = {"SO3": 3, "SE3": 6, "RxSO3": 4, "Sim3": 7}
QOFF = {"SO3": 0, "SE3": 3, "RxSO3": 0, "Sim3": 3}
SIDX = {"SO3": None, "SE3": None, "RxSO3": 4, "Sim3": 7}
MATN = {"SO3": 3, "SE3": 4, "RxSO3": 4, "Sim3": 4}


def lst(prefix, n):
    return "[" + ", ".join(f"{prefix}{i}" for i in range(n)) + "]"


def binders(prefix, n):
    return " ".join(f"{prefix}{i}" for i in range(n))


def curve_haves(h, n):
    out = []
    for i in range(n):
        out.append(f"  have {h}_{i} := {h} {i} (by norm_num)")
    for i in range(n):
        out.append(f"  have d{h}_{i} := {h}_{i}.differentiableAt")
    return "\n".join(out)


def deriv_names(h, n):
    return ", ".join(f"{h}_{i}.deriv" for i in range(n))


def unit_have(g, X="X"):
    o = QOFF[g]
    return (f"  have hu' : nth ({X} 0) {o} * nth ({X} 0) {o} + nth ({X} 0) {o+1} * nth ({X} 0) {o+1} + "
            f"nth ({X} 0) {o+2} * nth ({X} 0) {o+2} + nth ({X} 0) {o+3} * nth ({X} 0) {o+3} = 1 := hu")


PROOF_TAIL = """  intro i hi
  interval_cases i
  all_goals
    fwd_unfold
    lie_unfold
    refine HasDerivAt.congr_deriv (DifferentiableAt.hasDerivAt (by fun_prop (disch := assumption))) ?_
    simp (disch := first | assumption | fun_prop (disch := assumption)) only [deriv_fun_add, deriv_fun_sub, deriv_fun_mul,
      deriv_fun_div, deriv.fun_neg, deriv_const, deriv_const_mul_field, {derivs}]
    try fwd_unfold
    try lie_unfold
    clear {clears}
    {pre}grind"""


def theorem(name, doc, g, params, hyps, concl, curves, need_unit=True, scale=False, scalars=0):
    """curves: list of (hypname, dim); scalars: number of scalar component functions al_i with hypotheses hal_i"""
    lines = [f"/-- {doc} -/", f"theorem {name} {params}"]
    for h in hyps:
        lines.append(f"    {h}")
    lines.append(f"    : {concl} := by")
    for h, n in curves:
        lines.append(curve_haves(h, n))
    for i in range(scalars):
        lines.append(f"  have dhal_{i} := hal_{i}.differentiableAt")
    if need_unit:
        lines.append(unit_have(g))
    derivs = ", ".join([deriv_names(h, n) for h, n in curves] + [f"hal_{i}.deriv" for i in range(scalars)])
    clears = " ".join(f"{h}_{i} d{h}_{i}" for h, n in curves for i in range(n)) + " " + " ".join(h for h, _ in curves) \
        + " " + " ".join(f"hal_{i} dhal_{i}" for i in range(scalars))
    lines.append(PROOF_TAIL.replace("{derivs}", derivs).replace("{clears}", clears)
                 .replace("{pre}", "try field_simp\n    " if scale else ""))
    return "\n".join(lines) + "\n"


def gen_group(g):
    n, m = GD[g], AD[g]
    ta, tb = lst("a", m), lst("b", m)
    unit = f"(hu : (qt (X 0) {QOFF[g]}).normSq = 1)"
    sc = [f"(hs : nth (X 0) {SIDX[g]} ≠ 0)"] if SIDX[g] is not None else []
    out = []
    # Mul
    out.append(theorem(
        f"mul_tangent_{g}", f"`{g}_Mul`: both arguments move; tangent of the product is `τ_X + Adj(X)·τ_Y`", g,
        f"(X Y : ℝ → DVec ℝ) ({binders('a', m)} {binders('b', m)} : ℝ)",
        [f"(hX : LCurve {n} X (liftG .{g} (X 0) {ta}))", f"(hY : LCurve {n} Y (liftG .{g} (Y 0) {tb}))", unit],
        f"LCurve {n} (fun t => mulF .{g} (X t) (Y t))\n      (liftG .{g} (mulF .{g} (X 0) (Y 0)) (DVec.add {ta} ((AdjMat .{g} (X 0)).mulVec {tb})))",
        [("hX", n), ("hY", n)]))
    # Inv
    out.append(theorem(
        f"inv_tangent_{g}", f"`{g}_Inv`: tangent of the inverse is `−Adj(X⁻¹)·τ`", g,
        f"(X : ℝ → DVec ℝ) ({binders('a', m)} : ℝ)",
        [f"(hX : LCurve {n} X (liftG .{g} (X 0) {ta}))", unit] + sc,
        f"LCurve {n} (fun t => invF .{g} (X t))\n      (liftG .{g} (invF .{g} (X 0)) (DVec.neg ((AdjMat .{g} (invF .{g} (X 0))).mulVec {ta})))",
        [("hX", n)], scale=bool(sc)))
    # Act
    out.append(theorem(
        f"act_tangent_{g}", f"`{g}_Act`: `d(X·p) = ActJacobian(X·p)·τ + Matrix(X)[:3,:3]·dp`", g,
        f"(X p : ℝ → DVec ℝ) ({binders('a', m)} {binders('b', 3)} : ℝ)",
        [f"(hX : LCurve {n} X (liftG .{g} (X 0) {ta}))", f"(hp : LCurve 3 p {lst('b', 3)})", unit],
        f"LCurve 3 (fun t => actF .{g} (X t) (p t))\n      (DVec.add ((ActJac .{g} (v3 (actF .{g} (X 0) (p 0)))).mulVec {ta}) (DMat.mulVec (Mat33 .{g} (X 0)).toRows {lst('b', 3)}))",
        [("hX", n), ("hp", 3)]))
    # Act4
    out.append(theorem(
        f"act4_tangent_{g}", f"`{g}_Act4` (homogeneous points): `d(X·p) = Act4Jacobian(X·p)·τ + Matrix4x4(X)·dp`", g,
        f"(X p : ℝ → DVec ℝ) ({binders('a', m)} {binders('b', 4)} : ℝ)",
        [f"(hX : LCurve {n} X (liftG .{g} (X 0) {ta}))", f"(hp : LCurve 4 p {lst('b', 4)})", unit],
        f"LCurve 4 (fun t => act4F .{g} (X t) (p t))\n      (DVec.add ((Act4Jac .{g} (v3 (act4F .{g} (X 0) (p 0))) (nth (act4F .{g} (X 0) (p 0)) 3)).mulVec {ta})\n        ((Mat44 .{g} (X 0)).mulVec {lst('b', 4)}))",
        [("hX", n), ("hp", 4)]))
    # Adj
    als = "[" + ", ".join(f"al{i} t" for i in range(m)) + "]"
    al0 = "[" + ", ".join(f"al{i} 0" for i in range(m)) + "]"
    halh = [f"(hal_{i} : HasDerivAt al{i} b{i} 0)" for i in range(m)]
    out.append(theorem(
        f"adj_tangent_{g}", f"`{g}_AdjXa`: `d(Adj(X)a) = −adj(Adj(X)a)·τ + Adj(X)·da`", g,
        f"(X : ℝ → DVec ℝ) ({binders('al', m)} : ℝ → ℝ) ({binders('a', m)} {binders('b', m)} : ℝ)",
        [f"(hX : LCurve {n} X (liftG .{g} (X 0) {ta}))"] + halh + [unit],
        f"LCurve {m} (fun t => adjF .{g} (X t) {als})\n      (DVec.add (DVec.neg ((adMat .{g} (adjF .{g} (X 0) {al0})).mulVec {ta})) ((AdjMat .{g} (X 0)).mulVec {tb}))",
        [("hX", n)], scalars=m))
    # AdjT
    out.append(theorem(
        f"adjT_tangent_{g}", f"`{g}_AdjTXa`: `d(Adj(X⁻¹)a) = Adj(X⁻¹)·adj(a)·τ + Adj(X⁻¹)·da`", g,
        f"(X : ℝ → DVec ℝ) ({binders('al', m)} : ℝ → ℝ) ({binders('a', m)} {binders('b', m)} : ℝ)",
        [f"(hX : LCurve {n} X (liftG .{g} (X 0) {ta}))"] + halh + [unit] + sc,
        f"LCurve {m} (fun t => adjTF .{g} (X t) {als})\n      (DVec.add ((AdjMat .{g} (invF .{g} (X 0))).mulVec ((adMat .{g} {al0}).mulVec {ta}))\n        ((AdjMat .{g} (invF .{g} (X 0))).mulVec {tb}))",
        [("hX", n)], scalars=m, scale=bool(sc)))
    # matrix
    N = MATN[g]
    out.append(theorem(
        f"matrix_tangent_{g}", f"`matrix()` of a `{g}` element: entry `(i,j)` moves like the `i`-th slot of `Act(X, e_j)`", g,
        f"(X : ℝ → DVec ℝ) ({binders('a', m)} : ℝ)",
        [f"(hX : LCurve {n} X (liftG .{g} (X 0) {ta}))", unit],
        f"LCurve {N*N} (fun t => matrixF .{g} (X t)) (matrixT .{g} (X 0) {ta})",
        [("hX", n)]))
    head = f"""import Proofs.Lemmas.Autograd
/-!
# C04 — local tangent lemmas for `{g}` (generated by `harness/util_autograd_gen.py`, do not edit by hand)

For every hand-written `Function` of `{g}`: if the inputs move along curves whose velocity at `0` is the left-perturbation
velocity `liftG` with tangents `τ` (group inputs) resp. ordinary derivatives (algebra / Euclidean inputs), the output moves
with the tangent obtained from the very matrices the `backward` multiplies by.
-/
set_option maxHeartbeats 1600000
set_option maxRecDepth 10000
set_option linter.unusedSimpArgs false
set_option linter.unusedVariables false
namespace PP.AD
open PP

"""
    return (head + "\n".join(out[:4]) + "\nend PP.AD\n", head + "\n".join(out[4:]) + "\nend PP.AD\n")


def main():
    root = Path(__file__).resolve().parent.parent / "lean" / "Proofs" / "Lemmas"
    for g in GD:
        a, b = gen_group(g)
        (root / f"AutogradLocal{g}a.lean").write_text(a)
        (root / f"AutogradLocal{g}b.lean").write_text(b)




# ----------------------------------------------------------------------------- Props section (restatements with GTangent)

def props_group(g):
    n, m = GD[g], AD[g]
    ta, tb = lst("a", m), lst("b", m)
    A, B = binders("a", m), binders("b", m)
    unit = f"(hu : UnitQ .{g} (X 0))"
    sc = f" (hs : ScaleNZ .{g} (X 0))" if SIDX[g] is not None else ""
    scu = " hs" if SIDX[g] is not None else ""
    als = "[" + ", ".join(f"al{i} t" for i in range(m)) + "]"
    al0 = "[" + ", ".join(f"al{i} 0" for i in range(m)) + "]"
    halh = " ".join(f"(hal{i} : HasDerivAt al{i} b{i} 0)" for i in range(m))
    haln = " ".join(f"hal{i}" for i in range(m))
    N = MATN[g]
    return f"""
/-! ### `{g}` -/

/-- `{g}_Mul.backward`: `X_grad = c[:-1]`, `Y_grad = c[:-1] @ Adj(X)` are the transposes of the true tangent map -/
theorem {g}_Mul_tangent (X Y : ℝ → DVec ℝ) ({A} {B} : ℝ)
    (hX : GTangent .{g} X {ta}) (hY : GTangent .{g} Y {tb}) {unit} :
    GTangent .{g} (fun t => mulF .{g} (X t) (Y t)) (DVec.add {ta} ((AdjMat .{g} (X 0)).mulVec {tb})) :=
  mul_tangent_{g} X Y {A} {B} hX hY hu

/-- `{g}_Inv.backward`: `-(c[:-1] @ Adj(Y))`, `Y = X⁻¹` -/
theorem {g}_Inv_tangent (X : ℝ → DVec ℝ) ({A} : ℝ) (hX : GTangent .{g} X {ta}) {unit}{sc} :
    GTangent .{g} (fun t => invF .{g} (X t)) (DVec.neg ((AdjMat .{g} (invF .{g} (X 0))).mulVec {ta})) :=
  inv_tangent_{g} X {A} hX hu{scu}

/-- `{g}_Act.backward`: `X_grad = c @ Act_Jacobian(out)`, `p_grad = c @ Matrix(X)[:3,:3]` -/
theorem {g}_Act_tangent (X p : ℝ → DVec ℝ) ({A} b0 b1 b2 : ℝ)
    (hX : GTangent .{g} X {ta}) (hp : LCurve 3 p [b0, b1, b2]) {unit} :
    LCurve 3 (fun t => actF .{g} (X t) (p t))
      (DVec.add ((ActJac .{g} (v3 (actF .{g} (X 0) (p 0)))).mulVec {ta}) (DMat.mulVec (Mat33 .{g} (X 0)).toRows [b0, b1, b2])) :=
  act_tangent_{g} X p {A} b0 b1 b2 hX hp hu

/-- `{g}_Act4.backward` (homogeneous points, any `w`) -/
theorem {g}_Act4_tangent (X p : ℝ → DVec ℝ) ({A} b0 b1 b2 b3 : ℝ)
    (hX : GTangent .{g} X {ta}) (hp : LCurve 4 p [b0, b1, b2, b3]) {unit} :
    LCurve 4 (fun t => act4F .{g} (X t) (p t))
      (DVec.add ((Act4Jac .{g} (v3 (act4F .{g} (X 0) (p 0))) (nth (act4F .{g} (X 0) (p 0)) 3)).mulVec {ta})
        ((Mat44 .{g} (X 0)).mulVec [b0, b1, b2, b3])) :=
  act4_tangent_{g} X p {A} b0 b1 b2 b3 hX hp hu

/-- `{g}_AdjXa.backward`: `X_grad = -c @ adj(out)`, `a_grad = c @ Adj(X)` -/
theorem {g}_Adj_tangent (X : ℝ → DVec ℝ) ({binders('al', m)} : ℝ → ℝ) ({A} {B} : ℝ)
    (hX : GTangent .{g} X {ta}) {halh} {unit} :
    LCurve {m} (fun t => adjF .{g} (X t) {als})
      (DVec.add (DVec.neg ((adMat .{g} (adjF .{g} (X 0) {al0})).mulVec {ta})) ((AdjMat .{g} (X 0)).mulVec {tb})) :=
  adj_tangent_{g} X {binders('al', m)} {A} {B} hX {haln} hu

/-- `{g}_AdjTXa.backward`: both returned gradients are transposes of `Adj(X⁻¹)·adj(a)·τ + Adj(X⁻¹)·da` -/
theorem {g}_AdjT_tangent (X : ℝ → DVec ℝ) ({binders('al', m)} : ℝ → ℝ) ({A} {B} : ℝ)
    (hX : GTangent .{g} X {ta}) {halh} {unit}{sc} :
    LCurve {m} (fun t => adjTF .{g} (X t) {als})
      (DVec.add ((AdjMat .{g} (invF .{g} (X 0))).mulVec ((adMat .{g} {al0}).mulVec {ta}))
        ((AdjMat .{g} (invF .{g} (X 0))).mulVec {tb})) :=
  adjT_tangent_{g} X {binders('al', m)} {A} {B} hX {haln} hu{scu}

/-- `matrix()` of a `{g}` element (`{N}×{N}`, through `Act` on the identity columns) -/
theorem {g}_matrix_tangent (X : ℝ → DVec ℝ) ({A} : ℝ) (hX : GTangent .{g} X {ta}) {unit} :
    LCurve {N*N} (fun t => matrixF .{g} (X t)) (matrixT .{g} (X 0) {ta}) :=
  matrix_tangent_{g} X {A} hX hu
"""


def props_section():
    return "".join(props_group(g) for g in GD)


def write_props():
    f = Path(__file__).resolve().parent.parent / "lean" / "Proofs" / "Props" / "C04.lean"
    s = f.read_text()
    a = s.index("-- BEGIN GENERATED LOCAL") + len("-- BEGIN GENERATED LOCAL")
    b = s.index("-- END GENERATED LOCAL")
    f.write_text(s[:a] + "\n" + props_section() + "\n" + s[b:])


if __name__ == "__main__":
    main()
    write_props()
