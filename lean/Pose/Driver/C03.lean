import Pose.Wire
import Pose.Driver.Lie
/-! Driver ops for C03. -/
namespace PP.Driver
open PP Wire

def opsC03 : List (String × Handler) := []

end PP.Driver
